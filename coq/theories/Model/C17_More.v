(* C17 (deepening) -- executable models of: the Heat1D solution map (forward Euler with the coded tridiagonal
   diffusion matrix and the coded step count), the Poisson1D operator/source/observation, the string phantoms
   with rational values (square, hat, pc, skyscraper), and scale-free comparison functions.  No proofs here. *)
From CV Require Import Base.Tac Base.LinAlg Base.Cmp Base.QcLin Model.C17_TP.
From Coq Require Import QArith Qcanon Qabs Qround.

(* ------------------------------------------------------------------------------------------ *)
(* matrices given by an entry function (np.diag / np.concatenate assemblies)                    *)
(* ------------------------------------------------------------------------------------------ *)
Section Band.
Variable R : Type.
Variables (r0 r1 : R) (radd rmul : R -> R -> R) (ropp : R -> R).

Definition mat_of (n m : nat) (e : nat -> nat -> R) : list (list R) :=
  map (fun r => map (e r) (seq 0 m)) (seq 0 n).
Definition delta (a b : nat) (v : R) : R := if (a =? b)%nat then v else r0.

(* Heat1D:  dx^2 * Dxx = np.diag(-2*ones(N)) + np.diag(ones(N-1),-1) + np.diag(ones(N-1),1) *)
Definition dxx_entry (r c : nat) : R :=
  radd (radd (delta c r (ropp (radd r1 r1))) (delta (c + 1) r r1)) (delta c (r + 1) r1).
Definition dxx_matrix (N : nat) : list (list R) := mat_of N N dxx_entry.

(* Poisson1D:  dx * Dx = concatenate([e_0^T], -diag(ones(N)) + diag(ones(N-1),1))    ((N+1) x N) *)
Definition pdx_entry (r c : nat) : R :=
  match r with
  | O => delta c 0 r1
  | S r' => radd (delta c r' (ropp r1)) (delta c (r' + 1) r1)
  end.
Definition pdx_matrix (N : nat) : list (list R) := mat_of (N + 1) N pdx_entry.
(* dx^2 * (Dx^T diag(kappa) Dx) u *)
Definition poisson_op (N : nat) (kappa u : list R) : list R :=
  let D := pdx_matrix N in
  mattvec r0 radd rmul N D (map (fun p => rmul (fst p) (snd p)) (combine kappa (matvec r0 radd rmul D u))).

(* forward Euler as coded: u_{k+1} = (dt*A + I) u_k   (the source term of Heat1D is zero) *)
Definition euler_step (dtA : list (list R)) (u : list R) : list R :=
  vadd radd (matvec r0 radd rmul dtA u) u.
Fixpoint euler_levels (steps : nat) (dtA : list (list R)) (u : list R) : list (list R) :=
  match steps with O => [u] | S k => u :: euler_levels k dtA (euler_step dtA u) end.
Definition euler_final (steps : nat) (dtA : list (list R)) (u : list R) : list R :=
  last (euler_levels steps dtA u) u.
End Band.

Arguments mat_of {R} n m e.
Arguments delta {R} r0 a b v.
Arguments dxx_entry {R} r0 r1 radd ropp r c.
Arguments dxx_matrix {R} r0 r1 radd ropp N.
Arguments pdx_entry {R} r0 r1 radd ropp r c.
Arguments pdx_matrix {R} r0 r1 radd ropp N.
Arguments poisson_op {R} r0 r1 radd rmul ropp N kappa u.
Arguments euler_step {R} r0 radd rmul dtA u.
Arguments euler_levels {R} r0 radd rmul steps dtA u.
Arguments euler_final {R} r0 radd rmul steps dtA u.

(* ---------------- Heat1D over Qc ---------------- *)
(* N = dim nodes, dx = endpoint/(N+1), dt_approx = (5/11) dx^2, steps = int(max_time/dt_approx) (float floor: taken
   from the implementation's time grid and CHECKED against the exact ratio), time grid = linspace(0,T,steps+1) *)
Definition heat_dx (N : nat) (ep : Qc) : Qc := (ep / zq (Z.of_nat (N + 1)))%Qc.
Definition heat_ratio (N : nat) (ep T : Qc) : Qc := (T / (Q2Qc (5 # 11) * (heat_dx N ep * heat_dx N ep)))%Qc.
Definition fuzz : Qc := Q2Qc (1 # 1099511627776).        (* 2^-40 *)
Definition heat_steps_ok (N : nat) (ep T : Qc) (steps : nat) : bool :=
  let r := heat_ratio N ep T in let s := zq (Z.of_nat steps) in
  Qle_bool (this s) (this (r * (1 + fuzz))%Qc) && negb (Qle_bool (this (s + 1)%Qc) (this (r * (1 - fuzz))%Qc)).
(* the exact step count when the ratio is not within 2^-40 of an integer *)
Definition heat_steps_exact (N : nat) (ep T : Qc) : nat := Z.to_nat (Qfloor (this (heat_ratio N ep T))).
Definition heat_dtA (N : nat) (ep T : Qc) (steps : nat) : list (list Qc) :=
  let dx := heat_dx N ep in let c := (T / zq (Z.of_nat steps) / (dx * dx))%Qc in
  map (map (fun a => (c * a)%Qc)) (dxx_matrix 0%Qc 1%Qc Qcplus Qcopp N).
Definition heat_solution (N : nat) (ep T : Qc) (steps : nat) (u0 : list Qc) : list Qc :=
  if (steps =? 0)%nat then u0 else euler_final 0%Qc Qcplus Qcmult steps (heat_dtA N ep T steps) u0.
(* observation_grid_map selecting every second node (exact restriction in exact arithmetic; the code interpolates
   with a spline that is exact at the nodes) *)
Fixpoint every2 {A} (l : list A) : list A :=
  match l with [] => [] | a :: r => a :: match r with [] => [] | _ :: r' => every2 r' end end.

(* ---------------- Poisson1D over Qc ---------------- *)
(* N = dim-1 solution nodes, dx = endpoint/N; source sampled on linspace(dx, endpoint, N, endpoint=False) *)
Definition poisson_grid (N : nat) (ep : Qc) : list Qc :=
  let dx := (ep / zq (Z.of_nat N))%Qc in
  map (fun i => (dx + zq (Z.of_nat i) * ((ep - dx) / zq (Z.of_nat N)))%Qc) (seq 0 N).
Inductive psource := SrcOne | SrcLin | SrcQuad | SrcZero.      (* 1 ; 2x+1 ; 4x^2 ; 0  (the harness's named sources) *)
Definition src_eval (s : psource) (x : Qc) : Qc :=
  match s with SrcOne => 1%Qc | SrcLin => (zq 2 * x + 1)%Qc | SrcQuad => (zq 4 * x * x)%Qc | SrcZero => 0%Qc end.
Definition poisson_rhs (s : psource) (N : nat) (ep : Qc) : list Qc := map (src_eval s) (poisson_grid N ep).
Definition poisson_lhs (N : nat) (ep : Qc) (kappa u : list Qc) : list Qc :=
  let dx := (ep / zq (Z.of_nat N))%Qc in
  map (fun v => (v / (dx * dx))%Qc) (poisson_op 0%Qc 1%Qc Qcplus Qcmult Qcopp N kappa u).

(* ---------------- string phantoms with rational values ---------------- *)
(* Python round(): to nearest, ties to even *)
Definition py_round (q : Q) : Z :=
  let f := Qfloor q in let d := (q - inject_Z f)%Q in
  match Qcompare d (1 # 2) with
  | Lt => f | Gt => (f + 1)%Z | Eq => if Z.even f then f else (f + 1)%Z
  end.
(* 'square': x[dimh-w : dimh+w] = 1, dimh = round(dim/2), w = round(dim/param)  (slice indices clipped at 0 / dim;
   a negative start would wrap in numpy: outside the cells generated) *)
Definition phantom_square (dim : nat) (param : Q) : list Qc :=
  let dimh := py_round (inject_Z (Z.of_nat dim) / 2) in let w := py_round (inject_Z (Z.of_nat dim) / param) in
  map (fun i => let z := Z.of_nat i in if ((dimh - w <=? z) && (z <? dimh + w))%Z then 1%Qc else 0%Qc) (seq 0 dim).
(* 'hat': x[dimh-w-1 : dimh] = arange(w+1)/w ; x[dimh-1 : dimh+w] = flipud(arange(w+1))/w ;  None when w = 0 (0/0) *)
Definition phantom_hat (dim : nat) (param : Q) : option (list Qc) :=
  let dimh := py_round (inject_Z (Z.of_nat dim) / 2) in let w := py_round (inject_Z (Z.of_nat dim) / param) in
  if (w <=? 0)%Z then None else
  Some (map (fun i => let z := Z.of_nat i in
      if ((dimh - 1 <=? z) && (z <? dimh + w))%Z then (zq (w - (z - (dimh - 1))) / zq w)%Qc
      else if ((dimh - w - 1 <=? z) && (z <? dimh))%Z then (zq (z - (dimh - w - 1)) / zq w)%Qc
      else 0%Qc) (seq 0 dim)).
(* piecewise constant phantoms on mesh = linspace(0,1,dim): value of the first interval [lo,hi) containing x,
   the last interval closed on the right *)
Fixpoint pw_value (x : Q) (breaks : list Q) (vals : list Q) : Q :=
  match breaks, vals with
  | b :: breaks', v :: vals' => if Qle_bool b x then pw_value x breaks' vals' else v
  | [], v :: _ => v
  | _, [] => 0
  end.
(* breaks = the upper ends of all intervals but the last; vals = one value per interval *)
Definition pc_breaks : list Q := [1 # 10; 15 # 100; 2 # 10; 25 # 100; 3 # 10; 6 # 10].
Definition pc_vals : list Q := [0; 2; 3; 2; 0; 1; 0].
Definition sky_breaks : list Q := [10 # 100; 15 # 100; 20 # 100; 25 # 100; 35 # 100; 38 # 100; 45 # 100; 55 # 100; 75 # 100; 8 # 10].
Definition sky_vals : list Q := [0; 3 # 2; 0; 13 # 10; 0; 3 # 4; 0; 1 # 4; 0; 1; 0].
Definition mesh01 (dim : nat) (i : nat) : Q := inject_Z (Z.of_nat i) / inject_Z (Z.of_nat (dim - 1)).
Definition phantom_pw (breaks vals : list Q) (dim : nat) : list Qc :=
  map (fun i => Q2Qc (pw_value (mesh01 dim i) breaks vals)) (seq 0 dim).
(* a mesh point closer than 2^-40 to a break point: float comparison may fall on either side -> case not generated *)
Definition pw_safe (breaks : list Q) (dim : nat) : bool :=
  forallb (fun i => forallb (fun b => negb (Qle_bool (Qabs (mesh01 dim i - b)) (1 # 1099511627776))) breaks) (seq 0 dim).

(* ---------------- scale-free comparisons ---------------- *)
(* |a_i - b_i| <= tol * max_j |b_j|   (relative to the magnitude of the model vector; exact zero vector -> equality) *)
Definition qmaxabs (l : list Qc) : Q := fold_right (fun a m => if Qle_bool m (Qabs (this a)) then Qabs (this a) else m) 0%Q l.
Definition qcl_rclose (tol : Q) (obs model : list Qc) : bool :=
  let s := qmaxabs model in
  list_eqb (fun a b => Qle_bool (Qabs (this a - this b)) (tol * s)) obs model.
Definition qcll_rclose (tol : Q) (obs model : list (list Qc)) : bool :=
  let s := qmaxabs (concat model) in
  list_eqb (list_eqb (fun a b => Qle_bool (Qabs (this a - this b)) (tol * s))) obs model.
Definition qc_rclose (tol : Q) (a b : Qc) : bool := Qle_bool (Qabs (this a - this b)) (tol * Qabs (this b)).

Definition check_heat (tol : Q) (N : nat) (ep T : Qc) (steps : nat) (u0 obs : list Qc) : bool :=
  heat_steps_ok N ep T steps && qcl_rclose tol obs (heat_solution N ep T steps u0).
Definition check_heat_every2 (tol : Q) (N : nat) (ep T : Qc) (steps : nat) (u0 obs : list Qc) : bool :=
  heat_steps_ok N ep T steps &&
  (let m := heat_solution N ep T steps u0 in
   list_eqb (fun a b => Qle_bool (Qabs (this a - this b)) (tol * qmaxabs m)) obs (every2 m)).
(* exactData u solves the documented equation with the model's own operator AND source *)
Definition check_poisson_full (tol : Q) (s : psource) (N : nat) (ep : Qc) (kappa u : list Qc) : bool :=
  qcl_rclose tol (poisson_lhs N ep kappa u) (poisson_rhs s N ep).
(* the grid published as range geometry / PDE solution grid.  As coded (fixed = false):
   linspace(1/(dim-1), endpoint, dim-1, endpoint=False) -- starts at 1/N whatever the endpoint; repaired: = poisson_grid *)
Definition poisson_range_grid (fixed : bool) (N : nat) (ep : Qc) : list Qc :=
  let s := if fixed then (ep / zq (Z.of_nat N))%Qc else (1 / zq (Z.of_nat N))%Qc in
  map (fun i => (s + zq (Z.of_nat i) * ((ep - s) / zq (Z.of_nat N)))%Qc) (seq 0 N).
Definition check_poisson_grid (tol : Q) (fixed : bool) (N : nat) (ep : Qc) (obs : list Qc) : bool :=
  qcl_rclose tol obs (poisson_range_grid fixed N ep).
Definition check_phantom (tol : Q) (model : option (list Qc)) (obs : option (list Qc)) : bool := opt_eqb (qcl_close tol) obs model.

(* scale-free versions of the data rules and operators of C17_TP *)
Definition check_data_gaussian_r tol s exact z obs :=
  qcl_rclose tol (qvsub obs exact) (qvscale (qcabs s) z).
Definition check_data_snr_r tol (snr sigma : Qc) exact z obs :=
  Qle_bool 0 (this sigma) && qc_rclose tol (sigma * sigma)%Qc (snr_sigma2 snr exact)
  && qcl_rclose tol (qvsub obs exact) (qvscale sigma z).
Definition check_deconv1_qr (tol : Q) (fixed : bool) (m : bc) (P : list Qc) (n : nat) (obsA : list (list Qc))
           (x obsAx : list Qc) : bool :=
  let A := qdeconv1_matrix fixed m P n in
  qcll_rclose tol obsA A && qcl_rclose tol obsAx (qmatvec A x).
Definition check_abel_r (tol : Q) (n : nat) (endpoint : Qc) (obs : list (list Qc)) : bool :=
  qcll_rclose tol (map (map (fun a => (a * a)%Qc)) obs) (abel_sq_matrix n endpoint)
  && forallb (forallb (fun a => Qle_bool 0 (this a))) obs.
Definition check_deconv2_qr (tol : Q) (m : bc) (P X : list (list Qc)) (obs : list (list Qc)) : bool :=
  proj_shape_ok P X && qcll_rclose tol obs (qproj_forward_2d m P X).
Definition check_data_gaussian_rel tol s exact z obs := qcl_rclose tol obs (data_gaussian s exact z).
Definition check_data_snr_rel tol (snr sigma : Qc) exact z obs :=
  Qle_bool 0 (this sigma) && qc_rclose tol (sigma * sigma)%Qc (snr_sigma2 snr exact)
  && qcl_rclose tol obs (data_snr sigma exact z).

(* ---------------- constructor arguments: a default is applied ONLY when the argument is omitted (None) ---------------- *)
Definition with_default {A : Type} (supplied : option A) (default : A) : A :=
  match supplied with Some v => v | None => default end.
(* WangCubic(noise_std=1, prior=None, data=None): `if data is None: data = 1` *)
Record cubic_args := mkCubicArgs { ca_noise_std : option Qc; ca_data : option Qc }.
Record cubic_problem := mkCubicProblem { cp_data : Qc; cp_cov : Qc }.
Definition cubic_construct (a : cubic_args) : cubic_problem :=
  mkCubicProblem (with_default (ca_data a) 1%Qc) (let s := with_default (ca_noise_std a) 1%Qc in (s * s)%Qc).
Definition check_cubic_args (a : cubic_args) (obs_data obs_lik_data obs_cov : Qc) : bool :=
  let p := cubic_construct a in
  qc_eqb obs_data (cp_data p) && qc_eqb obs_lik_data (cp_data p) && qc_eqb obs_cov (cp_cov p).
(* Deconvolution1D/2D noise_std (defaults 0.01 / 0.0036): likelihood covariance = (supplied or default)^2 *)
Definition check_default_sq (tol : Q) (supplied : option Qc) (default obs_cov : Qc) : bool :=
  let s := with_default supplied default in qc_rclose tol obs_cov (s * s)%Qc.
Definition check_default (tol : Q) (supplied : option Qc) (default obs : Qc) : bool :=
  qc_rclose tol obs (with_default supplied default).

(* ---------------- which domain geometry a PDE/Abel test problem gets ---------------- *)
(* field_type: None | a documented name | a Geometry INSTANCE of some class; map: given or not.
   Documented: the base geometry is chosen by field_type, and it is wrapped in MappedGeometry(base, map, imap)
   whenever a map is given -- for names AND for instances. *)
Inductive gclass := GContinuous1D | GKL | GKLFull | GStep | GCustomKL.
Inductive ftype := FNone | FName (c : gclass) | FInstance (c : gclass).
Definition gclass_code (c : gclass) : nat :=
  match c with GContinuous1D => 0 | GKL => 1 | GKLFull => 2 | GStep => 3 | GCustomKL => 4 end%nat.
Definition base_class (f : ftype) : gclass :=
  match f with FNone => GContinuous1D | FName c => c | FInstance c => c end.
(* (is a MappedGeometry, class of the (wrapped) base geometry, base is the very object passed in) *)
Definition domain_geometry_desc (f : ftype) (has_map : bool) : bool * nat * bool :=
  (has_map, gclass_code (base_class f), match f with FInstance _ => true | _ => false end).
Definition check_domain_geometry (f : ftype) (has_map : bool) (obs_mapped : bool) (obs_class : nat) (obs_same_object : bool)
           (obs_map_is_supplied obs_imap_is_supplied : bool) : bool :=
  let '(m, c, inst) := domain_geometry_desc f has_map in
  Bool.eqb obs_mapped m && (obs_class =? c)%nat && (if inst then obs_same_object else true)
  && (if has_map then obs_map_is_supplied && obs_imap_is_supplied else true).
(* Abel1D forward = A . (function values): A checked against the quadrature, then applied *)
Definition check_abel_forward (tol : Q) (n : nat) (endpoint : Qc) (obsA : list (list Qc)) (f obs : list Qc) : bool :=
  check_abel_r tol n endpoint obsA && qcl_rclose tol obs (qmatvec obsA f).

(* Deconvolution2D adjoint as coded (forward with the PSF flipped in both axes), float PSFs *)
Definition qproj_backward_2d := proj_backward_2d 0%Qc Qcplus Qcmult.
Definition check_backward2_q (tol : Q) (m : bc) (P X : list (list Qc)) (obs : list (list Qc)) : bool :=
  qcll_close tol obs (qproj_backward_2d m P X).
Definition check_backward2_qr (tol : Q) (m : bc) (P X : list (list Qc)) (obs : list (list Qc)) : bool :=
  qcll_rclose tol obs (qproj_backward_2d m P X).

(* piecewise-constant phantoms evaluated on the FLOAT values of the mesh and of the break-point literals (exact rationals of
   the binary64 numbers): the comparisons of the code are then reproduced exactly, also when a mesh point hits a break point *)
Definition phantom_pw_f (breaks vals mesh : list Q) : list Qc := map (fun x => Q2Qc (pw_value x breaks vals)) mesh.
(* mesh linspace(-1,1,dim) and the point of smallest modulus, where the vonMises phantom attains its maximum *)
Definition mesh11 (dim i : nat) : Q :=
  if (dim <=? 1)%nat then (-1)%Q else (-1 + inject_Z (2 * Z.of_nat i) / inject_Z (Z.of_nat (dim - 1)))%Q.
Definition argmin_abs (l : list Q) (d : Q) : Q :=
  fold_left (fun best x => if Qle_bool (Qabs best) (Qabs x) then best else x) l d.
Definition vonmises_tm (dim : nat) : Q := argmin_abs (map (mesh11 dim) (seq 0 dim)) (mesh11 dim 0).

(* observation on a sub-grid of the nodes (observation_grid_map): restriction to the selected node indices *)
Definition pick (idx : list nat) (l : list Qc) : list Qc := map (fun i => nth i l 0%Qc) idx.
Definition check_heat_sel (tol : Q) (N : nat) (ep T : Qc) (steps : nat) (u0 : list Qc) (idx : list nat) (obs : list Qc) : bool :=
  heat_steps_ok N ep T steps &&
  (let m := heat_solution N ep T steps u0 in
   list_eqb (fun a b => Qle_bool (Qabs (this a - this b)) (tol * qmaxabs m)) obs (pick idx m)).
