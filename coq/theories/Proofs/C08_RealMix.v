(* C08 -- the slice variable log u = H0 - Exp(1) on a finite state space, over the reals.
   (1) the layer-cake mixture of C08_Finite.v with REAL class masses;
   (2) the exponential layer cake: class boundaries b_0 < b_1 < ... (the values of the Hamiltonian), masses
       e^b_0, e^b_1 - e^b_0, ...: pi(s) = e^H(s) (telescoping);
   (3) the law of the class of log u = h - E, E ~ Exp(1), from the distribution function 1 - e^-c of Exp(1) (itself the
       integral of the density e^-e): class (b_(j-1), b_j] has probability (e^b_j - e^b_(j-1)) / e^h for b_j <= h;
   (4) together: with T(s,k) = sum_j P(log u in class j | s) P_j(s -> k), the measure e^H is invariant: sum_s e^H(s) T(s,k) = e^H(k). *)
From CV Require Import Base.Tac Base.Cmp Base.Ext Model.C08_NUTS Proofs.C08_Prog Proofs.C08_Tree Proofs.C08_Top Proofs.C08_Block
                       Proofs.C08_Sim Proofs.C08_Cycle Proofs.C08_SliceTop Proofs.C08_Closed Proofs.C08_Finite.
From Coq Require Import QArith Qreals Reals Lra.
From Coquelicot Require Import Coquelicot.
Local Open Scope R_scope.

(* ---------------- real sums over lists ---------------- *)
Definition rsum {T} (g : T -> R) (l : list T) : R := fold_right (fun s acc => g s + acc) 0 l.

Lemma rsum_cons {T} (g : T -> R) a l : rsum g (a :: l) = g a + rsum g l.
Proof. reflexivity. Qed.

Lemma rsum_ext {T} (g h : T -> R) l : (forall s, In s l -> g s = h s) -> rsum g l = rsum h l.
Proof.
  induction l as [|a l IH]; intros Hx; [reflexivity|]. rewrite !rsum_cons, (Hx a (or_introl eq_refl)), IH; [reflexivity|].
  intros s Hs. apply Hx. right. exact Hs.
Qed.

Lemma rsum_zero {T} (g : T -> R) l : (forall s, In s l -> g s = 0) -> rsum g l = 0.
Proof.
  induction l as [|a l IH]; intros Hx; [reflexivity|]. rewrite rsum_cons, (Hx a (or_introl eq_refl)), IH; [lra|].
  intros s Hs. apply Hx. right. exact Hs.
Qed.

Lemma rsum_plus {T} (g h : T -> R) l : rsum (fun s => g s + h s) l = rsum g l + rsum h l.
Proof. induction l as [|a l IH]; [cbn; lra | rewrite !rsum_cons, IH; lra]. Qed.

Lemma rsum_scale {T} c (g : T -> R) l : rsum (fun s => c * g s) l = c * rsum g l.
Proof. induction l as [|a l IH]; [cbn; lra | rewrite !rsum_cons, IH; lra]. Qed.

Lemma rsum_swap {T T'} (f : T -> T' -> R) l1 l2 :
  rsum (fun a => rsum (fun b => f a b) l2) l1 = rsum (fun b => rsum (fun a => f a b) l1) l2.
Proof.
  induction l1 as [|a l1 IH].
  - symmetry. apply rsum_zero. reflexivity.
  - rewrite rsum_cons, IH, <- rsum_plus. reflexivity.
Qed.

Lemma Q2R_ssum {T} (g : T -> Q) l : Q2R (ssum g l) = rsum (fun s => Q2R (g s)) l.
Proof.
  induction l as [|a l IH]; [cbn; unfold Q2R; cbn; lra|].
  rewrite ssum_cons, rsum_cons, Q2R_plus, IH. reflexivity.
Qed.

Lemma Q2R_0' : Q2R 0 = 0.
Proof. unfold Q2R. cbn. lra. Qed.

Lemma Q2R_1' : Q2R 1 = 1.
Proof. unfold Q2R. cbn. lra. Qed.

(* ---------------- (1) the mixture with real masses ---------------- *)
Section RealMix.
Variable S : Type.
Variable leap : bool -> S -> S.
Hypothesis leap_back : forall v s, leap (negb v) (leap v s) = s.
Variable eqb : S -> S -> bool.
Hypothesis eqb_spec : forall a b, eqb a b = true <-> a = b.
Variable states : list S.
Hypothesis states_nd : NoDup states.
Hypothesis states_all : forall s, In s states.
Variables ham lgd : S -> ext.
Variable uturn : S -> S -> bool.
Variable alpha : S -> Q.
Variable guard : bool.
Hypothesis Hfin : guard = false \/ (forall s, finite_logd S lgd s = true).

(* P_j(s -> k) as a real number *)
Definition PR (logu : ext) (md : nat) (s k : S) : R :=
  Q2R (C08_NUTS.dist (transition S leap ham lgd uturn alpha logu guard md s) (fun tp => if eqb (p_cur tp) k then 1%Q else 0%Q)).

Definition indR (b : bool) : R := if b then 1 else 0.

Lemma level_flow (logu : ext) :
  (forall s, in_slice S ham logu s = true -> not_diverged S ham logu s = true) ->
  forall md k, rsum (fun s => indR (in_slice S ham logu s) * PR logu md s k) states = indR (in_slice S ham logu k).
Proof.
  intros Hsl md k. destruct (in_slice S ham logu k) eqn:Hk; cbn [indR].
  - pose proof (finite_stationary S leap leap_back eqb eqb_spec states states_nd states_all ham lgd uturn alpha guard Hfin logu Hsl md k Hk) as E.
    apply Qeq_eqR in E. rewrite Q2R_ssum, Q2R_1' in E. rewrite <- E. apply rsum_ext. intros s _.
    unfold PR. destruct (in_slice S ham logu s); cbn [indR]; [lra | rewrite Q2R_0'; lra].
  - apply rsum_zero. intros s _. destruct (in_slice S ham logu s) eqn:Hs; cbn [indR]; [|lra].
    unfold PR. rewrite (Qeq_eqR _ 0%Q); [rewrite Q2R_0'; lra|].
    apply (transition_out_of_slice_zero S leap ham lgd uturn alpha logu guard md s); [exact Hs|].
    intros tp Hc. destruct (eqb (p_cur tp) k) eqn:E; [|reflexivity]. apply eqb_spec in E. congruence.
Qed.

Definition piR (levels : list (ext * R)) (s : S) : R := rsum (fun lv => snd lv * indR (in_slice S ham (fst lv) s)) levels.

Theorem real_mixture_invariant (levels : list (ext * R)) :
  (forall lv, In lv levels -> forall s, in_slice S ham (fst lv) s = true -> not_diverged S ham (fst lv) s = true) ->
  forall md k,
  rsum (fun s => rsum (fun lv => snd lv * (indR (in_slice S ham (fst lv) s) * PR (fst lv) md s k)) levels) states = piR levels k.
Proof.
  intros Hlv md k. rewrite rsum_swap. unfold piR. apply rsum_ext. intros lv Hin.
  rewrite rsum_scale, (level_flow (fst lv) (Hlv lv Hin) md k). reflexivity.
Qed.

(* rows: the P_j(s -> .) are probability vectors *)
Lemma PR_rowsum logu md s : rsum (fun k => PR logu md s k) states = 1.
Proof.
  pose proof (P_rowsum S leap eqb eqb_spec states states_nd states_all ham lgd uturn alpha guard logu md s) as E.
  apply Qeq_eqR in E. rewrite Q2R_ssum, Q2R_1' in E. exact E.
Qed.
End RealMix.

(* ---------------- (2) the exponential layer cake ---------------- *)
(* class j = (b_(j-1), b_j] (class 0 = (-oo, b_0]); representative level: its upper end b_j; mass: the integral of e^t *)
Fixpoint lv_from (prev : R) (bs : list Q) : list (ext * R) :=
  match bs with
  | [] => []
  | b :: r => (Fin b, exp (Q2R b) - prev) :: lv_from (exp (Q2R b)) r
  end.
Definition exp_levels (bs : list Q) : list (ext * R) := lv_from 0 bs.

Fixpoint incr (bs : list Q) : Prop :=
  match bs with
  | [] => True
  | b :: r => (forall c, In c r -> (b < c)%Q) /\ incr r
  end.

Lemma lv_from_fst : forall bs prev lv, In lv (lv_from prev bs) -> exists c, In c bs /\ fst lv = Fin c.
Proof.
  induction bs as [|b r IH]; intros prev lv Hin; [destruct Hin|]. cbn [lv_from] in Hin. destruct Hin as [<- | Hin].
  - exists b. split; [left; reflexivity | reflexivity].
  - destruct (IH _ _ Hin) as (c & Hc & E). exists c. split; [right; exact Hc | exact E].
Qed.

Lemma lv_from_pos : forall bs prev, incr bs -> (forall c, In c bs -> prev < exp (Q2R c)) ->
  forall lv, In lv (lv_from prev bs) -> 0 < snd lv.
Proof.
  induction bs as [|b r IH]; intros prev Hi Hp lv Hin; [destruct Hin|]. cbn [lv_from] in Hin. destruct Hi as [Hb Hr].
  destruct Hin as [<- | Hin].
  - cbn [snd]. specialize (Hp b (or_introl eq_refl)). lra.
  - apply (IH (exp (Q2R b)) Hr); [|exact Hin]. intros c Hc. apply exp_increasing. apply Qlt_Rlt. apply Hb, Hc.
Qed.

(* telescoping: the masses of the classes at or below h add up to e^h - prev *)
Lemma layer_sum : forall bs prev (h : Q), incr bs -> In h bs ->
  rsum (fun lv => snd lv * indR (ext_le (fst lv) (Fin h))) (lv_from prev bs) = exp (Q2R h) - prev.
Proof.
  induction bs as [|b r IH]; intros prev h Hi Hin; [destruct Hin|]. destruct Hi as [Hb Hr].
  cbn [lv_from]. rewrite rsum_cons. cbn [fst snd ext_le]. destruct Hin as [-> | Hin].
  - replace (Qle_bool h h) with true by (symmetry; apply Qle_bool_iff; apply Qle_refl). cbn [indR].
    rewrite rsum_zero; [lra|]. intros lv Hlv. destruct (lv_from_fst _ _ _ Hlv) as (c & Hc & ->). cbn [ext_le].
    replace (Qle_bool c h) with false; [cbn [indR]; lra|]. symmetry. destruct (Qle_bool c h) eqn:E; [|reflexivity].
    apply Qle_bool_iff in E. specialize (Hb c Hc). exfalso. apply (Qlt_not_le _ _ Hb E).
  - replace (Qle_bool b h) with true by (symmetry; apply Qle_bool_iff; apply Qlt_le_weak; apply Hb, Hin). cbn [indR].
    rewrite (IH (exp (Q2R b)) h Hr Hin). lra.
Qed.

(* ---------------- (3) the law of the class of log u = h - E, E ~ Exp(1) ---------------- *)
(* the distribution function of Exp(1) is the integral of its density *)
Lemma exp1_cdf c : is_RInt (fun e => exp (- e)) 0 c (1 - exp (- c)).
Proof.
  replace (1 - exp (- c)) with ((- exp (- c)) - (- exp (- 0))) by (rewrite Ropp_0, exp_0; lra).
  apply (is_RInt_derive (fun e => - exp (- e)) (fun e => exp (- e))).
  - intros x _. auto_derive; [exact I | lra].
  - intros x _. apply (ex_derive_continuous (fun e => exp (- e)) x). auto_derive. exact I.
Qed.

(* P(h - E in (a, b]) = F(h - a) - F(h - b) with F c = 1 - e^-c, for a <= b <= h;  P(h - E <= b) = 1 - F(h - b) *)
Lemma exp_minus_div a h : exp (a - h) = exp a / exp h.
Proof. unfold Rminus, Rdiv. rewrite exp_plus, exp_Ropp. reflexivity. Qed.

Lemma class_prob a b h : (exp b - exp a) / exp h = (1 - exp (- (h - a))) - (1 - exp (- (h - b))).
Proof.
  replace (- (h - a)) with (a - h) by lra. replace (- (h - b)) with (b - h) by lra.
  rewrite !exp_minus_div. pose proof (exp_pos h). field. lra.
Qed.

Lemma class_prob_low b h : (exp b - 0) / exp h = 1 - (1 - exp (- (h - b))).
Proof.
  replace (- (h - b)) with (b - h) by lra. rewrite exp_minus_div. pose proof (exp_pos h). field. lra.
Qed.

(* ---------------- (4) the target e^H is invariant ---------------- *)
Section ExpTarget.
Variable S : Type.
Variable leap : bool -> S -> S.
Hypothesis leap_back : forall v s, leap (negb v) (leap v s) = s.
Variable eqb : S -> S -> bool.
Hypothesis eqb_spec : forall a b, eqb a b = true <-> a = b.
Variable states : list S.
Hypothesis states_nd : NoDup states.
Hypothesis states_all : forall s, In s states.
Variables ham lgd : S -> ext.
Variable uturn : S -> S -> bool.
Variable alpha : S -> Q.
Variable guard : bool.
Hypothesis Hfin : guard = false \/ (forall s, finite_logd S lgd s = true).
Variable hq : S -> Q.                         (* the Hamiltonian is finite everywhere *)
Hypothesis ham_fin : forall s, ham s = Fin (hq s).
Variable bs : list Q.                         (* its values, in increasing order *)
Hypothesis bs_incr : incr bs.
Hypothesis bs_all : forall s, In (hq s) bs.

Definition piE (s : S) : R := exp (Q2R (hq s)).

Lemma in_slice_fin b s : in_slice S ham (Fin b) s = ext_le (Fin b) (Fin (hq s)).
Proof. unfold in_slice. rewrite ham_fin. reflexivity. Qed.

Lemma piR_exp s : piR S ham (exp_levels bs) s = piE s.
Proof.
  unfold piR, exp_levels, piE.
  rewrite (rsum_ext _ (fun lv => snd lv * indR (ext_le (fst lv) (Fin (hq s))))).
  - rewrite (layer_sum bs 0 (hq s) bs_incr (bs_all s)). lra.
  - intros lv Hlv. destruct (lv_from_fst _ _ _ Hlv) as (c & _ & E). rewrite E, in_slice_fin. reflexivity.
Qed.

Lemma exp_levels_nd lv : In lv (exp_levels bs) -> forall s, in_slice S ham (fst lv) s = true -> not_diverged S ham (fst lv) s = true.
Proof. intros Hlv s. destruct (lv_from_fst _ _ _ Hlv) as (c & _ & E). rewrite E. apply in_slice_nd_fin. Qed.

Lemma exp_levels_pos lv : In lv (exp_levels bs) -> 0 < snd lv.
Proof. apply (lv_from_pos bs 0 bs_incr). intros c _. apply exp_pos. Qed.

(* probability that log u = H(s) - Exp(1) falls into the class of the level lv *)
Definition wcls (s : S) (lv : ext * R) : R := snd lv * indR (in_slice S ham (fst lv) s) / piE s.

Lemma wcls_nonneg s lv : In lv (exp_levels bs) -> 0 <= wcls s lv.
Proof.
  intros Hlv. unfold wcls, Rdiv. pose proof (exp_levels_pos lv Hlv). pose proof (exp_pos (Q2R (hq s))).
  apply Rmult_le_pos; [apply Rmult_le_pos; [lra | destruct (in_slice S ham (fst lv) s); cbn; lra]|].
  left. apply Rinv_0_lt_compat. exact H0.
Qed.

Lemma wcls_sum s : rsum (wcls s) (exp_levels bs) = 1.
Proof.
  unfold wcls. rewrite (rsum_ext _ (fun lv => / piE s * (snd lv * indR (in_slice S ham (fst lv) s)))) by (intros; unfold Rdiv; lra).
  rewrite rsum_scale. fold (piR S ham (exp_levels bs) s). rewrite piR_exp. unfold piE. pose proof (exp_pos (Q2R (hq s))). field. lra.
Qed.

(* one NUTS step at fixed momentum: log u = H(s) - Exp(1), then the transition *)
Definition TE (md : nat) (s k : S) : R :=
  rsum (fun lv => wcls s lv * PR S leap eqb ham lgd uturn alpha guard (fst lv) md s k) (exp_levels bs).

Theorem TE_stochastic md s : rsum (fun k => TE md s k) states = 1.
Proof.
  unfold TE. rewrite rsum_swap.
  rewrite (rsum_ext _ (wcls s)); [apply wcls_sum|]. intros lv _. cbv beta.
  transitivity (wcls s lv * rsum (fun k => PR S leap eqb ham lgd uturn alpha guard (fst lv) md s k) states);
    [rewrite <- rsum_scale; reflexivity|].
  rewrite (PR_rowsum S leap eqb eqb_spec states states_nd states_all ham lgd uturn alpha guard (fst lv) md s). lra.
Qed.

Theorem TE_invariant md k : rsum (fun s => piE s * TE md s k) states = piE k.
Proof.
  rewrite <- (piR_exp k).
  rewrite <- (real_mixture_invariant S leap leap_back eqb eqb_spec states states_nd states_all ham lgd uturn alpha guard Hfin
                (exp_levels bs) exp_levels_nd md k).
  apply rsum_ext. intros s _. unfold TE. rewrite <- rsum_scale. apply rsum_ext. intros lv _.
  unfold wcls, piE. pose proof (exp_pos (Q2R (hq s))). field. lra.
Qed.

(* any number of steps, each preceded by a refreshment kernel that preserves e^H *)
Fixpoint pushR (Rk G : S -> S -> R) (mu : S -> R) (n : nat) : S -> R :=
  match n with
  | O => mu
  | Datatypes.S n' => fun k => rsum (fun s' => rsum (fun s => pushR Rk G mu n' s * Rk s s') states * G s' k) states
  end.

Theorem exp_chain_invariant md (Rk : S -> S -> R) :
  (forall s', rsum (fun s => piE s * Rk s s') states = piE s') ->
  forall n k, pushR Rk (TE md) piE n k = piE k.
Proof.
  intros HR. induction n as [|n IH]; intros k; [reflexivity|].
  cbn [pushR]. rewrite <- (TE_invariant md k). apply rsum_ext. intros s' _.
  rewrite (rsum_ext _ (fun s => piE s * Rk s s')) by (intros s _; rewrite IH; reflexivity).
  rewrite HR. reflexivity.
Qed.
End ExpTarget.
