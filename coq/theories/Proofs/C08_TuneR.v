(* C08 -- dual averaging: the running mean H_bar in closed form, and the two closed forms compared with the code *)
From Coq Require Import Reals List ZArith Lia Lra.
From CV Require Import Model.C08_TuneR.
Import ListNotations.
Local Open Scope R_scope.

Lemma numbered_app : forall al k a, numbered k (al ++ [a]) = numbered k al ++ [((k + Z.of_nat (length al))%Z, a)].
Proof.
  induction al as [|x al IH]; intros k a; cbn [numbered app length].
  - replace (k + Z.of_nat 0)%Z with k by (cbn; lia). reflexivity.
  - rewrite IH. replace (k + 1 + Z.of_nat (length al))%Z with (k + Z.of_nat (S (length al)))%Z by lia. reflexivity.
Qed.

Lemma da_run_app mu delta : forall l1 s l2, da_run mu delta s (l1 ++ l2) = da_run mu delta (da_run mu delta s l1) l2.
Proof. induction l1 as [|x l1 IH]; intros s l2; cbn; [reflexivity | apply IH]. Qed.

(* H_bar (k + t_0) is the running sum of delta - alpha_i: H_bar is a t_0-regularised running mean *)
Lemma da_H_sum mu delta : forall al (m : Z) s,
  (0 <= m)%Z ->
  da_H (da_run mu delta s (numbered (m + 1) al)) * (IZR (m + Z.of_nat (length al)) + da_t0)
  = da_H s * (IZR m + da_t0) + dsum delta al.
Proof.
  induction al as [|a al IH]; intros m s Hm.
  - cbn. rewrite Z.add_0_r. ring.
  - cbn [numbered da_run length dsum fold_right].
    replace (m + Z.of_nat (S (length al)))%Z with ((m + 1) + Z.of_nat (length al))%Z by lia.
    rewrite (IH (m + 1)%Z) by lia. fold (dsum delta al).
    cbn [da_step da_H fst snd]. rewrite plus_IZR. unfold da_t0.
    assert (0 <= IZR m) by (apply IZR_le; exact Hm). field. lra.
Qed.

Theorem da_H_closed eps0 delta al :
  da_H (da_after eps0 delta al) = dsum delta al / (IZR (Z.of_nat (length al)) + da_t0).
Proof.
  unfold da_after. pose proof (da_H_sum (da_mu eps0) delta al 0 (da_init eps0) (Z.le_refl 0)) as E.
  cbn [da_init da_H Z.add] in E. replace (0 + 1)%Z with 1%Z in E by lia.
  assert (Hp : 0 <= IZR (Z.of_nat (length al))) by (apply IZR_le; lia).
  unfold da_t0 in *. replace (0 + Z.of_nat (length al))%Z with (Z.of_nat (length al)) in E by lia.
  apply (Rmult_eq_reg_r (IZR (Z.of_nat (length al)) + 10)); [|lra]. rewrite E. field. lra.
Qed.

(* the step size after the last statistic is read off the H_bar it has just produced *)
Lemma da_eps_last mu delta : forall al k s, al <> [] ->
  da_eps (da_run mu delta s (numbered k al))
  = exp (mu - sqrt (IZR (k + Z.of_nat (length al) - 1)) / da_gamma * da_H (da_run mu delta s (numbered k al))).
Proof.
  induction al as [|a al IH]; intros k s Hne; [congruence|].
  destruct al as [|a2 al].
  - cbn. replace (k + 1 - 1)%Z with k by lia. reflexivity.
  - cbn [numbered da_run]. cbn [numbered da_run] in IH. rewrite (IH (k + 1)%Z) by discriminate.
    replace (k + 1 + Z.of_nat (length (a2 :: al)) - 1)%Z with (k + Z.of_nat (length (a :: a2 :: al)) - 1)%Z by (cbn [length]; lia).
    reflexivity.
Qed.

Theorem da_eps_closed_ok eps0 delta al : al <> [] ->
  da_eps (da_after eps0 delta al) = da_eps_closed eps0 delta (Z.of_nat (length al)) al.
Proof.
  intros Hne. unfold da_after, da_eps_closed. rewrite (da_eps_last _ _ al 1 _ Hne).
  fold (da_after eps0 delta al). rewrite da_H_closed.
  replace (1 + Z.of_nat (length al) - 1)%Z with (Z.of_nat (length al)) by lia. reflexivity.
Qed.

Theorem da_bar_step_ok eps0 delta al a :
  da_bar (da_after eps0 delta (al ++ [a]))
  = da_bar_step (Z.of_nat (length al) + 1) (da_eps (da_after eps0 delta (al ++ [a]))) (da_bar (da_after eps0 delta al)).
Proof.
  unfold da_after. rewrite numbered_app, da_run_app. cbn [da_run da_step da_bar da_eps fst snd].
  unfold da_bar_step. replace (1 + Z.of_nat (length al))%Z with (Z.of_nat (length al) + 1)%Z by lia. reflexivity.
Qed.
