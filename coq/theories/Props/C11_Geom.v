(* C11, second part -- geometry objects inside the denotation, and evaluation operations as heap transitions.
   `den_g k h l` reads object l through ALL its non-cache fields including the `_geometry` slot and the geometry object
   behind it (grid, axis labels, ...); the single identification it makes is that for a distribution with no unresolved
   parameter (`plain`) a default geometry, set or still unset, is not read (its dimension is a function of the parameters).
   `ext_g` is the corresponding frame relation. *)
From CV Require Import Base.Tac Model.C11_Heap Proofs.C11_Heap Proofs.C11_Geom.
From Coq Require String.
Import String.StringSyntax.
Open Scope string_scope.
Open Scope list_scope.

Theorem C11_frame_g : forall (k : nat) (h h' : heap), closed h -> ext_g h h' ->
  forall l, l < length h -> den_g k h' l = den_g k h l.
Proof. exact den_g_ext. Qed.
Print Assumptions C11_frame_g.

Theorem C11_history_g : forall (hs : list heap) (h : heap) (k : nat) (l : loc),
  closed h -> chain_g h hs -> l < length h -> den_g k (last hs h) l = den_g k h l.
Proof. intros. apply history_g; assumption. Qed.
Print Assumptions C11_history_g.

(* link between the two layers: every transition that satisfies the strict frame relation (all operation theorems of
   Props/C11.v: make_copy, conditioning, to_likelihood, model application, sampler writes) also preserves the reading WITH
   geometry *)
Theorem C11_ext_preserves_geometry : forall (h h' : heap), closed h -> ext h h' ->
  ext_g h h' /\ forall k l, l < length h -> den_g k h' l = den_g k h l.
Proof. intros h h' C E. pose proof (ext_ext_g h h' C E) as G. split; [exact G|]. intros k l Hl. apply den_g_ext; assumption. Qed.
Print Assumptions C11_ext_preserves_geometry.

Theorem C11_frame_cond_g : forall (hints : list (string * list string)) (fuel : nat) (h : heap) (self : loc)
    (kw : list (string * value)) (h' : heap) (r : loc),
  cond hints false fuel h self kw = Some (h', r) -> closed h ->
  forall k l, l < length h -> den_g k h' l = den_g k h l.
Proof.
  intros hints fuel h self kw h' r H C k l Hl. destruct (cond_frame hints fuel h self kw h' r H) as [E _].
  apply den_g_ext; auto. apply ext_ext_g; assumption.
Qed.
Print Assumptions C11_frame_cond_g.

(* the executable check (strict form) run on observed transitions establishes the hypothesis of C11_frame_g *)
Theorem C11_frame_check_g_sound : forall h h' : heap, check_frame_g false h h' = true ->
  ext_g h h' /\ closed h /\ closed h' /\ forall k l, l < length h -> den_g k h' l = den_g k h l.
Proof. exact check_frame_g_sound. Qed.
Print Assumptions C11_frame_check_g_sound.

(* Distribution.geometry (run by dim, sample, gradient, repr, Gibbs bookkeeping ...): name synchronisation always, and the
   lazy assignment of an inferred default geometry provided the object has no unresolved parameter or its geometry is set *)
Theorem C11_frame_geometry_getter : forall (h : heap) (l : loc) (dim : option value),
  closed h -> touch_ok h (TGeom l dim) = true ->
  ext_g h (geometry_getter h l dim) /\ forall k l', l' < length h -> den_g k (geometry_getter h l dim) l' = den_g k h l'.
Proof.
  intros h l dim C Ok. pose proof (geometry_getter_frame h l dim C Ok) as E. split; [exact E|].
  intros k l' Hl. apply den_g_ext; assumption.
Qed.
Print Assumptions C11_frame_geometry_getter.

(* renaming a forward model by applying it to a distribution: reads the distribution's geometry (same guard), copies the
   model and writes the new argument name on the copy *)
Theorem C11_frame_model_apply : forall (h : heap) (m d : loc) (h1 : heap) (r : loc),
  closed h -> touch_ok h (TGeom d (Some wild)) = true -> closed (geometry_getter h d (Some wild)) ->
  model_apply h m d = Some (h1, r) ->
  ext_g h h1 /\ length h <= r /\ forall k l, l < length h -> den_g k h1 l = den_g k h l.
Proof.
  intros h m d h1 r C Ok C2 H. destruct (model_apply_frame_g h m d h1 r C Ok C2 H) as [E L].
  split; [exact E|]. split; [exact L|]. intros k l Hl. apply den_g_ext; assumption.
Qed.
Print Assumptions C11_frame_model_apply.

(* REFUTED outside that guard (open finding Distribution.geometry|lazy-default-geometry-cached-on-conditional-original):
   on a conditional original whose default geometry is still unset the getter changes the object's own reading, and the
   conditioned copies made afterwards share the prematurely inferred geometry *)
Theorem C11_frame_geometry_getter_refuted :
  exists (h : heap) (l : loc) (d : value), closed h /\ touch_ok h (TGeom l (Some d)) = false /\ l < length h /\
    den_g 3 (geometry_getter h l (Some d)) l <> den_g 3 h l.
Proof. exact geometry_getter_refuted. Qed.
Print Assumptions C11_frame_geometry_getter_refuted.

(* Evaluation operations as transitions: ANY sequence of the getter effects an evaluation can run on the objects it
   reaches (geometry getter, mutable-variables cache, Lognormal re-synchronisation), each under its side condition, leaves
   the reading of every object unchanged.  The harness checks (`check_eval`) that every observed logd / gradient / sample /
   dim / sampler-run transition lies inside this footprint. *)
Theorem C11_frame_eval : forall (ts : list touch_op) (h : heap), closed h -> touch_all_ok h ts = true ->
  ext_g h (touch h ts) /\ forall k l, l < length h -> den_g k (touch h ts) l = den_g k h l.
Proof.
  intros ts h C Ok. pose proof (touch_frame ts h C Ok) as E. split; [exact E|]. intros k l Hl. apply den_g_ext; assumption.
Qed.
Print Assumptions C11_frame_eval.

(* Lognormal: after the `_normal` getter the inner Gaussian carries exactly the mean and covariance of the object that is
   being read, whatever another copy left there *)
Theorem C11_lognormal_sync_reads : forall (h : heap) (self : loc) (o : obj) (g : loc) (og : obj) (m c : value),
  get h self = Some o -> getf o "_Gaussian" = Some (VRef g) -> get h g = Some og ->
  getf o "mean" = Some m -> getf o "cov" = Some c ->
  getattr (lognormal_sync h self) g "_mean" = Some m /\ getattr (lognormal_sync h self) g "_cov" = Some c.
Proof. exact lognormal_sync_reads. Qed.
Print Assumptions C11_lognormal_sync_reads.

(* non-vacuity: a plain Gamma with an unset default geometry; geometry getter + variables cache meet the side conditions,
   allocate the inferred geometry and leave the reading unchanged *)
Example C11_geometry_example :
  closed geom_witness_plain /\ touch_all_ok geom_witness_plain [TGeom 0 (Some (VTok 9)); TVars 0 ["shape"; "rate"]] = true /\
  den_g 3 (touch geom_witness_plain [TGeom 0 (Some (VTok 9)); TVars 0 ["shape"; "rate"]]) 0 = den_g 3 geom_witness_plain 0 /\
  length (touch geom_witness_plain [TGeom 0 (Some (VTok 9))]) = 3.
Proof. exact geometry_getter_example. Qed.
