(* C20 -- log det (L L^T) = 2 sum_i log l_ii for a positive diagonal (reals; stdlib real axioms only) *)
From CV Require Import Proofs.C20_LogDet.
From Coq Require Import Reals List.
Local Open Scope R_scope.

Theorem C20_logdet_sum : forall l : list R, Forall (fun a => 0 < a) l ->
  ln ((rprod l) ^ 2) = 2 * rsum (map ln l).
Proof. exact logdet_from_diag. Qed.
Print Assumptions C20_logdet_sum.
