(* C04 -- proofs, part 2: the Gaussian parameterisations.
   Scalar / vector / diagonal inputs: covariance v, precision 1/v, square-root covariance sqrt v and
   square-root precision 1/sqrt v give the same canonical triple, hence the same log-density, which is
   the logarithm of the product of the documented 1-d normal densities; scalar input = vector of
   repeats (every dimension).  Full matrices: see mc/C04_Forms.v (mathcomp); here the executable
   witness for the sqrtcov convention and the order-0 GMRF constant. *)
From CV Require Import Base.Tac Base.Cmp Model.C04_Dens Proofs.C04_Dens.
From Coq Require Import QArith Reals Lra.
From Coquelicot Require Import Coquelicot.
Local Open Scope R_scope.
Notation Forall := List.Forall.

(* the parameter value that denotes variance v in each of the four forms *)
Definition gparam (f : gform) (v : R) : R :=
  match f with FCov => v | FPrec => / v | FSqrtcov => sqrt v | FSqrtprec => / sqrt v end.

Lemma gparam_sqrtprec f v : 0 < v -> gd_sqrtprec f (gparam f v) = / sqrt v.
Proof.
  intros Hv. pose proof (sqrt_lt_R0 v Hv) as Hs.
  destruct f; cbn [gd_sqrtprec gparam].
  - unfold Rdiv. rewrite Rmult_1_l. apply sqrt_inv.
  - apply sqrt_inv.
  - unfold Rdiv. apply Rmult_1_l.
  - reflexivity.
Qed.

Lemma gparam_logdet f v : 0 < v -> gd_logdet1 f (gparam f v) = ln v.
Proof.
  intros Hv. pose proof (sqrt_lt_R0 v Hv) as Hs.
  assert (Hsq : sqrt v ^ 2 = v) by (cbn [pow]; rewrite Rmult_1_r; apply sqrt_sqrt; lra).
  destruct f; cbn [gd_logdet1 gparam].
  - reflexivity.
  - rewrite ln_Rinv by exact Hv. lra.
  - rewrite Hsq. reflexivity.
  - replace ((/ sqrt v) ^ 2) with (/ v).
    + rewrite ln_Rinv by exact Hv. lra.
    + rewrite <- Hsq at 1. field. lra.
Qed.

Lemma ln_sqrt_half x : 0 < x -> ln (sqrt x) = ln x / 2.
Proof.
  intros Hx. pose proof (sqrt_lt_R0 x Hx) as Hs.
  assert (E : ln x = ln (sqrt x) + ln (sqrt x)).
  { rewrite <- ln_mult by assumption. rewrite sqrt_sqrt by lra. reflexivity. }
  lra.
Qed.

Lemma normal_term_var m v t : 0 < v ->
  normal_term (m, sqrt v, t) = - / 2 * (ln (2 * PI) + ln v) + - / 2 * (/ sqrt v * (t - m)) ^ 2.
Proof.
  intros Hv. pose proof (sqrt_lt_R0 v Hv) as Hs. pose proof sqrt_2PI_pos as Hp. pose proof PI_RGT_0.
  unfold normal_term.
  rewrite ln_mult by assumption. rewrite !ln_sqrt_half by lra.
  replace ((t - m) / sqrt v) with (/ sqrt v * (t - m)) by (field; lra). lra.
Qed.

Lemma gauss_diag_core f : forall x V M, length V = length x -> length M = length x -> Forall (fun v => 0 < v) V ->
  gauss_canon (length x) (rsum (map (gd_logdet1 f) (map (gparam f) V)))
    (rsum (map (fun a : R * R * R => let '(s, m, t) := a in (gd_sqrtprec f s * (t - m)) ^ 2) (zip3 (map (gparam f) V) M x)))
  = rsum (map normal_term (zip3 M (map sqrt V) x)).
Proof.
  induction x as [|t x IH]; intros [|v V] [|m M] HV HM Hpos; try discriminate.
  - unfold gauss_canon, gauss_logupdf. cbn. lra.
  - cbn [length] in HV, HM. injection HV as HV. injection HM as HM.
    inversion Hpos as [|? ? Hv Hpos']; subst.
    specialize (IH V M HV HM Hpos').
    cbn [map zip3 rsum fold_right length].
    rewrite normal_term_var by exact Hv.
    rewrite gparam_sqrtprec, gparam_logdet by exact Hv.
    unfold rsum in *. rewrite <- IH. unfold gauss_canon, gauss_logupdf. rewrite S_INR. lra.
Qed.

Lemma bc_same n (p : list R) : length p = n -> bc n p = p.
Proof. intros H. destruct p as [|a [|b p]]; cbn in *; try reflexivity. subst n. reflexivity. Qed.

Lemma map_repeat {A B} (g : A -> B) a n : map g (repeat a n) = repeat (g a) n.
Proof. induction n; cbn; congruence. Qed.

(* vector (and diagonal-matrix) input in any of the four forms = product of the documented normal densities *)
Theorem gauss_diag_vector_doc f V mean x :
  length V = length x -> (length mean = 1%nat \/ length mean = length x) -> Forall (fun v => 0 < v) V ->
  gauss_diag_logpdf f false (length x) (map (gparam f) V) mean x = normal_logpdf mean (map sqrt V) x.
Proof.
  intros HV Hm Hpos. unfold gauss_diag_logpdf, gd_logdet, gd_quad, normal_logpdf, normal_args.
  rewrite (bc_same (length x) (map (gparam f) V)) by (rewrite map_length; exact HV).
  rewrite (bc_same (length x) (map sqrt V)) by (rewrite map_length; exact HV).
  apply gauss_diag_core; [exact HV | apply bc_length; exact Hm | exact Hpos].
Qed.

(* scalar input broadcast over dim = length x coordinates *)
Theorem gauss_diag_scalar_doc f v mean x :
  (length mean = 1%nat \/ length mean = length x) -> 0 < v ->
  gauss_diag_logpdf f true (length x) (gparam f v :: nil) mean x = normal_logpdf mean (sqrt v :: nil) x.
Proof.
  intros Hm Hv. unfold gauss_diag_logpdf, gd_logdet, gd_quad, normal_logpdf, normal_args.
  change (bc (length x) (gparam f v :: nil)) with (repeat (gparam f v) (length x)).
  change (bc (length x) (sqrt v :: nil)) with (repeat (sqrt v) (length x)).
  cbn [hd]. rewrite <- (map_repeat sqrt v (length x)).
  rewrite <- (gauss_diag_core f x (repeat v (length x)) (bc (length x) mean)).
  - rewrite !map_repeat, rsum_repeat. reflexivity.
  - apply repeat_length.
  - apply bc_length; exact Hm.
  - generalize (length x). intros n. induction n; cbn; constructor; assumption.
Qed.

(* ... hence the four forms denote the same distribution, scalar = vector of repeats, and the value is ln of the documented pdf *)
Theorem gauss_diag_forms_agree f g V mean x :
  length V = length x -> (length mean = 1%nat \/ length mean = length x) -> Forall (fun v => 0 < v) V ->
  gauss_diag_logpdf f false (length x) (map (gparam f) V) mean x =
  gauss_diag_logpdf g false (length x) (map (gparam g) V) mean x.
Proof. intros H1 H2 H3. rewrite !gauss_diag_vector_doc by assumption. reflexivity. Qed.

Theorem gauss_diag_scalar_forms_agree f g v mean x :
  (length mean = 1%nat \/ length mean = length x) -> 0 < v ->
  gauss_diag_logpdf f true (length x) (gparam f v :: nil) mean x =
  gauss_diag_logpdf g true (length x) (gparam g v :: nil) mean x.
Proof. intros H1 H2. rewrite !gauss_diag_scalar_doc by assumption. reflexivity. Qed.

Theorem gauss_diag_scalar_is_vector f v mean x :
  (length mean = 1%nat \/ length mean = length x) -> 0 < v ->
  gauss_diag_logpdf f true (length x) (gparam f v :: nil) mean x =
  gauss_diag_logpdf f false (length x) (map (gparam f) (repeat v (length x))) mean x.
Proof.
  intros Hm Hv. rewrite gauss_diag_scalar_doc by assumption.
  rewrite gauss_diag_vector_doc; [| apply repeat_length | exact Hm |].
  - unfold normal_logpdf, normal_args. rewrite map_repeat.
    rewrite (bc_same (length x) (repeat (sqrt v) (length x))) by apply repeat_length. reflexivity.
  - generalize (length x). intros n. induction n; cbn; constructor; assumption.
Qed.

Theorem gauss_diag_ln_pdf f V mean x :
  length V = length x -> (length mean = 1%nat \/ length mean = length x) -> Forall (fun v => 0 < v) V ->
  gauss_diag_logpdf f false (length x) (map (gparam f) V) mean x = ln (normal_pdf mean (map sqrt V) x).
Proof.
  intros H1 H2 H3. rewrite gauss_diag_vector_doc by assumption. apply normal_logpdf_doc.
  apply Forall_map. eapply Forall_impl; [|exact H3]. intros v Hv. apply sqrt_lt_R0. exact Hv.
Qed.

(* ---------- GMRF of order 0: the documented density is x_i ~ N(mean_i, 1/prec) ---------- *)
(* with the full rank (zero boundary condition) the code's constant is the documented one, every dimension *)
Theorem gmrf_order0_documented prec dd : 0 < prec ->
  gmrf_logpdf (length dd) prec 1 dd = normal_logpdf (0 :: nil) (sqrt (/ prec) :: nil) dd.
Proof.
  intros Hp. assert (Hv : 0 < / prec) by (apply Rinv_0_lt_compat; exact Hp).
  rewrite <- (gauss_diag_scalar_doc FPrec (/ prec) (0 :: nil) dd) by (auto; exact Hv).
  cbn [gparam]. rewrite Rinv_inv.
  unfold gmrf_logpdf, gauss_diag_logpdf, gauss_canon, gauss_logupdf, gd_logdet, gd_quad. cbn [hd gd_logdet1 bc].
  rewrite ln_1.
  assert (E : rsum (map (fun a : R * R * R => let '(s, m, x) := a in (gd_sqrtprec FPrec s * (x - m)) ^ 2)
                        (zip3 (repeat prec (length dd)) (repeat 0 (length dd)) dd))
              = prec * rsum (map (fun t => t * t) dd)).
  { induction dd as [|t dd IH]; cbn [length repeat zip3 map rsum fold_right]; [lra|].
    unfold rsum in *. rewrite IH. cbn [gd_sqrtprec pow]. rewrite Rminus_0_r.
    replace (sqrt prec * t * (sqrt prec * t * 1)) with (sqrt prec * sqrt prec * (t * t)) by ring.
    rewrite sqrt_sqrt by lra. ring. }
  rewrite E. lra.
Qed.

(* periodic / neumann: the code uses rank dim-1; already for dim 2 the constant is off by ln(2 pi)/2 *)
Theorem gmrf_order0_refuted :
  exists prec dd, 0 < prec /\ length dd = 2%nat /\
    gmrf_logpdf (gmrf_rank_code BPeriodic (length dd)) prec 1 dd <> normal_logpdf (0 :: nil) (sqrt (/ prec) :: nil) dd /\
    gmrf_rank_code BPeriodic (length dd) <> gmrf_true_rank 0 BPeriodic false (length dd).
Proof.
  exists 1, (0 :: 0 :: nil). split; [lra|]. split; [reflexivity|]. split; [|cbn; discriminate].
  rewrite <- gmrf_order0_documented by lra.
  unfold gmrf_logpdf. cbn [length gmrf_rank_code pred INR map rsum fold_right].
  rewrite ln_1. pose proof PI_RGT_0. pose proof PI2_1.
  assert (0 < ln (2 * PI)) by (rewrite <- ln_1; apply ln_increasing; lra).
  lra.
Qed.

(* the coded rank is the true rank of D^T D outside the two defective classes (the true rank is the
   subject of C20's null-space theorems; this is the table they establish) *)
Theorem gmrf_rank_guarded order b twod dim :
  (order = 1%nat \/ order = 2%nat /\ b <> BNeumann \/ b = BZero) -> (order <= 2)%nat -> b <> BBackward -> b <> BNone ->
  gmrf_rank_code b dim = gmrf_true_rank order b twod dim.
Proof.
  intros H Ho Hb1 Hb2.
  destruct order as [|[|[|o]]]; try lia; destruct b; try congruence; cbn; try reflexivity;
    destruct H as [H|[[H1 H2]|H]]; try discriminate; try congruence.
Qed.

(* ---------- sqrtcov = R (full matrix): the code forms R R^T, the docstring says R^T R ---------- *)
Local Open Scope Q_scope.
Theorem sqrtcov_convention_refuted :
  exists (M : list (list Q)) (d y y' : list Q) (dcov quad quad' : Q),
    gauss_dense_cert FSqrtcov 2 M y d dcov quad 2 = true /\          (* what the code computes: cov = M M^T *)
    gauss_sqrtcov_doc_cert 2 M y' d dcov quad' = true /\             (* the documented reading: cov = M^T M *)
    ~ quad == quad'.
Proof.
  exists ((1 :: 0 :: nil) :: (1 :: 1 :: nil) :: nil), (1 :: 0 :: nil), (2 :: -1 :: nil), (1 :: -1 :: nil), 1, 2, 1.
  split; [vm_compute; reflexivity|]. split; [vm_compute; reflexivity|]. intros H. discriminate H.
Qed.

(* for a symmetric R both readings are the same matrix, so the certificates coincide *)
Theorem sqrtcov_symmetric_agree n M y d dcov quad :
  qtr n M = M -> gauss_sqrtcov_doc_cert n M y d dcov quad = true ->
  gauss_dense_cert FSqrtcov n M y d dcov quad n = true <-> (0 < dcov).
Proof.
  intros Hsym Hdoc. unfold gauss_dense_cert, gauss_sqrtcov_doc_cert in *. rewrite Hsym in *.
  rewrite Hdoc, Nat.eqb_refl. cbn [andb]. rewrite andb_true_r.
  unfold Qlt_bool. rewrite negb_true_iff. split.
  - intros H. apply Qnot_le_lt. intros Hle. apply Qle_bool_iff in Hle. congruence.
  - intros H. destruct (Qle_bool dcov 0) eqn:E; [|reflexivity]. apply Qle_bool_iff in E. exfalso. apply (Qlt_not_le _ _ H E).
Qed.
