(* C08 -- the orbit abstraction (states = positions on one leapfrog orbit, S = Z): BuildTree
   visits a contiguous run of positions in order, the trajectory is a contiguous interval around
   the start, uniform sub-sampling as a probability 1/n', and the refuted non-finite clause. *)
From CV Require Import Base.Tac Base.Ext Model.C08_NUTS Proofs.C08_Prog Proofs.C08_Tree Proofs.C08_Top.
From Coq Require Import QArith Qabs Qminmax Lqa Qfield FinFun.
Local Open Scope Z_scope.

Lemma nodup_app {B} (l1 l2 : list B) :
  NoDup l1 -> NoDup l2 -> (forall x, In x l1 -> In x l2 -> False) -> NoDup (l1 ++ l2).
Proof.
  induction l1 as [|a l1 IH]; intros N1 N2 D; cbn; [exact N2|].
  inversion N1 as [|a' l' Ha N1']; subst. constructor.
  - intros Hin. apply in_app_or in Hin as [Hin | Hin]; [exact (Ha Hin) | exact (D a (or_introl eq_refl) Hin)].
  - apply IH; [exact N1' | exact N2 |]. intros x H1 H2. exact (D x (or_intror H1) H2).
Qed.


(* position t steps away from i in direction v *)
Definition opos (i : Z) (v : bool) (t : Z) : Z := if v then i + t else i - t.
(* the m positions following i in direction v, in the order they are visited *)
Definition oleaves (i : Z) (v : bool) (m : nat) : list Z := map (fun t => opos i v (Z.of_nat t)) (seq 1 m).

Lemma map_seq_shift {B} (f : nat -> B) (c : nat) : forall m a,
  map f (seq (a + c) m) = map (fun t => f (t + c)%nat) (seq a m).
Proof. induction m as [|m IH]; intros a; cbn; [reflexivity|]. f_equal. apply (IH (Datatypes.S a)). Qed.

Lemma oleaves_app i v m1 m2 :
  oleaves i v m1 ++ oleaves (opos i v (Z.of_nat m1)) v m2 = oleaves i v (m1 + m2).
Proof.
  unfold oleaves. rewrite seq_app, map_app. f_equal.
  rewrite (map_seq_shift (fun t => opos i v (Z.of_nat t)) m1 m2 1).
  apply map_ext. intros t. unfold opos. destruct v; lia.
Qed.

Lemma oleaves_length i v m : length (oleaves i v m) = m.
Proof. unfold oleaves. rewrite map_length, seq_length. reflexivity. Qed.

Lemma oleaves_In i v m x : In x (oleaves i v m) <-> exists t, (1 <= t <= Z.of_nat m)%Z /\ x = opos i v t.
Proof.
  unfold oleaves. rewrite in_map_iff. split.
  - intros (t & E & Hin). apply in_seq in Hin. exists (Z.of_nat t). split; [lia | congruence].
  - intros (t & Ht & ->). exists (Z.to_nat t). split; [f_equal; lia | apply in_seq; lia].
Qed.

Lemma oleaves_NoDup i v m : NoDup (oleaves i v m).
Proof.
  unfold oleaves. apply Injective_map_NoDup; [|apply seq_NoDup].
  intros a b E. unfold opos in E. destruct v; lia.
Qed.

Section OrbitProofs.
Variable H : Z -> ext.
Variable U : Z -> Z -> bool.
Variable A : Z -> Q.
Variable logu : ext.

Notation dbuildZ := (dbuild Z zleap H U A logu).

(* BuildTree(i, v, j) visits i+v, i+2v, ... in this order: all 2^j of them if it says continue,
   a non-empty prefix otherwise; its end points are the first and the last position visited *)
Theorem dbuild_orbit : forall j i v, exists m : nat,
  (1 <= m <= 2 ^ j)%nat /\
  k_leaves Z (dbuildZ i v j) = oleaves i v m /\
  (k_ok Z (dbuildZ i v j) = true -> m = (2 ^ j)%nat) /\
  k_minus Z (dbuildZ i v j) = (if v then i + 1 else i - Z.of_nat m) /\
  k_plus Z (dbuildZ i v j) = (if v then i + Z.of_nat m else i - 1).
Proof.
  induction j as [|j IH]; intros i v.
  - exists 1%nat. cbn. repeat split; try lia; destruct v; cbn; try reflexivity; f_equal; lia.
  - destruct (IH i v) as (m1 & B1 & L1 & O1 & M1 & P1).
    cbn [dbuild]. destruct (k_ok Z (dbuildZ i v j)) eqn:Hok.
    + specialize (O1 eq_refl). subst m1.
      set (e := if v then k_plus Z (dbuildZ i v j) else k_minus Z (dbuildZ i v j)).
      assert (Ee : e = opos i v (Z.of_nat (2 ^ j))) by (unfold e, opos; destruct v; [rewrite P1 | rewrite M1]; reflexivity).
      destruct (IH e v) as (m2 & B2 & L2 & O2 & M2 & P2).
      exists (2 ^ j + m2)%nat. cbn [k_leaves k_ok k_minus k_plus].
      assert (Hpow : (2 ^ Datatypes.S j = 2 ^ j + 2 ^ j)%nat) by (cbn; lia).
      repeat split.
      * lia.
      * lia.
      * rewrite L1, L2, Ee. apply oleaves_app.
      * intros Hk. apply andb_true_iff in Hk as [Hk _]. rewrite (O2 Hk). lia.
      * destruct v; [exact M1 | rewrite M2, Ee; unfold opos; lia].
      * destruct v; [rewrite P2, Ee; unfold opos; lia | exact P1].
    + exists m1. repeat split; try assumption; try lia.
      * assert (2 ^ j <= 2 ^ Datatypes.S j)%nat by (cbn; lia). lia.
      * intros Hk. congruence.
Qed.

(* uniform sub-sampling as a probability: every in-slice position BuildTree has visited is handed
   upwards with probability exactly 1/n' *)
Theorem selp_orbit j i v k :
  let d := dbuildZ i v j in
  In k (filter (in_slice Z H logu) (k_leaves Z d)) ->
  (selp Z zleap H U A logu Z.eqb i v j k == 1 / inject_Z (k_n Z d))%Q /\ (0 < k_n Z d)%Z.
Proof.
  intros d Hin.
  pose proof (selp_uniform Z zleap H U A logu Z.eqb j i v k) as Un. fold d in Un.
  destruct (dbuild_orbit j i v) as (m & _ & LL & _). fold d in LL.
  assert (Hocc : occ Z H logu Z.eqb k (k_leaves Z d) = 1%Z).
  { unfold occ. rewrite LL in *.
    assert (ND : NoDup (filter (in_slice Z H logu) (oleaves i v m))) by (apply NoDup_filter, oleaves_NoDup).
    revert Hin ND. generalize (filter (in_slice Z H logu) (oleaves i v m)). intros l.
    induction l as [|x l IHl]; intros Hin ND; [destruct Hin|].
    inversion ND as [|x' l' Hx ND']; subst. cbn [filter].
    destruct (Z.eqb x k) eqn:Exk.
    - apply Z.eqb_eq in Exk. subst x. cbn [length].
      assert (E0 : filter (fun y => Z.eqb y k) l = []).
      { clear - Hx. induction l as [|y l IH]; [reflexivity|]. cbn.
        destruct (Z.eqb y k) eqn:E; [apply Z.eqb_eq in E; subst; exfalso; apply Hx; left; reflexivity|].
        apply IH. intros Hc. apply Hx. right. exact Hc. }
      rewrite E0. reflexivity.
    - apply IHl; [|exact ND']. destruct Hin as [-> | Hin]; [rewrite Z.eqb_refl in Exk; discriminate | exact Hin]. }
  assert (Hn : (0 < k_n Z d)%Z).
  { unfold d. rewrite dbuild_counts. unfold cnt_slice. fold d. destruct (filter (in_slice Z H logu) (k_leaves Z d)); [destruct Hin | cbn; lia]. }
  split; [|exact Hn].
  rewrite Hocc in Un.
  assert (Hq : ~ (inject_Z (k_n Z d) == 0)%Q) by (intros Q0; unfold Qeq, inject_Z in Q0; simpl in Q0; lia).
  apply (Qmult_inj_r _ _ (inject_Z (k_n Z d)) Hq). rewrite Un. field. exact Hq.
Qed.

End OrbitProofs.

(* ---------------- the trajectory is a contiguous interval around the start ---------------- *)
Section OrbitTop.
Variable H : Z -> ext.
Variable L : Z -> ext.
Variable U : Z -> Z -> bool.
Variable A : Z -> Q.
Variable logu : ext.

Definition inv_interval (st : top Z) : Prop :=
  (p_minus st <= 0 <= p_plus st)%Z /\ NoDup (p_leaves st) /\
  (forall x, In x (p_leaves st) <-> (p_minus st <= x <= p_plus st /\ x <> 0)%Z) /\
  (p_s st = true -> p_plus st - p_minus st + 1 = 2 ^ Z.of_nat (p_j st))%Z.

Lemma inv_interval_step guard st : inv_interval st -> p_s st = true ->
  all_out inv_interval (doubling Z zleap H L U A logu guard st).
Proof.
  intros (Hb & ND & Hin & Hlen) Eps. apply doubling_inv_update. intros v t a K _ _.
  apply skel_fields in K. destruct K as (M & P & _ & O & _ & _ & LL & _).
  unfold dir_skel, dir_start in *.
  destruct (dbuild_orbit H U A logu (p_j st) (if v then p_plus st else p_minus st) v) as (m & Bm & L1 & O1 & M1 & P1).
  rewrite <- LL in L1. rewrite <- M in M1. rewrite <- P in P1. rewrite <- O in O1.
  unfold inv_interval. cbn [top_update p_minus p_plus p_leaves p_s p_j].
  assert (Hdisj : forall x, In x (p_leaves st) -> In x (t_leaves t) -> False).
  { intros x H1 H2. apply Hin in H1. rewrite L1 in H2. apply oleaves_In in H2 as (tt & Ht & ->).
    unfold opos in H1. destruct v; lia. }
  assert (Hnew : forall x, In x (t_leaves t) <-> exists tt, 1 <= tt <= Z.of_nat m /\ x = opos (if v then p_plus st else p_minus st) v tt).
  { intros x. rewrite L1. apply oleaves_In. }
  split; [|split; [|split]].
  - destruct v; [rewrite P1 | rewrite M1]; lia.
  - apply nodup_app; [exact ND | rewrite L1; apply oleaves_NoDup | exact Hdisj].
  - intros x. rewrite in_app_iff, Hnew, Hin. unfold opos. split.
    + intros [Hx | (tt & Ht & ->)]; destruct v; try rewrite P1; try rewrite M1; lia.
    + intros (Hr & Hne).
      destruct (Z_le_gt_dec (p_minus st) x) as [G1 | G1]; [destruct (Z_le_gt_dec x (p_plus st)) as [G2 | G2]|].
      * left. lia.
      * right. destruct v; [|lia]. exists (x - p_plus st). rewrite P1 in Hr. lia.
      * right. destruct v; [lia|]. exists (p_minus st - x). rewrite M1 in Hr. lia.
  - intros Hs. apply andb_true_iff in Hs as [Hs _]. specialize (O1 Hs).
    specialize (Hlen Eps). rewrite Nat2Z.inj_succ, Z.pow_succ_r by lia.
    assert (Em : Z.of_nat m = 2 ^ Z.of_nat (p_j st)).
    { rewrite O1. rewrite Nat2Z.inj_pow. reflexivity. }
    destruct v; [rewrite P1 | rewrite M1]; lia.
Qed.

Theorem transition_interval guard md : all_out inv_interval (transition Z zleap H L U A logu guard md 0%Z).
Proof.
  apply doublings_inv; [apply inv_interval_step|].
  unfold inv_interval. cbn. split; [lia | split; [constructor | split; [intros x; split; [intros [] | lia] | reflexivity]]].
Qed.

End OrbitTop.
