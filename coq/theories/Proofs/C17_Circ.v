(* C17 -- periodic convolution of unit vectors, and the legacy circulant as its transpose. *)
From CV Require Import Base.Tac Base.LinAlg Model.C17_TP Proofs.C17_Assembly Proofs.C17_Legacy.
From Coq Require Import Ring.

Section Circ.
Variable R : Type.
Variables (r0 r1 : R) (radd rmul rsub : R -> R -> R) (ropp : R -> R).
Hypothesis Rth : ring_theory r0 r1 radd rmul rsub ropp (@eq R).
Add Ring Rring17c : Rth.
Notation "x + y" := (radd x y).
Notation "x * y" := (rmul x y).
Local Notation sum_idx := (sum_idx r0 radd).
Local Notation unit_vec := (unit_vec r0 r1).

Lemma nth_vzero n t : nth t (vzero r0 n) r0 = r0.
Proof. unfold vzero. revert t; induction n; intros [|t]; simpl; auto. Qed.

Lemma nth_unit_vec n j t : (j < n)%nat -> nth t (unit_vec n j) r0 = if (t =? j)%nat then r1 else r0.
Proof.
  revert j t; induction n as [|n IH]; intros j t Hj; [lia|].
  destruct j as [|j]; destruct t as [|t]; cbn [LinAlg.unit_vec nth Nat.eqb]; try reflexivity.
  - apply nth_vzero.
  - apply IH. lia.
Qed.

Lemma sum_idx_zero (f : nat -> R) n : (forall k, (k < n)%nat -> f k = r0) -> sum_idx f n = r0.
Proof.
  intros H. unfold C17_TP.sum_idx.
  assert (G : forall s m, (forall k, (s <= k < s + m)%nat -> f k = r0) -> fold_right radd r0 (map f (seq s m)) = r0).
  { intros s m; revert s; induction m as [|m IH]; intros s Hk; simpl; [reflexivity|].
    rewrite Hk by lia. rewrite IH; [ring|]. intros k Hk'. apply Hk. lia. }
  apply G. intros k Hk. apply H. lia.
Qed.

Lemma sum_idx_single (f : nat -> R) n ks : (ks < n)%nat ->
  (forall k, (k < n)%nat -> k <> ks -> f k = r0) -> sum_idx f n = f ks.
Proof.
  intros Hks H. unfold C17_TP.sum_idx.
  assert (G : forall m s, (s <= ks < s + m)%nat -> (forall k, (s <= k < s + m)%nat -> k <> ks -> f k = r0) ->
              fold_right radd r0 (map f (seq s m)) = f ks).
  { induction m as [|m IH]; intros s Hr Hk; [lia|]. simpl.
    destruct (Nat.eq_dec s ks) as [->|Hne].
    - assert (Z0 : fold_right radd r0 (map f (seq (S ks) m)) = r0).
      { clear IH. assert (G0 : forall m' s', (ks < s')%nat -> (s' + m' <= ks + S m)%nat -> fold_right radd r0 (map f (seq s' m')) = r0).
        { induction m' as [|m' IH']; intros s' H1 H2; simpl; [reflexivity|].
          rewrite Hk by lia. rewrite IH' by lia. ring. }
        apply G0; lia. }
      rewrite Z0. ring.
    - rewrite Hk by lia. rewrite IH; [ring | lia |]. intros k Hk' Hn. apply Hk; lia. }
  apply G; [lia|]. intros k Hk Hn. apply H; [lia | exact Hn].
Qed.

Lemma ext_idx_wrap n z : (0 < n)%Z -> ext_idx BCwrap n z = Some (z mod n)%Z.
Proof.
  intros Hn. unfold ext_idx.
  destruct ((0 <=? z)%Z && (z <? n)%Z) eqn:E; [|reflexivity].
  apply andb_true_iff in E as [E1 E2]. apply Z.leb_le in E1. apply Z.ltb_lt in E2.
  rewrite Z.mod_small by lia. reflexivity.
Qed.

(* column j of the periodic convolution matrix: (P * e_j)[i] = P[(i - j + len/2) mod len] *)
Theorem circ_conv_entry (P : list R) n i j : length P = n -> (i < n)%nat -> (j < n)%nat ->
  conv1d_at r0 radd rmul BCwrap P (unit_vec n j) i = nth ((i + n - j + n / 2) mod n) P r0.
Proof.
  intros HP Hi Hj. unfold conv1d_at.
  rewrite (unit_vec_length R r0 r1), HP.
  set (ks := ((i + n - j + n / 2) mod n)%nat).
  assert (Hks : (ks < n)%nat) by (apply Nat.mod_upper_bound; lia).
  assert (Hn : (0 < Z.of_nat n)%Z) by lia.
  assert (KS : Z.of_nat ks = ((Z.of_nat i + Z.of_nat n - Z.of_nat j + Z.of_nat n / 2) mod Z.of_nat n)%Z).
  { unfold ks. rewrite Nat2Z.inj_mod.
    replace (Z.of_nat (i + n - j + n / 2)) with (Z.of_nat i + Z.of_nat n - Z.of_nat j + Z.of_nat n / 2)%Z; [reflexivity|].
    rewrite Nat2Z.inj_add, Nat2Z.inj_sub, Nat2Z.inj_add, Nat2Z.inj_div by lia. reflexivity. }
  rewrite (sum_idx_single _ n ks Hks).
  - rewrite ext_idx_wrap by exact Hn. cbn [getx].
    rewrite (nth_unit_vec n j) by exact Hj.
    assert (E : Z.to_nat ((Z.of_nat i - Z.of_nat ks + Z.of_nat n / 2) mod Z.of_nat n) = j).
    { rewrite KS.
      set (N := Z.of_nat n) in *. set (c := (N / 2)%Z).
      set (w := (Z.of_nat i + N - Z.of_nat j + c)%Z).
      assert (Ew : (Z.of_nat i - w mod N + c = Z.of_nat j + (w / N - 1) * N)%Z).
      { pose proof (Z.div_mod w N ltac:(lia)) as D. unfold w in *. lia. }
      rewrite Ew, Z.mod_add, Z.mod_small by lia. apply Nat2Z.id. }
    rewrite E, Nat.eqb_refl. ring.
  - intros k Hk Hne. rewrite ext_idx_wrap by exact Hn. cbn [getx].
    rewrite (nth_unit_vec n j) by exact Hj.
    destruct (Nat.eqb_spec (Z.to_nat ((Z.of_nat i - Z.of_nat k + Z.of_nat n / 2) mod Z.of_nat n)) j) as [E|E]; [|ring].
    exfalso. apply Hne. apply Nat2Z.inj. rewrite KS.
    set (N := Z.of_nat n) in *. set (c := (N / 2)%Z) in *.
    set (z := (Z.of_nat i - Z.of_nat k + c)%Z) in *.
    assert (Hz : (z mod N = Z.of_nat j)%Z).
    { rewrite <- E. rewrite Z2Nat.id; [reflexivity|]. apply Z.mod_pos_bound. exact Hn. }
    assert (Ew : (Z.of_nat i + N - Z.of_nat j + c = Z.of_nat k + (z / N + 1) * N)%Z).
    { pose proof (Z.div_mod z N ltac:(lia)) as D. unfold z in *. lia. }
    rewrite Ew, Z.mod_add, Z.mod_small by lia. reflexivity.
Qed.

(* the legacy matrix is the TRANSPOSE of the periodic convolution matrix with the same PSF:
   A_legacy[i][j] = (PSF * e_i)[j]  (entry (j,i) of the documented operator) *)
Theorem legacy_is_transposed_convolution dim (PSF : list R) :
  Nat.even dim = true -> length PSF = dim ->
  exists A, legacy_matrix r0 dim PSF = Some A /\
  forall i j, (i < dim)%nat -> (j < dim)%nat ->
    nth j (nth i A []) r0 = conv1d_at r0 radd rmul BCwrap PSF (unit_vec dim i) j.
Proof.
  intros Hev Hlen. destruct (legacy_entry R r0 dim PSF Hev Hlen) as [A [HA [_ HE]]].
  exists A. split; [exact HA|]. intros i j Hi Hj.
  rewrite HE by assumption. rewrite circ_conv_entry by assumption. reflexivity.
Qed.

(* the repaired legacy matrix is the periodic convolution matrix itself *)
Theorem legacy_fixed_is_convolution dim (PSF : list R) :
  Nat.even dim = true -> length PSF = dim ->
  exists A, legacy_matrix_fixed r0 dim PSF = Some A /\
  forall i j, (i < dim)%nat -> (j < dim)%nat ->
    nth j (nth i A []) r0 = conv1d_at r0 radd rmul BCwrap PSF (unit_vec dim j) i.
Proof.
  intros Hev Hlen. destruct (legacy_fixed_entry R r0 dim PSF Hev Hlen) as [A [HA [_ HE]]].
  exists A. split; [exact HA|]. intros i j Hi Hj.
  rewrite HE by assumption. rewrite circ_conv_entry by assumption. reflexivity.
Qed.

(* guard: a PSF symmetric about its centre index dim/2 makes the two coincide *)
Definition psf_symmetric (dim : nat) (PSF : list R) : Prop :=
  forall m, (m < dim)%nat -> nth ((dim / 2 + m) mod dim) PSF r0 = nth ((dim / 2 + dim - m) mod dim) PSF r0.

Theorem legacy_correct_if_symmetric dim (PSF : list R) :
  Nat.even dim = true -> length PSF = dim -> psf_symmetric dim PSF ->
  exists A, legacy_matrix r0 dim PSF = Some A /\
  forall i j, (i < dim)%nat -> (j < dim)%nat ->
    nth j (nth i A []) r0 = conv1d_at r0 radd rmul BCwrap PSF (unit_vec dim j) i.
Proof.
  intros Hev Hlen Hsym. destruct (legacy_entry R r0 dim PSF Hev Hlen) as [A [HA [_ HE]]].
  exists A. split; [exact HA|]. intros i j Hi Hj.
  rewrite HE by assumption. rewrite circ_conv_entry by assumption.
  destruct (Nat.le_gt_cases i j) as [L|L].
  - specialize (Hsym (j - i)%nat ltac:(lia)).
    replace ((j + dim - i + dim / 2) mod dim)%nat with ((dim / 2 + (j - i)) mod dim)%nat.
    2:{ assert (E : (j + dim - i + dim / 2 = (dim / 2 + (j - i)) + 1 * dim)%nat) by lia. rewrite E, Nat.mod_add by lia. reflexivity. }
    rewrite Hsym. f_equal. f_equal. lia.
  - specialize (Hsym (i - j)%nat ltac:(lia)).
    replace ((i + dim - j + dim / 2) mod dim)%nat with ((dim / 2 + (i - j)) mod dim)%nat.
    2:{ assert (E : (i + dim - j + dim / 2 = (dim / 2 + (i - j)) + 1 * dim)%nat) by lia. rewrite E, Nat.mod_add by lia. reflexivity. }
    rewrite Hsym. f_equal. f_equal. lia.
Qed.

End Circ.
