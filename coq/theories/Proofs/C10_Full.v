(* C10 -- dense full-matrix covariance / precision (the legacy sampler's wider class), from the LAWS of the numpy oracles
   (cholesky: L^T L = P; inv and log-determinant under scaling; rank of an invertible matrix) instead of a given factor;
   and the documented support rule of the regularized pairs. *)
From CV Require Import Base.Tac Base.LinAlg Model.C10_Conj Model.C10_ConjR Proofs.C10_Kernel Proofs.C10_Exact.
From Coq Require Import QArith Reals Lra Lia RealField.
Open Scope R_scope.

Lemma quad_mscale s P v : Rdot v (Rmatvec (Rmscale s P) v) = s * Rdot v (Rmatvec P v).
Proof.
  rewrite Rmatvec_mscale. unfold Rdot, Rvscale.
  exact (dot_vscale_r R 0 1 Rplus Rmult Rminus Ropp RTheory s v (Rmatvec P v)).
Qed.

Lemma quad_vscale s v w : Rdot v (Rvscale s w) = s * Rdot v w.
Proof. unfold Rdot, Rvscale. exact (dot_vscale_r R 0 1 Rplus Rmult Rminus Ropp RTheory s v w). Qed.

Section Full.
Variable lnGamma : R -> R.
Variables (rank_fn : Rmat -> nat) (logdet_fn : Rmat -> R) (inv_fn : Rmat -> Rmat) (cholT_fn : Rmat -> Rmat).
Notation post := (post_logd lnGamma).
Notation sampler := (sampler_logpdf lnGamma).

(* prec = s * P1 *)
Theorem gauss_precfull_exact prec_fun P1 Ax b alpha beta :
  let n := length b in
  (forall s, 0 < s -> prec_fun s = Rmscale s P1) ->
  (forall s, 0 < s -> chol_law n (cholT_fn (Rmscale s P1)) (Rmscale s P1)) ->          (* cholesky *)
  (forall s, 0 < s -> logdet_fn (Rmscale s P1) = INR n * ln s + logdet_fn P1) ->       (* det(sP) = s^n det P *)
  (forall s, 0 < s -> rank_fn (Rmscale s P1) = n) ->                                    (* P1 invertible *)
  length Ax = n ->
  proportional_on_pos (post (lik_gauss_precfull rank_fn logdet_fn cholT_fn prec_fun Ax b) alpha beta)
    (sampler (fst (fst (from_prec_full rank_fn logdet_fn cholT_fn (prec_fun 1))))
             (sqrtprec_of (from_prec_full rank_fn logdet_fn cholT_fn (prec_fun 1))) Ax b alpha beta).
Proof.
  intros n Hp Hch Hld Hrk Hl. unfold sampler_logpdf.
  assert (Hv : length (Rvsub b Ax) = n) by (rewrite Rvsub_length; unfold n; lia).
  apply (prop_from_core lnGamma _ (INR n) (Rdot (Rvsub b Ax) (Rmatvec P1 (Rvsub b Ax)))
           (- (1 / 2) * (INR n * ln (2 * PI) - logdet_fn P1))).
  - intros s Hs. unfold lik_gauss_precfull, from_prec_full, gaussian_of, gaussian_logpdf.
    rewrite (Hp s Hs), (Hrk s Hs), (Hld s Hs).
    rewrite (chol_quadratic n _ _ _ (Hch s Hs) Hv), quad_mscale. field.
  - rewrite (Hp 1) by lra. cbn [from_prec_full fst]. rewrite (Hrk 1) by lra. apply r_shape_eq.
  - rewrite (Hp 1) by lra. unfold sqrtprec_of, from_prec_full; cbn [snd]. rewrite r_rate_eq, Rnormsq_matvec_swap.
    rewrite (chol_quadratic n _ _ _ (Hch 1 ltac:(lra)) Hv), quad_mscale. field.
Qed.

(* cov = C1 / s *)
Theorem gauss_covfull_exact cov_fun C1 Ax b alpha beta :
  let n := length b in
  (forall s, 0 < s -> cov_fun s = Rmscale (1 / s) C1) ->
  (forall s, 0 < s -> chol_law n (cholT_fn (inv_fn (Rmscale (1 / s) C1))) (inv_fn (Rmscale (1 / s) C1))) ->        (* cholesky *)
  (forall s v, 0 < s -> length v = n ->
      Rmatvec (inv_fn (Rmscale (1 / s) C1)) v = Rvscale s (Rmatvec (inv_fn C1) v)) ->                              (* inv(C/s) = s inv(C) *)
  (forall s, 0 < s -> logdet_fn (Rmscale (1 / s) C1) = logdet_fn C1 - INR n * ln s) ->                            (* det(C/s) = det C / s^n *)
  (forall s, 0 < s -> rank_fn (Rmscale (1 / s) C1) = n) ->
  length Ax = n ->
  proportional_on_pos (post (lik_gauss_covfull rank_fn logdet_fn inv_fn cholT_fn cov_fun Ax b) alpha beta)
    (sampler (fst (fst (from_cov_full rank_fn logdet_fn inv_fn cholT_fn (cov_fun 1))))
             (sqrtprec_of (from_cov_full rank_fn logdet_fn inv_fn cholT_fn (cov_fun 1))) Ax b alpha beta).
Proof.
  intros n Hp Hch Hinv Hld Hrk Hl. unfold sampler_logpdf.
  assert (Hv : length (Rvsub b Ax) = n) by (rewrite Rvsub_length; unfold n; lia).
  apply (prop_from_core lnGamma _ (INR n) (Rdot (Rvsub b Ax) (Rmatvec (inv_fn C1) (Rvsub b Ax)))
           (- (1 / 2) * (INR n * ln (2 * PI) + logdet_fn C1))).
  - intros s Hs. unfold lik_gauss_covfull, from_cov_full, gaussian_of, gaussian_logpdf.
    rewrite (Hp s Hs), (Hrk s Hs), (Hld s Hs).
    rewrite (chol_quadratic n _ _ _ (Hch s Hs) Hv), (Hinv s _ Hs Hv), quad_vscale. field.
  - rewrite (Hp 1) by lra. cbn [from_cov_full fst]. rewrite (Hrk 1) by lra. apply r_shape_eq.
  - rewrite (Hp 1) by lra. unfold sqrtprec_of, from_cov_full; cbn [snd]. rewrite r_rate_eq, Rnormsq_matvec_swap.
    rewrite (chol_quadratic n _ _ _ (Hch 1 ltac:(lra)) Hv), (Hinv 1 _ ltac:(lra) Hv), quad_vscale. field.
Qed.

(* Regularized pairs (nonnegativity): the documented rule -- the Gaussian restricted to the components that are not at the
   bound: exponent (count_nonzero b)/2 of the hyper-parameter, unchanged quadratic term.  The Gamma the code builds
   (m = count_nonzero(b)) is the exact conditional of THAT density. *)
Theorem regularized_support_rule_exact (k : lik_kind) (bq : list Q) (gmrf_rank : nat) (lik : R -> R) (q c : R) L1 Ax b alpha beta :
  is_reg k = true ->
  (forall s, 0 < s -> lik s = INR (count_nonzero bq) / 2 * ln s - s * (q / 2) + c) ->
  Rnormsq (Rmatvec L1 (Rvsub Ax b)) = q ->
  proportional_on_pos (post lik alpha beta) (sampler (sampler_m k gmrf_rank bq) L1 Ax b alpha beta).
Proof.
  intros Hk Hlik Hq. unfold sampler_logpdf, sampler_m. rewrite Hk.
  apply (prop_from_core lnGamma lik (INR (count_nonzero bq)) q c); [exact Hlik | apply r_shape_eq | rewrite r_rate_eq, Hq; reflexivity].
Qed.
End Full.

(* non-vacuity: the oracle laws of gauss_precfull_exact hold for a concrete instance (1x1 matrices) *)
Definition ex_rank (M : Rmat) : nat := 1.
Definition ex_entry (M : Rmat) : R := nth 0 (nth 0 M []) 0.
Definition ex_logdet (M : Rmat) : R := ln (ex_entry M).
Definition ex_cholT (M : Rmat) : Rmat := [[sqrt (ex_entry M)]].

Lemma ex_laws :
  let P1 := [[2]] in let n := 1%nat in
  (forall s, 0 < s -> chol_law n (ex_cholT (Rmscale s P1)) (Rmscale s P1))
  /\ (forall s, 0 < s -> ex_logdet (Rmscale s P1) = INR n * ln s + ex_logdet P1)
  /\ (forall s, 0 < s -> ex_rank (Rmscale s P1) = n).
Proof.
  intros P1 n. repeat split.
  - repeat constructor.
  - intros v Hv. destruct v as [|a [|a' v]]; simpl in Hv; try discriminate.
    unfold ex_cholT, ex_entry, Rmattvec, Rmatvec, Rmscale, Rvscale, P1. simpl.
    f_equal. assert (E : sqrt (s * 2) * sqrt (s * 2) = s * 2) by (apply sqrt_sqrt; lra). nra.
  - intros s Hs. unfold ex_logdet, ex_entry, Rmscale, Rvscale, P1, n. simpl. rewrite ln_mult by lra. ring.
Qed.
