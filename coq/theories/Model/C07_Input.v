(* C07 -- the INPUT FORMS of forward / adjoint / T / @ (Model._apply_func): ndarray, CUQIarray (parameters or function
   values), Samples (the per-sample output buffer of the Samples branch), 2-d batches of column vectors -- and the flow of the
   numpy dtype of the stored data through the conversions (_2fun, the callable, _2par).  Values are exact (Qc, C07_Adj);
   here the dtype that numpy attaches to the result is modelled as well, and the matrix that forward / adjoint return when
   they are handed the identity matrix as Samples.  No proofs here. *)
From CV Require Import Base.Tac Base.LinAlg Base.Cmp Base.QcLin Model.C07_Adj.
From Coq Require Import QArith Qcanon.

Local Open Scope Qc_scope.

(* ------------------------------------------------------------------------------------------ *)
(* dtypes                                                                                      *)
(* ------------------------------------------------------------------------------------------ *)
Inductive dtype := DBool | DI32 | DI64 | DF32 | DF64.

Definition dtype_eqb (a b : dtype) : bool :=
  match a, b with
  | DBool, DBool | DI32, DI32 | DI64, DI64 | DF32, DF32 | DF64, DF64 => true
  | _, _ => false
  end.

Definition is_float (d : dtype) : bool := match d with DF32 | DF64 => true | _ => false end.

(* numpy.result_type of two ARRAYS (what `A @ x` returns) *)
Definition promote (a b : dtype) : dtype :=
  match a, b with
  | DF64, _ | _, DF64 => DF64
  | DBool, d | d, DBool => d
  | DF32, DF32 => DF32
  | DF32, _ | _, DF32 => DF64           (* float32 with int32 / int64 *)
  | DI64, _ | _, DI64 => DI64
  | DI32, DI32 => DI32
  end.

(* an array times / divided by a Python float scalar: floats keep their width, everything else becomes float64 *)
Definition weak_float (d : dtype) : dtype := if is_float d then d else DF64.

(* dtype of geometry.par2fun(x) / geometry.fun2par(f): reshapes keep it; StepExpansion fills np.zeros(...);
   KLExpansion multiplies with its float64 coefficient array; MappedGeometry applies c * . / . / c *)
Fixpoint p2f_dt (g : geom) (d : dtype) : dtype :=
  match g with
  | GId _ | GImage _ _ _ => d
  | GStep _ | GStepX _ _ => DF64
  | GLin _ _ _ _ => DF64
  | GScale _ _ g' => weak_float (p2f_dt g' d)
  end.
Fixpoint f2p_dt (g : geom) (d : dtype) : dtype :=
  match g with
  | GId _ | GImage _ _ _ => d
  | GStep _ | GStepX _ _ => DF64
  | GLin _ _ _ _ => DF64
  | GScale _ _ g' => f2p_dt g' (weak_float d)
  end.

(* ------------------------------------------------------------------------------------------ *)
(* input forms of Model._apply_func                                                           *)
(* ------------------------------------------------------------------------------------------ *)
Inductive form :=
| FArr        (* ndarray (one vector / one function value) *)
| FCuqi       (* CUQIarray carrying the geometry of the function's domain *)
| FSamples    (* cuqi.samples.Samples: mapped sample by sample into  out = np.zeros((par_dim, Ns))  *)
| FBatch.     (* 2-d ndarray whose columns are vectors (accepted where `@` and the geometry broadcast) *)

(* the container that comes back *)
Inductive wrapper := WNdarray | WCuqi | WSamples.
Definition wrapper_eqb (a b : wrapper) : bool :=
  match a, b with WNdarray, WNdarray | WCuqi, WCuqi | WSamples, WSamples => true | _, _ => false end.
Definition form_wrapper (f : form) : wrapper :=
  match f with FArr | FBatch => WNdarray | FCuqi => WCuqi | FSamples => WSamples end.

(* dtype of the result of _apply_func(func, rg, dg, x): opdt = dtype of the data the callable multiplies with (the stored
   matrix; the matrix behind a function pair), xdt = dtype of the array handed in, is_fun = function values were handed in *)
Definition apply_dt (f : form) (is_fun : bool) (opdt : dtype) (rg dg : geom) (xdt : dtype) : dtype :=
  match f with
  | FSamples => DF64
  | _ => f2p_dt rg (promote opdt (if is_fun then xdt else p2f_dt dg xdt))
  end.
Definition forward_dt (f : form) (is_fun : bool) (opdt : dtype) (m : lmodel) (xdt : dtype) : dtype :=
  apply_dt f is_fun opdt (lm_R m) (lm_D m) xdt.
Definition adjoint_dt (f : form) (is_fun : bool) (opdt : dtype) (m : lmodel) (xdt : dtype) : dtype :=
  apply_dt f is_fun opdt (lm_D m) (lm_R m) xdt.

(* ------------------------------------------------------------------------------------------ *)
(* forward(Samples(I)) and adjoint(Samples(I)): the array `.samples` of the result              *)
(* ------------------------------------------------------------------------------------------ *)
Definition units (n : nat) : list val := map (fun i => V1 (qunit n i)) (seq 0 n).
Definition vec_of (v : val) : option (list Qc) := match v with V1 l => Some l | V2 _ _ _ => None end.

(* the per-sample results written side by side as the COLUMNS of an (nrows x Ns) array; a sample whose result is not a
   vector of parameters cannot be written into the buffer (None) *)
Definition samples_array (nrows : nat) (outs : option (list val)) : option (list (list Qc)) :=
  obind outs (fun vs => option_map (tr nrows) (all_some (map vec_of vs))).

Definition forward_of_identity (m : lmodel) : option (list (list Qc)) :=
  samples_array (par_dim (lm_R m)) (forward_samples m RArrayPar (units (par_dim (lm_D m)))).
Definition adjoint_of_identity (m : lmodel) : option (list (list Qc)) :=
  samples_array (par_dim (lm_D m)) (adjoint_samples m RArrayPar (units (par_dim (lm_R m)))).

(* ------------------------------------------------------------------------------------------ *)
(* comparison with the implementation                                                         *)
(* ------------------------------------------------------------------------------------------ *)
Definition check_forward_dt f is_fun opdt m xdt (obs : dtype) : bool := dtype_eqb (forward_dt f is_fun opdt m xdt) obs.
Definition check_adjoint_dt f is_fun opdt m xdt (obs : dtype) : bool := dtype_eqb (adjoint_dt f is_fun opdt m xdt) obs.
Definition check_wrapper (f : form) (obs : wrapper) : bool := wrapper_eqb (form_wrapper f) obs.
Definition check_forward_of_identity (tol : Q) (m : lmodel) (obs : option (list (list Qc))) : bool :=
  mat_ok tol obs (forward_of_identity m).
Definition check_adjoint_of_identity (tol : Q) (m : lmodel) (obs : option (list (list Qc))) : bool :=
  mat_ok tol obs (adjoint_of_identity m).

(* a 2-d batch handed to a model AS IT IS (the real path: par2fun, the callable on the 2-d array, fun2par): obs = (rows, columns,
   row-major entries) of the 2-d array that came back *)
Definition val2_ok (tol : Q) (obs : option (nat * nat * list Qc)) (mod_ : option val) : bool :=
  match obs, mod_ with
  | None, None => true
  | Some (r, c, l), Some (V2 r' c' l') => (r =? r')%nat && (c =? c')%nat && qcl_close tol l l'
  | _, _ => false
  end.
Definition check_forward_batch (tol : Q) (m : lmodel) (r c : nat) (flat : list Qc) (obs : option (nat * nat * list Qc)) : bool :=
  val2_ok tol obs (forward m (V2 r c flat)).
Definition check_adjoint_batch (tol : Q) (m : lmodel) (r c : nat) (flat : list Qc) (obs : option (nat * nat * list Qc)) : bool :=
  val2_ok tol obs (adjoint m (V2 r c flat)).
