(* C19 -- proofs about the model in Model/C19_Stats.v *)
From CV Require Import Base.Tac Base.Cmp Model.C19_Stats.
From Coq Require Import QArith Qabs Sorting.Sorted Sorting.Permutation.
From Coq Require String.

(* ---------------- burn-in / thinning ---------------- *)
Section Chain.
Context {A : Type}.
Implicit Types l : list A.

Lemma stride_aux_nth l : forall p k i d,
  nth i (stride_aux p k l) d = nth (k + i * S p) l d.
Proof.
  induction l as [|x r IH]; intros p k i d.
  - cbn [stride_aux]. destruct i; destruct (k + _)%nat; reflexivity.
  - destruct k as [|k']; cbn [stride_aux].
    + destruct i as [|i']; [reflexivity|]. cbn [nth]. rewrite IH.
      replace (0 + S i' * S p)%nat with (S (p + i' * S p)) by lia. reflexivity.
    + rewrite IH. replace (S k' + i * S p)%nat with (S (k' + i * S p)) by lia. reflexivity.
Qed.

Lemma stride_aux_lt l : forall p k i,
  (i < length (stride_aux p k l) <-> k + i * S p < length l)%nat.
Proof.
  induction l as [|x r IH]; intros p k i.
  - cbn. lia.
  - destruct k as [|k']; cbn [stride_aux length].
    + destruct i as [|i']; [lia|]. specialize (IH p p i'). lia.
    + specialize (IH p k' i). lia.
Qed.

Lemma stride_aux_length l p k :
  length (stride_aux p k l) = ((length l - k + p) / S p)%nat.
Proof.
  set (n := length (stride_aux p k l)).
  assert (H1 : forall i, (i < n <-> k + i * S p < length l)%nat) by (intros; apply stride_aux_lt).
  assert (Hn : (n = 0 \/ k + (n - 1) * S p < length l)%nat).
  { destruct n as [|m]; [left; reflexivity | right; apply H1; lia]. }
  assert (Hn' : ~ (k + n * S p < length l)%nat) by (intros C; apply H1 in C; lia).
  apply Nat.div_unique with (r := ((length l - k + p) - n * S p)%nat); nia.
Qed.

Lemma nth_skipn' l : forall n i d, nth i (skipn n l) d = nth (n + i) l d.
Proof.
  induction l as [|x r IH]; intros n i d.
  - rewrite skipn_nil. destruct i; destruct (n + _)%nat; reflexivity.
  - destruct n as [|n']; [reflexivity|]. cbn [skipn]. rewrite IH. reflexivity.
Qed.

Lemma thin_nth l nt i d : (0 < nt)%nat -> nth i (thin nt l) d = nth (i * nt) l d.
Proof. intros H. unfold thin. rewrite stride_aux_nth. f_equal. replace (S (nt - 1)) with nt by lia. lia. Qed.

Lemma thin_length l nt : (0 < nt)%nat -> length (thin nt l) = ((length l + nt - 1) / nt)%nat.
Proof.
  intros H. unfold thin. rewrite stride_aux_length. replace (S (nt - 1)) with nt by lia.
  f_equal. lia.
Qed.

(* the i-th kept sample is stored sample Nb + i*Nt (for every i, also beyond the end: both sides
   are then the default), the count is ceil((Ns - Nb)/Nt) *)
Theorem burnthin_nth l nb nt r i d :
  burnthin nb nt l = Some r -> nth i r d = nth (nb + i * nt) l d.
Proof.
  unfold burnthin. destruct (length l <=? nb)%nat; [discriminate|].
  destruct (nt =? 0)%nat eqn:E; [discriminate|]. intros [= <-].
  rewrite thin_nth by lia. apply nth_skipn'.
Qed.

Theorem burnthin_length l nb nt r :
  burnthin nb nt l = Some r -> length r = ((length l - nb + nt - 1) / nt)%nat.
Proof.
  unfold burnthin. destruct (length l <=? nb)%nat; [discriminate|].
  destruct (nt =? 0)%nat eqn:E; [discriminate|]. intros [= <-].
  rewrite thin_length by lia. rewrite skipn_length. reflexivity.
Qed.

Theorem burnthin_defined l nb nt :
  (exists r, burnthin nb nt l = Some r) <-> (nb < length l /\ 0 < nt)%nat.
Proof.
  unfold burnthin. destruct (Nat.leb_spec (length l) nb); destruct (Nat.eqb_spec nt 0); split;
    try (intros [r [=]]); try lia; intros; eauto.
Qed.

Lemma burnthin_in_range l nb nt r i :
  burnthin nb nt l = Some r -> (i < length r <-> nb + i * nt < length l)%nat.
Proof.
  unfold burnthin. destruct (Nat.leb_spec (length l) nb); [discriminate|].
  destruct (Nat.eqb_spec nt 0); [discriminate|]. intros [= <-]. unfold thin.
  rewrite stride_aux_lt, skipn_length. replace (S (nt - 1)) with nt by lia. lia.
Qed.

(* every kept sample is a stored sample, in order: kept index i < j  =>  source index i' < j' *)
Theorem burnthin_order l nb nt r i j :
  burnthin nb nt l = Some r -> (i < j -> nb + i * nt < nb + j * nt)%nat.
Proof. intros H. pose proof (proj1 (burnthin_defined l nb nt) (ex_intro _ r H)). nia. Qed.

Lemma list_ext (x y : list A) :
  length x = length y -> (forall i d, (i < length x)%nat -> nth i x d = nth i y d) -> x = y.
Proof.
  revert y; induction x as [|a x IH]; intros [|b y] H1 H2; cbn in *; try lia; [reflexivity|].
  f_equal.
  - apply (H2 0%nat a). lia.
  - apply IH; [lia|]. intros i d Hi. apply (H2 (S i) d). lia.
Qed.

(* two successive burnthin calls compose *)
Theorem burnthin_compose l b1 t1 b2 t2 r1 :
  burnthin b1 t1 l = Some r1 ->
  burnthin b2 t2 r1 = burnthin (b1 + b2 * t1) (t1 * t2) l.
Proof.
  intros H1.
  pose proof (proj1 (burnthin_defined l b1 t1) (ex_intro _ r1 H1)) as [Hb1 Ht1].
  destruct (burnthin b2 t2 r1) as [r2|] eqn:H2; destruct (burnthin (b1 + b2 * t1) (t1 * t2) l) as [r3|] eqn:H3.
  - f_equal. apply list_ext.
    + pose proof (burnthin_in_range _ _ _ _ (length r2) H2).
      pose proof (burnthin_in_range _ _ _ _ (length r3) H3).
      pose proof (burnthin_in_range _ _ _ _ (length r3) H2).
      pose proof (burnthin_in_range _ _ _ _ (length r2) H3).
      pose proof (burnthin_in_range _ _ _ _ (b2 + length r2 * t2)%nat H1).
      pose proof (burnthin_in_range _ _ _ _ (b2 + length r3 * t2)%nat H1).
      assert (b1 + (b2 + length r2 * t2) * t1 = b1 + b2 * t1 + length r2 * (t1 * t2))%nat by nia.
      assert (b1 + (b2 + length r3 * t2) * t1 = b1 + b2 * t1 + length r3 * (t1 * t2))%nat by nia.
      lia.
    + intros i d _. rewrite (burnthin_nth _ _ _ _ i d H2), (burnthin_nth _ _ _ _ i d H3).
      rewrite (burnthin_nth _ _ _ _ _ d H1). f_equal. nia.
  - exfalso.
    pose proof (proj1 (burnthin_defined r1 b2 t2) (ex_intro _ r2 H2)) as [Hb2 Ht2].
    assert (~ (exists r, burnthin (b1 + b2 * t1) (t1 * t2) l = Some r)) as N by (intros [r Hr]; congruence).
    apply N. apply burnthin_defined. split; [|nia].
    apply (burnthin_in_range _ _ _ _ b2 H1). exact Hb2.
  - exfalso.
    pose proof (proj1 (burnthin_defined l _ _) (ex_intro _ r3 H3)) as [Hb3 Ht3].
    assert (~ (exists r, burnthin b2 t2 r1 = Some r)) as N by (intros [r Hr]; congruence).
    apply N. apply burnthin_defined. split; [|nia].
    apply (burnthin_in_range _ _ _ _ b2 H1). exact Hb3.
  - reflexivity.
Qed.

(* JointSamples: every member is burn-thinned with the same (Nb, Nt), keys and order kept *)
Theorem joint_burnthin_spec nb nt (J R : list (string * list A)) :
  joint_burnthin nb nt J = Some R ->
  map fst R = map fst J /\
  Forall2 (fun a b => burnthin nb nt (snd a) = Some (snd b)) J R.
Proof.
  revert R; induction J as [|[k c] J IH]; intros R; cbn [joint_burnthin].
  - intros [= <-]. split; constructor.
  - destruct (burnthin nb nt c) as [c'|] eqn:E; [|discriminate].
    destruct (joint_burnthin nb nt J) as [R'|]; [|discriminate]. intros [= <-].
    destruct (IH R' eq_refl) as [I1 I2]. split; [cbn; congruence | constructor; assumption].
Qed.

Theorem joint_burnthin_refused nb nt (J : list (string * list A)) :
  joint_burnthin nb nt J = None <-> Exists (fun a => burnthin nb nt (snd a) = None) J.
Proof.
  induction J as [|[k c] J IH]; cbn [joint_burnthin].
  - split; [discriminate | intros H; inversion H].
  - destruct (burnthin nb nt c) as [c'|] eqn:E.
    + destruct (joint_burnthin nb nt J) as [R'|]; split; try discriminate; intros H.
      * inversion H as [? ? H0|? ? H0]; subst; cbn in *; [congruence | apply IH in H0; discriminate].
      * apply Exists_cons_tl. apply IH. reflexivity.
      * reflexivity.
    + split; [intros _; apply Exists_cons_hd; exact E | reflexivity].
Qed.
End Chain.

Theorem obj_burnthin_flags {A} nb nt (s s' : samples_obj A) :
  obj_burnthin nb nt s = Some s' ->
  s_is_par s' = s_is_par s /\ s_is_vec s' = s_is_vec s /\ s_geom s' = s_geom s /\
  burnthin nb nt (s_chain s) = Some (s_chain s').
Proof.
  unfold obj_burnthin. destruct (burnthin nb nt (s_chain s)); [|discriminate].
  intros [= <-]. cbn. auto.
Qed.

(* ---------------- sorting ---------------- *)
Lemma insert_perm x l : Permutation (x :: l) (insert x l).
Proof.
  induction l as [|y r IH]; cbn; [constructor; constructor|].
  destruct (x <=? y)%Z; [apply Permutation_refl|].
  eapply perm_trans; [apply perm_swap|]. constructor. exact IH.
Qed.

Lemma isort_perm l : Permutation l (isort l).
Proof.
  induction l as [|x l IH]; cbn; [constructor|].
  eapply perm_trans; [|apply insert_perm]. constructor. exact IH.
Qed.

Lemma isort_length l : length (isort l) = length l.
Proof. symmetry. apply Permutation_length, isort_perm. Qed.

Lemma insert_sorted x l : StronglySorted Z.le l -> StronglySorted Z.le (insert x l).
Proof.
  induction 1 as [|y r Hs IH Hall]; cbn.
  - constructor; constructor.
  - destruct (Z.leb_spec x y).
    + constructor; [constructor; assumption|]. constructor; [assumption|].
      eapply Forall_impl; [|exact Hall]. intros; cbn in *; lia.
    + constructor; [exact IH|].
      apply (Permutation_Forall (insert_perm x r)). constructor; [lia | exact Hall].
Qed.

Lemma isort_sorted l : StronglySorted Z.le (isort l).
Proof. induction l as [|x l IH]; cbn; [constructor | apply insert_sorted, IH]. Qed.

Lemma sorted_nth_mono s : StronglySorted Z.le s ->
  forall i j, (i <= j < length s)%nat -> (nth i s 0 <= nth j s 0)%Z.
Proof.
  induction 1 as [|y r Hs IH Hall]; intros i j Hij; cbn in *; [lia|].
  destruct i as [|i]; destruct j as [|j]; try lia.
  - rewrite Forall_forall in Hall. apply Hall. apply nth_In. lia.
  - apply IH. lia.
Qed.

Lemma znth_mono s i j : StronglySorted Z.le s ->
  (0 <= i <= j)%Z -> (j < Z.of_nat (length s))%Z -> (znth s i <= znth s j)%Z.
Proof. intros Hs Hij Hj. unfold znth. apply sorted_nth_mono; [assumption|]. lia. Qed.

(* ---------------- percentile is monotone in the percentage ---------------- *)
Lemma interpZ_bounds s B a : StronglySorted Z.le s -> (0 < B)%Z ->
  (0 <= a)%Z -> (a <= (Z.of_nat (length s) - 1) * B)%Z ->
  (znth s (a / B) * B <= interpZ s B a)%Z /\
  ((a / B + 1 < Z.of_nat (length s))%Z -> (interpZ s B a <= znth s (a / B + 1) * B)%Z).
Proof.
  intros Hs HB Ha Hub. unfold interpZ.
  set (k := (a / B)%Z). set (r := (a mod B)%Z).
  assert (Hk : (0 <= k)%Z) by (subst k; apply Z.div_pos; lia).
  assert (Hr : (0 <= r < B)%Z) by (subst r; apply Z.mod_pos_bound; lia).
  assert (Hak : (a = B * k + r)%Z) by (subst k r; apply Z.div_mod; lia).
  assert (Hkn : (k <= Z.of_nat (length s) - 1)%Z) by nia.
  destruct (Z.eq_dec r 0) as [Hr0|Hr0].
  - rewrite Hr0. split; [lia|]. intros Hk1.
    assert (znth s k <= znth s (k + 1))%Z by (apply znth_mono; [assumption|lia|lia]). nia.
  - assert (Hk1 : (k + 1 < Z.of_nat (length s))%Z) by nia.
    assert (znth s k <= znth s (k + 1))%Z by (apply znth_mono; [assumption|lia|lia]).
    split; [nia | intros _; nia].
Qed.

Theorem interpZ_mono s B a1 a2 : StronglySorted Z.le s -> (0 < B)%Z ->
  (0 <= a1 <= a2)%Z -> (a2 <= (Z.of_nat (length s) - 1) * B)%Z ->
  (interpZ s B a1 <= interpZ s B a2)%Z.
Proof.
  intros Hs HB H12 Hub.
  assert (Hdiv : (a1 / B <= a2 / B)%Z) by (apply Z.div_le_mono; lia).
  destruct (Z.eq_dec (a1 / B) (a2 / B)) as [E|NE].
  - unfold interpZ. rewrite E.
    assert (Hm : (a1 mod B <= a2 mod B)%Z).
    { rewrite (Z.mod_eq a1 B), (Z.mod_eq a2 B) by lia. rewrite E. lia. }
    set (k := (a2 / B)%Z) in *.
    assert (Hk : (0 <= k)%Z) by (subst k; apply Z.div_pos; lia).
    destruct (Z.eq_dec (a1 mod B) (a2 mod B)) as [E2|NE2]; [rewrite E2; lia|].
    assert (Hr2 : (0 <= a2 mod B < B)%Z) by (apply Z.mod_pos_bound; lia).
    assert (Hr1 : (0 <= a1 mod B < B)%Z) by (apply Z.mod_pos_bound; lia).
    assert (Hak : (a2 = B * k + a2 mod B)%Z) by (subst k; apply Z.div_mod; lia).
    assert (Hk1 : (k + 1 < Z.of_nat (length s))%Z) by nia.
    assert (znth s k <= znth s (k + 1))%Z by (apply znth_mono; [assumption|lia|lia]).
    nia.
  - assert (Hlt : (a1 / B + 1 <= a2 / B)%Z) by lia.
    assert (Hk2 : (a2 / B <= Z.of_nat (length s) - 1)%Z).
    { apply Z.div_le_upper_bound; lia. }
    assert (H0 : (0 <= a1 / B)%Z) by (apply Z.div_pos; lia).
    destruct (interpZ_bounds s B a1 Hs HB) as [_ U1]; [lia|lia|].
    destruct (interpZ_bounds s B a2 Hs HB) as [L2 _]; [lia|lia|].
    specialize (U1 ltac:(lia)).
    assert (znth s (a1 / B + 1) <= znth s (a2 / B))%Z by (apply znth_mono; [assumption|lia|lia]).
    nia.
Qed.

Lemma Qdiv_le_pos a b (B : Z) : (0 < B)%Z -> (a <= b)%Z -> inject_Z a / inject_Z B <= inject_Z b / inject_Z B.
Proof.
  intros HB Hab. unfold Qdiv. apply Qmult_le_compat_r.
  - rewrite <- Zle_Qle. exact Hab.
  - apply Qinv_le_0_compat. replace 0 with (inject_Z 0) by reflexivity. rewrite <- Zle_Qle. lia.
Qed.

(* percentages p1 = n1/d <= p2 = n2/d (same denominator), both in [0,100] *)
Theorem percentile_monotone l n1 n2 d : l <> [] ->
  (0 <= n1 <= n2)%Z -> (n2 <= 100 * Z.pos d)%Z ->
  percentile l n1 d <= percentile l n2 d.
Proof.
  intros Hl H12 H100. unfold percentile.
  assert (Hlen : (1 <= zlen l)%Z) by (unfold zlen; destruct l; [congruence | cbn [length]; lia]).
  apply Qdiv_le_pos; [lia|].
  apply interpZ_mono; [apply isort_sorted | lia | nia |].
  rewrite isort_length. fold (zlen l). nia.
Qed.

(* compute_ci: lower <= median <= upper and the width is their non-negative difference,
   for every credibility level 0 <= cn/cd <= 100 *)
Lemma percentile_rescale l n d k : percentile l (n * Z.pos k) (d * k) == percentile l n d.
Proof.
  unfold percentile, interpZ.
  replace (100 * Z.pos (d * k))%Z with (100 * Z.pos d * Z.pos k)%Z by lia.
  replace (n * Z.pos k * (zlen l - 1))%Z with (n * (zlen l - 1) * Z.pos k)%Z by lia.
  rewrite Z.div_mul_cancel_r by lia.
  rewrite Zmult_mod_distr_r.
  set (a := (n * (zlen l - 1))%Z). set (B := (100 * Z.pos d)%Z). set (s := isort l).
  unfold Qeq, Qdiv, Qmult, Qinv, inject_Z. cbn [Qnum Qden].
  assert (HB : (0 < B)%Z) by (subst B; lia).
  destruct (B * Z.pos k)%Z eqn:E1; try lia. destruct B eqn:E2; try lia. cbn [Qnum Qden]. nia.
Qed.

Theorem ci_order l cn cd : l <> [] -> (0 <= cn <= 100 * Z.pos cd)%Z ->
  ci_lo l cn cd <= median l /\ median l <= ci_hi l cn cd /\
  ci_width l cn cd == ci_hi l cn cd - ci_lo l cn cd /\ 0 <= ci_width l cn cd.
Proof.
  intros Hl Hc. unfold ci_lo, ci_hi, ci_width, median.
  assert (Hm : percentile l 50 1 == percentile l (100 * Z.pos cd) (2 * cd)).
  { rewrite <- (percentile_rescale l 50 1 (2 * cd)). replace (1 * (2 * cd))%positive with (2 * cd)%positive by lia.
    replace (50 * Z.pos (2 * cd))%Z with (100 * Z.pos cd)%Z by lia. reflexivity. }
  assert (H1 : percentile l (100 * Z.pos cd - cn) (2 * cd) <= percentile l (100 * Z.pos cd) (2 * cd))
    by (apply percentile_monotone; [assumption | lia | lia]).
  assert (H2 : percentile l (100 * Z.pos cd) (2 * cd) <= percentile l (100 * Z.pos cd + cn) (2 * cd))
    by (apply percentile_monotone; [assumption | lia | lia]).
  split; [|split; [|split]].
  - rewrite Hm. exact H1.
  - rewrite Hm. exact H2.
  - reflexivity.
  - assert (H3 := Qle_trans _ _ _ H1 H2).
    apply (Qplus_le_l _ _ (percentile l (100 * Z.pos cd - cn) (2 * cd))).
    setoid_replace (0 + percentile l (100 * Z.pos cd - cn) (2 * cd)) with (percentile l (100 * Z.pos cd - cn) (2 * cd)) by ring.
    setoid_replace (percentile l (100 * Z.pos cd + cn) (2 * cd) - percentile l (100 * Z.pos cd - cn) (2 * cd) + percentile l (100 * Z.pos cd - cn) (2 * cd)) with (percentile l (100 * Z.pos cd + cn) (2 * cd)) by ring.
    exact H3.
Qed.

(* percentile 0 / 100 are the extremes of the sorted chain *)
Theorem percentile_0 l d : l <> [] -> percentile l 0 d == inject_Z (znth (isort l) 0).
Proof.
  intros Hl. unfold percentile, interpZ. rewrite Z.mul_0_l, Z.div_0_l, Zmod_0_l by lia.
  rewrite Z.mul_0_l, Z.add_0_r. unfold Qeq, Qdiv, Qmult, Qinv, inject_Z; cbn. nia.
Qed.

(* ---------------- variance identity ---------------- *)
Lemma qsum_sq_dev (l : list Z) (m : Q) :
  qsum (map (fun x => (inject_Z x - m) * (inject_Z x - m)) l) ==
  inject_Z (zsum (map (fun x => x * x)%Z l)) - (2 # 1) * m * inject_Z (zsum l) + inject_Z (zlen l) * m * m.
Proof.
  induction l as [|x l IH].
  - cbn. ring.
  - cbn [map qsum fold_right zsum]. fold (qsum (map (fun x0 : Z => (inject_Z x0 - m) * (inject_Z x0 - m)) l)).
    rewrite IH. unfold zlen. cbn [length]. rewrite Nat2Z.inj_succ.
    fold (zsum (map (fun x0 => (x0 * x0)%Z) l)). fold (zsum l).
    rewrite !inject_Z_plus, inject_Z_mult. unfold Z.succ. rewrite inject_Z_plus. unfold zlen. ring.
Qed.

(* np.var (ddof = 0) = E[x^2] - E[x]^2 *)
Theorem variance_alt (l : list Z) : l <> [] ->
  variance l == inject_Z (zsum (map (fun x => x * x)%Z l)) / inject_Z (zlen l) - mean l * mean l.
Proof.
  intros Hl. unfold variance. rewrite qsum_sq_dev. unfold mean.
  assert (Hn : ~ inject_Z (zlen l) == 0).
  { unfold zlen. destruct l; [congruence|]. cbn [length]. unfold Qeq, inject_Z; cbn. lia. }
  field. exact Hn.
Qed.

Lemma sq_nonneg (a : Q) : 0 <= a * a.
Proof. unfold Qle, Qmult; cbn. nia. Qed.

Lemma qsum_nonneg (l : list Q) : (forall a, In a l -> 0 <= a) -> 0 <= qsum l.
Proof.
  induction l as [|a l IH]; cbn; intros H; [apply Qle_refl|].
  apply (Qle_trans _ (0 + 0)); [unfold Qle; cbn; lia|].
  apply Qplus_le_compat; [apply H; left; reflexivity | apply IH; intros; apply H; right; assumption].
Qed.

Theorem variance_nonneg (l : list Z) : l <> [] -> 0 <= variance l.
Proof.
  intros Hl. unfold variance.
  assert (Hn : 0 < inject_Z (zlen l)).
  { unfold zlen. destruct l; [congruence|]. cbn [length]. unfold Qlt, inject_Z; cbn. lia. }
  apply Qle_shift_div_l; [exact Hn|]. rewrite Qmult_0_l.
  apply qsum_nonneg. intros a Ha. apply in_map_iff in Ha as [x [<- _]]. apply sq_nonneg.
Qed.

(* ---------------- the arviz dictionary ---------------- *)
Lemma dict_get_set_same {B} k (v : B) d : dict_get k (dict_set k v d) = Some v.
Proof.
  induction d as [|[k' v'] r IH]; cbn.
  - rewrite String.eqb_refl. reflexivity.
  - destruct (String.eqb k k') eqn:E; cbn; rewrite E; [reflexivity | exact IH].
Qed.

Lemma dict_get_set_other {B} k k2 (v : B) d : k2 <> k -> dict_get k2 (dict_set k v d) = dict_get k2 d.
Proof.
  intros N. induction d as [|[k' v'] r IH]; cbn.
  - destruct (String.eqb_spec k2 k); [congruence | reflexivity].
  - destruct (String.eqb_spec k k'); cbn.
    + subst. destruct (String.eqb_spec k2 k'); [congruence | reflexivity].
    + destruct (String.eqb_spec k2 k'); [reflexivity | exact IH].
Qed.

Lemma dict_of_get_acc {B} (kv : list (string * B)) : forall d k,
  ~ In k (map fst kv) -> dict_get k (fold_left (fun d p => dict_set (fst p) (snd p) d) kv d) = dict_get k d.
Proof.
  induction kv as [|[k' v'] kv IH]; intros d k N; cbn; [reflexivity|].
  rewrite IH by (cbn in N; tauto). apply dict_get_set_other. cbn in N. intros ->. tauto.
Qed.

(* with pairwise distinct variable names, variable i is given exactly row i *)
Theorem arviz_dict_row (names : list string) (rows : list (list Z)) i d0 :
  NoDup names -> length names = length rows -> (i < length names)%nat ->
  dict_get (nth i names d0) (arviz_dict names rows) = Some (nth i rows []).
Proof.
  unfold arviz_dict, dict_of. generalize (@nil (string * list Z)) as acc.
  revert rows i; induction names as [|n names IH]; intros [|r rows] i acc ND HL Hi; cbn in *; try lia.
  inversion ND as [|? ? Hn ND']; subst.
  destruct i as [|i].
  - rewrite dict_of_get_acc.
    + apply dict_get_set_same.
    + intros Hin. apply Hn. clear -Hin. revert rows Hin. induction names as [|a names IH]; intros [|r rows] H; cbn in *; try tauto.
      destruct H as [H|H]; [left; exact H | right; eapply IH; exact H].
  - apply IH; [assumption | lia | lia].
Qed.

(* with duplicated names a chain is silently lost (the property's hypothesis is needed) *)
Import String.StringSyntax. Local Open Scope string_scope.
Theorem arviz_dict_duplicates_refuted :
  exists names rows, length names = length rows /\
    dict_get (nth 0 names "") (arviz_dict names rows) <> Some (nth 0 rows []).
Proof. exists ["v"; "v"], [[1%Z]; [2%Z]]. split; [reflexivity|]. vm_compute. congruence. Qed.
