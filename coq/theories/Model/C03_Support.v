(* C03 -- "outside the support the gradient is reported as non-finite (NaN) rather than as a finite vector".
   Executable model (exact rationals) of the tests that decide, in the gradient method of each separable family,
   whether the formula is evaluated or a NaN array is handed back:
     Cauchy.gradient            _is_out_of_bounds:  np.any(scale <= 0)                                    -> x*nan
     Beta._gradient             np.any(x<=0) or np.any(x>=1) or np.any(alpha<=0) or np.any(beta<=0)       -> x*nan
     InverseGamma._gradient     np.any(val<=location) or np.any(shape<=0) or np.any(scale<=0)             -> val*nan
     SmoothedLaplace.gradient   np.any(scale <= 0)                                                        -> x*nan
     ModifiedHalfNormal         np.where(val <= 0, nan, formula)            (entry by entry)
     Lognormal._gradient        no test: ln(val) / (1/val) are non-finite exactly where some val_i <= 0
     Uniform.gradient           np.any(x < low) or np.any(x > high)  -> nan array, else zeros (CLOSED box)
   np.any over a parameter array of length 1 equals np.any over its broadcast to the n >= 1 coordinates, so every
   test is written per coordinate over the broadcast parameters; an observation counts as NaN as soon as one entry is
   not finite (harness `observe`).  The families and the parameter slots (a, b, c) are those of Model/C03_GradR.v.
   NO proofs in this file. *)
From CV Require Import Base.Tac Model.C03_GradR Model.C03_GradQ.
From Coq Require Import QArith.

Definition qpar := (Q * Q * Q)%type.
Definition qlt (a b : Q) : bool := negb (Qle_bool b a).

Definition qbc (n : nat) (p : list Q) : list Q := match p with [a] => repeat a n | _ => p end.
Fixpoint qzip3 (a b c : list Q) : list qpar :=
  match a, b, c with x :: a', y :: b', z :: c' => (x, y, z) :: qzip3 a' b' c' | _, _, _ => [] end.
Definition qparams (n : nat) (a b c : list Q) : list qpar := qzip3 (qbc n a) (qbc n b) (qbc n c).

(* coordinate k of the result is a finite number *)
Definition coord_finite (f : dfamily) (p : qpar) (x : Q) : bool :=
  let '(a, b, c) := p in
  match f with
  | Cauchy          => qlt 0 b                                        (* b = scale *)
  | Beta            => qlt 0 x && qlt x 1 && qlt 0 a && qlt 0 b       (* a = alpha, b = beta *)
  | InvGamma        => qlt b x && qlt 0 a && qlt 0 c                  (* a = shape, b = location, c = scale *)
  | SmoothedLaplace => qlt 0 b                                        (* b = scale *)
  | MHN             => qlt 0 x
  | LognormalDiag   => qlt 0 x
  | NormalKernel    => true
  | Uniform         => Qle_bool a x && Qle_bool x b                   (* a = low, b = high *)
  end.

(* shapes that do not broadcast against the point are an error in numpy: not a finite vector *)
Fixpoint forallb2 {A B : Type} (t : A -> B -> bool) (l : list A) (l' : list B) : bool :=
  match l, l' with
  | [], [] => true
  | a :: r, b :: r' => t a b && forallb2 t r r'
  | _, _ => false
  end.

Definition sep_guard (f : dfamily) (a b c xs : list Q) : bool :=
  forallb2 (coord_finite f) (qparams (length xs) a b c) xs.

Inductive skind := SVec | SNaN.
Definition sep_kind (f : dfamily) (a b c xs : list Q) : skind := if sep_guard f a b c xs then SVec else SNaN.

(* what gradient() handed back against the model's decision: a finite vector with one entry per coordinate, or NaN *)
Definition check_support (f : dfamily) (a b c xs : list Q) (o : obs) : bool :=
  match sep_kind f a b c xs, o with
  | SVec, ObsVec g => Nat.eqb (length g) (length xs)
  | SNaN, ObsNaN => true
  | _, _ => false
  end.

(* GMRF (parameter: precision) and CMRF (parameter: scale): with a non-positive parameter the object is not a distribution
   (logd is NaN / -inf at every point).  fixed = false: the code as it is -- no test, the formula is evaluated whatever
   the parameter (a finite vector, or non-finite entries where it divides by zero); fixed = true: NaN is reported, as
   the separable families do for their own parameters. *)
Definition check_mrf_param (fixed : bool) (par : Q) (o : obs) : bool :=
  if qlt 0 par then match o with ObsVec _ => true | _ => false end
  else if fixed then match o with ObsNaN => true | _ => false end
  else match o with ObsVec _ | ObsNaN => true | _ => false end.
