(* C07 -- half-sample symmetric extension (numpy.pad 'symmetric', scipy.ndimage 'reflect'; BSymmetric in the model):
   the transpose of a shift is NOT the opposite shift, but the PAIR  S_d + S_{-d}  is a symmetric operator.  Hence a
   convolution with a mirror-symmetric PSF of odd size is self-adjoint under this padding -- the class of Deconvolution2D
   (BC = 'neumann') configurations where the flipped-PSF adjoint IS the transpose.  All sizes, all shifts (also wider than
   the signal). *)
From CV Require Import Base.Tac Base.LinAlg Base.Cmp Base.QcLin Model.C07_Adj
  Proofs.C07_Lists Proofs.C07_Geom Proofs.C07_Model Proofs.C07_Conv Proofs.C07_Deconv1 Proofs.C07_Linear.
From Coq Require Import QArith Qcanon.

Local Open Scope Qc_scope.

(* ---------- the index map of the symmetric extension ---------- *)
Definition sig (N t : Z) : Z := let j := (t mod (2 * N))%Z in if (j <? N)%Z then j else (2 * N - 1 - j)%Z.

Lemma ext_sym n t : ext BSymmetric n t = Some (Z.to_nat (sig (Z.of_nat n) t)).
Proof.
  unfold ext, sig. cbn zeta. destruct ((0 <=? t) && (t <? Z.of_nat n))%Z eqn:E; [|reflexivity].
  apply andb_prop in E as [E1 E2]. apply Z.leb_le in E1. apply Z.ltb_lt in E2.
  rewrite Z.mod_small by lia. apply Z.ltb_lt in E2. rewrite E2. reflexivity.
Qed.

Section SymShift.
Context {A : Type} (zero : A).

Lemma nth_map_seq (g : nat -> A) n i : (i < n)%nat -> nth i (map g (seq 0 n)) zero = g i.
Proof. intros H. rewrite (nth_indep _ zero (g 0%nat)) by (rewrite map_length, seq_length; exact H). rewrite map_nth, seq_nth by exact H. reflexivity. Qed.

Lemma nth_skipn' k (l : list A) i : nth i (skipn k l) zero = nth (k + i) l zero.
Proof. revert l; induction k as [|k IH]; intros l; [reflexivity|]. destruct l as [|a l]; [destruct i; reflexivity|]. cbn [skipn Nat.add nth]. apply IH. Qed.

Lemma nth_firstn' k (l : list A) i : (i < k)%nat -> nth i (firstn k l) zero = nth i l zero.
Proof.
  revert l i; induction k as [|k IH]; intros l i H; [lia|]. destruct l as [|a l]; [reflexivity|].
  destruct i as [|i]; [reflexivity|]. cbn [firstn nth]. apply IH. lia.
Qed.

Lemma shift_sym_nth (l : list A) d i : (i < length l)%nat ->
  nth i (shift zero BSymmetric d l) zero = nth (Z.to_nat (sig (Z.of_nat (length l)) (Z.of_nat i + d))) l zero.
Proof. intros H. cbn [shift]. rewrite nth_map_seq by exact H. rewrite ext_sym. reflexivity. Qed.

Lemma shift_sym_cong (l : list A) d d' :
  (d mod (2 * Z.of_nat (length l)) = d' mod (2 * Z.of_nat (length l)))%Z ->
  shift zero BSymmetric d l = shift zero BSymmetric d' l.
Proof.
  intros E. apply (nth_ext _ _ zero zero); [rewrite !shift_length; reflexivity|].
  intros i Hi. rewrite shift_length in Hi. rewrite !shift_sym_nth by exact Hi. unfold sig. cbn zeta.
  rewrite <- (Zplus_mod_idemp_r d), E, Zplus_mod_idemp_r. reflexivity.
Qed.

(* a shift by k in 0..N towards the right end folds the tail back ... *)
Lemma shift_sym_U (l : list A) k : (k <= length l)%nat ->
  shift zero BSymmetric (Z.of_nat k) l = skipn k l ++ rev (skipn (length l - k) l).
Proof.
  intros Hk. set (N := length l).
  apply (nth_ext _ _ zero zero).
  - rewrite shift_length, app_length, rev_length, !skipn_length. fold N. lia.
  - intros i Hi. rewrite shift_length in Hi. fold N in Hi. rewrite shift_sym_nth by exact Hi. fold N. unfold sig. cbn zeta.
    rewrite Z.mod_small by lia.
    destruct (Z.ltb_spec (Z.of_nat i + Z.of_nat k) (Z.of_nat N)) as [Hlt | Hge].
    + rewrite app_nth1 by (rewrite skipn_length; fold N; lia). rewrite nth_skipn'. f_equal. lia.
    + rewrite app_nth2 by (rewrite skipn_length; fold N; lia). rewrite skipn_length. fold N.
      rewrite rev_nth by (rewrite skipn_length; fold N; lia). rewrite skipn_length. fold N.
      rewrite nth_skipn'. f_equal. lia.
Qed.

(* ... and by -k folds the head back *)
Lemma shift_sym_V (l : list A) k : (k <= length l)%nat ->
  shift zero BSymmetric (- Z.of_nat k) l = rev (firstn k l) ++ firstn (length l - k) l.
Proof.
  intros Hk. set (N := length l).
  assert (Lf : length (firstn k l) = k) by (rewrite firstn_length; fold N; lia).
  apply (nth_ext _ _ zero zero).
  - rewrite shift_length, app_length, rev_length, !firstn_length. fold N. lia.
  - intros i Hi. rewrite shift_length in Hi. fold N in Hi. rewrite shift_sym_nth by exact Hi. fold N. unfold sig. cbn zeta.
    destruct (Nat.lt_ge_cases i k) as [Hik | Hik].
    + (* wrapped: index k - 1 - i *)
      replace ((Z.of_nat i + - Z.of_nat k) mod (2 * Z.of_nat N))%Z with (Z.of_nat i - Z.of_nat k + 2 * Z.of_nat N)%Z.
      2:{ rewrite <- (Z_mod_plus_full (Z.of_nat i + - Z.of_nat k) 1 (2 * Z.of_nat N)). rewrite Z.mod_small by lia. lia. }
      destruct (Z.ltb_spec (Z.of_nat i - Z.of_nat k + 2 * Z.of_nat N) (Z.of_nat N)) as [Hlt | Hge]; [lia|].
      rewrite app_nth1 by (rewrite rev_length, Lf; exact Hik).
      rewrite rev_nth by (rewrite Lf; exact Hik). rewrite Lf. rewrite nth_firstn' by lia. f_equal. lia.
    + rewrite Z.mod_small by lia.
      destruct (Z.ltb_spec (Z.of_nat i + - Z.of_nat k) (Z.of_nat N)) as [Hlt | Hge]; [|lia].
      rewrite app_nth2 by (rewrite rev_length, Lf; exact Hik). rewrite rev_length, Lf.
      rewrite nth_firstn' by lia. f_equal. lia.
Qed.

(* ---------- the pair S_d + S_{-d} is symmetric ---------- *)
Context (ip : A -> A -> Qc).

Lemma ldot_rev_rev (x y : list A) : length x = length y -> ldot ip (rev x) (rev y) = ldot ip x y.
Proof.
  revert y; induction x as [|a x IH]; intros [|b y] H; simpl in H; try discriminate; [reflexivity|].
  cbn [rev]. rewrite ldot_app by (rewrite !rev_length; lia). rewrite IH by lia. cbn [ldot]. ring.
Qed.

Lemma ldot_rev (x y : list A) : length x = length y -> ldot ip (rev x) y = ldot ip x (rev y).
Proof. intros H. rewrite <- (rev_involutive y) at 1. apply ldot_rev_rev. rewrite rev_length. exact H. Qed.

Lemma ldot_split_r (a b y : list A) j : length a = j -> (j <= length y)%nat ->
  ldot ip (a ++ b) y = ldot ip a (firstn j y) + ldot ip b (skipn j y).
Proof.
  intros Ha Hj. transitivity (ldot ip (a ++ b) (firstn j y ++ skipn j y)); [rewrite firstn_skipn; reflexivity|].
  apply ldot_app. rewrite firstn_length. lia.
Qed.

Lemma ldot_split_l (x a b : list A) j : length a = j -> (j <= length x)%nat ->
  ldot ip x (a ++ b) = ldot ip (firstn j x) a + ldot ip (skipn j x) b.
Proof.
  intros Ha Hj. transitivity (ldot ip (firstn j x ++ skipn j x) (a ++ b)); [rewrite firstn_skipn; reflexivity|].
  apply ldot_app. rewrite firstn_length. lia.
Qed.

Lemma key_fold (x y : list A) k : length x = length y -> (k <= length x)%nat ->
  ldot ip (skipn k x ++ rev (skipn (length x - k) x)) y + ldot ip (rev (firstn k x) ++ firstn (length x - k) x) y =
  ldot ip x (skipn k y ++ rev (skipn (length y - k) y)) + ldot ip x (rev (firstn k y) ++ firstn (length y - k) y).
Proof.
  intros HL Hk. rewrite <- HL. set (N := length x) in *.
  rewrite (ldot_split_r (skipn k x) _ y (N - k)) by (try (rewrite skipn_length; fold N); lia).
  rewrite (ldot_split_r (rev (firstn k x)) _ y k) by (try (rewrite rev_length, firstn_length; fold N); lia).
  rewrite (ldot_split_l x (skipn k y) _ (N - k)) by (try (rewrite skipn_length, <- HL); lia).
  rewrite (ldot_split_l x (rev (firstn k y)) _ k) by (try (rewrite rev_length, firstn_length, <- HL); lia).
  rewrite (ldot_rev (skipn (N - k) x) (skipn (N - k) y)) by (rewrite !skipn_length; lia).
  rewrite (ldot_rev (firstn k x) (firstn k y)) by (rewrite !firstn_length; lia).
  ring.
Qed.

Lemma key_shift_nat (x y : list A) k : length x = length y -> (k <= length x)%nat ->
  ldot ip (shift zero BSymmetric (Z.of_nat k) x) y + ldot ip (shift zero BSymmetric (- Z.of_nat k) x) y =
  ldot ip x (shift zero BSymmetric (Z.of_nat k) y) + ldot ip x (shift zero BSymmetric (- Z.of_nat k) y).
Proof.
  intros HL Hk. rewrite !shift_sym_U, !shift_sym_V by lia. apply key_fold; assumption.
Qed.

(* every shift d, also wider than the signal *)
Theorem sym_shift_pair (x y : list A) d : length x = length y ->
  ldot ip (shift zero BSymmetric d x) y + ldot ip (shift zero BSymmetric (- d) x) y =
  ldot ip x (shift zero BSymmetric d y) + ldot ip x (shift zero BSymmetric (- d) y).
Proof.
  intros HL. destruct (Nat.eq_dec (length x) 0) as [E0 | Hpos].
  - destruct x; [|discriminate]. destruct y; [|discriminate]. reflexivity.
  - set (N := Z.of_nat (length x)). assert (HN : (0 < N)%Z) by (unfold N; lia).
    pose proof (Z.mod_pos_bound d (2 * N) ltac:(lia)) as Hb.
    assert (Eopp : forall e, (e mod (2 * N) = d mod (2 * N) -> (- e) mod (2 * N) = (- d) mod (2 * N))%Z).
    { intros e He. rewrite <- (Z.sub_0_l e), <- (Z.sub_0_l d), <- Zminus_mod_idemp_r, He, Zminus_mod_idemp_r. reflexivity. }
    destruct (Z.le_gt_cases (d mod (2 * N)) N) as [Hle | Hgt].
    + set (k := Z.to_nat (d mod (2 * N))).
      assert (Ek : (Z.of_nat k mod (2 * N) = d mod (2 * N))%Z) by (unfold k; rewrite Z2Nat.id by lia; apply Z.mod_mod; lia).
      rewrite (shift_sym_cong x d (Z.of_nat k)) by (fold N; symmetry; exact Ek).
      rewrite (shift_sym_cong y d (Z.of_nat k)) by (rewrite <- HL; fold N; symmetry; exact Ek).
      rewrite (shift_sym_cong x (- d) (- Z.of_nat k)) by (fold N; symmetry; apply Eopp; exact Ek).
      rewrite (shift_sym_cong y (- d) (- Z.of_nat k)) by (rewrite <- HL; fold N; symmetry; apply Eopp; exact Ek).
      apply key_shift_nat; [exact HL | unfold k, N in *; lia].
    + set (k := Z.to_nat (2 * N - d mod (2 * N))).
      assert (Ek : ((- Z.of_nat k) mod (2 * N) = d mod (2 * N))%Z).
      { unfold k. rewrite Z2Nat.id by lia. replace (- (2 * N - d mod (2 * N)))%Z with (d mod (2 * N) + (-1) * (2 * N))%Z by ring.
        rewrite Z_mod_plus_full. apply Z.mod_mod. lia. }
      assert (Ek' : (Z.of_nat k mod (2 * N) = (- d) mod (2 * N))%Z).
      { rewrite <- (Z.opp_involutive (Z.of_nat k)). apply Eopp. exact Ek. }
      rewrite (shift_sym_cong x d (- Z.of_nat k)) by (fold N; symmetry; exact Ek).
      rewrite (shift_sym_cong y d (- Z.of_nat k)) by (rewrite <- HL; fold N; symmetry; exact Ek).
      rewrite (shift_sym_cong x (- d) (Z.of_nat k)) by (fold N; symmetry; exact Ek').
      rewrite (shift_sym_cong y (- d) (Z.of_nat k)) by (rewrite <- HL; fold N; symmetry; exact Ek').
      rewrite (Qcplus_comm (ldot ip (shift zero BSymmetric (- Z.of_nat k) x) y)).
      rewrite (Qcplus_comm (ldot ip x (shift zero BSymmetric (- Z.of_nat k) y))).
      apply key_shift_nat; [exact HL | unfold k, N in *; lia].
Qed.
End SymShift.

(* ---------- shape, closure and commutation facts of the symmetric-extension shift ---------- *)
Lemma nth_repeat_same {A} (a : A) n j : nth j (repeat a n) a = a.
Proof. revert j; induction n as [|n IH]; intros [|j]; cbn [repeat nth]; auto. Qed.

Lemma map_const_seq {A} (c : A) s n : map (fun _ : nat => c) (seq s n) = repeat c n.
Proof. revert s; induction n as [|n IH]; intros s; [reflexivity|]. cbn [seq map repeat]. rewrite IH. reflexivity. Qed.

Lemma shift_Forall_sym {A} (zero : A) (P : A -> Prop) d l : P zero -> Forall P l -> Forall P (shift zero BSymmetric d l).
Proof.
  intros Hz Hl. cbn [shift]. apply Forall_forall. intros r Hr. apply in_map_iff in Hr as (i & <- & _).
  destruct (ext BSymmetric (length l) (Z.of_nat i + d)) as [j|]; [|exact Hz].
  destruct (nth_in_or_default j l zero) as [Hin | ->]; [|exact Hz]. rewrite Forall_forall in Hl. apply Hl. exact Hin.
Qed.

Lemma map_shift_sym {A B} (f : A -> B) (zero : A) d l :
  map f (shift zero BSymmetric d l) = shift (f zero) BSymmetric d (map f l).
Proof.
  cbn [shift]. rewrite map_map, map_length. apply map_ext. intros i.
  destruct (ext BSymmetric (length l) (Z.of_nat i + d)); [symmetry; apply map_nth | reflexivity].
Qed.

Lemma shift_zero_row_sym d n : shift 0 BSymmetric d (qvzero n) = qvzero n.
Proof.
  cbn [shift]. unfold qvzero, vzero. rewrite repeat_length.
  transitivity (map (fun _ : nat => Q2Qc 0) (seq 0 n)); [|apply map_const_seq].
  apply map_ext. intros i. destruct (ext BSymmetric n (Z.of_nat i + d)); [apply nth_repeat_same | reflexivity].
Qed.

Lemma shift2_shape_sym nc d X : wf_mat nc X ->
  wf_mat nc (shift2 BSymmetric nc d X) /\ length (shift2 BSymmetric nc d X) = length X.
Proof.
  intros HX. unfold shift2. split.
  - apply shift_Forall_sym; [apply qvzero_length|].
    apply Forall_forall. intros r Hr. apply in_map_iff in Hr as (r0 & <- & Hr0).
    rewrite shift_length. unfold wf_mat in HX. rewrite Forall_forall in HX. apply HX. exact Hr0.
  - rewrite shift_length, map_length. reflexivity.
Qed.

Lemma conv2_terms_shape_sym nr nc w X : wf_mat nc X -> length X = nr ->
  wf_mat nc (conv2_terms BSymmetric nr nc w X) /\ length (conv2_terms BSymmetric nr nc w X) = nr.
Proof.
  intros HX HL. induction w as [|cd w [IW IL]].
  - split; [apply mzero_rows | apply mzero_length].
  - rewrite conv2_terms_cons.
    destruct (shift2_shape_sym nc (snd cd) X HX) as [SW SL].
    destruct (mscale_shape (fst cd) nc _ SW) as [MW ML].
    destruct (madd_shape nc _ _ MW IW) as [AW AL].
    { etransitivity; [exact ML|]. etransitivity; [exact SL|]. etransitivity; [exact HL|]. symmetry; exact IL. }
    split; [exact AW|]. etransitivity; [exact AL|]. etransitivity; [exact ML|]. etransitivity; [exact SL|]. exact HL.
Qed.

Lemma conv2_dot_l_sym nr nc w X Y : wf_mat nc X -> length X = nr ->
  fdot (conv2_terms BSymmetric nr nc w X) Y = wsum (fun d => fdot (shift2 BSymmetric nc d X) Y) w.
Proof.
  intros HX HL. induction w as [|cd w IH]; [apply fdot_mzero_l|].
  rewrite conv2_terms_cons, wsum_cons.
  destruct (shift2_shape_sym nc (snd cd) X HX) as [SW SL].
  destruct (mscale_shape (fst cd) nc _ SW) as [MW ML].
  destruct (conv2_terms_shape_sym nr nc w X HX HL) as [CW CL].
  rewrite (fdot_madd_l nc); try assumption;
    [| etransitivity; [exact ML|]; etransitivity; [exact SL|]; etransitivity; [exact HL|]; symmetry; exact CL].
  rewrite fdot_mscale_l, IH. reflexivity.
Qed.

Lemma conv2_dot_r_sym nr nc w X Y : wf_mat nc Y -> length Y = nr ->
  fdot X (conv2_terms BSymmetric nr nc w Y) = wsum (fun d => fdot X (shift2 BSymmetric nc d Y)) w.
Proof.
  intros HY HL. rewrite fdot_comm, conv2_dot_l_sym by assumption. apply wsum_ext. intros cd _. apply fdot_comm.
Qed.

(* ---------- the four-term symmetry of the 2-d shift ---------- *)
Lemma rows_pair nc b X W : wf_mat nc X -> wf_mat nc W -> length X = length W ->
  fdot (map (shift 0 BSymmetric b) X) W + fdot (map (shift 0 BSymmetric (- b)) X) W =
  fdot X (map (shift 0 BSymmetric b) W) + fdot X (map (shift 0 BSymmetric (- b)) W).
Proof.
  intros HX; revert W; induction HX as [|r X Hr HX IH]; intros [|s W] HW HL; simpl in HL; try discriminate; [reflexivity|].
  cbn [map]. rewrite !fdot_cons.
  assert (H : qdot (shift 0 BSymmetric b r) s + qdot (shift 0 BSymmetric (- b) r) s =
              qdot r (shift 0 BSymmetric b s) + qdot r (shift 0 BSymmetric (- b) s)).
  { apply (sym_shift_pair 0 Qcmult r s b). rewrite Hr. symmetry. exact (Forall_inv HW). }
  specialize (IH W (Forall_inv_tail HW) ltac:(lia)).
  match goal with |- ?a + ?b + (?c + ?d) = ?e + ?f + (?g + ?k) =>
    transitivity ((a + c) + (b + d)); [ring|]; transitivity ((e + g) + (f + k)); [|ring] end.
  rewrite H, IH. reflexivity.
Qed.

Lemma key2d nc a b X Y : wf_mat nc X -> wf_mat nc Y -> length X = length Y ->
  fdot (shift2 BSymmetric nc (a, b) X) Y + fdot (shift2 BSymmetric nc (- a, b)%Z X) Y +
  fdot (shift2 BSymmetric nc (a, - b)%Z X) Y + fdot (shift2 BSymmetric nc (- a, - b)%Z X) Y =
  fdot X (shift2 BSymmetric nc (a, b) Y) + fdot X (shift2 BSymmetric nc (- a, b)%Z Y) +
  fdot X (shift2 BSymmetric nc (a, - b)%Z Y) + fdot X (shift2 BSymmetric nc (- a, - b)%Z Y).
Proof.
  intros HX HY HL. unfold shift2. cbn [fst snd].
  set (Zp := map (shift 0 BSymmetric b) X). set (Zm := map (shift 0 BSymmetric (- b)) X).
  set (Wp := shift (qvzero nc) BSymmetric a Y). set (Wm := shift (qvzero nc) BSymmetric (- a) Y).
  assert (H1 : fdot (shift (qvzero nc) BSymmetric a Zp) Y + fdot (shift (qvzero nc) BSymmetric (- a) Zp) Y = fdot Zp Wp + fdot Zp Wm).
  { apply (sym_shift_pair (qvzero nc) qdot Zp Y a). unfold Zp. rewrite map_length. exact HL. }
  assert (H2 : fdot (shift (qvzero nc) BSymmetric a Zm) Y + fdot (shift (qvzero nc) BSymmetric (- a) Zm) Y = fdot Zm Wp + fdot Zm Wm).
  { apply (sym_shift_pair (qvzero nc) qdot Zm Y a). unfold Zm. rewrite map_length. exact HL. }
  assert (WWp : wf_mat nc Wp) by (apply shift_Forall_sym; [apply qvzero_length | exact HY]).
  assert (WWm : wf_mat nc Wm) by (apply shift_Forall_sym; [apply qvzero_length | exact HY]).
  assert (H3 : fdot Zp Wp + fdot Zm Wp = fdot X (map (shift 0 BSymmetric b) Wp) + fdot X (map (shift 0 BSymmetric (- b)) Wp)).
  { apply (rows_pair nc b X Wp HX WWp). unfold Wp. rewrite shift_length. exact HL. }
  assert (H4 : fdot Zp Wm + fdot Zm Wm = fdot X (map (shift 0 BSymmetric b) Wm) + fdot X (map (shift 0 BSymmetric (- b)) Wm)).
  { apply (rows_pair nc b X Wm HX WWm). unfold Wm. rewrite shift_length. exact HL. }
  unfold Wp, Wm in H3, H4. rewrite !map_shift_sym, !shift_zero_row_sym in H3, H4.
  match goal with |- ?s1 + ?s2 + ?s3 + ?s4 = ?t1 + ?t2 + ?t3 + ?t4 =>
    transitivity ((s1 + s2) + (s3 + s4)); [ring|]; transitivity ((t1 + t3) + (t2 + t4)); [|ring] end.
  rewrite H1, H2.
  match goal with |- ?p1 + ?p2 + (?p3 + ?p4) = _ => transitivity ((p1 + p3) + (p2 + p4)); [ring|] end.
  unfold Wp, Wm. rewrite H3, H4. reflexivity.
Qed.

(* ---------- the weight list of a mirror-symmetric PSF is invariant under the two reflections ---------- *)
Definition neg2 (d : Z * Z) : Z * Z := (fst d, (- snd d)%Z).

Lemma combine_app' {A B} (a c : list A) (b d : list B) : length a = length b ->
  combine (a ++ c) (b ++ d) = combine a b ++ combine c d.
Proof.
  revert b; induction a as [|x a IH]; intros [|y b] H; simpl in H; try discriminate; [reflexivity|].
  cbn [app combine]. rewrite IH by lia. reflexivity.
Qed.

Lemma wsum_plus {B} (F G : B -> Qc) w : wsum (fun d => F d + G d) w = wsum F w + wsum G w.
Proof. induction w as [|x w IH]; [unfold wsum; cbn [fold_right]; ring|]. rewrite !wsum_cons, IH. ring. Qed.

Lemma wsum_rows_neg2 (F : Z * Z -> Qc) L (P : list (list Qc)) (offs : list Z) (firsts : list Z) :
  wf_mat L P -> length offs = L -> rev offs = map Z.opp offs -> Forall (fun r => rev r = r) P ->
  wsum F (combine (concat P) (flat_map (fun a => map (pair a) offs) firsts)) =
  wsum (fun d => F (neg2 d)) (combine (concat P) (flat_map (fun a => map (pair a) offs) firsts)).
Proof.
  intros WP Lo Ro Hsym. revert firsts. induction WP as [|r P Hr WP IH]; intros firsts; [reflexivity|].
  destruct firsts as [|a firsts]; [cbn [flat_map]; rewrite !combine_nil; reflexivity|].
  cbn [concat flat_map]. rewrite combine_app' by (rewrite map_length; congruence). rewrite !wsum_app.
  rewrite (IH (Forall_inv_tail Hsym) firsts). f_equal.
  rewrite <- (Forall_inv Hsym) at 1.
  apply wsum_flip; [rewrite map_length; congruence|].
  rewrite <- map_rev, Ro, !map_map. apply map_ext. intros b. reflexivity.
Qed.

(* ---------- the convolution with a mirror-symmetric odd PSF is self-adjoint under symmetric padding ---------- *)
Local Notation flip2 := C07_Adj.flip2.

Lemma map_fix_Forall {A} (f : A -> A) l : map f l = l -> Forall (fun a => f a = a) l.
Proof. induction l as [|a l IH]; intros H; [constructor|]. cbn [map] in H. injection H as H1 H2. constructor; [exact H1 | apply IH; exact H2]. Qed.

Lemma four_nonzero : (1 + 1 + 1 + 1 : Qc) <> 0.
Proof. apply qc_neq_of_eqb. vm_compute. reflexivity. Qed.

Lemma cancel4 (a b : Qc) : a + a + a + a = b + b + b + b -> a = b.
Proof.
  intros H. assert (E : (a - b) * (1 + 1 + 1 + 1) = 0).
  { replace ((a - b) * (1 + 1 + 1 + 1)) with ((a + a + a + a) - (b + b + b + b)) by ring. rewrite H. ring. }
  apply Qcmult_integral in E as [E | E]; [|exfalso; exact (four_nonzero E)].
  replace a with ((a - b) + b) by ring. rewrite E. ring.
Qed.

(* mirror-symmetric: P = flipud P and P = fliplr P *)
Theorem conv2_sym_selfadjoint h nr nc (P X Y : list (list Qc)) :
  wf_mat (2 * h + 1) P -> length P = (2 * h + 1)%nat -> rev P = P -> map (@rev Qc) P = P ->
  wf_mat nc X -> length X = nr -> wf_mat nc Y -> length Y = nr ->
  fdot (conv2 BSymmetric (2 * h + 1) nr nc P X) Y = fdot X (conv2 BSymmetric (2 * h + 1) nr nc P Y).
Proof.
  intros WP LP Hud Hlr HX LX HY LY. unfold conv2.
  rewrite conv2_dot_l_sym, conv2_dot_r_sym by assumption.
  set (w := combine (concat P) (offsets2 (2 * h + 1))).
  set (s := fun d => fdot (shift2 BSymmetric nc d X) Y). set (t := fun d => fdot X (shift2 BSymmetric nc d Y)).
  assert (Iopp : forall F : Z * Z -> Qc, wsum F w = wsum (fun d => F (opp2 d)) w).
  { intros F. unfold w.
    assert (Erev : rev (concat P) = concat P) by (rewrite <- concat_flip2; unfold flip2; rewrite Hlr, Hud; reflexivity).
    rewrite <- Erev at 1. apply wsum_flip; [|apply offsets2_rev_odd].
    rewrite (concat_length_wf (2 * h + 1) P WP), offsets2_length. f_equal. exact LP. }
  assert (Ineg : forall F : Z * Z -> Qc, wsum F w = wsum (fun d => F (neg2 d)) w).
  { intros F. unfold w, offsets2.
    apply (wsum_rows_neg2 F (2 * h + 1)); [exact WP | apply offsets_length | apply offsets_rev_odd | apply map_fix_Forall; exact Hlr]. }
  assert (E1 : wsum s w = wsum (fun d => s (opp2 d)) w) by apply Iopp.
  assert (E2 : wsum s w = wsum (fun d => s (neg2 d)) w) by apply Ineg.
  assert (E3 : wsum s w = wsum (fun d => s (opp2 (neg2 d))) w).
  { transitivity (wsum (fun d => s (opp2 d)) w); [apply Iopp | apply (Ineg (fun d => s (opp2 d)))]. }
  assert (T1 : wsum t w = wsum (fun d => t (opp2 d)) w) by apply Iopp.
  assert (T2 : wsum t w = wsum (fun d => t (neg2 d)) w) by apply Ineg.
  assert (T3 : wsum t w = wsum (fun d => t (opp2 (neg2 d))) w).
  { transitivity (wsum (fun d => t (opp2 d)) w); [apply Iopp | apply (Ineg (fun d => t (opp2 d)))]. }
  apply cancel4.
  transitivity (wsum (fun d => s d + s (opp2 (neg2 d)) + s (neg2 d) + s (opp2 d)) w).
  { rewrite !wsum_plus, <- E1, <- E2, <- E3. reflexivity. }
  transitivity (wsum (fun d => t d + t (opp2 (neg2 d)) + t (neg2 d) + t (opp2 d)) w).
  2:{ rewrite !wsum_plus, <- T1, <- T2, <- T3. reflexivity. }
  apply wsum_ext. intros [c [a b]] _. cbn [snd]. unfold s, t, opp2, neg2. cbn [fst snd]. rewrite !Z.opp_involutive.
  apply key2d; try assumption. transitivity nr; [exact LX | symmetry; exact LY].
Qed.

Lemma conv2_shape_sym S nr nc P X : wf_mat nc X -> length X = nr ->
  wf_mat nc (conv2 BSymmetric S nr nc P X) /\ length (conv2 BSymmetric S nr nc P X) = nr.
Proof. intros. unfold conv2. apply conv2_terms_shape_sym; assumption. Qed.

(* Deconvolution2D(BC='neumann') with a mirror-symmetric PSF of odd size: the flipped-PSF adjoint IS the transpose *)
Theorem deconv2_sym_adjoint h n (P : list (list Qc)) :
  wf_mat (2 * h + 1) P -> length P = (2 * h + 1)%nat -> rev P = P -> map (@rev Qc) P = P ->
  forall x y, length x = (n * n)%nat -> length y = (n * n)%nat ->
  exists fx ay, forward (deconv2_model BSymmetric (2 * h + 1) n P) (V1 x) = Some (V1 fx) /\
                adjoint (deconv2_model BSymmetric (2 * h + 1) n P) (V1 y) = Some (V1 ay) /\
                length fx = (n * n)%nat /\ length ay = (n * n)%nat /\ qdot fx y = qdot x ay.
Proof.
  intros WP LP Hud Hlr x y Hx Hy.
  assert (EP : flip2 P = P) by (unfold flip2; rewrite Hlr, Hud; reflexivity).
  set (X := chunks n n x). set (Y := chunks n n y).
  assert (HX : wf_mat n X) by (apply chunks_wf; exact Hx).
  assert (HY : wf_mat n Y) by (apply chunks_wf; exact Hy).
  assert (LX : length X = n) by apply chunks_length.
  assert (LY : length Y = n) by apply chunks_length.
  destruct (conv2_shape_sym (2 * h + 1) n n P X HX LX) as [CW CL].
  destruct (conv2_shape_sym (2 * h + 1) n n P Y HY LY) as [DW DL].
  exists (concat (conv2 BSymmetric (2 * h + 1) n n P X)), (concat (conv2 BSymmetric (2 * h + 1) n n P Y)).
  split; [|split; [|split; [|split]]].
  - unfold forward, apply_func. cbn [deconv2_model lm_fwd lm_D lm_R p2f]. rewrite Hx, Nat.eqb_refl.
    cbn [obind img_op]. rewrite !Nat.eqb_refl. cbn [andb obind f2p]. reflexivity.
  - unfold adjoint, apply_func. cbn [deconv2_model lm_adj lm_D lm_R p2f]. rewrite Hy, Nat.eqb_refl.
    cbn [obind img_op]. rewrite !Nat.eqb_refl. cbn [andb obind f2p]. rewrite EP. reflexivity.
  - rewrite (concat_length_wf n) by exact CW. rewrite CL. reflexivity.
  - rewrite (concat_length_wf n) by exact DW. rewrite DL. reflexivity.
  - assert (EY : concat Y = y) by (apply concat_chunks; exact Hy).
    assert (EX : concat X = x) by (apply concat_chunks; exact Hx).
    rewrite <- EY at 1. rewrite <- EX at 1.
    rewrite !qdot_concat.
    + apply conv2_sym_selfadjoint; assumption.
    + apply (wf_Forall2_length n); [exact HX | exact DW | congruence].
    + apply (wf_Forall2_length n); [exact CW | exact HY | congruence].
Qed.

(* non-vacuity: the 3x3 cross PSF *)
Example sym_psf_example :
  let P := zm [[0; 1; 0]; [1; 2; 1]; [0; 1; 0]]%Z in
  wf_mat (2 * 1 + 1) P /\ length P = (2 * 1 + 1)%nat /\ rev P = P /\ map (@rev Qc) P = P.
Proof. cbn zeta. split; [repeat constructor|]. repeat split; vm_compute; reflexivity. Qed.

(* ---------- replicate padding ('edge'): for shifts of at most one sample it IS the symmetric extension ---------- *)
Lemma ext_edge_sym1 n i d : (i < n)%nat -> (-1 <= d <= 1)%Z ->
  ext BEdge n (Z.of_nat i + d) = ext BSymmetric n (Z.of_nat i + d).
Proof.
  intros Hi Hd. unfold ext. cbn zeta.
  destruct ((0 <=? Z.of_nat i + d) && (Z.of_nat i + d <? Z.of_nat n))%Z eqn:E; [reflexivity|].
  apply andb_false_iff in E. f_equal.
  destruct (Z.ltb_spec (Z.of_nat i + d) 0) as [Hneg | Hnn].
  - assert (Ed : (Z.of_nat i + d = -1)%Z) by lia. rewrite Ed.
    replace ((-1) mod (2 * Z.of_nat n))%Z with (2 * Z.of_nat n - 1)%Z.
    2:{ rewrite <- (Z_mod_plus_full (-1) 1 (2 * Z.of_nat n)). rewrite Z.mod_small by lia. lia. }
    destruct (Z.ltb_spec (2 * Z.of_nat n - 1) (Z.of_nat n)); lia.
  - assert (Ed : (Z.of_nat i + d = Z.of_nat n)%Z).
    { destruct E as [E | E]; [apply Z.leb_gt in E; lia | apply Z.ltb_ge in E; lia]. }
    rewrite Ed. rewrite Z.mod_small by lia.
    destruct (Z.ltb_spec (Z.of_nat n) (Z.of_nat n)); lia.
Qed.

Lemma shift_edge_sym1 {A} (zero : A) d l : (-1 <= d <= 1)%Z -> shift zero BEdge d l = shift zero BSymmetric d l.
Proof.
  intros Hd. cbn [shift]. apply map_ext_in. intros i Hi. apply in_seq in Hi.
  rewrite (ext_edge_sym1 (length l) i d) by lia. reflexivity.
Qed.

Definition small2 (d : Z * Z) : Prop := (-1 <= fst d <= 1)%Z /\ (-1 <= snd d <= 1)%Z.

Lemma conv2_terms_edge_sym nr nc w X : Forall (fun cd : Qc * (Z * Z) => small2 (snd cd)) w ->
  conv2_terms BEdge nr nc w X = conv2_terms BSymmetric nr nc w X.
Proof.
  induction 1 as [|cd w [H1 H2] Hw IH]; [reflexivity|].
  rewrite !conv2_terms_cons, IH. do 2 f_equal. unfold shift2.
  rewrite (shift_edge_sym1 (qvzero nc) (fst (snd cd))) by exact H1. f_equal.
  apply map_ext. intros r. apply shift_edge_sym1. exact H2.
Qed.

Lemma conv2_edge3_sym nr nc (P X : list (list Qc)) : conv2 BEdge 3 nr nc P X = conv2 BSymmetric 3 nr nc P X.
Proof.
  unfold conv2. apply conv2_terms_edge_sym. apply Forall_forall. intros [c d] Hin. apply in_combine_r in Hin. cbn [snd].
  vm_compute in Hin. unfold small2.
  repeat (destruct Hin as [<- | Hin]; [cbn [fst snd]; lia|]). destruct Hin.
Qed.

(* Deconvolution2D(BC='nearest') with a mirror-symmetric 3x3 PSF: the same operator as under 'neumann', hence the identity *)
Theorem deconv2_edge3_adjoint n (P : list (list Qc)) :
  wf_mat 3 P -> length P = 3%nat -> rev P = P -> map (@rev Qc) P = P ->
  forall x y, length x = (n * n)%nat -> length y = (n * n)%nat ->
  exists fx ay, forward (deconv2_model BEdge 3 n P) (V1 x) = Some (V1 fx) /\
                adjoint (deconv2_model BEdge 3 n P) (V1 y) = Some (V1 ay) /\
                length fx = (n * n)%nat /\ length ay = (n * n)%nat /\ qdot fx y = qdot x ay.
Proof.
  intros WP LP Hud Hlr x y Hx Hy.
  destruct (deconv2_sym_adjoint 1 n P WP LP Hud Hlr x y Hx Hy) as (fx & ay & E1 & E2 & L1 & L2 & E).
  exists fx, ay. split; [|split; [|repeat split; assumption]].
  - rewrite <- E1. unfold forward, apply_func. cbn [deconv2_model lm_fwd lm_D lm_R].
    destruct (p2f (GImage n n OC) (V1 x)) as [[l | r c l]|]; try reflexivity. cbn [obind img_op].
    destruct ((r =? n) && (c =? n))%nat; [|reflexivity]. rewrite conv2_edge3_sym. reflexivity.
  - rewrite <- E2. unfold adjoint, apply_func. cbn [deconv2_model lm_adj lm_D lm_R].
    destruct (p2f (GImage n n OC) (V1 y)) as [[l | r c l]|]; try reflexivity. cbn [obind img_op].
    destruct ((r =? n) && (c =? n))%nat; [|reflexivity]. rewrite conv2_edge3_sym. reflexivity.
Qed.

(* ---------- a one-pixel PSF under replicate padding ---------- *)
Lemma conv2_edge1_sym nr nc (P X : list (list Qc)) : conv2 BEdge 1 nr nc P X = conv2 BSymmetric 1 nr nc P X.
Proof.
  unfold conv2. apply conv2_terms_edge_sym. apply Forall_forall. intros [c d] Hin. apply in_combine_r in Hin. cbn [snd].
  vm_compute in Hin. unfold small2.
  repeat (destruct Hin as [<- | Hin]; [cbn [fst snd]; lia|]). destruct Hin.
Qed.

(* a one-pixel PSF (a scaling) under replicate padding *)
Theorem deconv2_edge1_adjoint n (P : list (list Qc)) :
  wf_mat 1 P -> length P = 1%nat ->
  forall x y, length x = (n * n)%nat -> length y = (n * n)%nat ->
  exists fx ay, forward (deconv2_model BEdge 1 n P) (V1 x) = Some (V1 fx) /\
                adjoint (deconv2_model BEdge 1 n P) (V1 y) = Some (V1 ay) /\
                length fx = (n * n)%nat /\ length ay = (n * n)%nat /\ qdot fx y = qdot x ay.
Proof.
  intros WP LP x y Hx Hy.
  assert (Hud : rev P = P).
  { destruct P as [|r [|r' P]]; try discriminate. reflexivity. }
  assert (Hlr : map (@rev Qc) P = P).
  { destruct P as [|r [|r' P]]; try discriminate. pose proof (Forall_inv WP) as Hr.
    destruct r as [|a [|b r]]; try discriminate. reflexivity. }
  destruct (deconv2_sym_adjoint 0 n P WP LP Hud Hlr x y Hx Hy) as (fx & ay & E1 & E2 & L1 & L2 & E).
  exists fx, ay. split; [|split; [|repeat split; assumption]].
  - rewrite <- E1. unfold forward, apply_func. cbn [deconv2_model lm_fwd lm_D lm_R].
    destruct (p2f (GImage n n OC) (V1 x)) as [[l | r c l]|]; try reflexivity. cbn [obind img_op].
    destruct ((r =? n) && (c =? n))%nat; [|reflexivity]. rewrite conv2_edge1_sym. reflexivity.
  - rewrite <- E2. unfold adjoint, apply_func. cbn [deconv2_model lm_adj lm_D lm_R].
    destruct (p2f (GImage n n OC) (V1 y)) as [[l | r c l]|]; try reflexivity. cbn [obind img_op].
    destruct ((r =? n) && (c =? n))%nat; [|reflexivity]. rewrite conv2_edge1_sym. reflexivity.
Qed.

(* ---------- 1-d: scipy.ndimage 'reflect' (half-sample symmetric) with a symmetric PSF of odd length ---------- *)
Lemma two_nonzero : (1 + 1 : Qc) <> 0.
Proof. apply qc_neq_of_eqb. vm_compute. reflexivity. Qed.

Lemma cancel2 (a b : Qc) : a + a = b + b -> a = b.
Proof.
  intros H. assert (E : (a - b) * (1 + 1) = 0).
  { replace ((a - b) * (1 + 1)) with ((a + a) - (b + b)) by ring. rewrite H. ring. }
  apply Qcmult_integral in E as [E | E]; [|exfalso; exact (two_nonzero E)].
  replace a with ((a - b) + b) by ring. rewrite E. ring.
Qed.

Theorem conv1_sym_selfadjoint h (P x y : list Qc) :
  length P = (2 * h + 1)%nat -> rev P = P -> length x = length y ->
  qdot (conv1 BSymmetric P x) y = qdot x (conv1 BSymmetric P y).
Proof.
  intros LP HP HL. unfold conv1. rewrite LP, conv1_dot_l, conv1_dot_r.
  set (w := combine P (offsets (2 * h + 1))).
  set (s := fun d => qdot (shift 0 BSymmetric d x) y). set (t := fun d => qdot x (shift 0 BSymmetric d y)).
  assert (Iopp : forall F : Z -> Qc, wsum F w = wsum (fun d => F (- d)%Z) w).
  { intros F. unfold w. rewrite <- HP at 1. apply wsum_flip; [rewrite offsets_length; exact LP | apply offsets_rev_odd]. }
  apply cancel2.
  transitivity (wsum (fun d => s d + s (- d)%Z) w); [rewrite wsum_plus, <- (Iopp s); reflexivity|].
  transitivity (wsum (fun d => t d + t (- d)%Z) w); [|rewrite wsum_plus, <- (Iopp t); reflexivity].
  apply wsum_ext. intros [c d] _. cbn [snd]. unfold s, t.
  exact (sym_shift_pair 0 Qcmult x y d HL).
Qed.

(* Deconvolution1D(BC='reflect') with a symmetric PSF of odd length (all shipped 1-d PSFs of odd size): the model matrix is
   symmetric -- forward and adjoint are the same map *)
Theorem deconv1_reflect_symmetric h (P : list Qc) n y : length P = (2 * h + 1)%nat -> rev P = P -> length y = n ->
  adjoint (mat_model n (deconv1_matrix false BSymmetric P n) (GId n) (GId n)) (V1 y) =
  forward (mat_model n (deconv1_matrix false BSymmetric P n) (GId n) (GId n)) (V1 y).
Proof.
  intros LP HP Hy.
  unfold adjoint, forward, apply_func. cbn [mat_model lm_adj lm_fwd lm_D lm_R p2f f2p obind mat_adj mat_fwd]. do 2 f_equal.
  destruct (deconv1_rows_shape BSymmetric P n) as [W L].
  assert (WA : wf_mat n (deconv1_matrix false BSymmetric P n)).
  { unfold deconv1_matrix, deconv1_cols. pose proof (tr_rows n (deconv1_rows BSymmetric P n)) as HR. rewrite L in HR. exact HR. }
  assert (LA : length (deconv1_matrix false BSymmetric P n) = n).
  { unfold deconv1_matrix, deconv1_cols. apply tr_length. exact W. }
  apply (dot_ext n).
  - apply qmattvec_length. exact WA.
  - rewrite qmatvec_length. exact LA.
  - intros x Hx. rewrite <- (qc_adjoint n _ x y WA Hx).
    change (deconv1_matrix false BSymmetric P n) with (deconv1_cols BSymmetric P n).
    rewrite (deconv1_cols_operator BSymmetric P n x Hx), (deconv1_cols_operator BSymmetric P n y Hy).
    apply (conv1_sym_selfadjoint h P x y LP HP). congruence.
Qed.
