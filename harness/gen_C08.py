"""C08 -- NUTS leaves its target invariant.

Correspondence: one scripted transition of cuqi.experimental.mcmc.NUTS.step and of cuqi.sampler.NUTS._sample
(momentum, Exp(1) draw and every uniform scripted by patching numpy.random) against Model/C08_NUTS.v:
every leaf (point, momentum, log-density), the number of random numbers consumed, the leaves of the last
doubling, the selected state, its cached log-density/gradient and the accept flag.

Independent oracle (search stage and a sample of every run): exact enumeration of the REAL sampler's
transition kernel restricted to one leapfrog orbit, by handing it symbolic uniforms that record the
threshold they are compared with; detailed balance P(0->k) = P(k->0) w.r.t. the counting measure on the
in-slice orbit points is then checked in exact Fractions."""
import math, itertools
from fractions import Fraction
import numpy as np
from common import *

IMPORTS = "From CV Require Import Base.Cmp Base.Ext Base.QcLin Model.C08_NUTS.\nFrom Coq Require Import QArith Qcanon."
RULE = ("scripted single transitions: target family x dim x step size (1/8..4) x max_depth x start x momentum x slice draw x uniforms, "
        "both implementations, fresh and after warm-up; distinct = distinct (implementation, target, inputs, script); "
        "trivial = transitions whose first leaf already stops the trajectory (a single leaf)")


# ---------------- targets (python side; exact-friendly arithmetic) ----------------
def mk_target(cuqi, spec):
    kind = spec["kind"]
    if kind == "gauss":
        p = np.array(spec["prec"], dtype=float)
        return cuqi.distribution.UserDefinedDistribution(dim=len(p), logpdf_func=lambda x: -0.5 * np.sum(p * (x * x)),
                                                         gradient_func=lambda x: -(p * x))
    if kind == "quartic":
        d = spec["dim"]
        return cuqi.distribution.UserDefinedDistribution(dim=d, logpdf_func=lambda x: -0.25 * np.sum((x * x) * (x * x)),
                                                         gradient_func=lambda x: -(x * (x * x)))
    if kind == "box":
        p = np.array(spec["prec"], dtype=float)
        B = spec["bound"]
        bad = {"ninf": -np.inf, "nan": np.nan}[spec["bad"]]
        return cuqi.distribution.UserDefinedDistribution(
            dim=len(p), logpdf_func=lambda x: (-0.5 * np.sum(p * (x * x))) if np.max(np.abs(x)) <= B else bad,
            gradient_func=lambda x: -(p * x))
    raise ValueError(kind)


def cqc(x):
    return "(qc %s)" % cq(x)


def ctarget(spec):
    if spec["kind"] == "gauss":
        return "(TGauss %s)" % clist([cqc(v) for v in spec["prec"]])
    if spec["kind"] == "quartic":
        return "TQuartic"
    return "(TBox %s %s %s)" % (clist([cqc(v) for v in spec["prec"]]), cqc(spec["bound"]), {"ninf": "NInf", "nan": "NaN"}[spec["bad"]])


def dim_of(spec):
    return spec["dim"] if spec["kind"] == "quartic" else len(spec["prec"])


# ---------------- driving one transition of the real samplers ----------------
class Recorder:
    def __init__(self, sampler):
        self.leaves, self.depth, self.top_calls = [], 0, []
        lf, bt = sampler._Leapfrog, sampler._BuildTree
        rec = self

        def leap(a, b, c, eps):
            out = lf(a, b, c, eps)
            rec.leaves.append((np.array(out[0], dtype=float).copy(), np.array(out[1], dtype=float).copy(), float(out[2])))
            return out

        def build(*a, **k):
            if rec.depth == 0:
                rec.top_calls.append(len(rec.leaves))
            rec.depth += 1
            try:
                return bt(*a, **k)
            finally:
                rec.depth -= 1
        sampler._Leapfrog = leap
        sampler._BuildTree = build

    def last_count(self):
        return len(self.leaves) - self.top_calls[-1] if self.top_calls else 0


def script_of(z, e, us):
    it = iter(us)

    def script(kind, a, k, idx):
        if kind == "standard_normal":
            return np.array(z, dtype=float)
        if kind == "exponential":
            return np.array([e], dtype=float)
        if kind == "rand":
            return next(it)
        raise RuntimeError("unexpected random call " + kind)
    return script


def one_transition(cuqi, impl, spec, eps, max_depth, x0, z, e, us, warm=0):
    """returns dict(observations) for one scripted transition"""
    T = mk_target(cuqi, spec)
    x0 = np.array(x0, dtype=float)
    if impl == "exp":
        from cuqi.experimental.mcmc import NUTS
        s = NUTS(T, initial_point=x0, max_depth=max_depth, step_size=eps)
        if warm:
            with ScriptedRandom(seed=warm):
                s.warmup(warm)
            s._pre_sample()
            x0 = np.array(s.current_point, dtype=float)
            eps = float(s._epsilon)
        else:
            s._ensure_initialized()
            s._pre_sample()
        rec = Recorder(s)
        with ScriptedRandom(script=script_of(z, e, us)) as sr:
            acc = s.step()
        nrand = sum(1 for l in sr.log if l[0] == "rand")
        order = [l[0] for l in sr.log]
        return dict(x0=x0, eps=eps, leaves=rec.leaves, point=np.array(s.current_point, dtype=float), logd=float(s.current_target_logd),
                    grad=np.array(s.current_target_grad, dtype=float), acc=bool(acc), nrand=nrand, nlast=rec.last_count(),
                    alpha=float(s._current_alpha_ratio), order=order)
    else:
        s = cuqi.sampler.NUTS(T, x0=x0, max_depth=max_depth, adapt_step_size=eps)
        rec = Recorder(s)
        with ScriptedRandom(script=script_of(z, e, us)) as sr:
            theta, joint, steps = s._sample(2, 0)
        nrand = sum(1 for l in sr.log if l[0] == "rand")
        return dict(x0=x0, eps=eps, leaves=rec.leaves, point=np.array(theta[:, 1], dtype=float), logd=float(joint[1]), grad=None, acc=None,
                    nrand=nrand, nlast=rec.last_count(), alpha=None, order=[l[0] for l in sr.log],
                    first=np.array(theta[:, 0], dtype=float))


def ham(leaf):
    return leaf[2] - 0.5 * float(np.dot(leaf[1], leaf[1]))


# ---------------- exact kernel enumeration of the real sampler on one orbit ----------------
class SymU:
    """A 'uniform' that records what it is compared with and answers from a script of booleans."""
    def __init__(self, ctl):
        self.ctl = ctl

    def _decide(self, p):
        return self.ctl.decide(float(p))

    def __le__(self, p):
        return self._decide(p)

    def __lt__(self, p):
        return self._decide(p)


class Enumerator:
    """depth-first enumeration of every outcome of a randomised run with exact weights"""
    def __init__(self):
        self.prefix, self.pos, self.weight, self.pending = [], 0, Fraction(1), []

    def decide(self, p):
        p = min(1.0, max(0.0, p))
        pf = Fraction(p).limit_denominator(10**6)
        if self.pos < len(self.prefix):
            b = self.prefix[self.pos]
        else:
            b = True
            self.prefix.append(True)
            if pf < 1:
                self.pending.append((list(self.prefix[:-1]) + [False]))
        self.pos += 1
        self.weight *= pf if b else (1 - pf)
        return b

    def outcomes(self, runner):
        res = []
        stack = [[]]
        while stack:
            self.prefix, self.pos, self.weight, self.pending = stack.pop(), 0, Fraction(1), []
            out = runner()
            if self.weight > 0:
                res.append((out, self.weight))
            stack.extend(self.pending)
        return res


def kernel_from(cuqi, impl, spec, eps, max_depth, x, r, e):
    """exact law of the next point of the real sampler started at (x, momentum r, slice draw e)"""
    en = Enumerator()

    def script(kind, a, k, idx):
        if kind == "standard_normal":
            return np.array(r, dtype=float)
        if kind == "exponential":
            return np.array([e], dtype=float)
        if kind == "rand":
            return SymU(en)
        raise RuntimeError(kind)

    def runner():
        T = mk_target(cuqi, spec)
        if impl == "exp":
            from cuqi.experimental.mcmc import NUTS
            s = NUTS(T, initial_point=np.array(x, dtype=float), max_depth=max_depth, step_size=eps)
            s._ensure_initialized(); s._pre_sample()
            with ScriptedRandom(script=script):
                s.step()
            return tuple(float(v) for v in s.current_point)
        else:
            s = cuqi.sampler.NUTS(T, x0=np.array(x, dtype=float), max_depth=max_depth, adapt_step_size=eps)
            with ScriptedRandom(script=script):
                theta, _, _ = s._sample(2, 0)
            return tuple(float(v) for v in theta[:, 1])
    law = {}
    for out, w in en.outcomes(runner):
        law[out] = law.get(out, 0) + w
    return law


def orbit(spec, eps, x, r, lo, hi):
    """orbit states i = lo..hi of the leapfrog map (float arithmetic as in the code)"""
    import cuqi
    T = mk_target(cuqi, spec)
    g = lambda y: np.asarray(T.gradient(y), dtype=float)
    st = {0: (np.array(x, dtype=float), np.array(r, dtype=float))}
    for sign, rng_ in ((1, range(1, hi + 1)), (-1, range(-1, lo - 1, -1))):
        for i in rng_:
            xp, rp = st[i - sign]
            h = sign * eps
            r1 = rp + 0.5 * h * g(xp)
            x1 = xp + h * r1
            r2 = r1 + 0.5 * h * g(x1)
            st[i] = (x1, r2)
    return st, T


def orbit_balance(cuqi, impl, spec, eps, max_depth, x, r, e, tol=1e-9):
    """Detailed balance of the real kernel on the orbit through (x, r) w.r.t. the counting measure on the slice:
    returns None if it holds, else a description.  Skips (returns None) when a decision margin is tiny."""
    span = 2 ** (max_depth + 1) - 1
    st, T = orbit(spec, eps, x, r, -span, span)
    H = {i: float(T.logd(s[0])) - 0.5 * float(np.dot(s[1], s[1])) for i, s in st.items()}
    logu = H[0] - e
    if any(abs(logu - h) < 1e-7 for h in H.values() if np.isfinite(h)):
        return None
    P0 = kernel_from(cuqi, impl, spec, eps, max_depth, st[0][0], st[0][1], e)

    def index_of(pt, around):
        best = None
        for i in range(around - span, around + span + 1):
            if i in st_all and np.allclose(st_all[i][0], pt, rtol=1e-9, atol=1e-9):
                best = i
                break
        return best
    st_all, _ = orbit(spec, eps, x, r, -2 * span - 1, 2 * span + 1)
    Hall = {i: float(T.logd(s[0])) - 0.5 * float(np.dot(s[1], s[1])) for i, s in st_all.items()}
    if any(abs(logu - h) < 1e-7 for h in Hall.values() if np.isfinite(h)):
        return None
    tot = sum(P0.values())
    if abs(float(tot) - 1) > 1e-9:
        return "enumerated weights from index 0 sum to %s" % float(tot)
    for pt, w in P0.items():
        k = index_of(np.array(pt), 0)
        if k is None:
            return "selected point %s is not on the orbit" % (pt,)
        if not (logu <= Hall[k]) or not np.isfinite(float(T.logd(np.array(pt)))):
            if w > Fraction(1, 10**9):
                return "state %d outside the slice / non-finite selected with probability %s" % (k, float(w))
            continue
        if k == 0:
            continue
        ek = Hall[k] - logu
        Pk = kernel_from(cuqi, impl, spec, eps, max_depth, st_all[k][0], st_all[k][1], ek)
        back = Fraction(0)
        for pt2, w2 in Pk.items():
            if index_of(np.array(pt2), k) == 0:
                back += w2
        if abs(float(back) - float(w)) > tol:
            return "detailed balance fails on the orbit: P(0->%d)=%s but P(%d->0)=%s" % (k, float(w), k, float(back))
    return None


# ---------------- generator ----------------
def dy(rng, lo, hi, den):
    return rng.randint(int(lo * den), int(hi * den)) / den


def gen_inputs(ctx, rng):
    kind = rng.choice(["gauss", "gauss", "quartic", "box"])
    d = rng.randint(1, 3)
    if kind == "gauss":
        spec = {"kind": "gauss", "prec": [rng.choice([1, 2, 4, 9, 0.25]) for _ in range(d)]}
    elif kind == "quartic":
        d = rng.randint(1, 2)
        spec = {"kind": "quartic", "dim": d}
    else:
        spec = {"kind": "box", "prec": [rng.choice([1, 2, 4]) for _ in range(d)], "bound": rng.choice([1.5, 2.0, 3.0]),
                "bad": rng.choice(["ninf", "nan"])}
    eps = rng.choice([0.125, 0.25, 0.5, 0.5, 1.0, 1.0, 2.0, 4.0])
    md = rng.choice([0, 1, 2, 2, 3, 3] + ([4] if ctx.thorough else []))
    x0 = [dy(rng, -1.25, 1.25, 8) for _ in range(d)]
    z = [dy(rng, -2, 2, 16) for _ in range(d)]
    e = rng.choice([dy(rng, 0, 1, 64) + 1 / 128, dy(rng, 0, 4, 64) + 1 / 128, dy(rng, 0, 12, 16) + 1 / 32])
    us = [(rng.randint(0, 127) * 2 + 1) / 256 for _ in range(2 ** (md + 2) + 8)]
    return spec, eps, md, x0, z, e, us


def obs_leaf(l):
    return "(%s, %s, %s)" % (cqvec(l[0]), cqvec(l[1]), cext(l[2]))


def mk_case(impl, spec, md, warm, o, z, e, us):
    x0, eps = o["x0"], o["eps"]
    used = us[:o["nrand"] + 4]
    expr = ("check_ok (check_transition %s %s %s (qc %s) %s %s %s %s %s %s %s %s %s %s %s)" % (
        ctarget(spec), cbool(impl == "exp"), cnat(md), cq(frac(eps) / 2), cqvec(x0), cqvec(z), cq(e), cqvec(used),
        clist([obs_leaf(l) for l in o["leaves"]]), cqvec(o["point"]), cext(o["logd"]),
        copt(o["grad"], cqvec), copt(o["acc"], cbool), cnat(o["nrand"]), cnat(o["nlast"])))
    meta = {"impl": impl, "target": spec, "eps": eps, "max_depth": md, "x0": [float(v) for v in x0], "z": z, "e": e, "us": used, "warm": warm}
    # statistic: mean Metropolis probability over the leaves of the last doubling (python check on the
    # observed leaves, which the Coq side ties to the model leaf by leaf)
    fail, sig = None, ""
    if o.get("order", [])[:2] != ["standard_normal", "exponential"] or any(k != "rand" for k in o["order"][2:]):
        fail, sig = "random numbers are drawn in an unexpected order: %s" % o["order"][:6], "NUTS.rng_order"
    if impl == "leg" and not np.array_equal(o["first"], np.array(x0)):
        fail, sig = "first stored state is not the initial point", "NUTS.legacy.first_state"
    if impl == "exp" and o["nlast"] > 0:
        H0 = float(mk_target(__import__("cuqi"), spec).logd(np.array(x0))) - 0.5 * float(np.dot(z, z))
        hs = [ham(l) for l in o["leaves"][-o["nlast"]:]]
        if all(np.isfinite(h) for h in hs):
            exp_alpha = sum(min(1.0, math.exp(min(0.0, h - H0))) for h in hs) / len(hs)
            if not abs(exp_alpha - o["alpha"]) <= 1e-12 * (1 + abs(exp_alpha)):
                fail, sig = "acceptance statistic %r is not the mean Metropolis probability %r over the %d leaves of the last doubling" % (o["alpha"], exp_alpha, len(hs)), "NUTS.alpha_stat"
    if not np.isfinite(o["logd"]):
        fail, sig = "a state with non-finite log-density %r was selected" % o["logd"], "NUTS.nonfinite_selected"
    return Case(expr=expr, meta=meta, cell="%s/%s/md%d/%s" % (impl, spec["kind"] + (":" + spec.get("bad", "") if spec["kind"] == "box" else ""), md, "warm" if warm else "fresh"),
                trivial=(len(o["leaves"]) <= 1), kind="EXACT", impl_fail=fail, signature=sig)


def run(ctx):
    import cuqi
    rng = ctx.rng
    cases = []
    n = ctx.n(170, 1500)
    for it in range(n):
        spec, eps, md, x0, z, e, us = gen_inputs(ctx, rng)
        for impl in ("exp", "leg"):
            warm = 0
            if impl == "exp" and it % 7 == 3 and spec["kind"] != "box":
                warm = rng.choice([5, 12])
            try:
                o = one_transition(cuqi, impl, spec, eps, md, x0, z, e, us, warm=warm)
            except StopIteration:
                continue
            cases.append(mk_case(impl, spec, md, warm, o, z, e, us))
    # exact kernel enumeration of the real samplers on a few orbits (independent oracle)
    nb = ctx.n(10, 80)
    checked = 0
    for it in range(nb):
        spec, eps, md, x0, z, e, us = gen_inputs(ctx, rng)
        md = min(md, 2)
        if dim_of(spec) > 2:
            continue
        for impl in ("exp", "leg"):
            d = orbit_balance(cuqi, impl, spec, eps, md, x0, z, e)
            checked += 1
            meta = {"impl": impl, "target": spec, "eps": eps, "max_depth": md, "x0": x0, "z": z, "e": e, "orbit_balance": True}
            cases.append(Case(expr="true", meta=meta, cell="%s/orbit-balance/md%d" % (impl, md), kind="DECISION", impl_fail=d,
                              signature="NUTS.%s.orbit_balance" % impl if d else ""))
    return Result(cases=cases, rule=RULE, extra={"orbit_balance_checks": checked},
                  assumptions=["targets are user-defined polynomial log-densities (Gaussian with diagonal precision, quartic, box-truncated with NaN/-inf outside)",
                               "floating-point rounding of the implementation is not modelled: leaves are compared within 1e-9 and a case whose decisions are closer than 1e-7 to a tie is inconclusive",
                               "numpy.random is replaced by a scripted stream (momentum, exponential, uniforms)"])


def oracle(ctx, meta):
    import cuqi
    if meta.get("max_depth", 9) > 2 or dim_of(meta["target"]) > 2 or meta.get("warm"):
        md = min(meta.get("max_depth", 2), 2)
    else:
        md = meta["max_depth"]
    return orbit_balance(cuqi, meta["impl"], meta["target"], meta["eps"], md, meta["x0"], meta["z"], meta["e"])


def search(ctx):
    import cuqi
    rng = random.Random(ctx.seed + 77)
    out = []
    for it in range(ctx.n(60, 300)):
        spec, eps, md, x0, z, e, us = gen_inputs(ctx, rng)
        md = min(md, 2)
        if dim_of(spec) > 2:
            continue
        for impl in ("exp", "leg"):
            d = orbit_balance(cuqi, impl, spec, eps, md, x0, z, e)
            if d:
                out.append(Case(expr="true", meta={"impl": impl, "target": spec, "eps": eps, "max_depth": md, "x0": x0, "z": z, "e": e, "orbit_balance": True},
                                impl_fail=d, signature="NUTS.%s.orbit_balance" % impl))
                return out
    return out


def classify(meta, detail):
    return "NUTS.%s.orbit_balance" % meta.get("impl", "?")


def replay(ctx, meta):
    import cuqi
    m = meta.get("meta", meta)
    print(json.dumps(m, indent=1))
    if m.get("orbit_balance"):
        print("orbit balance on the real sampler:", orbit_balance(cuqi, m["impl"], m["target"], m["eps"], m["max_depth"], m["x0"], m["z"], m["e"]))
        return 0
    o = one_transition(cuqi, m["impl"], m["target"], m["eps"], m["max_depth"], m["x0"], m["z"], m["e"], m["us"], warm=m.get("warm", 0))
    print("implementation: %d leaves, nrand=%d, next point=%s logd=%r acc=%r" % (len(o["leaves"]), o["nrand"], o["point"], o["logd"], o["acc"]))
    c = mk_case(m["impl"], m["target"], m["max_depth"], m.get("warm", 0), o, m["z"], m["e"], m["us"])
    rc, out = eval_in_coq(IMPORTS, c.expr.replace("check_ok (", "(", 1))
    print("model verdict (0 agree, 1 inconclusive, 2 disagree):", out)
    print("orbit balance on the real sampler:", oracle(ctx, m))
    return 0
