(* C02 -- any number of transitions, any schedule of proposals (e.g. the different scales a sampler has before, during and after
   warm-up), on a compact interval: for a continuous target density that is POSITIVE everywhere the image K f of a continuous test
   function is again continuous, so the one-step invariance (Proofs/C02_Fubini.v) iterates:
       int_a^b pi (K_q1 (K_q2 (... (K_qn f)))) = int_a^b pi f        for every list of jointly continuous proposals q1..qn >= 0. *)
From Coq Require Import Reals Lra List.
From Coquelicot Require Import Coquelicot.
From CV Require Import Proofs.C02_Countable Proofs.C02_Continuous Proofs.C02_Fubini.
Local Open Scope R_scope.

Section Steps.
Variables (a b : R).
Variable pi : R -> R.
Hypothesis pi_pos : forall x, 0 < pi x.
Hypothesis pi_cont : forall x, continuity_pt pi x.

Lemma pi_nonneg' : forall x, 0 <= pi x.
Proof. intro x. left. apply pi_pos. Qed.

(* K f is continuous *)
Lemma Kf_cont (q : R -> R -> R) (f : R -> R) :
  (forall x y, 0 <= q x y) -> cont2 q -> (forall x, continuity_pt f x) -> forall x, continuity_pt (Kf a b pi q f) x.
Proof.
  intros Hq Cq Cf x.
  pose proof (hflow_cont2 pi q f pi_cont Cq Cf) as Ch.
  assert (Ck : cont2 (fun x y => hflow pi q f x y * / pi x)).
  { intros u v. apply continuity_2d_pt_mult; [apply Ch|].
    apply continuity_2d_pt_inv; [apply (cont2_fst pi pi_cont) | pose proof (pi_pos u); lra]. }
  apply continuity_pt_ext with (fun x => f x + RInt (fun y => hflow pi q f x y * / pi x) a b).
  - intro u. unfold Kf. f_equal. apply RInt_ext. intros y _.
    rewrite <- (hflow_move pi q pi_nonneg' Hq f u y).
    rewrite (Rmult_comm (pi u)), Rmult_assoc, Rinv_r by (pose proof (pi_pos u); lra). apply Rmult_1_r.
  - apply continuity_pt_plus; [apply Cf|].
    apply continuity_pt_filterlim. apply (param_cont (fun x y => hflow pi q f x y * / pi x) a b x Ck).
Qed.

Definition good_q (q : R -> R -> R) : Prop := (forall x y, 0 <= q x y) /\ cont2 q.

Fixpoint Kiter (qs : list (R -> R -> R)) (f : R -> R) : R -> R :=
  match qs with nil => f | q :: r => Kf a b pi q (Kiter r f) end.

Lemma Kiter_cont qs f : List.Forall good_q qs -> (forall x, continuity_pt f x) -> forall x, continuity_pt (Kiter qs f) x.
Proof.
  induction qs as [|q r IH]; intros HF Cf; [exact Cf|]. inversion HF as [|? ? [Hq Cq] Hr]; subst.
  cbn [Kiter]. apply Kf_cont; [exact Hq | exact Cq | apply IH; assumption].
Qed.

Theorem invariance_any_schedule qs f : List.Forall good_q qs -> (forall x, continuity_pt f x) ->
  RInt (fun x => pi x * Kiter qs f x) a b = RInt (fun x => pi x * f x) a b.
Proof.
  induction qs as [|q r IH]; intros HF Cf; [reflexivity|]. inversion HF as [|? ? [Hq Cq] Hr]; subst.
  cbn [Kiter]. rewrite <- (IH Hr Cf).
  apply (invariance_RInt_continuous pi q (Kiter r f) pi_nonneg' Hq pi_cont Cq (Kiter_cont r f Hr Cf) a b).
Qed.
End Steps.

(* non-vacuity: pi = 1 + x^2, two Gaussian random-walk proposals with different scales *)
Lemma steps_example :
  (forall x : R, 0 < 1 + x * x) /\ (forall x : R, continuity_pt (fun x => 1 + x * x) x) /\
  List.Forall good_q (gauss_q 1 1 (fun t => t) :: gauss_q 1 (1 / 2) (fun t => t) :: nil).
Proof.
  split; [intro x; nra|]. split.
  - intro x. apply derivable_continuous_pt. apply derivable_pt_plus; [apply derivable_pt_const | apply derivable_pt_mult; apply derivable_pt_id].
  - assert (Ci : forall x : R, continuity_pt (fun t : R => t) x) by (intro x; apply derivable_continuous_pt; apply derivable_pt_id).
    apply List.Forall_cons; [split; [apply gauss_q_nonneg; lra | apply gauss_q_cont2; exact Ci]|].
    apply List.Forall_cons; [split; [apply gauss_q_nonneg; lra | apply gauss_q_cont2; exact Ci]|]. apply List.Forall_nil.
Qed.
