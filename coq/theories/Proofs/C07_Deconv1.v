(* C07 -- Deconvolution1D's matrix: the 1-d convolution operator (scipy.ndimage.convolve1d, all five
   boundary modes) is linear, so the matrix whose COLUMNS are the images of the unit vectors is the
   operator; the matrix whose ROWS are those images (today's assembly) is its transpose.  All sizes. *)
From CV Require Import Base.Tac Base.LinAlg Base.Cmp Base.QcLin Model.C07_Adj
  Proofs.C07_Lists Proofs.C07_Geom Proofs.C07_Model Proofs.C07_Conv.
From Coq Require Import QArith Qcanon.

Local Open Scope Qc_scope.

(* ---------- pointwise operations and list plumbing ---------- *)
Lemma qvadd_nil_l y : qvadd [] y = []. Proof. reflexivity. Qed.
Lemma qvadd_nil_r x : qvadd x [] = []. Proof. destruct x; reflexivity. Qed.

Lemma skipn_qvadd k x y : skipn k (qvadd x y) = qvadd (skipn k x) (skipn k y).
Proof.
  revert x y; induction k as [|k IH]; intros x y; [reflexivity|].
  destruct x as [|a x]; [cbn [skipn]; rewrite !qvadd_nil_l; reflexivity|].
  destruct y as [|b y]; [cbn [skipn]; rewrite !qvadd_nil_r; reflexivity|].
  rewrite qvadd_cons. cbn [skipn]. apply IH.
Qed.

Lemma firstn_qvadd k x y : firstn k (qvadd x y) = qvadd (firstn k x) (firstn k y).
Proof.
  revert x y; induction k as [|k IH]; intros x y; [reflexivity|].
  destruct x as [|a x]; [reflexivity|].
  destruct y as [|b y]; [cbn [firstn]; rewrite !qvadd_nil_r; reflexivity|].
  rewrite qvadd_cons. cbn [firstn]. rewrite qvadd_cons, IH. reflexivity.
Qed.

Lemma qvadd_app a b c d : length a = length c -> qvadd (a ++ b) (c ++ d) = qvadd a c ++ qvadd b d.
Proof.
  revert c; induction a as [|u a IH]; intros [|v c] H; simpl in H; try discriminate; [reflexivity|].
  cbn [app]. rewrite !qvadd_cons, IH by lia. reflexivity.
Qed.

Lemma qvadd_repeat0 k : qvadd (repeat 0 k) (repeat 0 k) = repeat 0 k.
Proof. induction k as [|k IH]; [reflexivity|]. cbn [repeat]. rewrite qvadd_cons, IH. f_equal; try ring. Qed.

Lemma qvadd_map_seq (g1 g2 : nat -> Qc) l : qvadd (map g1 l) (map g2 l) = map (fun i => g1 i + g2 i) l.
Proof. induction l as [|i l IH]; [reflexivity|]. cbn [map]. rewrite qvadd_cons, IH. reflexivity. Qed.

Lemma nth_qvadd j x y : length x = length y -> nth j (qvadd x y) 0 = nth j x 0 + nth j y 0.
Proof.
  revert j y; induction x as [|a x IH]; intros j [|b y] H; simpl in H; try discriminate.
  - destruct j; cbn; ring.
  - rewrite qvadd_cons. destruct j as [|j]; [reflexivity|]. cbn [nth]. apply IH. lia.
Qed.

Lemma nth_qvscale j c x : nth j (qvscale c x) 0 = c * nth j x 0.
Proof.
  revert j; induction x as [|a x IH]; intros j.
  - destruct j; cbn; ring.
  - rewrite qvscale_cons. destruct j as [|j]; [reflexivity|]. cbn [nth]. apply IH.
Qed.

Lemma qvscale_map c (g : nat -> Qc) l : qvscale c (map g l) = map (fun i => c * g i) l.
Proof. unfold qvscale, vscale. apply map_map. Qed.

Lemma qvscale_app c a b : qvscale c (a ++ b) = qvscale c a ++ qvscale c b.
Proof. unfold qvscale, vscale. apply map_app. Qed.

Lemma qvscale_repeat0 c k : qvscale c (repeat 0 k) = repeat 0 k.
Proof. rewrite <- qvzero_repeat. apply qvscale_vzero. Qed.

Lemma qvscale_skipn c k x : skipn k (qvscale c x) = qvscale c (skipn k x).
Proof. unfold qvscale, vscale. apply skipn_map. Qed.

Lemma qvscale_firstn c k x : firstn k (qvscale c x) = qvscale c (firstn k x).
Proof. unfold qvscale, vscale. apply firstn_map. Qed.

Lemma qvadd_interchange a b c d : qvadd (qvadd a b) (qvadd c d) = qvadd (qvadd a c) (qvadd b d).
Proof.
  revert b c d; induction a as [|u a IH]; intros b c d; [reflexivity|].
  destruct b as [|v b]; [destruct c; reflexivity|].
  destruct c as [|w c]; [reflexivity|].
  destruct d as [|z d]; [rewrite !qvadd_cons, !qvadd_nil_r; reflexivity|].
  rewrite !qvadd_cons, IH. f_equal; try ring.
Qed.

Lemma qvscale_qvadd c x y : qvscale c (qvadd x y) = qvadd (qvscale c x) (qvscale c y).
Proof.
  revert y; induction x as [|a x IH]; intros [|b y]; try reflexivity.
  rewrite qvadd_cons, !qvscale_cons, qvadd_cons, IH. f_equal; try ring.
Qed.

Lemma qvscale_qvscale c k x : qvscale c (qvscale k x) = qvscale k (qvscale c x).
Proof. induction x as [|a x IH]; [reflexivity|]. rewrite !qvscale_cons, IH. f_equal; try ring. Qed.

(* ---------- every boundary mode: the shift is linear ---------- *)
Lemma shift_qvadd m d x y : length x = length y ->
  shift 0 m d (qvadd x y) = qvadd (shift 0 m d x) (shift 0 m d y).
Proof.
  intros HL. assert (HA : length (qvadd x y) = length x) by (apply qvadd_length; exact HL).
  destruct m; cbn [shift].
  - (* zero fill *)
    unfold zshift. rewrite HA, <- HL. destruct (0 <=? d)%Z.
    + rewrite skipn_qvadd, <- (qvadd_repeat0 (Nat.min (Z.to_nat d) (length x))) at 1.
      symmetry. apply qvadd_app. rewrite !skipn_length. lia.
    + rewrite firstn_qvadd, <- (qvadd_repeat0 (Nat.min (Z.to_nat (- d)) (length x))) at 1.
      symmetry. apply qvadd_app. reflexivity.
  - (* periodic *)
    rewrite HA, <- HL. destruct (length x) eqn:E; [reflexivity|]. unfold rotl. rewrite skipn_qvadd, firstn_qvadd.
    symmetry. apply qvadd_app. rewrite !skipn_length. lia.
  - rewrite HA, <- HL, qvadd_map_seq. apply map_ext. intros i.
    destruct (ext BEdge (length x) (Z.of_nat i + d)); [apply nth_qvadd; exact HL | ring].
  - rewrite HA, <- HL, qvadd_map_seq. apply map_ext. intros i.
    destruct (ext BSymmetric (length x) (Z.of_nat i + d)); [apply nth_qvadd; exact HL | ring].
  - rewrite HA, <- HL, qvadd_map_seq. apply map_ext. intros i.
    destruct (ext BReflect (length x) (Z.of_nat i + d)); [apply nth_qvadd; exact HL | ring].
Qed.

Lemma shift_qvscale m d c x : shift 0 m d (qvscale c x) = qvscale c (shift 0 m d x).
Proof.
  destruct m; cbn [shift].
  - unfold zshift. rewrite qvscale_length. destruct (0 <=? d)%Z.
    + rewrite qvscale_app, qvscale_repeat0, qvscale_skipn. reflexivity.
    + rewrite qvscale_app, qvscale_repeat0, qvscale_firstn. reflexivity.
  - rewrite qvscale_length. destruct (length x); [reflexivity|]. unfold rotl. rewrite qvscale_app, qvscale_skipn, qvscale_firstn. reflexivity.
  - rewrite qvscale_length, qvscale_map. apply map_ext. intros i.
    destruct (ext BEdge (length x) (Z.of_nat i + d)); [apply nth_qvscale | ring].
  - rewrite qvscale_length, qvscale_map. apply map_ext. intros i.
    destruct (ext BSymmetric (length x) (Z.of_nat i + d)); [apply nth_qvscale | ring].
  - rewrite qvscale_length, qvscale_map. apply map_ext. intros i.
    destruct (ext BReflect (length x) (Z.of_nat i + d)); [apply nth_qvscale | ring].
Qed.

(* ---------- the convolution operator is linear, every boundary mode, every PSF ---------- *)
Lemma qvadd_vzero_vzero n : qvadd (qvzero n) (qvzero n) = qvzero n.
Proof. apply qvadd_vzero_r. apply qvzero_length. Qed.

Lemma conv1_terms_qvadd m w x y : length x = length y ->
  conv1_terms m w (qvadd x y) = qvadd (conv1_terms m w x) (conv1_terms m w y).
Proof.
  intros HL. induction w as [|cd w IH].
  - unfold conv1_terms. cbn [fold_right]. rewrite qvadd_length by exact HL. rewrite <- HL. symmetry. apply qvadd_vzero_vzero.
  - rewrite !conv1_terms_cons, IH, shift_qvadd by exact HL. rewrite qvscale_qvadd. apply qvadd_interchange.
Qed.

Lemma conv1_terms_qvscale m w c x : conv1_terms m w (qvscale c x) = qvscale c (conv1_terms m w x).
Proof.
  induction w as [|cd w IH].
  - unfold conv1_terms. cbn [fold_right]. rewrite qvscale_length, qvscale_vzero. reflexivity.
  - rewrite !conv1_terms_cons, IH, shift_qvscale, qvscale_qvadd. f_equal. apply qvscale_qvscale.
Qed.

Theorem conv1_linear m P n : linear_map n n (conv1 m P).
Proof.
  unfold conv1. repeat split.
  - intros x y Hx Hy. apply conv1_terms_qvadd. congruence.
  - intros c x _. apply conv1_terms_qvscale.
  - intros x Hx. rewrite conv1_terms_length. exact Hx.
Qed.

(* ---------- Deconvolution1D's matrix ---------- *)
Lemma deconv1_rows_shape m P n : wf_mat n (deconv1_rows m P n) /\ length (deconv1_rows m P n) = n.
Proof.
  unfold deconv1_rows. split; [|rewrite map_length, seq_length; reflexivity].
  apply Forall_forall. intros r Hr. apply in_map_iff in Hr as (i & <- & _).
  unfold conv1. rewrite conv1_terms_length. apply qunit_length.
Qed.

(* column assembly (the repaired code): the matrix IS the operator, all five boundary modes *)
Theorem deconv1_cols_operator m P n x : length x = n ->
  qmatvec (deconv1_cols m P n) x = conv1 m P x.
Proof.
  intros Hx. destruct (deconv1_rows_shape m P n) as [W L]. unfold deconv1_cols.
  rewrite (qmatvec_tr n _ x W) by (transitivity n; [exact Hx | symmetry; exact L]).
  symmetry. apply (linear_columns n n (conv1 m P) (conv1_linear m P n) x Hx).
Qed.

(* row assembly (today's code): the matrix is the TRANSPOSE of the operator *)
Theorem deconv1_rows_transposed m P n x y : length x = n -> length y = n ->
  qdot (qmatvec (deconv1_rows m P n) x) y = qdot x (conv1 m P y).
Proof.
  intros Hx Hy. destruct (deconv1_rows_shape m P n) as [W L].
  rewrite (qc_adjoint n _ x y W Hx).
  unfold deconv1_rows. rewrite <- (linear_columns n n (conv1 m P) (conv1_linear m P n) y Hy). reflexivity.
Qed.

(* ... so under periodic / zero boundary and an odd PSF size today's model convolves with the FLIPPED PSF,
   which is the documented operator exactly when the PSF is symmetric *)
Theorem deconv1_rows_flipped m P h n x : periodic_or_zero m -> length P = (2 * h + 1)%nat -> length x = n ->
  qmatvec (deconv1_rows m P n) x = conv1 m (rev P) x.
Proof.
  intros Hm HP Hx. destruct (deconv1_rows_shape m P n) as [W L].
  apply (dot_ext n).
  - rewrite qmatvec_length. exact L.
  - unfold conv1. rewrite conv1_terms_length. exact Hx.
  - intros y Hy. rewrite (qdot_comm y (qmatvec _ x)), (deconv1_rows_transposed m P n x y Hx Hy).
    rewrite (qdot_comm y (conv1 m (rev P) x)).
    rewrite (conv1_flip_adjoint m (rev P) h x y Hm); [rewrite rev_involutive; reflexivity | rewrite rev_length; exact HP | congruence].
Qed.

Theorem deconv1_rows_symmetric_ok m P h n x : periodic_or_zero m -> length P = (2 * h + 1)%nat ->
  rev P = P -> length x = n -> qmatvec (deconv1_rows m P n) x = conv1 m P x.
Proof. intros Hm HP Hs Hx. rewrite (deconv1_rows_flipped m P h n x Hm HP Hx), Hs. reflexivity. Qed.

(* refuted: asymmetric PSF under zero boundary; symmetric 5-tap PSF under replicate boundary *)
Lemma deconv1_rows_asymmetric_refuted :
  qmatvec (deconv1_rows BConstant (zv [1; 2; 3]%Z) 5) (zv [1; 0; 0; 0; 0]%Z) <> conv1 BConstant (zv [1; 2; 3]%Z) (zv [1; 0; 0; 0; 0]%Z).
Proof.
  intros H. apply (f_equal (fun l => qcl_eqb l (zv [2; 3; 0; 0; 0]%Z))) in H. vm_compute in H. discriminate.
Qed.

Lemma deconv1_rows_edge_refuted :
  qmatvec (deconv1_rows BEdge (zv [1; 2; 4; 2; 1]%Z) 4) (zv [1; 0; 0; 0]%Z) <> conv1 BEdge (zv [1; 2; 4; 2; 1]%Z) (zv [1; 0; 0; 0]%Z).
Proof.
  intros H. apply (f_equal (fun l => qcl_eqb l (conv1 BEdge (zv [1; 2; 4; 2; 1]%Z) (zv [1; 0; 0; 0]%Z)))) in H.
  vm_compute in H. discriminate.
Qed.
