(* C05 -- executable side of two third-round items (no proofs here):

   (a) the law of the neumann / repaired-periodic GMRF draws, direction by direction (theorem C05_gmrf_eps_law, mc/C05_Eps.v):
       with C = T T^T the covariance read off the implementation and (lam, v) an eigenpair of P = D^T D,
            C v = lam / (prec (lam + sqrt_eps)^2) v,          in particular C v = 0 on the null space of P.
       eps_var_q is the Q-instance of CVmc.C05_Eps.eps_var (same formula); eigenpairs are certificates checked here.

   (b) ModifiedHalfNormal._sample after the repair c35fc0e:
            np.array([[self._MHN_sample(alpha[i], beta[i], gamma[i], rng) for _ in range(N)] for i in range(len(alpha))])     (vector parameters)
            np.array([[self._MHN_sample(alpha, beta, gamma, rng) for _ in range(N)] for _ in range(self.dim)])               (scalar parameters)
       the kernel _MHN_sample is called dim*N times, component-major, with the parameters of THAT component; the k-th value it
       returns lands in row k / N, column k mod N. *)
From CV Require Import Base.Tac Base.Cmp Model.C05_Sample.
From Coq Require Import QArith Qabs.
Open Scope Q_scope.

(* ---------------- (a) ---------------- *)
Definition eps_var_q (prec eps lam : Q) : Q := lam / (prec * ((lam + eps) * (lam + eps))).
Definition doc_var_q (prec lam : Q) : Q := 1 / (prec * lam).
Definition vec_close_abs (tol : Q) (a b : Qvec) : bool :=
  (length a =? length b)%nat && forallb (fun p => Qle_bool (Qabs (fst p - snd p)) tol) (combine a b).
Definition eig_ok (tol prec : Q) (P C : Qmat) (e : Q * Qvec) : bool :=
  let (lam, v) := e in
  Qle_bool 0 lam &&
  vec_close_abs tol (qmv P v) (qvscale lam v) &&
  vec_close_abs tol (qmv C v) (qvscale (eps_var_q prec sqrt_eps lam) v).
(* the eigenvectors must be a basis certificate of the right size: n vectors of length n, each of norm^2 within tol of 1,
   pairwise orthogonal within tol (so that the directions checked span the space) *)
Definition orthonormal_ok (tol : Q) (n : nat) (vs : list Qvec) : bool :=
  (length vs =? n)%nat && forallb (fun v => (length v =? n)%nat) vs &&
  mat_close tol (qmm vs (qtr vs)) (qid n).
(* the quadratic form v^T C v = |T^T v|^2 is insensitive to the rounding noise the 1/eps-conditioned solves put into the null
   direction (that noise is orthogonal to v): it pins the variance along v to eps_var within 1e-11 RELATIVE -- four orders of
   magnitude below the distance 2 sqrt(eps)/lam ~ 3e-8 between the regularised and the documented variance *)
Definition rayleigh_ok (prec : Q) (C : Qmat) (e : Q * Qvec) : bool :=
  let (lam, v) := e in
  let b := eps_var_q prec sqrt_eps lam * qdot v v in
  Qle_bool (Qabs (qdot v (qmv C v) - b)) ((1 # 100000000000) * Qabs b + (1 # 10000000000000)).
Definition check_eps_law (n : nat) (prec : Q) (P T : Qmat) (es : list (Q * Qvec)) : bool :=
  has_shape n n P && (length T =? n)%nat &&
  orthonormal_ok tol9 n (map snd es) &&
  forallb (eig_ok tol6 prec P (cov_of T)) es &&
  forallb (rayleigh_ok prec (cov_of T)) es.
(* the same test against the DOCUMENTED variance 1/(prec lam): must fail on the range of P (used by the cells to show that the
   check tells the two laws apart) *)
Definition rayleigh_doc_ok (prec : Q) (C : Qmat) (e : Q * Qvec) : bool :=
  let (lam, v) := e in
  let b := doc_var_q prec lam * qdot v v in
  Qle_bool (Qabs (qdot v (qmv C v) - b)) ((1 # 100000000000) * Qabs b + (1 # 10000000000000)).
Definition check_eps_law_discriminates (prec : Q) (T : Qmat) (es : list (Q * Qvec)) : bool :=
  forallb (fun e => Qeq_bool (fst e) 0 || negb (rayleigh_doc_ok prec (cov_of T) e)) es.

(* ---------------- (b) ---------------- *)
Definition triple := (Q * Q * Q)%type.
(* the parameters per component: vector parameters as given; scalar parameters repeated dim times *)
Definition mhn_component_params (vector : bool) (dim : nat) (ps : list triple) : list triple :=
  if vector then ps else match ps with p :: _ => repeat p dim | [] => [] end.
(* the sequence of kernel calls: component-major *)
Definition mhn_calls (N : nat) (comps : list triple) : list triple := flat_map (fun p => repeat p N) comps.
(* where the k-th returned value goes: rows of N consecutive values *)
Fixpoint chunks (N : nat) (rows : nat) (l : list Q) : list (list Q) :=
  match rows with O => [] | S r => firstn N l :: chunks N r (skipn N l) end.
Definition mhn_layout (N : nat) (comps : list triple) (vals : list Q) : Qmat := chunks N (length comps) vals.

Definition triple_eqb (a b : triple) : bool :=
  let '(a1, a2, a3) := a in let '(b1, b2, b3) := b in Qeq_bool a1 b1 && Qeq_bool a2 b2 && Qeq_bool a3 b3.
Definition check_mhn_layout (vector : bool) (dim N : nat) (ps : list triple) (vals : list Q)
           (obs_calls : list triple) (obs : Qmat) : bool :=
  let comps := mhn_component_params vector dim ps in
  list_eqb triple_eqb obs_calls (mhn_calls N comps) && qll_eqb obs (mhn_layout N comps vals).
