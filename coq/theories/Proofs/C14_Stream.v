(* C14 -- the random stream continues across calls exactly when the work done once per call is neutral on it. *)
From CV Require Import Base.Tac Base.Cmp Model.C14_Chain Model.C14_Stream.

Section StreamProofs.
Variables Cfg St Pt V K : Type.
Variable step : Cfg -> K -> St -> stream V -> St * nat.
Variable pre : Cfg -> St -> stream V -> St * nat.
Variable point : St -> Pt.
Notation one := (one Cfg St Pt V K step point).
Notation transitions := (transitions Cfg St Pt V K step point).
Notation enter := (enter Cfg St Pt V pre).
Notation call := (call Cfg St Pt V K step pre point).
Notation calls := (calls Cfg St Pt V K step pre point).
Notation used := (used Cfg St Pt V K step pre point).

Lemma transitions_app c str ks1 ks2 r : transitions c str r (ks1 ++ ks2) = transitions c str (transitions c str r ks1) ks2.
Proof. unfold C14_Stream.transitions. apply fold_left_app. Qed.

Lemma transitions_pos_le c str ks : forall r, (c_pos r <= c_pos (transitions c str r ks))%nat.
Proof.
  induction ks as [|k ks IH]; intros r; [apply Nat.le_refl|].
  cbn [C14_Stream.transitions fold_left]. eapply Nat.le_trans; [|apply IH]. cbn. lia.
Qed.

Lemma enter_pos_le c str r : (c_pos r <= c_pos (enter c str r))%nat.
Proof. cbn. lia. Qed.

Lemma call_pos_le c str r ks : (c_pos r <= c_pos (call c str r ks))%nat.
Proof. unfold C14_Stream.call. eapply Nat.le_trans; [apply (enter_pos_le c str r)|apply transitions_pos_le]. Qed.

Lemma calls_pos_le c str kss : forall r, (c_pos r <= c_pos (calls c str r kss))%nat.
Proof.
  induction kss as [|ks rest IH]; intros r; [apply Nat.le_refl|].
  cbn [C14_Stream.calls fold_left]. eapply Nat.le_trans; [apply (call_pos_le c str r ks)|apply IH].
Qed.

(* what every call consumed adds up to the distance the stream moved *)
Lemma used_sum c str kss : forall r,
  fold_right Nat.add 0%nat (used c str r kss) = (c_pos (calls c str r kss) - c_pos r)%nat.
Proof.
  induction kss as [|ks rest IH]; intros r.
  - cbn. lia.
  - cbn [C14_Stream.used fold_right]. rewrite IH.
    pose proof (call_pos_le c str r ks) as H1.
    pose proof (calls_pos_le c str rest (call c str r ks)) as H2.
    change (calls c str r (ks :: rest)) with (calls c str (call c str r ks) rest). lia.
Qed.

(* ---------------------------------------------------------------------------------------- *)
(* per-call work that is neutral once it has been done: it establishes an invariant the transitions keep, and on
   states satisfying the invariant it changes nothing and draws nothing *)
Section Neutral.
Variable Inv : St -> Prop.
Hypothesis Hstep : forall c k s str, Inv s -> Inv (fst (step c k s str)).
Hypothesis Hpre_inv : forall c s str, Inv (fst (pre c s str)).
Hypothesis Hpre_id : forall c s str, Inv s -> pre c s str = (s, 0%nat).

Lemma transitions_inv c str ks : forall r, Inv (c_st r) -> Inv (c_st (transitions c str r ks)).
Proof.
  induction ks as [|k ks IH]; intros r H; [exact H|].
  cbn [C14_Stream.transitions fold_left]. apply IH. cbn. apply Hstep. exact H.
Qed.

Lemma enter_id c str r : Inv (c_st r) -> enter c str r = r.
Proof.
  intros H. destruct r as [s p l]. unfold C14_Stream.enter. cbn [c_st c_pos c_rec] in *.
  rewrite (Hpre_id c s (shift V str p) H). cbn. rewrite Nat.add_0_r. reflexivity.
Qed.

Lemma call_inv c str r ks : Inv (c_st (call c str r ks)).
Proof. unfold C14_Stream.call. apply transitions_inv. cbn. apply Hpre_inv. Qed.

(* a call with no transitions, made on a sampler that has been called before, is a no-op: state, POSITION, record *)
Lemma empty_call c str r : Inv (c_st r) -> call c str r [] = r.
Proof. intros H. unfold C14_Stream.call. rewrite (enter_id c str r H). reflexivity. Qed.

(* two calls are one call: state, position in the stream, recorded chain *)
Lemma call_call c str r ks1 ks2 : call c str (call c str r ks1) ks2 = call c str r (ks1 ++ ks2).
Proof.
  unfold C14_Stream.call at 1. rewrite (enter_id c str _ (call_inv c str r ks1)).
  unfold C14_Stream.call. rewrite transitions_app. reflexivity.
Qed.

Lemma calls_flat c str rest : forall r ks, calls c str (call c str r ks) rest = call c str r (ks ++ concat rest).
Proof.
  induction rest as [|k2 rest IH]; intros r ks.
  - cbn. rewrite app_nil_r. reflexivity.
  - cbn [C14_Stream.calls fold_left concat]. rewrite call_call. change (fold_left (call c str) rest) with (fun r0 => calls c str r0 rest).
    cbn beta. rewrite IH. rewrite app_assoc. reflexivity.
Qed.

(* any non-empty sequence of calls (zero-length calls included, sample and warm-up transitions mixed) leaves the sampler
   -- state, stream position, recorded chain -- where ONE call with all the transitions leaves it *)
Theorem stream_calls_one c str r ks rest : calls c str r (ks :: rest) = call c str r (ks ++ concat rest).
Proof. cbn [C14_Stream.calls fold_left]. apply (calls_flat c str rest r ks). Qed.

(* and a later call consumes exactly what its transitions consume *)
Theorem later_call_consumes_transitions_only c str r ks : Inv (c_st r) ->
  c_pos (call c str r ks) = c_pos (transitions c str r ks).
Proof. intros H. unfold C14_Stream.call. rewrite (enter_id c str r H). reflexivity. Qed.
End Neutral.

(* ---------------------------------------------------------------------------------------- *)
(* the converse: per-call work that leaves the state alone but consumes kk variates moves the stream by kk in EVERY call,
   so a zero-length call is not a no-op and N-then-M is not N+M as soon as kk > 0 *)
Section Drawing.
Variable Inv : St -> Prop.
Variable kk : nat.
Hypothesis Hpre_k : forall c s str, Inv s -> pre c s str = (s, kk).

Lemma drawing_empty_call c str r : Inv (c_st r) -> c_pos (call c str r []) = (c_pos r + kk)%nat /\ c_st (call c str r []) = c_st r.
Proof.
  intros H. destruct r as [s p l]. unfold C14_Stream.call, C14_Stream.enter. cbn [c_st c_pos c_rec] in *.
  rewrite (Hpre_k c s (shift V str p) H). cbn. split; reflexivity.
Qed.

Theorem drawing_empty_call_not_noop c str r : Inv (c_st r) -> (0 < kk)%nat -> call c str r [] <> r.
Proof.
  intros H Hk E. pose proof (proj1 (drawing_empty_call c str r H)) as P. rewrite E in P. lia.
Qed.
End Drawing.
End StreamProofs.

(* ------------------------------------------------------------------------------------------ *)
(* a concrete machine whose per-call work draws one variate (a validation that samples from the target): the stream is
   the sequence 0, 1, 2, ...; a transition moves to the variate it reads.  sample(2); sample(1) records [1; 2; 4],
   sample(3) records [1; 2; 3]; and sample(0); sample(3) differs from sample(3) *)
Definition w_step (_ : unit) (_ : unit) (_ : nat) (s : stream nat) : nat * nat := (s 0%nat, 1%nat).
Definition w_pre (_ : unit) (x : nat) (_ : stream nat) : nat * nat := (x, 1%nat).
Definition w_str : stream nat := fun i => i.
Definition w_calls (sizes : list nat) : core nat nat :=
  calls unit nat nat nat unit w_step w_pre (fun x => x) tt w_str (mkCore 0%nat 0%nat []) (map units sizes).

Lemma percall_draw_witness :
  c_rec (w_calls [2; 1]%nat) = [1; 2; 4]%nat /\ c_rec (w_calls [3]%nat) = [1; 2; 3]%nat /\
  c_rec (w_calls [0; 3]%nat) = [2; 3; 4]%nat /\ c_pos (w_calls [3; 0]%nat) = 5%nat /\ c_pos (w_calls [3]%nat) = 4%nat.
Proof. repeat split; reflexivity. Qed.

(* the trace instance evaluated by check_draws satisfies the hypotheses of `Neutral` with the trivial invariant *)
Lemma ts_instance per :
  (forall c k s str, True -> (fun _ : nat => True) (fst (ts_step per c k s str))) /\
  (forall c s str, (fun _ : nat => True) (fst (ts_pre 0%nat c s str))) /\
  (forall c s str, True -> ts_pre 0%nat c s str = (s, 0%nat)).
Proof. repeat split. Qed.

(* consequently what check_draws expects adds up, for any split, to the consumption of the unsplit run *)
Lemma ts_calls_sum per sizes :
  fold_right Nat.add 0%nat (ts_calls per 0%nat sizes) =
  c_pos (calls unit nat nat unit unit (ts_step per) (ts_pre 0%nat) (fun k => k) tt (fun _ => tt) (mkCore 0%nat 0%nat []) (map units sizes)).
Proof.
  unfold ts_calls. rewrite used_sum. cbn [c_pos]. lia.
Qed.
