(* C19 -- Sample statistics and burn-in/thinning are exact functions of the stored chain.
   Property theorems only: each is closed by `exact <lemma>` and followed by Print Assumptions. *)
From CV Require Import Base.Tac Base.Cmp Model.C19_Stats Proofs.C19_Stats.
From Coq Require Import QArith Sorting.Sorted.

(* burnthin(Nb,Nt) returns exactly the stored samples Nb, Nb+Nt, Nb+2Nt, ... in order: the i-th
   kept sample is stored sample Nb+i*Nt, and i is a valid kept index iff Nb+i*Nt is a stored one
   (every sample type A: vectors or multi-dimensional function values alike) *)
Theorem C19_burnthin_nth : forall (A : Type) (l r : list A) (nb nt i : nat) (d : A),
  burnthin nb nt l = Some r ->
  nth i r d = nth (nb + i * nt) l d /\ (i < length r <-> nb + i * nt < length l)%nat.
Proof. intros A l r nb nt i d H. split; [exact (burnthin_nth l nb nt r i d H) | exact (burnthin_in_range l nb nt r i H)]. Qed.
Print Assumptions C19_burnthin_nth.

Theorem C19_burnthin_length : forall (A : Type) (l r : list A) (nb nt : nat),
  burnthin nb nt l = Some r -> length r = ((length l - nb + nt - 1) / nt)%nat.
Proof. intros A l r nb nt. exact (burnthin_length l nb nt r). Qed.
Print Assumptions C19_burnthin_length.

(* refused exactly when Nb >= Ns or Nt = 0 *)
Theorem C19_burnthin_defined : forall (A : Type) (l : list A) (nb nt : nat),
  (exists r, burnthin nb nt l = Some r) <-> (nb < length l /\ 0 < nt)%nat.
Proof. intros A. exact (@burnthin_defined A). Qed.
Print Assumptions C19_burnthin_defined.

(* any sequence of burnthin calls is one burnthin call *)
Theorem C19_burnthin_compose : forall (A : Type) (l r1 : list A) (b1 t1 b2 t2 : nat),
  burnthin b1 t1 l = Some r1 -> burnthin b2 t2 r1 = burnthin (b1 + b2 * t1) (t1 * t2) l.
Proof. intros A l r1 b1 t1 b2 t2. exact (burnthin_compose l b1 t1 b2 t2 r1). Qed.
Print Assumptions C19_burnthin_compose.

(* geometry and representation flags are carried over unchanged *)
Theorem C19_burnthin_flags : forall (A : Type) (nb nt : nat) (s s' : samples_obj A),
  obj_burnthin nb nt s = Some s' ->
  s_is_par s' = s_is_par s /\ s_is_vec s' = s_is_vec s /\ s_geom s' = s_geom s /\
  burnthin nb nt (s_chain s) = Some (s_chain s').
Proof. intros A. exact (@obj_burnthin_flags A). Qed.
Print Assumptions C19_burnthin_flags.

(* joint sample sets: same keys in the same order, every member burn-thinned with (Nb,Nt);
   refused iff some member refuses *)
Theorem C19_joint : forall (A : Type) (nb nt : nat) (J R : list (string * list A)),
  joint_burnthin nb nt J = Some R ->
  map fst R = map fst J /\ Forall2 (fun a b => burnthin nb nt (snd a) = Some (snd b)) J R.
Proof. intros A. exact (@joint_burnthin_spec A). Qed.
Print Assumptions C19_joint.

Theorem C19_joint_refused : forall (A : Type) (nb nt : nat) (J : list (string * list A)),
  joint_burnthin nb nt J = None <-> Exists (fun a => burnthin nb nt (snd a) = None) J.
Proof. intros A. exact (@joint_burnthin_refused A). Qed.
Print Assumptions C19_joint_refused.

(* the percentile the credible interval is built from is monotone in the percentage *)
Theorem C19_percentile_monotone : forall (l : list Z) (n1 n2 : Z) (d : positive), l <> [] ->
  (0 <= n1 <= n2)%Z -> (n2 <= 100 * Z.pos d)%Z -> percentile l n1 d <= percentile l n2 d.
Proof. exact percentile_monotone. Qed.
Print Assumptions C19_percentile_monotone.

(* lower bound <= median <= upper bound, width = their difference >= 0, every credibility level *)
Theorem C19_ci_order : forall (l : list Z) (cn : Z) (cd : positive), l <> [] ->
  (0 <= cn <= 100 * Z.pos cd)%Z ->
  ci_lo l cn cd <= median l /\ median l <= ci_hi l cn cd /\
  ci_width l cn cd == ci_hi l cn cd - ci_lo l cn cd /\ 0 <= ci_width l cn cd.
Proof. exact ci_order. Qed.
Print Assumptions C19_ci_order.

(* variance (ddof 0) is E[x^2] - E[x]^2 and non-negative *)
Theorem C19_variance : forall l : list Z, l <> [] ->
  variance l == inject_Z (zsum (map (fun x => x * x)%Z l)) / inject_Z (zlen l) - mean l * mean l
  /\ 0 <= variance l.
Proof. intros l H. split; [exact (variance_alt l H) | exact (variance_nonneg l H)]. Qed.
Print Assumptions C19_variance.

(* the chains handed to arviz: with distinct variable names, variable i gets exactly row i *)
Theorem C19_names_to_chains : forall (names : list string) (rows : list (list Z)) (i : nat) (d0 : string),
  NoDup names -> length names = length rows -> (i < length names)%nat ->
  dict_get (nth i names d0) (arviz_dict names rows) = Some (nth i rows []).
Proof. exact arviz_dict_row. Qed.
Print Assumptions C19_names_to_chains.

(* non-vacuity: a concrete chain meets the hypotheses *)
Example C19_example :
  burnthin 1 2 [10; 11; 12; 13; 14; 15]%Z = Some [11; 13; 15]%Z /\
  ci_lo [3; 1; 2; 5; 4]%Z 50 1 == 2 /\ median [3; 1; 2; 5; 4]%Z == 3 /\ ci_hi [3; 1; 2; 5; 4]%Z 50 1 == 4.
Proof. vm_compute. repeat split; reflexivity. Qed.
