(* C17 (deepening) -- Heat1D / Poisson1D: the coded matrices are the documented finite-difference stencils
   (all sizes), the forward-Euler levels satisfy the recurrence, the Poisson operator is the conservative
   three-point stencil with homogeneous Dirichlet ends. *)
From CV Require Import Base.Tac Base.LinAlg Model.C17_TP Model.C17_More Proofs.C17_Assembly Proofs.C17_Legacy Proofs.C17_Circ.
From Coq Require Import Ring.

Section PDE.
Variable R : Type.
Variables (r0 r1 : R) (radd rmul rsub : R -> R -> R) (ropp : R -> R).
Hypothesis Rth : ring_theory r0 r1 radd rmul rsub ropp (@eq R).
Add Ring Rring17p : Rth.
Notation "x + y" := (radd x y).
Notation "x * y" := (rmul x y).
Notation "- x" := (ropp x).
Local Notation sum_idx := (sum_idx r0 radd).
Local Notation dot := (dot r0 radd rmul).
Local Notation matvec := (matvec r0 radd rmul).
Local Notation mattvec := (mattvec r0 radd rmul).
Local Notation delta := (delta r0).

Lemma dot_map_seq_gen (f : nat -> R) m : forall s (u : list R), length u = m ->
  dot (map f (seq s m)) u = fold_right radd r0 (map (fun c => f c * nth (c - s) u r0) (seq s m)).
Proof.
  induction m as [|m IH]; intros s [|a u] H; simpl in *; try discriminate; try reflexivity.
  rewrite Nat.sub_diag. f_equal. rewrite IH by lia. f_equal.
  apply map_ext_in. intros c Hc. apply in_seq in Hc. replace (c - s)%nat with (S (c - S s)) by lia. reflexivity.
Qed.

Lemma dot_map_seq (f : nat -> R) m (u : list R) : length u = m ->
  dot (map f (seq 0 m)) u = sum_idx (fun c => f c * nth c u r0) m.
Proof.
  intros H. rewrite dot_map_seq_gen by exact H. unfold C17_TP.sum_idx. f_equal.
  apply map_ext. intros c. rewrite Nat.sub_0_r. reflexivity.
Qed.

Lemma nth_matvec_mat_of n m (e : nat -> nat -> R) u r : (r < n)%nat -> length u = m ->
  nth r (matvec (mat_of n m e) u) r0 = sum_idx (fun c => e r c * nth c u r0) m.
Proof.
  intros Hr Hu. unfold LinAlg.matvec, mat_of. rewrite map_map.
  rewrite (nth_map_seq _ n r _ Hr). apply dot_map_seq. exact Hu.
Qed.

Lemma sum_idx_add3 (f g h : nat -> R) n :
  sum_idx (fun k => (f k + g k + h k)) n = sum_idx f n + sum_idx g n + sum_idx h n.
Proof.
  rewrite <- !(sum_idx_add R r0 r1 radd rmul rsub ropp Rth). reflexivity.
Qed.

(* a Kronecker delta picks one term *)
Lemma sum_delta (g : nat -> R) v k m : (k < m)%nat ->
  sum_idx (fun c => delta c k v * g c) m = v * g k.
Proof.
  intros Hk. rewrite (sum_idx_single R r0 r1 radd rmul rsub ropp Rth _ m k Hk).
  - unfold C17_More.delta. rewrite Nat.eqb_refl. reflexivity.
  - intros c Hc Hne. unfold C17_More.delta. destruct (Nat.eqb_spec c k); [contradiction | ring].
Qed.

Lemma sum_delta_out (g : nat -> R) v k m : (m <= k)%nat ->
  sum_idx (fun c => delta c k v * g c) m = r0.
Proof.
  intros Hk. apply (sum_idx_zero R r0 r1 radd rmul rsub ropp Rth). intros c Hc.
  unfold C17_More.delta. destruct (Nat.eqb_spec c k); [lia | ring].
Qed.

Lemma sum_delta_succ (g : nat -> R) v r m : (r <= m)%nat ->
  sum_idx (fun c => delta (c + 1) r v * g c) m = match r with O => r0 | S r' => v * g r' end.
Proof.
  intros Hr. destruct r as [|r'].
  - apply (sum_idx_zero R r0 r1 radd rmul rsub ropp Rth). intros c Hc.
    unfold C17_More.delta. destruct (Nat.eqb_spec (c + 1) 0); [lia | ring].
  - rewrite (sum_idx_single R r0 r1 radd rmul rsub ropp Rth _ m r' ltac:(lia)).
    + unfold C17_More.delta. replace (r' + 1)%nat with (S r') by lia. rewrite Nat.eqb_refl. reflexivity.
    + intros c Hc Hne. unfold C17_More.delta. destruct (Nat.eqb_spec (c + 1) (S r')); [lia | ring].
Qed.

(* ---- Heat1D: dx^2 Dxx u = the second-difference stencil with zero (Dirichlet) values outside ---- *)
Theorem dxx_stencil N (u : list R) r : (r < N)%nat -> length u = N ->
  nth r (matvec (dxx_matrix r0 r1 radd ropp N) u) r0
  = - (r1 + r1) * nth r u r0 + (match r with O => r0 | S r' => nth r' u r0 end) + nth (r + 1) u r0.
Proof.
  intros Hr Hu. unfold dxx_matrix. rewrite nth_matvec_mat_of by assumption.
  unfold dxx_entry.
  rewrite (sum_idx_ext R r0 radd _
            (fun c => delta c r (- (r1 + r1)) * nth c u r0 + delta (c + 1) r r1 * nth c u r0 + delta c (r + 1) r1 * nth c u r0))
    by (intros; ring).
  rewrite sum_idx_add3, sum_delta by exact Hr.
  rewrite (sum_delta_succ (fun c => nth c u r0)) by lia.
  f_equal; [f_equal; destruct r; ring|].
  destruct (Nat.lt_ge_cases (r + 1) N) as [H|H].
  - rewrite sum_delta by exact H. ring.
  - rewrite sum_delta_out by exact H. rewrite nth_overflow by lia. reflexivity.
Qed.

(* ---- forward Euler: every stored level is the coded step applied to the previous one ---- *)
Theorem euler_levels_spec steps dtA (u : list R) :
  length (euler_levels r0 radd rmul steps dtA u) = S steps /\
  nth 0 (euler_levels r0 radd rmul steps dtA u) [] = u /\
  (forall k, (k < steps)%nat ->
     nth (S k) (euler_levels r0 radd rmul steps dtA u) [] = euler_step r0 radd rmul dtA (nth k (euler_levels r0 radd rmul steps dtA u) [])) /\
  euler_final r0 radd rmul steps dtA u = nth steps (euler_levels r0 radd rmul steps dtA u) [].
Proof.
  revert u. induction steps as [|s IH]; intros u.
  - cbn. repeat split; try reflexivity. intros k Hk. lia.
  - destruct (IH (euler_step r0 radd rmul dtA u)) as [HL [H0 [HS HF]]].
    cbn [euler_levels]. split; [simpl; rewrite HL; reflexivity|]. split; [reflexivity|]. split.
    + intros k Hk. destruct k as [|k]; cbn [nth]; [exact H0 | apply HS; lia].
    + unfold euler_final in *. cbn [euler_levels nth].
      rewrite <- HF.
      remember (euler_levels r0 radd rmul s dtA (euler_step r0 radd rmul dtA u)) as L eqn:EL.
      destruct L as [|a L]; [simpl in HL; discriminate|].
      clear. revert a. induction L as [|b L IHL]; intros a; [reflexivity|]. cbn [last] in *. apply IHL.
Qed.

(* (dt*A + I) u  =  dt*A u + u : the step as coded is the step of the model *)
Lemma matvec_add_identity n (A : list (list R)) (u : list R) : wf_mat n A -> length A = n -> length u = n ->
  matvec (map (fun p => vadd radd (fst p) (snd p)) (combine A (map (unit_vec r0 r1 n) (seq 0 n)))) u
  = euler_step r0 radd rmul A u.
Proof.
  intros Hwf HA Hu. unfold euler_step.
  assert (G : forall s (A' : list (list R)) , wf_mat n A' -> (s + length A' = n)%nat ->
            LinAlg.matvec r0 radd rmul (map (fun p => vadd radd (fst p) (snd p)) (combine A' (map (unit_vec r0 r1 n) (seq s (length A'))))) u
            = vadd radd (LinAlg.matvec r0 radd rmul A' u) (skipn s u)).
  { intros s A' Hw. revert s. induction Hw as [|row A' Hrow HA' IH]; intros s Hs; [reflexivity|].
    cbn [length seq map combine LinAlg.matvec fst snd]. simpl in Hs.
    assert (Hsk : skipn s u = nth s u r0 :: skipn (S s) u).
    { clear -Hu Hs. revert s Hs. revert n Hu. induction u as [|a u IHu]; intros n Hu s Hs; simpl in *; [lia|].
      destruct s; [reflexivity|]. destruct n; [lia|]. apply (IHu n); lia. }
    rewrite Hsk. cbn [LinAlg.vadd]. f_equal.
    - rewrite (dot_vadd_l R r0 r1 radd rmul rsub ropp Rth) by (rewrite (unit_vec_length R r0 r1); exact Hrow).
      rewrite (dot_unit_vec R r0 r1 radd rmul rsub ropp Rth) by lia. reflexivity.
    - apply IH. lia. }
  specialize (G 0%nat A Hwf ltac:(lia)). rewrite HA in G. exact G.
Qed.

(* ---- Poisson1D ---- *)
Lemma pdx_apply N (u : list R) r : (r < N + 1)%nat -> length u = N ->
  nth r (matvec (pdx_matrix r0 r1 radd ropp N) u) r0
  = match r with O => nth 0 u r0 | S r' => - nth r' u r0 + nth (r' + 1) u r0 end.
Proof.
  intros Hr Hu. unfold pdx_matrix. rewrite nth_matvec_mat_of by assumption.
  destruct r as [|r']; cbn [pdx_entry].
  - destruct N as [|N'].
    + destruct u; [|discriminate]. reflexivity.
    + rewrite sum_delta by lia. ring.
  - rewrite (sum_idx_ext R r0 radd _
              (fun c => delta c r' (- r1) * nth c u r0 + delta c (r' + 1) r1 * nth c u r0)) by (intros; ring).
    rewrite (sum_idx_add R r0 r1 radd rmul rsub ropp Rth), sum_delta by lia.
    destruct (Nat.lt_ge_cases (r' + 1) N) as [H|H].
    + rewrite sum_delta by exact H. ring.
    + rewrite sum_delta_out by exact H. replace (nth (r' + 1) u r0) with r0 by (symmetry; apply nth_overflow; lia). ring.
Qed.

Lemma nth_mattvec_gen m (e : nat -> nat -> R) c : (c < m)%nat -> forall n s (w : list R), length w = n ->
  nth c (mattvec m (map (fun r => map (e r) (seq 0 m)) (seq s n)) w) r0
  = fold_right radd r0 (map (fun r => nth (r - s) w r0 * e r c) (seq s n)).
Proof.
  intros Hc. induction n as [|n IH]; intros s [|b w] H; simpl in H; try discriminate.
  - cbn. apply (nth_vzero R r0).
  - cbn [seq map LinAlg.mattvec fold_right].
    rewrite (nth_vadd R r0 r1 radd rmul rsub ropp Rth).
    2:{ rewrite vscale_length, map_length, seq_length. symmetry. apply mattvec_length.
        unfold wf_mat. apply Forall_forall. intros row Hrow. apply in_map_iff in Hrow as [q [<- _]].
        rewrite map_length, seq_length. reflexivity. }
    rewrite (nth_vscale R r0 r1 radd rmul rsub ropp Rth), (nth_map_seq _ m c _ Hc), Nat.sub_diag. cbn [nth].
    f_equal. rewrite IH by lia. f_equal. apply map_ext_in. intros q Hq. apply in_seq in Hq.
    replace (q - s)%nat with (S (q - S s)) by lia. reflexivity.
Qed.

Lemma pdxT_apply N (w : list R) c : (c < N)%nat -> length w = (N + 1)%nat ->
  nth c (mattvec N (pdx_matrix r0 r1 radd ropp N) w) r0 = nth c w r0 + - nth (c + 1) w r0.
Proof.
  intros Hc Hw. unfold pdx_matrix, mat_of. rewrite (nth_mattvec_gen N _ c Hc (N + 1) 0 w Hw).
  change (fold_right radd r0 (map (fun r => nth (r - 0) w r0 * pdx_entry r0 r1 radd ropp r c) (seq 0 (N + 1))))
    with (sum_idx (fun r => nth (r - 0) w r0 * pdx_entry r0 r1 radd ropp r c) (N + 1)).
  (* split the column into its two non-zero rows r = c and r = c+1 *)
  rewrite (sum_idx_ext R r0 radd _
            (fun r => delta r c r1 * nth r w r0 + delta r (c + 1) (- r1) * nth r w r0)).
  - rewrite (sum_idx_add R r0 r1 radd rmul rsub ropp Rth), !sum_delta by lia. ring.
  - intros r Hr. rewrite Nat.sub_0_r. unfold C17_More.delta. destruct r as [|r']; cbn [pdx_entry]; unfold C17_More.delta.
    + destruct (Nat.eqb_spec c 0); destruct (Nat.eqb_spec 0 c); destruct (Nat.eqb_spec 0 (c + 1)); try lia; ring.
    + destruct (Nat.eqb_spec c r'); destruct (Nat.eqb_spec c (r' + 1)); destruct (Nat.eqb_spec (S r') c);
        destruct (Nat.eqb_spec (S r') (c + 1)); try lia; ring.
Qed.

(* dx^2 (Dx^T diag(kappa) Dx) u  =  kappa_c (u_c - u_{c-1}) - kappa_{c+1} (u_{c+1} - u_c),  u_{-1} = u_N = 0 *)
Theorem poisson_stencil N (kappa u : list R) c : (c < N)%nat -> length u = N -> length kappa = (N + 1)%nat ->
  nth c (poisson_op r0 r1 radd rmul ropp N kappa u) r0
  = nth c kappa r0 * (nth c u r0 + - (match c with O => r0 | S c' => nth c' u r0 end))
    + - (nth (c + 1) kappa r0 * (nth (c + 1) u r0 + - nth c u r0)).
Proof.
  intros Hc Hu Hk. unfold poisson_op.
  set (Du := matvec (pdx_matrix r0 r1 radd ropp N) u).
  assert (HDu : length Du = (N + 1)%nat).
  { unfold Du, LinAlg.matvec, pdx_matrix, mat_of. rewrite !map_length, seq_length. reflexivity. }
  set (w := map (fun p => fst p * snd p) (combine kappa Du)).
  assert (Hw : length w = (N + 1)%nat) by (unfold w; rewrite map_length, combine_length; lia).
  assert (Hwn : forall r, (r < N + 1)%nat -> nth r w r0 = nth r kappa r0 * nth r Du r0).
  { intros r Hr. unfold w.
    rewrite (nth_indep _ r0 ((fun p => fst p * snd p) (r0, r0))) by (rewrite map_length, combine_length; lia).
    rewrite (map_nth (fun p => fst p * snd p)), combine_nth by lia. reflexivity. }
  rewrite pdxT_apply by assumption. rewrite !Hwn by lia.
  unfold Du. rewrite !pdx_apply by (try assumption; lia).
  destruct c as [|c']; cbn [Nat.add].
  - ring.
  - replace (c' + 1)%nat with (S c') by lia. replace (S c' + 1)%nat with (S (S c')) by lia. ring.
Qed.

End PDE.
