(* C07 -- geometry maps: which geometries have fun2par = (par2fun)^T ("orthogonal"), which have
   conversions that are idempotent on their own output ("identity-like").  All sizes. *)
From CV Require Import Base.Tac Base.LinAlg Base.Cmp Base.QcLin Model.C07_Adj Proofs.C07_Lists.
From Coq Require Import QArith Qcanon.

Local Open Scope Qc_scope.

(* ---------- the classes ---------- *)

(* syntactic class of geometries whose fun2par is the transpose of par2fun:
   identity-like ones, image reshapes in either order, step expansions with one node per step,
   linear expansions whose back-map acts as the transpose of the expansion matrix, and a scaling
   map c.x whose inverse map is again c.x (c = 1/c) around such a geometry *)
Fixpoint orth_geom (g : geom) : Prop :=
  match g with
  | GId _ => True
  | GImage _ _ _ => True
  | GStep cnt => Forall (fun k => k = 1%nat) cnt
  | GLin np nf G Ginv =>
      wf_mat np G /\ length G = nf /\ length Ginv = np /\
      forall f, length f = nf -> qmatvec Ginv f = qmattvec np G f
  | GScale c cinv g' => c = cinv /\ orth_geom g'
  | GStepX _ cnt => Forall (fun k => k = 1%nat) cnt
  end.

(* function values are plain vectors (no image at the base) *)
Fixpoint vec_geom (g : geom) : Prop :=
  match g with GImage _ _ _ => False | GScale _ _ g' => vec_geom g' | _ => True end.

(* the semantic property: both maps are defined on arrays of the right size, par2fun returns a
   function value of this geometry, and <par2fun p, f> = <p, fun2par f> *)
Definition geom_adjoint_pair (g : geom) : Prop :=
  forall p fl, length p = par_dim g -> length fl = fun_dim g ->
  exists xs q, p2f g (V1 p) = Some (funval g xs) /\ length xs = fun_dim g /\
               f2p g (funval g fl) = Some (V1 q) /\ length q = par_dim g /\
               qdot xs fl = qdot p q.

(* conversions are idempotent on their own output *)
Definition idem_geom (g : geom) : Prop :=
  (forall v F, p2f g v = Some F -> p2f g F = Some F) /\
  (forall v q, f2p g v = Some q -> f2p g q = Some q).

(* syntactic class of identity-like geometries *)
Fixpoint idlike_geom (g : geom) : Prop :=
  match g with
  | GId _ => True
  | GImage _ _ _ => True
  | GStep cnt => Forall (fun k => k = 1%nat) cnt
  | GLin _ _ _ _ => False
  | GScale c cinv g' => c = 1 /\ cinv = 1 /\ idlike_geom g'
  | GStepX _ cnt => Forall (fun k => k = 1%nat) cnt
  end.

(* ---------- small facts ---------- *)
Lemma vmap_funval f g l : vmap f (funval g l) = funval g (f l).
Proof. induction g; cbn [funval vmap]; try reflexivity. exact IHg. Qed.

Lemma flat_funval g l : flat (funval g l) = l.
Proof. induction g; cbn [funval flat]; try reflexivity. exact IHg. Qed.

Lemma funval_vec g l : vec_geom g -> funval g l = V1 l.
Proof. induction g; cbn [vec_geom funval]; intros H; try reflexivity; [contradiction | apply IHg; exact H]. Qed.

Lemma qcz_1 : qcz 1 = 1.
Proof. apply Qc_is_canon. reflexivity. Qed.

Lemma Qcdiv_1_r a : a / qcz 1 = a.
Proof. rewrite qcz_1. unfold Qcdiv. replace (/ 1) with 1 by (apply Qc_is_canon; reflexivity). ring. Qed.

Lemma qvscale_1 l : qvscale 1 l = l.
Proof. induction l as [|a l IH]; [reflexivity|]. rewrite qvscale_cons, IH. f_equal. ring. Qed.

Lemma vmap_scale_1 v : vmap (qvscale 1) v = v.
Proof. destruct v; cbn [vmap]; rewrite qvscale_1; reflexivity. Qed.

(* ---------- step expansion with one node per step ---------- *)
Lemma ones_sum cnt : Forall (fun k => k = 1%nat) cnt -> fold_right Nat.add 0%nat cnt = length cnt.
Proof. induction 1 as [|k cnt Hk H IH]; [reflexivity|]. subst. cbn [fold_right length]. rewrite IH. reflexivity. Qed.

Lemma ones_positive cnt : Forall (fun k => k = 1%nat) cnt -> forallb (fun k => (0 <? k)%nat) cnt = true.
Proof. induction 1 as [|k cnt Hk H IH]; [reflexivity|]. subst. cbn [forallb]. rewrite IH. reflexivity. Qed.

Lemma step_expand_ones cnt p : Forall (fun k => k = 1%nat) cnt -> length p = length cnt -> step_expand cnt p = p.
Proof.
  intros H; revert p; induction H as [|k cnt Hk H IH]; intros [|a p] Hp; simpl in Hp; try discriminate; [reflexivity|].
  subst. cbn [step_expand repeat app]. rewrite IH by lia. reflexivity.
Qed.

Lemma step_mean_ones cnt f : Forall (fun k => k = 1%nat) cnt -> length f = length cnt -> step_mean cnt f = f.
Proof.
  intros H; revert f; induction H as [|k cnt Hk H IH]; intros [|a f] Hf; simpl in Hf; try discriminate; [reflexivity|].
  subst. cbn [step_mean firstn skipn qsum fold_right]. rewrite IH by lia. f_equal.
  rewrite Qcdiv_1_r. ring.
Qed.

Lemma step_ext_ones mx cnt f : Forall (fun k => k = 1%nat) cnt -> length f = length cnt -> step_ext mx cnt f = f.
Proof.
  intros H; revert f; induction H as [|k cnt Hk H IH]; intros [|a f] Hf; simpl in Hf; try discriminate; [reflexivity|].
  subst. cbn [step_ext firstn skipn ext_of fold_left]. rewrite IH by lia. reflexivity.
Qed.

(* ---------- F-order reshape is orthogonal ---------- *)
Lemma unravelF_length r c l : length l = (r * c)%nat -> length (unravelF r c l) = (r * c)%nat.
Proof.
  intros H. unfold unravelF.
  rewrite (concat_length_wf c).
  - rewrite tr_length; [reflexivity | apply chunks_wf; exact H].
  - pose proof (tr_rows r (chunks r c l)) as HR. rewrite chunks_length in HR. exact HR.
Qed.

Lemma ravelF_length r c f : length f = (r * c)%nat -> length (ravelF r c f) = (r * c)%nat.
Proof.
  intros H. unfold ravelF.
  assert (H' : length f = (c * r)%nat) by lia.
  rewrite (concat_length_wf r).
  - rewrite tr_length; [lia | apply chunks_wf; exact H'].
  - pose proof (tr_rows c (chunks c r f)) as HR. rewrite chunks_length in HR. exact HR.
Qed.

Lemma reshapeF_adjoint r c l f : length l = (r * c)%nat -> length f = (r * c)%nat ->
  qdot (unravelF r c l) f = qdot l (ravelF r c f).
Proof.
  intros Hl Hf. assert (Hf' : length f = (c * r)%nat) by lia.
  unfold unravelF, ravelF.
  set (M := chunks r c l). set (N := chunks c r f).
  assert (HM : wf_mat r M) by (apply chunks_wf; exact Hl).
  assert (HN : wf_mat c N) by (apply chunks_wf; exact Hf').
  assert (LM : length M = c) by apply chunks_length.
  assert (LN : length N = r) by apply chunks_length.
  assert (Ef : concat N = f) by (apply concat_chunks; exact Hf').
  assert (El : concat M = l) by (apply concat_chunks; exact Hl).
  rewrite <- Ef at 1. rewrite <- El at 1.
  rewrite (qdot_concat (tr r M) N), (qdot_concat M (tr c N)).
  - apply fdot_tr; assumption.
  - apply (wf_Forall2_length r); [exact HM | | ].
    + pose proof (tr_rows c N) as HR. rewrite LN in HR. exact HR.
    + rewrite tr_length by exact HN. exact LM.
  - apply (wf_Forall2_length c); [ | exact HN | ].
    + pose proof (tr_rows r M) as HR. rewrite LM in HR. exact HR.
    + rewrite tr_length by exact HM. lia.
Qed.

(* ---------- orthogonal geometries have mutually transposed maps ---------- *)
Lemma orth_geom_adjoint_pair g : orth_geom g -> geom_adjoint_pair g.
Proof.
  induction g as [n | r c o | cnt | np nf G Ginv | c cinv g IH | mx cnt]; intros Ho p fl Hp Hf;
    cbn [par_dim fun_dim] in Hp, Hf.
  - (* GId *)
    exists p, fl. cbn [p2f f2p funval par_dim fun_dim]. repeat split; try assumption.
  - (* GImage *)
    destruct o.
    + exists p, fl. cbn [p2f f2p funval par_dim fun_dim]. rewrite Hp, Nat.eqb_refl.
      repeat split; try assumption.
    + exists (unravelF r c p), (ravelF r c fl). cbn [p2f f2p funval par_dim fun_dim]. rewrite Hp, Nat.eqb_refl.
      repeat split.
      * apply unravelF_length; exact Hp.
      * apply ravelF_length; exact Hf.
      * apply reshapeF_adjoint; assumption.
  - (* GStep, one node per step *)
    cbn [orth_geom] in Ho. rewrite (ones_sum cnt Ho) in Hf.
    exists p, fl. cbn [p2f f2p funval par_dim fun_dim].
    rewrite Hp, Nat.eqb_refl, (ones_sum cnt Ho), Hf, Nat.eqb_refl, (ones_positive cnt Ho).
    cbn [andb]. rewrite (step_expand_ones cnt p Ho Hp), (step_mean_ones cnt fl Ho Hf).
    repeat split; assumption.
  - (* GLin with Ginv acting as G^T *)
    destruct Ho as (HG & HGl & HGi & HT).
    exists (qmatvec G p), (qmatvec Ginv fl). cbn [p2f f2p funval par_dim fun_dim].
    rewrite Hp, Hf, !Nat.eqb_refl. repeat split.
    + rewrite qmatvec_length. exact HGl.
    + rewrite qmatvec_length. exact HGi.
    + rewrite (HT fl Hf). apply qc_adjoint; assumption.
  - (* GScale c c g *)
    destruct Ho as (Hc & Ho). subst cinv.
    destruct (IH Ho p (qvscale c fl) Hp) as (xs & q & E1 & L1 & E2 & L2 & D).
    { rewrite qvscale_length. exact Hf. }
    exists (qvscale c xs), q. cbn [p2f f2p funval par_dim fun_dim].
    rewrite E1. cbn [option_map]. rewrite !vmap_funval, E2. repeat split.
    + rewrite qvscale_length. exact L1.
    + exact L2.
    + rewrite qdot_vscale_l. rewrite qdot_vscale_r in D. exact D.
  - (* GStepX, one node per step: max = min = the node *)
    cbn [orth_geom] in Ho. rewrite (ones_sum cnt Ho) in Hf.
    exists p, fl. cbn [p2f f2p funval par_dim fun_dim].
    rewrite Hp, Nat.eqb_refl, (ones_sum cnt Ho), Hf, Nat.eqb_refl, (ones_positive cnt Ho).
    cbn [andb]. rewrite (step_expand_ones cnt p Ho Hp), (step_ext_ones mx cnt fl Ho Hf).
    repeat split; assumption.
Qed.

(* ---------- identity-like geometries have idempotent conversions ---------- *)
Lemma idlike_geom_idem g : idlike_geom g -> idem_geom g.
Proof.
  induction g as [n | r c o | cnt | np nf G Ginv | c cinv g IH | mx cnt]; intros Hi.
  - split; intros v w H; cbn [p2f f2p] in *; congruence.
  - split; intros v w H; cbn [p2f f2p] in *.
    + destruct v as [l | r' c' l].
      * destruct (length l =? r * c)%nat; [|discriminate]. inversion H; subst. rewrite !Nat.eqb_refl. reflexivity.
      * destruct ((r' =? r)%nat && (c' =? c)%nat) eqn:E; [|discriminate]. inversion H; subst. rewrite E. reflexivity.
    + destruct v as [l | r' c' l]; inversion H; subst; reflexivity.
  - cbn [idlike_geom] in Hi. split; intros v w H; cbn [p2f f2p] in *.
    + destruct v as [l | r' c' l]; [|discriminate].
      destruct (length l =? length cnt)%nat eqn:E; [|discriminate]. apply Nat.eqb_eq in E.
      inversion H; subst. rewrite (step_expand_ones cnt l Hi E). apply Nat.eqb_eq in E. rewrite E.
      apply Nat.eqb_eq in E. rewrite (step_expand_ones cnt l Hi E). reflexivity.
    + destruct v as [l | r' c' l]; [|discriminate].
      destruct ((length l =? fold_right Nat.add 0 cnt)%nat && forallb (fun k => (0 <? k)%nat) cnt) eqn:E; [|discriminate].
      apply andb_true_iff in E as [E1 E2]. apply Nat.eqb_eq in E1. rewrite (ones_sum cnt Hi) in E1.
      inversion H; subst. rewrite (step_mean_ones cnt l Hi E1).
      rewrite (ones_sum cnt Hi), E2. apply Nat.eqb_eq in E1. rewrite E1. cbn [andb].
      apply Nat.eqb_eq in E1. rewrite (step_mean_ones cnt l Hi E1). reflexivity.
  - contradiction.
  - destruct Hi as (Hc & Hci & Hi). subst. destruct (IH Hi) as [IP IF].
    split; intros v w H; cbn [p2f f2p] in *.
    + destruct (p2f g v) as [F|] eqn:E; [|discriminate]. cbn [option_map] in H. rewrite vmap_scale_1 in H.
      inversion H; subst. rewrite (IP v w E). cbn [option_map]. rewrite vmap_scale_1. reflexivity.
    + rewrite vmap_scale_1 in *. exact (IF v w H).
  - cbn [idlike_geom] in Hi. split; intros v w H; cbn [p2f f2p] in *.
    + destruct v as [l | r' c' l]; [|discriminate].
      destruct (length l =? length cnt)%nat eqn:E; [|discriminate]. apply Nat.eqb_eq in E.
      inversion H; subst. rewrite (step_expand_ones cnt l Hi E). apply Nat.eqb_eq in E. rewrite E.
      apply Nat.eqb_eq in E. rewrite (step_expand_ones cnt l Hi E). reflexivity.
    + destruct v as [l | r' c' l]; [|discriminate].
      destruct ((length l =? fold_right Nat.add 0 cnt)%nat && forallb (fun k => (0 <? k)%nat) cnt) eqn:E; [|discriminate].
      apply andb_true_iff in E as [E1 E2]. apply Nat.eqb_eq in E1. rewrite (ones_sum cnt Hi) in E1.
      inversion H; subst. rewrite (step_ext_ones mx cnt l Hi E1).
      rewrite (ones_sum cnt Hi), E2. apply Nat.eqb_eq in E1. rewrite E1. cbn [andb].
      apply Nat.eqb_eq in E1. rewrite (step_ext_ones mx cnt l Hi E1). reflexivity.
Qed.

Lemma idlike_geom_orth g : idlike_geom g -> orth_geom g.
Proof.
  induction g as [n | r c o | cnt | np nf G Ginv | c cinv g IH | mx cnt]; cbn [idlike_geom orth_geom]; intros H; try exact H; try exact I.
  - contradiction.
  - destruct H as (-> & -> & H). split; [reflexivity | apply IH; exact H].
Qed.
