(* C06 -- executable model of the linear randomize-then-optimize sampler (cuqi.experimental.mcmc.LinearRTO
   and cuqi.sampler.LinearRTO: `_precompute` / legacy `__init__`, `step` / `_sample`) and of the unadjusted
   Laplace sampler UGLA (both interfaces).  No proofs here.

   Part 1 is generic over a commutative ring (vectors = lists, matrices = lists of rows, Base/LinAlg.v), so
   that the theorems hold for every size and every number of likelihoods; part 2 instantiates it at Qc and
   adds what needs division (the Gaussian input forms) and the boolean checkers of the generated case files.

   External numerics are not modelled but certified: the inner solver CGLS is a Section variable whose
   law is "returns a point satisfying the normal equations" (C16); when the model has to RUN through it the
   harness supplies the implementation's own result and `check_draw` evaluates that law on it over Qc.
   Likewise sqrt / cholesky / inv inside Gaussian and GMRF: the observed square-root precision S is checked
   against the law S^T S = precision-the-user-specified (`sqrtprec_ok`). *)
From CV Require Import Base.Tac Base.LinAlg Base.Cmp Base.QcLin.
From Coq Require Import QArith Qcanon Qabs.

(* ================================================================================================== *)
(* Part 1: generic                                                                                     *)
(* ================================================================================================== *)
Section RTO.
Variable R : Type.
Variables (r0 r1 : R) (radd rmul rsub : R -> R -> R) (ropp : R -> R).

Notation vec := (list R).
Notation mat := (list (list R)).
Notation Dot := (dot r0 radd rmul).
Notation Matvec := (matvec r0 radd rmul).
Notation Mattvec := (mattvec r0 radd rmul).
Notation Vadd := (vadd radd).
Notation Vsub := (vsub rsub).
Notation Vscale := (vscale rmul).
Notation Vzero := (vzero r0).

(* A cuqi LinearModel as the sampler uses it: the two callables forward / adjoint.  A matrix-based model is
   the special case below; note that EVERY LinearModel is `callable`, so LinearRTO always takes the
   function branch (the sparse `vstack` branch of _precompute is dead for validated targets). *)
Record lmodel := mkModel { fwd : vec -> vec; adj : vec -> vec }.
Definition matrix_model (n : nat) (A : mat) : lmodel := mkModel (Matvec A) (Mattvec n A).

(* one likelihood: model, sqrtprec of the noise distribution (m x m), data (m) *)
Record lik := mkLik { l_model : lmodel; l_L : mat; l_data : vec }.
(* the prior as LinearRTO reads it: .sqrtprec (r x n) and .sqrtprecTimesMean (r) *)
Record prior := mkPrior { p_L : mat; p_Lmu : vec }.

(* np.repeat(mean, dim) if len(mean) == 1 else mean *)
Definition bcast (n : nat) (v : vec) : vec := match v with [a] => repeat a n | _ => v end.

(* Gaussian.sqrtprecTimesMean *)
Definition gaussian_prior (n : nat) (S : mat) (mean : vec) : prior := mkPrior S (Matvec S (bcast n mean)).
(* GMRF.sqrtprecTimesMean: sqrtprec @ mean, NO broadcast: a mean of another length than n is refused
   (scipy raises "dimension mismatch") *)
Definition gmrf_prior (n : nat) (S : mat) (mean : vec) : option prior :=
  if (length mean =? n)%nat then Some (mkPrior S (Matvec S mean)) else None.
(* JointGaussianSqrtPrec: vstack of the blocks, hstack of S_i m_i *)
Definition joint_prior (blocks : list (mat * vec)) : prior :=
  mkPrior (concat (map fst blocks)) (concat (map (fun b => Matvec (fst b) (snd b)) blocks)).

(* b_tild = hstack([L @ data for each likelihood] + [L2mu]) *)
Definition b_tild (liks : list lik) (pr : prior) : vec :=
  concat (map (fun l => Matvec (l_L l) (l_data l)) liks) ++ p_Lmu pr.

(* M(x, 1) = hstack([L @ model.forward(x) for each likelihood] + [L2 @ x]) *)
Definition M_fwd (liks : list lik) (pr : prior) (x : vec) : vec :=
  concat (map (fun l => Matvec (l_L l) (fwd (l_model l) x)) liks) ++ Matvec (p_L pr) x.

(* M(y, 2): the loop with idx_start / idx_end over len(likelihood.data);
   out1 += model.adjoint(sqrtprec.T @ y[idx_start:idx_end]);  returns (out1, y[idx_end:]) *)
Fixpoint M_adj_liks (liks : list lik) (y : vec) (acc : vec) : vec * vec :=
  match liks with
  | [] => (acc, y)
  | l :: rest =>
      let m := length (l_data l) in
      M_adj_liks rest (skipn m y) (Vadd acc (adj (l_model l) (Mattvec m (l_L l) (firstn m y))))
  end.

Definition M_adj (n : nat) (liks : list lik) (pr : prior) (y : vec) : vec :=
  let '(out1, rest) := M_adj_liks liks y (Vzero n) in
  Vadd out1 (Mattvec n (p_L pr) rest).

(* one transition: y = b_tild + e;  x = CGLS(M, y, x_cur).solve() *)
Section Step.
Variable cgls : (vec -> vec) -> (vec -> vec) -> vec -> vec -> vec.      (* forward, adjoint, rhs, x0 *)
Definition rto_step (n : nat) (liks : list lik) (pr : prior) (xcur e : vec) : vec :=
  cgls (M_fwd liks pr) (M_adj n liks pr) (Vadd (b_tild liks pr) e) xcur.
End Step.

(* what "the inner solver has converged" means: the normal equations M^T M x = M^T (b_tild + e) *)
Definition normal_eq (n : nat) (liks : list lik) (pr : prior) (e x : vec) : Prop :=
  M_adj n liks pr (M_fwd liks pr x) = M_adj n liks pr (Vadd (b_tild liks pr) e).

(* The Gaussian posterior the user specified: precisions Lam_i (m_i x m_i) of the noise, prior given as
   independent Gaussian factors (P_j, mu_j) (one factor for Gaussian / GMRF, several for
   JointGaussianSqrtPrec).  H x = sum A_i^T Lam_i A_i x + sum P_j x ;  rhs = sum A_i^T Lam_i b_i + sum P_j mu_j *)
Fixpoint vsum_list (n : nat) (vs : list vec) : vec :=
  match vs with [] => Vzero n | v :: r => Vadd v (vsum_list n r) end.

Record ulik := mkULik { u_model : lmodel; u_prec : mat; u_data : vec }.
Definition H_apply (n : nat) (uls : list ulik) (pfs : list (mat * vec)) (x : vec) : vec :=
  Vadd (vsum_list n (map (fun u => adj (u_model u) (Matvec (u_prec u) (fwd (u_model u) x))) uls))
       (vsum_list n (map (fun pf => Matvec (fst pf) x) pfs)).
Definition rhs_apply (n : nat) (uls : list ulik) (pfs : list (mat * vec)) : vec :=
  Vadd (vsum_list n (map (fun u => adj (u_model u) (Matvec (u_prec u) (u_data u))) uls))
       (vsum_list n (map (fun pf => Matvec (fst pf) (snd pf)) pfs)).

(* ---------- a sampler that outlives an in-place re-assignment of a parameter of its target ----------
   LinearRTO (both interfaces) CAPTURES at construction (_precompute / legacy __init__): the list L1 of noise sqrtprecs
   (used for b_tild and in flag 1), the prior's sqrtprec and sqrtprecTimesMean, and b_tild (hence the data).  It reads LIVE,
   on every call of M: likelihood.model (both flags), len(likelihood.data) and -- in flag 2 only --
   likelihood.distribution.sqrtprec.  `captured` are the likelihoods as they were at construction, `live` as they are now.
   Flag2Captured is the proposed repair (fixes/C06_rto_flag2_captured_sqrtprec.diff): flag 2 uses the captured L1 too. *)
Inductive flag2_read := Flag2Live | Flag2Captured.
Definition stale_adj_liks (v : flag2_read) (captured live : list lik) : list lik :=
  match v with Flag2Captured => captured | Flag2Live => live end.
Definition stale_M_fwd (captured : list lik) (pr : prior) (x : vec) : vec := M_fwd captured pr x.
Definition stale_M_adj (v : flag2_read) (n : nat) (captured live : list lik) (pr : prior) (y : vec) : vec :=
  M_adj n (stale_adj_liks v captured live) pr y.
(* what an in-place re-assignment may have changed between construction and now *)
Definition same_noise (c l : lik) : Prop :=
  l_L l = l_L c /\ length (l_data l) = length (l_data c) /\ adj (l_model l) = adj (l_model c).

(* ---------- Gaussian(.., sqrtprec = scalar | vector | matrix): get_sqrtprec_from_sqrtprec ---------- *)
Fixpoint diag_of (v : vec) : mat :=
  match v with
  | [] => []
  | a :: v' => (a :: Vzero (length v')) :: map (cons r0) (diag_of v')
  end.

Inductive spform := SpScalar (s : R) | SpVector (v : vec) | SpMatrix (Sm : mat).
Definition sqrtprec_from_sqrtprec (dim : nat) (g : spform) : mat :=
  match g with
  | SpScalar s => diag_of (repeat s dim)          (* np.diag(np.ones(dim) * s) *)
  | SpVector v => diag_of v
  | SpMatrix Sm => Sm
  end.

(* legacy 5-tuple (data, model, L_sqrtprec, P_mean, P_sqrtprec):
   Posterior(Gaussian(model, sqrtprec = L_sqrtprec).to_likelihood(data), Gaussian(P_mean, sqrtprec = P_sqrtprec)) *)
Definition of_tuple (n : nat) (data : vec) (A : mat) (Lsp : spform) (Pmean : vec) (Psp : spform)
  : list lik * prior :=
  ([mkLik (matrix_model n A) (sqrtprec_from_sqrtprec (length data) Lsp) data],
   gaussian_prior n (sqrtprec_from_sqrtprec n Psp) Pmean).
(* the same posterior handed over as a Posterior object, or as a MultipleLikelihoodPosterior *)
Definition of_posterior (l : lik) (pr : prior) : list lik * prior := ([l], pr).
Definition of_mlp (ls : list lik) (pr : prior) : list lik * prior := (ls, pr).

(* ---------- UGLA ---------- *)
(* W.sqrt() @ D with W = diags(dd): row i of D scaled by sw_i = sqrt(dd_i) *)
Fixpoint scale_rows (sw : vec) (D : mat) : mat :=
  match sw, D with s :: sw', row :: D' => Vscale s row :: scale_rows sw' D' | _, _ => [] end.

(* which vector the weights are computed from, and how L2mu is scaled:
   UglaCode = the code as it stands:  dd from D @ x_k,          L2mu = L2 @ loc
   UglaDoc  = the documented local Gaussian (and the proposed repair fixes/C06_ugla_location.diff):
                                     dd from D @ (x_k - loc),   L2mu = sqrt(1/scale) * (L2 @ loc) *)
Inductive ugla_variant := UglaCode | UglaDoc.

Definition ugla_weight_arg (v : ugla_variant) (n : nat) (loc xk : vec) : vec :=
  match v with UglaCode => xk | UglaDoc => Vsub xk (bcast n loc) end.

(* sw is a valid certificate for  dd = 1/sqrt((D z)^2 + beta), sw = sqrt(dd):  sw_i^4 * ((D z)_i^2 + beta) = 1 *)
Definition weight_law (D : mat) (z : vec) (beta : R) (sw : vec) : Prop :=
  Forall2 (fun d s => rmul (rmul (rmul s s) (rmul s s)) (radd (rmul d d) beta) = r1) (Matvec D z) sw.

Record ugla_cfg := mkUgla {
  g_n : nat; g_model : lmodel; g_L1 : mat; g_data : vec;
  g_D : mat; g_loc : vec;            (* LMRF: difference operator, location as given (length 1 or n) *)
  g_rs : R                           (* np.sqrt(1/scale) *)
}.

Definition ugla_L2 (c : ugla_cfg) (sw : vec) : mat := scale_rows sw (g_D c).
Definition ugla_L2mu (v : ugla_variant) (c : ugla_cfg) (sw : vec) : vec :=
  let raw := Matvec (ugla_L2 c sw) (bcast (g_n c) (g_loc c)) in
  match v with UglaCode => raw | UglaDoc => Vscale (g_rs c) raw end.
Definition ugla_b_tild (v : ugla_variant) (c : ugla_cfg) (sw : vec) : vec :=
  Matvec (g_L1 c) (g_data c) ++ ugla_L2mu v c sw.
Definition ugla_M_fwd (c : ugla_cfg) (sw : vec) (x : vec) : vec :=
  Matvec (g_L1 c) (fwd (g_model c) x) ++ Vscale (g_rs c) (Matvec (ugla_L2 c sw) x).
Definition ugla_M_adj (c : ugla_cfg) (sw : vec) (y : vec) : vec :=
  let m := length (g_data c) in
  Vadd (adj (g_model c) (Mattvec m (g_L1 c) (firstn m y)))
       (Vscale (g_rs c) (Mattvec (g_n c) (ugla_L2 c sw) (skipn m y))).
Definition ugla_normal_eq (v : ugla_variant) (c : ugla_cfg) (sw e x : vec) : Prop :=
  ugla_M_adj c sw (ugla_M_fwd c sw x) = ugla_M_adj c sw (Vadd (ugla_b_tild v c sw) e).

(* the documented local Gaussian at x_k: precision A^T Lam A + D^T W D / scale with W = diag(sw^2) from
   D (x_k - loc), centred at loc:  H x = A^T Lam A x + rs^2 D^T W D x,  rhs = A^T Lam b + rs^2 D^T W D loc *)
Definition DtWD (c : ugla_cfg) (sw : vec) (x : vec) : vec :=
  Mattvec (g_n c) (ugla_L2 c sw) (Matvec (ugla_L2 c sw) x).
Definition ugla_H_doc (c : ugla_cfg) (Lam : mat) (sw : vec) (x : vec) : vec :=
  Vadd (adj (g_model c) (Matvec Lam (fwd (g_model c) x)))
       (Vscale (rmul (g_rs c) (g_rs c)) (DtWD c sw x)).
Definition ugla_rhs_doc (c : ugla_cfg) (Lam : mat) (sw : vec) : vec :=
  Vadd (adj (g_model c) (Matvec Lam (g_data c)))
       (Vscale (rmul (g_rs c) (g_rs c)) (DtWD c sw (bcast (g_n c) (g_loc c)))).
End RTO.

Arguments mkModel {R}. Arguments fwd {R}. Arguments adj {R}.
Arguments mkLik {R}. Arguments l_model {R}. Arguments l_L {R}. Arguments l_data {R}.
Arguments mkPrior {R}. Arguments p_L {R}. Arguments p_Lmu {R}.
Arguments mkULik {R}. Arguments u_model {R}. Arguments u_prec {R}. Arguments u_data {R}.
Arguments bcast {R}. Arguments SpScalar {R}. Arguments SpVector {R}. Arguments SpMatrix {R}.
Arguments mkUgla {R}. Arguments g_n {R}. Arguments g_model {R}. Arguments g_L1 {R}. Arguments g_data {R}.
Arguments g_D {R}. Arguments g_loc {R}. Arguments g_rs {R}.

(* ================================================================================================== *)
(* Part 2: instance at Qc, Gaussian input forms, checkers                                               *)
(* ================================================================================================== *)
Local Open Scope Qc_scope.

Notation qvecT := (list Qc).
Notation qmatT := (list (list Qc)).

Definition q_matrix_model := matrix_model Qc 0 Qcplus Qcmult.
Definition q_gaussian_prior := gaussian_prior Qc 0 Qcplus Qcmult.
Definition q_gmrf_prior := gmrf_prior Qc 0 Qcplus Qcmult.
Definition q_joint_prior := joint_prior Qc 0 Qcplus Qcmult.
Definition q_b_tild := b_tild Qc 0 Qcplus Qcmult.
Definition q_M_fwd := M_fwd Qc 0 Qcplus Qcmult.
Definition q_M_adj := M_adj Qc 0 Qcplus Qcmult.
Definition q_diag := diag_of Qc 0.
Definition q_of_tuple := of_tuple Qc 0 Qcplus Qcmult.
Definition q_H_apply := H_apply Qc 0 Qcplus Qcmult.
Definition q_rhs_apply := rhs_apply Qc 0 Qcplus Qcmult.
Definition q_ident (n : nat) : qmatT := q_diag (repeat 1 n).
(* S^T S for S with n columns *)
Definition q_gram (n : nat) (S : qmatT) : qmatT := qmatmul n (qtranspose n S) S.

Definition q_shape (r c : nat) (A : qmatT) : bool :=
  (length A =? r)%nat && forallb (fun row => (length row =? c)%nat) A.

(* ---- the 4 x 4 ways of specifying a Gaussian's second moment ---- *)
Inductive gform := FCov | FPrec | FSqrtcov | FSqrtprec.
(* scalar | 1-d array | 2-d array.  For a 2-d array given as cov or sqrtcov the harness also supplies its exact
   inverse `aux` (generated together with it); the model CHECKS value * aux = I before using it. *)
Inductive gval := GScalar (q : Qc) | GVector (v : qvecT) | GMatrix (m aux : qmatT).

Definition qc_is0 (q : Qc) : bool := qc_eqb q 0.
Definition prec_entry (f : gform) (q : Qc) : option Qc :=
  match f with
  | FCov => if qc_is0 q then None else Some (/ q)
  | FPrec => Some q
  | FSqrtcov => if qc_is0 q then None else Some (/ (q * q))
  | FSqrtprec => Some (q * q)
  end.
Fixpoint opt_map_all {A B} (f : A -> option B) (l : list A) : option (list B) :=
  match l with
  | [] => Some []
  | a :: r => match f a, opt_map_all f r with Some b, Some r' => Some (b :: r') | _, _ => None end
  end.

(* the precision matrix the user specified (documented meaning of the four keywords; for a full `sqrtcov`
   the CODE's convention cov = R R^T is followed -- the docstring says R^T R, a C04 finding) *)
Definition user_prec (f : gform) (n : nat) (g : gval) : option qmatT :=
  match g with
  | GScalar q => match prec_entry f q with Some p => Some (q_diag (repeat p n)) | None => None end
  | GVector v => if (length v =? n)%nat
                 then match opt_map_all (prec_entry f) v with Some p => Some (q_diag p) | None => None end
                 else None
  | GMatrix m aux =>
      if negb (q_shape n n m) then None else
      match f with
      | FPrec => Some m
      | FSqrtprec => Some (q_gram n m)
      | FCov => if q_shape n n aux && qcll_eqb (qmatmul n m aux) (q_ident n) then Some aux else None
      | FSqrtcov => if q_shape n n aux && qcll_eqb (qmatmul n m aux) (q_ident n)
                    then Some (q_gram n aux) else None
      end
  end.

(* ---- sup-norm helpers.  Every tolerance of the checkers is RELATIVE to the sup norm of the model's value (of the
   block it belongs to), never absolute: a problem posed in tiny or huge units cannot pass vacuously. ---- *)
Definition qabs_c (q : Qc) : Q := Qabs (this q).
Definition qmaxabs (v : qvecT) : Q := fold_right (fun a m => if Qle_bool (qabs_c a) m then m else qabs_c a) 0%Q v.
(* |a - b|_inf <= tol * (1 + |b|_inf), equal lengths: ONLY for dimensionless quantities (comparison with the identity) *)
Definition vclose_sup (tol : Q) (a b : qvecT) : bool :=
  (length a =? length b)%nat && Qle_bool (qmaxabs (qvsub a b)) (tol * (1 + qmaxabs b))%Q.
(* |a - b|_inf <= tol * |b|_inf, equal lengths (tol = 0: a = b) *)
Definition vclose_rel (tol : Q) (a b : qvecT) : bool :=
  (length a =? length b)%nat && Qle_bool (qmaxabs (qvsub a b)) (tol * qmaxabs b)%Q.
(* |a - b|_inf <= tol * sc for a scale sc derived from the problem itself *)
Definition vclose_scale (tol sc : Q) (a b : qvecT) : bool :=
  (length a =? length b)%nat && Qle_bool (qmaxabs (qvsub a b)) (tol * sc)%Q.
Definition qmax (a b : Q) : Q := if Qle_bool a b then b else a.
(* every row within tol * (largest entry of the whole model matrix B) *)
Definition mclose_rel (tol : Q) (A B : qmatT) : bool :=
  let sc := (tol * qmaxabs (concat B))%Q in
  list_eqb (fun r1 r2 => (length r1 =? length r2)%nat && Qle_bool (qmaxabs (qvsub r1 r2)) sc) A B.
(* stacked vectors: block by block (blocks of lengths lens), each relative to its own block of the model value *)
Fixpoint seg_close (tol : Q) (lens : list nat) (a b : qvecT) : bool :=
  match lens with
  | [] => match a, b with [], [] => true | _, _ => false end
  | k :: r => vclose_rel tol (firstn k a) (firstn k b) && seg_close tol r (skipn k a) (skipn k b)
  end.
(* matrices whose ROWS come in groups of lengths lens (the blocks of the stacked system): every group relative to the
   largest entry of the model's group -- a row that is zero by exact cancellation is compared at the scale of its block *)
Fixpoint rows_grouped_close (tol : Q) (lens : list nat) (A B : qmatT) : bool :=
  match lens with
  | [] => match A, B with [], [] => true | _, _ => false end
  | k :: r => mclose_rel tol (firstn k A) (firstn k B) && rows_grouped_close tol r (skipn k A) (skipn k B)
  end.
(* a list of stacked vectors (columns M e_j, each of length p = sum lens): the same, block by block across all columns *)
Definition segs_close (tol : Q) (lens : list nat) (A B : qmatT) : bool :=
  let p := fold_right Nat.add 0%nat lens in
  list_eqb (fun a b => (length a =? p)%nat && (length b =? p)%nat) A B &&
  rows_grouped_close tol lens (qtranspose p A) (qtranspose p B).
Definition rows_close (tol : Q) (lens : list nat) (A B : qmatT) : bool := rows_grouped_close tol lens A B.

Fixpoint is_diag_from (k : nat) (A : qmatT) : bool :=    (* off-diagonal entries zero, diagonal >= 0 *)
  match A with
  | [] => true
  | row :: A' =>
      forallb (fun p => if (fst p =? k)%nat then Qle_bool 0 (this (snd p)) else qc_is0 (snd p))
              (combine (seq 0 (length row)) row) && is_diag_from (S k) A'
  end.

(* the observed sqrtprec S (what LinearRTO reads from the distribution) obeys the law of the square root:
   S^T S = user precision (within tol); for scalar / vector input it is moreover diagonal and non-negative,
   which determines it; for sqrtprec given as a matrix it IS that matrix. *)
Definition sqrtprec_ok (tol : Q) (f : gform) (n : nat) (g : gval) (S : qmatT) : bool :=
  match user_prec f n g with
  | None => false
  | Some P =>
      q_shape n n S && mclose_rel tol (q_gram n S) P &&
      match g with
      | GMatrix m _ => match f with FSqrtprec => qcll_eqb S m | _ => true end
      | _ => is_diag_from 0 S
      end
  end.

(* GMRF: sqrtprec = sqrt(prec) * chol^T with chol chol^T = P_op (+ sqrt(eps) I for periodic / neumann):
   law S^T S = delta * (P_op + reg I) *)
Definition q_mscale (c : Qc) (A : qmatT) : qmatT := map (qvscale c) A.
Definition q_madd (A B : qmatT) : qmatT := map (fun p => qvadd (fst p) (snd p)) (combine A B).
Definition gmrf_prec (n : nat) (delta reg : Qc) (Pop : qmatT) : qmatT :=
  q_mscale delta (q_madd Pop (q_mscale reg (q_ident n))).
Definition gmrf_sqrtprec_ok (tol : Q) (n : nat) (delta reg : Qc) (Pop S : qmatT) : bool :=
  q_shape n n Pop && q_shape n n S && mclose_rel tol (q_gram n S) (gmrf_prec n delta reg Pop).

(* ---- checkers for LinearRTO ---- *)
Definition mk_lik (n : nat) (A S : qmatT) (b : qvecT) : lik Qc := mkLik (q_matrix_model n A) S b.
Definition lik_shape_ok (n : nat) (l : qmatT * qmatT * qvecT) : bool :=
  let '(A, L, b) := l in q_shape (length b) n A && q_shape (length b) (length b) L.
Definition mk_liks (n : nat) (ls : list (qmatT * qmatT * qvecT)) : list (lik Qc) :=
  map (fun l => let '(A, L, b) := l in mk_lik n A L b) ls.

(* lengths of the blocks of the stacked vectors: one per likelihood, then the prior *)
Definition block_lens (liks : list (lik Qc)) (pr : prior Qc) : list nat :=
  map (fun l => length (l_data l)) liks ++ [length (p_Lmu pr)].

(* observed b_tild, M(e_j, 1) for all j < n, M(e_i, 2) for all i < len(b_tild): tol = 0 means EXACT *)
Definition check_precompute (tol : Q) (n : nat) (ls : list (qmatT * qmatT * qvecT)) (pr : prior Qc)
           (o_b : qvecT) (o_fwd o_adj : qmatT) : bool :=
  let liks := mk_liks n ls in
  let p := length (q_b_tild liks pr) in
  let lens := block_lens liks pr in
  forallb (lik_shape_ok n) ls &&
  seg_close tol lens o_b (q_b_tild liks pr) &&
  segs_close tol lens o_fwd (map (fun j => q_M_fwd liks pr (qunit n j)) (seq 0 n)) &&
  rows_close tol lens o_adj (map (fun i => q_M_adj n liks pr (qunit p i)) (seq 0 p)).

(* the same for a sampler observed AFTER an in-place re-assignment: b_tild and flag 1 from the captured likelihoods,
   flag 2 from ls_adj (= captured, or live where the code reads the distribution again) *)
Definition check_precompute2 (tol : Q) (n : nat) (ls ls_adj : list (qmatT * qmatT * qvecT)) (pr : prior Qc)
           (o_b : qvecT) (o_fwd o_adj : qmatT) : bool :=
  let liks := mk_liks n ls in
  let p := length (q_b_tild liks pr) in
  let lens := block_lens liks pr in
  forallb (lik_shape_ok n) ls && forallb (lik_shape_ok n) ls_adj &&
  seg_close tol lens o_b (q_b_tild liks pr) &&
  segs_close tol lens o_fwd (map (fun j => q_M_fwd liks pr (qunit n j)) (seq 0 n)) &&
  rows_close tol lens o_adj (map (fun i => q_M_adj n (mk_liks n ls_adj) pr (qunit p i)) (seq 0 p)).

(* certificate for one transition: the returned point satisfies the normal equations of the MODEL's (M, b_tild), to
   within tol times the larger of |M^T y| and the initial normal residual |M^T (y - M x_cur)| (CGLS's own notion of
   convergence is relative to the latter): no absolute tolerance, invariant under a change of units *)
Definition check_draw (tol : Q) (n : nat) (ls : list (qmatT * qmatT * qvecT)) (pr : prior Qc) (xcur e xout : qvecT) : bool :=
  let liks := mk_liks n ls in
  let b := q_b_tild liks pr in
  let rhs := q_M_adj n liks pr (qvadd b e) in
  let r0 := qvsub rhs (q_M_adj n liks pr (q_M_fwd liks pr xcur)) in
  (length e =? length b)%nat && (length xout =? n)%nat && (length xcur =? n)%nat &&
  vclose_scale tol (qmax (qmaxabs rhs) (qmaxabs r0)) (q_M_adj n liks pr (q_M_fwd liks pr xout)) rhs.
Definition check_draws tol n ls pr (draws : list (qvecT * qvecT * qvecT)) : bool :=
  forallb (fun d => let '(xcur, e, x) := d in check_draw tol n ls pr xcur e x) draws.

(* the affine map read off from scripted draws: x0 = x(e = 0), xs_i = x(e = e_i), G = [xs_i - x0].
   Against the posterior the USER specified: H x0 = rhs (offset = posterior mean) and H (G G^T) = I
   (linear part reproduces the posterior covariance), H and rhs built from user-level precisions only. *)
Definition mk_uliks (n : nat) (us : list (qmatT * qmatT * qvecT)) : list (ulik Qc) :=
  map (fun u => let '(A, Lam, b) := u in mkULik (q_matrix_model n A) Lam b) us.
Definition H_matrix (n : nat) (us : list (qmatT * qmatT * qvecT)) (pfs : list (qmatT * qvecT)) : qmatT :=
  qtranspose n (map (fun j => q_H_apply n (mk_uliks n us) pfs (qunit n j)) (seq 0 n)).
Definition mclose_sup (tol : Q) (A B : qmatT) : bool :=
  (length A =? length B)%nat && forallb (fun p => vclose_sup tol (fst p) (snd p)) (combine A B).
(* the read-off perturbs with c e_i (c > 0 a power of two at the scale of the data, supplied by the harness):
   by linearity g_i = (x(c e_i) - x(0)) / c *)
Definition read_G (c : Qc) (x0 : qvecT) (xs : qmatT) : qmatT := map (fun x => qvscale (/ c) (qvsub x x0)) xs.
(* the natural scale of the unknown, from the read-off itself: max(|x(0)|, |G|)  (|G|^2 ~ posterior variance) *)
Definition x_scale (c : Qc) (x0 : qvecT) (xs : qmatT) : Q :=
  fold_right (fun g m => qmax (qmaxabs g) m) (qmaxabs x0) (read_G c x0 xs).
Definition check_law (tol : Q) (n : nat) (us : list (qmatT * qmatT * qvecT)) (pfs : list (qmatT * qvecT))
           (c : Qc) (x0 : qvecT) (xs : qmatT) : bool :=
  let H := H_matrix n us pfs in
  let G := read_G c x0 xs in                                  (* rows g_i: this is G^T *)
  negb (qc_is0 c) && (length x0 =? n)%nat && forallb (fun x => (length x =? n)%nat) xs &&
  vclose_scale tol (qmaxabs (q_rhs_apply n (mk_uliks n us) pfs) + qmaxabs (concat H) * x_scale c x0 xs)
               (qmatvec H x0) (q_rhs_apply n (mk_uliks n us) pfs) &&
  mclose_sup tol (qmatmul n H (q_gram n G)) (q_ident n).

(* the draw does not depend on the current state: same e, other x_cur, same point (within tol) *)
Definition check_state_indep (tol : Q) (c : Qc) (x0 : qvecT) (xs : qmatT) (pairs : list (qvecT * qvecT)) : bool :=
  forallb (fun p => vclose_scale tol (x_scale c x0 xs) (fst p) (snd p)) pairs.

(* Gaussian input forms: every likelihood's and the prior's observed sqrtprec obeys its law *)
Definition check_forms (tol : Q) (items : list (gform * nat * gval * qmatT)) : bool :=
  forallb (fun it => let '(f, n, g, Sq) := it in sqrtprec_ok tol f n g Sq) items.

(* legacy 5-tuple: same (M, b_tild) as the model of the tuple constructor *)
Definition q_spform := spform Qc.
Definition check_tuple (tol : Q) (n : nat) (data : qvecT) (A : qmatT) (Lsp : q_spform) (Pmean : qvecT) (Psp : q_spform)
           (o_b : qvecT) (o_fwd o_adj : qmatT) : bool :=
  let '(liks, pr) := q_of_tuple n data A Lsp Pmean Psp in
  let p := length (q_b_tild liks pr) in
  let lens := block_lens liks pr in
  q_shape (length data) n A &&
  seg_close tol lens o_b (q_b_tild liks pr) &&
  segs_close tol lens o_fwd (map (fun j => q_M_fwd liks pr (qunit n j)) (seq 0 n)) &&
  rows_close tol lens o_adj (map (fun i => q_M_adj n liks pr (qunit p i)) (seq 0 p)).

(* refusals (DECISION): GMRF with a mean of another length than n *)
Definition check_gmrf_refusal (n : nat) (S : qmatT) (mean : qvecT) (refused : bool) : bool :=
  Bool.eqb refused (match q_gmrf_prior n S mean with None => true | Some _ => false end).

(* ---- UGLA ---- *)
Definition q_ugla_cfg := ugla_cfg Qc.
Definition mk_ugla (n : nat) (A L1 : qmatT) (b : qvecT) (D : qmatT) (loc : qvecT) (rs : Qc) : q_ugla_cfg :=
  mkUgla n (q_matrix_model n A) L1 b D loc rs.
Definition q_ugla_L2 := ugla_L2 Qc Qcmult.
Definition q_ugla_b_tild := ugla_b_tild Qc 0 Qcplus Qcmult.
Definition q_ugla_M_fwd := ugla_M_fwd Qc 0 Qcplus Qcmult.
Definition q_ugla_M_adj := ugla_M_adj Qc 0 Qcplus Qcmult.
Definition q_ugla_weight_arg := ugla_weight_arg Qc Qcminus.
Definition q_ugla_H_doc := ugla_H_doc Qc 0 Qcplus Qcmult.
Definition q_ugla_rhs_doc := ugla_rhs_doc Qc 0 Qcplus Qcmult.

(* sw is (within tol) the square root of dd = 1/sqrt((D z)^2 + beta):  sw^4 ((D z)^2 + beta) = 1, sw >= 0 *)
Definition weight_ok (tol : Q) (D : qmatT) (z : qvecT) (beta : Qc) (sw : qvecT) : bool :=
  (length sw =? length D)%nat &&
  forallb (fun p => let '(d, s) := p in
             Qle_bool 0 (this s) && q_close tol (this ((s * s) * (s * s) * (d * d + beta))) 1%Q)
          (combine (qmatvec D z) sw).
(* rs = sqrt(1/scale):  rs^2 * scale = 1, rs > 0 *)
Definition rs_ok (tol : Q) (scale rs : Qc) : bool :=
  Qle_bool 0 (this rs) && q_close tol (this (rs * rs * scale)) 1%Q.

(* observed: _L2 (dense), _b_tild, M(e_j,1), M(e_i,2) as captured from the CGLS call of one transition from x_k *)
Record ugla_raw := mkRaw { w_n : nat; w_A : qmatT; w_L1 : qmatT; w_b : qvecT; w_D : qmatT; w_loc : qvecT;
                           w_scale : Qc; w_rs : Qc; w_beta : Qc }.
Definition raw_cfg (w : ugla_raw) : q_ugla_cfg := mk_ugla (w_n w) (w_A w) (w_L1 w) (w_b w) (w_D w) (w_loc w) (w_rs w).
Definition raw_ok (tol : Q) (w : ugla_raw) : bool :=
  let m := length (w_b w) in
  q_shape m (w_n w) (w_A w) && q_shape m m (w_L1 w) && q_shape (length (w_D w)) (w_n w) (w_D w) &&
  ((length (w_loc w) =? 1)%nat || (length (w_loc w) =? w_n w)%nat) && rs_ok tol (w_scale w) (w_rs w).

Definition check_ugla_precompute (tol : Q) (v : ugla_variant) (w : ugla_raw) (xk sw : qvecT)
           (o_L2 : qmatT) (o_b : qvecT) (o_fwd o_adj : qmatT) : bool :=
  let c := raw_cfg w in
  let n := w_n w in
  let p := length (q_ugla_b_tild v c sw) in
  raw_ok tol w && (length xk =? n)%nat &&
  weight_ok tol (w_D w) (q_ugla_weight_arg v n (w_loc w) xk) (w_beta w) sw &&
  let lens := [length (w_b w); length (w_D w)] in
  mclose_rel tol o_L2 (q_ugla_L2 c sw) &&
  seg_close tol lens o_b (q_ugla_b_tild v c sw) &&
  segs_close tol lens o_fwd (map (fun j => q_ugla_M_fwd c sw (qunit n j)) (seq 0 n)) &&
  rows_close tol lens o_adj (map (fun i => q_ugla_M_adj c sw (qunit p i)) (seq 0 p)).

Definition check_ugla_draws (tol : Q) (v : ugla_variant) (w : ugla_raw) (xk sw : qvecT) (draws : list (qvecT * qvecT)) : bool :=
  let c := raw_cfg w in
  let b := q_ugla_b_tild v c sw in
  forallb (fun d => let '(e, xout) := d in
             let rhs := q_ugla_M_adj c sw (qvadd b e) in
             let r0 := qvsub rhs (q_ugla_M_adj c sw (q_ugla_M_fwd c sw xk)) in
             (length e =? length b)%nat && (length xout =? w_n w)%nat &&
             vclose_scale tol (qmax (qmaxabs rhs) (qmaxabs r0)) (q_ugla_M_adj c sw (q_ugla_M_fwd c sw xout)) rhs) draws.

(* affine read-off against the DOCUMENTED local Gaussian at x_k (weights swd certified for D (x_k - loc)):
   H_doc x0 = rhs_doc and H_doc (G G^T) = I, with Lam the user-level noise precision *)
Definition ugla_Hdoc_matrix (w : ugla_raw) (Lam : qmatT) (swd : qvecT) : qmatT :=
  qtranspose (w_n w) (map (fun j => q_ugla_H_doc (raw_cfg w) Lam swd (qunit (w_n w) j)) (seq 0 (w_n w))).
Definition check_ugla_law (tol : Q) (w : ugla_raw) (Lam : qmatT) (cpert : Qc) (xk swd x0 : qvecT) (xs : qmatT) : bool :=
  let n := w_n w in
  let H := ugla_Hdoc_matrix w Lam swd in
  let G := read_G cpert x0 xs in
  negb (qc_is0 cpert) && raw_ok tol w && (length x0 =? n)%nat && forallb (fun x => (length x =? n)%nat) xs &&
  weight_ok tol (w_D w) (q_ugla_weight_arg UglaDoc n (w_loc w) xk) (w_beta w) swd &&
  vclose_scale tol (qmaxabs (q_ugla_rhs_doc (raw_cfg w) Lam swd) + qmaxabs (concat H) * x_scale cpert x0 xs)
               (qmatvec H x0) (q_ugla_rhs_doc (raw_cfg w) Lam swd) &&
  mclose_sup tol (qmatmul n H (q_gram n G)) (q_ident n).

(* ---- the posterior as the USER specified it (no square roots): used by the affine-map read-off ---- *)
Inductive prior_spec :=
  | PGauss (f : gform) (g : gval) (mean : qvecT)                 (* Gaussian(mean, <f> = g) *)
  | PGmrf (delta reg : Qc) (Pop : qmatT) (mean : qvecT)          (* GMRF(mean, delta, bc, order): delta (P_op + reg I) *)
  | PJoint (blocks : list (qmatT * qvecT)).                      (* JointGaussianSqrtPrec(means, sqrtprecs) *)

Definition prior_factors (n : nat) (ps : prior_spec) : option (list (qmatT * qvecT)) :=
  match ps with
  | PGauss f g mean =>
      if ((length mean =? 1) || (length mean =? n))%nat
      then match user_prec f n g with Some P => Some [(P, bcast n mean)] | None => None end
      else None
  | PGmrf delta reg Pop mean =>
      if (length mean =? n)%nat && q_shape n n Pop then Some [(gmrf_prec n delta reg Pop, mean)] else None
  | PJoint blocks =>
      if forallb (fun b => q_shape (length (fst b)) n (fst b) && (length (snd b) =? n)%nat) blocks
      then Some (map (fun b => (q_gram n (fst b), snd b)) blocks) else None
  end.

Definition lik_factors (n : nat) (ls : list (qmatT * gform * gval * qvecT)) : option (list (qmatT * qmatT * qvecT)) :=
  opt_map_all (fun l => let '(A, f, g, b) := l in
                 if q_shape (length b) n A
                 then match user_prec f (length b) g with Some Lam => Some (A, Lam, b) | None => None end
                 else None) ls.

Definition check_law_spec (tol : Q) (n : nat) (ls : list (qmatT * gform * gval * qvecT)) (ps : prior_spec)
           (c : Qc) (x0 : qvecT) (xs : qmatT) : bool :=
  match lik_factors n ls, prior_factors n ps with
  | Some us, Some pfs => check_law tol n us pfs c x0 xs
  | _, _ => false
  end.

(* which target forms each interface accepts (DECISION): the experimental sampler refuses the 5-tuple *)
Inductive iface := Exp | Legacy.
Inductive tkind := TPosterior | TMlp | TTuple.
Definition target_accepted (i : iface) (t : tkind) : bool :=
  match i, t with Exp, TTuple => false | _, _ => true end.
Definition check_target_accepted (i : iface) (t : tkind) (accepted : bool) : bool :=
  Bool.eqb accepted (target_accepted i t).

(* UGLA law with the noise given by its input form *)
Definition check_ugla_law_spec (tol : Q) (w : ugla_raw) (f : gform) (g : gval) (cpert : Qc) (xk swd x0 : qvecT) (xs : qmatT) : bool :=
  match user_prec f (length (w_b w)) g with
  | Some Lam => check_ugla_law tol w Lam cpert xk swd x0 xs
  | None => false
  end.
