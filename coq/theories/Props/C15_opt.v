(* C15 -- optimiser route beyond quadratic posteriors (over R; vectors = functions nat -> R read on i < n;
   ip n = inner product, nsq n = squared norm, zero_on n u = "u vanishes on the n coordinates").
   What _solve_max_point relies on: scipy stops where the gradient norm is below its tolerance.  These theorems say
   what such a point is FOR EVERY log-density with the stated concavity -- not only the quadratic ones of C15_optimiser_partial.
   Still not proved (and the reason the MAP/ML clause stays partial): that scipy's iteration reaches such a point, that the
   finite-difference gradient it may be given is the gradient, and concavity of a particular CUQIpy posterior. *)
From Coq Require Import Reals Lra.
From Coquelicot Require Import Coquelicot.
From CV Require Import Proofs.C15_Concave.
Local Open Scope R_scope.

(* concave differentiable log-density: the stationary points are exactly the global maximisers *)
Theorem C15_concave_stationary_iff_maximiser :
  forall (n : nat) (f : rvec -> R) (g : rvec -> rvec),
  (forall x y, f y <= f x + ip n (g x) (rsub y x)) ->
  (forall x d, is_derive (fun t => f (rline x d t)) 0 (ip n (g x) d)) ->
  (forall x d, f (rline x d 0) = f x) ->
  forall x, zero_on n (g x) <-> (forall y, f y <= f x).
Proof. exact concave_stationary_iff_maximiser. Qed.
Print Assumptions C15_concave_stationary_iff_maximiser.

(* strongly concave (gradient strongly monotone around the stationary point xs, modulus mu):
   |grad(x)| <= tol  =>  |x - xs| <= tol / mu;  in squared form without square roots; the stationary point is unique *)
Theorem C15_strongly_concave_distance :
  forall (n : nat) (g : rvec -> rvec) (mu : R) (xs : rvec),
  0 < mu -> zero_on n (g xs) ->
  (forall x, ip n (rsub (g x) (g xs)) (rsub x xs) <= - mu * nsq n (rsub x xs)) ->
  forall x,
    mu * mu * nsq n (rsub x xs) <= nsq n (g x) /\
    (forall tol, 0 <= tol -> sqrt (nsq n (g x)) <= tol -> sqrt (nsq n (rsub x xs)) <= tol / mu) /\
    (zero_on n (g x) -> zero_on n (rsub x xs)).
Proof.
  intros n g mu xs Hmu Hs Hm x. split; [exact (strong_sq n g mu xs Hmu Hs Hm x)|].
  split; [intros tol; exact (strong_distance n g mu xs Hmu Hs Hm x tol) | exact (strong_unique n g mu xs Hmu Hs Hm x)].
Qed.
Print Assumptions C15_strongly_concave_distance.

(* non-vacuity: f(x) = -(x_0 - 1)^2 meets every hypothesis of both theorems (mu = 2) *)
Example C15_concave_example :
  (forall x y, ex_f y <= ex_f x + ip 1 (ex_g x) (rsub y x)) /\
  (forall x d, is_derive (fun t => ex_f (rline x d t)) 0 (ip 1 (ex_g x) d)) /\
  (forall x d, ex_f (rline x d 0) = ex_f x) /\
  zero_on 1 (ex_g ex_xs) /\
  (forall x, ip 1 (rsub (ex_g x) (ex_g ex_xs)) (rsub x ex_xs) <= - 2 * nsq 1 (rsub x ex_xs)).
Proof. exact concave_example. Qed.
