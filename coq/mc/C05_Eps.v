(* C05 -- the exact law of the draws of the neumann / (repaired) periodic GMRF sampler with its eps-regularisation
   (the code: eps = sqrt(machine eps)), direction by direction, and its distance to the documented precision.

   The sampler returns  s = mean + T xi,  xi standard normal,  with  r (P + eps I) T = D^T,  P = D^T D,  r^2 = prec, so the
   draws are EXACTLY  N(mean, C),  C = T T^T,  prec (P + eps I) C (P + eps I) = P  (mc/C05_Cov.v: gmrf_neumann_cov_eps).
   Here: on every eigen-direction  P v = lam v  the covariance acts as the scalar
        C v = lam / (prec (lam + eps)^2) v,
   in particular C v = 0 on the null space of P (no variance there: exactly as the pseudo-inverse of the documented, singular
   precision prec P), and for lam > 0 the variance falls short of the documented 1/(prec lam) by the explicit relative amount
        eps (2 lam + eps) / (lam + eps)^2  in  (0, 2 eps / lam). *)
From mathcomp Require Import all_ssreflect all_algebra.
From mathcomp Require Import ring.
From CVmc Require Import C05_Cov.
Set Implicit Arguments.
Unset Strict Implicit.
Unset Printing Implicit Defensive.
Import Order.TTheory GRing.Theory Num.Theory.
Local Open Scope ring_scope.

(* the variance of the draws along an eigen-direction with eigenvalue lam, and the documented one (pseudo-inverse) *)
Definition eps_var (F : fieldType) (prec eps lam : F) : F := lam / (prec * (lam + eps) ^+ 2).
Definition doc_var (F : fieldType) (prec lam : F) : F := 1 / (prec * lam).

Section Eps.
Variable F : fieldType.

Theorem gmrf_eps_eigen n m (D : 'M[F]_(m, n)) (T : 'M[F]_(n, m)) (r prec eps lam : F) (v : 'cV[F]_n) :
  let P := D^T *m D in let Pe := P + eps%:M in let C := T *m T^T in
  r * r = prec -> (r *: Pe) *m T = D^T -> Pe \in unitmx -> prec != 0 -> lam + eps != 0 ->
  P *m v = lam *: v -> C *m v = eps_var prec eps lam *: v.
Proof.
move=> P Pe C Hr HT U Hp Hl Hv.
have [E1 _] := gmrf_neumann_cov_eps Hr HT.
have Pev : Pe *m v = (lam + eps) *: v by rewrite /Pe mulmxDl Hv mul_scalar_mx scalerDl.
have E2 : Pe *m (C *m v) = (lam / (prec * (lam + eps))) *: v.
  have : (prec *: Pe) *m C *m Pe *m v = lam *: v by rewrite E1; exact: Hv.
  rewrite -mulmxA Pev -scalemxAr -!scalemxAl scalerA -mulmxA => H.
  have K : (lam + eps) * prec != 0 by rewrite mulf_neq0.
  by rewrite -[LHS](scalerK K) H scalerA mulrC [prec * _]mulrC.
rewrite -[LHS](mulKmx U) E2 -scalemxAr.
have -> : invmx Pe *m v = (lam + eps)^-1 *: v.
  by rewrite -[in LHS](scalerK Hl v) -Pev -scalemxAr mulKmx.
rewrite scalerA /eps_var; congr (_ *: _).
by rewrite expr2 !invfM; ring.
Qed.

(* no variance on the null space of the precision *)
Corollary gmrf_eps_null n m (D : 'M[F]_(m, n)) (T : 'M[F]_(n, m)) (r prec eps : F) (v : 'cV[F]_n) :
  let P := D^T *m D in let Pe := P + eps%:M in let C := T *m T^T in
  r * r = prec -> (r *: Pe) *m T = D^T -> Pe \in unitmx -> prec != 0 -> eps != 0 ->
  P *m v = 0 -> C *m v = 0.
Proof.
move=> P Pe C Hr HT U Hp He Hv.
have H0 : D^T *m D *m v = 0 *: v by rewrite scale0r.
have := gmrf_eps_eigen Hr HT U Hp _ H0; rewrite add0r => /(_ He) ->.
by rewrite /eps_var mul0r scale0r.
Qed.

End Eps.

Section EpsReal.
Variable R : realFieldType.

Lemma row_sq_sum m (w : 'rV[R]_m) : (w *m w^T) 0 0 = \sum_j (w 0 j) ^+ 2.
Proof. by rewrite mxE; apply: eq_bigr => j _; rewrite mxE expr2. Qed.

(* over an ordered field the regularised matrix D^T D + eps I is invertible for every eps > 0 *)
Lemma reg_unit n m (D : 'M[R]_(m, n)) (eps : R) : 0 < eps -> (D^T *m D + eps%:M) \in unitmx.
Proof.
move=> He; rewrite -row_free_unit -kermx_eq0; apply/rowV0P => u /sub_kermxP Hu.
have H0 : (u *m (D^T *m D + eps%:M) *m u^T) 0 0 = 0 by rewrite Hu mul0mx mxE.
have E : u *m (D^T *m D + eps%:M) *m u^T = (u *m D^T) *m (u *m D^T)^T + eps *: (u *m u^T).
  by rewrite mulmxDr mulmxDl mul_mx_scalar -scalemxAl trmx_mul trmxK !mulmxA.
have S (a : R) (M : 'M[R]_1) : (a *: M) 0 0 = a * M 0 0 by rewrite mxE.
move: H0; rewrite E mxE S !row_sq_sum => /eqP.
have A0 : 0 <= \sum_j ((u *m D^T) 0 j) ^+ 2 by apply: sumr_ge0 => j _; apply: sqr_ge0.
have B0 : 0 <= \sum_j (u 0 j) ^+ 2 by apply: sumr_ge0 => j _; apply: sqr_ge0.
have C0 : 0 <= eps * \sum_j (u 0 j) ^+ 2 by apply: mulr_ge0 => //; exact: ltW.
rewrite (paddr_eq0 A0 C0) => /andP [_]; rewrite mulf_eq0 (gt_eqF He) /= => /eqP HB.
apply/rowP => j; rewrite mxE.
have Hj : (u 0 j) ^+ 2 = 0 by apply: (psumr_eq0P _ HB) => // i _; exact: sqr_ge0.
by apply/eqP; rewrite -sqrf_eq0 Hj.
Qed.

(* the law of the draws, direction by direction, with only the sign conditions the code guarantees *)
Theorem gmrf_eps_eigen_real n m (D : 'M[R]_(m, n)) (T : 'M[R]_(n, m)) (r prec eps lam : R) (v : 'cV[R]_n) :
  let P := D^T *m D in let Pe := P + eps%:M in let C := T *m T^T in
  0 < eps -> 0 < prec -> 0 <= lam -> r * r = prec -> (r *: Pe) *m T = D^T ->
  P *m v = lam *: v -> C *m v = eps_var prec eps lam *: v.
Proof.
move=> P Pe C He Hp Hl Hr HT Hv.
apply: (gmrf_eps_eigen Hr HT) => //; first exact: reg_unit.
- by rewrite gt_eqF.
- by rewrite gt_eqF // ltr_paddl.
Qed.

(* distance to the documented variance 1/(prec lam) on a direction with lam > 0 *)
Theorem eps_var_deviation (prec eps lam : R) : 0 < prec -> 0 < eps -> 0 < lam ->
  let rel := eps * (2%:R * lam + eps) / (lam + eps) ^+ 2 in
  eps_var prec eps lam = doc_var prec lam * (1 - rel) /\ 0 < rel /\ rel < 2%:R * eps / lam /\ rel < 1.
Proof.
move=> Hp He Hl rel.
have Hle : 0 < lam + eps by apply: addr_gt0.
have N1 : lam + eps != 0 by rewrite gt_eqF.
have N2 : lam != 0 by rewrite gt_eqF.
have N3 : prec != 0 by rewrite gt_eqF.
split; [|split; [|split]].
- by rewrite /eps_var /doc_var /rel; field; rewrite N1 N2 N3.
- by rewrite /rel divr_gt0 ?exprn_gt0 // mulr_gt0 // addr_gt0 // mulr_gt0 // ltr0n.
- rewrite -subr_gt0.
  have -> : 2%:R * eps / lam - rel = eps * (3%:R * lam * eps + 2%:R * eps ^+ 2) / (lam * (lam + eps) ^+ 2).
    by rewrite /rel; field; rewrite N1 N2.
  rewrite divr_gt0 ?mulr_gt0 ?exprn_gt0 // addr_gt0 // ?mulr_gt0 ?exprn_gt0 // ltr0n //.
- rewrite -subr_gt0.
  have -> : 1 - rel = lam ^+ 2 / (lam + eps) ^+ 2 by rewrite /rel; field; rewrite N1.
  by rewrite divr_gt0 ?exprn_gt0.
Qed.

Lemma col_mulmx m n p (A : 'M[R]_(m, n)) (B : 'M[R]_(n, p)) j : col j (A *m B) = A *m col j B.
Proof. by apply/matrixP=> i k; rewrite !mxE; apply: eq_bigr => t _; rewrite mxE. Qed.

(* the WHOLE covariance of the draws, given an orthonormal eigenbasis of P (columns of U, eigenvalues l):
   C = U diag(eps_var prec eps l_j) U^T *)
Theorem gmrf_eps_cov_spectral n m (D : 'M[R]_(m, n)) (T : 'M[R]_(n, m)) (U : 'M[R]_n) (l : 'rV[R]_n) (r prec eps : R) :
  let P := D^T *m D in let Pe := P + eps%:M in let C := T *m T^T in
  0 < eps -> 0 < prec -> (forall j, 0 <= l 0 j) -> r * r = prec -> (r *: Pe) *m T = D^T ->
  U *m U^T = 1%:M -> P *m U = U *m diag_mx l ->
  C = U *m diag_mx (\row_j eps_var prec eps (l 0 j)) *m U^T.
Proof.
move=> P Pe C He Hp Hl Hr HT HU HPU.
have Hcol j : P *m col j U = l 0 j *: col j U.
  rewrite -col_mulmx HPU (mul_mx_diag U l); apply/matrixP=> i k; rewrite !mxE mulrC //.
have CU : C *m U = U *m diag_mx (\row_j eps_var prec eps (l 0 j)).
  apply/matrixP=> i j.
  have H := gmrf_eps_eigen_real He Hp (Hl j) Hr HT (Hcol j).
  have : (C *m col j U) i 0 = (eps_var prec eps (l 0 j) *: col j U) i 0 by rewrite H.
  rewrite -col_mulmx [LHS]mxE [RHS]mxE [(col j U) i 0]mxE => ->.
  by rewrite mul_mx_diag !mxE mulrC.
by rewrite -[LHS]mulmx1 -HU mulmxA CU.
Qed.

(* ... and the documented law: with doc_j = 1/(prec l_j) on the range and 0 on the null space, Cdoc = U diag(doc) U^T is a
   generalised inverse of the documented precision prec P (so Cdoc - C = U diag(doc_j - eps_var_j) U^T with the entries bounded
   by eps_var_deviation) *)
Theorem gmrf_doc_cov_spectral n (P U : 'M[R]_n) (l : 'rV[R]_n) (prec : R) :
  prec != 0 -> U^T *m U = 1%:M -> P = U *m diag_mx l *m U^T ->
  let doc := \row_j (if l 0 j == 0 then 0 else doc_var prec (l 0 j)) in
  let Cdoc := U *m diag_mx doc *m U^T in
  (prec *: P) *m Cdoc *m (prec *: P) = prec *: P.
Proof.
move=> Hp HU -> doc Cdoc; rewrite /Cdoc.
have E (A B : 'M[R]_n) : (U *m A *m U^T) *m (U *m B *m U^T) = U *m (A *m B) *m U^T.
  by rewrite !mulmxA -(mulmxA (U *m A)) HU mulmx1.
rewrite -!scalemxAl -scalemxAr E E; congr (_ *: _).
rewrite scalemxAl [prec *: (U *m _)]scalemxAr; congr (_ *m _ *m _).
rewrite !mulmx_diag; apply/matrixP=> i j; rewrite !mxE.
case: (i == j); rewrite ?mulr0n ?mulr0 // !mulr1n.
case: ifPn => [/eqP ->|N]; first by rewrite !mulr0.
rewrite /doc_var; move: (l 0 i) N => x N; by field; rewrite N Hp.
Qed.

(* the variance of the draws along v (quadratic form; what the cells gmrf-eps-law compare to 1e-11 relative) *)
Corollary gmrf_eps_rayleigh n m (D : 'M[R]_(m, n)) (T : 'M[R]_(n, m)) (r prec eps lam : R) (v : 'cV[R]_n) :
  let P := D^T *m D in let Pe := P + eps%:M in let C := T *m T^T in
  0 < eps -> 0 < prec -> 0 <= lam -> r * r = prec -> (r *: Pe) *m T = D^T ->
  P *m v = lam *: v -> v^T *m C *m v = eps_var prec eps lam *: (v^T *m v).
Proof.
move=> P Pe C He Hp Hl Hr HT Hv.
by rewrite -mulmxA (gmrf_eps_eigen_real He Hp Hl Hr HT Hv) -scalemxAr.
Qed.

(* the distance between the documented covariance and that of the draws, in the eigenbasis: zero on the null space of P,
   between 0 and doc_j * 2 eps / l_j on the range *)
Theorem gmrf_eps_distance n m (D : 'M[R]_(m, n)) (T : 'M[R]_(n, m)) (U : 'M[R]_n) (l : 'rV[R]_n) (r prec eps : R) :
  let P := D^T *m D in let Pe := P + eps%:M in let C := T *m T^T in
  let doc := \row_j (if l 0 j == 0 then 0 else doc_var prec (l 0 j)) in
  let Cdoc := U *m diag_mx doc *m U^T in
  let delta := \row_j (doc 0 j - eps_var prec eps (l 0 j)) in
  0 < eps -> 0 < prec -> (forall j, 0 <= l 0 j) -> r * r = prec -> (r *: Pe) *m T = D^T ->
  U *m U^T = 1%:M -> P *m U = U *m diag_mx l ->
  Cdoc - C = U *m diag_mx delta *m U^T /\
  forall j, (l 0 j = 0 -> delta 0 j = 0) /\
            (0 < l 0 j -> 0 < delta 0 j /\ delta 0 j < doc_var prec (l 0 j) * (2%:R * eps / l 0 j)).
Proof.
move=> P Pe C doc Cdoc delta He Hp Hl Hr HT HU HPU; split.
  rewrite /Cdoc /C (gmrf_eps_cov_spectral He Hp Hl Hr HT HU HPU) -mulmxBl -mulmxBr -raddfB /=.
  by congr (_ *m diag_mx _ *m _); apply/rowP=> j; rewrite !mxE.
move=> j; rewrite /delta !mxE; split=> [->|Lj].
  by rewrite eqxx /eps_var mul0r subrr.
rewrite (gt_eqF Lj).
have [E [R0 [R1 _]]] := eps_var_deviation Hp He Lj.
have Dp : 0 < doc_var prec (l 0 j) by rewrite /doc_var divr_gt0 ?mulr_gt0 // ltr01.
rewrite E -[X in X - _]mulr1 -mulrBr opprB addrC subrK; split; first by rewrite mulr_gt0.
by rewrite ltr_pmul2l.
Qed.

End EpsReal.
