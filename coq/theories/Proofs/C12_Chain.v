(* C12 -- the Jacobian laws of the polynomial model family F(x) = A phi(x) + b and of element-wise
   (mapped) geometries, and the chain-rule theorem without unproved hypotheses for that family. *)
From CV Require Import Base.Tac Base.LinAlg Base.QcLin Base.Cmp Model.C12_Model Proofs.C12_Model.
From Coq Require Import QArith Qcanon Ring.
Local Open Scope Qc_scope.

(* ------------------------------------------------------------------------------------------ *)
(* scalar polynomials: pderiv is the derivative (Taylor form, exact arithmetic)                 *)
(* ------------------------------------------------------------------------------------------ *)
Lemma peval_cons c p t : peval (c :: p) t = c + t * peval p t.
Proof. reflexivity. Qed.

Lemma peval_nil t : peval [] t = 0.
Proof. reflexivity. Qed.

Lemma peval_padd p q t : peval (padd p q) t = peval p t + peval q t.
Proof.
  revert q; induction p as [|a p IH]; intros q.
  - simpl padd. rewrite peval_nil. ring.
  - destruct q as [|b q].
    + simpl padd. rewrite peval_nil. ring.
    + simpl padd. rewrite !peval_cons, IH. ring.
Qed.

Lemma peval_pderiv_cons c p t : peval (pderiv (c :: p)) t = peval p t + t * peval (pderiv p) t.
Proof. simpl pderiv. rewrite peval_padd, peval_cons. ring. Qed.

(* f(x+h) = f(x) + h f'(x) + h^2 r : the defining property of the derivative of a polynomial *)
Definition taylor1 (f f' : Qc -> Qc) : Prop :=
  forall x h, exists r, f (x + h) = f x + h * f' x + h * h * r.

Theorem pderiv_taylor cs : taylor1 (peval cs) (peval (pderiv cs)).
Proof.
  induction cs as [|c p IH]; intros x h.
  - exists 0. unfold peval. simpl. ring.
  - destruct (IH x h) as [r Hr]. exists (peval (pderiv p) x + (x + h) * r).
    rewrite !peval_cons, peval_pderiv_cons, Hr. ring.
Qed.

(* composition: (f o g)' = (f' o g) g' *)
Theorem taylor1_compose f f' g g' :
  taylor1 f f' -> taylor1 g g' -> taylor1 (fun t => f (g t)) (fun t => f' (g t) * g' t).
Proof.
  intros Hf Hg x h. destruct (Hg x h) as [r1 H1].
  destruct (Hf (g x) (h * (g' x + h * r1))) as [r2 H2].
  exists (r1 * f' (g x) + (g' x + h * r1) * (g' x + h * r1) * r2).
  replace (g (x + h)) with (g x + h * (g' x + h * r1)) by (rewrite H1; ring).
  rewrite H2. ring.
Qed.

(* ------------------------------------------------------------------------------------------ *)
(* vectors                                                                                     *)
(* ------------------------------------------------------------------------------------------ *)
Lemma vmul_length x y : length x = length y -> length (vmul x y) = length x.
Proof. revert y; induction x as [|a x IH]; intros [|b y] H; simpl in *; try lia. f_equal. apply IH. lia. Qed.

Lemma qvadd_length x y : length x = length y -> length (qvadd x y) = length x.
Proof. apply vadd_length. Qed.

Lemma vmul_vadd s u v : vmul s (qvadd u v) = qvadd (vmul s u) (vmul s v).
Proof.
  unfold qvadd. revert u v; induction s as [|a s IH]; intros [|b u] [|c v]; simpl; try reflexivity.
  rewrite IH. f_equal. ring.
Qed.

Lemma vmul_vscale s a row : vmul s (qvscale a row) = qvscale a (vmul row s).
Proof.
  unfold qvscale, vscale. revert row; induction s as [|b s IH]; intros [|c row]; simpl; try reflexivity.
  rewrite IH. f_equal. ring.
Qed.

Lemma vmul_vzero_r s n : length s = n -> vmul s (qvzero n) = qvzero n.
Proof.
  revert n; induction s as [|a s IH]; intros [|n] H; simpl in *; try discriminate; try reflexivity.
  unfold qvzero, vzero in *. simpl. rewrite IH by lia. f_equal. ring.
Qed.

(* element-wise Taylor expansion of a map applied to a vector *)
Lemma vec_taylor f f' : taylor1 f f' -> forall x h, length x = length h ->
  exists r, length r = length x /\
    map f (qvadd x h) = qvadd (qvadd (map f x) (vmul h (map f' x))) (vmul (vmul h h) r).
Proof.
  intros T x; induction x as [|a x IH]; intros [|b h] H; simpl in H; try lia.
  - exists []. split; reflexivity.
  - destruct (IH h) as (r & Lr & Er); [lia|]. destruct (T a b) as [r0 H0].
    exists (r0 :: r). split; [simpl; lia|].
    unfold qvadd in *. simpl. rewrite Er, H0. reflexivity.
Qed.

(* ------------------------------------------------------------------------------------------ *)
(* matrices: J diag(s) ("column scaling"), its product with a vector and its transpose           *)
(* ------------------------------------------------------------------------------------------ *)
Definition col_scale (J : mat) (s : vec) : mat := map (fun row => vmul row s) J.

Lemma poly_jac_col_scale A dcs x : poly_jac A dcs x = col_scale A (pmap dcs x).
Proof. reflexivity. Qed.

Lemma col_scale_wf n J s : wf_mat n J -> length s = n -> wf_mat n (col_scale J s).
Proof.
  intros HJ Hs. unfold col_scale, wf_mat in *. apply Forall_map.
  eapply Forall_impl; [|exact HJ]. intros row Hr. simpl. rewrite vmul_length; congruence.
Qed.

Lemma col_scale_length J s : length (col_scale J s) = length J.
Proof. apply map_length. Qed.

Lemma vmul_nil_r x : vmul x [] = [].
Proof. destruct x; reflexivity. Qed.

Lemma vmul_assoc x s t : vmul (vmul x s) t = vmul x (vmul s t).
Proof.
  revert s t; induction x as [|a x IH]; intros s t; [reflexivity|].
  destruct s as [|b s]; [reflexivity|]. destruct t as [|c t]; [simpl; reflexivity|].
  simpl. rewrite IH. f_equal. ring.
Qed.

Lemma col_scale_col_scale J s t : col_scale (col_scale J s) t = col_scale J (vmul s t).
Proof. unfold col_scale. rewrite map_map. apply map_ext. intros row. apply vmul_assoc. Qed.

Lemma qdot_vmul row s h : qdot (vmul row s) h = qdot row (vmul h s).
Proof.
  unfold qdot. revert s h; induction row as [|a row IH]; intros s h; [reflexivity|].
  destruct s as [|b s]; [rewrite vmul_nil_r; destruct h; reflexivity|].
  destruct h as [|c h]; [reflexivity|]. simpl. rewrite IH. ring.
Qed.

(* (J diag(s)) h = J (h * s) *)
Lemma matvec_col_scale J s h : qmatvec (col_scale J s) h = qmatvec J (vmul h s).
Proof. unfold qmatvec, matvec, col_scale. rewrite map_map. apply map_ext. intros row. apply qdot_vmul. Qed.

(* (J diag(s))^T d = s * (J^T d): the direction-Jacobian product written the way a user would *)
Theorem mattvec_col_scale n J s d : wf_mat n J -> length s = n ->
  qmattvec n (col_scale J s) d = vmul s (qmattvec n J d).
Proof.
  intros HJ Hs; revert d; induction HJ as [|row J Hr HJ IH]; intros d.
  - transitivity (qvzero n); [destruct d; reflexivity|].
    symmetry. etransitivity; [|apply vmul_vzero_r; exact Hs]. f_equal; try (destruct d; reflexivity).
  - destruct d as [|a d].
    + change (qmattvec n (col_scale (row :: J) s) []) with (qvzero n).
      change (qmattvec n (row :: J) []) with (qvzero n). rewrite vmul_vzero_r by exact Hs. reflexivity.
    + change (col_scale (row :: J) s) with (vmul row s :: col_scale J s).
      change (qmattvec n (vmul row s :: col_scale J s) (a :: d))
        with (qvadd (qvscale a (vmul row s)) (qmattvec n (col_scale J s) d)).
      change (qmattvec n (row :: J) (a :: d)) with (qvadd (qvscale a row) (qmattvec n J d)).
      rewrite IH, vmul_vadd, vmul_vscale. reflexivity.
Qed.

(* the gradient callable of the polynomial family IS the transposed Jacobian applied to the direction *)
Theorem poly_dir_is_transposed_jacobian n A dcs d w : wf_mat n A -> length w = n ->
  poly_dir n A dcs d w = qmattvec n (poly_jac A dcs w) d.
Proof.
  intros HA Hw. unfold poly_dir. rewrite poly_jac_col_scale, mattvec_col_scale; [reflexivity | exact HA |].
  unfold pmap. rewrite map_length. exact Hw.
Qed.

(* matvec is additive (three summands) *)
Lemma qmatvec_vadd3 n A u v w : wf_mat n A -> length u = n -> length v = n -> length w = n ->
  qmatvec A (qvadd (qvadd u v) w) = qvadd (qvadd (qmatvec A u) (qmatvec A v)) (qmatvec A w).
Proof.
  intros HA Hu Hv Hw. unfold qmatvec, qvadd.
  rewrite (matvec_vadd Qc 0 1 Qcplus Qcmult Qcminus Qcopp Qcrt A (vadd Qcplus u v) w n) by
    (try assumption; rewrite vadd_length; congruence).
  rewrite (matvec_vadd Qc 0 1 Qcplus Qcmult Qcminus Qcopp Qcrt A u v n) by assumption.
  reflexivity.
Qed.

(* ------------------------------------------------------------------------------------------ *)
(* the Jacobian of the parameter-to-output map p |-> A phi_F(phi_G(p)) + b  (element-wise domain
   geometry map phi_G, plain range geometry) is  A diag(phi_F'(phi_G p)) diag(phi_G'(p))         *)
(* ------------------------------------------------------------------------------------------ *)
Definition par2out_jac (A : mat) (csF csG : list Qc) (p : vec) : mat :=
  col_scale (poly_jac A (pderiv csF) (pmap csG p)) (pmap (pderiv csG) p).

Theorem par2out_jacobian_law n A csF csG b p h :
  wf_mat n A -> length p = n -> length h = n ->
  exists r, length r = n /\
    poly_forward A csF b (pmap csG (qvadd p h)) =
    qvadd (qvadd (qvadd (qmatvec A (pmap csF (pmap csG p))) (qmatvec (par2out_jac A csF csG p) h))
                 (qmatvec A (vmul (vmul h h) r))) b.
Proof.
  intros HA Hp Hh.
  pose proof (taylor1_compose _ _ _ _ (pderiv_taylor csF) (pderiv_taylor csG)) as T.
  destruct (vec_taylor _ _ T p h) as (r & Lr & Er); [congruence|].
  exists r. split; [congruence|].
  unfold poly_forward, pmap. rewrite map_map. rewrite Er. f_equal.
  assert (L1 : length (map (fun t => peval csF (peval csG t)) p) = n) by (rewrite map_length; exact Hp).
  assert (L2 : length (vmul h (map (fun t => peval (pderiv csF) (peval csG t) * peval (pderiv csG) t) p)) = n)
    by (rewrite vmul_length; rewrite ?map_length; congruence).
  assert (L3 : length (vmul (vmul h h) r) = n)
    by (rewrite vmul_length; rewrite vmul_length; congruence).
  rewrite (qmatvec_vadd3 n A _ _ _ HA L1 L2 L3).
  unfold par2out_jac. rewrite poly_jac_col_scale, col_scale_col_scale, matvec_col_scale.
  rewrite map_map.
  replace (vmul (pmap (pderiv csF) (pmap csG p)) (pmap (pderiv csG) p))
    with (map (fun t => peval (pderiv csF) (peval csG t) * peval (pderiv csG) t) p); [reflexivity|].
  unfold pmap. rewrite map_map. clear. induction p as [|a p IH]; simpl; [reflexivity|]. rewrite IH. reflexivity.
Qed.

(* the geometry's `gradient` of an element-wise map is the transposed (diagonal) Jacobian of par2fun *)
Lemma ggrad_diag_apply csG sel v w : ggrad_apply (GGDiag (pderiv csG) sel) v w = vmul (pmap (pderiv csG) w) v.
Proof. reflexivity. Qed.

(* element-wise domain geometry (MappedGeometry over Continuous1D / user geometry with par2fun = phi_G) *)
Definition elementwise_geo (dg : geo) (csG : list Qc) (sel : tsel) : Prop :=
  plain1d (g_cls dg) = false /\ g_conv dg = CvId /\ g_map dg = Some csG /\
  g_grad dg = Some (GGDiag (pderiv csG) sel).

Lemma elementwise_par2fun dg csG sel w : elementwise_geo dg csG sel -> g_par2fun dg w = Ok (pmap csG w).
Proof. intros (H1 & H2 & H3 & _). unfold g_par2fun, g_par2fun_gen. rewrite H1, H2, H3. reflexivity. Qed.

(* the model's own gradient callables of the polynomial family *)
Definition poly_gfun (gf : gfun) (n : nat) (A : mat) (csF : list Qc) : Prop :=
  (exists jt, gf = GJac n (poly_jac A (pderiv csF)) jt) \/
  (exists sel, gf = GDir (poly_dir n A (pderiv csF)) false sel) \/
  (exists sel, gf = GPde (Some (poly_dir n A (pderiv csF), sel)) None) \/
  (exists jt, gf = GPde None (Some (n, poly_jac A (pderiv csF), jt))).

Lemma poly_gfun_run gf n A csF d wf : poly_gfun gf n A csF ->
  wf_mat n A -> length wf = n -> length d = length A ->
  has_gradient_func gf = true /\
  exists flat sel, run_gfun gf false d wf = Ok (qmattvec n (poly_jac A (pderiv csF) wf) d, flat, sel).
Proof.
  intros H HA Hw Hd.
  assert (HJ : wf_mat n (poly_jac A (pderiv csF) wf)).
  { rewrite poly_jac_col_scale. apply col_scale_wf; [exact HA|]. unfold pmap. rewrite map_length. exact Hw. }
  assert (LJ : length d = length (poly_jac A (pderiv csF) wf)).
  { rewrite poly_jac_col_scale, col_scale_length. exact Hd. }
  destruct H as [[jt ->] | [[sel ->] | [[sel ->] | [jt ->]]]]; split; try reflexivity.
  - exists true, (jac_sel jt). unfold run_gfun. rewrite vecmat_is_mattvec by assumption. reflexivity.
  - exists true, sel. unfold run_gfun. rewrite poly_dir_is_transposed_jacobian by assumption. reflexivity.
  - exists true, sel. unfold run_gfun. rewrite poly_dir_is_transposed_jacobian by assumption. reflexivity.
  - exists true, (jac_sel jt). unfold run_gfun. rewrite vecmat_is_mattvec by assumption. reflexivity.
Qed.

(* FULL chain rule for everything the correspondence runs through element-wise geometries: no law is
   assumed.  gradient(direction, wrt) = J^T direction with J the Jacobian (par2out_jacobian_law) of the
   parameter-to-output map at wrt. *)
Theorem gradient_chain_poly q gf rg dg n A csF csG gsel d w :
  poly_gfun gf n A csF -> elementwise_geo dg csG gsel -> plain1d (g_cls rg) = true ->
  wf_mat n A -> length w = n -> length d = length A ->
  gradient q gf rg dg (GiVec d) (GiVec w) true true =
  Ok (OutVec (qmattvec n (par2out_jac A csF csG w) d) false).
Proof.
  intros Hgf Hdg Hr HA Hw Hd.
  assert (Lw : length (pmap csG w) = n) by (unfold pmap; rewrite map_length; exact Hw).
  destruct (poly_gfun_run gf n A csF d (pmap csG w) Hgf HA Lw Hd) as (Hg & flat & sel & Hrun).
  assert (Ir : identity_class (g_cls rg) = true) by (destruct (g_cls rg); try discriminate; reflexivity).
  destruct Hdg as (H1 & H2 & H3 & H4).
  rewrite gradient_plain; [| assumption | assumption | left; unfold has_grad; rewrite H4; reflexivity].
  rewrite (elementwise_par2fun dg csG gsel w (conj H1 (conj H2 (conj H3 H4)))). cbn [bind].
  unfold g_par2fun, g_par2fun_gen, fun_is_2d. rewrite Hr. cbn [bind].
  rewrite Hrun. cbn [bind fst snd]. rewrite H4, ggrad_diag_apply.
  unfold par2out_jac. rewrite mattvec_col_scale; [reflexivity | |].
  - rewrite poly_jac_col_scale. apply col_scale_wf; [exact HA|]. unfold pmap. rewrite !map_length. exact Hw.
  - unfold pmap. rewrite map_length. exact Hw.
Qed.

(* ------------------------------------------------------------------------------------------ *)
(* the direction given as function values or as a CUQIarray carrying the (plain 1-d) range geometry *)
(* ------------------------------------------------------------------------------------------ *)
Lemma plain1d_fun2par g fl f : plain1d (g_cls g) = true -> g_fun2par_gen g fl f = Ok f.
Proof. intros H. unfold g_fun2par_gen. rewrite H. reflexivity. Qed.

Lemma plain1d_par2fun g p : plain1d (g_cls g) = true -> g_par2fun g p = Ok p.
Proof. intros H. unfold g_par2fun, g_par2fun_gen. rewrite H. reflexivity. Qed.

Lemma plain1d_par2fun_gen g i p : plain1d (g_cls g) = true -> g_par2fun_gen g i p = Ok p.
Proof. intros H. unfold g_par2fun_gen. rewrite H. reflexivity. Qed.

Lemma plain1d_0d g : plain1d (g_cls g) = true -> g_f2p_0d g = false.
Proof. intros H. unfold g_f2p_0d. rewrite H. reflexivity. Qed.

(* final conversion of a value that carries the direction's tag (rg, is_par=False) or none *)
Lemma final_conversion_dir_tag q rg dg flat val (isp : bool) t :
  plain1d (g_cls rg) = true -> eq_confused q rg dg = false ->
  t = None \/ t = Some (rg, false) ->
  rmap (fun a => out_cols (wrap_out true dg a)) (two_par_gen q dg flat val t isp) =
  (if isp then Ok [val] else rmap (fun v => [v]) (g_fun2par_gen dg flat val)).
Proof.
  intros Hr HC [-> | ->]; unfold two_par_gen.
  - destruct isp; [reflexivity|]. rewrite rmap_rmap. reflexivity.
  - rewrite (geo_eq_unconfused q rg dg HC). cbn [bind]. destruct (geo_eqb q rg dg) eqn:E.
    + rewrite plain1d_fun2par by exact Hr. cbn [rmap]. destruct isp; [reflexivity|].
      destruct (geo_eqb_alike q rg dg HC E) as (H1 & _). rewrite <- H1, plain1d_fun2par by exact Hr. reflexivity.
    + destruct isp; [reflexivity|]. rewrite rmap_rmap. reflexivity.
Qed.

Theorem gradient_direction_forms_agree q gf rg dg d (ap dflag : bool) w :
  has_gradient_func gf = true -> plain1d (g_cls rg) = true ->
  (has_grad dg = true \/ identity_class (g_cls dg) = true) ->
  eq_confused q rg dg = false ->
  out_values (gradient q gf rg dg (GiArr rg ap d) (GiVec w) dflag true) =
    out_values (gradient q gf rg dg (GiVec d) (GiVec w) true true) /\
  gradient q gf rg dg (GiVec d) (GiVec w) false true = gradient q gf rg dg (GiVec d) (GiVec w) true true.
Proof.
  intros Hg Hr Hd HC.
  assert (Ir : identity_class (g_cls rg) = true) by (destruct (g_cls rg); try discriminate; reflexivity).
  assert (Hd' : negb (has_grad dg) && negb (identity_class (g_cls dg)) = false).
  { destruct Hd as [-> | ->]; [reflexivity | apply andb_false_r]. }
  assert (E : forall X : res output, match gf with GNone => Err ENotImpl | _ => X end = X).
  { intros X. destruct gf; try reflexivity; discriminate. }
  split.
  - rewrite (gradient_plain q gf rg dg d w Hg Ir Hd).
    unfold gradient. cbn [gi_samples gi_vec gi_tag gi_tag_par gi_tag_fun gi_is_arr orb].
    unfold two_par, two_par_gen at 1. cbn [bind p_v p_tag]. rewrite Ir. cbn [negb]. rewrite Hd', E.
    unfold two_fun, two_fun_gen at 1. unfold g_par2fun.
    destruct (g_par2fun_gen dg false w) as [wf|e]; cbn [bind rmap fst snd]; [|reflexivity].
    unfold two_fun_gen. rewrite geo_eq_refl. cbn [bind]. unfold g_par2fun. rewrite !(plain1d_par2fun_gen rg false d Hr).
    assert (Edf : (if ap then rmap (fun f => (f, Some (rg, false))) (Ok d) else Ok (d, Some (rg, false)))
                  = Ok (d, Some (rg, false))) by (destruct ap; reflexivity).
    rewrite Edf. cbn [bind fst snd].
    destruct (run_gfun gf (fun_is_2d rg) d wf) as [[[gv flat] sel]|e]; cbn [bind fst snd]; [|reflexivity].
    unfold out_values. rewrite if_same.
    assert (Tg : pick sel (Some (rg, false)) None = None \/ pick sel (Some (rg, false)) None = Some (rg, false))
      by (destruct sel; cbn; auto).
    destruct (g_grad dg) as [gg|].
    + assert (Tg2 : pick (ggrad_sel gg) (pick sel (Some (rg, false)) None) None = None \/
                    pick (ggrad_sel gg) (pick sel (Some (rg, false)) None) None = Some (rg, false)).
      { destruct Tg as [-> | ->]; destruct (ggrad_sel gg); cbn; auto. }
      rewrite rmap_rmap, (final_conversion_dir_tag q rg dg flat _ true _ Hr HC Tg2). reflexivity.
    + rewrite !rmap_rmap, (final_conversion_dir_tag q rg dg flat _ false _ Hr HC Tg). reflexivity.
  - unfold gradient. cbn [gi_samples gi_vec gi_tag gi_tag_par gi_tag_fun gi_is_arr orb]. unfold two_fun, two_fun_gen, g_par2fun.
    rewrite (plain1d_par2fun_gen rg false d Hr). reflexivity.
Qed.

(* ------------------------------------------------------------------------------------------ *)
(* instances of a subclass of CUQIarray                                                        *)
(* ------------------------------------------------------------------------------------------ *)
Theorem forward_subclass_agrees q F rg dg g ap v flag :
  q_typeis q = false -> forward q F rg dg (InSub g ap v) flag = forward q F rg dg (InArr g ap v) flag.
Proof. intros H. unfold forward. rewrite H. reflexivity. Qed.

Definition w7_dg := mkGeo KCont1D 3 3 CvId None F2Base None 0.
Definition w7_rg := g_mapped 2 [1;2]%Z (F2Imap [qc (-1#2); qc (1#2)]) None.
Definition w7_F := mkFwd (fun x => qvadd (qmatvec (map zq [[1;0;1];[0;2;1]]%Z) x) (zq [1;1]%Z)) true.
Lemma witness_subclass :
  q_typeis q_today = true /\
  check_out (forward q_today w7_F w7_rg w7_dg (InArr w7_dg true (zq [1;2;3]%Z)) true) (ObsVal 1 [[2#1; 7#2]]) = true /\
  (* kind 7 = subclass instance labelled is_par=False; its geometry label is the DOMAIN geometry *)
  check_out (forward q_today w7_F w7_rg w7_dg (InSub w7_dg true (zq [1;2;3]%Z)) true) (ObsVal 7 [[2#1; 7#2]]) = true /\
  match forward q_today w7_F w7_rg w7_dg (InSub w7_dg true (zq [1;2;3]%Z)) true with
  | Ok (OutSub g ip _ _) => fields_eqb g w7_dg && negb ip | _ => false end = true.
Proof. vm_compute. repeat split; reflexivity. Qed.

(* ------------------------------------------------------------------------------------------ *)
(* direction AND wrt given as CUQIarrays; the repaired state of the tag leak                    *)
(* ------------------------------------------------------------------------------------------ *)
Lemma out_cols_wrap b g r : out_cols (wrap_out b g r) = [p_v r].
Proof. unfold wrap_out. destruct b; [reflexivity|]. destruct (p_tag r) as [[g' ip]|]; reflexivity. Qed.

(* the final _2par for every tag that can arrive there outside the leak class *)
Lemma final_conversion_general q rg dg flat val (isp b : bool) t :
  plain1d (g_cls rg) = true -> eq_confused q rg dg = false ->
  t = None \/ t = Some (rg, false) \/ (isp = true /\ t = Some (dg, true)) \/ (isp = false /\ t = Some (dg, false)) ->
  rmap (fun a => out_cols (wrap_out b dg a)) (two_par_gen q dg flat val t isp) =
  (if isp then Ok [val] else rmap (fun v => [v]) (g_fun2par_gen dg flat val)).
Proof.
  intros Hr HC Ht.
  assert (E : forall X, rmap (fun a => out_cols (wrap_out b dg a)) X = rmap (fun a => [p_v a]) X).
  { intros X. apply rmap_ext. intros a. apply out_cols_wrap. }
  rewrite E. destruct Ht as [-> | [-> | [[-> ->] | [-> ->]]]]; unfold two_par_gen.
  - destruct isp; [reflexivity|]. rewrite rmap_rmap. reflexivity.
  - rewrite (geo_eq_unconfused q rg dg HC). cbn [bind]. destruct (geo_eqb q rg dg) eqn:Eq.
    + rewrite plain1d_fun2par by exact Hr. cbn [rmap]. destruct isp; [reflexivity|].
      destruct (geo_eqb_alike q rg dg HC Eq) as (H1 & _). rewrite <- H1, plain1d_fun2par by exact Hr. reflexivity.
    + destruct isp; [reflexivity|]. rewrite rmap_rmap. reflexivity.
  - rewrite geo_eq_refl. reflexivity.
  - rewrite geo_eq_refl. cbn [bind]. rewrite rmap_rmap. reflexivity.
Qed.

(* the tag of wrt.funvals wins over the direction's and reaches the final conversion of a geometry gradient *)
Definition tag_leaks_both (sel gsel : tsel) : bool :=
  match sel, gsel with
  | SelWrtDir, (SelDir | SelDirWrt) => true
  | _, _ => false
  end.

(* common part: the direction is the ndarray d or a CUQIarray of it over the plain range geometry, the
   linearisation point is a CUQIarray x over the domain geometry representing the parameters w *)
Theorem gradient_array_forms_agree q gf rg dg (dplain : bool) d (apd dflag : bool) x (apw wflag : bool) w :
  has_gradient_func gf = true -> plain1d (g_cls rg) = true ->
  (has_grad dg = true \/ identity_class (g_cls dg) = true) ->
  eq_confused q rg dg = false ->
  (if apw then Ok x else g_fun2par dg x) = Ok w ->
  (if apw then g_par2fun dg x else Ok x) = g_par2fun dg w ->
  (q_tagleak q = true ->
   forall gg df wf gv flat sel, g_grad dg = Some gg -> run_gfun gf (fun_is_2d rg) df wf = Ok (gv, flat, sel) ->
     (if dplain then tag_leaks sel (ggrad_sel gg) else tag_leaks_both sel (ggrad_sel gg)) = false) ->
  out_values (gradient q gf rg dg (if dplain then GiVec d else GiArr rg apd d) (GiArr dg apw x) (if dplain then true else dflag) wflag) =
  out_values (gradient q gf rg dg (GiVec d) (GiVec w) true true).
Proof.
  intros Hg Hr Hd HC Hw Hf Hleak.
  assert (Ir : identity_class (g_cls rg) = true) by (destruct (g_cls rg); try discriminate; reflexivity).
  rewrite (gradient_plain q gf rg dg d w Hg Ir Hd).
  assert (Hd' : negb (has_grad dg) && negb (identity_class (g_cls dg)) = false).
  { destruct Hd as [-> | ->]; [reflexivity | apply andb_false_r]. }
  assert (E : forall X : res output, match gf with GNone => Err ENotImpl | _ => X end = X).
  { intros X. destruct gf; try reflexivity; discriminate. }
  unfold gradient.
  assert (Sd : gi_samples (if dplain then GiVec d else GiArr rg apd d) = false) by (destruct dplain; reflexivity).
  rewrite Sd. cbn [gi_samples gi_vec gi_tag gi_tag_par gi_tag_fun orb].
  unfold two_par, two_par_gen at 1. rewrite geo_eq_refl. cbn [bind].
  assert (Ewp : (if apw then Ok (mkP2 x (Some (dg, true)) false)
                 else rmap (fun v => mkP2 v (Some (dg, true)) (g_f2p_0d dg)) (g_fun2par_gen dg false x))
                = Ok (mkP2 w (Some (dg, true)) (if apw then false else g_f2p_0d dg))).
  { destruct apw; [inversion Hw; reflexivity|]. unfold g_fun2par in Hw. rewrite Hw. reflexivity. }
  rewrite Ewp. cbn [bind p_v p_tag]. rewrite Ir. cbn [negb]. rewrite Hd', E.
  unfold two_fun, two_fun_gen at 1. rewrite geo_eq_refl. cbn [bind].
  assert (Ewf : (if apw then rmap (fun f => (f, Some (dg, false))) (g_par2fun dg x) else Ok (x, Some (dg, false)))
                = rmap (fun f => (f, Some (dg, false))) (g_par2fun dg w)).
  { destruct apw; [rewrite Hf; reflexivity|]. rewrite <- Hf. reflexivity. }
  rewrite Ewf. destruct (g_par2fun dg w) as [wf|e]; cbn [bind rmap fst snd]; [|reflexivity].
  (* the direction *)
  assert (Edf : exists td, (td = None /\ dplain = true \/ td = Some (rg, false) /\ dplain = false) /\
                two_fun_gen q rg false (gi_vec (if dplain then GiVec d else GiArr rg apd d))
                            (gi_tag_fun q (if dplain then GiVec d else GiArr rg apd d)) (if dplain then true else dflag) = Ok (d, td)).
  { destruct dplain; cbn [gi_vec gi_tag gi_tag_fun]; unfold two_fun_gen.
    - exists None. split; [left; split; reflexivity|]. rewrite (plain1d_par2fun_gen rg false d Hr). reflexivity.
    - exists (Some (rg, false)). split; [right; split; reflexivity|]. rewrite geo_eq_refl. cbn [bind].
      rewrite (plain1d_par2fun rg d Hr). destruct apd; reflexivity. }
  destruct Edf as (td & Htd & Edf). rewrite Edf. cbn [bind fst snd].
  unfold g_par2fun. rewrite (plain1d_par2fun_gen rg false d Hr). cbn [bind].
  destruct (run_gfun gf (fun_is_2d rg) d wf) as [[[gv flat] sel]|e] eqn:Erun; cbn [bind fst snd]; [|reflexivity].
  unfold out_values.
  destruct (g_grad dg) as [gg|] eqn:Egg.
  - rewrite rmap_rmap.
    rewrite (final_conversion_general q rg dg flat _ true _ _ Hr HC); [reflexivity|].
    destruct (q_tagleak q) eqn:Q.
    + specialize (Hleak eq_refl gg d wf gv flat sel eq_refl Erun).
      destruct Htd as [[-> ->] | [-> ->]]; destruct sel, (ggrad_sel gg); cbn in Hleak |- *; try discriminate; auto.
    + destruct Htd as [[-> _] | [-> _]]; destruct sel, (ggrad_sel gg); cbn; auto.
  - rewrite !rmap_rmap.
    rewrite (final_conversion_general q rg dg flat _ false _ _ Hr HC); [reflexivity|].
    destruct (q_tagleak q); destruct Htd as [[-> _] | [-> _]]; destruct sel; cbn; auto.
Qed.

(* ------------------------------------------------------------------------------------------ *)
(* StepExpansion: par2fun is the linear map of the 0/1 matrix S (node k takes parameter owner(k)) *)
(* and the geometry gradient used with it (sum over each step) is S^T                           *)
(* ------------------------------------------------------------------------------------------ *)
Lemma qdot_map_map {A} (a g : A -> Qc) l : qdot (map a l) (map g l) = qsumv (map (fun k => a k * g k) l).
Proof. unfold qdot. induction l as [|x l IH]; simpl; [reflexivity|]. rewrite IH. reflexivity. Qed.

Lemma qsumv_filter (a : nat -> Qc) P l : qsumv (map (fun k => a k * ind (P k)) l) = qsumv (map a (filter P l)).
Proof.
  induction l as [|x l IH]; simpl; [reflexivity|]. rewrite IH. destruct (P x); simpl; unfold ind; ring.
Qed.

Lemma qsumv_indicator (a : nat -> Qc) j n s :
  qsumv (map (fun i => ind (Nat.eqb j i) * a i) (seq s n)) = if (s <=? j)%nat && (j <? s + n)%nat then a j else 0.
Proof.
  revert s; induction n as [|n IH]; intros s.
  - cbn [seq map]. destruct (s <=? j)%nat eqn:E1; cbn [andb]; [|reflexivity].
    destruct (j <? s + 0)%nat eqn:E2; [|reflexivity]. apply Nat.leb_le in E1. apply Nat.ltb_lt in E2. lia.
  - change (seq s (S n)) with (s :: seq (S s) n). cbn [map]. unfold qsumv in *. cbn [fold_right]. rewrite IH.
    replace (S s + n)%nat with (s + S n)%nat by lia.
    destruct (Nat.eqb j s) eqn:Ej; [apply Nat.eqb_eq in Ej | apply Nat.eqb_neq in Ej];
    destruct (s <=? j)%nat eqn:E1; [apply Nat.leb_le in E1 | apply Nat.leb_gt in E1 | apply Nat.leb_le in E1 | apply Nat.leb_gt in E1];
    (destruct (S s <=? j)%nat eqn:E2; [apply Nat.leb_le in E2 | apply Nat.leb_gt in E2]);
    (destruct (j <? s + S n)%nat eqn:E3; [apply Nat.ltb_lt in E3 | apply Nat.ltb_ge in E3]);
    try lia; cbn [andb]; unfold ind; try subst s; ring.
Qed.

Lemma map_nth_seq_gen {A} (d : A) (l : list A) : map (fun j => nth j l d) (seq 0 (length l)) = l.
Proof.
  induction l as [|a l IH]; [reflexivity|].
  cbn [length seq map]. rewrite <- seq_shift, map_map. cbn [nth]. rewrite IH. reflexivity.
Qed.

Lemma nth_map_seq (f : nat -> Qc) n i d : (i < n)%nat -> nth i (map f (seq 0 n)) d = f i.
Proof.
  intros H. rewrite (nth_indep _ d (f 0%nat)) by (rewrite map_length, seq_length; exact H).
  rewrite map_nth, seq_nth by exact H. reflexivity.
Qed.

Lemma qsumv_zero {A} (a : A -> Qc) l : qsumv (map (fun i => ind false * a i) l) = 0.
Proof.
  unfold qsumv. induction l as [|x l IH]; cbn [map fold_right]; [reflexivity|]. rewrite IH. unfold ind. ring.
Qed.

Lemma step_owner_bound idx k i0 acc j :
  step_owner idx k i0 acc = Some j -> (acc = Some j \/ (i0 <= j < i0 + length idx)%nat).
Proof.
  revert i0 acc; induction idx as [|s r IH]; intros i0 acc H; simpl in H.
  - left. exact H.
  - apply IH in H. destruct H as [H|H]; [|right; simpl; lia].
    destruct (existsb (Nat.eqb k) s); [inversion H; subst; right; simpl; lia | left; exact H].
Qed.

Lemma step_jac_wf nfun idx : wf_mat (length idx) (step_jac nfun idx).
Proof.
  unfold wf_mat, step_jac. apply Forall_forall. intros row Hin. apply in_map_iff in Hin as (k & <- & _).
  rewrite map_length, seq_length. reflexivity.
Qed.

Lemma step_jac_length nfun idx : length (step_jac nfun idx) = nfun.
Proof. unfold step_jac. rewrite map_length, seq_length. reflexivity. Qed.

(* par2fun p = S p *)
Theorem step_par2fun_is_matvec nfun idx p : length p = length idx ->
  step_par2fun nfun idx p = qmatvec (step_jac nfun idx) p.
Proof.
  intros Hp. unfold step_par2fun, qmatvec, matvec, step_jac. rewrite map_map. apply map_ext. intros k.
  transitivity (qdot (map (fun i => ind (owner_is idx k i)) (seq 0 (length idx))) (map (fun i => nth i p 0) (seq 0 (length idx))));
    [| unfold qdot; f_equal; rewrite <- Hp; apply map_nth_seq].
  rewrite qdot_map_map.
  unfold owner_is. destruct (step_owner idx k 0 None) as [j|] eqn:Eo.
  - rewrite (qsumv_indicator (fun i => nth i p 0) j (length idx) 0).
    apply step_owner_bound in Eo as [Eo|Eo]; [discriminate|].
    assert (H1 : (0 <=? j)%nat = true) by (apply Nat.leb_le; lia).
    assert (H2 : (j <? 0 + length idx)%nat = true) by (apply Nat.ltb_lt; lia).
    rewrite H1, H2. reflexivity.
  - symmetry. apply qsumv_zero.
Qed.

(* sum over each step = S^T v *)
Theorem step_gradient_is_transpose nfun idx v w : step_wf nfun idx = true -> length v = nfun ->
  ggrad_apply (GGStepSum idx) v w = qmattvec (length idx) (step_jac nfun idx) v.
Proof.
  intros Hwf Hv.
  rewrite <- vecmat_is_mattvec by (try apply step_jac_wf; rewrite step_jac_length; exact Hv).
  unfold ggrad_apply, vecmat.
  transitivity (map (fun i => qsumv (map (nthq v) (nth i idx []))) (seq 0 (length idx))).
  { rewrite <- (map_map (fun i => nth i idx []) (fun s => qsumv (map (nthq v) s))), map_nth_seq_gen. reflexivity. }
  apply map_ext_in. intros i Hi. apply in_seq in Hi.
  unfold step_wf in Hwf. rewrite forallb_forall in Hwf.
  specialize (Hwf i (proj2 (in_seq _ _ _) Hi)). apply natl_eqb_eq in Hwf.
  replace (nth i idx []) with (filter (fun k => owner_is idx k i) (seq 0 nfun)) by (symmetry; exact Hwf).
  unfold col, step_jac. rewrite map_map.
  transitivity (qdot (map (fun k => nth k v 0) (seq 0 nfun)) (map (fun k => ind (owner_is idx k i)) (seq 0 nfun))).
  - rewrite qdot_map_map, qsumv_filter. reflexivity.
  - unfold qdot. f_equal.
    + rewrite <- Hv. apply map_nth_seq.
    + apply map_ext. intros k.
      symmetry. apply (nth_map_seq (fun i0 => ind (owner_is idx k i0))). lia.
Qed.

(* StepExpansion domain geometry with the step-sum gradient attached *)
Definition step_geo (dg : geo) (nfun : nat) (idx : list (list nat)) (pj : proj) (sq : bool) : Prop :=
  g_cls dg = KStep /\ g_conv dg = CvStep nfun idx pj sq /\ g_map dg = None /\ g_grad dg = Some (GGStepSum idx).

(* chain rule through a StepExpansion domain: J = J_F(S w) S, gradient = J^T direction; no law assumed *)
Theorem gradient_chain_step q gf rg dg n A csF idx pj sq d w :
  poly_gfun gf n A csF -> step_geo dg n idx pj sq -> plain1d (g_cls rg) = true ->
  step_wf n idx = true -> wf_mat n A -> length w = length idx -> length d = length A ->
  gradient q gf rg dg (GiVec d) (GiVec w) true true =
  Ok (OutVec (qmattvec (length idx)
                (qmatmul (length idx) (poly_jac A (pderiv csF) (step_par2fun n idx w)) (step_jac n idx)) d) false).
Proof.
  intros Hgf (Hc & Hv & Hm & Hg) Hr Hwf HA Hw Hd.
  assert (Lw : length (step_par2fun n idx w) = n) by (unfold step_par2fun; rewrite map_length, seq_length; reflexivity).
  destruct (poly_gfun_run gf n A csF d (step_par2fun n idx w) Hgf HA Lw Hd) as (Hgg & flat & sel & Hrun).
  apply (gradient_chain q gf rg dg (GGStepSum idx) d w (step_par2fun n idx w) n (length idx)
                        (poly_jac A (pderiv csF) (step_par2fun n idx w)) (step_jac n idx) flat sel); try assumption.
  - unfold g_par2fun, g_par2fun_gen. rewrite Hc, Hv, Hm. cbn [plain1d conv_par2fun].
    rewrite (proj2 (Nat.eqb_eq _ _) Hw). reflexivity.
  - intros v Lv. apply step_gradient_is_transpose; assumption.
  - rewrite poly_jac_col_scale. apply col_scale_wf; [exact HA|]. unfold pmap. rewrite map_length. exact Lw.
  - apply step_jac_wf.
  - apply step_jac_length.
Qed.

(* a concrete well-formed index family: StepExpansion(4 nodes, 2 steps) *)
Lemma step_wf_example : step_wf 4 [[0;1];[2;3]]%nat = true /\ step_wf 6 [[0;1];[2;3];[4;5]]%nat = true.
Proof. split; reflexivity. Qed.
