(* C15 -- executable model of cuqi.problem.BayesianProblem.MAP / ML / _sampleMapCholesky / _solve_max_point /
   _check_posterior (the glue; numpy's solve / inv are an exact Gauss-Jordan over Qc whose result is CHECKED
   before it is used, numpy's cholesky is a certificate supplied by the harness and checked).
   No proofs in this file. *)
From CV Require Import Base.Tac Base.LinAlg Base.Cmp Base.QcLin.
From Coq Require Import QArith Qcanon Qabs.
From Coq Require String.
Local Open Scope Qc_scope.

Definition qv := list Qc.
Definition qm := list (list Qc).

(* ------------------------------------------------------------------------------------------------
   small matrix helpers (rows = lists)
   ------------------------------------------------------------------------------------------------ *)
Definition qmadd (M N : qm) : qm := map (fun p => qvadd (fst p) (snd p)) (combine M N).
Definition qident (n : nat) : qm := map (fun i => qunit n i) (seq 0 n).
Definition qscalar_mat (n : nat) (c : Qc) : qm := map (fun i => qvscale c (qunit n i)) (seq 0 n).
Definition qdiag (v : qv) : qm := map (fun i => qvscale (nth i v 0) (qunit (length v) i)) (seq 0 (length v)).
(* A C A^T, entry (i,j) = <row_i A, C row_j A> *)
Definition acat (A C : qm) : qm := map (fun ri => qmatvec (map (qmatvec C) A) ri) A.
(* A^T P A, entry (i,j) = sum_k sum_l A[k][i] P[k][l] A[l][j]; n = number of columns of A *)
Definition atpa (n : nat) (A P : qm) : qm :=
  map (fun i => qmattvec n A (qmatvec P (col 0 A i))) (seq 0 n).

(* ------------------------------------------------------------------------------------------------
   exact solve: Gauss-Jordan with pivot search on the augmented rows; the result is only a candidate,
   [qsolve] / [qinv] hand it out after checking  M z = b  /  M X = I  exactly
   ------------------------------------------------------------------------------------------------ *)
Definition qc_is0 (a : Qc) : bool := qc_eqb a 0.

Fixpoint find_pivot (k : nat) (rows : qm) : option (qv * qm) :=
  match rows with
  | [] => None
  | r :: rs => if qc_is0 (nth k r 0)
               then match find_pivot k rs with Some (p, rest) => Some (p, r :: rest) | None => None end
               else Some (r, rs)
  end.

Definition row_elim (k : nat) (p r : qv) : qv := qvsub r (qvscale (nth k r 0) p).

Fixpoint gauss_jordan (fuel k : nat) (done todo : qm) : option qm :=
  match fuel with
  | O => Some done
  | S f => match find_pivot k todo with
           | None => None
           | Some (p, rest) =>
               let p' := qvscale (/ nth k p 0) p in
               gauss_jordan f (S k) (map (row_elim k p') done ++ [p']) (map (row_elim k p') rest)
           end
  end.

Definition solve_candidate (M B : qm) : option qm :=     (* B: one row of right-hand sides per row of M *)
  let n := length M in
  match gauss_jordan n 0 [] (map (fun p => fst p ++ snd p) (combine M B)) with
  | Some rows => Some (map (skipn n) rows)
  | None => None
  end.

Definition qsolve (M : qm) (b : qv) : option qv :=
  match solve_candidate M (map (fun x => [x]) b) with
  | Some X => let z := map (fun r => hd 0 r) X in
              if Nat.eqb (length z) (length b) && qcl_eqb (qmatvec M z) b then Some z else None
  | None => None
  end.

Definition qinv (M : qm) : option qm :=
  let n := length M in
  match solve_candidate M (qident n) with
  | Some X => if qcll_eqb (qmatmul n M X) (qident n) && qcll_eqb (qmatmul n X M) (qident n)
                 && Nat.eqb (length X) n && forallb (fun r => Nat.eqb (length r) n) X then Some X else None
  | None => None
  end.

(* ------------------------------------------------------------------------------------------------
   Gaussian covariance attribute as MAP sees it
   ------------------------------------------------------------------------------------------------ *)
Inductive covform := CScalar (c : Qc) | CVector (v : qv) | CMatrix (M : qm) | CSparse (M : qm).
Inductive gparam := PCov | PPrec | PSqrtcov | PSqrtprec.

(* Gaussian.cov getter: the stored value for cov=...; for the other parameterisations NotImplementedError
   unless compute_cov() was called before (then the computed dense matrix is stored in _cov) *)
Definition cov_getter (p : gparam) (given : covform) (computed : option qm) : option covform :=
  match computed with
  | Some M => Some (CMatrix M)
  | None => match p with PCov => Some given | _ => None end
  end.

Definition cov_size (c : covform) : nat :=
  match c with
  | CScalar _ => 1
  | CVector v => length v
  | CMatrix M => fold_right (fun r s => (length r + s)%nat) 0%nat M
  | CSparse M => fold_right (fun r s => (length (filter (fun a => negb (qc_is0 a)) r) + s)%nat) 0%nat M   (* np.size of a scipy matrix = nnz *)
  end.

(* a scipy-sparse covariance with ONE stored entry passes `np.size(C)==1` and then fails at C.ravel(): AttributeError *)
Definition sparse_single (c : covform) : bool := match c with CSparse _ => Nat.eqb (cov_size c) 1 | _ => false end.

Definition cov_first (c : covform) : Qc :=
  match c with
  | CScalar c => c
  | CVector v => hd 0 v
  | CMatrix M | CSparse M => hd 0 (hd [] M)
  end.

(* what the code holds after "if np.size(C)==1: C = C.ravel()[0]*np.eye(dim)":
   a 1-d array (vector covariance, left as it is) or a 2-d array.
   fixed = true models the repaired code (fixes/C15_vector_cov.diff): 1-d -> np.diag *)
Inductive npcov := NVec (v : qv) | NMat (M : qm).

Definition expand_cov (fixed : bool) (dim : nat) (c : covform) : npcov :=
  if Nat.eqb (cov_size c) 1 then NMat (qscalar_mat dim (cov_first c))
  else match c with
       | CScalar a => NMat (qscalar_mat dim a)
       | CVector v => if fixed then NMat (qdiag v) else NVec v
       | CMatrix M | CSparse M => NMat M
       end.

Inductive outcome := Val (x : qv) | ENotImpl | EValue | ELinAlg | EAttr.

(* ------------------------------------------------------------------------------------------------
   BayesianProblem.MAP, closed-form branch, statement by statement
   ------------------------------------------------------------------------------------------------ *)
Definition map_core (m n : nat) (A : qm) (b x0 : qv) (Ce Cx : npcov) : outcome :=
  if negb (Nat.eqb (length x0) n) then EValue else            (* A@x0 with a length-1 mean and n > 1 *)
  if negb (forallb (fun r => Nat.eqb (length r) n) A) then EValue else
                     (* A@x0 / A@Cx with a stored matrix whose column count is not the parameter dimension
                        (get_matrix() of a matrix model returns the FUNCTION-space matrix whatever the geometry) *)
  let rhs := qvsub b (qmatvec A x0) in
  match Cx with
  | NMat CxM =>
      let M0 := acat A CxM in
      let S := match Ce with
               | NMat CeM => qmadd M0 CeM
               | NVec ce => map (fun row => qvadd row ce) M0          (* broadcasting: ce added to every ROW *)
               end in
      match qsolve S rhs with
      | Some z => Val (qvadd x0 (qmatvec CxM (qmattvec n A z)))
      | None => ELinAlg
      end
  | NVec cx =>
      (* A@cx is a vector; (vector)@A.T needs m = n and gives A (A cx) *)
      if negb (Nat.eqb m n) then EValue else
      let w := qmatvec A (qmatvec A cx) in
      match Ce with
      | NVec _ => ELinAlg                                            (* sysm is 1-d: solve refuses *)
      | NMat CeM =>
          let S := map (fun row => qvadd w row) CeM in
          match qsolve S rhs with
          | Some z => let s := qdot cx (qmattvec n A z) in           (* cx@(A.T@z) is a dot product *)
                      Val (map (fun a => a + s) x0)
          | None => ELinAlg
          end
      end
  end.

Definition map_direct (fixed : bool) (m n : nat) (A : qm) (b x0 : qv) (ce cx : option covform) : outcome :=
  match ce with
  | None => ENotImpl
  | Some ce =>
    match cx with
    | None => ENotImpl
    | Some cx => if sparse_single ce || sparse_single cx then EAttr
                 else map_core m n A b x0 (expand_cov fixed m ce) (expand_cov fixed n cx)
    end
  end.

(* ------------------------------------------------------------------------------------------------
   specification side: posterior precision, right-hand side, mean, covariance (precision form)
   ------------------------------------------------------------------------------------------------ *)
Definition post_prec (n : nat) (A Pe Px : qm) : qm := qmadd (atpa n A Pe) Px.
Definition post_rhs (n : nat) (A Pe Px : qm) (b x0 : qv) : qv :=
  qvadd (qmattvec n A (qmatvec Pe b)) (qmatvec Px x0).
(* gradient of the log-posterior  -1/2 (b-Ax)^T Pe (b-Ax) - 1/2 (x-x0)^T Px (x-x0) *)
Definition post_grad (n : nat) (A Pe Px : qm) (b x0 x : qv) : qv :=
  qvsub (qmattvec n A (qmatvec Pe (qvsub b (qmatvec A x)))) (qmatvec Px (qvsub x x0)).
(* -2 log posterior + const *)
Definition post_q (A Pe Px : qm) (b x0 x : qv) : Qc :=
  let r := qvsub b (qmatvec A x) in let d := qvsub x x0 in
  qdot r (qmatvec Pe r) + qdot d (qmatvec Px d).

Definition dense_of (fixed_meaning : bool) (dim : nat) (c : covform) : qm :=   (* the covariance MEANT by the user *)
  match c with
  | CScalar a => qscalar_mat dim a
  | CVector v => if Nat.eqb (length v) 1 then qscalar_mat dim (hd 0 v) else qdiag v
  | CMatrix M | CSparse M => if Nat.eqb (cov_size c) 1 then qscalar_mat dim (cov_first c) else M
  end.

Definition post_mean_exact (m n : nat) (A : qm) (b x0 : qv) (ce cx : covform) : option qv :=
  match qinv (dense_of true m ce), qinv (dense_of true n cx) with
  | Some Pe, Some Px => qsolve (post_prec n A Pe Px) (post_rhs n A Pe Px b x0)
  | _, _ => None
  end.

Definition post_cov_exact (m n : nat) (A : qm) (ce cx : covform) : option qm :=
  match qinv (dense_of true m ce), qinv (dense_of true n cx) with
  | Some Pe, Some Px => qinv (post_prec n A Pe Px)
  | _, _ => None
  end.

(* weighted least squares = maximiser of the likelihood (full column rank) *)
Definition ml_exact (m n : nat) (A : qm) (b : qv) (ce : covform) : option qv :=
  match qinv (dense_of true m ce) with
  | Some Pe => qsolve (atpa n A Pe) (qmattvec n A (qmatvec Pe b))
  | None => None
  end.

(* ------------------------------------------------------------------------------------------------
   _sampleMapCholesky: x_s = x_map + L z,  L = cholesky(inv(A^T inv(Ce) A + inv(Cx)))
   ------------------------------------------------------------------------------------------------ *)
Definition np_inv (c : covform) (C : npcov) : option qm :=     (* numpy.linalg.inv: refuses 1-d and scipy-sparse input *)
  match c with
  | CSparse M => if Nat.eqb (cov_size c) 1 then match C with NMat M => qinv M | NVec _ => None end else None
  | _ => match C with NMat M => qinv M | NVec _ => None end
  end.

Inductive sample_law := SErr (e : outcome) | SLaw (mu : qv) (C : qm).   (* offset and covariance L L^T *)

Definition sample_direct (fixed : bool) (m n : nat) (A : qm) (b x0 : qv) (ce cx : option covform) : sample_law :=
  match ce with
  | None => SErr ENotImpl
  | Some ce' =>
    match cx with
    | None => SErr ENotImpl
    | Some cx' =>
      if sparse_single ce' || sparse_single cx' then SErr EAttr else
      let Ce := expand_cov fixed m ce' in let Cx := expand_cov fixed n cx' in
      match map_core m n A b x0 Ce Cx with
      | Val mu =>
          match np_inv ce' Ce with
          | None => SErr ELinAlg
          | Some Pe =>
            match np_inv cx' Cx with
            | None => SErr ELinAlg
            | Some Px => match qinv (post_prec n A Pe Px) with
                         | Some C => SLaw mu C
                         | None => SErr ELinAlg
                         end
            end
          end
      | e => SErr e
      end
    end
  end.

(* ------------------------------------------------------------------------------------------------
   route selection: _check_posterior, MAP, sample_posterior (first two branches), _solve_max_point
   ------------------------------------------------------------------------------------------------ *)
Inductive dcls := DGaussian | DGMRF | DLMRF | DCMRF | DLaplace | DCauchy | DRegGaussian | DOther
                | DRegGMRF | DBeta | DInvGamma | DLognormal.
Inductive mcls := MLinear | MGeneral.
Definition dcls_eqb (a b : dcls) : bool :=
  match a, b with
  | DGaussian, DGaussian | DGMRF, DGMRF | DLMRF, DLMRF | DCMRF, DCMRF | DLaplace, DLaplace
  | DCauchy, DCauchy | DRegGaussian, DRegGaussian | DOther, DOther
  | DRegGMRF, DRegGMRF | DBeta, DBeta | DInvGamma, DInvGamma | DLognormal, DLognormal => true
  | _, _ => false
  end.
(* isinstance(obj of class a, b): class equality, plus the one subclass relation among these classes
   (RegularizedGMRF and the Constrained/Nonnegative variants derive from RegularizedGaussian) *)
Definition dcls_isa (a b : dcls) : bool :=
  dcls_eqb a b || match a, b with DRegGMRF, DRegGaussian => true | _, _ => false end.

Record pinfo := { p_prior : dcls; p_lik : dcls; p_model : mcls; p_m : nat; p_n : nat; p_has_grad : bool }.

Definition check_posterior (P : pinfo) (prior lik : option (list dcls)) (model : option mcls)
           (max_dim : option nat) (must_have_gradient : bool) : bool :=
  let okp := match prior with None => true | Some l => existsb (dcls_isa (p_prior P)) l end in
  let okl := match lik with None => true | Some l => existsb (dcls_isa (p_lik P)) l end in
  let okm := match model with None => true
             | Some MLinear => match p_model P with MLinear => true | _ => false end
             | Some MGeneral => true end in
  let okd := match max_dim with None => true | Some d => Nat.leb (p_n P) d && Nat.leb (p_m P) d end in
  let okg := if must_have_gradient then p_has_grad P else true in
  okl && okp && okm && okd && okg.

Inductive route := RDirect | ROptimiser.
Definition map_route (P : pinfo) (max_dim_inv : nat) : route :=
  if check_posterior P (Some [DGaussian]) (Some [DGaussian]) (Some MLinear) (Some max_dim_inv) false
  then RDirect else ROptimiser.

(* sample_posterior: true = the direct (MAP + Cholesky) route *)
Definition sample_route_direct (P : pinfo) (max_dim_inv : nat) : bool :=
  check_posterior P (Some [DGaussian]) (Some [DGaussian]) (Some MLinear) (Some max_dim_inv) false
  && negb (check_posterior P (Some [DGMRF]) None None None false).

(* sample_posterior: the whole cascade.  joint = the target is still a JointDistribution;
   prior_sptm = hasattr(prior, "sqrtprecTimesMean"); lik_sqrtprec = hasattr(likelihood.distribution, "sqrtprec") *)
Inductive sampler_choice := SGibbs | SMapCholesky | SLinearRTO | SUGLA | SNUTS | SpCN | SRegLinearRTO | SNotImplemented
                         | SProbeRaises.
Definition sample_route (joint : bool) (P : pinfo) (prior_sptm lik_sqrtprec : bool) (max_dim_inv : nat) : sampler_choice :=
  if joint then SGibbs else
  if sample_route_direct P max_dim_inv then SMapCholesky else
  if prior_sptm && lik_sqrtprec && (match p_model P with MLinear => true | MGeneral => false end) then SLinearRTO else
  if check_posterior P (Some [DLMRF]) (Some [DGaussian]) None None false then SUGLA else
  if check_posterior P None None None None true
     && negb (check_posterior P (Some [DBeta; DInvGamma; DLognormal]) None None None false) then SNUTS else
  if check_posterior P (Some [DGaussian; DGMRF]) (Some [DGaussian]) None None false then SpCN else
  if check_posterior P (Some [DRegGaussian; DRegGMRF]) (Some [DGaussian]) (Some MLinear) None false then SRegLinearRTO
  else SNotImplemented.

Inductive solver := SMinimize | SLBFGSB.
(* _solve_max_point: (solver class, gradient function handed over?, starting point) *)
Definition solve_max_point_setup (P : pinfo) (density_has_grad : bool) (x0 : option qv) : solver * bool * qv :=
  ((if check_posterior P (Some [DCMRF]) None None None true then SLBFGSB else SMinimize),
   density_has_grad,
   match x0 with Some v => v | None => repeat 1 (p_n P) end).

(* ------------------------------------------------------------------------------------------------
   comparison with what the implementation did (observed values enter as exact rationals)
   ------------------------------------------------------------------------------------------------ *)
Definition tol8 : Q := 1 # 100000000.
Definition tol4 : Q := 1 # 10000.

Inductive obs := OVal (x : list Q) | ONotImpl | OValue | OLinAlg | OOther | OAttr.

Definition outcome_matches (tol : Q) (o : outcome) (w : obs) : bool :=
  match o, w with
  | Val x, OVal y => qcl_close tol (qvec y) x
  | ENotImpl, ONotImpl | EValue, OValue | ELinAlg, OLinAlg | EAttr, OAttr => true
  | _, _ => false
  end.

Definition mk_cov (kind : nat) (s : Q) (v : list Q) (M : list (list Q)) : covform :=
  match kind with
  | 0%nat => CScalar (qc s) | 1%nat => CVector (qvec v) | 2%nat => CMatrix (qmat M) | _ => CSparse (qmat M)
  end.

Definition mk_param (k : nat) : gparam :=
  match k with 0%nat => PCov | 1%nat => PPrec | 2%nat => PSqrtcov | _ => PSqrtprec end.

(* Gaussian.compute_cov(): the dense covariance, from the stored argument for cov=..., otherwise the inverse of the
   precision sqrtprec^T sqrtprec the LOG-DENSITY uses: prec=P -> P^-1; sqrtprec=R (stored as given) -> (R^T R)^-1;
   sqrtcov=R -> the code's convention cov = R R^T (C04 finding Gaussian.sqrtcov|dense-non-normal) *)
Definition sq_of (dim : nat) (c : covform) : qm := dense_of true dim c.      (* scalar -> c I, vector -> diag, matrix *)
Definition compute_cov_model (p : gparam) (dim : nat) (c : covform) : option qm :=
  let M := sq_of dim c in
  match p with
  | PCov => Some M
  | PPrec => qinv M
  | PSqrtcov => Some (qmatmul dim M (qtranspose dim M))
  | PSqrtprec => qinv (qmatmul dim (qtranspose dim M) M)
  end.

(* one Gaussian as the harness describes it: (parameterisation, kind, scalar, vector, matrix, computed cov) *)
Record gdesc := { gd_param : nat; gd_kind : nat; gd_s : Q; gd_v : list Q; gd_M : list (list Q);
                  gd_computed : option (list (list Q)) }.
(* gd_computed = Some _ records that compute_cov() was called before the estimate; the value MAP then reads from .cov is
   the MODEL's compute_cov (the observed one is compared separately by check_compute_cov, not trusted) *)
Definition gd_cov (dim : nat) (g : gdesc) : option covform :=
  let c := mk_cov (gd_kind g) (gd_s g) (gd_v g) (gd_M g) in
  cov_getter (mk_param (gd_param g)) c
             (match gd_computed g with Some _ => compute_cov_model (mk_param (gd_param g)) dim c | None => None end).

Definition check_compute_cov (dim : nat) (g : gdesc) (returned_is_cov : bool) : bool :=
  match gd_computed g, compute_cov_model (mk_param (gd_param g)) dim (mk_cov (gd_kind g) (gd_s g) (gd_v g) (gd_M g)) with
  | Some obs, Some M => qcll_close tol8 (qmat obs) M && returned_is_cov
  | _, _ => false
  end.

Definition check_map (fixed : bool) (m n : nat) (A : list (list Q)) (b x0 : list Q) (ge gx : gdesc) (w : obs) : bool :=
  outcome_matches tol8 (map_direct fixed m n (qmat A) (qvec b) (qvec x0) (gd_cov m ge) (gd_cov n gx)) w.

Definition is_lower (L : qm) : bool :=
  forallb (fun p => forallb qc_is0 (skipn (S (fst p)) (snd p))) (combine (seq 0 (length L)) L).
Definition diag_pos (L : qm) : bool :=
  forallb (fun p => negb (Qle_bool (this (nth (fst p) (snd p) 0)) 0%Q)) (combine (seq 0 (length L)) L).

(* observed: offset (draw with z = 0), the matrix L read off from the draws with z = e_i (rows of L),
   one further script z with its draw s *)
Definition check_sample (fixed : bool) (m n : nat) (A : list (list Q)) (b x0 : list Q) (ge gx : gdesc)
           (err : obs) (mu : list Q) (L : list (list Q)) (z s : list Q) : bool :=
  match sample_direct fixed m n (qmat A) (qvec b) (qvec x0) (gd_cov m ge) (gd_cov n gx) with
  | SErr e => outcome_matches tol8 e err
  | SLaw mu' C =>
      match err with
      | OVal _ =>
          let Lq := qmat L in
          qcl_close tol8 (qvec mu) mu' && is_lower Lq && diag_pos Lq
          && Nat.eqb (length Lq) n
          && qcll_close tol8 (qmatmul n Lq (qtranspose n Lq)) C
          && qcl_close tol8 (qvec s) (qvadd (qvec mu) (qmatvec Lq (qvec z)))
      | _ => false
      end
  end.

(* optimiser route on a linear-Gaussian problem: the returned point is the exact posterior mean / the exact
   weighted-least-squares solution up to tol4 (scipy's gradient tolerance is 1e-5) *)
Definition check_opt_map (m n : nat) (A : list (list Q)) (b x0 : list Q) (ge gx : gdesc) (x : list Q) : bool :=
  match post_mean_exact m n (qmat A) (qvec b) (qvec x0)
          (mk_cov (gd_kind ge) (gd_s ge) (gd_v ge) (gd_M ge)) (mk_cov (gd_kind gx) (gd_s gx) (gd_v gx) (gd_M gx)) with
  | Some xm => qcl_close tol4 (qvec x) xm
  | None => false
  end.

Definition check_opt_ml (m n : nat) (A : list (list Q)) (b : list Q) (ge : gdesc) (x : list Q) : bool :=
  match ml_exact m n (qmat A) (qvec b) (mk_cov (gd_kind ge) (gd_s ge) (gd_v ge) (gd_M ge)) with
  | Some xm => qcl_close tol4 (qvec x) xm
  | None => false
  end.

Definition mk_dcls (k : nat) : dcls :=
  match k with 0%nat => DGaussian | 1%nat => DGMRF | 2%nat => DLMRF | 3%nat => DCMRF | 4%nat => DLaplace
             | 5%nat => DCauchy | 6%nat => DRegGaussian | 8%nat => DRegGMRF | 9%nat => DBeta | 10%nat => DInvGamma
             | 11%nat => DLognormal | _ => DOther end.
Definition mk_pinfo (prior lik : nat) (linear : bool) (m n : nat) (has_grad : bool) : pinfo :=
  {| p_prior := mk_dcls prior; p_lik := mk_dcls lik; p_model := if linear then MLinear else MGeneral;
     p_m := m; p_n := n; p_has_grad := has_grad |}.

(* observed: MAP took the direct branch?  sample_posterior took _sampleMapCholesky? *)
Definition check_routes (P : pinfo) (max_dim_inv : nat) (map_was_direct sample_was_direct : bool) : bool :=
  Bool.eqb (match map_route P max_dim_inv with RDirect => true | ROptimiser => false end) map_was_direct
  && Bool.eqb (sample_route_direct P max_dim_inv) sample_was_direct.

(* observed from a recording stub solver: which class was built, was a gradient handed over, the start point,
   and MAP/ML return exactly the stub's point with info["solver"] = "L-BFGS-B" *)
Definition check_setup (P : pinfo) (density_has_grad : bool) (x0 : option (list Q))
           (lbfgs grad_passed : bool) (start : list Q) (returned_is_solver_point label_ok : bool) : bool :=
  let '(s, g, st) := solve_max_point_setup P density_has_grad (match x0 with Some v => Some (qvec v) | None => None end) in
  Bool.eqb (match s with SLBFGSB => true | SMinimize => false end) lbfgs
  && Bool.eqb g grad_passed && qcl_eqb st (qvec start) && returned_is_solver_point && label_ok.

(* observed: the index of the _sample* method sample_posterior called (7 = NotImplementedError raised) *)
Definition sampler_index (c : sampler_choice) : nat :=
  match c with SGibbs => 0 | SMapCholesky => 1 | SLinearRTO => 2 | SUGLA => 3 | SNUTS => 4 | SpCN => 5
             | SRegLinearRTO => 6 | SNotImplemented => 7 | SProbeRaises => 8 end%nat.
Definition check_cascade (joint : bool) (P : pinfo) (prior_sptm lik_sqrtprec : bool) (max_dim_inv observed : nat) : bool :=
  Nat.eqb (sampler_index (sample_route joint P prior_sptm lik_sqrtprec max_dim_inv)) observed.

(* scale-free comparison for the magnitude sweep: every component within tol * max_i |model_i| *)
Definition qmaxabs (v : list Qc) : Q := fold_right (fun a m => if Qle_bool m (Qabs (this a)) then Qabs (this a) else m) 0%Q v.
Definition qcl_relclose (tol : Q) (observed model : list Qc) : bool :=
  Nat.eqb (length observed) (length model) &&
  forallb (fun p => Qle_bool (Qabs (this (fst p) - this (snd p))) (tol * qmaxabs model)) (combine observed model).
Definition check_map_rel (fixed : bool) (m n : nat) (A : list (list Q)) (b x0 : list Q) (ge gx : gdesc) (w : list Q) : bool :=
  match map_direct fixed m n (qmat A) (qvec b) (qvec x0) (gd_cov m ge) (gd_cov n gx) with
  | Val x => qcl_relclose tol8 (qvec w) x
  | _ => false
  end.

(* ------------------------------------------------------------------------------------------------
   the public entry points with their optional arguments
   ------------------------------------------------------------------------------------------------ *)
(* MAP(disp, x0): in the closed-form branch `x0 = self.prior.mean` REBINDS the name, the caller's initial guess is not read;
   disp only prints *)
Definition map_entry (fixed : bool) (m n : nat) (A : qm) (b prior_mean : qv) (x0arg : option qv) (disp : bool)
           (ce cx : option covform) : outcome :=
  map_direct fixed m n A b prior_mean ce cx.

(* ML(disp, x0) has no closed-form branch: always _solve_max_point on the likelihood *)
Definition ml_route (P : pinfo) (max_dim_inv : nat) : route := ROptimiser.

(* observed: the entry point returned with info["solver"] = "direct" (label 0) / "L-BFGS-B" (label 1) / other (2),
   and whether a cuqi.solver object was built and run *)
Definition check_entry_route (is_ml : bool) (P : pinfo) (max_dim_inv : nat) (label : nat) (solver_ran : bool) : bool :=
  match (if is_ml then ml_route P max_dim_inv else map_route P max_dim_inv) with
  | RDirect => Nat.eqb label 0 && negb solver_ran
  | ROptimiser => Nat.eqb label 1 && solver_ran
  end.

Definition check_map_entry (fixed : bool) (m n : nat) (A : list (list Q)) (b x0 : list Q) (x0arg : option (list Q)) (disp : bool)
           (ge gx : gdesc) (w : obs) : bool :=
  outcome_matches tol8 (map_entry fixed m n (qmat A) (qvec b) (qvec x0)
                          (match x0arg with Some v => Some (qvec v) | None => None end) disp (gd_cov m ge) (gd_cov n gx)) w.

(* under-determined full-row-rank systems: the likelihood is maximal exactly on { x : A x = b } *)
Definition check_ml_under (A : list (list Q)) (b x : list Q) : bool := qcl_close tol4 (qmatvec (qmat A) (qvec x)) (qvec b).

(* the gradient probe of branch 5 (posterior.gradient at zeros) may raise something other than NotImplementedError /
   AttributeError (a Cauchy likelihood: TypeError): sample_posterior then fails -- but only if the cascade gets that far *)
Definition sample_route_x (joint : bool) (P : pinfo) (prior_sptm lik_sqrtprec : bool) (max_dim_inv : nat) (probe_raises : bool)
  : sampler_choice :=
  match sample_route joint P prior_sptm lik_sqrtprec max_dim_inv with
  | SGibbs => SGibbs | SMapCholesky => SMapCholesky | SLinearRTO => SLinearRTO | SUGLA => SUGLA
  | r => if probe_raises then SProbeRaises else r
  end.
Definition check_cascade_x (joint : bool) (P : pinfo) (prior_sptm lik_sqrtprec : bool) (max_dim_inv : nat) (probe_raises : bool)
           (observed : nat) : bool :=
  Nat.eqb (sampler_index (sample_route_x joint P prior_sptm lik_sqrtprec max_dim_inv probe_raises)) observed.

(* ------------------------------------------------------------------------------------------------
   the hand-over to the chosen sampler: class, constructor arguments, run protocol, what is returned
   ------------------------------------------------------------------------------------------------ *)
Inductive run_call := RSample (ns nb : nat) | RSampleAdapt (ns nb : nat) | RWarmup (nb : nat) | RSampleN (ns : nat)
                    | RGetSamples | RBurnthin (nb : nat).
Definition run_call_eqb (a b : run_call) : bool :=
  match a, b with
  | RSample x y, RSample x' y' | RSampleAdapt x y, RSampleAdapt x' y' => Nat.eqb x x' && Nat.eqb y y'
  | RWarmup x, RWarmup x' | RSampleN x, RSampleN x' | RBurnthin x, RBurnthin x' => Nat.eqb x x'
  | RGetSamples, RGetSamples => true
  | _, _ => false
  end.
(* Nb = None: int(0.2*Ns) *)
Definition burnin (ns : nat) (nb : option nat) : nat := match nb with Some b => b | None => Nat.div ns 5 end.

Record handover := { h_experimental_module : bool;   (* class looked up in cuqi.experimental.mcmc, else cuqi.sampler *)
                     h_class : nat;                  (* sampler_index of the class; pCN is `pCN` / `PCN` *)
                     h_scale : option Q;             (* extra positional argument (pCN: 0.02) *)
                     h_regopts : bool;               (* maxit=100, stepsize="automatic", abstol=1e-10 *)
                     h_calls : list run_call }.
Definition handover_model (c : sampler_choice) (experimental : bool) (ns : nat) (nb : option nat) : option handover :=
  let b := burnin ns nb in
  let proto (adapt : bool) := if experimental then [RWarmup b; RSampleN ns; RGetSamples; RBurnthin b]
                              else if adapt then [RSampleAdapt ns b] else [RSample ns b] in
  match c with
  | SLinearRTO => Some {| h_experimental_module := experimental; h_class := 2; h_scale := None; h_regopts := false; h_calls := proto false |}
  | SUGLA => Some {| h_experimental_module := experimental; h_class := 3; h_scale := None; h_regopts := false; h_calls := proto false |}
  | SNUTS => Some {| h_experimental_module := experimental; h_class := 4; h_scale := None; h_regopts := false; h_calls := proto true |}
  | SpCN => Some {| h_experimental_module := experimental; h_class := 5; h_scale := Some (5764607523034235 # 288230376151711744)%Q (* the float literal 0.02 *); h_regopts := false; h_calls := proto true |}
  | SRegLinearRTO => Some {| h_experimental_module := experimental; h_class := 6; h_scale := None; h_regopts := true; h_calls := proto false |}
  | _ => None
  end.
(* observed from recording stub classes: module, class, positional scale, the three fixed options, the calls made on the
   sampler object in order; and three booleans: target is the problem's posterior, callback is the caller's, the value
   returned by sample_posterior is what the last call returned *)
Definition check_handover (c_obs : nat) (experimental : bool) (ns : nat) (nb : option nat)
           (o_exp : bool) (o_class : nat) (o_scale : option Q) (o_regopts : bool) (o_calls : list run_call)
           (target_ok callback_ok returned_ok : bool) : bool :=
  let c := match c_obs with 2%nat => SLinearRTO | 3%nat => SUGLA | 4%nat => SNUTS | 5%nat => SpCN | 6%nat => SRegLinearRTO | _ => SGibbs end in
  match handover_model c experimental ns nb with
  | Some h => Bool.eqb (h_experimental_module h) o_exp && Nat.eqb (h_class h) o_class
              && opt_eqb Qeq_bool (h_scale h) o_scale && Bool.eqb (h_regopts h) o_regopts
              && list_eqb run_call_eqb (h_calls h) o_calls && target_ok && callback_ok && returned_ok
  | None => false
  end.

(* rank-deficient systems: the maximisers of the likelihood are exactly the solutions of the normal equations
   A^T Pe A x = A^T Pe b (Props: C15_concave_stationary_iff_maximiser) -- the returned point must satisfy them *)
Definition check_ml_stationary (m n : nat) (A : list (list Q)) (b : list Q) (ge : gdesc) (x : list Q) : bool :=
  match qinv (dense_of true m (mk_cov (gd_kind ge) (gd_s ge) (gd_v ge) (gd_M ge))) with
  | Some Pe => qcl_close tol4 (qmatvec (atpa n (qmat A) Pe) (qvec x)) (qmattvec n (qmat A) (qmatvec Pe (qvec b)))
  | None => false
  end.

(* the hypotheses of C15_closed_form_equals_posterior_mean, decided on the instance that runs: shapes, checked inverses of
   both covariances, symmetry of the noise precision, a checked inverse of the posterior precision *)
Definition shape_ok (r c : nat) (M : qm) : bool := Nat.eqb (length M) r && forallb (fun row => Nat.eqb (length row) c) M.
Definition hyps_ok (m n : nat) (A : qm) (b : qv) (ce cx : covform) : bool :=
  let Ce := dense_of true m ce in let Cx := dense_of true n cx in
  shape_ok m n A && shape_ok m m Ce && shape_ok n n Cx && Nat.eqb (length b) m &&
  match qinv Ce, qinv Cx with
  | Some Pe, Some Px => qcll_eqb (qtranspose m Pe) Pe
                        && match qinv (post_prec n A Pe Px) with Some _ => true | None => false end
  | _, _ => false
  end.
Definition check_hyps (m n : nat) (A : list (list Q)) (b : list Q) (ge gx : gdesc) : bool :=
  match gd_cov m ge, gd_cov n gx with
  | Some ce, Some cx => hyps_ok m n (qmat A) (qvec b) ce cx
  | _, _ => false
  end.

(* ------------------------------------------------------------------------------------------------
   positive semi-definiteness as a checked certificate: symmetric elimination without pivoting gives an upper factor U
   with P = U^T diag(1/u_kk) U; the model accepts only after checking that identity exactly and u_kk > 0
   ------------------------------------------------------------------------------------------------ *)
Fixpoint elim_sym (fuel : nat) (M : qm) : option qm :=
  match fuel with
  | O => Some []
  | S f =>
    match M with
    | [] => Some []
    | r :: rest =>
      match r with
      | [] => None
      | a :: _ =>
        if Qle_bool (this a) 0 then None else
        let sub := map (fun ri => tl (qvsub ri (qvscale (hd 0 ri / a) r))) rest in
        match elim_sym f sub with
        | Some U' => Some (r :: map (cons 0) U')
        | None => None
        end
      end
    end
  end.
Definition scale_rows (ws : qv) (U : qm) : qm := map (fun p => qvscale (fst p) (snd p)) (combine ws U).
Definition diag_of (U : qm) : qv := map (fun p => nth (fst p) (snd p) 0) (combine (seq 0 (length U)) U).
Definition all_pos (ws : qv) : bool := forallb (fun w => negb (Qle_bool (this w) 0)) ws.
(* certificate of positive semi-definiteness: P = U^T diag(ws) U with ws > 0, checked exactly *)
Definition psd_cert (n : nat) (P : qm) : bool :=
  match elim_sym n P with
  | Some U => let ws := map (fun d => / d) (diag_of U) in
              all_pos ws && Nat.eqb (length U) n && forallb (fun r => Nat.eqb (length r) n) U
              && qcll_eqb (qmatmul n (qtranspose n U) (scale_rows ws U)) P
  | None => false
  end.


(* every hypothesis of C15_closed_form_is_posterior_mode's maximality clause, decided on the instance that runs *)
Definition mode_hyps_ok (m n : nat) (A : qm) (b : qv) (ce cx : covform) : bool :=
  hyps_ok m n A b ce cx &&
  match qinv (dense_of true m ce), qinv (dense_of true n cx) with
  | Some Pe, Some Px => qcll_eqb (qtranspose n Px) Px && psd_cert m Pe && psd_cert n Px
  | _, _ => false
  end.
Definition check_mode_hyps (m n : nat) (A : list (list Q)) (b : list Q) (ge gx : gdesc) : bool :=
  match gd_cov m ge, gd_cov n gx with
  | Some ce, Some cx => mode_hyps_ok m n (qmat A) (qvec b) ce cx
  | _, _ => false
  end.

(* the square-root precision a Gaussian DERIVES from its argument (dense Cholesky branch, or the eigen-decomposition branch
   for dim > MIN_DIM_SPARSE): whatever factor R is stored, R^T R -- the precision logd and the gradients use -- must be the
   inverse of the covariance compute_cov_model describes.  observed = R^T R formed by the harness from .sqrtprec *)
Definition precision_model (p : gparam) (dim : nat) (c : covform) : option qm :=
  match p with
  | PPrec => Some (sq_of dim c)
  | PSqrtprec => Some (qmatmul dim (qtranspose dim (sq_of dim c)) (sq_of dim c))
  | _ => match compute_cov_model p dim c with Some C => qinv C | None => None end
  end.
Definition check_precision (dim : nat) (g : gdesc) (observed : list (list Q)) : bool :=
  match precision_model (mk_param (gd_param g)) dim (mk_cov (gd_kind g) (gd_s g) (gd_v g) (gd_M g)) with
  | Some P => qcll_close tol8 (qmat observed) P
  | None => false
  end.

(* ------------------------------------------------------------------------------------------------
   life cycle of the refusal: the .cov getter of a Gaussian given by prec / sqrtcov / sqrtprec refuses in EVERY state except
   "compute_cov() called since the last assignment of the defining attribute"; reads, refused calls and successful estimates
   do not change that state
   ------------------------------------------------------------------------------------------------ *)
Inductive life_op := LMap | LSample | LRead | LComputeCov | LReassign.
Inductive life_obs := LValue | LRefused | LNone.
Definition life_obs_eqb (a b : life_obs) : bool :=
  match a, b with LValue, LValue | LRefused, LRefused | LNone, LNone => true | _, _ => false end.
Fixpoint life_run (computed : bool) (ops : list life_op) : list life_obs :=
  match ops with
  | [] => []
  | LMap :: r | LSample :: r => (if computed then LValue else LRefused) :: life_run computed r
  | LRead :: r => LNone :: life_run computed r
  | LComputeCov :: r => LNone :: life_run true r
  | LReassign :: r => LNone :: life_run false r
  end.
Definition mk_life_op (k : nat) : life_op :=
  match k with 0%nat => LMap | 1%nat => LSample | 2%nat => LRead | 3%nat => LComputeCov | _ => LReassign end.
Definition mk_life_obs (k : nat) : life_obs := match k with 0%nat => LValue | 1%nat => LRefused | _ => LNone end.
Definition check_life (ops obs : list nat) : bool :=
  list_eqb life_obs_eqb (life_run false (map mk_life_op ops)) (map mk_life_obs obs).

(* composite targets: MAP / ML exist only for a Posterior (one likelihood, data set); every other target -- several
   likelihoods, a joint with hyper-parameters -- is refused with ValueError, and sampling goes to the Gibbs branch *)
Inductive target_kind := TPosterior | TMultiLik | TJoint.
Definition entry_refused (k : target_kind) : bool := match k with TPosterior => false | _ => true end.
Definition check_composite (kind : nat) (map_refused ml_refused sample_gibbs uq_gibbs : bool) : bool :=
  let k := match kind with 0%nat => TPosterior | 1%nat => TMultiLik | _ => TJoint end in
  Bool.eqb (entry_refused k) map_refused && Bool.eqb (entry_refused k) ml_refused
  && Bool.eqb (entry_refused k) sample_gibbs && Bool.eqb (entry_refused k) uq_gibbs.
