(* C10 -- conjugate and direct samplers: executable model (no proofs here).

   Anchors: cuqi/experimental/mcmc/_conjugate.py, _conjugate_approx.py, _direct.py and the legacy
   cuqi/sampler/_conjugate.py, _conjugate_approx.py.

   Contents
     1. the dependence of a mutable variable on the hyper-parameter, as a small expression language
        (the harness builds the very same Python lambda from the same tree)
     2. the two three-point probes  _check_conjugate_parameter_is_scalar_identity / _reciprocal
     3. _get_conjugate_parameter and validate_target of both interfaces (order of checks as in the code)
     4. the parameters of the Gamma the samplers draw from, over an abstract carrier (instantiated at Q
        here for running and at R in Model/C10_ConjR.v for the theorems: ONE transcription of the formula)
     5. Direct.step
     6. check_* functions used by the generated case files *)
From CV Require Import Base.Tac Base.LinAlg Base.Cmp.
From Coq Require Import QArith Qabs Qminmax.
From Coq Require String.
Open Scope Q_scope.

Module C10Str.
  Import String. Local Open Scope string_scope.
  Definition s_cov : string := "cov".
  Definition s_prec : string := "prec".
  Definition s_scale : string := "scale".
  Definition s_empty : string := "".
End C10Str.
Export C10Str.

(* ------------------------------------------------------------------------------------------ *)
(* 1. dependence expressions                                                                   *)
(* ------------------------------------------------------------------------------------------ *)

Inductive dexp :=
| DVar                      (* the hyper-parameter *)
| DConst (c : Q)
| DAdd (a b : dexp)
| DSub (a b : dexp)
| DMul (a b : dexp)
| DInv (a : dexp).           (* 1 / a *)

Fixpoint deval (e : dexp) (s : Q) : Q :=
  match e with
  | DVar => s
  | DConst c => c
  | DAdd a b => deval a s + deval b s
  | DSub a b => deval a s - deval b s
  | DMul a b => deval a s * deval b s
  | DInv a => / deval a s
  end.

(* the value a callable returns: a scalar is a singleton, an array is the list of its entries *)
Definition fval := list dexp.

(* ------------------------------------------------------------------------------------------ *)
(* 2. the probes                                                                               *)
(* ------------------------------------------------------------------------------------------ *)

Definition probe_pts : list Q := [1; 10; 100].
Definition np_rtol : Q := 1 # 100000.          (* numpy.allclose defaults *)
Definition np_atol : Q := 1 # 100000000.
Definition py_reltol : Q := 1 # 1000000000.    (* math.isclose default rel_tol, abs_tol = 0 *)

(* numpy.allclose(a, b) on one entry:  |a - b| <= atol + rtol * |b| *)
Definition allclose1 (a b : Q) : bool := Qle_bool (Qabs (a - b)) (np_atol + np_rtol * Qabs b).
(* math.isclose(a, b):  |a - b| <= max(rel_tol * max(|a|, |b|), 0) *)
Definition isclose1 (a b : Q) : bool :=
  Qle_bool (Qabs (a - b)) (Qmax (py_reltol * Qmax (Qabs a) (Qabs b)) 0).

(* all(np.allclose(f(x), x) for x in [1.0, 10.0, 100.0]) -- broadcasting: every entry against x *)
Definition probe_identity (f : fval) : bool :=
  forallb (fun x => forallb (fun e => allclose1 (deval e x) x) f) probe_pts.

Inductive probe_res := PTrue | PFalse | PTypeError.

(* all(math.isclose(f(x), 1.0 / x) for x in [1.0, 10.0, 100.0]) -- math.isclose converts its argument with
   float(): TypeError unless f(x) has exactly one entry; `all` over a generator stops at the first False,
   and the conversion error (if any) already occurs at the first point *)
Definition probe_reciprocal (f : fval) : probe_res :=
  match f with
  | [e] => if forallb (fun x => isclose1 (deval e x) (1 / x)) probe_pts then PTrue else PFalse
  | _ => PTypeError
  end.

(* ------------------------------------------------------------------------------------------ *)
(* 3. structural validation                                                                    *)
(* ------------------------------------------------------------------------------------------ *)

Inductive lik_kind := KGaussian | KGMRF | KRegGaussian | KRegGMRF | KLMRF | KOtherLik.
Inductive prior_kind := KGamma | KOtherPrior.

(* one mutable variable of the likelihood's distribution: a value, or a callable with its non-default
   argument names and the value it returns as a function of the hyper-parameter *)
Inductive attr := AConst | ACallable (args : list string) (f : fval).

Record target := {
  t_is_posterior : bool;
  t_lik : lik_kind;
  t_prior : prior_kind;
  t_prior_dim : nat;
  t_par_name : string;                       (* target.prior.name *)
  t_mutable : list (string * attr);          (* get_mutable_variables(), in order, with getattr *)
  t_preset_nonneg : bool;                    (* regularized: distribution.preset in ["nonnegativity"] *)
  t_location_sum_zero : bool                 (* LMRF: np.sum(location) == 0 *)
}.

Inductive reject_kind :=
| RNotPosterior     (* TypeError  "requires a target of type Posterior" *)
| RNoPair           (* ValueError "Conjugacy is not defined for likelihood ... and prior ..." *)
| RNotUnivariate    (* ValueError "... only works with univariate Gamma prior" *)
| RPreset           (* ValueError "... nonnegativity constraints" *)
| RLocation         (* ValueError "... zero mean LMRF likelihood" *)
| RNotFound         (* ValueError "Unable to find conjugate parameter" *)
| RMultiple         (* ValueError "Multiple references of parameter" *)
| RWrongKey         (* ValueError "... only works when conjugate parameter is defined via covariance or precision" *)
| RWrongFun         (* ValueError "... requires `cov`/`prec` ... to be: lambda x : ..." *)
| RTypeError        (* TypeError from float() inside math.isclose *)
| RLikType          (* legacy: "only works with a Gaussian-type likelihood function" *)
| RPriorType.       (* legacy: "only works with Gamma prior" *)

Inductive verdict := Accept (key : string) | Reject (why : reject_kind).

Definition str_in (s : string) (l : list string) : bool := existsb (String.eqb s) l.

(* found_parameter_pairs of _get_conjugate_parameter *)
Fixpoint refs (par : string) (vars : list (string * attr)) : list (string * fval) :=
  match vars with
  | [] => []
  | (k, AConst) :: r => refs par r
  | (k, ACallable args f) :: r => if str_in par args then (k, f) :: refs par r else refs par r
  end.

Definition get_conjugate_parameter (t : target) : (string * fval) + reject_kind :=
  match refs (t_par_name t) (t_mutable t) with
  | [kv] => inl kv
  | [] => inr RNotFound
  | _ => inr RMultiple
  end.

Definition is_reg (k : lik_kind) : bool := match k with KRegGaussian | KRegGMRF => true | _ => false end.
Definition is_plain (k : lik_kind) : bool := match k with KGaussian | KGMRF => true | _ => false end.

(* _GaussianGammaPair.validate_target / _RegularizedGaussianGammaPair.validate_target (the isinstance
   tests at their top repeat what _set_conjugatepair already established) *)
Definition validate_gaussian_pair (t : target) : verdict :=
  if negb (Nat.eqb (t_prior_dim t) 1) then Reject RNotUnivariate
  else if is_reg (t_lik t) && negb (t_preset_nonneg t) then Reject RPreset
  else match get_conjugate_parameter t with
       | inr e => Reject e
       | inl (key, f) =>
           if String.eqb key s_cov then
             match probe_reciprocal f with
             | PTrue => Accept s_cov | PFalse => Reject RWrongFun | PTypeError => Reject RTypeError end
           else if String.eqb key s_prec then
             (if probe_identity f then Accept s_prec else Reject RWrongFun)
           else Reject RWrongKey
       end.

(* experimental Conjugate: target setter = _set_conjugatepair ; validate_target *)
Definition validate_exp (t : target) : verdict :=
  if negb (t_is_posterior t) then Reject RNotPosterior
  else match t_prior t with
       | KOtherPrior => Reject RNoPair
       | KGamma => if is_plain (t_lik t) || is_reg (t_lik t) then validate_gaussian_pair t else Reject RNoPair
       end.

(* experimental ConjugateApprox (_set_conjugatepair overridden; validate_target inherited) *)
Definition validate_approx (t : target) : verdict :=
  match t_lik t, t_prior t with
  | KLMRF, KGamma =>
      if negb (t_is_posterior t) then Reject RNotPosterior
      else if negb (Nat.eqb (t_prior_dim t) 1) then Reject RNotUnivariate
      else if negb (t_location_sum_zero t) then Reject RLocation
      else match get_conjugate_parameter t with
           | inr e => Reject e
           | inl (key, f) =>
               if String.eqb key s_scale then
                 match probe_reciprocal f with
                 | PTrue => Accept s_scale | PFalse => Reject RWrongFun | PTypeError => Reject RTypeError end
               else Reject RWrongKey
           end
  | _, _ => Reject RNoPair
  end.

(* legacy cuqi.sampler.Conjugate.__init__ : types only -- the dependence is never looked at *)
Definition validate_legacy (t : target) : verdict :=
  if negb (is_plain (t_lik t) || is_reg (t_lik t)) then Reject RLikType
  else match t_prior t with
       | KOtherPrior => Reject RPriorType
       | KGamma => if negb (Nat.eqb (t_prior_dim t) 1) then Reject RNotUnivariate
                   else if is_reg (t_lik t) && negb (t_preset_nonneg t) then Reject RPreset
                   else Accept s_empty
       end.

(* legacy cuqi.sampler.ConjugateApprox.__init__ *)
Definition validate_legacy_approx (t : target) : verdict :=
  match t_lik t with
  | KLMRF => match t_prior t with KGamma => Accept s_empty | KOtherPrior => Reject RPriorType end
  | _ => Reject RLikType
  end.

(* the same with the univariate check of fixes/C10_legacy_approx_dim.diff (the harness probes which one the tree has) *)
Definition validate_legacy_approx_dim (t : target) : verdict :=
  match t_lik t with
  | KLMRF => match t_prior t with
             | KGamma => if negb (Nat.eqb (t_prior_dim t) 1) then Reject RNotUnivariate else Accept s_empty
             | KOtherPrior => Reject RPriorType end
  | _ => Reject RLikType
  end.

(* ------------------------------------------------------------------------------------------ *)
(* 4. the Gamma the samplers draw from (one transcription, abstract carrier)                   *)
(* ------------------------------------------------------------------------------------------ *)

Section GammaParams.
Variable T : Type.
Variables (t0 : T) (tadd tmul tsub : T -> T -> T).
Variable half : T.
Variable of_nat : nat -> T.

(* shape = m/2 + alpha *)
Definition gg_shape (m : nat) (alpha : T) : T := tadd (tmul half (of_nat m)) alpha.
(* rate = .5 * ||L @ (Ax - b)||^2 + beta *)
Definition gg_rate (L : list (list T)) (Ax b : list T) (beta : T) : T :=
  tadd (tmul half (normsq t0 tadd tmul (matvec t0 tadd tmul L (vsub tsub Ax b)))) beta.
End GammaParams.

Definition q_of_nat (n : nat) : Q := inject_Z (Z.of_nat n).
Definition q_shape := gg_shape Q Qplus Qmult (1 # 2) q_of_nat.
Definition q_rate := gg_rate Q 0 Qplus Qmult Qminus (1 # 2).

Definition count_nonzero (b : list Q) : nat := length (filter (fun x => negb (Qeq_bool x 0)) b).

(* m of the Gaussian-Gamma pairs (after fix 2db3e3f): the rank of the likelihood's distribution at unit
   hyper-parameter -- dim = len(b) for a Gaussian with scalar/vector/diagonal covariance or precision, the stored
   rank for a GMRF -- resp. np.count_nonzero(b) for the regularized pair *)
Definition sampler_m (k : lik_kind) (gmrf_rank : nat) (b : list Q) : nat :=
  if is_reg k then count_nonzero b else match k with KGMRF => gmrf_rank | _ => length b end.

(* GMRF.__init__: self._rank = dim - nullity.  Two rules exist: the one in the tree today (nullity 1 for every
   periodic/neumann field) and the one of fixes/C20_gmrf_rank_rule.diff (order 0: the precision is the identity,
   nullity 0; order 2 with neumann boundaries: the affine functions per axis, nullity 2^physical_dim; otherwise the
   constants, nullity 1).  The harness probes which rule the tree implements and the model is evaluated under it. *)
Inductive bc_type := BZero | BPeriodic | BNeumann.
Inductive rank_rule := RuleDimMinus1 | RuleNullity.
Definition gmrf_nullity (rule : rank_rule) (bc : bc_type) (order physdim : nat) : nat :=
  match bc with
  | BZero => 0
  | _ => match rule with
         | RuleDimMinus1 => 1
         | RuleNullity =>
             match order with
             | O => 0
             | 2%nat => match bc with BNeumann => Nat.pow 2 physdim | _ => 1 end
             | _ => 1
             end
         end
  end%nat.
Definition gmrf_code_rank (rule : rank_rule) (bc : bc_type) (order physdim dim : nat) : nat :=
  (dim - gmrf_nullity rule bc order physdim)%nat.
(* GMRF.__init__: chol of P for 'zero', of P + sqrt(eps) I otherwise; sqrt(2^-52) = 2^-26 exactly *)
Definition sqrt_eps : Q := 1 # 67108864.
Definition gmrf_reg (bc : bc_type) : Q := match bc with BZero => 0 | _ => sqrt_eps end.

(* ConjugateApprox (_LMRFGammaPair.sample): shape = d + alpha with d = len(x) *)
Definition approx_shape (d : nat) (alpha : Q) : Q := q_of_nat d + alpha.
(* rate = ||W^(1/2) D x||^2 + beta,  W = diag(1/sqrt((Dx)^2 + 1e-5)) :  sum_i (Dx)_i^2 * w_i + beta *)
Definition approx_eps : Q := 1 # 100000.
Fixpoint approx_quad (dx w : list Q) : Q :=
  match dx, w with
  | a :: dx', c :: w' => a * a * c + approx_quad dx' w'
  | _, _ => 0
  end.
Definition approx_rate (D : list (list Q)) (x w : list Q) (beta : Q) : Q :=
  approx_quad (matvec 0 Qplus Qmult D x) w + beta.

(* ------------------------------------------------------------------------------------------ *)
(* 5. Direct                                                                                   *)
(* ------------------------------------------------------------------------------------------ *)

Section Direct.
Variables (Rnd Pt : Type).
Variable target_sample : Rnd -> Pt.      (* target.sample() as a function of the randomness it consumes *)

Record dstate := { current_point : option Pt; n_steps : nat }.

(* Direct.step: self.current_point = self.target.sample(); return 1 *)
Definition direct_step (st : dstate) (r : Rnd) : dstate * Q :=
  ({| current_point := Some (target_sample r); n_steps := S (n_steps st) |}, 1).

(* Sampler.sample(N): step, then append current_point *)
Fixpoint direct_run (st : dstate) (rs : list Rnd) : dstate * list Pt :=
  match rs with
  | [] => (st, [])
  | r :: rs' =>
      let st1 := fst (direct_step st r) in
      let '(st2, out) := direct_run st1 rs' in
      (st2, match current_point st1 with Some p => p :: out | None => out end)
  end.
End Direct.
Arguments current_point {Pt} d.
Arguments n_steps {Pt} d.
Arguments direct_step {Rnd Pt} target_sample st r.
Arguments direct_run {Rnd Pt} target_sample st rs.

(* ------------------------------------------------------------------------------------------ *)
(* 6. comparison functions for generated cases                                                 *)
(* ------------------------------------------------------------------------------------------ *)

Definition reject_eqb (a b : reject_kind) : bool :=
  match a, b with
  | RNotPosterior, RNotPosterior | RNoPair, RNoPair | RNotUnivariate, RNotUnivariate | RPreset, RPreset
  | RLocation, RLocation | RNotFound, RNotFound | RMultiple, RMultiple | RWrongKey, RWrongKey
  | RWrongFun, RWrongFun | RTypeError, RTypeError | RLikType, RLikType | RPriorType, RPriorType => true
  | _, _ => false
  end.

Definition verdict_eqb (a b : verdict) : bool :=
  match a, b with
  | Accept _, Accept _ => true        (* the key is internal; acceptance is what is observable *)
  | Reject x, Reject y => reject_eqb x y
  | _, _ => false
  end.

Inductive iface := IExp | IApprox | ILegacy | ILegacyApprox | ILegacyApproxDim.
Definition validate (i : iface) (t : target) : verdict :=
  match i with
  | IExp => validate_exp t | IApprox => validate_approx t
  | ILegacy => validate_legacy t | ILegacyApprox => validate_legacy_approx t
  | ILegacyApproxDim => validate_legacy_approx_dim t
  end.

Definition check_validate (i : iface) (t : target) (obs : verdict) : bool := verdict_eqb (validate i t) obs.

(* The life cycle of an experimental sampler object (Conjugate / ConjugateApprox): `sampler.target = value` may be executed in
   any state -- not yet initialised, initialised, after step / warmup / sample, with or without a previous target (HybridGibbs
   re-assigns the target of every block sampler in every sweep).  The setter is
        self._target = value ; self._set_conjugatepair() ; self.validate_target()
   so (1) the verdict does not depend on the state, and (2) the assignment happens BEFORE the validation: a refused target stays
   in the object (keeps_refused = true, the tree today); fixes/C10_retarget_restore.diff restores the previous target
   (keeps_refused = false).  The harness probes which variant the tree has. *)
Record exp_sampler := { es_initialized : bool; es_target : option target }.

Definition is_reject (v : verdict) : bool := match v with Reject _ => true | Accept _ => false end.

Definition set_target (keeps_refused : bool) (i : iface) (smp : exp_sampler) (t : target) : exp_sampler * verdict :=
  let v := validate i t in
  ({| es_initialized := es_initialized smp;
      es_target := if is_reject v && negb keeps_refused then es_target smp else Some t |}, v).

(* a history of assignments: the verdicts, and the final object *)
Fixpoint assign_all (keeps_refused : bool) (i : iface) (smp : exp_sampler) (ts : list target) : exp_sampler * list verdict :=
  match ts with
  | [] => (smp, [])
  | t :: r => let '(smp1, v) := set_target keeps_refused i smp t in
              let '(smp2, vs) := assign_all keeps_refused i smp1 r in (smp2, v :: vs)
  end.

(* observed: the verdict of an assignment made in a given state, and whether the object afterwards holds the new target *)
Definition check_retarget (keeps_refused : bool) (i : iface) (initialized had_target : bool) (prev t : target)
                          (obs : verdict) (obs_holds_new : bool) : bool :=
  let smp := {| es_initialized := initialized; es_target := if had_target then Some prev else None |} in
  let '(smp1, v) := set_target keeps_refused i smp t in
  verdict_eqb v obs
  && Bool.eqb obs_holds_new (if is_reject v && negb keeps_refused then false else true).

(* probe decisions observed by calling the two helper functions directly *)
Definition probe_res_eqb (a b : probe_res) : bool :=
  match a, b with PTrue, PTrue | PFalse, PFalse | PTypeError, PTypeError => true | _, _ => false end.
Definition check_probes (f : fval) (obs_id : bool) (obs_rec : probe_res) : bool :=
  Bool.eqb (probe_identity f) obs_id && probe_res_eqb (probe_reciprocal f) obs_rec.

(* shape: exact.  gmrf_rank is the MODEL's rank (gmrf_code_rank under the probed rule) -- not an observed number *)
Definition check_shape (k : lik_kind) (gmrf_rank : nat) (b : list Q) (alpha obs_shape : Q) : bool :=
  Qeq_bool obs_shape (q_shape (sampler_m k gmrf_rank b) alpha).

(* target-side bookkeeping the theorems talk about: observed GMRF._rank vs gmrf_code_rank *)
Definition check_rank (rule : rank_rule) (bc : bc_type) (order physdim dim obs_rank : nat) : bool :=
  Nat.eqb obs_rank (gmrf_code_rank rule bc order physdim dim).

Definition qdotq := dot 0 Qplus Qmult.
Definition qmatvecq := matvec 0 Qplus Qmult.

Definition ident_row (n i : nat) : list Q := unit_vec 0 1 n i.
Definition mat_add_diag (n : nat) (P : list (list Q)) (c : Q) : list (list Q) :=
  map (fun ir => vadd Qplus (snd ir) (vscale Qmult c (ident_row n (fst ir)))) (combine (seq 0 n) P).

(* L^T L computed without transposing: column j of L^T L is L^T (L e_j) *)
Definition gram (n : nat) (L : list (list Q)) : list (list Q) :=
  map (fun j => mattvec 0 Qplus Qmult n L (qmatvecq L (ident_row n j))) (seq 0 n).

Definition max_abs (M : list (list Q)) : Q := fold_right (fun r acc => fold_right (fun x a => Qmax (Qabs x) a) acc r) 0 M.

Definition mat_close (tol : Q) (A B : list (list Q)) : bool :=
  let sc := 1 + max_abs B in
  list_eqb (list_eqb (fun a b => Qle_bool (Qabs (a - b)) (tol * sc))) A B.

(* rate.  P = the precision operator of the target's own density at unit hyper-parameter (exact integers),
   reg = what the code adds before factorising (0 or 2^-26), L = the implementation's sqrtprec at unit
   hyper-parameter (certificate: its law  L^T L = P + reg I  is checked here, not assumed),
   obs_scale = the `scale` argument numpy.random.gamma received (= 1/rate). *)
(* purely relative closeness (rates are positive; data are swept over scales 2^-12 .. 2^12) *)
Definition q_rel (tol a b : Q) : bool := Qle_bool (Qabs (a - b)) (tol * Qabs b).

Definition check_rate (n : nat) (P : list (list Q)) (reg : Q) (L : list (list Q)) (Ax b : list Q) (beta : Q)
                      (obs_rate obs_scale : Q) : bool :=
  let Preg := mat_add_diag n P reg in
  let v := vsub Qminus Ax b in
  let r_model := q_rate L Ax b beta in
  let r_target := (1 # 2) * qdotq v (qmatvecq Preg v) + beta in
  mat_close tol9 (gram n L) Preg
  && q_rel tol9 obs_rate r_model
  && q_rel tol9 obs_rate r_target
  && q_close tol9 (obs_scale * r_model) 1.

(* the same without a factor certificate (composite samplers and shipped default sizes, where only the drawn Gamma is observed):
   the rate implied by the target's quadratic form with the precision operator P (+ reg I) *)
Definition check_rate_noL (n : nat) (P : list (list Q)) (reg : Q) (Ax b : list Q) (beta obs_rate : Q) : bool :=
  let Preg := mat_add_diag n P reg in
  let v := vsub Qminus Ax b in
  q_rel tol9 obs_rate ((1 # 2) * qdotq v (qmatvecq Preg v) + beta).

(* ConjugateApprox: w_i certificates for 1/sqrt((Dx)_i^2 + 1e-5), law checked: w_i^2 ((Dx)_i^2 + 1e-5) = 1 *)
Fixpoint approx_w_ok (dx w : list Q) : bool :=
  match dx, w with
  | [], [] => true
  | a :: dx', c :: w' => Qle_bool 0 c && q_close tol9 (c * c * (a * a + approx_eps)) 1 && approx_w_ok dx' w'
  | _, _ => false
  end.

Definition check_approx (D : list (list Q)) (x w : list Q) (alpha beta obs_shape obs_rate : Q) : bool :=
  Qeq_bool obs_shape (approx_shape (length x) alpha)
  && approx_w_ok (qmatvecq D x) w
  && q_rel tol9 obs_rate (approx_rate D x w beta).

(* Direct: the chain produced by Direct under a scripted stream vs the table of what target.sample() returns
   under the same scripts (rnd = index into the table) *)
Definition check_direct (table : list (list Q)) (idx : list nat) (obs_chain : list (list Q)) (obs_last : option (list Q)) : bool :=
  let '(st, out) := direct_run (fun i => nth i table []) {| current_point := None; n_steps := 0 |} idx in
  qll_eqb out obs_chain && opt_eqb ql_eqb (current_point st) obs_last && Nat.eqb (n_steps st) (length idx).
