(* C19 -- properties of the R-hat formula of Model/C19_Rhat.v that explain what "receives each variable's
   chain unpermuted" protects: the classic (identity) value depends on each chain only as a multiset and on
   the set of chains only as a multiset; the split value depends on the ORDER of the draws. *)
From CV Require Import Base.Tac Base.Cmp Model.C19_Stats Model.C19_Rhat Proofs.C19_Stats.
From Coq Require Import QArith Qabs Sorting.Permutation Setoid Morphisms.

Lemma qsum_perm l l' : Permutation l l' -> qsum l == qsum l'.
Proof.
  induction 1 as [|x l l' _ IH|x y l|l l' l'' _ IH1 _ IH2]; cbn [qsum fold_right].
  - reflexivity.
  - fold (qsum l) (qsum l'). rewrite IH. reflexivity.
  - fold (qsum l). ring.
  - rewrite IH1. exact IH2.
Qed.

Lemma qsum_map_ext (f f' : Q -> Q) l : (forall x, f x == f' x) -> qsum (map f l) == qsum (map f' l).
Proof.
  intros H. induction l as [|x l IH]; cbn [map qsum fold_right]; [reflexivity|].
  fold (qsum (map f l)) (qsum (map f' l)). rewrite IH, H. reflexivity.
Qed.

Lemma qlen_perm l l' : Permutation l l' -> qlen l = qlen l'.
Proof. intros P. unfold qlen. rewrite (Permutation_length P). reflexivity. Qed.

Lemma qmean_perm l l' : Permutation l l' -> qmean l == qmean l'.
Proof. intros P. unfold qmean. rewrite (qsum_perm _ _ P), (qlen_perm _ _ P). reflexivity. Qed.

Lemma qvar1_perm l l' : Permutation l l' -> qvar1 l == qvar1 l'.
Proof.
  intros P. unfold qvar1. rewrite (qlen_perm _ _ P).
  rewrite (qsum_perm _ _ (Permutation_map _ P)).
  rewrite (qsum_map_ext _ (fun x => (x - qmean l') * (x - qmean l')) l').
  - reflexivity.
  - intros x. rewrite (qmean_perm _ _ P). reflexivity.
Qed.

Lemma Forall2_length {A B} (R : A -> B -> Prop) l l' : Forall2 R l l' -> length l = length l'.
Proof. induction 1; cbn; congruence. Qed.

(* pointwise Qeq lists *)
Lemma qsum_Forall2 l l' : Forall2 Qeq l l' -> qsum l == qsum l'.
Proof.
  induction 1 as [|x y l l' E _ IH]; cbn [qsum fold_right]; [reflexivity|].
  fold (qsum l) (qsum l'). rewrite E, IH. reflexivity.
Qed.

Lemma qmean_Forall2 l l' : Forall2 Qeq l l' -> qmean l == qmean l'.
Proof.
  intros F. unfold qmean, qlen. rewrite (qsum_Forall2 _ _ F), (Forall2_length _ _ _ F). reflexivity.
Qed.

Lemma qvar1_Forall2 l l' : Forall2 Qeq l l' -> qvar1 l == qvar1 l'.
Proof.
  intros F. unfold qvar1, qlen. rewrite (Forall2_length _ _ _ F).
  assert (E : qsum (map (fun x => (x - qmean l) * (x - qmean l)) l) ==
              qsum (map (fun x => (x - qmean l') * (x - qmean l')) l')).
  { apply qsum_Forall2. pose proof (qmean_Forall2 _ _ F) as Em.
    set (m := qmean l) in *. set (m' := qmean l') in *. clearbody m m'.
    induction F as [|x y l0 l0' E _ IH]; cbn [map]; [constructor | constructor; [rewrite E, Em; reflexivity | exact IH]]. }
  rewrite E. reflexivity.
Qed.

(* ---------------- identity R-hat: the order of the draws inside a chain is irrelevant ---------------- *)
Theorem rhat_identity_draw_order chains chains' :
  Forall2 (@Permutation Z) chains chains' -> rhat_sq chains == rhat_sq chains'.
Proof.
  intros F. unfold rhat_sq.
  assert (Hn : zlen (hd [] chains) = zlen (hd [] chains')).
  { destruct F as [|c c' ? ? P _]; [reflexivity|]. cbn [hd]. unfold zlen. rewrite (Permutation_length P). reflexivity. }
  rewrite Hn.
  assert (Hm : Forall2 Qeq (map (fun c => qmean (zq c)) chains) (map (fun c => qmean (zq c)) chains')).
  { clear Hn. induction F as [|c c' ? ? P _ IH]; cbn [map]; [constructor | constructor; [|exact IH]].
    apply qmean_perm. unfold zq. apply Permutation_map. exact P. }
  assert (Hv : Forall2 Qeq (map (fun c => qvar1 (zq c)) chains) (map (fun c => qvar1 (zq c)) chains')).
  { clear Hn Hm. induction F as [|c c' ? ? P _ IH]; cbn [map]; [constructor | constructor; [|exact IH]].
    apply qvar1_perm. unfold zq. apply Permutation_map. exact P. }
  rewrite (qvar1_Forall2 _ _ Hm), (qmean_Forall2 _ _ Hv). reflexivity.
Qed.

(* ---------------- R-hat is symmetric in the chains (which object is `self` does not matter) ---------------- *)
Theorem rhat_chain_order n chains chains' :
  Forall (fun c => length c = n) chains -> Permutation chains chains' -> rhat_sq chains == rhat_sq chains'.
Proof.
  intros Hl P. unfold rhat_sq.
  assert (Hl' : Forall (fun c => length c = n) chains') by (eapply Permutation_Forall; eassumption).
  assert (Hn : zlen (hd [] chains) = zlen (hd [] chains')).
  { destruct chains as [|c r]; [apply Permutation_nil in P; subst; reflexivity|].
    destruct chains' as [|c' r']; [apply Permutation_sym, Permutation_nil in P; discriminate|].
    cbn [hd]. unfold zlen. inversion Hl; inversion Hl'; subst. congruence. }
  rewrite Hn.
  rewrite (qvar1_perm _ _ (Permutation_map (fun c => qmean (zq c)) P)).
  rewrite (qmean_perm _ _ (Permutation_map (fun c => qvar1 (zq c)) P)). reflexivity.
Qed.

(* ---------------- split R-hat DOES depend on the order of the draws ---------------- *)
Theorem rhat_split_draw_order_refuted :
  exists chains chains', Forall2 (@Permutation Z) chains chains' /\
    ~ rhat_sq (split_chains chains) == rhat_sq (split_chains chains').
Proof.
  exists [[0; 1; 4; 5]; [0; 1; 4; 6]]%Z, [[0; 4; 1; 5]; [0; 4; 1; 6]]%Z. split.
  - repeat constructor; apply perm_skip; apply perm_swap.
  - intros E. apply Qeq_bool_iff in E. vm_compute in E. discriminate.
Qed.

(* ---------------- lower bound: Rhat^2 >= (n-1)/n, with equality iff the chain means coincide (B = 0) -------- *)
Lemma qvar1_nonneg l : (2 <= length l)%nat -> 0 <= qvar1 l.
Proof.
  intros Hl. unfold qvar1.
  assert (Hp : 0 < qlen l - 1).
  { unfold qlen, Qlt, Qminus, Qplus, Qopp, inject_Z; cbn. lia. }
  apply Qle_shift_div_l; [exact Hp|]. rewrite Qmult_0_l.
  apply qsum_nonneg. intros a Ha. apply in_map_iff in Ha as [x [<- _]]. apply sq_nonneg.
Qed.

Theorem rhat_sq_lower_bound chains :
  (2 <= length chains)%nat -> (1 <= length (hd [] chains))%nat -> 0 < rhat_W chains ->
  let n := inject_Z (zlen (hd [] chains)) in (n - 1) / n <= rhat_sq chains.
Proof.
  intros Hc Hn HW n. unfold rhat_sq. fold n. fold (rhat_W chains).
  set (V := qvar1 (map (fun c => qmean (zq c)) chains)).
  assert (HV : 0 <= V) by (apply qvar1_nonneg; rewrite map_length; exact Hc).
  assert (Hn0 : 0 < n) by (subst n; unfold zlen, Qlt, inject_Z; cbn; lia).
  assert (HB : 0 <= n * V / rhat_W chains).
  { apply Qle_shift_div_l; [exact HW|]. rewrite Qmult_0_l. apply Qmult_le_0_compat; [apply Qlt_le_weak; exact Hn0 | exact HV]. }
  apply Qle_shift_div_l; [exact Hn0|].
  setoid_replace ((n - 1) / n * n) with (n - 1) by (field; intros E; rewrite E in Hn0; discriminate).
  apply (Qplus_le_l _ _ (1 - n)). ring_simplify. exact HB.
Qed.

(* ---------------- rank normalisation ---------------- *)
(* the integer-chain formula is the (reduced) rational-chain formula on the injected chains *)
Lemma qsumr_eq l : qsumr l == qsum l.
Proof.
  induction l as [|x l IH]; cbn [qsumr qsum fold_right]; [reflexivity|].
  fold (qsumr l) (qsum l). rewrite Qred_correct, IH. reflexivity.
Qed.

Lemma qmeanr_eq l : qmeanr l == qmean l.
Proof. unfold qmeanr, qmean. rewrite Qred_correct, qsumr_eq. reflexivity. Qed.

Lemma qvar1r_eq l : qvar1r l == qvar1 l.
Proof.
  unfold qvar1r, qvar1. rewrite Qred_correct, qsumr_eq.
  rewrite (qsum_map_ext _ (fun x => (x - qmean l) * (x - qmean l)) l); [reflexivity|].
  intros x. rewrite Qred_correct, qmeanr_eq. reflexivity.
Qed.

Lemma map_Forall2_Qeq {A} (f f' : A -> Q) l : (forall a, f a == f' a) -> Forall2 Qeq (map f l) (map f' l).
Proof. intros H. induction l as [|a l IH]; cbn [map]; constructor; [apply H | exact IH]. Qed.

Theorem rhat_sq_as_q chains : rhat_sq_q (map zq chains) == rhat_sq chains.
Proof.
  assert (E : qlen (hd [] (map zq chains)) = inject_Z (zlen (hd [] chains))).
  { destruct chains as [|c r]; [reflexivity|]. cbn [map hd]. unfold qlen, zlen, zq. rewrite map_length. reflexivity. }
  unfold rhat_sq, rhat_sq_q. rewrite Qred_correct, E, !map_map.
  rewrite qvar1r_eq, qmeanr_eq.
  rewrite (qvar1_Forall2 _ _ (map_Forall2_Qeq (fun c => qmeanr (zq c)) (fun c => qmean (zq c)) chains (fun c => qmeanr_eq (zq c)))).
  rewrite (qmean_Forall2 _ _ (map_Forall2_Qeq (fun c => qvar1r (zq c)) (fun c => qvar1 (zq c)) chains (fun c => qvar1r_eq (zq c)))).
  reflexivity.
Qed.

(* the argument handed to Phi^-1 for a pooled draw lies strictly inside (0,1): the average rank r of a member of the
   pool satisfies 1 <= r <= N, and u = (r - 3/8)/(N + 1/4) *)
Lemma filter_two_le {A} (p q : A -> bool) l : (forall a, p a = true -> q a = true -> False) ->
  (length (filter p l) + length (filter q l) <= length l)%nat.
Proof.
  intros D. induction l as [|a l IH]; cbn [filter length]; [lia|].
  destruct (p a) eqn:Ep; destruct (q a) eqn:Eq; cbn [length]; try lia; try (exfalso; eapply D; eassumption).
Qed.

Lemma filter_in_pos {A} (q : A -> bool) l a : In a l -> q a = true -> (1 <= length (filter q l))%nat.
Proof.
  induction l as [|b l IH]; intros Hin Hq; [destruct Hin|]. cbn [filter].
  destruct Hin as [->|Hin]; [rewrite Hq; cbn; lia|]. destruct (q b); cbn [length]; [lia | apply IH; assumption].
Qed.

Theorem blom_in_unit_interval pool x : In x pool -> 0 < blom pool x /\ blom pool x < 1.
Proof.
  intros Hin. unfold blom, avg_rank, qcount, qlen.
  set (L := length (filter (fun y => negb (Qle_bool x y)) pool)).
  set (E := length (filter (fun y => Qeq_bool y x) pool)).
  set (N := length pool).
  assert (HE : (1 <= E)%nat) by (apply (filter_in_pos _ pool x Hin); apply Qeq_bool_iff; reflexivity).
  assert (HLE : (L + E <= N)%nat).
  { apply filter_two_le. intros a Ha Hb. apply negb_true_iff in Ha. apply Qeq_bool_iff in Hb.
    assert (Qle_bool x a = true) by (apply Qle_bool_iff; rewrite Hb; apply Qle_refl). congruence. }
  assert (HD : 0 < inject_Z (Z.of_nat N) + (1 # 4)).
  { unfold Qlt, Qplus, inject_Z; cbn. lia. }
  split.
  - apply Qlt_shift_div_l; [exact HD|]. rewrite Qmult_0_l.
    unfold Qlt, Qminus, Qplus, Qdiv, Qmult, Qinv, Qopp, inject_Z; cbn. lia.
  - apply Qlt_shift_div_r; [exact HD|]. rewrite Qmult_1_l.
    unfold Qlt, Qminus, Qplus, Qdiv, Qmult, Qinv, Qopp, inject_Z; cbn. lia.
Qed.
