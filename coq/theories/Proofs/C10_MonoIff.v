(* C10 -- on monomial dependences the draw is exact IF AND ONLY IF the exponent is 1.

   Gaussian(mean = Ax, prec = c s^k), c > 0, k any integer, at least one datum, ANY data: the Gamma(m/2 + alpha, ||L(Ax-b)||^2/2 + beta)
   of both samplers (L at unit hyper-parameter) is proportional to the posterior of s  <->  k = 1.
   Consequences: (1) the experimental sampler's verdict on monomials (accepted <-> k = 1 and c within 1.00001e-5 of 1,
   C10_probe_identity_decides_monomials) never lets an inexact monomial through, and what it refuses with k = 1 would have been
   exact (a harmless refusal); (2) the legacy sampler, which validates nothing, is exact on c s and on NO other monomial -- the open
   finding legacy.Conjugate|no-structural-validation quantified on this class.
   Proof: first differences of the log-ratio between s = 1, 2 and s = 2, 4 with P(2s) = g P(s), g = 2^k, give
   N (ln 2 - ln g) = h (P(s)(1 - g) + C s) at s = 1, 2, hence h C g (g - 2) = 0 and then ln g = ln 2. *)
From CV Require Import Base.Tac Base.LinAlg Model.C10_Conj Model.C10_ConjR Model.C10_Dep
                       Proofs.C10_Kernel Proofs.C10_Exact Proofs.C10_MonoExact.
From Coq Require Import QArith Qreals Reals Lra RealField.
Open Scope R_scope.

(* 2^k *)
Definition gam (k : Z) : R :=
  match k with Zneg p => / (2 ^ Pos.to_nat p) | _ => 2 ^ Z.to_nat k end.

Lemma Rdeval_dpown_scale p s : Rdeval (dpown p) (2 * s) = 2 ^ p * Rdeval (dpown p) s.
Proof. induction p as [|p IH]; cbn [dpown Rdeval pow]; [ring | rewrite IH; ring]. Qed.

Lemma Rdeval_dpown_pos p s : 0 < s -> 0 < Rdeval (dpown p) s.
Proof.
  intros Hs. induction p as [|p IH]; cbn [dpown Rdeval]; [rewrite RMicromega.Q2R_1; lra | apply Rmult_lt_0_compat; assumption].
Qed.

Lemma pow2_pos p : 0 < 2 ^ p.
Proof. apply pow_lt. lra. Qed.

Lemma Rdeval_mono_scale c k s : Rdeval (dmono c k) (2 * s) = gam k * Rdeval (dmono c k) s.
Proof.
  destruct k as [|p|p]; unfold dmono, gam; cbn [Rdeval]; rewrite Rdeval_dpown_scale.
  - ring.
  - ring.
  - rewrite Rinv_mult. ring.
Qed.

Lemma Rdeval_mono_pos c k s : 0 < Q2R c -> 0 < s -> 0 < Rdeval (dmono c k) s.
Proof.
  intros Hc Hs. destruct k as [|p|p]; unfold dmono; cbn [Rdeval]; apply Rmult_lt_0_compat; try exact Hc;
    try (apply Rdeval_dpown_pos; exact Hs). apply Rinv_0_lt_compat, Rdeval_dpown_pos; exact Hs.
Qed.

Lemma gam_pos k : 0 < gam k.
Proof. destruct k; unfold gam; try apply pow2_pos. apply Rinv_0_lt_compat, pow2_pos. Qed.

Lemma pow2_ge_4 p : (2 <= p)%nat -> 4 <= 2 ^ p.
Proof.
  intros H. destruct p as [|[|p]]; try lia. cbn [pow]. pose proof (pow2_pos p).
  assert (1 <= 2 ^ p) by (clear; induction p as [|p IH]; cbn [pow]; lra). lra.
Qed.

Lemma gam_eq_2 k : gam k = 2 <-> k = 1%Z.
Proof.
  split; [| intros ->; unfold gam; simpl; lra].
  destruct k as [|p|p]; unfold gam.
  - simpl. lra.
  - intros H. destruct (Z.to_nat (Z.pos p)) as [|[|q]] eqn:E.
    + simpl in H. lra.
    + lia.
    + pose proof (pow2_ge_4 (S (S q)) ltac:(lia)). lra.
  - intros H. pose proof (pow2_pos (Pos.to_nat p)) as Hp.
    assert (1 <= 2 ^ Pos.to_nat p) by (generalize (Pos.to_nat p); intros n; induction n as [|n IH]; cbn [pow]; lra).
    assert (/ 2 ^ Pos.to_nat p <= 1) by (rewrite <- Rinv_1; apply Rinv_le_contravar; lra). lra.
Qed.

Section ScalingIff.
Variable lnGamma : R -> R.
Notation gpdf := (gamma_logpdf lnGamma).
Notation post := (post_logd lnGamma).

(* the abstract core: P(2s) = g P(s), P > 0 on s > 0, likelihood N ln P - h P + c0, Gamma(N + alpha, P(1) h + beta) *)
Lemma scaling_core (lik P : R -> R) (N h c0 g alpha beta : R) :
  0 < N -> 0 < g -> (forall s, 0 < s -> 0 < P s) -> (forall s, 0 < s -> P (2 * s) = g * P s) ->
  (forall s, 0 < s -> lik s = N * ln (P s) - P s * h + c0) ->
  proportional_on_pos (post lik alpha beta) (gpdf (N + alpha) (P 1 * h + beta)) ->
  g = 2.
Proof.
  intros HN Hg Hpos Hsc Hlik Hprop.
  set (C := P 1) in *. assert (HC : 0 < C) by (apply Hpos; lra).
  assert (P2 : P 2 = g * C) by (replace 2 with (2 * 1) by ring; apply Hsc; lra).
  assert (P4 : P 4 = g * (g * C)) by (replace 4 with (2 * 2) by ring; rewrite (Hsc 2) by lra; rewrite P2; reflexivity).
  pose proof (Hprop 1 2 ltac:(lra) ltac:(lra)) as D1. pose proof (Hprop 2 4 ltac:(lra) ltac:(lra)) as D2.
  unfold post_logd, gamma_logpdf in D1, D2.
  rewrite (Hlik 1), (Hlik 2) in D1 by lra. rewrite (Hlik 2), (Hlik 4) in D2 by lra.
  fold C in D1. rewrite P2 in D1, D2. rewrite P4 in D2.
  rewrite (ln_mult g C) in D1, D2 by lra. rewrite (ln_mult g (g * C)), (ln_mult g C) in D2 by (try lra; apply Rmult_lt_0_compat; lra).
  rewrite ln_1 in D1. rewrite ln4 in D2.
  (* D1:  N (ln 2 - ln g) = h C (2 - g) ;  D2:  N (ln 2 - ln g) = h C (2 + g - g^2) *)
  assert (E1 : N * (ln 2 - ln g) = h * C * (2 - g)) by lra.
  assert (E2 : N * (ln 2 - ln g) = h * C * (2 + g - g * g)) by lra.
  assert (E3 : h * (C * g * (g - 2)) = 0) by lra.
  destruct (Rmult_integral _ _ E3) as [Hh|Hz].
  - (* h = 0: ln g = ln 2 *)
    rewrite Hh in E1. assert (Hl : ln g = ln 2) by nra. apply ln_inv; [exact Hg | lra | exact Hl].
  - destruct (Rmult_integral _ _ Hz) as [Hz'|Hz']; [| lra].
    exfalso. assert (0 < C * g) by (apply Rmult_lt_0_compat; assumption). lra.
Qed.

Theorem mono_exact_iff c k Ax b alpha beta :
  0 < Q2R c -> length Ax = length b -> (0 < length b)%nat ->
  (proportional_on_pos (post (lik_gauss_prec (Rdeval (dmono c k)) Ax b) alpha beta)
     (sampler_logpdf lnGamma (length b) (sqrtprec_of (from_prec_scalar (length b) (Rdeval (dmono c k) 1))) Ax b alpha beta)
   <-> k = 1%Z).
Proof.
  intros Hc Hl Hn. split.
  - intros H. apply gam_eq_2.
    apply (scaling_core (lik_gauss_prec (Rdeval (dmono c k)) Ax b) (Rdeval (dmono c k)) (INR (length b) / 2)
             (Rnormsq (Rvsub b Ax) / 2) (- (1 / 2) * INR (length b) * ln (2 * PI)) (gam k) alpha beta).
    + apply Rdiv_lt_0_compat; [apply lt_0_INR; exact Hn | lra].
    + apply gam_pos.
    + intros s Hs. apply Rdeval_mono_pos; assumption.
    + intros s _. apply Rdeval_mono_scale.
    + intros s Hs. rewrite (lik_gauss_prec_at lnGamma (Rdeval (dmono c k)) Ax b s (Rdeval (dmono c k) s));
        [reflexivity | apply Rdeval_mono_pos; assumption | reflexivity | exact Hl].
    + unfold sampler_logpdf in H. rewrite r_shape_eq in H.
      rewrite (scaled_prec_sqrtprec_rate lnGamma (length b)) in H;
        [| apply Rlt_le, Rdeval_mono_pos; [exact Hc | lra] | exact Hl | reflexivity].
      replace (Rdeval (dmono c k) 1 * (Rnormsq (Rvsub b Ax) / 2) + beta)
        with (Rdeval (dmono c k) 1 * Rnormsq (Rvsub b Ax) / 2 + beta) by (unfold Rdiv; ring).
      exact H.
  - intros ->. apply (gauss_prec_scaled_exact lnGamma _ (Q2R c)); [exact Hc | | exact Hl].
    intros s _. apply Rdeval_mono_1.
Qed.
(* GMRF(mean = Ax, prec = c s^k), stored rank > 0 *)
Theorem gmrf_mono_exact_iff c k rank logdet cholT P Ax b alpha beta :
  0 < Q2R c -> (0 < rank)%nat -> chol_law (length b) cholT P -> length Ax = length b ->
  (proportional_on_pos (post (lik_gmrf (Rdeval (dmono c k)) rank logdet P Ax b) alpha beta)
     (sampler_logpdf lnGamma rank (gmrf_sqrtprec cholT (Rdeval (dmono c k) 1)) Ax b alpha beta)
   <-> k = 1%Z).
Proof.
  intros Hc Hr Hch Hl. split.
  - intros H. apply gam_eq_2.
    apply (scaling_core (lik_gmrf (Rdeval (dmono c k)) rank logdet P Ax b) (Rdeval (dmono c k)) (INR rank / 2)
             (Rdot (Rvsub b Ax) (Rmatvec P (Rvsub b Ax)) / 2) (1 / 2 * (logdet - INR rank * ln (2 * PI))) (gam k) alpha beta).
    + apply Rdiv_lt_0_compat; [apply lt_0_INR; exact Hr | lra].
    + apply gam_pos.
    + intros s Hs. apply Rdeval_mono_pos; assumption.
    + intros s _. apply Rdeval_mono_scale.
    + intros s Hs. unfold lik_gmrf, gmrf_logpdf. field.
    + unfold sampler_logpdf in H. rewrite r_shape_eq in H.
      rewrite (gmrf_scaled_rate lnGamma (length b) (Rdeval (dmono c k) 1) cholT P) in H;
        [| apply Rlt_le, Rdeval_mono_pos; [exact Hc | lra] | exact Hch | exact Hl | reflexivity].
      replace (Rdeval (dmono c k) 1 * (Rdot (Rvsub b Ax) (Rmatvec P (Rvsub b Ax)) / 2) + beta)
        with (Rdeval (dmono c k) 1 * Rdot (Rvsub b Ax) (Rmatvec P (Rvsub b Ax)) / 2 + beta) by (unfold Rdiv; ring).
      exact H.
  - intros ->. apply (gmrf_scaled_exact lnGamma _ (Q2R c)); [exact Hc | | exact Hch | exact Hl].
    intros s _. apply Rdeval_mono_1.
Qed.

(* Gaussian(mean = Ax, cov = c s^k): exact <-> k = -1 *)
Lemma gam_eq_half k : / gam k = 2 <-> k = (-1)%Z.
Proof.
  split; [| intros ->; unfold gam; simpl; lra].
  intros H. pose proof (gam_pos k) as Hg.
  assert (Hk : gam k = / 2) by (rewrite <- H, Rinv_inv; reflexivity).
  destruct k as [|p|p]; unfold gam in Hk.
  - simpl in Hk. lra.
  - exfalso. assert (1 <= 2 ^ Z.to_nat (Z.pos p)) by (generalize (Z.to_nat (Z.pos p)); intros n; induction n as [|n IH]; cbn [pow]; lra). lra.
  - apply (f_equal Rinv) in Hk. rewrite !Rinv_inv in Hk. destruct (Pos.to_nat p) as [|[|q]] eqn:E.
    + lia.
    + f_equal. lia.
    + pose proof (pow2_ge_4 (S (S q)) ltac:(lia)). lra.
Qed.

Theorem cov_mono_exact_iff c k Ax b alpha beta :
  0 < Q2R c -> length Ax = length b -> (0 < length b)%nat ->
  (proportional_on_pos (post (lik_gauss_cov (Rdeval (dmono c k)) Ax b) alpha beta)
     (sampler_logpdf lnGamma (length b) (sqrtprec_of (from_cov_scalar (length b) (Rdeval (dmono c k) 1))) Ax b alpha beta)
   <-> k = (-1)%Z).
Proof.
  intros Hc Hl Hn. split.
  - intros H. apply gam_eq_half.
    apply (scaling_core (lik_gauss_cov (Rdeval (dmono c k)) Ax b) (fun s => / Rdeval (dmono c k) s) (INR (length b) / 2)
             (Rnormsq (Rvsub b Ax) / 2) (- (1 / 2) * INR (length b) * ln (2 * PI)) (/ gam k) alpha beta).
    + apply Rdiv_lt_0_compat; [apply lt_0_INR; exact Hn | lra].
    + apply Rinv_0_lt_compat, gam_pos.
    + intros s Hs. apply Rinv_0_lt_compat, Rdeval_mono_pos; assumption.
    + intros s _. rewrite Rdeval_mono_scale, Rinv_mult. reflexivity.
    + intros s Hs. pose proof (Rdeval_mono_pos c k s Hc Hs) as Hp.
      rewrite (lik_gauss_cov_at lnGamma (Rdeval (dmono c k)) Ax b s (Rdeval (dmono c k) s) Hp eq_refl Hl).
      rewrite ln_Rinv by exact Hp. field. lra.
    + unfold sampler_logpdf in H. rewrite r_shape_eq in H.
      pose proof (Rdeval_mono_pos c k 1 Hc Rlt_0_1) as Hp1.
      rewrite (scaled_cov_sqrtprec_rate lnGamma (length b) (Rdeval (dmono c k) 1)) in H; [| exact Hp1 | exact Hl | reflexivity].
      replace (/ Rdeval (dmono c k) 1 * (Rnormsq (Rvsub b Ax) / 2) + beta)
        with (1 / Rdeval (dmono c k) 1 * Rnormsq (Rvsub b Ax) / 2 + beta) by (field; lra).
      exact H.
  - intros ->. apply (gauss_cov_scaled_exact lnGamma _ (Q2R c)); [exact Hc | | exact Hl].
    intros s _. apply Rdeval_mono_m1.
Qed.
End ScalingIff.
