(* C05 -- the transformations of BASE variates that produce the draws of the univariate families, as the code and the
   generators it calls apply them, over Q (what the correspondence evaluates on the twin stream of base variates) and
   over R (what the change-of-variables theorems of Proofs/C05_Push.v speak about; Q2R maps the former to the latter:
   push_q_R).  No proofs here.

     Normal        rng.normal(mean, std)                     = mean + std * z,              z  standard normal
     Uniform       rng.uniform(low, high)                    = low + (high - low) * u,      u  uniform on [0,1)
     Gamma         rng.gamma(shape, scale = 1/rate)          = (1/rate) * g,                g  standard Gamma(shape)
     Laplace       rng.laplace(loc, scale)                   = loc + scale ln(2u)  (u < 1/2),  loc - scale ln(2 - 2u)  (u >= 1/2)
     Cauchy        sps.cauchy.rvs(loc, scale)                = loc + scale tan(pi u - pi/2)   (scipy: default _rvs = ppf of a uniform)
     InverseGamma  sps.invgamma.rvs(a, loc, scale)           = loc + scale ppf_a(u)           (scipy: default _rvs = ppf of a uniform)
     Beta          sps.beta.rvs(a, b) = random_state.beta    = ga / (ga + gb)   (a > 1 or b > 1; ga, gb standard Gamma(a), Gamma(b))
     Lognormal     np.exp(self._normal._sample(N, rng))      = exp(y),                      y  the Gaussian draw            *)
From Coq Require Import Reals QArith Qabs List.
Import ListNotations.
From Coquelicot Require Import Coquelicot.
From CV Require Import Model.C05_SampleR.

(* ---------------- over Q: the rational transformations ---------------- *)
Open Scope Q_scope.
Definition affine_q (loc scale z : Q) : Q := loc + scale * z.
Definition normal_push_q (mean std z : Q) : Q := affine_q mean std z.
Definition uniform_push_q (low high u : Q) : Q := affine_q low (high - low) u.
Definition gamma_push_q (rate g : Q) : Q := (1 / rate) * g.                 (* Gamma.scale = 1/self.rate, then scale * g *)
Definition beta_push_q (ga gb : Q) : Q := ga / (ga + gb).
Definition recip_push_q (loc scale g : Q) : Q := loc + scale / g.           (* loc + scale / G  (the law-equivalent form of invgamma) *)
Close Scope Q_scope.

Open Scope R_scope.
(* ---------------- over R ---------------- *)
Definition affine_R (loc scale z : R) : R := loc + scale * z.
Definition affine_inv (loc scale x : R) : R := (x - loc) / scale.
Definition normal_push (mean std z : R) : R := affine_R mean std z.
Definition uniform_push (low high u : R) : R := affine_R low (high - low) u.
Definition gamma_push (rate g : R) : R := (1 / rate) * g.
Definition gamma_inv (rate x : R) : R := rate * x.
Definition beta_push (ga gb : R) : R := ga / (ga + gb).
Definition recip_push (loc scale g : R) : R := loc + scale / g.

(* numpy random_laplace: U = next_double; U >= 0.5 -> loc - scale*log(2.0 - U - U); U > 0 -> loc + scale*log(U + U) *)
Definition laplace_push_lo (loc scale u : R) : R := loc + scale * ln (u + u).
Definition laplace_push_hi (loc scale u : R) : R := loc - scale * ln (2 - u - u).
Definition laplace_push (loc scale u : R) : R :=
  if Rle_dec (1 / 2) u then laplace_push_hi loc scale u else laplace_push_lo loc scale u.
Definition laplace_inv_lo (loc scale x : R) : R := / 2 * exp ((x - loc) / scale).
Definition laplace_inv_hi (loc scale x : R) : R := 1 - / 2 * exp (- ((x - loc) / scale)).
Definition laplace_inv (loc scale x : R) : R :=
  if Rle_dec loc x then laplace_inv_hi loc scale x else laplace_inv_lo loc scale x.

(* scipy cauchy_gen._ppf(q) = tan(pi*q - pi/2); rv_continuous.rvs = loc + scale * _ppf(uniform) *)
Definition cauchy_push (loc scale u : R) : R := loc + scale * tan (PI * u - PI / 2).
Definition cauchy_inv (loc scale x : R) : R := / 2 + atan ((x - loc) / scale) / PI.

(* a loc/scale family drawn by inversion: x = loc + scale * Finv u;  u = F((x - loc)/scale) *)
Definition ppf_push (Finv : R -> R) (loc scale u : R) : R := loc + scale * Finv u.
Definition ppf_inv (F : R -> R) (loc scale x : R) : R := F ((x - loc) / scale).

(* standard Laplace and standard Cauchy laws: distribution function, density, quantile function (numpy / scipy formulas) *)
Definition std_laplace_cdf (y : R) : R := if Rle_dec 0 y then 1 - / 2 * exp (- y) else / 2 * exp y.
Definition std_laplace_pdf (y : R) : R := / 2 * exp (- Rabs y).
Definition std_laplace_ppf (u : R) : R := if Rle_dec (1 / 2) u then - ln (2 - u - u) else ln (u + u).
Definition std_cauchy_cdf (y : R) : R := / 2 + atan y / PI.
Definition std_cauchy_pdf (y : R) : R := / (PI * (1 + y ^ 2)).
Definition std_cauchy_ppf (u : R) : R := tan (PI * u - PI / 2).

(* ---------------- base densities ---------------- *)
Definition std_normal_pdf (z : R) : R := / sqrt (2 * PI) * exp (- z ^ 2 / 2).
Definition std_uniform_pdf (u : R) : R := 1.                                 (* on 0 <= u < 1 *)
(* std_gamma_pdf Gam a g  (Model/C05_SampleR.v):  g^(a-1) exp(-g) / Gamma(a) *)

(* ---------------- the differential form of "the push-forward of the base law under g has density pdf" ----------------
   g maps the base support one-to-one onto the support, with inverse ginv; g is strictly monotone; ginv is differentiable on
   the support with derivative dginv, nowhere zero; and   base (ginv x) * |dginv x| = pdf x   at every point of the support. *)
Definition pushes (supp_b supp : R -> Prop) (g ginv dginv base pdf : R -> R) : Prop :=
  (forall u, supp_b u -> supp (g u) /\ ginv (g u) = u) /\
  (forall x, supp x -> supp_b (ginv x) /\ g (ginv x) = x /\ is_derive ginv x (dginv x) /\ dginv x <> 0 /\
                       base (ginv x) * Rabs (dginv x) = pdf x) /\
  ((forall u v, supp_b u -> supp_b v -> u < v -> g u < g v) \/ (forall u v, supp_b u -> supp_b v -> u < v -> g v < g u)).

Definition everywhere (x : R) : Prop := True.
Definition positive_R (x : R) : Prop := 0 < x.
Definition unit_open (u : R) : Prop := 0 < u < 1.
Definition unit_half_open (u : R) : Prop := 0 <= u < 1.

(* ---------------- Beta as a ratio of Gammas: the 2-d change of variables (x, s) -> (ga, gb) = (x s, (1 - x) s) ---------------- *)
Definition beta_ga (x s : R) : R := x * s.
Definition beta_gb (x s : R) : R := (1 - x) * s.

(* ---------------- comparison used by the correspondence (rational families) ---------------- *)
Close Scope R_scope.
Open Scope Q_scope.
Definition q_rel_close (tol a b : Q) : bool := Qle_bool (Qabs (a - b)) (tol * (1 + Qabs b)).
Inductive push_row :=
| PNormal (mean std z obs : Q)
| PUniform (low high u obs : Q)
| PGamma (rate g obs : Q)
| PBeta (ga gb obs : Q).
Definition push_row_ok (tol : Q) (r : push_row) : bool :=
  match r with
  | PNormal m s z o => q_rel_close tol o (normal_push_q m s z)
  | PUniform l h u o => q_rel_close tol o (uniform_push_q l h u)
  | PGamma r g o => negb (Qeq_bool r 0) && q_rel_close tol o (gamma_push_q r g)
  | PBeta ga gb o => negb (Qeq_bool (ga + gb) 0) && q_rel_close tol o (beta_push_q ga gb)
  end.
Definition check_push (rows : list push_row) : bool := forallb (push_row_ok (1 # 1000000000)) rows.
Close Scope Q_scope.
