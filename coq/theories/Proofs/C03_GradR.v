(* C03, part R -- proofs: every per-coordinate gradient formula is the derivative of the family's
   log-kernel on its support (Coquelicot), separable sums, derivative along a line, the Cauchy
   difference prior through its difference matrix (all sizes), and the forward-difference fallback. *)
From CV Require Import Base.Tac Base.LinAlg Model.C03_GradR.
From Coq Require Import Reals Lra RealField.
From Coquelicot Require Import Coquelicot.
Open Scope R_scope.

(* ---------- one derivative lemma per family ---------- *)
Lemma d_cauchy a b c x : supp Cauchy (a,b,c) x -> is_derive (lk Cauchy (a,b,c)) x (dk Cauchy (a,b,c) x).
Proof.
  unfold lk, dk, supp. intros Hb.
  pose proof PI_RGT_0 as Hpi. pose proof (pow2_ge_0 ((x - a) / b)) as Hsq.
  assert (Hpos : 0 < PI * b * (1 + ((x - a) / b) ^ 2)) by (apply Rmult_lt_0_compat; [apply Rmult_lt_0_compat|]; lra).
  auto_derive; [exact Hpos|].
  field. pose proof (pow2_ge_0 (x - a)). assert (0 < b ^ 2) by nra.
  repeat split; lra.
Qed.

Lemma d_beta a b c x : supp Beta (a,b,c) x -> is_derive (lk Beta (a,b,c)) x (dk Beta (a,b,c) x).
Proof.
  unfold lk, dk, supp. intros [H0 H1].
  auto_derive; [repeat split; lra|]. field. lra.
Qed.

Lemma d_invgamma a b c x : supp InvGamma (a,b,c) x -> is_derive (lk InvGamma (a,b,c)) x (dk InvGamma (a,b,c) x).
Proof.
  unfold lk, dk, supp. intros [H0 H1].
  assert (0 < (x - b) / c) by (apply Rdiv_lt_0_compat; lra).
  auto_derive; [repeat split; lra|]. field. lra.
Qed.

Lemma d_slap a b c x : supp SmoothedLaplace (a,b,c) x -> is_derive (lk SmoothedLaplace (a,b,c)) x (dk SmoothedLaplace (a,b,c) x).
Proof.
  unfold lk, dk, supp. intros [H0 H1].
  pose proof (pow2_ge_0 (x - a)) as Hsq.
  assert (Hp : 0 < (x - a) ^ 2 + c) by lra.
  auto_derive; [repeat split; lra|].
  replace ((x + - a) * ((x + - a) * 1) + c) with ((x - a) ^ 2 + c) by ring.
  pose proof (sqrt_lt_R0 _ Hp). field. lra.
Qed.

Lemma d_mhn a b c x : supp MHN (a,b,c) x -> is_derive (lk MHN (a,b,c)) x (dk MHN (a,b,c) x).
Proof.
  unfold lk, dk, supp. intros H0.
  auto_derive; [repeat split; lra|]. field. lra.
Qed.

Lemma d_lognormal a b c x : supp LognormalDiag (a,b,c) x -> is_derive (lk LognormalDiag (a,b,c)) x (dk LognormalDiag (a,b,c) x).
Proof.
  unfold lk, dk, supp. intros H0.
  auto_derive; [repeat split; lra|]. field. lra.
Qed.

Lemma d_normal a b c x : supp NormalKernel (a,b,c) x -> is_derive (lk NormalKernel (a,b,c)) x (dk NormalKernel (a,b,c) x).
Proof.
  unfold lk, dk, supp. intros _.
  auto_derive; [exact I|]. field.
Qed.

Lemma d_uniform a b c x : supp Uniform (a,b,c) x -> is_derive (lk Uniform (a,b,c)) x (dk Uniform (a,b,c) x).
Proof.
  unfold lk, dk, supp. intros _. auto_derive; [exact I|]. ring.
Qed.

Theorem lk_derive f p x : supp f p x -> is_derive (lk f p) x (dk f p x).
Proof.
  destruct p as [[a b] c]. destruct f.
  - apply d_cauchy. - apply d_beta. - apply d_invgamma. - apply d_slap. - apply d_mhn.
  - apply d_lognormal. - apply d_normal. - apply d_uniform.
Qed.

(* ---------- separable sums ---------- *)
Section Sep.
Variables (phi dphi : par -> R -> R) (S : par -> R -> Prop).
Hypothesis Hd : forall p x, S p x -> is_derive (phi p) x (dphi p x).

Lemma sepsum_upd_derive : forall ps xs i p0 x0,
  nth_error ps i = Some p0 -> nth_error xs i = Some x0 -> S p0 x0 ->
  is_derive (fun t => sepsum phi ps (upd i t xs)) x0 (dphi p0 x0).
Proof.
  induction ps as [|p ps IH]; intros xs i p0 x0 Hp Hx HS.
  - destruct i; discriminate.
  - destruct xs as [|x xs]; [destruct i; discriminate|].
    destruct i as [|i]; cbn in Hp, Hx.
    + inversion Hp; inversion Hx; subst. cbn [upd sepsum].
      evar (l : R). replace (dphi p0 x0) with l.
      * apply (is_derive_plus (fun t => phi p0 t) (fun _ => sepsum phi ps xs)); [apply Hd; exact HS| apply is_derive_const].
      * unfold l, plus, zero; cbn. ring.
    + cbn [upd sepsum].
      evar (l : R). replace (dphi p0 x0) with l.
      * apply (is_derive_plus (fun _ => phi p x) (fun t => sepsum phi ps (upd i t xs))); [apply is_derive_const| apply (IH xs i p0 x0 Hp Hx HS)].
      * unfold l, plus, zero; cbn. ring.
Qed.

Lemma sepmap_nth : forall ps xs i p0 x0,
  nth_error ps i = Some p0 -> nth_error xs i = Some x0 -> nth_error (sepmap dphi ps xs) i = Some (dphi p0 x0).
Proof.
  induction ps as [|p ps IH]; intros xs i p0 x0 Hp Hx.
  - destruct i; discriminate.
  - destruct xs as [|x xs]; [destruct i; discriminate|].
    destruct i as [|i]; cbn in *.
    + congruence.
    + apply IH; assumption.
Qed.

Lemma sepmap_length : forall ps xs, length ps = length xs -> length (sepmap dphi ps xs) = length xs.
Proof. induction ps as [|p ps IH]; intros [|x xs] H; cbn in *; try lia. f_equal. apply IH. lia. Qed.

(* derivative along a line: t |-> sepsum (y + t v) *)
Lemma sepsum_line_derive : forall ps ys vs, length ps = length ys -> length vs = length ys ->
  Forall2 S ps ys ->
  is_derive (fun t => sepsum phi ps (rvadd ys (rvscale t vs))) 0 (rdot (sepmap dphi ps ys) vs).
Proof.
  induction ps as [|p ps IH]; intros ys vs Hl Hv HS.
  - cbn. auto_derive; [exact I | ring].
  - destruct ys as [|y ys]; [discriminate|]. destruct vs as [|v vs]; [discriminate|].
    inversion HS as [|? ? ? ? HS1 HS2]; subst.
    apply (is_derive_ext (fun t => phi p (y + t * v) + sepsum phi ps (rvadd ys (rvscale t vs)))); [intros t; reflexivity|].
    change (rdot (sepmap dphi (p :: ps) (y :: ys)) (v :: vs)) with (dphi p y * v + rdot (sepmap dphi ps ys) vs).
    evar (l : R). replace (dphi p y * v + rdot (sepmap dphi ps ys) vs) with l.
    + apply (is_derive_plus (fun t => phi p (y + t * v)) (fun t => sepsum phi ps (rvadd ys (rvscale t vs)))).
      * apply (is_derive_comp (phi p) (fun t => y + t * v)).
        -- replace (y + 0 * v) with y by ring. apply Hd. exact HS1.
        -- instantiate (1 := v). auto_derive; [exact I| ring].
      * apply IH; [cbn in Hl; lia | cbn in Hv; lia | exact HS2].
    + unfold l, plus, scal; cbn. unfold mult; cbn. ring.
Qed.
End Sep.

(* ---------- families: partial derivatives of the vector log-kernel ---------- *)
Lemma upd_length : forall i t xs, length (upd i t xs) = length xs.
Proof. induction i as [|i IH]; intros t [|x xs]; cbn; try reflexivity. f_equal. apply IH. Qed.

Theorem fam_partial_derive (f : dfamily) (a b c xs : list R) (i : nat) (p0 : par) (x0 : R) :
  nth_error (params (length xs) a b c) i = Some p0 -> nth_error xs i = Some x0 -> supp f p0 x0 ->
  is_derive (fun t => fam_logk f a b c (upd i t xs)) x0 (dk f p0 x0)
  /\ nth_error (fam_grad f a b c xs) i = Some (dk f p0 x0).
Proof.
  intros Hp Hx HS. split.
  - unfold fam_logk.
    apply (is_derive_ext (fun t => sepsum (lk f) (params (length xs) a b c) (upd i t xs))).
    + intros t. rewrite upd_length. reflexivity.
    + apply (sepsum_upd_derive (lk f) (dk f) (supp f) (lk_derive f) _ xs i p0 x0 Hp Hx HS).
  - unfold fam_grad. apply (sepmap_nth (dk f)); assumption.
Qed.

(* derivative along any direction, all sizes, on the support *)
Theorem fam_directional_derive (f : dfamily) (a b c xs ds : list R) :
  length (params (length xs) a b c) = length xs -> length ds = length xs ->
  Forall2 (supp f) (params (length xs) a b c) xs ->
  is_derive (fun t => fam_logk f a b c (rvadd xs (rvscale t ds))) 0 (rdot (fam_grad f a b c xs) ds).
Proof.
  intros Hl Hd HS. unfold fam_logk, fam_grad.
  apply (is_derive_ext (fun t => sepsum (lk f) (params (length xs) a b c) (rvadd xs (rvscale t ds)))).
  - intros t. unfold rvadd, rvscale. rewrite vadd_length; [reflexivity| rewrite vscale_length; lia].
  - apply (sepsum_line_derive (lk f) (dk f) (supp f) (lk_derive f)); assumption.
Qed.

(* ---------- R instance of the list linear algebra ---------- *)
Lemma r_adjoint n A x y : wf_mat n A -> length x = n -> rdot (rmatvec A x) y = rdot x (rmattvec n A y).
Proof. apply (adjoint_identity R 0 1 Rplus Rmult Rminus Ropp RTheory). Qed.

Lemma r_matvec_line n A x d t : wf_mat n A -> length x = n -> length d = n ->
  rmatvec A (rvadd x (rvscale t d)) = rvadd (rmatvec A x) (rvscale t (rmatvec A d)).
Proof.
  intros HA Hx Hd. unfold rmatvec, rvadd, rvscale.
  rewrite (matvec_vadd R 0 1 Rplus Rmult Rminus Ropp RTheory A x (vscale Rmult t d) n HA Hx)
    by (rewrite vscale_length; exact Hd).
  rewrite (matvec_vscale R 0 1 Rplus Rmult Rminus Ropp RTheory). reflexivity.
Qed.

(* ---------- Cauchy difference prior: chain rule through the difference matrix, all sizes ---------- *)
Lemma cm_derive sc y : sc <> 0 -> is_derive (cm_lk sc) y (cm_dk sc y).
Proof.
  intros Hs. unfold cm_lk, cm_dk.
  assert (0 < y ^ 2 + sc ^ 2) by (pose proof (pow2_ge_0 y); pose proof (pow2_gt_0 sc Hs); lra).
  auto_derive; [lra|]. field. lra.
Qed.

Lemma rsum_map_sepsum sc ys : rsum (map (cm_lk sc) ys) = sepsum (fun _ y => cm_lk sc y) (map (fun _ => (0, 0, 0)) ys) ys.
Proof. induction ys as [|y ys IH]; cbn; [reflexivity | rewrite IH; reflexivity]. Qed.

Lemma map_sepmap sc ys : map (cm_dk sc) ys = sepmap (fun _ y => cm_dk sc y) (map (fun _ => (0, 0, 0)) ys) ys.
Proof. induction ys as [|y ys IH]; cbn; [reflexivity | rewrite IH; reflexivity]. Qed.

Lemma rvsub_line : forall x d l t, length d = length x -> length l = length x ->
  rvsub (rvadd x (rvscale t d)) l = rvadd (rvsub x l) (rvscale t d).
Proof.
  induction x as [|a x IH]; intros [|b d] [|c l] t Hd Hl; cbn in *; try lia; try reflexivity.
  f_equal; [ring | apply IH; lia].
Qed.

(* the repaired formula (difference of val - location) is the derivative of the log-density along
   every direction, for every difference matrix D with n columns, every location vector *)
Theorem cmrf_directional_derive n (D : list (list R)) (loc x d : list R) (sc : R) :
  wf_mat n D -> length x = n -> length d = n -> length (bcast n loc) = n -> sc <> 0 ->
  is_derive (fun t => cmrf_logk D loc sc (rvadd x (rvscale t d))) 0 (rdot (cmrf_grad true D loc sc x) d).
Proof.
  intros HD Hx Hd Hl Hs. unfold cmrf_logk, cmrf_grad. rewrite Hx.
  set (y := rmatvec D (rvsub x (bcast n loc))).
  apply (is_derive_ext (fun t => sepsum (fun _ y => cm_lk sc y) (map (fun _ => (0, 0, 0)) y)
                                   (rvadd y (rvscale t (rmatvec D d))))).
  - intros t.
    assert (Hlen : length (rvadd x (rvscale t d)) = n).
    { unfold rvadd, rvscale. rewrite vadd_length; [exact Hx | rewrite vscale_length; lia]. }
    rewrite Hlen. rewrite rvsub_line by lia.
    rewrite (r_matvec_line n) by (try assumption; unfold rvsub; rewrite vsub_length; lia).
    fold y. rewrite rsum_map_sepsum.
    assert (Hy : length (rvadd y (rvscale t (rmatvec D d))) = length y).
    { unfold rvadd, rvscale, rmatvec, y. rewrite vadd_length; [reflexivity|].
      rewrite vscale_length. unfold rmatvec. rewrite !matvec_length. reflexivity. }
    f_equal. clear -Hy. revert Hy. generalize (rvadd y (rvscale t (rmatvec D d))) as z. 
    induction y as [|a y IH]; intros [|b z] H; cbn in *; try lia; try reflexivity. f_equal. apply IH. lia.
  - assert (Hadj : rdot (rmattvec n D (map (cm_dk sc) y)) d = rdot (map (cm_dk sc) y) (rmatvec D d)).
    { unfold rdot at 1. rewrite (dot_comm R 0 1 Rplus Rmult Rminus Ropp RTheory). fold rdot.
      rewrite <- (r_adjoint n D d (map (cm_dk sc) y) HD Hd).
      unfold rdot. apply (dot_comm R 0 1 Rplus Rmult Rminus Ropp RTheory). }
    rewrite Hadj. rewrite map_sepmap.
    apply (sepsum_line_derive (fun _ y => cm_lk sc y) (fun _ y => cm_dk sc y) (fun _ _ => True)).
    + intros _ y0 _. apply cm_derive. exact Hs.
    + rewrite map_length. reflexivity.
    + unfold y, rmatvec. rewrite !matvec_length. reflexivity.
    + clear. induction y as [|a y IH]; cbn; constructor; [exact I | exact IH].
Qed.

(* the code as it is (difference of val, location ignored) is the repaired formula evaluated for
   location 0: it is the derivative exactly when D loc = 0 (e.g. loc = 0), and differs otherwise *)
Lemma bcast_length_1 n (a : R) : length (bcast n (a :: nil)) = n.
Proof. cbn. apply repeat_length. Qed.

Lemma rvsub_zero : forall x, rvsub x (repeat 0 (length x)) = x.
Proof. induction x as [|a x IH]; cbn; [reflexivity|]. f_equal; [ring | exact IH]. Qed.

Theorem cmrf_unshifted_is_location_zero D loc sc x :
  cmrf_grad false D loc sc x = cmrf_grad true D (0 :: nil) sc x.
Proof. unfold cmrf_grad. cbn [bcast]. rewrite rvsub_zero. reflexivity. Qed.

(* ---------- the forward-difference fallback converges to the derivative of the same F ---------- *)
Lemma bump_upd : forall i eps xs x0, nth_error xs i = Some x0 -> bump i eps xs = upd i (x0 + eps) xs.
Proof.
  induction i as [|i IH]; intros eps [|x xs] x0 H; cbn in *; try discriminate.
  - inversion H; reflexivity.
  - f_equal. apply IH. exact H.
Qed.

Lemma upd_same : forall i xs x0, nth_error xs i = Some x0 -> upd i x0 xs = xs.
Proof.
  induction i as [|i IH]; intros [|x xs] x0 H; cbn in *; try discriminate.
  - inversion H; reflexivity.
  - f_equal. apply IH. exact H.
Qed.

Theorem fd_converges (F : list R -> R) (xs : list R) (i : nat) (x0 l : R) :
  nth_error xs i = Some x0 ->
  is_derive (fun t => F (upd i t xs)) x0 l ->
  forall tol : R, 0 < tol -> exists delta : posreal, forall eps : R, eps <> 0 -> Rabs eps < delta ->
    Rabs (fd_coord F xs eps i - l) < tol.
Proof.
  intros Hx Hd tol Htol.
  apply is_derive_Reals in Hd. destruct (Hd tol Htol) as [delta Hdelta].
  exists delta. intros eps He Hlt. unfold fd_coord.
  rewrite (bump_upd i eps xs x0 Hx).
  specialize (Hdelta eps He Hlt). cbn beta in Hdelta.
  rewrite (upd_same i xs x0 Hx) in Hdelta. exact Hdelta.
Qed.
