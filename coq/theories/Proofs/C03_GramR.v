(* C03 -- Gram matrices over R: the GMRF prior whose structure matrix is D^T D for ANY difference operator D (no symmetry
   hypothesis left), and the Gaussian sqrtprec form with the precision written out as the matrix sqrtprec^T sqrtprec. *)
From CV Require Import Base.Tac Base.LinAlg Model.C03_GradR Proofs.C03_GradR Proofs.C03_Quad Proofs.C03_QuadR Proofs.C03_LikGen Proofs.C03_Lik Proofs.C03_Sym Proofs.C03_SymR Proofs.C03_Gram.
From Coq Require Import Reals Lra RealField.
From Coquelicot Require Import Coquelicot.
Open Scope R_scope.

Definition rmatmul := matmul 0 Rplus Rmult.
Definition rgram (n : nat) (D : list (list R)) : list (list R) := rmatmul n (rtranspose n D) D.

Lemma rgram_shape n D : wf_mat n D -> wf_mat n (rgram n D) /\ length (rgram n D) = n.
Proof.
  intros HD. split; [apply matmul_wf; exact HD|]. unfold rgram, rmatmul, rtranspose. rewrite matmul_length. apply transpose_length.
Qed.

Lemma rgram_transpose n D : wf_mat n D -> rtranspose n (rgram n D) = rgram n D.
Proof. exact (gram_transpose R 0 1 Rplus Rmult Rminus Ropp RTheory n D). Qed.

(* GMRF with the structure matrix D^T D of any difference operator D (k x n): -delta D^T D (x - mean) is the gradient *)
Theorem gmrf_prior_gram_derive n delta D m x d :
  wf_mat n D -> length m = n -> length x = n -> length d = n ->
  is_derive (fun t => rgmrf_logk delta (rgram n D) m (rvadd x (rvscale t d))) 0 (rdot (rgmrf_grad delta (rgram n D) m x) d).
Proof.
  intros HD Hm Hx Hd. destruct (rgram_shape n D HD) as [Hwf Hn].
  apply (gmrf_prior_derive n delta (rgram n D) m x d Hwf Hn (rgram_transpose n D HD) Hm Hx Hd).
Qed.

(* Gaussian, sqrtprec = any matrix S with n columns: -(S^T S)(x - mean) is the gradient of -1/2 (x-mean)^T (S^T S) (x-mean) *)
Theorem gaussian_sqrtprec_derive n S m x d :
  wf_mat n S -> length m = n -> length x = n -> length d = n ->
  is_derive (fun t => rquad_logk (rgram n S) m (rvadd x (rvscale t d))) 0 (rdot (rquad_grad (rgram n S) m x) d).
Proof.
  intros HS Hm Hx Hd. destruct (rgram_shape n S HS) as [Hwf Hn].
  apply (quad_prior_derive_T n (rgram n S) m x d Hwf Hn (rgram_transpose n S HS) Hm Hx Hd).
Qed.
