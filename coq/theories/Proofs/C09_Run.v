(* C09 -- whole runs: invariants carried through sample / warm-up sequences, cached target evaluations,
   legacy continuation. *)
From CV Require Import Base.Tac Base.Cmp Model.C09_Gibbs Proofs.C09_Wiring.
From Coq Require Import QArith.
Local Open Scope nat_scope.

Section Runs.
Context {V L St R : Type}.
Variable condf : list V -> nat -> V -> L.
Variable point : St -> V.
Variable reinit : nat -> (V -> L) -> St -> St.
Variable trans : nat -> (V -> L) -> St -> R -> St.
Variable tune : nat -> nat -> nat -> St -> St.
Variable nst : nat -> nat.

Notation ev := (@ev V L St).
Notation gst := (@gst V St).
Notation run := (@run V L St).
Notation sweep := (sweep condf point reinit trans nst).
Notation sample_n := (sample_n condf point reinit trans nst).
Notation warmup_n := (warmup_n condf point reinit trans tune nst).
Notation run_ops := (run_ops condf point reinit trans tune nst).
Notation iter_trans := (iter_trans trans).

Definition wf (g : gst) : Prop := length (g_ss g) = length (g_cur g).

Lemma sweep_wf rs st : wf st -> wf (fst (sweep rs st)).
Proof.
  intros H. destruct (sweep_lengths condf point reinit trans nst rs st H) as [H1 H2].
  unfold wf. unfold new_cur, new_ss in *. congruence.
Qed.

Lemma mapi_from_length {A B} (f : nat -> A -> B) l : forall i, length (mapi_from f i l) = length l.
Proof. induction l as [|x r IH]; intros i; simpl; auto. Qed.

Lemma mapi_from_Forall {A B} (P : A -> Prop) (Q : B -> Prop) (f : nat -> A -> B) l :
  (forall i a, P a -> Q (f i a)) -> forall i, Forall P l -> Forall Q (mapi_from f i l).
Proof. intros H. induction l as [|x r IH]; intros i HF; simpl; constructor; inversion HF; subst; auto. Qed.

Lemma tune_all_wf ti c st : wf st -> wf (tune_all tune ti c st).
Proof. unfold wf, tune_all, mapi. cbn [g_ss g_cur]. now rewrite mapi_from_length. Qed.

(* a property of samplers (ok) and a property of logged events (P) that every sweep from a well-formed state with ok
   samplers establishes / preserves hold along every sequence of sample and warm-up calls *)
Section Invariant.
Variable ok : St -> Prop.
Variable P : ev -> Prop.
Hypothesis sweep_P : forall rs st, wf st -> Forall ok (g_ss st) ->
  (forall e, In e (snd (sweep rs st)) -> P e) /\ Forall ok (g_ss (fst (sweep rs st))).
Hypothesis tune_ok : forall i a b s, ok s -> ok (tune i a b s).

Definition rinv (x : run) : Prop := wf (r_st x) /\ Forall ok (g_ss (r_st x)) /\ Forall P (r_log x).

Lemma one_sweep_inv rs x :
  rinv x -> rinv (mkRun (fst (sweep rs (r_st x))) (r_stored x ++ [g_cur (fst (sweep rs (r_st x)))]) (r_log x ++ snd (sweep rs (r_st x)))).
Proof.
  intros (H1 & H2 & H3). destruct (sweep_P rs (r_st x) H1 H2) as [HP Hok].
  repeat split; cbn [r_st r_log]; auto using sweep_wf.
  apply Forall_app; split; auto. apply Forall_forall; auto.
Qed.

Lemma sample_n_inv rnd n : forall t0 x, rinv x -> rinv (sample_n rnd n t0 x).
Proof. induction n as [|n IH]; intros t0 x Hx; cbn [C09_Gibbs.sample_n]; auto. apply IH. now apply one_sweep_inv. Qed.

Lemma warmup_n_inv rnd ti n : forall idx t0 x, rinv x -> rinv (warmup_n rnd ti n idx t0 x).
Proof.
  induction n as [|n IH]; intros idx t0 x Hx; cbn [C09_Gibbs.warmup_n]; auto. apply IH.
  destruct (one_sweep_inv (rnd t0) x Hx) as (H1 & H2 & H3). cbn [r_st r_log] in *.
  destruct (S idx mod ti =? 0)%nat; repeat split; cbn [r_st r_log]; auto.
  - now apply tune_all_wf.
  - unfold tune_all, mapi. cbn [g_ss]. eapply mapi_from_Forall; [|exact H2]. intros; now apply tune_ok.
Qed.

Theorem run_ops_inv rnd ops : forall t0 x, rinv x -> rinv (run_ops rnd ops t0 x).
Proof.
  induction ops as [|[n|n ti] r IH]; intros t0 x Hx; cbn [C09_Gibbs.run_ops]; auto; apply IH.
  - now apply sample_n_inv.
  - now apply warmup_n_inv.
Qed.
End Invariant.

(* ---------------- the target of EVERY transition of a whole run ---------------- *)
Definition ev_conditional (e : ev) : Prop :=
  e_tgt e = condf (e_cur e) (e_blk e) /\ e_blk e < length (e_cur e).

Lemma sweep_ev_conditional rs st : wf st -> Forall (fun _ : St => True) (g_ss st) ->
  (forall e, In e (snd (sweep rs st)) -> ev_conditional e) /\ Forall (fun _ : St => True) (g_ss (fst (sweep rs st))).
Proof.
  intros Hwf _. split; [|apply Forall_forall; auto].
  intros e He. split.
  - apply (sweep_target_is_current_conditional condf point reinit trans nst rs st Hwf e He).
  - apply (sweep_event_valid condf point reinit trans nst rs st Hwf e He).
Qed.

Theorem run_targets rnd ops t0 x :
  wf (r_st x) -> Forall ev_conditional (r_log x) ->
  Forall ev_conditional (r_log (run_ops rnd ops t0 x)).
Proof.
  intros H1 H2.
  apply (run_ops_inv (fun _ => True) ev_conditional sweep_ev_conditional (fun _ _ _ _ _ => I) rnd ops t0 x).
  repeat split; auto. apply Forall_forall; auto.
Qed.

Theorem run_targets_joint (joint : list V -> L) rnd ops t0 x :
  (forall cur i y, nth_error cur i = Some y -> forall v, condf cur i v = joint (upd cur i v)) ->
  wf (r_st x) -> Forall ev_conditional (r_log x) ->
  Forall (fun e => forall v, e_tgt e v = joint (upd (e_cur e) (e_blk e) v)) (r_log (run_ops rnd ops t0 x)).
Proof.
  intros Hc01 H1 H2. pose proof (run_targets rnd ops t0 x H1 H2) as H.
  eapply Forall_impl; [|exact H]. intros e [E1 E2] v.
  destruct (nth_error (e_cur e) (e_blk e)) as [y|] eqn:Ey; [|apply nth_error_None in Ey; lia].
  rewrite E1. exact (Hc01 _ _ _ Ey v).
Qed.

(* ---------------- cached target evaluations ---------------- *)
Section Cache.
Variable ok : St -> Prop.                          (* the class of block samplers the statement is about *)
Variable consistent : (V -> L) -> St -> Prop.      (* "what s caches about its target are evaluations of t" *)
Hypothesis ok_re : forall i t s, ok s -> ok (reinit i t s).
Hypothesis ok_tr : forall i t s r, ok s -> ok (trans i t s r).
Hypothesis ok_tune : forall i a b s, ok s -> ok (tune i a b s).
Hypothesis c_re : forall i t s, ok s -> consistent t (reinit i t s).
Hypothesis c_tr : forall i t s r, ok s -> consistent t s -> consistent t (trans i t s r).

Lemma iter_ok i t rs n : forall j s, ok s -> consistent t s ->
  ok (iter_trans i t n j rs s) /\ consistent t (iter_trans i t n j rs s).
Proof. induction n as [|n IH]; intros j s H1 H2; cbn [C09_Wiring.iter_trans]; auto. Qed.

Lemma sweep_cache rs st : wf st -> Forall ok (g_ss st) ->
  (forall e, In e (snd (sweep rs st)) -> consistent (e_tgt e) (e_s e)) /\ Forall ok (g_ss (fst (sweep rs st))).
Proof.
  intros Hwf Hok. split.
  - intros e He. destruct (sweep_k_transitions condf point reinit trans nst rs st Hwf e He) as (s & Hs & _ & Hes).
    cbn zeta in *. rewrite Hes. apply iter_ok; [apply ok_re | apply c_re];
      (eapply Forall_forall; [exact Hok | eapply nth_error_In; exact Hs]).
  - apply Forall_forall. intros s' Hin. apply In_nth_error in Hin as [i Hi].
    assert (Hlt : i < length (g_ss st)).
    { destruct (sweep_lengths condf point reinit trans nst rs st Hwf) as [_ H2]. unfold new_ss in H2.
      rewrite Hwf, <- H2. apply nth_error_Some. congruence. }
    destruct (nth_error (g_ss st) i) as [s|] eqn:Es; [|apply nth_error_None in Es; lia].
    destruct (sweep_result condf point reinit trans nst rs st Hwf i s Es) as [E1 _]. cbn zeta in E1.
    unfold new_ss in E1. rewrite E1 in Hi. inversion Hi; subst.
    apply iter_ok; [apply ok_re | apply c_re]; (eapply Forall_forall; [exact Hok | eapply nth_error_In; exact Es]).
Qed.

Theorem run_cache_consistent rnd ops t0 x :
  wf (r_st x) -> Forall ok (g_ss (r_st x)) -> Forall (fun e => consistent (e_tgt e) (e_s e)) (r_log x) ->
  Forall (fun e => consistent (e_tgt e) (e_s e)) (r_log (run_ops rnd ops t0 x)).
Proof.
  intros H1 H2 H3.
  apply (run_ops_inv ok (fun e => consistent (e_tgt e) (e_s e)) sweep_cache ok_tune rnd ops t0 x); repeat split; auto.
Qed.
End Cache.

(* ---------------- samplers stay in step with current_samples; every update starts from the current value ------- *)
Section Synced.
Hypothesis reinit_point : forall i t s, point (reinit i t s) = point s.
Hypothesis tune_point : forall i a b s, point (tune i a b s) = point s.

Definition insync (g : gst) : Prop :=
  wf g /\ forall i s, nth_error (g_ss g) i = Some s -> nth_error (g_cur g) i = Some (point s).

Lemma sweep_insync rs st : insync st -> insync (fst (sweep rs st)).
Proof.
  intros [H1 H2]. split; [now apply sweep_wf|].
  intros i s Hs. apply (sweep_keeps_synced condf point reinit trans nst rs st H1 i s Hs).
Qed.

Lemma nth_error_mapi_from {A B} (f : nat -> A -> B) l : forall k i,
  nth_error (mapi_from f k l) i = match nth_error l i with Some a => Some (f (k + i) a) | None => None end.
Proof.
  induction l as [|x r IH]; intros k [|i]; simpl; auto.
  - now rewrite Nat.add_0_r.
  - rewrite IH. destruct (nth_error r i); auto. do 2 f_equal. lia.
Qed.

Lemma tune_all_insync ti c st : insync st -> insync (tune_all tune ti c st).
Proof.
  intros [H1 H2]. split; [now apply tune_all_wf|].
  intros i s Hs. unfold tune_all, mapi in *. cbn [g_ss g_cur] in *.
  rewrite nth_error_mapi_from in Hs. destruct (nth_error (g_ss st) i) as [s0|] eqn:E; [|discriminate].
  inversion Hs; subst. rewrite tune_point. auto.
Qed.

Lemma sample_n_insync rnd n : forall t0 x, insync (r_st x) -> insync (r_st (sample_n rnd n t0 x)).
Proof.
  induction n as [|n IH]; intros t0 x Hx; cbn [C09_Gibbs.sample_n]; auto. apply IH. cbn [r_st]. now apply sweep_insync.
Qed.

Lemma warmup_n_insync rnd ti n : forall idx t0 x, insync (r_st x) -> insync (r_st (warmup_n rnd ti n idx t0 x)).
Proof.
  induction n as [|n IH]; intros idx t0 x Hx; cbn [C09_Gibbs.warmup_n]; auto. apply IH. cbn [r_st].
  destruct (S idx mod ti =? 0)%nat; [apply tune_all_insync|]; now apply sweep_insync.
Qed.

Theorem run_ops_insync rnd ops : forall t0 x, insync (r_st x) -> insync (r_st (run_ops rnd ops t0 x)).
Proof.
  induction ops as [|[n|n ti] r IH]; intros t0 x Hx; cbn [C09_Gibbs.run_ops]; auto; apply IH.
  - now apply sample_n_insync.
  - now apply warmup_n_insync.
Qed.
End Synced.
End Runs.

(* ---------------- legacy Gibbs: continuation ---------------- *)
Section LegacyCont.
Context {V L R : Type}.
Variable condf : list V -> nat -> V -> L.
Variable ltrans : nat -> (V -> L) -> V -> R -> V.
Notation lsweeps := (lsweeps condf ltrans).
Notation lsample := (lsample condf ltrans).

Lemma last_or_app (d : list V) l l' : last_or (last_or d l) l' = last_or d (l ++ l').
Proof.
  unfold last_or. rewrite rev_app_distr. destruct (rev l') as [|c r]; simpl; auto.
Qed.

Lemma lsweeps_app rnd n : forall m t0 cur,
  lsweeps rnd (n + m) t0 cur =
  (fst (lsweeps rnd n t0 cur) ++ fst (lsweeps rnd m (t0 + n) (last_or cur (fst (lsweeps rnd n t0 cur)))),
   snd (lsweeps rnd n t0 cur) ++ snd (lsweeps rnd m (t0 + n) (last_or cur (fst (lsweeps rnd n t0 cur))))).
Proof.
  induction n as [|n IH]; intros m t0 cur.
  - cbn [Nat.add C09_Gibbs.lsweeps fst snd app]. unfold last_or. cbn [rev]. rewrite Nat.add_0_r. now destruct (lsweeps rnd m t0 cur).
  - cbn [Nat.add C09_Gibbs.lsweeps fst snd]. rewrite IH. cbn [fst snd].
    set (c1 := fst (lsweep condf ltrans (rnd t0) cur)).
    assert (E : last_or cur (c1 :: fst (lsweeps rnd n (S t0) c1)) = last_or c1 (fst (lsweeps rnd n (S t0) c1))).
    { unfold last_or. cbn [rev]. destruct (rev (fst (lsweeps rnd n (S t0) c1))); reflexivity. }
    rewrite E. replace (t0 + S n) with (S t0 + n) by lia. rewrite <- !app_assoc. reflexivity.
Qed.

Lemma last_col_last_or (d : list V) l c : last_col l = Some c -> last_or d l = c.
Proof. unfold last_col, last_or. destruct (rev l); congruence. Qed.

Lemma last_col_app_nonempty (old l : list (list V)) : l <> [] -> last_col (old ++ l) = Some (last_or [] l).
Proof.
  intros H. unfold last_col, last_or. rewrite rev_app_distr.
  destruct (rev l) as [|c r] eqn:E; [|reflexivity].
  apply (f_equal (@rev _)) in E. rewrite rev_involutive in E. contradiction.
Qed.

(* a second call sample(ns2) continues from the last stored sweep: same samples and same transitions as one call
   with ns1 + ns2 (first call with or without warm-up; ns1 > 0) *)
Theorem legacy_continuation rnd init0 ns1 ns2 nb t0 st1 lg1 :
  0 < ns1 ->
  lsample rnd init0 ns1 nb t0 (mkL None None) = LOk st1 lg1 ->
  exists st2 lg2,
    lsample rnd init0 ns2 0 (t0 + nb + ns1) st1 = LOk st2 lg2 /\
    lsample rnd init0 (ns1 + ns2) nb t0 (mkL None None) = LOk (mkL (l_samples st2) (l_warm st1)) (lg1 ++ lg2).
Proof.
  intros Hns H. unfold C09_Gibbs.lsample in *. cbn [l_initial l_samples l_warm] in *.
  set (w := lsweeps rnd nb t0 init0) in *.
  set (cur1 := last_or init0 (fst w)) in *.
  inversion H; subst st1 lg1; clear H. cbn [l_initial l_samples l_warm app].
  set (s1 := lsweeps rnd ns1 (t0 + nb) cur1).
  assert (Hne : fst s1 <> []).
  { unfold s1. destruct ns1 as [|n]; [lia|]. cbn [C09_Gibbs.lsweeps fst]. discriminate. }
  pose proof (last_col_app_nonempty [] (fst s1) Hne) as E0. cbn [app] in E0.
  unfold l_initial. cbn [l_samples l_warm]. rewrite E0. clear E0.
  eexists _, _. split; [reflexivity|]. cbn [l_samples l_warm].
  rewrite (lsweeps_app rnd ns1 ns2 (t0 + nb) cur1). fold s1. cbn [fst snd].
  assert (E : last_or cur1 (fst s1) = last_or [] (fst s1)).
  { unfold last_or. destruct (rev (fst s1)) eqn:Er; [|reflexivity].
    apply (f_equal (@rev _)) in Er. rewrite rev_involutive in Er. contradiction. }
  rewrite E. cbn [C09_Gibbs.lsweeps fst snd app]. rewrite Nat.add_0_r.
  unfold last_or at 1 3. cbn [rev]. rewrite !app_assoc. reflexivity.
Qed.

(* a call that only warms up (ns = 0) is continued from its last warm-up sweep (repo commit 2dba9ab) *)
Theorem legacy_continuation_after_warmup rnd init0 ns2 nb t0 :
  0 < nb ->
  exists st1 lg1 st2 lg2 c,
    lsample rnd init0 0 nb t0 (mkL None None) = LOk st1 lg1 /\
    last_col (fst (lsweeps rnd nb t0 init0)) = Some c /\
    lsample rnd init0 ns2 0 (t0 + nb) st1 = LOk st2 lg2 /\
    l_samples st2 = Some (fst (lsweeps rnd ns2 (t0 + nb) c)) /\ lg2 = snd (lsweeps rnd ns2 (t0 + nb) c).
Proof.
  intros Hnb. unfold C09_Gibbs.lsample. cbn [l_initial l_samples l_warm].
  set (w := lsweeps rnd nb t0 init0).
  assert (Hne : fst w <> []).
  { unfold w. destruct nb as [|n]; [lia|]. cbn [C09_Gibbs.lsweeps fst]. discriminate. }
  pose proof (last_col_app_nonempty [] (fst w) Hne) as E0. cbn [app] in E0.
  eexists _, _, _, _, (last_or [] (fst w)). split; [reflexivity|]. split; [exact E0|].
  unfold l_initial. cbn [C09_Gibbs.lsweeps fst snd l_samples l_warm app last_col rev]. rewrite E0.
  cbn [C09_Gibbs.lsweeps fst snd app]. unfold last_or at 1. cbn [rev].
  rewrite Nat.add_0_r. split; [reflexivity|]. split; reflexivity.
Qed.
End LegacyCont.
