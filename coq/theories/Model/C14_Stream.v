(* C14 -- the position of the RANDOM STREAM is part of the state that makes `sample(N); sample(M)` continue as one call
   would.  Executable model, no proofs.

   A sampler (stateful interface, HybridGibbs, legacy Gibbs) draws its variates from ONE stream (numpy.random's module-level
   generator).  A call -- sample(n), warmup(n), one more sample() call of a Gibbs sampler -- consists of
     (1) work done once PER CALL: _ensure_initialized, _pre_sample / _pre_warmup, batch / progress set-up, (for a
         Gibbs sampler) allocation, validation, (re)initialisation ...  -- `pre`;
     (2) the transitions, each of a `kind` (a plain transition, a transition followed by tune(skip_len, update_count) ...)
         -- `step`.
   Both read the stream from the current position and say how many variates they consumed. *)
From CV Require Import Base.Tac Base.Cmp Model.C14_Chain.

Section StreamMachine.
Variables Cfg St Pt V K : Type.

Definition stream := nat -> V.
Definition shift (s : stream) (k : nat) : stream := fun i => s (k + i)%nat.

Variable step : Cfg -> K -> St -> stream -> St * nat.   (* one transition of kind K: new state, variates consumed *)
Variable pre : Cfg -> St -> stream -> St * nat.         (* per-call work: new state, variates consumed *)
Variable point : St -> Pt.

(* state, position in the stream, recorded chain *)
Record core := mkCore { c_st : St; c_pos : nat; c_rec : list Pt }.

Definition one (c : Cfg) (str : stream) (r : core) (k : K) : core :=
  let sa := step c k (c_st r) (shift str (c_pos r)) in
  mkCore (fst sa) (c_pos r + snd sa) (c_rec r ++ [point (fst sa)]).

Definition transitions (c : Cfg) (str : stream) (r : core) (ks : list K) : core := fold_left (one c str) ks r.

Definition enter (c : Cfg) (str : stream) (r : core) : core :=
  let pa := pre c (c_st r) (shift str (c_pos r)) in mkCore (fst pa) (c_pos r + snd pa) (c_rec r).

(* one call: per-call work, then the transitions *)
Definition call (c : Cfg) (str : stream) (r : core) (ks : list K) : core := transitions c str (enter c str r) ks.

Definition calls (c : Cfg) (str : stream) (r : core) (kss : list (list K)) : core := fold_left (call c str) kss r.

(* number of variates each call consumed (what the harness measures around every call) *)
Fixpoint used (c : Cfg) (str : stream) (r : core) (kss : list (list K)) : list nat :=
  match kss with
  | [] => []
  | ks :: rest => let r' := call c str r ks in (c_pos r' - c_pos r)%nat :: used c str r' rest
  end.
End StreamMachine.

Arguments mkCore {St Pt}. Arguments c_st {St Pt}. Arguments c_pos {St Pt}. Arguments c_rec {St Pt}.

(* ------------------------------------------------------------------------------------------ *)
(* the trace instance evaluated by the generated cases: a state is its position in the chain of the uninterrupted run;
   transition number k consumes per[k] variates (measured INSIDE the transitions of the uninterrupted run: wrapped step /
   tune / sweep); per-call work consumes `percall` variates -- the footprint of the code that exists says 0 for every
   call of every sampler (nothing outside step / tune reaches numpy.random) *)
Definition ts_step (per : list nat) (_ : unit) (_ : unit) (k : nat) (_ : stream unit) : nat * nat := (S k, nth k per 0%nat).
Definition ts_pre (percall : nat) (_ : unit) (k : nat) (_ : stream unit) : nat * nat := (k, percall).

Definition ts_calls (per : list nat) (percall : nat) (sizes : list nat) : list nat :=
  used unit nat nat unit unit (ts_step per) (ts_pre percall) (fun k => k) tt (fun _ => tt) (mkCore 0%nat 0%nat [])
       (map units sizes).

(* a checkpoint loaded into a fresh sampler (constructed and initialised outside the compared stream) is not a call *)
Fixpoint op_sizes (ops : list top) : list nat :=
  match ops with
  | [] => []
  | TSample n :: r => n :: op_sizes r
  | TWarmup n _ _ :: r => n :: op_sizes r
  | TResume :: r => op_sizes r
  end.

Definition nl_eqb := list_eqb Nat.eqb.

(* observed: variates consumed by each sample / warmup call of the operation sequence, and the final position *)
Definition check_draws (per : list nat) (ops : list top) (obs_calls : list nat) (obs_total : nat) : bool :=
  nl_eqb (ts_calls per 0%nat (op_sizes ops)) obs_calls &&
  Nat.eqb (fold_right Nat.add 0%nat (firstn (fold_right Nat.add 0%nat (op_sizes ops)) per)) obs_total.

Definition check_draws_sizes (per : list nat) (sizes : list nat) (obs_calls : list nat) (obs_total : nat) : bool :=
  nl_eqb (ts_calls per 0%nat sizes) obs_calls &&
  Nat.eqb (fold_right Nat.add 0%nat (firstn (fold_right Nat.add 0%nat sizes) per)) obs_total.
