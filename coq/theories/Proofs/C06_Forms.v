(* C06 -- the ways of handing the Gaussians to LinearRTO: every prior family stands for its Gaussian factors,
   diagonal square roots obey the square-root law, the 5-tuple is the Posterior it builds. *)
From CV Require Import Base.Tac Base.LinAlg Base.Cmp Base.QcLin Model.C06_RTO Proofs.C06_Lin.
From Coq Require Import Ring QArith Qcanon Lqa.

Section F.
Variable R : Type.
Variables (r0 r1 : R) (radd rmul rsub : R -> R -> R) (ropp : R -> R).
Hypothesis Rth : ring_theory r0 r1 radd rmul rsub ropp (@eq R).
Add Ring Rring4 : Rth.

Notation vec := (list R).
Notation mat := (list (list R)).
Notation Dot := (dot r0 radd rmul).
Notation Matvec := (matvec r0 radd rmul).
Notation Mattvec := (mattvec r0 radd rmul).
Notation Vadd := (vadd radd).
Notation Vscale := (vscale rmul).
Notation Vzero := (vzero r0).
Notation Diag := (diag_of R r0).
Notation "x + y" := (radd x y).
Notation "x * y" := (rmul x y).

Let add_z_r := vadd_vzero_r R r0 r1 radd rmul rsub ropp Rth.
Let Sqrt_law := sqrt_law R r0 radd rmul.
Let Prior_repr := prior_repr R r0 radd rmul.

(* pointwise product *)
Fixpoint vmul (x y : vec) : vec :=
  match x, y with a :: x', b :: y' => (a * b) :: vmul x' y' | _, _ => [] end.

Lemma dot_vzero_l' n y : Dot (Vzero n) y = r0.
Proof. apply (dot_vzero_l R r0 r1 radd rmul rsub ropp Rth). Qed.

Lemma matvec_cons0 (D : mat) b x : Matvec (map (cons r0) D) (b :: x) = Matvec D x.
Proof. induction D as [|row D IH]; simpl; [reflexivity|]. f_equal; [ring | exact IH]. Qed.

Lemma diag_len v : length (Diag v) = length v.
Proof. induction v as [|a v IH]; simpl; [reflexivity|]. rewrite map_length, IH. reflexivity. Qed.

Lemma diag_wf v : wf_mat (length v) (Diag v).
Proof.
  induction v as [|a v IH]; simpl; constructor.
  - simpl. rewrite vzero_length. reflexivity.
  - apply Forall_forall. intros row Hin. apply in_map_iff in Hin as (row' & <- & Hin').
    simpl. f_equal. unfold wf_mat in IH. rewrite Forall_forall in IH. apply IH. exact Hin'.
Qed.

Lemma matvec_diag v x : length x = length v -> Matvec (Diag v) x = vmul v x.
Proof.
  revert x; induction v as [|a v IH]; intros [|b x] H; simpl in *; try lia; try reflexivity.
  rewrite matvec_cons0, IH by lia. f_equal. rewrite dot_vzero_l'. ring.
Qed.

Lemma mattvec_cons0 k (D : mat) y : wf_mat k D -> Mattvec (S k) (map (cons r0) D) y = r0 :: Mattvec k D y.
Proof.
  intros H; revert y; induction H as [|row D Hr HD IH]; intros y; simpl.
  - destruct y; reflexivity.
  - destruct y as [|c y]; simpl; [reflexivity|]. rewrite IH. simpl. f_equal. ring.
Qed.

Lemma mattvec_diag v y : length y = length v -> Mattvec (length v) (Diag v) y = vmul v y.
Proof.
  revert y; induction v as [|a v IH]; intros [|b y] H; simpl in *; try lia; try reflexivity.
  rewrite mattvec_cons0 by apply diag_wf. rewrite IH by lia. simpl.
  rewrite (vscale_vzero R r0 r1 radd rmul rsub ropp Rth).
  f_equal; [ring|].
  rewrite (vadd_vzero_l R r0 r1 radd rmul rsub ropp Rth); [reflexivity|].
  clear IH. revert y H. induction v as [|c v IHv]; intros [|d y] H; simpl in *; try lia; try reflexivity.
  f_equal. apply IHv. lia.
Qed.

Lemma vmul_len x y : length x = length y -> length (vmul x y) = length x.
Proof. revert y; induction x as [|a x IH]; intros [|b y] H; simpl in *; try lia. f_equal. apply IH. lia. Qed.

Lemma vmul_assoc2 s p x : Forall2 (fun a b => a * a = b) s p -> length x = length s ->
  vmul s (vmul s x) = vmul p x.
Proof.
  intros H; revert x; induction H as [|a b s p E H IH]; intros [|c x] Hx; simpl in *; try lia; try reflexivity.
  rewrite IH by lia. f_equal. rewrite <- E. ring.
Qed.

Lemma Forall2_len {A B} (P : A -> B -> Prop) l l' : Forall2 P l l' -> length l = length l'.
Proof. intros H; induction H; simpl; [reflexivity | f_equal; assumption]. Qed.

(* a diagonal S with S_ii^2 = P_ii is a square root of the diagonal precision P: scalar and vector input forms *)
Theorem diag_sqrt_law s p : Forall2 (fun a b => a * a = b) s p ->
  Sqrt_law (length s) (Diag s) (Diag p).
Proof.
  intros H v Hv. assert (Hp : length p = length s) by (symmetry; eapply Forall2_len; exact H).
  rewrite matvec_diag by exact Hv.
  rewrite mattvec_diag by (rewrite vmul_len; lia).
  rewrite matvec_diag by lia.
  apply vmul_assoc2; assumption.
Qed.

(* ---------- S^T S as a matrix (what the case files compare) acts as v |-> S^T (S v) ---------- *)
Lemma map_const_seq s n : map (fun _ : nat => r0) (seq s n) = Vzero n.
Proof. revert s; induction n as [|n IH]; intros s; simpl; [reflexivity|]. f_equal. apply IH. Qed.

Lemma vadd_scale_seq b row (g : nat -> R) s :
  Vadd (Vscale b row) (map g (seq s (length row))) = map (fun j => b * nth (j - s) row r0 + g j) (seq s (length row)).
Proof.
  revert s; induction row as [|a row IH]; intros s; simpl; [reflexivity|].
  rewrite Nat.sub_diag. f_equal. rewrite IH. apply map_ext_in. intros j Hj. apply in_seq in Hj.
  replace (j - s)%nat with (S (j - S s)) by lia. reflexivity.
Qed.

Lemma mattvec_cols n (S : mat) y : wf_mat n S ->
  Mattvec n S y = map (fun j => Dot (col r0 S j) y) (seq 0 n).
Proof.
  intros H; revert y; induction H as [|row S' Hr HS IH]; intros y.
  - simpl. destruct y; simpl; symmetry; apply map_const_seq.
  - destruct y as [|b y]; simpl.
    + symmetry. erewrite map_ext; [apply map_const_seq|]. intros j. reflexivity.
    + rewrite IH. rewrite <- Hr. rewrite vadd_scale_seq. apply map_ext. intros j.
      rewrite Nat.sub_0_r. ring.
Qed.

Theorem gram_law n (S : mat) v : wf_mat n S -> length v = n ->
  Matvec (matmul r0 radd rmul n (transpose r0 n S) S) v = Mattvec n S (Matvec S v).
Proof.
  intros H Hv. rewrite (mattvec_cols n S (Matvec S v) H).
  unfold matmul, transpose, matvec at 1. rewrite !map_map. apply map_ext. intros j.
  rewrite (dot_comm R r0 r1 radd rmul rsub ropp Rth).
  rewrite <- (adjoint_identity R r0 r1 radd rmul rsub ropp Rth n S v _ H Hv).
  apply (dot_comm R r0 r1 radd rmul rsub ropp Rth).
Qed.

(* ---------- prior families ---------- *)
Lemma matvec_len_wf (P : mat) v : length (Matvec P v) = length P.
Proof. apply matvec_length. Qed.

(* Gaussian(mean, <any form>): one factor (P, broadcast mean) *)
Theorem gaussian_prior_repr n S P mean : Sqrt_law n S P -> length P = n -> length (bcast n mean) = n ->
  Prior_repr n (gaussian_prior R r0 radd rmul n S mean) [(P, bcast n mean)].
Proof.
  intros HL HP Hm. split; simpl.
  - intros v Hv. rewrite HL by exact Hv. rewrite add_z_r; [reflexivity|]. rewrite matvec_length. exact HP.
  - rewrite HL by exact Hm. rewrite add_z_r; [reflexivity|]. rewrite matvec_length. exact HP.
Qed.

(* GMRF(mean, delta, bc, order): accepted exactly when the mean has length n; one factor (P, mean) *)
Theorem gmrf_prior_repr n S P mean pr : gmrf_prior R r0 radd rmul n S mean = Some pr ->
  Sqrt_law n S P -> length P = n ->
  length mean = n /\ Prior_repr n pr [(P, mean)].
Proof.
  unfold gmrf_prior. destruct (Nat.eqb_spec (length mean) n) as [E|E]; [|discriminate].
  intros [= <-] HL HP. split; [exact E|]. split; simpl.
  - intros v Hv. rewrite HL by exact Hv. rewrite add_z_r; [reflexivity|]. rewrite matvec_length. exact HP.
  - rewrite HL by exact E. rewrite add_z_r; [reflexivity|]. rewrite matvec_length. exact HP.
Qed.

Theorem gmrf_prior_refused n S mean : gmrf_prior R r0 radd rmul n S mean = None <-> length mean <> n.
Proof. unfold gmrf_prior. destruct (Nat.eqb_spec (length mean) n); split; intros; congruence. Qed.

(* JointGaussianSqrtPrec(means, sqrtprecs): the independent factors (P_j, m_j) with S_j a square root of P_j *)
Definition block_repr (n : nat) (b : mat * vec) (pf : mat * vec) : Prop :=
  wf_mat n (fst b) /\ Sqrt_law n (fst b) (fst pf) /\ length (fst pf) = n /\ snd pf = snd b /\ length (snd b) = n.

Theorem joint_prior_repr n blocks pfs : Forall2 (block_repr n) blocks pfs ->
  Prior_repr n (joint_prior R r0 radd rmul blocks) pfs /\ wf_mat n (p_L (joint_prior R r0 radd rmul blocks)).
Proof.
  intros H. induction H as [|b pf blocks pfs (Hw & HL & HP & Em & Hm) H IH]; simpl.
  - split; [split|]; simpl.
    + intros v Hv. reflexivity.
    + reflexivity.
    + constructor.
  - destruct IH as [[I1 I2] I3]. simpl in *. split; [split|]; simpl.
    + intros v Hv. rewrite (matvec_app R r0 radd rmul).
      rewrite (mattvec_app R r0 r1 radd rmul rsub ropp Rth) by (try assumption; apply matvec_length).
      rewrite HL by exact Hv. rewrite I1 by exact Hv. reflexivity.
    + rewrite (mattvec_app R r0 r1 radd rmul rsub ropp Rth) by (try assumption; apply matvec_length).
      rewrite HL by exact Hm. f_equal; [f_equal; symmetry; exact Em | exact I2].
    + unfold wf_mat in *. apply Forall_app. split; assumption.
Qed.

(* ---------- the 5-tuple ---------- *)
(* LinearRTO((data, A, L_sqrtprec, P_mean, P_sqrtprec)) precomputes exactly what it precomputes for the
   Posterior built from Gaussian(A, sqrtprec = L_sqrtprec).to_likelihood(data) and Gaussian(P_mean, sqrtprec = P_sqrtprec),
   and a MultipleLikelihoodPosterior with the same likelihood list gives the same again *)
Theorem tuple_is_posterior n data A Lsp Pmean Psp :
  let l := mkLik (matrix_model R r0 radd rmul n A) (sqrtprec_from_sqrtprec R r0 (length data) Lsp) data in
  let pr := gaussian_prior R r0 radd rmul n (sqrtprec_from_sqrtprec R r0 n Psp) Pmean in
  of_tuple R r0 radd rmul n data A Lsp Pmean Psp = of_posterior R l pr /\
  of_posterior R l pr = of_mlp R [l] pr /\
  (forall x, M_fwd R r0 radd rmul (fst (of_tuple R r0 radd rmul n data A Lsp Pmean Psp)) (snd (of_tuple R r0 radd rmul n data A Lsp Pmean Psp)) x
             = M_fwd R r0 radd rmul [l] pr x) /\
  b_tild R r0 radd rmul (fst (of_tuple R r0 radd rmul n data A Lsp Pmean Psp)) (snd (of_tuple R r0 radd rmul n data A Lsp Pmean Psp))
  = b_tild R r0 radd rmul [l] pr.
Proof. cbv zeta. repeat split; reflexivity. Qed.

(* scalar / vector sqrtprec given directly: square root of diag(s_i^2) *)
Lemma Forall2_sq (s : vec) : Forall2 (fun a b => a * a = b) s (map (fun a => a * a) s).
Proof. induction s; simpl; constructor; [reflexivity | assumption]. Qed.

Theorem sqrtprec_scalar_vector_law dim g :
  match g with
  | SpScalar s => Sqrt_law dim (sqrtprec_from_sqrtprec R r0 dim g) (Diag (repeat (s * s) dim))
  | SpVector v => length v = dim -> Sqrt_law dim (sqrtprec_from_sqrtprec R r0 dim g) (Diag (map (fun a => a * a) v))
  | SpMatrix _ => True
  end.
Proof.
  destruct g as [s|v|Sm]; simpl; [| |exact I].
  - assert (E : Forall2 (fun a b => a * a = b) (repeat s dim) (repeat (s * s) dim)).
    { induction dim; simpl; constructor; [reflexivity | assumption]. }
    pose proof (diag_sqrt_law _ _ E) as L. rewrite repeat_length in L. exact L.
  - intros <-. apply diag_sqrt_law. apply Forall2_sq.
Qed.
End F.

(* ---------- Qc: the boolean shape check of the case files implies well-formedness ---------- *)
Lemma q_shape_wf r c A : q_shape r c A = true -> length A = r /\ wf_mat c A.
Proof.
  unfold q_shape. intros H. apply andb_true_iff in H as [H1 H2].
  apply Nat.eqb_eq in H1. split; [exact H1|].
  apply Forall_forall. intros row Hin. rewrite forallb_forall in H2. apply Nat.eqb_eq. apply H2. exact Hin.
Qed.

Lemma mk_liks_wf n ls : forallb (lik_shape_ok n) ls = true ->
  Forall (lik_wf Qc 0%Qc Qcplus Qcmult n) (mk_liks n ls).
Proof.
  intros H. rewrite forallb_forall in H. apply Forall_forall. intros l Hin.
  unfold mk_liks in Hin. apply in_map_iff in Hin as (((A & L) & b) & <- & Hin).
  specialize (H _ Hin). unfold lik_shape_ok in H. apply andb_true_iff in H as [HA HL].
  apply q_shape_wf in HA as [HA1 HA2]. apply q_shape_wf in HL as [HL1 HL2].
  unfold mk_lik, lik_wf. simpl. split; [exact HL2 | split; [exact HL1 |]].
  rewrite <- HA1. apply (matrix_model_wf Qc 0%Qc 1%Qc Qcplus Qcmult Qcminus Qcopp Qcrt). exact HA2.
Qed.

(* ---------- Qc: the boolean law check on an observed sqrtprec, at tolerance 0, gives the hypothesis of the theorems ---------- *)
Lemma q_close0 a b : q_close 0 a b = true -> (a == b)%Q.
Proof.
  unfold q_close. intros H. apply Qle_bool_iff in H.
  rewrite Qmult_0_l in H. apply Qabs.Qabs_Qle_condition in H. destruct H as [H1 H2].
  lra.
Qed.

Lemma qc_close0 a b : qc_close 0 a b = true -> a = b.
Proof. unfold qc_close. intros H. apply Qc_is_canon. apply q_close0. exact H. Qed.

Lemma list_eqb_imp {A} (eqb : A -> A -> bool) : (forall a b, eqb a b = true -> a = b) ->
  forall x y, list_eqb eqb x y = true -> x = y.
Proof.
  intros H x; induction x as [|a x IH]; intros [|b y] E; simpl in E; try discriminate; [reflexivity|].
  apply andb_true_iff in E as [E1 E2]. f_equal; [apply H; exact E1 | apply IH; exact E2].
Qed.

Lemma qcll_close0 A B : qcll_close 0 A B = true -> A = B.
Proof. apply list_eqb_imp. apply list_eqb_imp. apply qc_close0. Qed.

(* ---------- the certificate of one transition, at tolerance 0, is the Prop-level normal equation ---------- *)
Lemma qmaxabs_nonneg v : (0 <= qmaxabs v)%Q.
Proof.
  induction v as [|a v IH]; simpl; [apply Qle_refl|].
  destruct (Qle_bool (qabs_c a) (qmaxabs v)) eqn:E; [exact IH | apply Qabs.Qabs_nonneg].
Qed.

Lemma qmaxabs_ge v x : In x v -> (qabs_c x <= qmaxabs v)%Q.
Proof.
  induction v as [|a v IH]; intros Hin; [destruct Hin|]. simpl.
  destruct (Qle_bool (qabs_c a) (qmaxabs v)) eqn:E.
  - apply Qle_bool_iff in E. destruct Hin as [<-|Hin]; [exact E | apply IH; exact Hin].
  - assert (L : (qmaxabs v < qabs_c a)%Q).
    { apply Qnot_le_lt. intros C. apply Qle_bool_iff in C. congruence. }
    destruct Hin as [<-|Hin]; [apply Qle_refl|]. eapply Qle_trans; [apply IH; exact Hin | apply Qlt_le_weak; exact L].
Qed.

Lemma qc_abs0 (x : Qc) : (qabs_c x <= 0)%Q -> x = 0%Qc.
Proof.
  unfold qabs_c. intros H. apply Qabs.Qabs_Qle_condition in H. destruct H as [H1 H2].
  apply Qc_is_canon. simpl. lra.
Qed.

Lemma qvsub_zero_eq a b : length a = length b -> (qmaxabs (qvsub a b) <= 0)%Q -> a = b.
Proof.
  revert b; induction a as [|x a IH]; intros [|y b] Hl H; simpl in *; try lia; [reflexivity|].
  assert (Hx : (qabs_c (x - y)%Qc <= 0)%Q).
  { eapply Qle_trans; [|exact H]. apply (qmaxabs_ge ((x - y)%Qc :: qvsub a b)). left. reflexivity. }
  assert (Hr : (qmaxabs (qvsub a b) <= 0)%Q).
  { destruct (Qle_bool (qabs_c (x - y)%Qc) (qmaxabs (qvsub a b))) eqn:E; [exact H|].
    eapply Qle_trans; [|exact H].
    assert (L : (qmaxabs (qvsub a b) < qabs_c (x - y)%Qc)%Q).
    { apply Qnot_le_lt. intros C. apply Qle_bool_iff in C. congruence. }
    apply Qlt_le_weak. exact L. }
  f_equal.
  - apply qc_abs0 in Hx. assert (E : x = (x - y + y)%Qc) by ring. rewrite E, Hx. ring.
  - apply IH; [lia | exact Hr].
Qed.

Lemma vclose_rel0 a b : vclose_rel 0 a b = true -> a = b.
Proof.
  unfold vclose_rel. intros H. apply andb_true_iff in H as [Hl Hq].
  apply Nat.eqb_eq in Hl. apply Qle_bool_iff in Hq. rewrite Qmult_0_l in Hq.
  apply qvsub_zero_eq; assumption.
Qed.

Lemma vclose_scale0 sc a b : vclose_scale 0 sc a b = true -> a = b.
Proof.
  unfold vclose_scale. intros H. apply andb_true_iff in H as [Hl Hq].
  apply Nat.eqb_eq in Hl. apply Qle_bool_iff in Hq. rewrite Qmult_0_l in Hq.
  apply qvsub_zero_eq; assumption.
Qed.

Theorem check_draw_sound n ls pr xcur e x : check_draw 0 n ls pr xcur e x = true ->
  normal_eq Qc 0%Qc Qcplus Qcmult n (mk_liks n ls) pr e x.
Proof.
  unfold check_draw, normal_eq. intros H. apply andb_true_iff in H as [_ H].
  apply vclose_scale0 in H. exact H.
Qed.

Lemma mclose_rel0 A B : mclose_rel 0 A B = true -> A = B.
Proof.
  unfold mclose_rel. apply list_eqb_imp. intros r1 r2 H. apply andb_true_iff in H as [Hl Hq].
  apply Nat.eqb_eq in Hl. apply Qle_bool_iff in Hq. rewrite Qmult_0_l in Hq.
  apply qvsub_zero_eq; assumption.
Qed.

(* sqrtprec_ok at tolerance 0: the observed S is a square root, in the sense of the theorems, of the precision
   the user specified *)
Theorem sqrtprec_ok_sound f n g S P : sqrtprec_ok 0 f n g S = true -> user_prec f n g = Some P ->
  sqrt_law Qc 0%Qc Qcplus Qcmult n S P.
Proof.
  unfold sqrtprec_ok. intros H E. rewrite E in H.
  apply andb_true_iff in H as [H _]. apply andb_true_iff in H as [Hs Hg].
  apply q_shape_wf in Hs as [_ Hw]. apply mclose_rel0 in Hg.
  intros v Hv. rewrite <- Hg. unfold q_gram, qmatmul, qtranspose.
  symmetry. apply (gram_law Qc 0%Qc 1%Qc Qcplus Qcmult Qcminus Qcopp Qcrt); assumption.
Qed.

