(* C07 -- the size of the adjoint defect through a step expansion: fun2par takes block MEANS where the
   transpose of par2fun takes block SUMS, so <A x, y> = <x, w . A* y> with w_i = nodes of step i.  All sizes. *)
From CV Require Import Base.Tac Base.LinAlg Base.Cmp Base.QcLin Model.C07_Adj
  Proofs.C07_Lists Proofs.C07_Geom Proofs.C07_Model Proofs.C07_Conv Proofs.C07_Deconv1 Proofs.C07_Linear.
From Coq Require Import QArith Qcanon.

Local Open Scope Qc_scope.

Fixpoint qvmul (x y : list Qc) : list Qc :=
  match x, y with a :: x', b :: y' => (a * b) :: qvmul x' y' | _, _ => [] end.

Definition step_weights (cnt : list nat) : list Qc := map (fun k => qcz (Z.of_nat k)) cnt.

Lemma qcz_nonzero k : (0 < k)%nat -> qcz (Z.of_nat k) <> 0.
Proof.
  intros Hk E. unfold qcz in E. change 0 with (Q2Qc 0) in E. apply Q2Qc_eq_iff in E.
  unfold Qeq, inject_Z in E. simpl in E. lia.
Qed.

Lemma qdot_repeat_l a k l : length l = k -> qdot (repeat a k) l = a * qsum l.
Proof.
  revert l; induction k as [|k IH]; intros [|b l] H; simpl in H; try discriminate.
  - cbn. ring.
  - cbn [repeat]. rewrite qdot_cons, IH by lia. unfold qsum. cbn [fold_right]. ring.
Qed.

Lemma step_weighted_adjoint cnt p f : Forall (fun k => (0 < k)%nat) cnt ->
  length p = length cnt -> length f = fold_right Nat.add 0%nat cnt ->
  qdot (step_expand cnt p) f = qdot p (qvmul (step_weights cnt) (step_mean cnt f)).
Proof.
  intros W; revert p f; induction W as [|k cnt Hk W IH]; intros [|a p] f Hp Hf; simpl in Hp; try discriminate.
  - reflexivity.
  - cbn [fold_right] in Hf. cbn [step_expand step_weights map step_mean qvmul].
    rewrite <- (firstn_skipn k f) at 1.
    rewrite qdot_app by (rewrite repeat_length, firstn_length; lia).
    rewrite qdot_repeat_l by (rewrite firstn_length; lia).
    rewrite qdot_cons. fold (step_weights cnt).
    rewrite (IH p (skipn k f)) by (try lia; rewrite skipn_length; lia).
    pose proof (qcz_nonzero k Hk) as Hnz. field. exact Hnz.
Qed.

(* matrix model with a step expansion on the domain: the inner products differ exactly by the weights *)
Theorem step_domain_defect n A cnt r x y :
  Forall (fun k => (0 < k)%nat) cnt -> wf_mat n A -> n = fold_right Nat.add 0%nat cnt -> length A = r ->
  length x = length cnt -> length y = r ->
  exists fx ay, forward (mat_model n A (GStep cnt) (GId r)) (V1 x) = Some (V1 fx) /\
                adjoint (mat_model n A (GStep cnt) (GId r)) (V1 y) = Some (V1 ay) /\
                qdot fx y = qdot x (qvmul (step_weights cnt) ay).
Proof.
  intros W WA Hn HL Hx Hy.
  exists (qmatvec A (step_expand cnt x)), (step_mean cnt (qmattvec n A y)).
  unfold forward, adjoint, apply_func. cbn [mat_model lm_fwd lm_adj lm_D lm_R p2f f2p].
  rewrite Hx, Nat.eqb_refl. cbn [obind mat_fwd mat_adj f2p].
  rewrite qmattvec_length by exact WA. rewrite <- Hn, Nat.eqb_refl. cbn [andb].
  replace (forallb (fun k => (0 <? k)%nat) cnt) with true.
  - repeat split.
    rewrite (qc_adjoint n A (step_expand cnt x) y WA) by (rewrite step_expand_length by exact Hx; symmetry; exact Hn).
    apply step_weighted_adjoint; [exact W | exact Hx |]. rewrite qmattvec_length by exact WA. exact Hn.
  - symmetry. apply forallb_forall. intros k Hk. rewrite Forall_forall in W. apply Nat.ltb_lt. apply W. exact Hk.
Qed.

(* ---------- matrix extensionality: the matrix T assembles IS the structural transpose ---------- *)
Lemma mat_ext k M N : wf_mat k M -> wf_mat k N -> length M = length N ->
  (forall y, length y = k -> qmatvec M y = qmatvec N y) -> M = N.
Proof.
  intros HM; revert N; induction HM as [|r M Hr HM IH]; intros [|s N] HN HL H; simpl in HL; try discriminate; [reflexivity|].
  pose proof (Forall_inv HN) as Hs. pose proof (Forall_inv_tail HN) as HN'.
  assert (Ers : r = s).
  { apply (dot_ext k); try assumption. intros y Hy. specialize (H y Hy). rewrite !qmatvec_cons in H.
    rewrite !(qdot_comm y). congruence. }
  assert (EMN : M = N).
  { apply IH; [exact HN' | lia |]. intros y Hy. specialize (H y Hy). rewrite !qmatvec_cons in H. congruence. }
  rewrite Ers, EMN. reflexivity.
Qed.

Theorem transpose_get_matrix_eq k m f g :
  lm_mat m = None -> idem_geom (lm_D m) -> idem_geom (lm_R m) ->
  (forall x, length x = par_dim (lm_D m) -> forward m (V1 x) = Some (V1 (f x))) ->
  linear_map (par_dim (lm_D m)) (par_dim (lm_R m)) f ->
  (forall y, length y = par_dim (lm_R m) -> adjoint m (V1 y) = Some (V1 (g y))) ->
  linear_map (par_dim (lm_R m)) (par_dim (lm_D m)) g ->
  (forall x y, length x = par_dim (lm_D m) -> length y = par_dim (lm_R m) -> qdot (f x) y = qdot x (g y)) ->
  exists G, get_matrix m = Some G /\ get_matrix (lmT k m) = Some (tr (par_dim (lm_D m)) G).
Proof.
  intros Hmat ID IR Hf Lf Hg Lg Hadj.
  destruct (transpose_get_matrix k m f g Hmat ID IR Hf Lf Hg Lg Hadj) as (G & GT & EG & EGT & WG & LG & WGT & LGT & HT).
  exists G. split; [exact EG|]. rewrite EGT. f_equal.
  apply (mat_ext (par_dim (lm_R m))).
  - exact WGT.
  - pose proof (tr_rows (par_dim (lm_D m)) G) as HR. rewrite LG in HR. exact HR.
  - rewrite tr_length by exact WG. exact LGT.
  - intros y Hy. rewrite (HT y Hy). symmetry. apply qmatvec_tr; [exact WG|]. transitivity (par_dim (lm_R m)); [exact Hy | symmetry; exact LG].
Qed.
