(* C18, tier 2 -- the forward-Euler levels are THE solution of the recurrence (uniqueness), and they depend linearly
   on the data when the operator does not depend on the parameter: the difference of two solutions is the solution
   of the same scheme for the difference of sources and initial conditions (what a Jacobian of a PDE model whose
   parameter enters through source / initial condition has to reproduce). *)
From CV Require Import Base.Tac Base.LinAlg Base.Cmp Base.QcLin Model.C18_PDE Proofs.C18_Alg Proofs.C18_PDE.
From Coq Require Import QArith Qcanon.
Local Open Scope Qc_scope.

Lemma qmatvec_vsub A x y n : wf_mat n A -> length x = n -> length y = n ->
  qmatvec A (qvsub x y) = qvsub (qmatvec A x) (qmatvec A y).
Proof. apply (matvec_vsub Qc 0 1 Qcplus Qcmult Qcminus Qcopp Qcth). Qed.

Lemma euler_fwd_length A b u dt : wf_sys (length u) A b = true -> length (euler_fwd A b u dt) = length u.
Proof.
  intros H. destruct (fe_step_spec A b u dt H) as [E L]. unfold euler_fwd. rewrite <- E. exact L.
Qed.

Lemma euler_fwd_sub A b1 b2 u1 u2 dt :
  wf_sys (length u1) A b1 = true -> wf_sys (length u2) A b2 = true -> length u1 = length u2 ->
  euler_fwd A (qvsub b1 b2) (qvsub u1 u2) dt = qvsub (euler_fwd A b1 u1 dt) (euler_fwd A b2 u2 dt).
Proof.
  intros H1 H2 HL.
  pose proof (euler_fwd_length _ _ _ dt H1) as E1. pose proof (euler_fwd_length _ _ _ dt H2) as E2.
  apply wf_sys_spec in H1 as [HA1 [HW1 Hb1]]. apply wf_sys_spec in H2 as [HA2 [HW2 Hb2]].
  remember (length u1) as n eqn:Hn.
  assert (Lu : length (qvsub u1 u2) = n) by (rewrite qvsub_length; lia).
  assert (Lb : length (qvsub b1 b2) = n) by (rewrite qvsub_length; lia).
  assert (LA1 : length (qmatvec A u1) = n) by (rewrite qmatvec_length; exact HA1).
  assert (LA2 : length (qmatvec A u2) = n) by (rewrite qmatvec_length; exact HA1).
  unfold euler_fwd in *.
  rewrite (qmatvec_vsub A u1 u2 n HW1 (eq_sym Hn) (eq_sym HL)).
  apply qv_ext.
  - rewrite qvsub_length by lia. rewrite E1.
    rewrite qvadd_length; [exact Lu|]. rewrite qvscale_length, qvadd_length; rewrite ?qvsub_length; lia.
  - intros i.
    rewrite (nth_qvsub (qvadd u1 _)) by lia.
    rewrite (nth_qvadd (qvsub u1 u2)) by (rewrite qvscale_length, qvadd_length; rewrite ?qvsub_length; lia).
    rewrite (nth_qvadd u1) by (rewrite qvscale_length, qvadd_length; lia).
    rewrite (nth_qvadd u2) by (rewrite qvscale_length, qvadd_length; lia).
    rewrite !nth_qvscale.
    rewrite (nth_qvadd (qvsub (qmatvec A u1) (qmatvec A u2))) by (rewrite !qvsub_length; lia).
    rewrite (nth_qvadd (qmatvec A u1)) by lia. rewrite (nth_qvadd (qmatvec A u2)) by lia.
    rewrite !nth_qvsub by lia. ring.
Qed.

Section Lin.
Variable P : Type.
Variable I : Type.
Variable solver : nat -> qm -> qv -> sret I.
Variable form : P -> Qc -> qm * qv * qv.

(* ---- uniqueness ---- *)
Theorem forward_euler_unique Q p times levels info levels' :
  td_solve P I solver form Q MFwd (Some p) times = Ok (levels, info) ->
  length levels' = length times ->
  nth 0 levels' [] = fic P form p (nth 0 times 0) ->
  (forall k, (S k < length times)%nat ->
     nth (S k) levels' [] = euler_fwd (fA P form p (nth k times 0)) (fb P form p (nth k times 0)) (nth k levels' [])
                                      (nth (S k) times 0 - nth k times 0)) ->
  levels' = levels.
Proof.
  intros H HL H0 Hk.
  destruct (forward_euler P I solver form Q p times levels info H) as [_ [L [E0 Ek]]].
  assert (Hall : forall k, (k < length times)%nat -> nth k levels' [] = nth k levels []).
  { induction k as [|k IH]; intros Hlt.
    - rewrite H0, E0. reflexivity.
    - rewrite (Hk k Hlt), (Ek k Hlt). rewrite IH by lia. reflexivity. }
  apply (nth_ext _ _ [] []); [transitivity (length times); [exact HL | symmetry; exact L]|].
  intros k Hlt. apply Hall. apply (Nat.lt_le_trans _ _ _ Hlt). apply Nat.eq_le_incl. exact HL.
Qed.

(* ---- linear dependence on the data ---- *)
Variable Pd : Type.
Variable formd : Pd -> Qc -> qm * qv * qv.

Lemma fe_loop_difference p1 p2 pd :
  (forall t, fA P form p1 t = fA P form p2 t /\ fA Pd formd pd t = fA P form p1 t /\
             fb Pd formd pd t = qvsub (fb P form p1 t) (fb P form p2 t)) ->
  forall rest t u1 u2 l1 l2,
  length u1 = length u2 ->
  fe_loop P form p1 t rest u1 = Ok l1 -> fe_loop P form p2 t rest u2 = Ok l2 ->
  fe_loop Pd formd pd t rest (qvsub u1 u2) = Ok (map2 qvsub l1 l2).
Proof.
  intros Hf. induction rest as [|t' rest IH]; intros t u1 u2 l1 l2 HL H1 H2; simpl in *.
  - inversion H1; inversion H2; subst. reflexivity.
  - destruct (Hf t) as [HA [HAd Hbd]]. unfold fA, fb in HA, HAd, Hbd.
    destruct (form p1 t) as [[A1 b1] c1]. destruct (form p2 t) as [[A2 b2] c2]. destruct (formd pd t) as [[Ad bd] cd].
    cbn [fst snd] in HA, HAd, Hbd. subst A2 Ad bd.
    destruct (wf_sys (length u1) A1 b1) eqn:W1; [|discriminate].
    destruct (wf_sys (length u2) A1 b2) eqn:W2; [|discriminate].
    destruct (fe_loop P form p1 t' rest (fe_step A1 b1 u1 (t' - t))) as [l1'|] eqn:E1; [|discriminate].
    destruct (fe_loop P form p2 t' rest (fe_step A1 b2 u2 (t' - t))) as [l2'|] eqn:E2; [|discriminate].
    inversion H1; inversion H2; subst. clear H1 H2.
    assert (Wd : wf_sys (length (qvsub u1 u2)) A1 (qvsub b1 b2) = true).
    { rewrite qvsub_length by exact HL.
      pose proof (wf_sys_spec _ _ _ W1) as [Ha [Hw Hb1]]. pose proof (wf_sys_spec _ _ _ W2) as [_ [_ Hb2]].
      unfold wf_sys. apply andb_true_iff. split.
      - unfold wf_sys in W1. apply andb_true_iff in W1 as [W _]. exact W.
      - apply Nat.eqb_eq. rewrite qvsub_length; lia. }
    rewrite Wd.
    destruct (fe_step_spec A1 b1 u1 (t' - t) W1) as [S1 L1]. destruct (fe_step_spec A1 b2 u2 (t' - t) W2) as [S2 L2].
    destruct (fe_step_spec A1 (qvsub b1 b2) (qvsub u1 u2) (t' - t) Wd) as [Sd Ld].
    assert (Estep : fe_step A1 (qvsub b1 b2) (qvsub u1 u2) (t' - t)
                    = qvsub (fe_step A1 b1 u1 (t' - t)) (fe_step A1 b2 u2 (t' - t))).
    { rewrite Sd, S1, S2. exact (euler_fwd_sub A1 b1 b2 u1 u2 (t' - t) W1 W2 HL). }
    rewrite Estep.
    rewrite (IH t' _ _ l1' l2'); [reflexivity | lia | exact E1 | exact E2].
Qed.

(* if the operator does not depend on the parameter, the difference of the forward-Euler solutions for two parameters
   is the forward-Euler solution of the problem whose source and initial condition are the differences *)
Theorem forward_euler_difference Q p1 p2 pd times l1 l2 i1 i2 :
  (forall t, fA P form p1 t = fA P form p2 t /\ fA Pd formd pd t = fA P form p1 t /\
             fb Pd formd pd t = qvsub (fb P form p1 t) (fb P form p2 t) /\
             fic Pd formd pd t = qvsub (fic P form p1 t) (fic P form p2 t)) ->
  length (fic P form p1 (nth 0 times 0)) = length (fic P form p2 (nth 0 times 0)) ->
  td_solve P I solver form Q MFwd (Some p1) times = Ok (l1, i1) ->
  td_solve P I solver form Q MFwd (Some p2) times = Ok (l2, i2) ->
  td_solve Pd I solver formd Q MFwd (Some pd) times = Ok (map2 qvsub l1 l2, None).
Proof.
  intros Hf HL H1 H2. unfold td_solve in *. destruct times as [|t0 rest]; [discriminate|].
  destruct (Hf t0) as [_ [_ [_ Hic]]]. unfold fic in Hic, HL. cbn [nth] in HL.
  destruct (form p1 t0) as [[A1 b1] c1] eqn:F1. destruct (form p2 t0) as [[A2 b2] c2] eqn:F2.
  destruct (formd pd t0) as [[Ad bd] cd] eqn:Fd. cbn [snd] in Hic, HL. subst cd.
  cbn [effective_method] in *.
  destruct (fe_loop P form p1 t0 rest c1) as [ls1|] eqn:E1; [|discriminate].
  destruct (fe_loop P form p2 t0 rest c2) as [ls2|] eqn:E2; [|discriminate].
  inversion H1; inversion H2; subst. clear H1 H2.
  assert (Hf' : forall t, fA P form p1 t = fA P form p2 t /\ fA Pd formd pd t = fA P form p1 t /\
                          fb Pd formd pd t = qvsub (fb P form p1 t) (fb P form p2 t)).
  { intros t. destruct (Hf t) as [a [b [c _]]]. auto. }
  rewrite (fe_loop_difference p1 p2 pd Hf' rest t0 c1 c2 ls1 ls2 HL E1 E2). reflexivity.
Qed.
End Lin.
