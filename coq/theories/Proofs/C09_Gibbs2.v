(* C09 -- least-squares block samplers inside the Gibbs state machine: the stacked system a LinearRTO / UGLA block uses at
   every transition of every run is built from the CURRENT values of the other blocks. *)
From CV Require Import Base.Tac Base.Cmp Base.QcLin Model.C09_Rto Model.C09_Nnls Model.C09_Gibbs Model.C09_Gibbs2 Proofs.C09_Wiring Proofs.C09_Run.
From Coq Require Import QArith Qcanon.
Local Open Scope nat_scope.

(* the target object handed over by the conditioning operation of the executable instance: a least-squares block reads the
   other blocks' current values (and its own current point) off it *)
Lemma rto_trans_current tol sp jt cur i s r :
  rto_trans tol sp i (cond (jt2 jt) cur i) s r = rto_step tol sp i (upd cur i (s_pt s)) s r.
Proof. reflexivity. Qed.

Theorem ls_block_rows_current tol fresh jt specs nst rnd ops t0 (x : @run vec tgt2 sst) :
  length (g_ss (r_st x)) = length (g_cur (r_st x)) -> r_log x = [] ->
  Forall (fun e => e_blk e < length (e_cur e) /\
                   forall sp r, nth (e_blk e) specs None = Some sp ->
                     ctrans2 tol specs (e_blk e) (e_tgt e) (e_s e) r
                     = rto_step tol sp (e_blk e) (upd (e_cur e) (e_blk e) (s_pt (e_s e))) (e_s e) r)
         (r_log (run_ops (cond (jt2 jt)) s_pt (creinit2 fresh) (ctrans2 tol specs) ctune nst rnd ops t0 x)).
Proof.
  intros Hwf Hlog.
  assert (H0 : Forall (ev_conditional (cond (jt2 jt))) (r_log x)) by (rewrite Hlog; constructor).
  pose proof (run_targets (cond (jt2 jt)) s_pt (creinit2 fresh) (ctrans2 tol specs) ctune nst rnd ops t0 x Hwf H0) as HA.
  apply Forall_forall. intros e He. destruct (proj1 (Forall_forall _ _) HA e He) as (Ht & Hb).
  split; [exact Hb | ]. intros sp r Hsp. unfold ctrans2. rewrite Hsp, Ht. apply rto_trans_current.
Qed.

(* non-vacuity: rows for which the draw succeeds, with exact square-root certificates (weights 4 and 1) *)
Local Open Scope Qc_scope.
Definition ex_re : noisy :=
  [(mkLS [Q2Qc 1; Q2Qc 0] (Q2Qc 4) (Q2Qc 2) (Q2Qc 1), Q2Qc (1 # 2));
   (mkLS [Q2Qc 1; Q2Qc 1] (Q2Qc 4) (Q2Qc 2) (Q2Qc 3), Q2Qc (-1));
   (mkLS [Q2Qc 0; Q2Qc 1] (Q2Qc 1) (Q2Qc 1) (Q2Qc 0), Q2Qc 2)].
Lemma ex_re_ok :
  rows_wf 2 ex_re /\ Forall (fun p => 0 <= ls_w (fst p)) ex_re /\ Forall (fun p => ls_s (fst p) * ls_s (fst p) = ls_w (fst p)) ex_re /\
  (exists x, rto_draw 2 ex_re = Some x) /\ (exists m, rto_draw 2 (quiet ex_re) = Some m).
Proof.
  split; [repeat constructor | ].
  split; [repeat constructor; unfold Qcle; cbn; discriminate | ].
  split; [repeat constructor; apply Qc_is_canon; reflexivity | ].
  split; eexists; vm_compute; reflexivity.
Qed.

(* ---- the C01 one-step law is not a hypothesis for the executable instances: there the conditioning operation IS partial
   application of the joint, and the initial state is well-formed ---- *)
Local Open Scope nat_scope.
Lemma mapi_from_length {A B} (f : nat -> A -> B) l : forall i, length (mapi_from f i l) = length l.
Proof. induction l as [|x l IH]; intros i; cbn; [reflexivity | rewrite IH; reflexivity]. Qed.

Lemma hybrid_init_wf jt kinds inits scales : length kinds = length inits -> length scales = length inits ->
  length (g_ss (hybrid_init jt kinds inits scales)) = length (g_cur (hybrid_init jt kinds inits scales)).
Proof.
  intros H1 H2. unfold hybrid_init, mapi. cbn [g_ss g_cur]. rewrite mapi_from_length, combine_length, H1, H2. apply Nat.min_id.
Qed.

Theorem hybrid_run_targets fresh (jt : list vec -> Q) kinds inits scales ns sc ops :
  length kinds = length inits -> length scales = length inits ->
  Forall (fun e => e_blk e < length (e_cur e) /\ forall v, e_tgt e v = jt (upd (e_cur e) (e_blk e) v))
         (r_log (hybrid_run fresh jt kinds inits scales ns sc ops)).
Proof.
  intros H1 H2. unfold hybrid_run.
  set (x := mkRun (hybrid_init jt kinds inits scales) [] []).
  assert (Hwf : length (g_ss (r_st x)) = length (g_cur (r_st x))) by (apply hybrid_init_wf; assumption).
  assert (H0 : Forall (ev_conditional (cond jt)) (r_log x)) by constructor.
  pose proof (run_targets (cond jt) s_pt (creinit fresh) ctrans ctune (nsteps ns) (script sc) ops 0 x Hwf H0) as HA.
  apply Forall_forall. intros e He. destruct (proj1 (Forall_forall _ _) HA e He) as (Ht & Hb).
  split; [exact Hb | ]. intros v. rewrite Ht. reflexivity.
Qed.

Theorem hybrid_run2_targets tol fresh (jt : list vec -> Q) specs kinds inits scales ns sc ops :
  length kinds = length inits -> length scales = length inits ->
  Forall (fun e => e_blk e < length (e_cur e) /\
                   (forall v, e_tgt e v = (jt (upd (e_cur e) (e_blk e) v), upd (e_cur e) (e_blk e) v)) /\
                   forall sb r, nth (e_blk e) specs None = Some sb ->
                     ctrans2 tol specs (e_blk e) (e_tgt e) (e_s e) r
                     = rto_step tol sb (e_blk e) (upd (e_cur e) (e_blk e) (s_pt (e_s e))) (e_s e) r)
         (r_log (hybrid_run2 tol fresh jt specs kinds inits scales ns sc ops)).
Proof.
  intros H1 H2. unfold hybrid_run2.
  set (x := mkRun (hybrid_init jt kinds inits scales) [] []).
  assert (Hwf : length (g_ss (r_st x)) = length (g_cur (r_st x))) by (apply hybrid_init_wf; assumption).
  assert (H0 : Forall (ev_conditional (cond (jt2 jt))) (r_log x)) by constructor.
  pose proof (run_targets (cond (jt2 jt)) s_pt (creinit2 fresh) (ctrans2 tol specs) ctune (nsteps ns) (script sc) ops 0 x Hwf H0) as HA.
  apply Forall_forall. intros e He. destruct (proj1 (Forall_forall _ _) HA e He) as (Ht & Hb).
  split; [exact Hb | ]. split.
  - intros v. exact (f_equal (fun f => f v) Ht).
  - intros sb r Hsb. unfold ctrans2. rewrite Hsb.
    exact (eq_trans (f_equal (fun t => rto_trans tol sb (e_blk e) t (e_s e) r) Ht) (rto_trans_current tol sb jt (e_cur e) (e_blk e) (e_s e) r)).
Qed.

(* ---- what a passing comparison certifies about one transition of a least-squares block ---- *)
Local Open Scope Q_scope.
Theorem rto_step_certifies tol (sb : lsblock) i a s r :
  s_kind s = KLrto -> s_grad s = [] -> draw_ok (rto_step tol sb i a s r) = true ->
  let n := length (s_pt s) in
  let rows := ls_rows (fst sb) i a in
  let k := length rows in
  let obs := firstn n (r_vec r) in
  let z := zip4 rows (firstn k (skipn n (r_vec r))) (firstn k (skipn (n + k) (r_vec r))) (firstn k (skipn (n + k + k) (r_vec r))) in
  length z = k /\
  forallb (fun q => cert_ok tol (fst (fst (fst q))) (snd (fst q)) (snd q)) z = true /\
  exists m, (if snd sb then nnls_draw n (to_noisy z) else rto_draw n (to_noisy z)) = Some m /\
            s_pt (rto_step tol sb i a s r) = obs /\
            length (map (fun c : Qc => this c) m) = length obs /\
            vmaxabs (vsub (map (fun c : Qc => this c) m) obs)
              <= tol7 * (vmaxabs (map (fun c : Qc => this c) m) + vmaxabs obs + s_scale s).
Proof.
  intros Hk Hg. unfold rto_step. cbv zeta.
  set (n := length (s_pt s)). set (rows := ls_rows (fst sb) i a). set (k := length rows). set (obs := firstn n (r_vec r)).
  set (z := zip4 rows _ _ _).
  destruct (Nat.eqb (length z) k) eqn:Hl; cbn [andb].
  2: { unfold draw_ok, set_all; cbn [s_kind s_grad]. rewrite Hk. discriminate. }
  destruct (forallb _ z) eqn:Hc.
  2: { unfold draw_ok, set_all; cbn [s_kind s_grad]. rewrite Hk. discriminate. }
  destruct (if snd sb then nnls_draw n (to_noisy z) else rto_draw n (to_noisy z)) as [m|] eqn:Hd.
  2: { unfold draw_ok, set_all; cbn [s_kind s_grad]. rewrite Hk. discriminate. }
  unfold adopt.
  destruct (Nat.eqb (length (map (fun c : Qc => this c) m)) (length obs)) eqn:Hlen; cbn [andb].
  2: { unfold draw_ok, set_all; cbn [s_kind s_grad]. rewrite Hk. destruct (map Qred _); discriminate. }
  destruct (Qle_bool _ _) eqn:Hclose.
  2: { unfold draw_ok, set_all; cbn [s_kind s_grad]. rewrite Hk. destruct (map Qred _); discriminate. }
  intros _. split; [apply Nat.eqb_eq; exact Hl | ]. split; [reflexivity | ].
  exists m. split; [reflexivity | ]. split; [reflexivity | ]. split; [apply Nat.eqb_eq; exact Hlen | ].
  apply Qle_bool_iff. exact Hclose.
Qed.
