(* C14 -- the position of the RANDOM STREAM is part of the state that makes `sample(N); sample(M)` continue as one call
   would.  Executable model, no proofs.

   A sampler (stateful interface, HybridGibbs, legacy Gibbs) draws its variates from ONE stream (numpy.random's module-level
   generator).  A call -- sample(n), warmup(n), one more sample() call of a Gibbs sampler -- consists of
     (1) work done once PER CALL: _ensure_initialized, _pre_sample / _pre_warmup, batch / progress set-up, (for a
         Gibbs sampler) allocation, validation, (re)initialisation ...  -- `pre`;
     (2) the transitions, each of a `kind` (a plain transition, a transition followed by tune(skip_len, update_count) ...)
         -- `step`.
   Both read the stream from the current position and say how many variates they consumed. *)
From CV Require Import Base.Tac Base.Cmp Model.C14_Chain.

Section StreamMachine.
Variables Cfg St Pt V K : Type.

Definition stream := nat -> V.
Definition shift (s : stream) (k : nat) : stream := fun i => s (k + i)%nat.

Variable step : Cfg -> K -> St -> stream -> St * nat.   (* one transition of kind K: new state, variates consumed *)
Variable pre : Cfg -> St -> stream -> St * nat.         (* per-call work: new state, variates consumed *)
Variable point : St -> Pt.

(* state, position in the stream, recorded chain *)
Record core := mkCore { c_st : St; c_pos : nat; c_rec : list Pt }.

Definition one (c : Cfg) (str : stream) (r : core) (k : K) : core :=
  let sa := step c k (c_st r) (shift str (c_pos r)) in
  mkCore (fst sa) (c_pos r + snd sa) (c_rec r ++ [point (fst sa)]).

Definition transitions (c : Cfg) (str : stream) (r : core) (ks : list K) : core := fold_left (one c str) ks r.

Definition enter (c : Cfg) (str : stream) (r : core) : core :=
  let pa := pre c (c_st r) (shift str (c_pos r)) in mkCore (fst pa) (c_pos r + snd pa) (c_rec r).

(* one call: per-call work, then the transitions *)
Definition call (c : Cfg) (str : stream) (r : core) (ks : list K) : core := transitions c str (enter c str r) ks.

Definition calls (c : Cfg) (str : stream) (r : core) (kss : list (list K)) : core := fold_left (call c str) kss r.

(* number of variates each call consumed (what the harness measures around every call) *)
Fixpoint used (c : Cfg) (str : stream) (r : core) (kss : list (list K)) : list nat :=
  match kss with
  | [] => []
  | ks :: rest => let r' := call c str r ks in (c_pos r' - c_pos r)%nat :: used c str r' rest
  end.
End StreamMachine.

Arguments mkCore {St Pt}. Arguments c_st {St Pt}. Arguments c_pos {St Pt}. Arguments c_rec {St Pt}.

(* ------------------------------------------------------------------------------------------ *)
(* the trace instance evaluated by the generated cases: a state is (initialised?, position in the chain of the uninterrupted
   run); transition number k consumes per[k] variates (measured INSIDE the transitions of the uninterrupted run: wrapped
   step / tune / sweep).  Per-call work: the FIRST call on a sampler that is not yet initialised initialises it
   (_ensure_initialized -> initialize, which may draw: NUTS looks for its first step size with a random momentum) and
   consumes `init` variates; on an initialised sampler per-call work consumes `percall` variates -- the footprint of the
   code that exists says 0 for every call of every sampler (nothing outside initialize / step / tune reaches numpy.random) *)
Definition ts_step (per : list nat) (_ : unit) (_ : unit) (s : bool * nat) (_ : stream unit) : (bool * nat) * nat :=
  ((fst s, S (snd s)), nth (snd s) per 0%nat).
Definition ts_pre (init percall : nat) (_ : unit) (s : bool * nat) (_ : stream unit) : (bool * nat) * nat :=
  if fst s then (s, percall) else ((true, snd s), init).

Definition ts_calls (per : list nat) (init percall : nat) (initialised : bool) (sizes : list nat) : list nat :=
  used unit (bool * nat) nat unit unit (ts_step per) (ts_pre init percall) snd tt (fun _ => tt)
       (mkCore (initialised, 0%nat) 0%nat []) (map units sizes).

(* a checkpoint loaded into a fresh sampler (constructed and initialised outside the compared stream) is not a call *)
Fixpoint op_sizes (ops : list top) : list nat :=
  match ops with
  | [] => []
  | TSample n :: r => n :: op_sizes r
  | TWarmup n _ _ :: r => n :: op_sizes r
  | TResume :: r => op_sizes r
  end.

Definition nl_eqb := list_eqb Nat.eqb.
Definition nsum (l : list nat) : nat := fold_right Nat.add 0%nat l.

(* observed: variates consumed by each sample / warmup call of the operation sequence, and the final position.
   Stateful interface: the sampler is constructed uninitialised, the first call initialises it *)
Definition check_draws (per : list nat) (init : nat) (ops : list top) (obs_calls : list nat) (obs_total : nat) : bool :=
  nl_eqb (ts_calls per init 0%nat false (op_sizes ops)) obs_calls &&
  Nat.eqb ((match op_sizes ops with [] => 0 | _ => init end) + nsum (firstn (nsum (op_sizes ops)) per))%nat obs_total.

(* Gibbs samplers: constructed ready to run (HybridGibbs initialises its block samplers in its constructor, which is not
   one of the calls); sizes = transitions per call *)
Definition check_draws_sizes (per : list nat) (sizes : list nat) (obs_calls : list nat) (obs_total : nat) : bool :=
  nl_eqb (ts_calls per 0%nat 0%nat true sizes) obs_calls && Nat.eqb (nsum (firstn (nsum sizes) per)) obs_total.

(* ------------------------------------------------------------------------------------------ *)
(* the stream machine as a refinement of the machine of Model/C14_Chain.v (one random input per transition): a transition
   first READS its random input from the stream at the current position (`rd`: the input, and how many variates it took
   -- which may depend on the state: NUTS, CWMH, Gibbs sweeps) and then applies the chain-level transition `step0` *)
Section Refines.
Variables Cfg St Rnd Acc V : Type.
Variable step0 : Cfg -> St -> Rnd -> St * Acc.
Variable rd : Cfg -> St -> stream V -> Rnd * nat.

Definition sstep (c : Cfg) (_ : unit) (s : St) (str : stream V) : St * nat :=
  (fst (step0 c s (fst (rd c s str))), snd (rd c s str)).

(* the random inputs n transitions read from the stream, started in state s at position pos *)
Fixpoint inputs (c : Cfg) (str : stream V) (s : St) (pos n : nat) : list Rnd :=
  match n with
  | O => []
  | S n' => let ra := rd c s (shift V str pos) in
            fst ra :: inputs c str (fst (step0 c s (fst ra))) (pos + snd ra) n'
  end.
End Refines.
