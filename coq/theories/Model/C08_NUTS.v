(* C08 -- executable model of the No-U-Turn sampler of cuqi.experimental.mcmc._hmc.NUTS.step and
   cuqi.sampler._hmc.NUTS._sample (one transition).  No proofs here.

   Layers:
     1. `prog`: a tiny probabilistic-program monad.  `run` feeds it a scripted stream of uniforms
        (what the harness makes numpy.random.rand return), `dist` computes exact expectations,
        `all_out` / `all_pos` quantify over all / all positive-probability outcomes.
     2. the tree doubling written once over an abstract state type S (Section Tree): BuildTree,
        one iteration of the doubling loop with its top-level acceptance, the loop -- exactly the
        control flow of the code (both files have the same control flow; they differ in the
        non-finite guard of the top-level acceptance, parameter `guard`).
     3. the leapfrog integrator over an abstract commutative ring (Section Leap).
     4. instances: S = Z (an orbit abstraction: position along the leapfrog orbit) used by the
        theorems, and S = concrete phase-space states over Qc used by the correspondence.
     5. the step-size schedule of the experimental sampler (which value is used by which step). *)
From CV Require Import Base.Tac Base.Cmp Base.Ext Base.LinAlg Base.QcLin.
From Coq Require Import QArith Qcanon Qabs Qminmax.

(* ------------------------------------------------------------------------------------------ *)
(* 1. probabilistic programs                                                                  *)
(* ------------------------------------------------------------------------------------------ *)
(* Flip strict p k : draw u = numpy.random.rand(); continue with k (u < p) if strict, k (u <= p)
   otherwise.  Under `dist` both have probability p of `true`. *)
Inductive prog (A : Type) : Type :=
| Ret (a : A)
| Flip (strict : bool) (p : Q) (k : bool -> prog A).
Arguments Ret {A}. Arguments Flip {A}.

Fixpoint bind {A B} (m : prog A) (f : A -> prog B) : prog B :=
  match m with
  | Ret a => f a
  | Flip st p k => Flip st p (fun b => bind (k b) f)
  end.

Definition decide (st : bool) (p u : Q) : bool := if st then negb (Qle_bool p u) else Qle_bool u p.

(* scripted run: consumes uniforms in order, logs every decision as (strict, p, u) *)
Fixpoint run {A} (m : prog A) (us : list Q) (log : list (bool * Q * Q)) : option (A * list Q * list (bool * Q * Q)) :=
  match m with
  | Ret a => Some (a, us, log)
  | Flip st p k =>
      match us with
      | [] => None
      | u :: us' => run (k (decide st p u)) us' (log ++ [(st, p, u)])
      end
  end.

(* exact expectation of f under the program's law (each Flip is Bernoulli(p)) *)
Fixpoint dist {A} (m : prog A) (f : A -> Q) : Q :=
  match m with
  | Ret a => f a
  | Flip _ p k => p * dist (k true) f + (1 - p) * dist (k false) f
  end.

(* a property of every outcome / of every outcome of positive probability *)
Fixpoint all_out {A} (P : A -> Prop) (m : prog A) : Prop :=
  match m with
  | Ret a => P a
  | Flip _ _ k => all_out P (k true) /\ all_out P (k false)
  end.

Fixpoint all_pos {A} (P : A -> Prop) (m : prog A) : Prop :=
  match m with
  | Ret a => P a
  | Flip _ p k => (0 < p -> all_pos P (k true)) /\ (p < 1 -> all_pos P (k false))
  end.

(* every Flip probability lies in [0,1] *)
Fixpoint wf_prog {A} (m : prog A) : Prop :=
  match m with
  | Ret _ => True
  | Flip _ p k => 0 <= p <= 1 /\ wf_prog (k true) /\ wf_prog (k false)
  end.

(* ------------------------------------------------------------------------------------------ *)
(* 2. tree doubling over an abstract state                                                    *)
(* ------------------------------------------------------------------------------------------ *)
Section Tree.
Variable S : Type.
Variable leap : bool -> S -> S.      (* one leapfrog step; true = direction v = +1, false = v = -1 *)
Variable ham : S -> ext.             (* logd(x) - r.r/2 of a state *)
Variable lgd : S -> ext.             (* cached target log-density of a state *)
Variable uturn_ok : S -> S -> bool.  (* uturn_ok minus plus = ((x+ - x-).r- >= 0) && ((x+ - x-).r+ >= 0) *)
Variable alpha : S -> Q.             (* Metropolis probability of a leaf: 1 if H' > H0 else exp(H' - H0) *)
Variable logu : ext.                 (* slice variable  log u = H0 - Exp(1) *)

Definition delta_max : ext := Fin 1000.

Record tree := mkT {
  t_minus : S; t_plus : S;           (* outermost states of the sub-tree *)
  t_sel : S;                         (* the candidate carried upwards (point', logd', grad') *)
  t_n : Z;                           (* n' *)
  t_ok : bool;                       (* s' = 1 *)
  t_asum : Q; t_an : Z;              (* alpha', n_alpha' *)
  t_leaves : list S;                 (* ghost: every state produced by a leapfrog step, in build order *)
  t_tests : list (S * S) }.          (* ghost: every (minus, plus) pair the U-turn test was applied to *)

Definition in_slice (s : S) : bool := ext_le logu (ham s).
Definition not_diverged (s : S) : bool := ext_lt logu (ext_add delta_max (ham s)).

(* alpha2 = n'' / max(1, n' + n'') *)
Definition swap_prob (n1 n2 : Z) : Q := inject_Z n2 / inject_Z (Z.max 1 (n1 + n2)).

Fixpoint build (s : S) (v : bool) (j : nat) : prog tree :=
  match j with
  | O =>
      let s' := leap v s in
      Ret (mkT s' s' s' (if in_slice s' then 1 else 0) (not_diverged s') (alpha s') 1 [s'] [])
  | Datatypes.S j' =>
      bind (build s v j') (fun t1 =>
        if t_ok t1 then
          bind (build (if v then t_plus t1 else t_minus t1) v j') (fun t2 =>
            let mn := if v then t_minus t1 else t_minus t2 in
            let pl := if v then t_plus t2 else t_plus t1 in
            Flip false (swap_prob (t_n t1) (t_n t2)) (fun b =>
              Ret (mkT mn pl (if b then t_sel t2 else t_sel t1) (t_n t1 + t_n t2)
                       (t_ok t2 && uturn_ok mn pl)
                       (t_asum t1 + t_asum t2) (t_an t1 + t_an t2)
                       (t_leaves t1 ++ t_leaves t2)
                       (t_tests t1 ++ t_tests t2 ++ [(mn, pl)]))))
        else Ret t1)
  end.

(* state of the doubling loop of step()/_sample() *)
Record top := mkTop {
  p_cur : S;                         (* current_point / logd / grad  (theta[:,k], joint_eval[k], grad) *)
  p_minus : S; p_plus : S;
  p_n : Z; p_s : bool; p_j : nat; p_acc : bool;
  p_asum : Q; p_an : Z;              (* alpha, n_alpha of the last doubling: the statistic is their quotient *)
  p_last : list S;                   (* ghost: leaves of the last doubling *)
  p_leaves : list S;                 (* ghost: all leaves, in build order *)
  p_tests : list (S * S) }.

Definition finite_logd (s : S) : bool := negb (is_nan (lgd s)) && negb (is_inf (lgd s)).
(* alpha2 = min(1, n'/n) *)
Definition acc_prob (n' n : Z) : Q := Qmin 1 (inject_Z n' / inject_Z n).

(* what the loop state becomes once the new sub-tree t (built in direction v) is there and the
   top-level Metropolis decision was a *)
Definition top_update (st : top) (v : bool) (t : tree) (a : bool) : top :=
  let mn := if v then p_minus st else t_minus t in
  let pl := if v then t_plus t else p_plus st in
  mkTop (if a then t_sel t else p_cur st) mn pl (p_n st + t_n t)
        (t_ok t && uturn_ok mn pl) (Datatypes.S (p_j st)) (p_acc st || a)
        (t_asum t) (t_an t)
        (t_leaves t) (p_leaves st ++ t_leaves t) (p_tests st ++ t_tests t ++ [(mn, pl)]).

(* one iteration of `while (s == 1) and (j <= max_depth)`.
   guard = true: cuqi.experimental.mcmc (refuses NaN / inf candidates); false: cuqi.sampler.
   `(s_prime == 1) and (rand() <= alpha2) and ...` short-circuits: no uniform is drawn if s' = 0 *)
Definition doubling_dir (guard : bool) (st : top) (v : bool) : prog top :=
  bind (build (if v then p_plus st else p_minus st) v (p_j st)) (fun t =>
    if t_ok t then
      Flip false (acc_prob (t_n t) (p_n st)) (fun b =>
        Ret (top_update st v t (b && (if guard then finite_logd (t_sel t) else true))))
    else Ret (top_update st v t false)).

(* v = int(2*(rand() < 0.5) - 1) *)
Definition doubling (guard : bool) (st : top) : prog top := Flip true (1 # 2) (doubling_dir guard st).

Fixpoint doublings (guard : bool) (k : nat) (st : top) : prog top :=
  match k with
  | O => Ret st
  | Datatypes.S k' =>
      if negb (p_s st) then Ret st else bind (doubling guard st) (doublings guard k')
  end.

Definition top_init (s0 : S) : top := mkTop s0 s0 s0 1 true 0 false 0 0 [] [] [].

(* one transition from state s0 (momentum already drawn):  while s == 1 and j <= max_depth *)
Definition transition (guard : bool) (max_depth : nat) (s0 : S) : prog top :=
  doublings guard (Datatypes.S max_depth) (top_init s0).

End Tree.

Arguments mkT {S}. Arguments t_minus {S}. Arguments t_plus {S}. Arguments t_sel {S}. Arguments t_n {S}.
Arguments t_ok {S}. Arguments t_asum {S}. Arguments t_an {S}. Arguments t_leaves {S}. Arguments t_tests {S}.
Arguments mkTop {S}. Arguments p_cur {S}. Arguments p_minus {S}. Arguments p_plus {S}. Arguments p_n {S}.
Arguments p_s {S}. Arguments p_j {S}. Arguments p_acc {S}. Arguments p_asum {S}. Arguments p_an {S}.
Arguments p_last {S}. Arguments p_leaves {S}. Arguments p_tests {S}.
Arguments top_init {S}. Arguments top_update {S}.

(* ------------------------------------------------------------------------------------------ *)
(* 3. leapfrog over a commutative ring                                                        *)
(* ------------------------------------------------------------------------------------------ *)
Section Leap.
Variable R : Type.
Variables (radd rmul : R -> R -> R).
Variable grad : list R -> list R.

Record ps := mkPS { ps_x : list R; ps_r : list R; ps_g : list R }.   (* g = cached gradient at x *)

(* the three shears the integrator is composed of (kick uses the gradient passed in / returned,
   as the code does: the gradient at the new point is computed once and cached) *)
Definition kick (h : R) (s : ps) : ps := mkPS (ps_x s) (vadd radd (ps_r s) (vscale rmul h (ps_g s))) (ps_g s).
Definition drift (e : R) (s : ps) : ps :=
  let x1 := vadd radd (ps_x s) (vscale rmul e (ps_r s)) in mkPS x1 (ps_r s) (grad x1).

(* _Leapfrog(point, r, grad, eps) with h = eps/2 (so eps = h + h):
     r1 = r + h*g ; x1 = x + (h+h)*r1 ; g1 = grad x1 ; r2 = r1 + h*g1 *)
Definition leapfrog (h : R) (s : ps) : ps :=
  let r1 := vadd radd (ps_r s) (vscale rmul h (ps_g s)) in
  let x1 := vadd radd (ps_x s) (vscale rmul (radd h h) r1) in
  let g1 := grad x1 in
  mkPS x1 (vadd radd r1 (vscale rmul h g1)) g1.
End Leap.
Arguments mkPS {R}. Arguments ps_x {R}. Arguments ps_r {R}. Arguments ps_g {R}.
Arguments leapfrog {R}. Arguments kick {R}. Arguments drift {R}.

(* ------------------------------------------------------------------------------------------ *)
(* 4a. the orbit abstraction: S = Z                                                           *)
(* ------------------------------------------------------------------------------------------ *)
Section Orbit.
Variable H : Z -> ext.               (* Hamiltonian at orbit position i *)
Variable L : Z -> ext.               (* target log-density at orbit position i *)
Variable U : Z -> Z -> bool.         (* U-turn test passes for end points (minus, plus) *)
Variable A : Z -> Q.                 (* Metropolis probability of position i *)
Variable logu : ext.
Definition zleap (v : bool) (i : Z) : Z := if v then (i + 1)%Z else (i - 1)%Z.
Definition obuild := build Z zleap H U A logu.
Definition odoubling := doubling Z zleap H L U A logu.
Definition otransition guard md (i0 : Z) := transition Z zleap H L U A logu guard md i0.
End Orbit.

(* ------------------------------------------------------------------------------------------ *)
(* 4b. concrete phase space over Qc with the targets used by the correspondence               *)
(* ------------------------------------------------------------------------------------------ *)
(* targets: log-density (ext: may be NaN / -inf / +inf outside a box) and gradient (always finite) *)
Inductive target :=
| TGauss (prec : list Qc)                       (* logd = -1/2 sum p_i x_i^2 , grad = -p_i x_i *)
| TQuartic                                      (* logd = -1/4 sum x_i^4   , grad = -x_i^3 *)
| TSplit (pl pr : list Qc)                      (* two-piece normal: precision pl_i for x_i < 0, pr_i for x_i >= 0 *)
| TQuad (P : list (list Qc))                    (* logd = -1/2 x.(P x), P any square matrix (correlated, not nec. symmetric); grad = -1/2 (P + P^T) x *)
| TBox (prec : list Qc) (bound : Qc) (bad : ext)  (* Gaussian inside max|x_i| <= bound, `bad` outside *)
| TLin (b : list Qc) (t : target)                (* logd + b.x: a linear term (data misfit of a linear model) *)
| TShift (c : Q) (t : target).                   (* logd + c: an additive constant (normalisation constants, offsets) *)

Definition half : Qc := qc (1 # 2).
Definition quarter : Qc := qc (1 # 4).

Fixpoint vmul (x y : list Qc) : list Qc :=
  match x, y with a :: x', b :: y' => (a * b)%Qc :: vmul x' y' | _, _ => [] end.

(* side-dependent precision: where(x < 0, pl, pr) *)
Fixpoint vside (pl pr x : list Qc) : list Qc :=
  match pl, pr, x with
  | a :: pl', b :: pr', c :: x' => (if Qle_bool 0 (this c) then b else a) :: vside pl' pr' x'
  | _, _, _ => []
  end.

Definition qsumc (x : list Qc) : Qc := fold_right Qcplus 0%Qc x.
Definition inbox (b : Qc) (x : list Qc) : bool :=
  forallb (fun a => Qle_bool (this a) (this b) && Qle_bool (- this b) (this a)) x.

Definition gauss_logd (p x : list Qc) : ext := Fin (this (- (half * qsumc (vmul p (vmul x x))))%Qc).

Fixpoint t_logd (t : target) (x : list Qc) : ext :=
  match t with
  | TGauss p => gauss_logd p x
  | TQuartic => Fin (this (- (quarter * qsumc (vmul (vmul x x) (vmul x x))))%Qc)
  | TSplit pl pr => gauss_logd (vside pl pr x) x
  | TQuad P => Fin (this (- (half * qdot x (qmatvec P x)))%Qc)
  | TBox p b bad => if inbox b x then gauss_logd p x else bad
  | TLin b t' => ext_add (t_logd t' x) (Fin (this (qdot b x)))
  | TShift c t' => ext_add (t_logd t' x) (Fin c)
  end.

Fixpoint t_grad (t : target) (x : list Qc) : list Qc :=
  match t with
  | TGauss p => qvneg (vmul p x)
  | TQuartic => qvneg (vmul x (vmul x x))
  | TSplit pl pr => qvneg (vmul (vside pl pr x) x)
  | TQuad P => qvscale (- half)%Qc (qvadd (qmatvec P x) (qmattvec (length x) P x))
  | TBox p b bad => qvneg (vmul p x)
  | TLin b t' => qvadd (t_grad t' x) b
  | TShift c t' => t_grad t' x
  end.

Definition cstate := ps Qc.
Definition c_leap (t : target) (heps : Qc) (v : bool) (s : cstate) : cstate :=
  leapfrog Qcplus Qcmult (t_grad t) (if v then heps else (- heps)%Qc) s.
Definition c_lgd (t : target) (s : cstate) : ext := t_logd t (ps_x s).
Definition c_kin (s : cstate) : Q := this (half * qdot (ps_r s) (ps_r s))%Qc.
Definition c_ham (t : target) (s : cstate) : ext := ext_sub (c_lgd t s) (Fin (c_kin s)).
Definition c_uturn_ok (mn pl : cstate) : bool :=
  let d := qvsub (ps_x pl) (ps_x mn) in
  Qle_bool 0 (this (qdot d (ps_r mn))) && Qle_bool 0 (this (qdot d (ps_r pl))).

(* one full transition as the code performs it: x current point, z the momentum draw,
   e the Exp(1) draw, us the uniforms in the order numpy.random.rand is called.
   (The Metropolis probabilities alpha of the leaves are transcendental; the statistic is tied to
    the code through the leaves of the last doubling, see check_transition, so alpha = 0 here.) *)
Definition c_init (t : target) (x z : list Qc) : cstate := mkPS x z (t_grad t x).

Definition c_transition (t : target) (guard : bool) (max_depth : nat) (heps : Qc) (x z : list Qc) (e : Q)
  : prog (top cstate) :=
  let s0 := c_init t x z in
  let logu := ext_sub (c_ham t s0) (Fin e) in
  transition cstate (c_leap t heps) (c_ham t) (c_lgd t) c_uturn_ok (fun _ => 0) logu guard max_depth s0.

(* ------------------------------------------------------------------------------------------ *)
(* 5. which step size a step uses (cuqi.experimental.mcmc.NUTS: step / tune / _pre_warmup /   *)
(*    _pre_sample).  The dual-averaging formulas are transcendental: what tune() computes is    *)
(*    carried by the event.                                                                     *)
(* ------------------------------------------------------------------------------------------ *)
Section Schedule.
Variable E : Type.                                     (* step sizes *)

Record sched := mkSched { sc_eps : E; sc_bar : option E }.   (* _epsilon, _epsilon_bar (None = "unset") *)

Inductive ev :=
| EvPreWarmup (one : E)          (* _pre_warmup: epsilon_bar = 1 if unset *)
| EvPreSample                    (* _pre_sample: epsilon_bar = epsilon if unset *)
| EvStep                         (* step(): uses _epsilon, then _epsilon = _epsilon_bar *)
| EvTune (e' b' : E).            (* tune(): _epsilon = e', _epsilon_bar = b' (dual averaging) *)

(* returns the new schedule state and, for a step, the step size that step used; a step before any
   _pre_* call leaves epsilon_bar = "unset" in _epsilon -- outside the domain: None *)
Definition sched_ev (s : sched) (e : ev) : option (sched * option E) :=
  match e with
  | EvPreWarmup one => Some (mkSched (sc_eps s) (Some (match sc_bar s with Some b => b | None => one end)), None)
  | EvPreSample => Some (mkSched (sc_eps s) (Some (match sc_bar s with Some b => b | None => sc_eps s end)), None)
  | EvStep => match sc_bar s with Some b => Some (mkSched b (Some b), Some (sc_eps s)) | None => None end
  | EvTune e' b' => match sc_bar s with Some _ => Some (mkSched e' (Some b'), None) | None => None end
  end.

Fixpoint sched_run (s : sched) (es : list ev) : option (sched * list E) :=
  match es with
  | [] => Some (s, [])
  | e :: r => match sched_ev s e with
              | None => None
              | Some (s1, o) =>
                  match sched_run s1 r with
                  | None => None
                  | Some (s2, l) => Some (s2, match o with Some x => x :: l | None => l end)
                  end
              end
  end.
End Schedule.
Arguments mkSched {E}. Arguments sc_eps {E}. Arguments sc_bar {E}.
Arguments EvPreWarmup {E}. Arguments EvPreSample {E}. Arguments EvStep {E}. Arguments EvTune {E}.
Arguments sched_ev {E}. Arguments sched_run {E}.

(* ------------------------------------------------------------------------------------------ *)
(* 6. checkers for the generated case files                                                   *)
(* ------------------------------------------------------------------------------------------ *)
(* observed leaf: (x, r, logd) as produced by the implementation's _Leapfrog, in call order *)
Definition obs_leaf := (list Q * list Q * ext)%type.

Definition ext_close (tol : Q) (a b : ext) : bool :=
  match a, b with
  | Fin x, Fin y => q_close tol x y
  | _, _ => ext_eqb a b
  end.

Definition leaf_close (tol : Q) (t : target) (o : obs_leaf) (s : cstate) : bool :=
  let '(x, r, l) := o in
  ql_close tol x (map this (ps_x s)) && ql_close tol r (map this (ps_r s)) && ext_close tol l (c_lgd t s).

(* margins: every comparison the model made is decided by more than `marg` relative to the size of the
   numbers compared (so float rounding in the implementation cannot flip it); otherwise the case is
   inconclusive and counted as such *)
Definition far_sc (eps sc : Q) (a b : Q) : bool := negb (Qle_bool (Qabs (a - b)) (eps * (1 + Qabs a + Qabs b + sc))).
Definition far (eps : Q) (a b : Q) : bool := far_sc eps 0 a b.
Definition ext_far_sc (eps sc : Q) (a b : ext) : bool :=
  match a, b with Fin x, Fin y => far_sc eps sc x y | _, _ => true end.
Definition marg : Q := 1 # 10000000.

(* the size of the terms a U-turn inner product is summed from, for its margin *)
Definition qabsdot (x y : list Qc) : Q :=
  fold_right Qplus 0 (map (fun ab => Qabs (this (fst ab)) * Qabs (this (snd ab))) (combine x y)).
Definition dot_far (d r : list Qc) : bool :=
  negb (Qle_bool (Qabs (this (qdot d r))) (marg * (1 + qabsdot d r))).

Definition margins_ok (t : target) (logu : ext) (tp : top cstate) (log : list (bool * Q * Q)) : bool :=
  forallb (fun s => let sc := (match c_lgd t s with Fin l => Qabs l | _ => 0 end) + c_kin s in
                    ext_far_sc marg sc logu (c_ham t s) && ext_far_sc marg sc logu (ext_add (Fin 1000) (c_ham t s))) (p_leaves tp) &&
  forallb (fun mp => let d := qvsub (ps_x (snd mp)) (ps_x (fst mp)) in
                     dot_far d (ps_r (fst mp)) && dot_far d (ps_r (snd mp))) (p_tests tp) &&
  forallb (fun d => let '(_, p, u) := d in far marg p u) log.

(* result of a check: 0 = agreement, 1 = inconclusive (a margin too small or stream too short), 2 = disagreement *)
(* exact = true: the harness has verified that the implementation's arithmetic was exact on this case
   (all leaves equal their exact rational values), so ties (log u = H, p = u, inner product = 0) are
   meaningful and the margins are waived *)
Definition check_transition (exact : bool) (t : target) (guard : bool) (max_depth : nat) (heps : Qc) (x z : list Q) (e : Q)
           (us : list Q)
           (o_leaves : list obs_leaf) (o_point : list Q) (o_logd : ext) (o_grad : option (list Q))
           (o_acc : option bool) (o_nrand : nat) (o_nlast : nat) : nat :=
  let xq := qvec x in let zq := qvec z in
  match run (c_transition t guard max_depth heps xq zq e) us [] with
  | None => 1%nat
  | Some (tp, rest, log) =>
      let s0 := c_init t xq zq in
      let logu := ext_sub (c_ham t s0) (Fin e) in
      (* exact cases: the implementation's arithmetic was exact, so its numbers must EQUAL the model's (tolerance 0) *)
      let tol := if exact then 0 else tol9 in
      if negb exact && negb (margins_ok t logu tp log) then 1%nat
      else if (length o_leaves =? length (p_leaves tp))%nat
              && forallb (fun os => leaf_close tol t (fst os) (snd os)) (combine o_leaves (p_leaves tp))
              && ql_close tol o_point (map this (ps_x (p_cur tp)))
              && ext_close tol o_logd (c_lgd t (p_cur tp))
              && match o_grad with Some g => ql_close tol g (map this (ps_g (p_cur tp))) | None => true end
              && match o_acc with Some a => Bool.eqb a (p_acc tp) | None => true end
              && (o_nrand =? length log)%nat && (o_nlast =? length (p_last tp))%nat
              && (Z.of_nat o_nlast =? p_an tp)%Z
         then 0%nat else 2%nat
  end.

Definition check_ok (r : nat) : bool := negb (r =? 2)%nat.
Definition check_conclusive (r : nat) : bool := (r =? 0)%nat.

(* step-size schedule: the step sizes the steps of the implementation used (epsilon_list) vs the model's,
   tune()'s outputs being supplied by the implementation *)
Definition check_schedule (eps0 : Q) (es : list (ev Q)) (used : list Q) (final_eps final_bar : Q) : bool :=
  match sched_run (mkSched eps0 None) es with
  | Some (s, l) => ql_eqb l used && Qeq_bool (sc_eps s) final_eps
                   && match sc_bar s with Some b => Qeq_bool b final_bar | None => false end
  | None => false
  end.
