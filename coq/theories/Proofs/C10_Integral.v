(* C10 -- from "proportional as functions of s" to "the same distribution": the integral form of `draws from`.

   proportional_on_pos says the log-ratio of the target's density and the sampler's Gamma density is constant on s > 0.  With the
   integral over s > 0 as an abstract functional `Int` of which only two laws are used -- it depends on the values on s > 0 only, and
   it is homogeneous -- and the Gamma density normalised (Int = 1: a law of scipy's gammaln, an oracle here), the NORMALISED conditional
   density of the hyper-parameter equals the sampler's Gamma density at every s > 0, and every event has the same probability under
   both.  What remains outside: that numpy.random.gamma(shape, scale) has that Gamma density (law of the generator). *)
From CV Require Import Base.Tac Model.C10_Conj Model.C10_ConjR.
From Coq Require Import Reals Lra.
Open Scope R_scope.

Section IntegralForm.
Variable Int : (R -> R) -> R.
Hypothesis Int_ext : forall f g : R -> R, (forall s, 0 < s -> f s = g s) -> Int f = Int g.
Hypothesis Int_scal : forall (c : R) (f : R -> R), Int (fun s => c * f s) = c * Int f.

Lemma proportional_factor logf logg :
  proportional_on_pos logf logg -> forall s, 0 < s -> exp (logf s) = exp (logf 1 - logg 1) * exp (logg s).
Proof.
  intros H s Hs. rewrite <- exp_plus. f_equal. specialize (H s 1 Hs Rlt_0_1). lra.
Qed.

(* Z = the normalising constant of the target's density in s (Posterior.logd is not normalised in the hyper-parameter) *)
Theorem normalised_conditional_is_sampler_density logf logg Z :
  proportional_on_pos logf logg ->
  Int (fun s => exp (logg s)) = 1 -> Int (fun s => exp (logf s)) = Z ->
  0 < Z
  /\ (forall s, 0 < s -> exp (logf s) / Z = exp (logg s))
  /\ (forall ind : R -> R, Int (fun s => ind s * (exp (logf s) / Z)) = Int (fun s => ind s * exp (logg s))).
Proof.
  intros H Hg Hf.
  set (C := exp (logf 1 - logg 1)).
  assert (HC : 0 < C) by apply exp_pos.
  assert (HZ : Z = C).
  { rewrite <- Hf. rewrite (Int_ext (fun s => exp (logf s)) (fun s => C * exp (logg s))).
    - rewrite Int_scal, Hg. ring.
    - intros s Hs. apply proportional_factor; assumption. }
  assert (Hpt : forall s, 0 < s -> exp (logf s) / Z = exp (logg s)).
  { intros s Hs. rewrite HZ, (proportional_factor logf logg H s Hs). fold C. field. lra. }
  split; [rewrite HZ; exact HC | split; [exact Hpt|]].
  intros ind. apply Int_ext. intros s Hs. rewrite (Hpt s Hs). reflexivity.
Qed.

(* two normalised densities that are proportional are equal *)
Corollary proportional_normalised_equal logf logg :
  proportional_on_pos logf logg ->
  Int (fun s => exp (logf s)) = 1 -> Int (fun s => exp (logg s)) = 1 ->
  forall s, 0 < s -> logf s = logg s.
Proof.
  intros H Hf Hg s Hs.
  destruct (normalised_conditional_is_sampler_density logf logg 1 H Hg Hf) as (_ & Hpt & _).
  specialize (Hpt s Hs). unfold Rdiv in Hpt. rewrite Rinv_1, Rmult_1_r in Hpt. apply exp_inv. exact Hpt.
Qed.
End IntegralForm.

(* the two laws are satisfiable (a point evaluation has them); with it the hypotheses of the theorem hold for logf = logg = 0 *)
Example integral_laws_satisfiable :
  let Int := fun f : R -> R => f 1 in
  (forall f g : R -> R, (forall s, 0 < s -> f s = g s) -> Int f = Int g)
  /\ (forall (c : R) (f : R -> R), Int (fun s => c * f s) = c * Int f)
  /\ Int (fun s => exp ((fun _ => 0) s)) = 1.
Proof.
  cbv zeta. split; [intros f g H; apply H; lra | split; [intros c f; reflexivity | apply exp_0]].
Qed.
