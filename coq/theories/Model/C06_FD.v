(* C06 -- the difference operator of the LMRF prior as UGLA reads it (prior._diff_op): cuqi.operator
   FirstOrderFiniteDifference in 1-d (zero / neumann / periodic boundary) and in 2-d (N x N images:
   vstack([kron(I, D), kron(D, I)])), built by the model itself so that the weights of the local Gaussian are those of
   the DOCUMENTED operator and not of a matrix read back from the object under test.  No proofs here. *)
From CV Require Import Base.Tac Base.LinAlg Base.Cmp Base.QcLin Model.C06_RTO.
From Coq Require Import QArith Qcanon.

Section FD.
Variable R : Type.
Variables (r0 r1 : R) (rmul : R -> R -> R) (ropp : R -> R).

Inductive bc_kind := BcZero | BcNeumann | BcPeriodic.

(* 1-d: spdiags([-1, 1], locs, rows, N)
   zero:     rows N+1, locs [-1, 0]:  D[i,i] = 1, D[i,i-1] = -1
   periodic: the same, then D[N,0] = 1 and D[0,N-1] = -1
   neumann:  rows N-1, locs [0, 1]:   D[i,i] = -1, D[i,i+1] = 1 *)
Definition fd1_rows (b : bc_kind) (N : nat) : nat :=
  match b with BcNeumann => (N - 1)%nat | _ => S N end.
Definition fd1_entry (b : bc_kind) (N i j : nat) : R :=
  match b with
  | BcNeumann => if (j =? i)%nat then ropp r1 else if (j =? S i)%nat then r1 else r0
  | BcZero => if ((j =? i) && (i <? N))%nat then r1 else if (S j =? i)%nat then ropp r1 else r0
  | BcPeriodic =>
      if ((i =? N) && (j =? 0))%nat then r1
      else if ((i =? 0) && (S j =? N))%nat then ropp r1
      else if ((j =? i) && (i <? N))%nat then r1 else if (S j =? i)%nat then ropp r1 else r0
  end.
Definition mk_matrix (rows cols : nat) (f : nat -> nat -> R) : list (list R) :=
  map (fun i => map (fun j => f i j) (seq 0 cols)) (seq 0 rows).
Definition fd1 (b : bc_kind) (N : nat) : list (list R) := mk_matrix (fd1_rows b N) N (fd1_entry b N).

(* Kronecker product of an ra x ca matrix A (given by its entry function) with an rb x cb matrix B *)
Definition kron_entry (rb cb : nat) (fa fb : nat -> nat -> R) (r c : nat) : R :=
  rmul (fa (r / rb)%nat (c / cb)%nat) (fb (r mod rb)%nat (c mod cb)%nat).
Definition eye_entry (i j : nat) : R := if (i =? j)%nat then r1 else r0.

(* 2-d, N x N image flattened in C order: vstack([kron(I_N, D), kron(D, I_N)]) *)
Definition fd2 (b : bc_kind) (N : nat) : list (list R) :=
  let rows := fd1_rows b N in
  mk_matrix (N * rows) (N * N) (kron_entry rows N eye_entry (fd1_entry b N)) ++
  mk_matrix (rows * N) (N * N) (kron_entry N N (fd1_entry b N) eye_entry).

Definition lmrf_diff_op (two_d : bool) (b : bc_kind) (N : nat) : list (list R) :=
  if two_d then fd2 b N else fd1 b N.
End FD.


Local Open Scope Qc_scope.
Definition q_lmrf_diff_op := lmrf_diff_op Qc 0 1 Qcmult Qcopp.
(* the operator the LMRF object carries IS the documented one (EXACT) *)
Definition check_lmrf_D (two_d : bool) (b : bc_kind) (N : nat) (o_D : list (list Qc)) : bool :=
  qcll_eqb o_D (q_lmrf_diff_op two_d b N).
