(* C15 -- the closed-form Gaussian MAP is the posterior mean, the unique stationary point of the log-posterior, and the
   Cholesky draw has the posterior covariance: matrices of EVERY size over ANY field (mathcomp).
     sysm      = A Cx A^T + Ce                         hess     = A^T Ce^-1 A + Cx^-1
     map_closed = x0 + Cx A^T sysm^-1 (b - A x0)       rhs_post = A^T Ce^-1 b + Cx^-1 x0
     post_grad x = A^T Ce^-1 (b - A x) - Cx^-1 (x - x0)   post_cov = Cx - Cx A^T sysm^-1 A Cx
   This is the second transcription of the formula of BayesianProblem.MAP (the first, executable one is
   Model/C15_MAP.v map_core, NMat/NMat branch); that the two transcriptions agree is trusted (DESIGN 3.1). *)
From mathcomp Require Import all_ssreflect all_algebra.
From CVmc Require Import C15_Push.
Set Implicit Arguments.
Unset Strict Implicit.
Unset Printing Implicit Defensive.
Import GRing.Theory.
Local Open Scope ring_scope.

(* push-through: x0 + Cx A^T (A Cx A^T + Ce)^-1 (b - A x0) = (A^T Ce^-1 A + Cx^-1)^-1 (A^T Ce^-1 b + Cx^-1 x0),
   and the posterior precision is invertible *)
Theorem C15_closed_form_is_posterior_mean :
  forall (F : fieldType) (m n : nat) (A : 'M[F]_(m, n)) (Cx : 'M[F]_n) (Ce : 'M[F]_m) (x0 : 'cV[F]_n) (b : 'cV[F]_m),
  Cx \in unitmx -> Ce \in unitmx -> sysm A Cx Ce \in unitmx ->
  hess A Cx Ce \in unitmx /\ map_closed A Cx Ce x0 b = invmx (hess A Cx Ce) *m rhs_post A Cx Ce x0 b.
Proof. move=> F m n A Cx Ce x0 b Ux Ue Us; split; [exact: hess_unit | exact: map_is_posterior_mean]. Qed.
Print Assumptions C15_closed_form_is_posterior_mean.

(* the gradient of the log-posterior vanishes at the closed form and nowhere else *)
Theorem C15_unique_stationary_point :
  forall (F : fieldType) (m n : nat) (A : 'M[F]_(m, n)) (Cx : 'M[F]_n) (Ce : 'M[F]_m) (x0 : 'cV[F]_n) (b : 'cV[F]_m),
  Cx \in unitmx -> Ce \in unitmx -> sysm A Cx Ce \in unitmx ->
  post_grad A Cx Ce x0 b (map_closed A Cx Ce x0 b) = 0 /\
  forall x, post_grad A Cx Ce x0 b x = 0 -> x = map_closed A Cx Ce x0 b.
Proof. move=> F m n A Cx Ce x0 b Ux Ue Us; split; [exact: map_stationary | move=> x; exact: stationary_unique]. Qed.
Print Assumptions C15_unique_stationary_point.

(* optimiser route, PARTIAL: on a linear-Gaussian (quadratic) posterior any point x differs from the maximiser by
   H^-1 applied to the posterior gradient at x -- so a point where the optimiser's stopping test |grad| <= tol fires is
   within |H^-1| tol of the MAP and a zero gradient gives the MAP itself.
   Full statement NOT proved: "whenever scipy reports success the returned point is a maximiser" for every unimodal
   posterior -- convergence of BFGS / L-BFGS-B and the accuracy of finite-difference gradients are outside the model;
   for non-Gaussian posteriors maximality is checked by the harness oracle on every run, not proved (and is refuted
   for non-smooth priors: finding ..|nonsmooth-prior:bfgs-finite-differences). *)
Theorem C15_optimiser_partial :
  forall (F : fieldType) (m n : nat) (A : 'M[F]_(m, n)) (Cx : 'M[F]_n) (Ce : 'M[F]_m) (x0 : 'cV[F]_n) (b : 'cV[F]_m) (x : 'cV[F]_n),
  Cx \in unitmx -> Ce \in unitmx -> sysm A Cx Ce \in unitmx ->
  x = map_closed A Cx Ce x0 b - invmx (hess A Cx Ce) *m post_grad A Cx Ce x0 b x.
Proof. move=> F m n A Cx Ce x0 b x Ux Ue Us; exact: stationary_error. Qed.
Print Assumptions C15_optimiser_partial.

(* _sampleMapCholesky: x = x_MAP + L z with L L^T = hess^-1: offset = posterior mean, differences of draws = L applied
   to differences of the normals, covariance L L^T is the inverse of the posterior precision = Woodbury form *)
Theorem C15_cholesky_draw_moments :
  forall (F : fieldType) (m n : nat) (A : 'M[F]_(m, n)) (Cx : 'M[F]_n) (Ce : 'M[F]_m) (x0 : 'cV[F]_n) (b : 'cV[F]_m)
         (L : 'M[F]_n) (z1 z2 : 'cV[F]_n),
  Cx \in unitmx -> Ce \in unitmx -> sysm A Cx Ce \in unitmx ->
  L *m L^T = invmx (hess A Cx Ce) ->
  [/\ map_closed A Cx Ce x0 b + L *m 0 = invmx (hess A Cx Ce) *m rhs_post A Cx Ce x0 b,
      (map_closed A Cx Ce x0 b + L *m z1) - (map_closed A Cx Ce x0 b + L *m z2) = L *m (z1 - z2),
      hess A Cx Ce *m (L *m L^T) = 1%:M &
      L *m L^T = post_cov A Cx Ce].
Proof. move=> F m n A Cx Ce x0 b L z1 z2 Ux Ue Us HL; exact: cholesky_draw. Qed.
Print Assumptions C15_cholesky_draw_moments.

(* the expansions the code performs give invertible covariances: c I for c != 0, diag v (repaired code) for v_i != 0 *)
Theorem C15_expanded_cov_invertible :
  forall (F : fieldType) (n : nat) (c : F) (v : 'rV[F]_n),
  (c != 0 -> (c%:M : 'M[F]_n) \in unitmx) /\ ((forall i, v 0 i != 0) -> diag_mx v \in unitmx).
Proof. move=> F n c v; split; [exact: scalar_cov_unit | exact: diag_cov_unit]. Qed.
Print Assumptions C15_expanded_cov_invertible.
