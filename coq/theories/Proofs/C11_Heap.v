(* C11 -- proofs about the heap model (Model/C11_Heap.v): the frame relation `ext`, preservation of the denotation
   `den` under `ext` (one step and arbitrary histories), soundness of the executable frame check used on observed
   transitions, and the frame theorem of every modelled operation. *)
From CV Require Import Base.Tac Model.C11_Heap.
From Coq Require String.
Import String.StringSyntax.
Open Scope string_scope.
Open Scope list_scope.

(* ---------- heaps ---------- *)
Lemma get_lt h l o : get h l = Some o -> l < length h.
Proof. unfold get. intros H. apply nth_error_Some. congruence. Qed.

Lemma get_none h l : get h l = None -> length h <= l.
Proof. unfold get. apply nth_error_None. Qed.

Lemma get_app_l h o l : l < length h -> get (h ++ [o]) l = get h l.
Proof. unfold get. intros. apply nth_error_app1. assumption. Qed.

Lemma get_app_old h x l o : get h l = Some o -> get (h ++ [x]) l = Some o.
Proof. intros H. rewrite get_app_l; [assumption | eapply get_lt; eassumption]. Qed.

Lemma upd_length h : forall l o, length (upd h l o) = length h.
Proof. induction h as [|x h IH]; intros [|l] o; simpl; auto. Qed.

Lemma get_upd_same h : forall l o, l < length h -> get (upd h l o) l = Some o.
Proof. induction h as [|x h IH]; intros [|l] o Hl; simpl in *; try lia; auto. apply IH. lia. Qed.

Lemma get_upd_other h : forall l l' o, l <> l' -> get (upd h l o) l' = get h l'.
Proof.
  induction h as [|x h IH]; intros [|l] [|l'] o Hn; simpl; auto; try congruence.
  all: try (apply IH; congruence).
Qed.

Lemma setattr_length h l f v : length (setattr h l f v) = length h.
Proof. unfold setattr. destruct (get h l); auto. apply upd_length. Qed.

Lemma get_setattr_other h l f v l' : l <> l' -> get (setattr h l f v) l' = get h l'.
Proof. unfold setattr. intros. destruct (get h l); auto. apply get_upd_other. assumption. Qed.

Lemma get_setattr_same h l f v o : get h l = Some o -> get (setattr h l f v) l = Some (setf o f v).
Proof. unfold setattr. intros H. rewrite H. apply get_upd_same. eapply get_lt; eassumption. Qed.

(* ---------- fields ---------- *)
Lemma str_eqb_eq a b : str_eqb a b = true <-> a = b.
Proof. apply String.eqb_eq. Qed.

Lemma getf_setf_other o f g v : f <> g -> getf (setf o f v) g = getf o g.
Proof.
  intros Hn. induction o as [|[k w] o IH]; simpl.
  - destruct (str_eqb g f) eqn:E; auto. apply str_eqb_eq in E. congruence.
  - destruct (str_eqb f k) eqn:E1; simpl.
    + apply str_eqb_eq in E1. subst k. destruct (str_eqb g f) eqn:E2; auto. apply str_eqb_eq in E2. congruence.
    + destruct (str_eqb g k); auto.
Qed.

Lemma is_cache_not_class f : is_cache f = true -> f <> "__class__".
Proof. intros H E. subst f. vm_compute in H. discriminate. Qed.

Lemma class_of_setf o f v : f <> "__class__" -> class_of (setf o f v) = class_of o.
Proof. intros H. unfold class_of. rewrite getf_setf_other; auto. Qed.

Lemma filter_setf_cache o f v : is_cache f = true ->
  filter (fun fv : string * value => negb (is_cache (fst fv))) (setf o f v) =
  filter (fun fv : string * value => negb (is_cache (fst fv))) o.
Proof.
  intros Hc. induction o as [|[k w] o IH]; cbn [setf filter fst].
  - rewrite Hc. reflexivity.
  - destruct (str_eqb f k) eqn:E; cbn [filter fst].
    + apply str_eqb_eq in E. subst k. rewrite Hc. reflexivity.
    + rewrite IH. reflexivity.
Qed.

Lemma sem_setf_cache o f v : is_cache f = true -> sem_obj (setf o f v) = sem_obj o.
Proof.
  intros Hc. unfold sem_obj, is_scratch.
  rewrite class_of_setf by (apply is_cache_not_class; assumption).
  destruct (scratch_class (class_of o)); auto. apply filter_setf_cache. assumption.
Qed.

Lemma sem_setf_scratch o f v : is_scratch o = true -> f <> "__class__" -> sem_obj (setf o f v) = sem_obj o.
Proof.
  intros Hs Hf. unfold sem_obj, is_scratch in *. rewrite class_of_setf by assumption. rewrite Hs. reflexivity.
Qed.

Lemma class_of_sem o o' : sem_obj o' = sem_obj o -> class_of o' = class_of o.
Proof.
  unfold sem_obj. intros H.
  assert (G : forall x, getf (filter (fun fv : string * value => negb (is_cache (fst fv))) x) "__class__" = getf x "__class__").
  { induction x as [|[k w] x IH]; [reflexivity|]. cbn [filter fst].
    destruct (is_cache k) eqn:Ek; cbn [negb getf].
    - destruct (str_eqb "__class__" k) eqn:E; [|exact IH]. apply str_eqb_eq in E. subst k. vm_compute in Ek. discriminate.
    - destruct (str_eqb "__class__" k); [reflexivity | exact IH]. }
  destruct (is_scratch o') eqn:S1; destruct (is_scratch o) eqn:S2.
  - inversion H. reflexivity.
  - unfold class_of at 2. rewrite <- G, <- H. simpl. reflexivity.
  - unfold class_of at 1. rewrite <- G, H. simpl. reflexivity.
  - unfold class_of. rewrite <- (G o'), <- (G o), H. reflexivity.
Qed.

(* ---------- the frame relation ---------- *)
Definition ext (h h' : heap) : Prop :=
  length h <= length h' /\
  forall l o, get h l = Some o -> exists o', get h' l = Some o' /\ sem_obj o' = sem_obj o.

Lemma ext_refl h : ext h h.
Proof. split; [lia | intros l o H; exists o; auto]. Qed.

Lemma ext_trans h1 h2 h3 : ext h1 h2 -> ext h2 h3 -> ext h1 h3.
Proof.
  intros [L1 E1] [L2 E2]. split; [lia|]. intros l o H.
  destruct (E1 l o H) as [o2 [G2 S2]]. destruct (E2 l o2 G2) as [o3 [G3 S3]]. exists o3. split; congruence.
Qed.

Lemma ext_alloc h0 h o : ext h0 h -> ext h0 (h ++ [o]).
Proof.
  intros [L E]. split; [rewrite app_length; simpl; lia|]. intros l x H.
  destruct (E l x H) as [o' [G S]]. exists o'. split; auto. apply get_app_old. assumption.
Qed.

Lemma ext_setattr_fresh h0 h n f v : ext h0 h -> length h0 <= n -> ext h0 (setattr h n f v).
Proof.
  intros [L E] Hn. split; [rewrite setattr_length; lia|]. intros l x H.
  destruct (E l x H) as [o' [G S]]. exists o'. split; auto.
  rewrite get_setattr_other; auto. apply get_lt in H. lia.
Qed.

Lemma ext_setattr_cache h0 h l f v : is_cache f = true -> ext h0 h -> ext h0 (setattr h l f v).
Proof.
  intros Hc [L E]. split; [rewrite setattr_length; lia|]. intros l' x H.
  destruct (E l' x H) as [o' [G S]].
  destruct (Nat.eq_dec l l') as [->|Hne].
  - exists (setf o' f v). split; [apply get_setattr_same; assumption|]. rewrite sem_setf_cache; assumption.
  - exists o'. split; auto. rewrite get_setattr_other; auto.
Qed.

Lemma ext_setattr_scratch h0 h l f v o : get h l = Some o -> is_scratch o = true -> f <> "__class__" ->
  ext h0 h -> ext h0 (setattr h l f v).
Proof.
  intros Hg Hs Hf [L E]. split; [rewrite setattr_length; lia|]. intros l' x H.
  destruct (E l' x H) as [o' [G S]].
  destruct (Nat.eq_dec l l') as [->|Hne].
  - rewrite Hg in G. inversion G; subst o'. exists (setf o f v). split; [apply get_setattr_same; assumption|].
    rewrite sem_setf_scratch; assumption.
  - exists o'. split; auto. rewrite get_setattr_other; auto.
Qed.

Lemma class_at_ext h h' l o : ext h h' -> get h l = Some o -> class_at h' l = class_at h l.
Proof.
  intros [_ E] H. destruct (E l o H) as [o' [G S]]. unfold class_at. rewrite G, H. apply class_of_sem. assumption.
Qed.

Lemma class_at_setattr h l f v l' : f <> "__class__" -> class_at (setattr h l f v) l' = class_at h l'.
Proof.
  intros Hf. unfold class_at. destruct (Nat.eq_dec l l') as [->|Hne].
  - destruct (get h l') as [o|] eqn:G.
    + rewrite (get_setattr_same _ _ _ _ _ G). apply class_of_setf. assumption.
    + unfold setattr. rewrite G. rewrite G. reflexivity.
  - rewrite get_setattr_other; auto.
Qed.

(* ---------- closed heaps and the denotation ---------- *)
Definition closed (h : heap) : Prop :=
  forall l o, get h l = Some o -> forall fv, In fv (sem_obj o) -> forall r, In r (refs_of (snd fv)) -> r < length h.

(* one step: whatever happened between h and h', if it respected the frame relation, no object of h reads differently *)
Lemma den_ext : forall k h h', closed h -> ext h h' -> forall l, l < length h -> den k h' l = den k h l.
Proof.
  induction k as [|k IH]; intros h h' Hc He l Hl; simpl; auto.
  destruct (get h l) as [o|] eqn:G.
  2:{ apply get_none in G. lia. }
  destruct He as [L E]. destruct (E l o G) as [o' [G' S]]. rewrite G', S.
  f_equal. apply map_ext_in. intros [f v] Hin. cbn [fst snd]. f_equal.
  destruct v; auto.
  - apply IH; auto; [split; assumption|]. eapply (Hc l o G (f, VRef l0) Hin). simpl. auto.
  - f_equal. apply map_ext_in. intros r Hr. apply IH; auto; [split; assumption|].
    eapply (Hc l o G (f, VList ls) Hin). simpl. assumption.
Qed.

(* histories: a list of successive heaps, each related to the next by the frame relation *)
Fixpoint chain (h : heap) (hs : list heap) : Prop :=
  match hs with [] => True | h' :: r => ext h h' /\ chain h' r end.

Lemma last_default {A} (l : list A) : forall x d d', last (x :: l) d = last (x :: l) d'.
Proof. induction l as [|y l IH]; intros x d d'; [reflexivity|]. change (last (y :: l) d = last (y :: l) d'). apply IH. Qed.

Lemma chain_ext : forall hs h, chain h hs -> ext h (last hs h).
Proof.
  induction hs as [|h1 hs IH]; intros h H.
  - apply ext_refl.
  - destruct H as [E C]. destruct hs as [|h2 hs'].
    + assumption.
    + eapply ext_trans; [exact E|]. rewrite (last_default (h2 :: hs') h1 h h1).
      change (ext h1 (last (h2 :: hs') h1)). apply (IH h1 C).
Qed.

Lemma history : forall hs h k l, closed h -> chain h hs -> l < length h -> den k (last hs h) l = den k h l.
Proof. intros hs h k l Hc Hch Hl. apply den_ext; auto. apply chain_ext. assumption. Qed.

(* ---------- soundness of the executable checks ---------- *)
Lemma strs_eqb_eq : forall a b, strs_eqb a b = true -> a = b.
Proof.
  induction a as [|x a IH]; intros [|y b] H; simpl in H; try discriminate; auto.
  apply andb_true_iff in H as [H1 H2]. apply str_eqb_eq in H1. f_equal; auto.
Qed.

Lemma nats_eqb_eq : forall a b, nats_eqb a b = true -> a = b.
Proof.
  induction a as [|x a IH]; intros [|y b] H; simpl in H; try discriminate; auto.
  apply andb_true_iff in H as [H1 H2]. apply Nat.eqb_eq in H1. f_equal; auto.
Qed.

Lemma value_eqb_eq a b : value_eqb a b = true -> a = b.
Proof.
  destruct a, b; simpl; intros H; try discriminate; auto.
  - apply Z.eqb_eq in H. congruence.
  - apply str_eqb_eq in H. congruence.
  - apply Z.eqb_eq in H. congruence.
  - apply andb_true_iff in H as [H1 H2]. apply Z.eqb_eq in H1, H2. congruence.
  - apply Nat.eqb_eq in H. congruence.
  - apply nats_eqb_eq in H. congruence.
  - apply strs_eqb_eq in H. congruence.
  - apply andb_true_iff in H as [H1 H2]. apply strs_eqb_eq in H1. apply Z.eqb_eq in H2. congruence.
Qed.

Lemma obj_eqb_upto_false_eq : forall a b, obj_eqb_upto false a b = true -> a = b.
Proof.
  induction a as [|[f v] a IH]; intros [|[g w] b] H; simpl in H; try discriminate; auto.
  apply andb_true_iff in H as [H12 H3]. apply andb_true_iff in H12 as [H1 H2].
  apply str_eqb_eq in H1. subst g.
  assert (v = w).
  { destruct v, w; simpl in H2; try discriminate; try (apply value_eqb_eq; exact H2). }
  subst w. f_equal. auto.
Qed.

Lemma frame_objs_sound : forall h h', frame_objs false h h' = true -> ext h h'.
Proof.
  induction h as [|o h IH]; intros h' H.
  - split; [simpl; lia | intros l x G; destruct l; discriminate].
  - destruct h' as [|o' h']; simpl in H; try discriminate.
    apply andb_true_iff in H as [H1 H2]. apply obj_eqb_upto_false_eq in H1.
    destruct (IH h' H2) as [L E]. split; [simpl; lia|].
    intros [|l] x G; simpl in G.
    + inversion G; subst x. exists o'. split; auto.
    + apply (E l x G).
Qed.

Lemma closed_b_sound h : closed_b h = true -> closed h.
Proof.
  unfold closed_b, closed. intros H l o G fv Hin r Hr.
  rewrite forallb_forall in H. assert (Ho : In o h) by (eapply nth_error_In; exact G).
  specialize (H o Ho). rewrite forallb_forall in H. specialize (H fv Hin).
  unfold refs_ok in H. rewrite forallb_forall in H. specialize (H r Hr). apply Nat.ltb_lt in H. exact H.
Qed.

(* an observed transition that passes check_frame (strict form) preserves the denotation of every old object *)
Lemma check_frame_sound h h' : check_frame false h h' = true ->
  ext h h' /\ closed h /\ closed h' /\ forall k l, l < length h -> den k h' l = den k h l.
Proof.
  unfold check_frame. intros H. apply andb_true_iff in H as [H12 H3]. apply andb_true_iff in H12 as [H1 H2].
  pose proof (frame_objs_sound _ _ H1) as E. pose proof (closed_b_sound _ H2) as C.
  repeat split; auto; try (apply closed_b_sound; assumption); try apply E.
  intros k l Hl. apply den_ext; auto.
Qed.

(* =====================================================================================================
   Frame theorems of the operations
   ===================================================================================================== *)

Lemma py_copy_spec h l : forall h1 n, py_copy h l = (h1, n) -> ext h h1 /\ length h <= n.
Proof.
  unfold py_copy, alloc. intros h1 n H. destruct (get h l) as [o|] eqn:G.
  - inversion H; subst. split; [apply ext_alloc, ext_refl | lia].
  - inversion H; subst. split; [apply ext_refl | apply get_none; assumption].
Qed.

Lemma make_copy_spec h self : forall h1 n, make_copy h self = (h1, n) -> ext h h1 /\ length h <= n.
Proof.
  unfold make_copy. intros h1 n H. destruct (py_copy h self) as [h0 m] eqn:E.
  destruct (py_copy_spec _ _ _ _ E) as [E1 L]. inversion H; subst. split; auto.
  apply ext_setattr_fresh; assumption.
Qed.

Lemma make_copy_frame h self : ext h (fst (make_copy h self)).
Proof. destruct (make_copy h self) as [h1 n] eqn:E. simpl. eapply make_copy_spec; eassumption. Qed.

Lemma to_likelihood_spec hints h0 h d data name : ext h0 h ->
  forall h1 r, to_likelihood hints h d data name = (h1, r) -> ext h0 h1 /\ length h <= r.
Proof.
  intros E h1 r H. unfold to_likelihood, alloc in H. destruct (get h d) as [o|] eqn:G.
  - destruct (cond_vars' hints h o); inversion H; subst; split; try lia; apply ext_alloc; assumption.
  - inversion H; subst. split; auto. apply get_none. assumption.
Qed.

Lemma model_apply_spec h m d h1 r : model_apply h m d = Some (h1, r) ->
  ext (geometry_getter h d (Some wild)) h1 /\ length (geometry_getter h d (Some wild)) <= r.
Proof.
  unfold model_apply. destruct (name_of 50 (geometry_getter h d (Some wild)) d); [|discriminate].
  destruct (py_copy (geometry_getter h d (Some wild)) m) as [h0 n] eqn:E. intros H. inversion H; subst.
  destruct (py_copy_spec _ _ _ _ E) as [E1 L]. split; auto. apply ext_setattr_fresh; assumption.
Qed.

Lemma fold_setattr_fresh h0 n (g : string -> value) : forall fs h, ext h0 h -> length h0 <= n ->
  ext h0 (fold_left (fun hh f => setattr hh n f (g f)) fs h).
Proof.
  induction fs as [|f fs IH]; intros h E L; simpl; auto. apply IH; auto. apply ext_setattr_fresh; assumption.
Qed.

(* the geometry getter run on a location allocated by the current operation *)
Lemma geometry_getter_ext_fresh h0 h l dim : ext h0 h -> length h0 <= l -> ext h0 (geometry_getter h l dim).
Proof.
  intros E L. unfold geometry_getter. destruct (get h l) as [o|]; auto.
  destruct (getf o "_geometry") as [[| | | | |g| | |]|]; auto.
  assert (N : forall h1 g1, ext h0 h1 ->
            ext h0 match getf o "_name" with Some (VStr s) => setattr h1 g1 "_variable_name" (VStr s) | _ => h1 end).
  { intros h1 g1 E1. destruct (getf o "_name") as [[| |s| | | | | |]|]; auto. apply ext_setattr_cache; [reflexivity | assumption]. }
  destruct dim as [d|]; [|apply N; assumption].
  destruct (unset_geom_at h g); [|apply N; assumption].
  unfold alloc. apply N. apply ext_setattr_fresh; [apply ext_alloc; assumption | assumption].
Qed.

Lemma py_setattr_ext h0 h n key v : ext h0 h -> length h0 <= n -> ext h0 (py_setattr h n key v).
Proof.
  intros E L. unfold py_setattr. destruct (get h n) as [o|]; auto.
  destruct (getf o key); [apply ext_setattr_fresh; assumption|].
  destruct (setter_fields (class_of o) key (is_concrete h v)) as [|f0 rest]; auto.
  assert (X : ext h0 (fold_left (fun hh f => setattr hh n f (if str_eqb f "_cov" then if str_eqb key "cov" then
      match v with VRef _ | VClo _ _ | VNone => v | _ => wild end else VNone else wild)) rest
      (setattr h n f0 match v with VRef _ | VClo _ _ | VNone => v | _ => wild end))).
  { apply (fold_setattr_fresh h0 n (fun f => if str_eqb f "_cov" then if str_eqb key "cov" then
      match v with VRef _ | VClo _ _ | VNone => v | _ => wild end else VNone else wild)); auto.
    apply ext_setattr_fresh; assumption. }
  destruct (str_eqb (class_of o) "Gaussian" && negb (str_eqb key "mean") && is_concrete h v); [|exact X].
  apply geometry_getter_ext_fresh; assumption.
Qed.

Lemma cond_loop_ext app h0 self n o_self kw :
  (forall hh d h2 r, app hh d = Some (h2, r) -> ext hh h2) -> length h0 <= n ->
  forall mv h processed h' p', ext h0 h ->
    cond_loop app h self n o_self kw mv processed = Some (h', p') -> ext h0 h'.
Proof.
  intros Happ Ln. induction mv as [|key rest IH]; intros h processed h' p' E H; simpl in H.
  - inversion H; subst. assumption.
  - destruct (lookup kw key) as [v|] eqn:Ek.
    + set (h1 := py_setattr h n key v) in *.
      assert (E1 : ext h0 h1) by (apply py_setattr_ext; assumption).
      destruct (callable_args h1 (read_var o_self key)) as [accepted|]; [|eapply IH; eassumption].
      destruct (Nat.eqb (length (kw_filter kw accepted)) (length accepted)).
      * destruct (read_var o_self key) as [| | | | |d| | |] eqn:Ev;
          try (eapply IH; [|eassumption]; apply py_setattr_ext; assumption).
        destruct (is_model_class (class_at h1 d)).
        -- eapply IH; [|eassumption]. apply py_setattr_ext; assumption.
        -- destruct (app h1 d) as [[h2 r]|] eqn:Ea; [|discriminate].
           eapply IH; [|eassumption]. apply py_setattr_ext; auto. eapply ext_trans; [exact E1|]. eapply Happ; eassumption.
      * destruct (Nat.ltb 0 (length (kw_filter kw accepted))); (eapply IH; [|eassumption]);
          first [assumption | apply py_setattr_ext; assumption].
    + destruct (callable_args h (read_var o_self key)) as [accepted|]; [|eapply IH; eassumption].
      destruct (Nat.eqb (length (kw_filter kw accepted)) (length accepted)).
      * destruct (read_var o_self key) as [| | | | |d| | |] eqn:Ev;
          try (eapply IH; [|eassumption]; apply py_setattr_ext; assumption).
        destruct (is_model_class (class_at h d)).
        -- eapply IH; [|eassumption]. apply py_setattr_ext; assumption.
        -- destruct (app h d) as [[h2 r]|] eqn:Ea; [|discriminate].
           eapply IH; [|eassumption]. apply py_setattr_ext; auto. eapply ext_trans; [exact E|]. eapply Happ; eassumption.
      * destruct (Nat.ltb 0 (length (kw_filter kw accepted))); (eapply IH; [|eassumption]);
          first [assumption | apply py_setattr_ext; assumption].
Qed.

(* a location returned by conditioning is either allocated by it, or it is an existing object that is not a Distribution
   (an EvaluatedDensity returns itself): the reduced density that receives the constants is therefore always fresh *)
Definition fresh_or_nondist (h0 : heap) (h : heap) (r : loc) : Prop :=
  length h0 <= r \/ (r < length h /\ is_dist_at h r = false).

Lemma fresh_or_nondist_ext h0 h h' r : ext h h' -> fresh_or_nondist h0 h r -> fresh_or_nondist h0 h' r.
Proof.
  intros E [F|[L D]]; [left; assumption|]. right. destruct E as [Le E']. split; [lia|].
  destruct (get h r) as [o|] eqn:G.
  - unfold is_dist_at in *. rewrite (class_at_ext h h' r o); auto. split; assumption.
  - apply get_none in G. lia.
Qed.

Lemma fresh_or_nondist_le h0 h1 h r : length h0 <= length h1 -> fresh_or_nondist h1 h r -> fresh_or_nondist h0 h r.
Proof. intros L [F|R]; [left; lia | right; assumption]. Qed.

Lemma joint_loop_ext (cond1 : heap -> loc -> list (string * value) -> option (heap * loc)) pn h0 kw :
  (forall hh f kw' h1 r, cond1 hh f kw' = Some (h1, r) -> ext hh h1 /\ fresh_or_nondist hh h1 r) ->
  forall fs h done h' rs, ext h0 h -> Forall (fresh_or_nondist h0 h) done ->
    joint_loop cond1 pn h kw fs done = Some (h', rs) -> ext h0 h' /\ Forall (fresh_or_nondist h0 h') rs.
Proof.
  intros Hc. induction fs as [|f fs IH]; intros h done h' rs E F H; simpl in H.
  - inversion H; subst. split; assumption.
  - destruct (cond1 h f (kw_filter kw (pn h f))) as [[h1 r]|] eqn:E1; [|discriminate].
    destruct (Hc _ _ _ _ _ E1) as [X Q].
    eapply IH; [| |eassumption].
    + eapply ext_trans; eassumption.
    + apply Forall_app. split.
      * eapply Forall_impl; [|exact F]. intros a Ha. eapply fresh_or_nondist_ext; eassumption.
      * constructor; [|constructor]. eapply fresh_or_nondist_le; [|exact Q]. apply E.
Qed.

Lemma add_constants_fresh h0 h t b : ext h0 h -> length h0 <= t -> ext h0 (add_constants false h t b).
Proof.
  intros E L. unfold add_constants. destruct (getattr h t "_constant") as [v|]; auto.
  destruct v; cbn iota; try (destruct b; [apply ext_setattr_fresh; assumption | assumption]).
  apply ext_setattr_fresh; assumption.
Qed.

Lemma geometry_getter_none_ext h0 h l : ext h0 h -> ext h0 (geometry_getter h l None).
Proof.
  intros E. unfold geometry_getter. destruct (get h l) as [o|]; auto.
  destruct (getf o "_geometry") as [[| | | | |g| | |]|]; auto.
  destruct (getf o "_name") as [[| |s| | | | | |]|]; auto. apply ext_setattr_cache; [reflexivity | assumption].
Qed.

Lemma geometry_getter_length h l dim : length h <= length (geometry_getter h l dim).
Proof.
  unfold geometry_getter. destruct (get h l) as [o|]; auto.
  destruct (getf o "_geometry") as [[| | | | |g| | |]|]; auto.
  assert (N : forall h1 g1, length h <= length h1 ->
            length h <= length match getf o "_name" with Some (VStr s) => setattr h1 g1 "_variable_name" (VStr s) | _ => h1 end).
  { intros h1 g1 L1. destruct (getf o "_name") as [[| |s| | | | | |]|]; auto. rewrite setattr_length. assumption. }
  destruct dim as [d|]; [|apply N; lia].
  destruct (unset_geom_at h g); [|apply N; lia].
  unfold alloc. apply N. rewrite setattr_length, app_length. simpl. lia.
Qed.

Lemma filter_head_in {A} (p : A -> bool) l x r : filter p l = x :: r -> In x l /\ p x = true.
Proof. intros H. apply filter_In. rewrite H. left. reflexivity. Qed.

Lemma is_lik_nondist h l : is_lik_at h l = true -> l < length h /\ is_dist_at h l = false.
Proof.
  unfold is_lik_at, is_dist_at, class_at. intros H. destruct (get h l) as [o|] eqn:G.
  - split; [eapply get_lt; eassumption|]. apply str_eqb_eq in H. rewrite H. reflexivity.
  - vm_compute in H. discriminate.
Qed.

Local Opaque name_of param_names.

Lemma reduce_spec hints h0 h nj rs h' r : ext h0 h -> length h0 <= nj -> Forall (fresh_or_nondist h0 h) rs ->
  reduce hints false h nj rs = Some (h', r) -> ext h0 h' /\ fresh_or_nondist h0 h' r.
Proof.
  intros E L F H. unfold reduce in H.
  destruct (Nat.ltb 1 (count_if (is_dist_at h) rs)).
  { inversion H; subst. split; auto. left. assumption. }
  destruct (Nat.eqb (count_if (is_dist_at h) rs) 1 && Nat.ltb 1 (count_if (is_lik_at h) rs)).
  { destruct (forallb _ rs); [|discriminate].
    unfold alloc in H. inversion H; subst. split; [apply ext_alloc; assumption|]. left. destruct E. lia. }
  destruct (Nat.eqb (count_if (is_dist_at h) rs) 1 && Nat.eqb (count_if (is_lik_at h) rs) 1).
  { destruct (filter (is_lik_at h) rs) as [|lk ?] eqn:Fl; [discriminate|].
    destruct (filter (is_dist_at h) rs) as [|d ?] eqn:Fd; [discriminate|].
    destruct (negb (same_set (param_names hints 50 h lk) (param_names hints 50 h d))).
    { inversion H; subst. split; auto. left. assumption. }
    destruct (negb (Nat.eqb (length (param_names hints 50 h lk)) 1)); [discriminate|].
    destruct (filter_head_in _ _ _ _ Fd) as [Hin Hd].
    assert (Fr : length h0 <= d).
    { rewrite Forall_forall in F. destruct (F _ Hin) as [Fr|[_ Nd]]; [assumption | congruence]. }
    pose proof (geometry_getter_ext_fresh h0 h d (Some wild) E Fr) as Eq.
    pose proof (geometry_getter_length h d (Some wild)) as Lq.
    assert (Eq' : forall g, ext h0 (geometry_getter h g None)) by (intros g; apply geometry_getter_none_ext; assumption).
    assert (Lq' : forall g, length h <= length (geometry_getter h g None)) by (intros g; apply geometry_getter_length).
    destruct (if str_eqb (class_at h d) "RegularizedGaussian"
              then match getattr h d "_gaussian" with Some (VRef g) => Some g | _ => None end else None) as [gi|];
    unfold alloc in H; inversion H; subst; split.
    - apply add_constants_fresh; [apply ext_alloc; apply Eq' | specialize (Lq' gi); destruct E; lia].
    - left. specialize (Lq' gi). destruct E. lia.
    - apply add_constants_fresh; [apply ext_alloc; assumption | destruct E; lia].
    - left. destruct E. lia. }
  destruct (Nat.eqb (count_if (is_dist_at h) rs) 1 && Nat.eqb (count_if (is_lik_at h) rs) 0).
  { destruct (filter (is_dist_at h) rs) as [|d ?] eqn:Fd; [discriminate|].
    inversion H; subst. destruct (filter_head_in _ _ _ _ Fd) as [Hin Hd].
    rewrite Forall_forall in F. destruct (F _ Hin) as [Fr|[_ Nd]]; [|congruence].
    split; [apply add_constants_fresh; assumption | left; assumption]. }
  destruct (Nat.eqb (count_if (is_lik_at h) rs) 1 && Nat.eqb (count_if (is_dist_at h) rs) 0).
  { destruct (filter (is_lik_at h) rs) as [|lk ?] eqn:Fl; [discriminate|].
    inversion H; subst. destruct (filter_head_in _ _ _ _ Fl) as [Hin Hl].
    split; auto. right. apply is_lik_nondist. assumption. }
  destruct (Nat.eqb (count_if (is_dist_at h) rs) 0 && Nat.eqb (count_if (is_lik_at h) rs) 0); [|discriminate].
  inversion H; subst. split; auto. left. assumption.
Qed.

Lemma some_pair_inv {A B} (p : A * B) a b : Some p = Some (a, b) -> p = (a, b).
Proof. congruence. Qed.

(* THE frame theorem of conditioning (code with the constant re-bound, i.e. inplace = false): for every class of operand,
   every keyword list, every heap: all old objects keep their semantic fields, and the result is fresh unless it is an
   EvaluatedDensity / Likelihood that already existed *)
Theorem cond_frame hints : forall fuel h self kw h' r,
  cond hints false fuel h self kw = Some (h', r) -> ext h h' /\ fresh_or_nondist h h' r.
Proof.
  induction fuel as [|k IH]; intros h self kw h' r H; [discriminate|].
  cbn [cond] in H. destruct (get h self) as [o|] eqn:G; [|discriminate].
  destruct (str_eqb (class_of o) "EvaluatedDensity") eqn:Eed.
  { inversion H; subst. split; [apply ext_refl|]. right. split; [eapply get_lt; eassumption|].
    unfold is_dist_at, class_at. rewrite G. apply str_eqb_eq in Eed. rewrite Eed. reflexivity. }
  destruct (is_model_class (class_of o) || str_eqb (class_of o) ""); [discriminate|].
  destruct (str_eqb (class_of o) "Likelihood").
  { destruct (getf o "distribution") as [[| | | | |d| | |]|]; try discriminate.
    destruct (py_copy h self) as [h1 nl] eqn:Ec. destruct (py_copy_spec _ _ _ _ Ec) as [E1 L1].
    destruct (cond hints false k h1 d kw) as [[h2 nd]|] eqn:Ek; [|discriminate].
    destruct (IH _ _ _ _ _ Ek) as [E2 _].
    assert (E3 : ext h (setattr h2 nl "distribution" (VRef nd))).
    { apply ext_setattr_fresh; [eapply ext_trans; eassumption | assumption]. }
    destruct (get (setattr h2 nl "distribution" (VRef nd)) nd) as [ond|]; [|discriminate].
    destruct (cond_vars' hints (setattr h2 nl "distribution" (VRef nd)) ond).
    - apply some_pair_inv in H. destruct (to_likelihood_spec _ _ _ _ _ _ E3 _ _ H) as [E4 L4]. split; auto.
      left. destruct E3. lia.
    - inversion H; subst. split; auto. left. assumption. }
  destruct (is_joint_class (class_of o)).
  { destruct (getf o "_densities") as [[| | | | | |fs| |]|]; try discriminate.
    destruct (py_copy h self) as [h1 nj] eqn:Ec. destruct (py_copy_spec _ _ _ _ Ec) as [E1 L1].
    destruct (joint_loop (cond hints false k) (param_names hints 50) h1 kw fs []) as [[h2 rs]|] eqn:Ej; [|discriminate].
    destruct (joint_loop_ext (cond hints false k) (param_names hints 50) h kw IH fs h1 [] h2 rs E1 (Forall_nil _) Ej) as [E2 F2].
    eapply reduce_spec; [| |  |exact H].
    - apply ext_setattr_fresh; assumption.
    - assumption.
    - eapply Forall_impl; [|exact F2]. intros a [Fa|[La Da]]; [left; assumption|]. right.
      split; [rewrite setattr_length; assumption|].
      unfold is_dist_at in *. rewrite class_at_setattr; [assumption|]. intros X; discriminate. }
  destruct (str_eqb (class_of o) "RegularizedGaussian").
  { destruct (getf o "_gaussian") as [[| | | | |g| | |]|]; try discriminate.
    destruct (name_of 50 h self) as [nm|]; [|discriminate].
    destruct (negb _); [discriminate|].
    destruct (mem_str "_main_parameter" (keys kw)); [discriminate|].
    destruct (make_copy h self) as [h1 n] eqn:Em. destruct (make_copy_spec _ _ _ _ Em) as [E1 L1].
    destruct (cond hints false k h1 g _) as [[h2 ng]|] eqn:Ek; [|discriminate].
    destruct (IH _ _ _ _ _ Ek) as [E2 _].
    assert (E3 : ext h (setattr h2 n "_gaussian" (VRef ng))).
    { apply ext_setattr_fresh; [eapply ext_trans; eassumption | assumption]. }
    destruct (lookup kw nm) as [v|].
    - apply some_pair_inv in H. destruct (to_likelihood_spec _ _ _ _ _ _ E3 _ _ H) as [E4 L4]. split; auto.
      left. destruct E3. lia.
    - inversion H; subst. split; auto. left. assumption. }
  destruct (existsb _ (keys kw)); [discriminate|].
  destruct (make_copy h self) as [h1 n] eqn:Em. destruct (make_copy_spec _ _ _ _ Em) as [E1 L1].
  destruct (cond_loop (fun hh d => cond hints false k hh d []) h1 self n o kw (mutable_vars hints o) []) as [[h2 processed]|] eqn:El;
    [|discriminate].
  assert (E2 : ext h h2).
  { eapply (cond_loop_ext _ h self n o kw); [| | |exact El]; auto.
    intros hh d h3 r3 Hc. destruct (IH _ _ _ _ _ Hc). assumption. }
  assert (Ln : fresh_or_nondist h h2 n) by (left; assumption).
  assert (TL : forall v nm hh rr, to_likelihood hints h2 n v nm = (hh, rr) -> ext h hh /\ fresh_or_nondist h hh rr).
  { intros v nm hh rr Ht. destruct (to_likelihood_spec _ _ _ _ _ _ E2 _ _ Ht) as [E4 L4]. split; auto.
    left. destruct E2. lia. }
  destruct (lookup kw "_main_parameter") as [v|].
  { apply some_pair_inv in H. eapply TL; exact H. }
  destruct (remove_strs (keys kw) processed).
  { inversion H; subst. split; assumption. }
  destruct (name_of 50 h2 self) as [nm|]; [|discriminate].
  destruct (lookup kw nm) as [v|].
  { apply some_pair_inv in H. eapply TL; exact H. }
  destruct (forallb _ (keys kw)); [|discriminate].
  inversion H; subst. split; assumption.
Qed.

Local Transparent name_of param_names.

(* Lognormal._normal getter: the writes go to the scratch Gaussian only *)
Lemma lognormal_sync_frame h self o g og :
  get h self = Some o -> getf o "_Gaussian" = Some (VRef g) -> get h g = Some og -> is_scratch og = true ->
  ext h (lognormal_sync h self).
Proof.
  intros G Gf Gg Sc. unfold lognormal_sync. rewrite G, Gf.
  assert (SA : forall h1 f v, (exists o1, get h1 g = Some o1 /\ is_scratch o1 = true) -> f <> "__class__" -> ext h h1 ->
               ext h (setattr h1 g f v) /\ exists o2, get (setattr h1 g f v) g = Some o2 /\ is_scratch o2 = true).
  { intros h1 f v [o1 [G1 S1]] Hf E. split; [eapply ext_setattr_scratch; eassumption|].
    exists (setf o1 f v). split; [apply get_setattr_same; assumption|].
    unfold is_scratch in *. rewrite class_of_setf; assumption. }
  set (h1 := match getf o "mean" with
             | Some m => match getattr h g "_mean" with
                         | Some gm => if value_eqb m gm then h else setattr h g "_mean" m
                         | None => setattr h g "_mean" m end
             | None => h end).
  assert (P1 : ext h h1 /\ exists o1, get h1 g = Some o1 /\ is_scratch o1 = true).
  { unfold h1. destruct (getf o "mean") as [m|]; [|split; [apply ext_refl | eauto]].
    destruct (getattr h g "_mean") as [gm|].
    - destruct (value_eqb m gm); [split; [apply ext_refl | eauto]|].
      apply SA; [eauto | intros X; discriminate | apply ext_refl].
    - apply SA; [eauto | intros X; discriminate | apply ext_refl]. }
  destruct P1 as [E1 X1].
  replace (match getf o "mean", getattr h g "_mean" with
           | Some m, Some gm => if value_eqb m gm then h else setattr h g "_mean" m
           | Some m, None => setattr h g "_mean" m
           | _, _ => h end) with h1.
  2:{ unfold h1. destruct (getf o "mean"); auto. }
  destruct (getf o "cov") as [c|]; [|assumption].
  destruct (getattr h1 g "_cov") as [gc|].
  - destruct (value_eqb c gc); [assumption|].
    destruct (SA h1 "_cov" c X1 ltac:(intros X; discriminate) E1) as [E2 X2]. simpl.
    destruct (SA _ "_prec" wild X2 ltac:(intros X; discriminate) E2) as [E3 X3].
    destruct (SA _ "_sqrtprec" wild X3 ltac:(intros X; discriminate) E3) as [E4 X4].
    destruct (SA _ "_logdet" wild X4 ltac:(intros X; discriminate) E4) as [E5 X5].
    destruct (SA _ "_rank" wild X5 ltac:(intros X; discriminate) E5) as [E6 X6]. exact E6.
  - destruct (SA h1 "_cov" c X1 ltac:(intros X; discriminate) E1) as [E2 X2]. exact E2.
Qed.

(* a conditioned copy reads its name from its original *)
Lemma copy_keeps_name k h self o :
  get h self = Some o -> str_eqb (class_of o) "Likelihood" = false ->
  name_of (S k) (fst (make_copy h self)) (snd (make_copy h self)) = name_of k (fst (make_copy h self)) self.
Proof.
  intros G Hc. unfold make_copy, py_copy, alloc. rewrite G. simpl fst. simpl snd.
  assert (Gn : get (h ++ [o]) (length h) = Some o).
  { unfold get. rewrite nth_error_app2 by lia. rewrite Nat.sub_diag. reflexivity. }
  cbn [name_of]. rewrite (get_setattr_same _ _ _ _ _ Gn).
  rewrite class_of_setf by (intros X; discriminate). rewrite Hc.
  assert (Gf : getf (setf o "_original_density" (VRef self)) "_original_density" = Some (VRef self)).
  { clear. induction o as [|[g w] o IH]; [reflexivity|]. cbn [setf].
    destruct (str_eqb "_original_density" g) eqn:E; cbn [getf]; rewrite E; auto. }
  rewrite Gf. reflexivity.
Qed.

(* ---------- the refuted class: in-place `+=` on a shared ndarray constant ---------- *)
Definition witness_heap : heap :=
  [ [("__class__", VStr "Gaussian"); ("_constant", VArr 1 7); ("_mutable_vars", VStrs ["mean"]); ("_mean", VTok 3);
     ("_name", VStr "x"); ("_original_density", VNone)];
    [("__class__", VStr "EvaluatedDensity"); ("_constant", VNum 0); ("_name", VStr "w"); ("_original_density", VNone); ("value", VTok 5)];
    [("__class__", VStr "JointDistribution"); ("_densities", VList [0; 1])] ].

Lemma cond_inplace_refuted :
  exists h self kw h' r l, closed h /\ cond [] true 5 h self kw = Some (h', r) /\ l < length h /\ den 3 h' l <> den 3 h l.
Proof.
  exists witness_heap, 2, [], (fst (match cond [] true 5 witness_heap 2 [] with Some p => p | None => ([], 0) end)),
         (snd (match cond [] true 5 witness_heap 2 [] with Some p => p | None => ([], 0) end)), 0.
  split; [apply closed_b_sound; vm_compute; reflexivity|].
  split; [vm_compute; reflexivity|]. split; [vm_compute; lia|]. vm_compute. intros X. discriminate.
Qed.

(* the same heap under the re-binding code: nothing old changes *)
Lemma cond_rebind_witness_ok :
  match cond [] false 5 witness_heap 2 [] with
  | Some (h', r) => den 3 h' 0 = den 3 witness_heap 0 /\ length witness_heap <= r
  | None => False end.
Proof. vm_compute. split; [reflexivity | lia]. Qed.

Lemma cond_seq_ext hints fuel : forall ops h h', cond_seq hints false fuel h ops = Some h' -> ext h h'.
Proof.
  induction ops as [|[s kw] ops IH]; intros h h' H; simpl in H.
  - inversion H; subst. apply ext_refl.
  - destruct (cond hints false fuel h s kw) as [[h1 r]|] eqn:E; [|discriminate].
    destruct (cond_frame _ _ _ _ _ _ _ E) as [E1 _]. eapply ext_trans; [exact E1|]. apply IH. assumption.
Qed.
