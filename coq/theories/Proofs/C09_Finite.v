(* C09 -- finite state spaces, exact probabilities over Qc: block kernels that leave every conditional invariant
   make the sweep leave the joint invariant (any number of blocks, any finite value sets, any step counts). *)
From CV Require Import Base.Tac Base.Cmp Model.C09_Gibbs Proofs.C09_Wiring.
From Coq Require Import QArith Qcanon Permutation.
Local Open Scope nat_scope.

Section Sums.
Context {A : Type}.
Implicit Types (f g : A -> Qc) (l : list A).

Lemma qcsum_ext f g l : (forall a, In a l -> f a = g a) -> qcsum f l = qcsum g l.
Proof.
  induction l as [|x r IH]; intros H; simpl; auto.
  rewrite (H x) by (left; auto). rewrite IH; auto. intros a Ha; apply H; right; auto.
Qed.

Lemma qcsum_perm f l l' : Permutation l l' -> qcsum f l = qcsum f l'.
Proof.
  induction 1; simpl; auto; try congruence.
  ring.
Qed.

Lemma qcsum_filter f (p : A -> bool) l :
  qcsum (fun a => if p a then f a else 0%Qc) l = qcsum f (filter p l).
Proof.
  induction l as [|x r IH]; simpl; auto. destruct (p x); simpl; rewrite IH; ring.
Qed.

Lemma qcsum_map {B} (h : B -> A) f (l : list B) : qcsum f (map h l) = qcsum (fun b => f (h b)) l.
Proof. induction l as [|x r IH]; simpl; auto. now rewrite IH. Qed.

Lemma qcsum_scal f (c : Qc) l : qcsum (fun a => f a * c)%Qc l = (qcsum f l * c)%Qc.
Proof. induction l as [|x r IH]; simpl; [ring|]. rewrite IH. ring. Qed.

Lemma qcsum_swap {B} (F : A -> B -> Qc) l (m : list B) :
  qcsum (fun a => qcsum (fun b => F a b) m) l = qcsum (fun b => qcsum (fun a => F a b) l) m.
Proof.
  induction l as [|x r IH]; simpl.
  - induction m; simpl; auto. rewrite <- IHm. ring.
  - rewrite IH. clear IH. induction m as [|y m IHm]; simpl; [ring|]. rewrite <- IHm. ring.
Qed.
End Sums.

Section Finite.
Context {V : Type}.
Variable veqb : V -> V -> bool.
Hypothesis veqb_spec : forall x y, veqb x y = true <-> x = y.
Variable d : V.

Notation same_others := (same_others veqb).
Notation lift := (lift veqb).

Lemma same_others_upd i : forall (a' : list V) v, i < length a' -> same_others i (upd a' i v) a' = true.
Proof.
  induction i as [|i IH]; intros [|x r] v H; simpl in *; try lia.
  - apply list_eqb_spec; auto.
  - apply andb_true_iff; split; [apply veqb_spec; auto | apply IH; lia].
Qed.

Lemma same_others_eq i : forall (a a' : list V), same_others i a a' = true -> i < length a' ->
  a = upd a' i (nth i a d) /\ length a = length a'.
Proof.
  induction i as [|i IH]; intros [|x r] [|y r'] H Hl; simpl in *; try discriminate; try lia.
  - apply list_eqb_spec in H; auto. subst. auto.
  - apply andb_true_iff in H as [H1 H2]. apply veqb_spec in H1. subst.
    destruct (IH r r' H2 ltac:(lia)) as [E1 E2]. split; [f_equal; exact E1 | lia].
Qed.

Lemma upd_inj i (a : list V) v w : i < length a -> upd a i v = upd a i w -> v = w.
Proof.
  intros H E. pose proof (nth_error_upd_eq a i v H) as E1. rewrite E, (nth_error_upd_eq a i w H) in E1. congruence.
Qed.

Lemma nth_upd_eq i : forall (a : list V) v, i < length a -> nth i (upd a i v) d = v.
Proof. induction i as [|i IH]; intros [|x r] v H; simpl in *; try lia; auto. apply IH; lia. Qed.

Variable all : list (list V).          (* the finite state space: full assignments *)
Variable pi : list V -> Qc.            (* (unnormalised) joint weights *)
Hypothesis all_nodup : NoDup all.

Definition invariant (P : list V -> list V -> Qc) : Prop :=
  forall a', In a' all -> push all pi P a' = pi a'.

(* ---- composing invariant kernels ---- *)
Lemma push_inv_ext mu P : (forall a, In a all -> mu a = pi a) -> invariant P ->
  forall a', In a' all -> push all mu P a' = pi a'.
Proof.
  intros Hmu HP a' Ha'. rewrite <- (HP a' Ha'). unfold push. apply qcsum_ext. intros a Ha. now rewrite Hmu.
Qed.

Lemma push_n_inv P n : invariant P -> forall a', In a' all -> push_n all pi P n a' = pi a'.
Proof.
  intros HP. induction n as [|n IH]; intros a' Ha'; [reflexivity|].
  cbn [push_n]. apply push_inv_ext; auto.
Qed.

Lemma push_sweep_inv Pns : Forall (fun Pn => invariant (fst Pn)) Pns ->
  forall mu, (forall a, In a all -> mu a = pi a) ->
  forall a', In a' all -> push_sweep all mu Pns a' = pi a'.
Proof.
  induction 1 as [|[P n] r HP Hr IH]; intros mu Hmu a' Ha'; cbn [push_sweep]; [auto|].
  apply IH; auto. clear a' Ha'. induction n as [|n IHn]; intros a Ha; cbn [push_n]; [auto|].
  apply push_inv_ext; auto.
Qed.

(* ---- from "leaves every conditional invariant" to "leaves the joint invariant" ---- *)
Section Block.
Variable i : nat.
Variable vals : list V.                (* the values block i can take *)
Variable K : list V -> V -> Qc.        (* K a v' = probability that block i moves to v' from the full state a *)
Hypothesis vals_nodup : NoDup vals.
Hypothesis all_len : forall a, In a all -> i < length a.
Hypothesis all_closed : forall a v, In a all -> In v vals -> In (upd a i v) all.
Hypothesis all_vals : forall a, In a all -> In (nth i a d) vals.

(* the kernel leaves the conditional of block i invariant, whatever the other blocks are:
   sum_v pi(others, v) K((others, v), v') = pi(others, v') *)
Definition cond_invariant : Prop :=
  forall a', In a' all -> qcsum (fun v => pi (upd a' i v) * K (upd a' i v) (nth i a' d))%Qc vals = pi a'.

Lemma fibre_perm a' : In a' all ->
  Permutation (filter (fun a => same_others i a a') all) (map (upd a' i) vals).
Proof.
  intros Ha'. pose proof (all_len a' Ha') as Hl. apply NoDup_Permutation.
  - now apply NoDup_filter.
  - apply FinFun.Injective_map_NoDup; auto. intros v w E. eapply upd_inj; eauto.
  - intros a. rewrite filter_In, in_map_iff. split.
    + intros [Ha Hs]. destruct (same_others_eq i a a' Hs Hl) as [E _].
      exists (nth i a d). split; [symmetry; exact E | now apply all_vals].
    + intros (v & <- & Hv). split; [now apply all_closed | now apply same_others_upd].
Qed.

Theorem lift_invariant : cond_invariant -> invariant (lift i K d).
Proof.
  intros HK a' Ha'. unfold push, C09_Gibbs.lift.
  rewrite (qcsum_ext _ (fun a => if same_others i a a' then (pi a * K a (nth i a' d))%Qc else 0%Qc)).
  2:{ intros a _. destruct (same_others i a a'); ring. }
  rewrite qcsum_filter, (qcsum_perm _ _ _ (fibre_perm a' Ha')), qcsum_map. apply HK; auto.
Qed.
End Block.

(* a block of the sweep: index, value set, kernel, number of transitions *)
Record fblock := mkFB { fb_i : nat; fb_vals : list V; fb_K : list V -> V -> Qc; fb_n : nat }.

Definition fblock_ok (b : fblock) : Prop :=
  NoDup (fb_vals b) /\
  (forall a, In a all -> fb_i b < length a) /\
  (forall a v, In a all -> In v (fb_vals b) -> In (upd a (fb_i b) v) all) /\
  (forall a, In a all -> In (nth (fb_i b) a d) (fb_vals b)) /\
  cond_invariant (fb_i b) (fb_vals b) (fb_K b).

Theorem sweep_invariant_finite (blocks : list fblock) :
  Forall fblock_ok blocks ->
  forall a', In a' all ->
    push_sweep all pi (map (fun b => (lift (fb_i b) (fb_K b) d, fb_n b)) blocks) a' = pi a'.
Proof.
  intros H. apply push_sweep_inv; auto.
  induction H as [|b r (H1 & H2 & H3 & H4 & H5) Hr IH]; constructor; auto.
  cbn [fst]. eapply lift_invariant; eauto.
Qed.
End Finite.
