(* C16 -- packaging of the conjugacy / finite-termination theorems (Proofs/C16_Conj.v) for Props/C16.v *)
From CV Require Import Base.Tac Base.LinAlg Base.QcLin Model.C16_Solve Proofs.C16_CG Proofs.C16_Prox Proofs.C16_Spec Proofs.C16_Mono
     Proofs.C16_Grad Proofs.C16_Dim Proofs.C16_Conj Proofs.C16_LMfull.
From Coq Require Import Reals Lra Ring QArith Qcanon.
From CV Require Import Base.Cmp Proofs.C16_Wrap.
Local Open Scope R_scope.

Section Pkg.
Variable T : Type.
Variables (t0 t1 : T) (tadd tmul tsub : T -> T -> T) (topp : T -> T).
Hypothesis Tth : ring_theory t0 t1 tadd tmul tsub topp (@eq T).
Variable tdiv : T -> T -> T.
Variable tleb : T -> T -> bool.
Variable teps : T.
Variable phi : T -> R.
Hypothesis E : embedding T t0 t1 tadd tmul tsub topp tleb phi.
Hypothesis phi_div : forall a b, phi b <> 0 -> phi (tdiv a b) = phi a / phi b.
Variables (n m : nat) (fwd adj : list T -> list T).
Hypothesis OP : adjoint_pair T t0 tadd tmul tsub n m fwd adj.
Variables (b : list T) (shift : T).
Hypothesis Hb : length b = m.

Local Notation Nsq := (normsq t0 tadd tmul).
Local Notation Dot := (dot t0 tadd tmul).
Definition curvature (p : list T) : T := tadd (Nsq (fwd p)) (tmul shift (Nsq p)).
(* A^T A + shift I positive definite *)
Definition pos_def : Prop := forall p, length p = n -> 0 < phi (Nsq p) -> 0 < phi (curvature p).

Lemma nsq_nonneg_pkg (p : list T) : 0 <= phi (Nsq p).
Proof.
  destruct E as (E0 & E1 & Ea & Em & Es & Eo & El).
  unfold normsq. induction p as [|c p IHp]; cbn; [rewrite E0; lra|]. rewrite Ea, Em. nra.
Qed.

(* shift > 0 is enough (any A); so is shift >= 0 with A injective, not needed here *)
Lemma pos_def_of_positive_shift : 0 < phi shift -> pos_def.
Proof.
  destruct E as (E0 & E1 & Ea & Em & Es & Eo & El).
  intros Hs p Hp Hpos. unfold curvature. rewrite Ea, Em. pose proof (nsq_nonneg_pkg (fwd p)). nra.
Qed.

Variable x0 : list T.
Hypothesis Hx0 : length x0 = n.
Let it := fun j => cgls_iter T t0 tadd tmul tsub tdiv tleb teps fwd adj shift j (cgls_init T t0 tadd tmul tsub fwd adj b shift x0).
Let Hmul := fun p => vadd tadd (adj (fwd p)) (vscale tmul shift p).

Lemma cgls_conjugacy_pkg (K : nat) : pos_def ->
  (forall k, (k < K)%nat -> phi (Nsq (cg_s T (it k))) <> 0) ->
  forall i j, (i < j)%nat -> (j <= K)%nat ->
    phi (Dot (cg_s T (it i)) (cg_s T (it j))) = 0 /\ phi (Dot (cg_p T (it i)) (Hmul (cg_p T (it j)))) = 0.
Proof.
  destruct E as (E0 & E1 & Ea & Em & Es & Eo & El). destruct OP as (O1 & O2 & O3 & O4 & O5 & O6 & O7).
  intros PD Hnz i j Hij Hj.
  exact (cgls_conjugacy T t0 t1 tadd tmul tsub topp Tth tdiv tleb teps phi E0 Ea Em Es El phi_div n m fwd adj
           O1 O2 O3 O4 O5 O6 O7 b shift Hb PD x0 Hx0 K Hnz i j Hij Hj).
Qed.

Lemma cgls_finite_termination_pkg : pos_def -> exists k, (k <= n)%nat /\ phi (Nsq (cg_s T (it k))) = 0.
Proof.
  destruct E as (E0 & E1 & Ea & Em & Es & Eo & El). destruct OP as (O1 & O2 & O3 & O4 & O5 & O6 & O7).
  intros PD.
  exact (cgls_finite_termination T t0 t1 tadd tmul tsub topp Tth tdiv tleb teps phi E0 Ea Em Es El phi_div n m fwd adj
           O1 O2 O3 O4 O5 O6 O7 b shift Hb PD x0 Hx0).
Qed.

Lemma cgls_exact_convergence_pkg maxit x k : pos_def -> (Nat.max n 1 <= maxit)%nat ->
  cgls_solve T t0 t1 tadd tmul tsub tdiv tleb teps fwd adj b shift x0 maxit t0 = (x, k) ->
  (1 <= k <= Nat.max n 1)%nat /\ x = cg_x T (it k) /\
  phi (Nsq (vsub tsub (adj (vsub tsub b (fwd x))) (vscale tmul shift x))) = 0.
Proof.
  destruct E as (E0 & E1 & Ea & Em & Es & Eo & El). destruct OP as (O1 & O2 & O3 & O4 & O5 & O6 & O7).
  intros PD Hmax H.
  exact (cgls_exact_convergence T t0 t1 tadd tmul tsub topp Tth tdiv tleb teps phi E0 E1 Ea Em Es El phi_div n m fwd adj
           O1 O2 O3 O4 O5 O6 O7 b shift Hb PD x0 Hx0 maxit x k Hmax H).
Qed.
End Pkg.

(* ---------- the non-vacuity examples of Props/C16.v (computations live here, behind Qed) ---------- *)
Local Close Scope R_scope.
Lemma nonvacuous_ex :
  let A := qmat [[1; 0]; [0; 2]; [1; 1]]%Q in
  let b := qvec [1; 2; 3]%Q in
  let shift := qc (1 # 2) in
  let x0 := qvec [1; -1]%Q in
  linear_op Qc Qcplus Qcmult 2 3 (qmatvec A) (qmattvec 2 A) /\
  (exists x, q_cgls_solve (qmatvec A) (qmattvec 2 A) b shift x0 10 (qc (1 # 1000000)) = (x, 2%nat) /\
             qnormsq (ne_residual 2 A b shift x) = 0%Qc /\ x <> x0) /\
  q_pg_map (qmatvec (qmat ((1%Q :: nil) :: nil))) (qmattvec 1 (qmat ((1%Q :: nil) :: nil))) (qvec (2%Q :: nil)) (q_prox (PxL1 1)) 1%Qc (qvec (1%Q :: nil)) = qvec (1%Q :: nil).
Proof.
  cbn zeta. split; [ | split].
  - apply (matrix_linear_op Qc 0%Qc 1%Qc Qcplus Qcmult Qcminus Qcopp Qcrt 2 (qmat [[1; 0]; [0; 2]; [1; 1]]%Q)).
    repeat constructor.
  - eexists. split; [vm_compute; reflexivity|]. split; [vm_compute; reflexivity | vm_compute; discriminate].
  - vm_compute. reflexivity.
Qed.

Lemma monotone_nonvacuous_ex :
  let A := qmat [[1; 0]; [0; 2]; [1; 1]]%Q in
  let b := qvec [1; 2; 3]%Q in
  let x0 := qvec [1; -1]%Q in
  adjoint_pair Qc 0%Qc Qcplus Qcmult Qcminus 2 3 (qmatvec A) (qmattvec 2 A) /\
  (forall a c, phiQ c <> 0%R -> phiQ (a / c)%Qc = (phiQ a / phiQ c)%R) /\
  forall j, (j < 2)%nat ->
    (0 < phiQ (delta_of Qc 0%Qc Qcplus Qcmult (qmatvec A) (qc (1 # 2))
                 (cg_p Qc (cgls_iter Qc 0%Qc Qcplus Qcmult Qcminus Qcdiv qc_leb qc_eps (qmatvec A) (qmattvec 2 A) (qc (1 # 2)) j
                             (cgls_init Qc 0%Qc Qcplus Qcmult Qcminus (qmatvec A) (qmattvec 2 A) b (qc (1 # 2)) x0)))))%R.
Proof.
  cbn zeta. split; [ | split].
  - apply (matrix_adjoint_pair Qc 0%Qc 1%Qc Qcplus Qcmult Qcminus Qcopp Qcrt 2 (qmat [[1; 0]; [0; 2]; [1; 1]]%Q)). repeat constructor.
  - exact phiQ_div.
  - intros j Hj. apply Rnot_le_lt. intros H. rewrite <- phiQ_0 in H. apply phiQ_leb in H.
    destruct j as [|[|j]]; [vm_compute in H; discriminate | vm_compute in H; discriminate | lia].
Qed.

Lemma convergence_nonvacuous_ex :
  let A := qmat [[1; 0]; [0; 2]; [1; 1]]%Q in
  let b := qvec [1; 2; 3]%Q in
  let x0 := qvec [1; -1]%Q in
  adjoint_pair Qc 0%Qc Qcplus Qcmult Qcminus 2 3 (qmatvec A) (qmattvec 2 A) /\
  pos_def Qc 0%Qc Qcplus Qcmult phiQ 2 (qmatvec A) (qc (1 # 2)) /\
  exists x, q_cgls_solve (qmatvec A) (qmattvec 2 A) b (qc (1 # 2)) x0 7 0%Qc = (x, 2%nat) /\
            qnormsq (ne_residual 2 A b (qc (1 # 2)) x) = 0%Qc.
Proof.
  cbn zeta. split; [ | split].
  - apply (matrix_adjoint_pair Qc 0%Qc 1%Qc Qcplus Qcmult Qcminus Qcopp Qcrt 2 (qmat [[1; 0]; [0; 2]; [1; 1]]%Q)). repeat constructor.
  - apply (pos_def_of_positive_shift Qc 0%Qc 1%Qc Qcplus Qcmult Qcminus Qcopp qc_leb phiQ embedding_Qc).
    apply Rnot_le_lt. intros H. rewrite <- phiQ_0 in H. apply phiQ_leb in H. vm_compute in H. discriminate.
  - eexists. split; [vm_compute; reflexivity|]. vm_compute. reflexivity.
Qed.
