(* C04 -- proofs, part 11: THE GAUSSIAN INTEGRAL, from Coquelicot's parametric integrals (no Gaussian integral / erf in the installed
   libraries).  With I(x) = int_0^x exp(-t^2) dt and H(x) = int_0^1 exp(-x^2 (1+t^2)) / (1+t^2) dt one has (I^2 + H)' = 0 (differentiation
   under the integral sign + the substitution s = x t), I(0)^2 + H(0) = atan 1 = pi/4 and 0 <= H(x) <= exp(-x^2), hence I(x) -> sqrt(pi)/2.
   Consequences: the standard Normal cdf of the model tends to 1 at +infinity and to 0 at -infinity, i.e. the Normal density
   integrates to one. *)
From CV Require Import Base.Tac Model.C04_Dens Model.C04_Cdf Proofs.C04_Dens Proofs.C04_Cdf Proofs.C04_Cdf2 Proofs.C04_Norm.
From Coq Require Import Reals Lra.
From Coquelicot Require Import Coquelicot.
Local Open Scope R_scope.

Definition gker (t : R) : R := exp (- (t * t)).
Definition gI (x : R) : R := RInt gker 0 x.
Definition hker (x t : R) : R := exp (- (x * x) * (1 + t * t)) / (1 + t * t).
Definition gH (x : R) : R := RInt (hker x) 0 1.

Lemma gker_cont t : continuous gker t.
Proof. apply (ex_derive_continuous gker). unfold gker. auto_derive. exact I. Qed.

Lemma gker_ex_RInt a b : ex_RInt gker a b.
Proof. apply (@ex_RInt_continuous R_CompleteNormedModule). intros t _. apply gker_cont. Qed.

Lemma gI_derive (x : R) : is_derive gI x (gker x).
Proof.
  apply (is_derive_RInt gker (fun z => RInt gker 0 z) 0 x).
  - apply filter_forall. intros y. apply (@RInt_correct R_CompleteNormedModule gker 0 y). apply gker_ex_RInt.
  - apply gker_cont.
Qed.

Lemma one_plus_sq_pos t : 0 < 1 + t * t.
Proof. pose proof (Rle_0_sqr t) as H. unfold Rsqr in H. lra. Qed.

Lemma hker_derive x t : is_derive (fun u => hker u t) x (- 2 * x * exp (- (x * x) * (1 + t * t))).
Proof.
  unfold hker. pose proof (one_plus_sq_pos t). auto_derive; [lra|]. field. lra.
Qed.

Lemma hker_cont x t : continuous (hker x) t.
Proof. apply (ex_derive_continuous (hker x)). unfold hker. pose proof (one_plus_sq_pos t). auto_derive. lra. Qed.

Lemma dker_cont2 x t : continuity_2d_pt (fun u v => - 2 * u * exp (- (u * u) * (1 + v * v))) x t.
Proof.
  apply continuity_2d_pt_mult.
  - apply continuity_2d_pt_mult; [apply continuity_2d_pt_const | apply continuity_2d_pt_id1].
  - apply (continuity_1d_2d_pt_comp exp (fun u v => - (u * u) * (1 + v * v))).
    + apply derivable_continuous_pt. apply derivable_pt_exp.
    + apply continuity_2d_pt_mult.
      * apply continuity_2d_pt_opp. apply continuity_2d_pt_mult; apply continuity_2d_pt_id1.
      * apply continuity_2d_pt_plus; [apply continuity_2d_pt_const|]. apply continuity_2d_pt_mult; apply continuity_2d_pt_id2.
Qed.

Lemma gH_derive_raw (x : R) : is_derive gH x (RInt (fun t => - 2 * x * exp (- (x * x) * (1 + t * t))) 0 1).
Proof.
  unfold gH.
  replace (RInt (fun t => - 2 * x * exp (- (x * x) * (1 + t * t))) 0 1)
    with (RInt (fun t => Derive (fun u => hker u t) x) 0 1).
  2:{ apply RInt_ext. intros t _. apply is_derive_unique. apply hker_derive. }
  apply (is_derive_RInt_param hker 0 1 x).
  - apply filter_forall. intros y t _. exists (- 2 * y * exp (- (y * y) * (1 + t * t))). apply hker_derive.
  - intros t _. apply (continuity_2d_pt_ext (fun u v => - 2 * u * exp (- (u * u) * (1 + v * v)))).
    + intros u v. symmetry. apply is_derive_unique. apply hker_derive.
    + apply dker_cont2.
  - apply filter_forall. intros y. apply (@ex_RInt_continuous R_CompleteNormedModule). intros t _. apply hker_cont.
Qed.

Lemma gH_derive (x : R) : is_derive gH x (- 2 * gker x * gI x).
Proof.
  evar_last; [apply gH_derive_raw|].
  transitivity (RInt (fun t => scal (- 2 * gker x) (scal x (gker (x * t + 0)))) 0 1).
  - apply RInt_ext. intros t _. unfold scal; cbn; unfold mult; cbn. unfold gker.
    replace (- (x * x) * (1 + t * t)) with (- (x * x) + - ((x * t + 0) * (x * t + 0))) by ring. rewrite exp_plus. ring.
  - rewrite (RInt_scal (V := R_CompleteNormedModule)).
    2:{ apply (@ex_RInt_continuous R_CompleteNormedModule). intros t _.
        apply (ex_derive_continuous (fun t => scal x (gker (x * t + 0)))). unfold scal, gker; cbn; unfold mult; cbn. auto_derive. exact I. }
    replace (RInt (fun t => scal x (gker (x * t + 0))) 0 1) with (RInt gker (x * 0 + 0) (x * 1 + 0))
      by (symmetry; apply (RInt_comp_lin (V := R_CompleteNormedModule) gker x 0 0 1); apply gker_ex_RInt).
    unfold gI. rewrite Rmult_0_r, Rmult_1_r, !Rplus_0_r. reflexivity.
Qed.

Definition gF (x : R) : R := gI x * gI x + gH x.

Lemma gF_derive (x : R) : is_derive gF x 0.
Proof.
  unfold gF. evar_last.
  - apply (is_derive_plus (fun x => gI x * gI x) gH x).
    + apply (is_derive_mult gI gI x); [apply gI_derive | apply gI_derive | intros a b; apply Rmult_comm].
    + apply gH_derive.
  - unfold plus, mult; cbn. ring.
Qed.

Lemma gH_0 : gH 0 = PI / 4.
Proof.
  unfold gH. apply is_RInt_unique.
  apply (is_RInt_ext (fun t => / (1 + t ^ 2))).
  { intros t _. unfold hker. replace (- (0 * 0) * (1 + t * t)) with 0 by ring. rewrite exp_0. unfold Rdiv. rewrite Rmult_1_l.
    f_equal. ring. }
  evar_last.
  - apply (is_RInt_derive atan (fun t => / (1 + t ^ 2))).
    + intros t _. rewrite <- Rsqr_pow2. apply is_derive_atan.
    + intros t _. apply (ex_derive_continuous (fun t => / (1 + t ^ 2))). pose proof (pow2_ge_0 t). auto_derive. lra.
  - rewrite atan_1, atan_0. unfold minus, plus, opp; cbn. lra.
Qed.

Lemma gF_const x : gF x = PI / 4.
Proof.
  assert (H0 : gF 0 = PI / 4).
  { unfold gF, gI. rewrite RInt_point. rewrite gH_0. unfold zero; cbn. ring. }
  destruct (MVT_gen gF 0 x (fun _ => 0)) as [c [_ Hc]].
  - intros y _. apply gF_derive.
  - intros y _. apply continuity_pt_filterlim. apply (ex_derive_continuous gF). exists 0. apply gF_derive.
  - lra.
Qed.

Lemma gker_pos t : 0 < gker t.
Proof. apply exp_pos. Qed.

Lemma gI_nonneg x : 0 <= x -> 0 <= gI x.
Proof. intros Hx. apply RInt_ge_0; [exact Hx | apply gker_ex_RInt |]. intros t _. left. apply gker_pos. Qed.

Lemma gH_bounds x : 0 <= gH x <= gker x.
Proof.
  assert (Hex : ex_RInt (hker x) 0 1) by (apply (@ex_RInt_continuous R_CompleteNormedModule); intros t _; apply hker_cont).
  split.
  - apply RInt_ge_0; [lra | exact Hex |]. intros t _. unfold hker. pose proof (one_plus_sq_pos t).
    left. apply Rdiv_lt_0_compat; [apply exp_pos | assumption].
  - replace (gker x) with (RInt (fun _ => gker x) 0 1).
    2:{ rewrite RInt_const. unfold scal; cbn; unfold mult; cbn. ring. }
    apply RInt_le; [lra | exact Hex | apply ex_RInt_const |].
    intros t _. unfold hker, gker. pose proof (one_plus_sq_pos t) as Hp.
    assert (Hle : exp (- (x * x) * (1 + t * t)) <= exp (- (x * x))).
    { destruct (Req_dec (x * x * (t * t)) 0) as [E|E].
      - right. f_equal. nra.
      - left. apply exp_increasing. pose proof (Rle_0_sqr x) as H1. pose proof (Rle_0_sqr t) as H2. unfold Rsqr in *.
        assert (0 <= x * x * (t * t)) by (apply Rmult_le_pos; assumption). nra. }
    pose proof (exp_pos (- (x * x) * (1 + t * t))) as He.
    apply Rle_trans with (exp (- (x * x) * (1 + t * t)) / 1).
    + unfold Rdiv. apply Rmult_le_compat_l; [lra|]. apply Rinv_le_contravar; [lra|]. pose proof (Rle_0_sqr t) as H2. unfold Rsqr in H2. lra.
    + unfold Rdiv. rewrite Rinv_1, Rmult_1_r. exact Hle.
Qed.

Lemma gH_lim : is_lim gH p_infty 0.
Proof.
  apply (is_lim_le_le_loc (fun _ => 0) (fun x => exp (- x / 1)) gH p_infty 0).
  - exists 1. intros x Hx. pose proof (gH_bounds x) as [H1 H2]. split; [exact H1|].
    apply Rle_trans with (gker x); [exact H2|]. unfold gker. left. apply exp_increasing. nra.
  - apply is_lim_const.
  - apply lim_exp_neg. lra.
Qed.

Lemma sqrt_PI4 : sqrt (PI / 4) = sqrt PI / 2.
Proof.
  pose proof PI_RGT_0. assert (0 < sqrt PI) by (apply sqrt_lt_R0; assumption).
  replace (PI / 4) with (Rsqr (sqrt PI / 2)); [apply sqrt_Rsqr; lra|].
  unfold Rsqr. replace (sqrt PI / 2 * (sqrt PI / 2)) with (sqrt PI * sqrt PI / 4) by field. rewrite sqrt_sqrt by lra. reflexivity.
Qed.

(* THE GAUSSIAN INTEGRAL:  int_0^x exp(-t^2) dt  ->  sqrt(pi) / 2 *)
Theorem gI_lim : is_lim gI p_infty (sqrt PI / 2).
Proof.
  rewrite <- sqrt_PI4.
  apply is_lim_ext_loc with (f := fun x => sqrt (PI / 4 - gH x)).
  { exists 0. intros x Hx. rewrite <- (gF_const x). unfold gF.
    replace (gI x * gI x + gH x - gH x) with (Rsqr (gI x)) by (unfold Rsqr; ring). apply sqrt_Rsqr. apply gI_nonneg. lra. }
  assert (Hl : is_lim (fun x => PI / 4 - gH x) p_infty (PI / 4)).
  { evar_last; [apply is_lim_minus'; [apply is_lim_const | apply gH_lim]|]. cbn. f_equal. lra. }
  unfold is_lim in *. cbn [Rbar_locally] in *.
  apply (filterlim_comp _ _ _ (fun x => PI / 4 - gH x) sqrt (Rbar_locally' p_infty) (locally (PI / 4)) (locally (sqrt (PI / 4))) Hl).
  apply continuity_pt_filterlim. apply continuity_pt_sqrt. pose proof PI_RGT_0. lra.
Qed.

Lemma gI_odd (x : R) : gI (- x) = - gI x.
Proof.
  unfold gI.
  assert (H1 : is_RInt (fun y => opp (gker (- y))) 0 x (RInt gker (- 0) (- x))).
  { apply (is_RInt_comp_opp gker 0 x). apply (@RInt_correct R_CompleteNormedModule). apply gker_ex_RInt. }
  assert (H2 : is_RInt (fun y => opp (gker y)) 0 x (opp (RInt gker 0 x))).
  { apply (is_RInt_opp gker 0 x). apply (@RInt_correct R_CompleteNormedModule). apply gker_ex_RInt. }
  rewrite Ropp_0 in H1.
  apply (is_RInt_ext _ (fun y => opp (gker y))) in H1; [|intros t _; unfold gker; f_equal; f_equal; ring].
  transitivity (RInt (fun y => opp (gker y)) 0 x).
  - symmetry. apply is_RInt_unique. exact H1.
  - apply is_RInt_unique. exact H2.
Qed.

(* ---------- consequence: the Normal cdf of the model has the limits 1 and 0 ---------- *)
Definition erf_R (z : R) : R := 2 / sqrt PI * gI z.

Lemma normal_cdf1_erf m s x : 0 < s -> normal_cdf1 (m, s, x) = / 2 * (1 + erf_R ((x - m) / (s * sqrt 2))).
Proof.
  intros Hs. symmetry. apply (normal_cdf1_code_is_model erf_R); [|exact Hs]. intros z. reflexivity.
Qed.

Lemma erf_R_lim_p : is_lim erf_R p_infty 1.
Proof.
  unfold erf_R. evar_last; [apply (is_lim_scal_l gI (2 / sqrt PI) p_infty (sqrt PI / 2)); apply gI_lim|].
  cbn. f_equal. assert (0 < sqrt PI) by (apply sqrt_lt_R0; apply PI_RGT_0). field. lra.
Qed.

Theorem std_normal_cdf_lim_p : is_lim (fun u => normal_cdf1 (0, 1, u)) p_infty 1.
Proof.
  assert (H2 : 0 < sqrt 2) by (apply sqrt_lt_R0; lra).
  apply is_lim_ext with (f := fun u => / 2 * (1 + erf_R (u / sqrt 2))).
  { intros u. rewrite normal_cdf1_erf by lra. f_equal. f_equal. f_equal. field. lra. }
  evar_last.
  - apply (is_lim_scal_l (fun u => 1 + erf_R (u / sqrt 2)) (/ 2) p_infty (1 + 1)).
    apply (is_lim_plus' (fun _ => 1) (fun u => erf_R (u / sqrt 2)) p_infty 1 1); [apply is_lim_const|].
    apply (is_lim_comp erf_R (fun u => u / sqrt 2) p_infty 1 p_infty); [apply erf_R_lim_p | apply lim_div_p; exact H2 |].
    exists 0. intros y _. discriminate.
  - cbn. f_equal. lra.
Qed.

Lemma std_normal_cdf_sym u : normal_cdf1 (0, 1, - u) = 1 - normal_cdf1 (0, 1, u).
Proof.
  assert (H2 : 0 < sqrt 2) by (apply sqrt_lt_R0; lra).
  rewrite !normal_cdf1_erf by lra. unfold erf_R.
  replace ((- u - 0) / (1 * sqrt 2)) with (- ((u - 0) / (1 * sqrt 2))) by (field; lra). rewrite gI_odd. lra.
Qed.

Theorem std_normal_cdf_lim_m : is_lim (fun u => normal_cdf1 (0, 1, u)) m_infty 0.
Proof.
  apply is_lim_ext with (f := fun u => 1 - normal_cdf1 (0, 1, - u)).
  { intros u. rewrite std_normal_cdf_sym. lra. }
  evar_last.
  - apply is_lim_minus'; [apply is_lim_const|].
    apply (is_lim_comp (fun v => normal_cdf1 (0, 1, v)) (fun u => - u) m_infty 1 p_infty); [apply std_normal_cdf_lim_p | |].
    + evar_last; [apply is_lim_opp; apply is_lim_id | reflexivity].
    + exists 0. intros y _. discriminate.
  - cbn. f_equal. lra.
Qed.

(* the Normal density integrates to one, per coordinate: cdf(m + T) - cdf(m - T) -> 1 and the cdf itself has limits 1 / 0 *)
Theorem normal_cdf1_limits m s : 0 < s ->
  is_lim (fun u => normal_cdf1 (m, s, u)) p_infty 1 /\ is_lim (fun u => normal_cdf1 (m, s, u)) m_infty 0.
Proof.
  intros Hs. split.
  - apply is_lim_ext with (f := fun u => normal_cdf1 (0, 1, (u - m) / s)).
    { intros u. unfold normal_cdf1. f_equal. f_equal. unfold Rdiv. rewrite Rinv_1. ring. }
    apply (is_lim_comp (fun v => normal_cdf1 (0, 1, v)) (fun u => (u - m) / s) p_infty 1 p_infty); [apply std_normal_cdf_lim_p | |].
    + apply is_lim_ext with (f := fun v => v / s + (- m / s)); [intros v; field; lra|].
      apply (is_lim_plus (fun v => v / s) (fun _ => - m / s) p_infty p_infty (- m / s) p_infty); [apply lim_div_p; exact Hs | apply is_lim_const |].
      unfold is_Rbar_plus; cbn. reflexivity.
    + exists 0. intros y _. discriminate.
  - apply is_lim_ext with (f := fun u => normal_cdf1 (0, 1, (u - m) / s)).
    { intros u. unfold normal_cdf1. f_equal. f_equal. unfold Rdiv. rewrite Rinv_1. ring. }
    apply (is_lim_comp (fun v => normal_cdf1 (0, 1, v)) (fun u => (u - m) / s) m_infty 0 m_infty); [apply std_normal_cdf_lim_m | |].
    + apply is_lim_ext with (f := fun v => / s * v + (- m / s)); [intros v; field; lra|].
      apply (is_lim_plus (fun v => / s * v) (fun _ => - m / s) m_infty m_infty (- m / s) m_infty); [| apply is_lim_const |].
      * evar_last; [apply (is_lim_scal_l (fun v => v) (/ s) m_infty m_infty); apply is_lim_id|].
        assert (Hi : 0 < / s) by (apply Rinv_0_lt_compat; exact Hs).
        unfold Rbar_mult; cbn. destruct (Rle_dec 0 (/ s)) as [H|H]; [|exfalso; lra].
        destruct (Rle_lt_or_eq_dec 0 (/ s) H) as [H'|H']; [reflexivity | exfalso; lra].
      * unfold is_Rbar_plus; cbn. reflexivity.
    + exists 0. intros y _. discriminate.
Qed.
