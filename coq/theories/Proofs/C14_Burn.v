(* C14 -- the stateful interface: removing the warm-up afterwards with Samples.burnthin(Nb) leaves exactly the states
   recorded by the sampling call. *)
From CV Require Import Base.Tac Base.Cmp Model.C14_Chain Model.C14_Burn Proofs.C14_Chain.

Lemma stride_aux_0 {A} (l : list A) : stride_aux 0 0 l = l.
Proof. induction l as [|x l IH]; [reflexivity|]. cbn. rewrite IH. reflexivity. Qed.

Lemma burnthin_1 {A} (nb : nat) (l : list A) : (nb < length l)%nat -> burnthin nb 1 l = Some (skipn nb l).
Proof.
  intros H. unfold burnthin. destruct (length l <=? nb)%nat eqn:E; [apply Nat.leb_le in E; lia|].
  cbn [Nat.eqb]. unfold thin. cbn [Nat.sub]. rewrite stride_aux_0. reflexivity.
Qed.

Section ExpBurn.
Variables Cfg St Rnd Pt Acc : Type.
Variable step : Cfg -> St -> Rnd -> St * Acc.
Variable tune : Cfg -> St -> list Acc -> nat -> nat -> St.
Variable point : St -> Pt.
Notation sampler := (@sampler St Pt Acc).
Notation sample := (sample Cfg St Rnd Pt Acc step point).
Notation warmup := (warmup Cfg St Rnd Pt Acc step tune point).
Notation states := (states Cfg St Rnd Acc step).

(* warmup(Nb) then sample(N) on a sampler with empty history, then get_samples().burnthin(Nb): exactly the N states of
   the sampling call, in order *)
Lemma exp_burnin c ti (s : sampler) (rsw rs : list Rnd) :
  smp s = [] -> rs <> [] ->
  let w := warmup c ti s rsw in
  burnthin (length rsw) 1 (smp (sample c w rs)) = Some (map point (states c (st w) rs)) /\
  length (map point (states c (st w) rs)) = length rs.
Proof.
  intros Hs Hrs w.
  destruct (sample_spec Cfg St Rnd Pt Acc step point c rs w) as (_ & H2 & _).
  destruct (grows_entries St Pt Acc s w _ (warmup_grows Cfg St Rnd Pt Acc step tune point c ti s rsw)) as (L & _).
  rewrite Hs in L. cbn [length plus] in L. split.
  - rewrite H2, burnthin_1.
    + rewrite <- L, skipn_app, skipn_all, Nat.sub_diag. reflexivity.
    + rewrite app_length, map_length, (states_length Cfg St Rnd Acc step), L. destruct rs; [congruence|cbn; lia].
  - rewrite map_length. apply (states_length Cfg St Rnd Acc step).
Qed.
End ExpBurn.
