(* C09 -- least-squares block samplers inside the Gibbs state machine: the stacked system a LinearRTO / UGLA block uses at
   every transition of every run is built from the CURRENT values of the other blocks. *)
From CV Require Import Base.Tac Base.Cmp Base.QcLin Model.C09_Rto Model.C09_Nnls Model.C09_Gibbs Model.C09_Gibbs2 Proofs.C09_Wiring Proofs.C09_Run.
From Coq Require Import QArith Qcanon.
Local Open Scope nat_scope.

(* the target object handed over by the conditioning operation of the executable instance: a least-squares block reads the
   other blocks' current values (and its own current point) off it *)
Lemma rto_trans_current tol sp jt cur i s r :
  rto_trans tol sp i (cond (jt2 jt) cur i) s r = rto_step tol sp i (upd cur i (s_pt s)) s r.
Proof. reflexivity. Qed.

Theorem ls_block_rows_current tol fresh jt specs nst rnd ops t0 (x : @run vec tgt2 sst) :
  length (g_ss (r_st x)) = length (g_cur (r_st x)) -> r_log x = [] ->
  Forall (fun e => e_blk e < length (e_cur e) /\
                   forall sp r, nth (e_blk e) specs None = Some sp ->
                     ctrans2 tol specs (e_blk e) (e_tgt e) (e_s e) r
                     = rto_step tol sp (e_blk e) (upd (e_cur e) (e_blk e) (s_pt (e_s e))) (e_s e) r)
         (r_log (run_ops (cond (jt2 jt)) s_pt (creinit2 fresh) (ctrans2 tol specs) ctune nst rnd ops t0 x)).
Proof.
  intros Hwf Hlog.
  assert (H0 : Forall (ev_conditional (cond (jt2 jt))) (r_log x)) by (rewrite Hlog; constructor).
  pose proof (run_targets (cond (jt2 jt)) s_pt (creinit2 fresh) (ctrans2 tol specs) ctune nst rnd ops t0 x Hwf H0) as HA.
  apply Forall_forall. intros e He. destruct (proj1 (Forall_forall _ _) HA e He) as (Ht & Hb).
  split; [exact Hb | ]. intros sp r Hsp. unfold ctrans2. rewrite Hsp, Ht. apply rto_trans_current.
Qed.

(* non-vacuity: rows for which the draw succeeds, with exact square-root certificates (weights 4 and 1) *)
Local Open Scope Qc_scope.
Definition ex_re : noisy :=
  [(mkLS [Q2Qc 1; Q2Qc 0] (Q2Qc 4) (Q2Qc 2) (Q2Qc 1), Q2Qc (1 # 2));
   (mkLS [Q2Qc 1; Q2Qc 1] (Q2Qc 4) (Q2Qc 2) (Q2Qc 3), Q2Qc (-1));
   (mkLS [Q2Qc 0; Q2Qc 1] (Q2Qc 1) (Q2Qc 1) (Q2Qc 0), Q2Qc 2)].
Lemma ex_re_ok :
  rows_wf 2 ex_re /\ Forall (fun p => 0 <= ls_w (fst p)) ex_re /\ Forall (fun p => ls_s (fst p) * ls_s (fst p) = ls_w (fst p)) ex_re /\
  (exists x, rto_draw 2 ex_re = Some x) /\ (exists m, rto_draw 2 (quiet ex_re) = Some m).
Proof.
  split; [repeat constructor | ].
  split; [repeat constructor; unfold Qcle; cbn; discriminate | ].
  split; [repeat constructor; apply Qc_is_canon; reflexivity | ].
  split; eexists; vm_compute; reflexivity.
Qed.
