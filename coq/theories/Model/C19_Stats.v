(* C19 -- executable model of cuqi.samples.Samples: burn-in/thinning, per-coordinate statistics,
   credible intervals, and the name -> chain dictionary handed to arviz.  No proofs here. *)
From CV Require Import Base.Tac Base.Cmp.
From Coq Require Import QArith Qabs.
From Coq Require String.
Notation string := String.string.

(* ---------------- burn-in and thinning:  samples[..., Nb::Nt] ---------------- *)
Section Chain.
Context {A : Type}.

(* p = Nt - 1 elements are skipped after each kept one; k = how many are still to skip *)
Fixpoint stride_aux (p k : nat) (l : list A) : list A :=
  match l with
  | [] => []
  | x :: r => match k with
              | O => x :: stride_aux p p r
              | S k' => stride_aux p k' r
              end
  end.

Definition thin (nt : nat) (l : list A) : list A := stride_aux (nt - 1) 0 l.

(* Samples.burnthin: refused (None) when Nb >= Ns (ValueError) and when Nt = 0 (numpy refuses a
   zero slice step).  Nb, Nt are naturals: negative values are outside the documented domain. *)
Definition burnthin (nb nt : nat) (l : list A) : option (list A) :=
  if (length l <=? nb)%nat then None
  else if (nt =? 0)%nat then None
  else Some (thin nt (skipn nb l)).

(* The same call for ARBITRARY integers (outside the documented domain "Nb: number of samples to remove,
   Nt: select every Nt-th sample"; the code only validates Nb >= Ns): what `samples[..., Nb::Nt]` does.
   Nb < 0 counts from the end (keeps the last |Nb| draws, all of them if |Nb| > Ns); Nt < 0 walks
   BACKWARDS from draw Nb (from the last draw counted from the end for Nb < 0; nothing if that is before
   the first draw). *)
Definition burnthin_z (nb nt : Z) (l : list A) : option (list A) :=
  let n := Z.of_nat (length l) in
  if (n <=? nb)%Z then None
  else if (nt =? 0)%Z then None
  else if (0 <? nt)%Z then
    let start := if (0 <=? nb)%Z then nb else Z.max 0 (n + nb) in
    Some (thin (Z.to_nat nt) (skipn (Z.to_nat start) l))
  else
    let start := if (0 <=? nb)%Z then nb else (n + nb)%Z in
    if (start <? 0)%Z then Some []
    else Some (thin (Z.to_nat (- nt)) (rev (firstn (Z.to_nat start + 1) l))).

(* a sequence of burnthin calls, each applied to the result of the previous one *)
Fixpoint burnthin_seq (ops : list (nat * nat)) (l : list A) : option (list A) :=
  match ops with
  | [] => Some l
  | (b, t) :: r => match burnthin b t l with Some l' => burnthin_seq r l' | None => None end
  end.

(* JointSamples.burnthin: every member, same (Nb, Nt); refused if any member refuses *)
Fixpoint joint_burnthin (nb nt : nat) (J : list (string * list A)) : option (list (string * list A)) :=
  match J with
  | [] => Some []
  | (k, c) :: J' =>
      match burnthin nb nt c, joint_burnthin nb nt J' with
      | Some c', Some R => Some ((k, c') :: R)
      | _, _ => None
      end
  end.
End Chain.

(* A Samples object: the chain plus what must be carried along unchanged *)
Record samples_obj (A : Type) := mkS { s_chain : list A; s_is_par : bool; s_is_vec : bool; s_geom : nat }.
Arguments mkS {A}. Arguments s_chain {A}. Arguments s_is_par {A}. Arguments s_is_vec {A}. Arguments s_geom {A}.

Definition obj_burnthin {A} nb nt (s : samples_obj A) : option (samples_obj A) :=
  match burnthin nb nt (s_chain s) with
  | Some c => Some (mkS c (s_is_par s) (s_is_vec s) (s_geom s))
  | None => None
  end.

(* ---------------- statistics over the sample axis ---------------- *)
Definition zsum (l : list Z) : Z := fold_right Z.add 0%Z l.
Definition zlen (l : list Z) : Z := Z.of_nat (length l).

Definition mean (l : list Z) : Q := inject_Z (zsum l) / inject_Z (zlen l).

(* np.var, ddof = 0: mean of squared deviations from the mean *)
Definition qsum (l : list Q) : Q := fold_right Qplus 0 l.
Definition variance (l : list Z) : Q :=
  qsum (map (fun x => (inject_Z x - mean l) * (inject_Z x - mean l)) l) / inject_Z (zlen l).

(* insertion isort *)
Fixpoint insert (x : Z) (l : list Z) : list Z :=
  match l with
  | [] => [x]
  | y :: r => if (x <=? y)%Z then x :: l else y :: insert x r
  end.
Definition isort (l : list Z) : list Z := fold_right insert [] l.

Definition znth (s : list Z) (k : Z) : Z := nth (Z.to_nat k) s 0%Z.

(* piecewise-linear interpolation of the sorted list at the virtual index a / B, scaled by B:
   B * ( s[k] + (a/B - k) (s[k+1] - s[k]) ),  k = floor (a / B) *)
Definition interpZ (s : list Z) (B a : Z) : Z :=
  let k := (a / B)%Z in
  let r := (a mod B)%Z in
  (znth s k * B + r * (znth s (k + 1) - znth s k))%Z.

(* numpy's default ("linear") percentile; the percentage is the rational pn / pd, 0 <= pn/pd <= 100;
   virtual index = (pn/pd)/100 * (n-1) *)
Definition percentile (l : list Z) (pn : Z) (pd : positive) : Q :=
  let B := (100 * Z.pos pd)%Z in
  let a := (pn * (zlen l - 1))%Z in
  inject_Z (interpZ (isort l) B a) / inject_Z B.

Definition median (l : list Z) : Q := percentile l 50 1.

(* compute_ci(percent = cn/cd): lb = (100 - percent)/2, ub = 100 - lb, both over 2*cd *)
Definition ci_lo (l : list Z) (cn : Z) (cd : positive) : Q := percentile l (100 * Z.pos cd - cn) (2 * cd).
Definition ci_hi (l : list Z) (cn : Z) (cd : positive) : Q := percentile l (100 * Z.pos cd + cn) (2 * cd).
Definition ci_width (l : list Z) (cn : Z) (cd : positive) : Q := ci_hi l cn cd - ci_lo l cn cd.

(* per-coordinate application: `samples` is the list of samples (sample axis = list position),
   each sample a flat vector of length dim *)
Definition coordchain (k : nat) (samples : list (list Z)) : list Z := map (fun s => nth k s 0%Z) samples.
Definition per_coord {B} (f : list Z -> B) (dim : nat) (samples : list (list Z)) : list B :=
  map (fun k => f (coordchain k samples)) (seq 0 dim).

(* statistics of function-value samples = statistics of the converted samples *)
Definition funvals_stat {B} (f : list Z -> B) (par2fun : list Z -> list Z) (fdim : nat) (samples : list (list Z)) :=
  per_coord f fdim (map par2fun samples).

(* ---------------- the dictionary handed to arviz ---------------- *)
Fixpoint zip {A B} (x : list A) (y : list B) : list (A * B) :=
  match x, y with a :: x', b :: y' => (a, b) :: zip x' y' | _, _ => [] end.

(* Python dict(zip(names, rows)): later duplicates overwrite earlier ones but keep the first position *)
Fixpoint dict_set {B} (k : string) (v : B) (d : list (string * B)) : list (string * B) :=
  match d with
  | [] => [(k, v)]
  | (k', v') :: r => if String.eqb k k' then (k', v) :: r else (k', v') :: dict_set k v r
  end.
Definition dict_of {B} (kv : list (string * B)) : list (string * B) :=
  fold_left (fun d p => dict_set (fst p) (snd p) d) kv [].
Fixpoint dict_get {B} (k : string) (d : list (string * B)) : option B :=
  match d with [] => None | (k', v) :: r => if String.eqb k k' then Some v else dict_get k r end.

Definition arviz_dict (names : list string) (rows : list (list Z)) : list (string * list Z) :=
  dict_of (zip names rows).

(* ---------------- boolean checkers used by the generated case files ---------------- *)
Definition check_burnthin (nb nt : nat) (chain : list (list Z)) (observed : option (list (list Z)))
           (flags_kept src_unchanged : bool) : bool :=
  opt_eqb zll_eqb (burnthin nb nt chain) observed && flags_kept && src_unchanged.

Definition check_burnthin_z (nb nt : Z) (chain : list (list Z)) (observed : option (list (list Z)))
           (flags_kept src_unchanged : bool) : bool :=
  opt_eqb zll_eqb (burnthin_z nb nt chain) observed && flags_kept && src_unchanged.

Definition check_burnthin_seq (ops : list (nat * nat)) (chain : list (list Z)) (observed : option (list (list Z))) : bool :=
  opt_eqb zll_eqb (burnthin_seq ops chain) observed.

Definition check_joint_burnthin (nb nt : nat) (J : list (string * list (list Z)))
           (observed : option (list (string * list (list Z)))) : bool :=
  opt_eqb (list_eqb (fun a b => String.eqb (fst a) (fst b) && zll_eqb (snd a) (snd b)))
          (joint_burnthin nb nt J) observed.

Definition check_stats (dim : nat) (samples : list (list Z)) (o_mean o_var o_median o_stdsq : list Q) : bool :=
  ql_close tol9 o_mean (per_coord mean dim samples) &&
  ql_close tol9 o_var (per_coord variance dim samples) &&
  ql_close tol9 o_median (per_coord median dim samples) &&
  ql_close tol9 o_stdsq (per_coord variance dim samples).

Definition check_ci (dim : nat) (samples : list (list Z)) (cn : Z) (cd : positive) (o_lo o_hi o_width : list Q) : bool :=
  ql_close tol9 o_lo (per_coord (fun l => ci_lo l cn cd) dim samples) &&
  ql_close tol9 o_hi (per_coord (fun l => ci_hi l cn cd) dim samples) &&
  ql_close tol9 o_width (per_coord (fun l => ci_width l cn cd) dim samples).

(* compute_ci(percent = cn/cd) for an ARBITRARY rational level.  The code computes lb = (100 - percent)/2, up = 100 - lb
   and hands [lb, up] to numpy.percentile, which refuses percentages outside [0, 100]: exactly |percent| > 100.
   Documented range: 0 <= percent <= 100 (percent = 0: both bounds are the median; percent = 100: min and max).  A negative
   level in [-100, 0) is outside the documented range and not refused: lb > 50 > up, the "interval" is reversed. *)
Definition ci_opt (l : list Z) (cn : Z) (cd : positive) : option (Q * Q) :=
  if (Z.abs cn <=? 100 * Z.pos cd)%Z then Some (ci_lo l cn cd, ci_hi l cn cd) else None.

Definition check_ci_level (tol : Q) (dim : nat) (samples : list (list Z)) (cn : Z) (cd : positive)
           (obs : option (list Q * list Q * list Q)) (dtype_floating : bool) : bool :=
  match obs with
  | None => negb (Z.abs cn <=? 100 * Z.pos cd)%Z
  | Some (o_lo, o_hi, o_w) =>
      (Z.abs cn <=? 100 * Z.pos cd)%Z && dtype_floating &&
      ql_close tol o_lo (per_coord (fun l => ci_lo l cn cd) dim samples) &&
      ql_close tol o_hi (per_coord (fun l => ci_hi l cn cd) dim samples) &&
      ql_close tol o_w (per_coord (fun l => ci_width l cn cd) dim samples)
  end.

(* statistics with a tolerance chosen by the dtype of the stored chain (numpy computes mean/var/median/std of a
   float32 chain in float32) and the DECISION that every result is of a floating dtype *)
Definition check_stats_tol (tol : Q) (dim : nat) (samples : list (list Z)) (o_mean o_var o_median o_stdsq : list Q)
           (dtype_floating : bool) : bool :=
  ql_close tol o_mean (per_coord mean dim samples) &&
  ql_close tol o_var (per_coord variance dim samples) &&
  ql_close tol o_median (per_coord median dim samples) &&
  ql_close tol o_stdsq (per_coord variance dim samples) && dtype_floating.

(* funvals through a map p |-> (an p + bn) / 2^k applied elementwise (dyadic, so every function value is an exact
   binary64 number): S = 2^k * funvals is an integer chain; the observed converted samples must equal S / 2^k EXACTLY
   and be stored in a floating dtype whatever the dtype of the parameter chain; their statistics are those of S,
   rescaled (2^k > 0 keeps the order statistics in place); `parameters` of the function values gives the chain back *)
Definition qll_eqb (x y : list (list Q)) : bool := list_eqb (list_eqb Qeq_bool) x y.
Definition check_conv (an bn : Z) (k : nat) (dim : nat) (chain : list (list Z)) (obs_fun : list (list Q))
           (dtype_floating : bool) (o_mean o_var o_median : list Q) (obs_back : list (list Q)) : bool :=
  let sc := inject_Z (2 ^ Z.of_nat k) in
  let S := map (map (fun p => an * p + bn)%Z) chain in
  qll_eqb obs_fun (map (map (fun v => inject_Z v / sc)) S) && dtype_floating &&
  ql_close tol9 (map (Qmult sc) o_mean) (per_coord mean dim S) &&
  ql_close tol9 (map (Qmult (sc * sc)) o_var) (per_coord variance dim S) &&
  ql_close tol9 (map (Qmult sc) o_median) (per_coord median dim S) &&
  qll_eqb obs_back (map (map inject_Z) chain).

(* funvals through sqrt on a non-negative chain: observed values are >= 0, their squares are the parameters *)
Fixpoint all2 {A B} (f : A -> B -> bool) (x : list A) (y : list B) : bool :=
  match x, y with [], [] => true | a :: x', b :: y' => f a b && all2 f x' y' | _, _ => false end.
Definition check_conv_sqrt (chain : list (list Z)) (obs_fun : list (list Q)) (dtype_floating : bool) : bool :=
  all2 (all2 (fun o p => Qle_bool 0 o && q_close tol9 (o * o) (inject_Z p))) obs_fun chain && dtype_floating.

Definition check_arviz (names : list string) (rows : list (list Z)) (observed : list (string * list Z)) : bool :=
  list_eqb (fun a b => String.eqb (fst a) (fst b) && zl_eqb (snd a) (snd b)) (arviz_dict names rows) observed.

(* ---------------- chains with thousands of draws ----------------
   The chain is not written into the case file: it is the sequence x_0 = seed mod M, x_{i+1} = (A x_i + C) mod M,
   draw_i = x_i - M/2 (the harness builds the array from the same formula); the burn-thinned chain is compared
   through its length and an order-sensitive polynomial hash, the statistics as usual. *)
Definition big_M : Z := 1000003. Definition big_A : Z := 48271. Definition big_C : Z := 12345.
Fixpoint big_chain_from (x : Z) (n : nat) : list Z :=
  match n with O => [] | S n' => (x - big_M / 2)%Z :: big_chain_from ((big_A * x + big_C) mod big_M)%Z n' end.
Definition big_chain (seed : Z) (n : nat) : list Z := big_chain_from (seed mod big_M)%Z n.
Definition zhash (l : list Z) : Z := fold_left (fun h v => ((h * 1000003 + v) mod (2 ^ 61 - 1))%Z) l 0%Z.

(* percentile on an already sorted chain: percentile l pn pd = percentile_on (isort l) (zlen l) pn pd by
   unfolding; lets check_big sort each long chain once *)
Definition percentile_on (s : list Z) (n : Z) (pn : Z) (pd : positive) : Q :=
  let B := (100 * Z.pos pd)%Z in inject_Z (interpZ s B (pn * (n - 1))) / inject_Z B.

(* variance through integer sums (equal to `variance`: Proofs/C19_Percentile.v, variance_fast_eq); the Q-sum of
   squared deviations has unreduced denominators growing with the chain and is unusable for thousands of draws *)
Definition variance_fast (l : list Z) : Q :=
  inject_Z (zlen l * zsum (map (fun x => x * x)%Z l) - zsum l * zsum l) / inject_Z (zlen l * zlen l).

Definition check_big (seeds : list Z) (ns nb nt : nat) (o_len : nat) (o_hash : list Z)
           (o_mean o_var o_median o_stdsq : list Q) (cn : Z) (cd : positive) (o_lo o_hi : list Q) (intact : bool) : bool :=
  let rows := map (fun sd => big_chain sd ns) seeds in
  let sorted := map isort rows in
  let n := Z.of_nat ns in
  list_eqb (opt_eqb (fun a b => Nat.eqb (fst a) (fst b) && Z.eqb (snd a) (snd b)))
           (map (fun r => match burnthin nb nt r with Some c => Some (length c, zhash c) | None => None end) rows)
           (map (fun h => Some (o_len, h)) o_hash) &&
  ql_close tol9 o_mean (map mean rows) &&
  ql_close tol9 o_var (map variance_fast rows) &&
  ql_close tol9 o_stdsq (map variance_fast rows) &&
  ql_close tol9 o_median (map (fun s => percentile_on s n 50 1) sorted) &&
  ql_close tol9 o_lo (map (fun s => percentile_on s n (100 * Z.pos cd - cn) (2 * cd)) sorted) &&
  ql_close tol9 o_hi (map (fun s => percentile_on s n (100 * Z.pos cd + cn) (2 * cd)) sorted) &&
  intact.
