(* C04 -- proofs, part 8: the Beta density with integer shapes integrates to one (integration by parts, induction). *)
From CV Require Import Base.Tac Model.C04_Dens Model.C04_Cdf Proofs.C04_Dens Proofs.C04_Cdf.
From Coq Require Import Reals Lra.
From Coquelicot Require Import Coquelicot.
Local Open Scope R_scope.

Definition bker (a b : nat) (t : R) : R := t ^ a * (1 - t) ^ b.

Lemma bker_cont a b t : continuous (bker a b) t.
Proof. apply (ex_derive_continuous (bker a b)). unfold bker. auto_derive. exact I. Qed.

(* int_0^1 t^a (1-t)^b dt = a! b! / (a+b+1)! *)
Lemma beta_integral : forall b a, is_RInt (bker a b) 0 1 (INR (fact a) * INR (fact b) / INR (fact (a + b + 1))).
Proof.
  induction b as [|b IH]; intros a.
  - (* int t^a = 1/(a+1) *)
    evar_last.
    + apply (is_RInt_derive (fun t => t ^ (S a) / INR (S a)) (bker a 0)).
      * intros t _. unfold bker. assert (0 < INR (S a)) by (apply lt_0_INR; lia).
        auto_derive; [exact I|]. cbn [pred pow].
        change (match a with 0%nat => 1 | S _ => INR a + 1 end) with (INR (S a)). field. lra.
      * intros t _. apply bker_cont.
    + unfold minus, plus, opp; cbn [fact].
      assert (0 < INR (S a)) by (apply lt_0_INR; lia). pose proof (INR_fact_pos a).
      replace (a + 0 + 1)%nat with (S a) by lia.
      replace (INR (fact (S a))) with (INR (S a) * INR (fact a)) by (rewrite <- mult_INR; reflexivity).
      rewrite pow1, pow_i by lia. cbn -[INR fact]. change (INR 1) with 1. field. split; lra.
  - (* by parts: F = t^(a+1) (1-t)^(b+1) / (a+1) *)
    assert (Ha : 0 < INR (S a)) by (apply lt_0_INR; lia).
    assert (HF : is_RInt (fun t => bker a (S b) t - INR (S b) / INR (S a) * bker (S a) b t) 0 1 0).
    { evar_last.
      - apply (is_RInt_derive (fun t => t ^ (S a) * (1 - t) ^ (S b) / INR (S a))
                              (fun t => bker a (S b) t - INR (S b) / INR (S a) * bker (S a) b t)).
        + intros t _. unfold bker. auto_derive; [exact I|]. cbn [pred]. rewrite <- !tech_pow_Rmult.
          change (match a with 0%nat => 1 | S _ => INR a + 1 end) with (INR (S a)).
          change (match b with 0%nat => 1 | S _ => INR b + 1 end) with (INR (S b)).
          replace (1 + - t) with (1 - t) by ring. generalize (t ^ a) ((1 - t) ^ b). intros p q. field. lra.
        + intros t _. apply (ex_derive_continuous (fun t => bker a (S b) t - INR (S b) / INR (S a) * bker (S a) b t)).
          unfold bker. auto_derive. exact I.
      - unfold minus, plus, opp; cbn. rewrite Rminus_eq_0 by reflexivity. rewrite !Rmult_0_l, !Rmult_0_r. unfold Rdiv. rewrite !Rmult_0_l. lra. }
    pose proof (is_RInt_plus _ _ _ _ _ _ HF (is_RInt_scal _ _ _ (INR (S b) / INR (S a)) _ (IH (S a)))) as HS.
    apply (is_RInt_ext _ (bker a (S b))) in HS.
    2:{ intros t _. unfold plus, scal; cbn. unfold mult; cbn. ring. }
    evar_last; [exact HS|].
    unfold plus, scal; cbn -[INR fact]. unfold mult; cbn -[INR fact].
      pose proof (INR_fact_pos a). pose proof (INR_fact_pos b). pose proof (INR_fact_pos (S a + b + 1)).
      replace (a + S b + 1)%nat with (S a + b + 1)%nat by lia.
      replace (INR (fact (S a))) with (INR (S a) * INR (fact a)) by (rewrite <- mult_INR; reflexivity).
      replace (INR (fact (S b))) with (INR (S b) * INR (fact b)) by (rewrite <- mult_INR; reflexivity).
      change (S a + b + 1)%nat with (S (a + b + 1)) in *. field. split; lra.
Qed.

(* the Beta(a+1, b+1) density integrates to one over (0,1), and its cdf reaches 1 at x = 1 *)
Definition bnorm (a b : nat) : R := INR (fact (a + b + 1)) / (INR (fact a) * INR (fact b)).

Lemma beta_int_pdf_bker a b t : scal (bnorm a b) (bker a b t) = beta_int_pdf a b t.
Proof.
  pose proof (INR_fact_pos a). pose proof (INR_fact_pos b).
  unfold bnorm, scal, beta_int_pdf, bker; cbn -[INR fact pow]. unfold mult; cbn -[INR fact pow].
  generalize (t ^ a) ((1 - t) ^ b) (INR (fact (a + b + 1))). intros p q F. field. split; lra.
Qed.

Lemma bnorm_mass a b : scal (bnorm a b) (INR (fact a) * INR (fact b) / INR (fact (a + b + 1))) = 1.
Proof.
  pose proof (INR_fact_pos a). pose proof (INR_fact_pos b). pose proof (INR_fact_pos (a + b + 1)) as HF.
  unfold bnorm, scal; cbn -[INR fact]. unfold mult; cbn -[INR fact].
  revert HF. generalize (INR (fact (a + b + 1))). intros F HF. field. repeat split; lra.
Qed.

Theorem beta_int_normalised a b : is_RInt (beta_int_pdf a b) 0 1 1.
Proof.
  pose proof (is_RInt_scal (bker a b) 0 1 (bnorm a b) _ (beta_integral b a)) as H.
  rewrite bnorm_mass in H.
  apply (is_RInt_ext (fun t => scal (bnorm a b) (bker a b t))); [|exact H].
  intros t _. apply beta_int_pdf_bker.
Qed.

Theorem beta_int_cdf_at_1 a b : beta_int_cdf1 a b 1 = 1.
Proof. unfold beta_int_cdf1. apply is_RInt_unique. apply beta_int_normalised. Qed.
