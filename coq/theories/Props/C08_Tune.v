(* C08 (continued) -- property theorems about the step-size adaptation, over the real numbers.
   Kept in a file of its own because it needs the Reals library. *)
From Coq Require Import Reals List ZArith.
From CV Require Import Model.C08_TuneR Proofs.C08_TuneR.
Import ListNotations.

(* ---- dual averaging of the step size (tune / the adaptation block of the legacy sampler), over the reals ---- *)
(* The model da_step is the code's update, statement by statement (Model/C08_TuneR.v).  H_bar is the t_0-regularised
   running mean of delta - alpha_i, so the step size after n statistics and one update of epsilon_bar have the closed
   forms the generated cases evaluate against both implementations (one kernel-checked `interval` proof each).
   Axioms: those of the classical real numbers of the standard library. *)
Theorem C08_tune_running_mean :
  forall (eps0 delta : R) (al : list R),
  da_H (da_after eps0 delta al) = (dsum delta al / (IZR (Z.of_nat (length al)) + da_t0))%R.
Proof. exact da_H_closed. Qed.
Print Assumptions C08_tune_running_mean.

Theorem C08_tune_closed_forms :
  forall (eps0 delta : R) (al : list R) (a : R),
  (al <> [] -> da_eps (da_after eps0 delta al) = da_eps_closed eps0 delta (Z.of_nat (length al)) al) /\
  da_bar (da_after eps0 delta (al ++ [a]))
  = da_bar_step (Z.of_nat (length al) + 1) (da_eps (da_after eps0 delta (al ++ [a]))) (da_bar (da_after eps0 delta al)).
Proof. intros eps0 delta al a. split; [exact (da_eps_closed_ok eps0 delta al) | exact (da_bar_step_ok eps0 delta al a)]. Qed.
Print Assumptions C08_tune_closed_forms.

(* non-vacuity: two statistics, evaluated symbolically *)
Example C08_tune_example :
  da_H (da_after 1 (6 / 10) [1; 0]%R) = ((6 / 10 - 1 + (6 / 10 - 0 + 0)) / (IZR (Z.of_nat 2) + da_t0))%R.
Proof. exact (da_H_closed 1 (6 / 10) [1; 0]%R). Qed.
