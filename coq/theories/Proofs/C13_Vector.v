(* C13 -- Samples: function values <-> vectorised function values (Image2D, the geometry with a genuine
   vector representation), lossless and sample by sample. *)
From CV Require Import Base.Tac Base.Cmp Base.QcLin Model.C13_Geom Proofs.C13_Lists Proofs.C13_Index Proofs.C13_Geom Proofs.C13_All.
From Coq Require Import QArith Qcanon.

Theorem samples_vector_lossless_image r c o Ns (Y : list Qc) :
  (0 < r * c)%nat -> length Y = (r * c * Ns)%nat ->
  let g := GImage r c o false in
  let F := mkS (mkArr [r; c; Ns] Y) false false in
  exists V, samples_vector g F = Some V /\ s_is_par V = false /\ s_is_vec V = true /\ shp (s_arr V) = [(r * c)%nat; Ns] /\
    (forall i, (i < Ns)%nat -> g_fun2vec g (sample_slice (s_arr F) i) = Some (sample_slice (s_arr V) i)) /\
    samples_funvals g V = Some F.
Proof.
  intros Hp HY g F.
  assert (P2 : prodn [r; c] = (r * c)%nat) by (cbn; lia).
  assert (P1 : prodn [(r * c)%nat] = (r * c)%nat) by (cbn; lia).
  set (Q := fun i => col_of 0%Qc (r * c) Ns i Y).
  assert (HQl : forall i, length (Q i) = (r * c)%nat) by (intros i; apply col_of_length).
  set (G := fun i => match o with OC => Q i | OF => to_F 0%Qc [r; c] (Q i) end).
  assert (HGl : forall i, length (G i) = (r * c)%nat) by (intros i; unfold G; destruct o; [apply HQl | rewrite to_F_length; exact P2]).
  assert (Hvec : forall i, image_fun2par 0%Qc o false (mkArr [r; c] (Q i)) = Some (mkArr [(r * c)%nat] (G i))).
  { intros i. unfold image_fun2par. cbn [shp dat]. rewrite P2. unfold G. destruct o; reflexivity. }
  set (D := of_cols 0%Qc (r * c) (map G (seq 0 Ns))).
  assert (Hconv : convert_all (g_fun2vec g) [(r * c)%nat] (mkArr ([r; c] ++ [Ns]) Y) = Some (mkArr ([(r * c)%nat] ++ [Ns]) D)).
  { unfold D. rewrite <- P1 at 3. apply convert_all_spec. intros i Hi. rewrite P2. cbn [g g_fun2vec]. fold (Q i). rewrite Hvec.
    eexists. split; [reflexivity|]. split; reflexivity. }
  exists (mkS (mkArr [(r * c)%nat; Ns] D) false true).
  assert (Hslice : forall i, (i < Ns)%nat -> sample_slice (mkArr ([(r * c)%nat] ++ [Ns]) D) i = mkArr [(r * c)%nat] (G i)).
  { intros i Hi. rewrite sample_slice_app, P1. unfold D.
    pose proof (col_of_of_cols 0%Qc (r * c) (map G (seq 0 Ns)) i) as E. rewrite map_length, seq_length in E.
    rewrite E; [rewrite nth_map_seq by exact Hi; reflexivity | exact Hi | rewrite nth_map_seq by exact Hi; apply HGl]. }
  split; [|split; [reflexivity|split; [reflexivity|split; [reflexivity|split]]]].
  - unfold samples_vector, F. cbn [s_is_par s_is_vec s_arr orb]. cbn [g g_funvec_shape]. rewrite P1.
    change [r; c; Ns] with ([r; c] ++ [Ns]). fold g. rewrite Hconv. reflexivity.
  - intros i Hi. unfold F. cbn [s_arr]. change [r; c; Ns] with ([r; c] ++ [Ns]). rewrite sample_slice_app, P2.
    change [(r * c)%nat; Ns] with ([(r * c)%nat] ++ [Ns]). rewrite Hslice by exact Hi.
    cbn [g g_fun2vec]. fold (Q i). apply Hvec.
  - unfold samples_funvals. cbn [s_is_par s_is_vec s_arr negb andb]. cbn [g g_fun_shape].
    change [(r * c)%nat; Ns] with ([(r * c)%nat] ++ [Ns]).
    rewrite (convert_all_spec _ [r; c] [(r * c)%nat] Ns D Q).
    + cbn [option_map]. unfold F. f_equal. f_equal.
      * cbn [app]. f_equal. rewrite P2. change (map Q (seq 0 Ns)) with (cols_of 0%Qc (r * c) Ns Y).
        apply of_cols_cols_of. exact HY.
    + intros i Hi. pose proof (Hslice i Hi) as Es. rewrite sample_slice_app in Es. rewrite Es.
      exists (mkArr [r; c] (Q i)). split; [|split; reflexivity].
      cbn [g_vec2fun].
      pose proof (image_roundtrip_fun 0%Qc r c o (mkArr [r; c] (Q i)) Hp eq_refl (HQl i)) as R.
      rewrite Hvec in R. cbn [obind] in R. exact R.
Qed.
