"""C04 -- log-densities are the documented normalised densities in every parameterisation.

Correspondence: cuqi.distribution.* logpdf / pdf / cdf / logd  vs  Model/C04_Dens.v.
  * ENCLOSURE: one kernel-checked `interval` proof per evaluation, |model_R(inputs) - observed| <= 1e-9 (1+|observed|);
    exact linear algebra the value depends on (difference operators, Gaussian quadratic forms, determinants, inverse
    certificates) is evaluated by vm_compute over Q in the same goal (`cert = true /\\ enclosure`).
  * DECISION: support tests (-inf), refusals, internal (rank, branch) -- exact.
Independent oracle (plain Python `math`, explicit loops over components, Fractions for the linear algebra): the logarithm of
the *documented* density; numerical quadrature of pdf over the support (integral = 1) and of pdf up to x (= cdf) in 1-d.
Third deepening round: box-mass cells (iterated quadrature of the implementation's density over the box of the n-dimensional
normalisation theorems C04_*_box_mass / C04_*_normalised_nd vs the theorem's mass, factors enclosed in Coq) and user-defined cells.
"""
import math, itertools, warnings
from fractions import Fraction
import numpy as np
from common import *

IMPORTS = ("From CV Require Import Base.Cmp Model.C04_Dens Model.C04_Cdf Model.C04_Tac. From Coq Require Import QArith Reals List. "
           "Import ListNotations. From Interval Require Import Tactic.")
RULE = ("every family x parameter form (scalar broadcast / vector per parameter) x dim in {1,2,3,5} x way of passing "
        "(float, list, ndarray, conditioned keyword, callable) x method (logpdf, pdf, logd, cdf where closed form); Gaussian: one "
        "SPD matrix pushed through 4 parameterisations x {scalar, vector, diagonal matrix, dense, sparse} (+ dims 74..77 for the "
        "dense/sparse switch); GMRF/LMRF/CMRF x boundary condition x order x 1-d/2-d; n-dimensional normalisation: 9 families (Gaussian in "
        "4 forms) x dims 1, 2 x scalar / vector parameters, the implementation's density integrated over the box of the theorem vs the "
        "theorem's mass; user-defined distributions wrapping a plain-Python log-density (7 families x dims 1, 3 x logpdf / pdf / logd / "
        "keyword logd); distinct = distinct (family, inputs, method); "
        "trivial = none")

TOL = Fraction(1, 10 ** 9)

# ------------------------------------------------------------------------------------------------
# encoders
# ------------------------------------------------------------------------------------------------

def cr(x):
    """R literal of an exact rational."""
    f = frac(x)
    if f.denominator == 1:
        return "(IZR (%d))" % f.numerator
    return "(IZR (%d) / IZR %d)" % (f.numerator, f.denominator)


def crl(v):
    return "[" + "; ".join(cr(a) for a in v) + "]"


def cql(v):
    return cqvec(list(v))


def cqm(m):
    return cqmat([list(r) for r in m])


def encl(model, obs, cert=None, tol=TOL, rel=False):
    """|model - observed| <= tol (1 + |observed|) for log-densities (O(1) or larger by nature: an absolute error there IS a
    relative error of the density); rel=True: <= tol |observed| for densities / probabilities, so that a tiny value cannot
    pass vacuously."""
    v = frac(obs)
    t = tol * abs(v) if (rel and v != 0) else tol * (1 + abs(v))
    prop = "(Rabs (%s - %s) <= %s)%%R" % (model, cr(v), cr(t))
    if cert is None:
        return prop, "c04_encl."
    return "(%s = true) /\\ %s" % (cert, prop), "c04_both."


def fl(v):
    return [float(a) for a in np.asarray(v, dtype=float).ravel()]


def bc(p, n):
    return list(p) * n if len(p) == 1 else list(p)


# ------------------------------------------------------------------------------------------------
# independent oracle: logarithm of the documented density, plain Python
# ------------------------------------------------------------------------------------------------
LOG2PI = math.log(2 * math.pi)


def lgam(a):
    return math.lgamma(a)


def doc_logpdf(fam, P, x):
    """log of the documented pdf (product over components), -inf outside the support, None if parameters are invalid."""
    n = len(x)
    g = lambda k: bc(P[k], n)
    t = 0.0
    if fam == "Normal":
        for m, s, xi in zip(g("mean"), g("std"), x):
            t += math.log(1 / (s * math.sqrt(2 * math.pi))) - (xi - m) ** 2 / (2 * s * s)
    elif fam == "Laplace":
        b = P["scale"][0]
        for l, xi in zip(g("location"), x):
            t += math.log(1 / (2 * b)) - abs(xi - l) / b
    elif fam == "SmoothedLaplace":
        be = P["beta"][0]
        for l, b, xi in zip(g("location"), g("scale"), x):
            t += math.log(1 / (2 * b)) - math.sqrt((xi - l) ** 2 + be) / b
    elif fam == "Cauchy":
        for l, s, xi in zip(g("location"), g("scale"), x):
            if s <= 0:
                return -math.inf
            t += -math.log(math.pi * s * (1 + (xi - l) ** 2 / s ** 2))
    elif fam == "Uniform":
        for l, h, xi in zip(g("low"), g("high"), x):
            if xi < l or xi > h:
                return -math.inf
            t += math.log(1 / (h - l))
    elif fam == "Gamma":
        for a, r, xi in zip(g("shape"), g("rate"), x):
            if xi <= 0:
                return -math.inf
            t += a * math.log(r) + (a - 1) * math.log(xi) - r * xi - lgam(a)
    elif fam == "InverseGamma":
        for a, l, s, xi in zip(g("shape"), g("location"), g("scale"), x):
            if xi <= l:
                return -math.inf
            t += (-a - 1) * math.log(xi - l) - s / (xi - l) + a * math.log(s) - lgam(a)
    elif fam == "Beta":
        for a, b, xi in zip(g("alpha"), g("beta"), x):
            if xi <= 0 or xi >= 1 or a <= 0 or b <= 0:
                return -math.inf
            t += (a - 1) * math.log(xi) + (b - 1) * math.log(1 - xi) + lgam(a + b) - lgam(a) - lgam(b)
    elif fam == "ModifiedHalfNormal":        # documented up to its constant
        a, b, c = P["alpha"][0], P["beta"][0], P["gamma"][0]
        for xi in x:
            if xi <= 0:
                return -math.inf
            t += (a - 1) * math.log(xi) - b * xi * xi + c * xi
    elif fam == "Lognormal":                 # diagonal covariance
        for m, v, xi in zip(g("mean"), g("cov"), x):
            if xi <= 0:
                return -math.inf
            t += -math.log(xi) - 0.5 * math.log(2 * math.pi * v) - (math.log(xi) - m) ** 2 / (2 * v)
    else:
        raise ValueError(fam)
    return t


def doc_cdf1(fam, P1, xi):
    """documented 1-d cdf: closed form for Normal / Cauchy, otherwise numerical quadrature of the DOCUMENTED 1-d density
    (plain Python density; not scipy.stats, which is what the code calls)."""
    if fam == "Normal":
        return 0.5 * (1 + math.erf((xi - P1["mean"]) / (P1["std"] * math.sqrt(2))))
    if fam == "Cauchy":
        return math.atan((xi - P1["location"]) / P1["scale"]) / math.pi + 0.5
    from scipy.integrate import quad
    lower = {"Gamma": 0.0, "Beta": 0.0, "InverseGamma": P1.get("location", 0.0)}[fam]
    if xi <= lower:
        return 0.0
    Pl = {k: [v] for k, v in P1.items()}
    f = lambda t: math.exp(doc_logpdf(fam, Pl, [t])) if t > lower else 0.0
    val, err = quad(f, lower, xi, epsabs=1e-13, epsrel=1e-12, limit=200)
    return val


def close(a, b, rel=1e-9):
    if a is None or b is None:
        return False
    a, b = float(a), float(b)
    if math.isinf(a) or math.isinf(b):
        return a == b
    if math.isnan(a) or math.isnan(b):
        return False
    return abs(a - b) <= rel * (1 + abs(b))


def close_rel(a, b, rel=1e-9):
    """purely relative closeness, for densities / probabilities of any magnitude"""
    if a is None or b is None:
        return False
    a, b = float(a), float(b)
    if math.isnan(a) or math.isnan(b):
        return False
    if math.isinf(a) or math.isinf(b) or b == 0.0:
        return a == b
    return abs(a - b) <= rel * abs(b)


# ------------------------------------------------------------------------------------------------
# scalar families
# ------------------------------------------------------------------------------------------------
FAMILIES = {
    #  name: (parameters in constructor order, parameters that must be > 0, parameters that may only be scalar)
    "Normal": (["mean", "std"], {"std"}, set()),
    "Laplace": (["location", "scale"], {"scale"}, {"scale"}),
    "SmoothedLaplace": (["location", "scale", "beta"], {"scale", "beta"}, {"beta"}),
    "Cauchy": (["location", "scale"], {"scale"}, set()),
    "Uniform": (["low", "high"], set(), set()),
    "Gamma": (["shape", "rate"], {"shape", "rate"}, set()),
    "InverseGamma": (["shape", "location", "scale"], {"shape", "scale"}, set()),
    "Beta": (["alpha", "beta"], {"alpha", "beta"}, set()),
    "ModifiedHalfNormal": (["alpha", "beta", "gamma"], {"alpha", "beta"}, {"alpha", "beta", "gamma"}),
    "Lognormal": (["mean", "cov"], {"cov"}, set()),
}
SHAPE_PARAMS = {"Gamma": ["shape"], "InverseGamma": ["shape"], "Beta": ["alpha", "beta"]}
IFACES = ["float", "list", "array", "npfloat"]
# Normal, Laplace, Uniform keep their parameters as given (no force_ndarray): Python lists/tuples make the arithmetic of
# logpdf raise TypeError (a refusal, not a wrong number) -- these families are driven with floats and ndarrays only
RAW_FAMILIES = {"Normal": ["float", "array", "npfloat_or_array"], "Laplace": ["float", "array", "npfloat_or_array"],
                "Uniform": ["float", "array", "npfloat_or_array"]}
VIAS = {"Normal": ["direct", "cond", "callable", "logd", "named"], "Cauchy": ["direct", "cond", "callable", "named"],
        "Gamma": ["direct", "cond", "logd", "named"], "Uniform": ["direct", "cond"], "Laplace": ["direct", "cond"],
        "SmoothedLaplace": ["direct", "callable"], "Beta": ["direct"], "InverseGamma": ["direct"],
        "ModifiedHalfNormal": ["direct"], "Lognormal": ["direct"]}


def draw_params(rng, fam, forms, n, general_shape=False):
    names, positive, _ = FAMILIES[fam]
    P = {}
    for nm, form in zip(names, forms):
        k = 1 if form == "S" else n
        if fam in SHAPE_PARAMS and nm in SHAPE_PARAMS[fam]:
            if general_shape:
                vals = [rng.choice([3, 5, 7, 9, 11, 13, 19, 27, 37]) / 8 for _ in range(k)]     # not half-integers
            else:
                vals = [rng.randint(1, 9) / 2 for _ in range(k)]                               # half-integers k/2
        elif nm in positive:
            vals = [rng.randint(2, 32) / 8 for _ in range(k)]
        else:
            vals = [rng.randint(-16, 16) / 8 for _ in range(k)]
        P[nm] = vals
    if fam == "Uniform":       # high > low componentwise after broadcasting
        lo, hi = bc(P["low"], n), bc(P["high"], n)
        if len(P["high"]) == 1:
            P["high"] = [max(lo) + rng.randint(1, 24) / 8]
        else:
            P["high"] = [l + rng.randint(1, 24) / 8 for l in lo]
    return P


def draw_x(rng, fam, P, n, inside=True):
    x = []
    for i in range(n):
        g = lambda k: bc(P[k], n)[i]
        if fam == "Uniform":
            l, h = g("low"), g("high")
            w = round((h - l) * 8)
            x.append(l + rng.randint(0, w) / 8)
        elif fam in ("Gamma", "ModifiedHalfNormal", "Lognormal"):
            x.append(rng.randint(1, 40) / 8)
        elif fam == "InverseGamma":
            x.append(g("location") + rng.randint(1, 40) / 8)
        elif fam == "Beta":
            x.append(rng.randint(1, 15) / 16)
        else:
            x.append(rng.randint(-24, 24) / 8)
    if not inside:
        i = rng.randrange(n)
        g = lambda k: bc(P[k], n)[i]
        if fam == "Uniform":
            x[i] = g("low") - rng.randint(1, 8) / 8 if rng.random() < 0.5 else g("high") + rng.randint(1, 8) / 8
        elif fam in ("Gamma", "Lognormal"):
            x[i] = -rng.randint(1, 16) / 8
        elif fam == "InverseGamma":
            x[i] = g("location") - rng.randint(1, 16) / 8
        elif fam == "Beta":
            x[i] = rng.choice([-0.5, 0.0, 1.0, 1.5])
    return x


def pass_value(vals, iface, n):
    """how a parameter value is handed to the constructor"""
    if iface == "npfloat_or_array":
        iface = "npfloat" if len(vals) == 1 else "array"
    if len(vals) == 1:
        v = vals[0]
        if iface == "int":
            return int(v) if float(v).is_integer() else float(v)
        return {"float": float(v), "npfloat": np.float64(v), "list": [float(v)], "array": np.array([float(v)])}[iface]
    if iface in ("list",):
        return [float(v) for v in vals]
    if iface == "npfloat":
        return tuple(float(v) for v in vals)
    return np.array(vals, dtype=float)


def build_dist(cuqi, fam, P, n, ifaces, via):
    """construct the distribution; returns (dist, positional conditioning values or None)"""
    D = cuqi.distribution
    names = FAMILIES[fam][0]
    cls = getattr(D, fam)
    vals = {nm: pass_value(P[nm], ifaces[i % len(ifaces)], n) for i, nm in enumerate(names)}
    if fam == "Lognormal":
        return cls(np.array(bc(P["mean"], n), dtype=float) if len(P["mean"]) > 1 or n == 1 else np.array(bc(P["mean"], n)), vals["cov"]), None
    if fam == "ModifiedHalfNormal":
        return cls(P["alpha"][0], P["beta"][0], P["gamma"][0], geometry=n), None
    kw = dict(vals)
    first = names[0]
    if via == "direct":
        return cls(**kw, geometry=n), None
    if via in ("cond", "logd"):
        kw[first] = None
        d = cls(**kw, geometry=n)
        if via == "cond":
            return d(**{first: vals[first]}), None
        return d, [vals[first]]
    if via == "callable":
        kw[first] = lambda par_: par_
        d = cls(**kw, geometry=n)
        return d(par_=vals[first]), None
    if via == "userdefined":      # the quantifier's "user-defined" family: the user's log-density function wrapped as a distribution
        f = lambda xx: doc_logpdf(fam, P, [float(t) for t in np.asarray(xx, dtype=float).ravel()])
        return D.UserDefinedDistribution(dim=n, logpdf_func=f), None
    if via == "userdefined-named":
        f = lambda xx: doc_logpdf(fam, P, [float(t) for t in np.asarray(xx, dtype=float).ravel()])
        return D.UserDefinedDistribution(dim=n, logpdf_func=f, name="xx"), "named"
    if via == "named":            # optional arguments of the entry points: name=, a Geometry object, keyword evaluation logd(name=x)
        return cls(**kw, geometry=cuqi.geometry.Continuous1D(n), name="xx"), "named"
    raise ValueError(via)


def lng_expr(a):
    """Coq R expression for lnGamma(a): closed form for half-integers, certificate (scipy, cross-checked with libm) otherwise"""
    k2 = Fraction(a) * 2
    if k2.denominator == 1 and 1 <= k2.numerator <= 60:
        return "(ln (gam_half %s))" % cnat(k2.numerator), None
    from scipy.special import gammaln
    g = float(gammaln(a))
    if abs(g - math.lgamma(a)) > 1e-12 * (1 + abs(g)):
        raise RuntimeError("lnGamma certificate: scipy and libm disagree at %r" % a)
    return cr(g), g


def cdf_goal(fam, P, x, n, obs):
    """proposition tying a product-form cdf to the model: every 1-d factor (an integral of the documented density, one
    `integral` proof each) lies within 1e-10 of a rational q_i, and prod q_i is within tolerance of the observed value
    (the factors are probabilities, so |prod f_i - prod q_i| <= sum |f_i - q_i|)"""
    fs, qs, pre = [], [], []
    for i in range(n):
        g = lambda k: bc(P[k], n)[i]
        if fam == "Normal":
            z = (frac(x[i]) - frac(g("mean"))) / frac(g("std"))
            fs.append("(normal_cdf_z [%s]%%list)" % cr(z))
            q = 0.5 * (1 + math.erf(float(z) / math.sqrt(2)))
        elif fam == "Gamma":
            fs.append("(gamma_int_cdf1 %s %s %s)" % (cnat(int(g("shape")) - 1), cr(g("rate")), cr(x[i])))
            q = doc_cdf1(fam, {k: bc(v, n)[i] for k, v in P.items()}, x[i])
        elif fam == "InverseGamma":     # X - loc ~ InvGamma(a, scale)  <=>  1/(X - loc) ~ Gamma(a, rate = scale)
            fs.append("(1 - gamma_int_cdf1 %s %s %s)" % (cnat(int(g("shape")) - 1), cr(g("scale")), cr(1 / (frac(x[i]) - frac(g("location"))))))
            q = doc_cdf1(fam, {k: bc(v, n)[i] for k, v in P.items()}, x[i])
        else:
            fs.append("(beta_int_cdf1 %s %s %s)" % (cnat(int(g("alpha")) - 1), cnat(int(g("beta")) - 1), cr(x[i])))
            q = doc_cdf1(fam, {k: bc(v, n)[i] for k, v in P.items()}, x[i])
        qs.append(frac(float(q)))
    if fam == "Normal":     # the standardised points are computed by the model over Q (numpy broadcasting of mean and std)
        zs = [(frac(x[i]) - frac(bc(P["mean"], n)[i])) / frac(bc(P["std"], n)[i]) for i in range(n)]
        pre.append("(ql_eqb (normal_zq %s %s %s) %s = true)" % (cql(P["mean"]), cql(P["std"]), cql(x), cql(zs)))
    eps = Fraction(1, 10 ** 9)      # absolute: far in a tail (|z| > 6) the factor is only bounded absolutely
    parts = pre + ["(Rabs (%s - %s) <= %s)%%R" % (f, cr(q), cr(eps)) for f, q in zip(fs, qs)]
    prod = Fraction(1)
    for q in qs:
        prod *= q
    v = frac(obs)
    parts.append("(Rabs (%s - %s) <= %s)%%R" % (cr(prod), cr(v), cr(Fraction(1, 10 ** 8) * abs(v) + n * eps)))
    return " /\\ ".join(parts)


def model_expr(fam, P, x, n, state, method="logpdf"):
    """Coq R-expression of the model value"""
    L = lambda k: crl(P[k])
    X = crl(x)
    if fam == "Normal":
        return "(normal_%s %s %s %s)" % ("pdf" if method == "pdf_own" else "logpdf", L("mean"), L("std"), X)
    if fam == "Laplace":
        return "(laplace_logpdf %s %s %s %s)" % (cnat(n), L("location"), cr(P["scale"][0]), X)
    if fam == "SmoothedLaplace":
        return "(slap_logpdf %s %s %s %s %s)" % (cbool(state["slap_fixed"]), L("location"), L("scale"), cr(P["beta"][0]), X)
    if fam == "Cauchy":
        if method == "cdf":
            return "(cauchy_cdf %s %s %s %s)" % (cbool(state["cauchy_cdf_fixed"]), L("location"), L("scale"), X)
        return "(cauchy_logpdf %s %s %s)" % (L("location"), L("scale"), X)
    if fam == "Uniform":
        return "(uniform_logpdf %s %s %s %s)" % (cbool(state["uniform_fixed"]), cnat(n), L("low"), L("high"))
    if fam == "Gamma":
        g = "[" + "; ".join(lng_expr(a)[0] for a in P["shape"]) + "]"
        return "(gamma_logpdf %s %s %s %s)" % (g, L("shape"), L("rate"), X)
    if fam == "InverseGamma":
        g = "[" + "; ".join(lng_expr(a)[0] for a in P["shape"]) + "]"
        return "(invgamma_logpdf %s %s %s %s %s)" % (g, L("shape"), L("location"), L("scale"), X)
    if fam == "Beta":
        al, be = bc(P["alpha"], n), bc(P["beta"], n)
        if len(P["alpha"]) == 1 and len(P["beta"]) == 1:
            al, be = al[:1], be[:1]
        ga = "[" + "; ".join(lng_expr(a)[0] for a in P["alpha"]) + "]"
        gb = "[" + "; ".join(lng_expr(a)[0] for a in P["beta"]) + "]"
        gab = "[" + "; ".join(lng_expr(a + b)[0] for a, b in zip(al, be)) + "]"
        return "(beta_logpdf %s %s %s %s %s %s)" % (ga, gb, gab, L("alpha"), L("beta"), X)
    if fam == "ModifiedHalfNormal":
        return "(mhn_logpdf %s %s %s %s)" % (cr(P["alpha"][0]), cr(P["beta"][0]), cr(P["gamma"][0]), X)
    if fam == "Lognormal":
        scalar = len(P["cov"]) == 1
        gl = "(gauss_diag_logpdf FCov %s %s %s %s (map ln %s))" % (cbool(scalar), cnat(n), L("cov"), L("mean"), X)
        return "(lognormal_logpdf %s %s)" % (gl, X)
    raise ValueError(fam)


def outside_expr(fam, P, x):
    if fam == "Uniform":
        return "uniform_outside %s %s %s" % (cql(P["low"]), cql(P["high"]), cql(x))
    if fam == "Beta":
        return "beta_outside %s %s %s" % (cql(P["alpha"]), cql(P["beta"]), cql(x))
    if fam == "Gamma":
        return "gamma_outside %s" % cql(x)
    if fam == "InverseGamma":
        return "invgamma_outside %s %s" % (cql(P["location"]), cql(x))
    if fam == "Lognormal":
        return "lognormal_outside %s" % cql(x)
    if fam == "Cauchy":
        return "cauchy_outside %s" % cql(P["scale"])
    return "false"


DEFECT_CLASS = {
    # family -> (predicate on (P, n, method), signature)
    "Uniform": (lambda P, n, m: n > 1 and len(P["low"]) == 1 and len(P["high"]) == 1 and m in ("logpdf", "pdf", "logd"),
                "Uniform.logpdf|scalar-bounds:dim>1"),
    "SmoothedLaplace": (lambda P, n, m: n > 1 and len(P["scale"]) == 1 and m in ("logpdf", "pdf", "logd"),
                        "SmoothedLaplace.logpdf|scalar-scale:dim>1"),
    "Cauchy": (lambda P, n, m: n > 1 and m == "cdf", "Cauchy.cdf|dim>1"),
    "ModifiedHalfNormal": (lambda P, n, m: not (P["alpha"] == P["beta"] == P["gamma"]), "ModifiedHalfNormal.beta/gamma|getters-return-alpha"),
}


def evaluate(dist, method, x, condvals=None):
    xa = np.array(x, dtype=float)
    with warnings.catch_warnings():
        warnings.simplefilter("ignore")
        with np.errstate(all="ignore"):
            if condvals == "named":
                return dist.logd(xx=xa) if method == "logd" else getattr(dist, "pdf" if method == "pdf_own" else method)(xa)
            if method == "logd":
                if condvals:
                    return dist.logd(*condvals, xa)
                return dist.logd(xa)
            if condvals:
                dist = dist(*condvals) if False else dist
            return getattr(dist, "pdf" if method == "pdf_own" else method)(xa)


def scalar_family_cases(ctx, cuqi, state, cases, stats):
    rng = ctx.rng
    dims = [1, 2, 3, 5]
    counter = 0
    for fam, (names, positive, scalar_only) in FAMILIES.items():
        form_sets = [f for f in itertools.product("SV", repeat=len(names))
                     if all(not (nm in scalar_only and c == "V") for nm, c in zip(names, f))]
        for n in dims:
            for forms in form_sets:
                if n == 1 and "V" in forms:
                    continue            # dim 1: vector form == scalar form
                if fam == "Lognormal" and n > 1 and forms[0] == "S":
                    continue            # Lognormal has no geometry argument: its dimension is that of the mean
                for via in VIAS[fam]:
                    reps = ctx.n(1, 6) if via == "direct" else ctx.n(1, 2)
                    methods = ["logpdf", "pdf", "logd"] if via != "logd" else ["logd"]
                    if not ctx.thorough and via != "logd" and not (n in (1, 3) and via == "direct"):
                        methods = ["logpdf"]            # quick: pdf / logd only in the (dim 1, dim 3) x direct cells
                    if fam == "Normal":
                        methods = methods + ["pdf_own"] if via != "logd" else methods
                    if fam in ("Cauchy", "Normal", "Gamma", "Beta", "InverseGamma") and via == "direct":
                        methods = methods + ["cdf"]
                    for rep in range(reps):
                        for general in ([False, True] if fam in SHAPE_PARAMS and via == "direct" else [False]):
                            counter += 1
                            ifl = RAW_FAMILIES.get(fam, IFACES)
                            ifaces = [ifl[(counter + j) % len(ifl)] for j in range(len(names))]
                            P = draw_params(rng, fam, forms, n, general_shape=general)
                            try:
                                dist, condvals = build_dist(cuqi, fam, P, n, ifaces, via)
                            except Exception as e:
                                raise RuntimeError("cannot construct %s %s n=%d via=%s ifaces=%s: %r" % (fam, P, n, via, ifaces, e))
                            for method in methods:
                                for inside in ([True, False] if fam in ("Uniform", "Beta", "Gamma", "InverseGamma", "Lognormal") and method == "logpdf" and rep == 0 and via == "direct" else [True]):
                                    x = draw_x(rng, fam, P, n, inside)
                                    one_scalar_case(ctx, cuqi, state, cases, stats, fam, P, x, n, forms, via, ifaces, method,
                                                    dist, condvals, general)


MAG_RULES = {   # how the parameters scale when every length is multiplied by c
    "Normal": {"mean": 1, "std": 1}, "Laplace": {"location": 1, "scale": 1}, "SmoothedLaplace": {"location": 1, "scale": 1, "beta": 2},
    "Cauchy": {"location": 1, "scale": 1}, "Uniform": {"low": 1, "high": 1}, "Gamma": {"shape": 0, "rate": -1},
    "InverseGamma": {"shape": 0, "location": 1, "scale": 1},
}


def scalar_magnitude_cases(ctx, cuqi, state, cases, stats):
    """tiny / huge scale parameters and evaluation points: all lengths multiplied by c = 2^k (exact), logpdf only"""
    rng = ctx.rng
    K = [-50, -17, 17, 34] + ([-60, -34, 50, 60] if ctx.thorough else [])
    counter = 0
    for fam, rules in MAG_RULES.items():
        names = FAMILIES[fam][0]
        scalar_only = FAMILIES[fam][2]
        for k in K:
            c = 2.0 ** k
            for n, forms in [(1, "S" * len(names)), (3, "S" * len(names)), (3, "".join("S" if nm in scalar_only else "V" for nm in names))]:
                counter += 1
                if not ctx.thorough and n == 3 and (counter + k) % 2 == 0:
                    continue
                P0 = draw_params(rng, fam, forms, n)
                x0 = draw_x(rng, fam, P0, n, True)
                P = {nm: [v * c ** rules[nm] for v in vals] for nm, vals in P0.items()}
                x = [v * c for v in x0]
                ifl = RAW_FAMILIES.get(fam, IFACES)
                ifaces = [ifl[(counter + j) % len(ifl)] for j in range(len(names))]
                dist, condvals = build_dist(cuqi, fam, P, n, ifaces, "direct")
                one_scalar_case(ctx, cuqi, state, cases, stats, fam, P, x, n, forms, "direct", ifaces, "logpdf", dist, condvals,
                                cell_suffix="/lengths*2^%d" % k)


def scalar_cdf_cases(ctx, cuqi, state, cases, stats):
    """cdf of Gamma / InverseGamma / Beta with INTEGER shapes: the Coq model states the cdf as the integral of the documented
    density (enclosed by Interval's `integral`), every parameter form, dims 1..3"""
    rng = ctx.rng
    counter = 0
    for fam in ("Gamma", "InverseGamma", "Beta"):
        names = FAMILIES[fam][0]
        for n in (1, 2, 3):
            for forms in (["S" * len(names)] if n == 1 else ["S" * len(names), "V" * len(names)] + (["SV" + "S" * (len(names) - 2), "VS" + "V" * (len(names) - 2)] if ctx.thorough else [])):
                for rep in range(ctx.n(1, 3)):
                    counter += 1
                    P = draw_params(rng, fam, forms, n)
                    for nm in SHAPE_PARAMS[fam]:
                        P[nm] = [float(rng.randint(1, 4)) for _ in P[nm]]
                    x = draw_x(rng, fam, P, n, True)
                    ifaces = [IFACES[(counter + j) % len(IFACES)] for j in range(len(names))]
                    dist, condvals = build_dist(cuqi, fam, P, n, ifaces, "direct")
                    one_scalar_case(ctx, cuqi, state, cases, stats, fam, P, x, n, forms, "direct", ifaces, "cdf", dist, condvals, cell_suffix="/int-shape")


def userdefined_cases(ctx, cuqi, state, cases, stats):
    """the "user-defined" item of the quantifier: cuqi.distribution.UserDefinedDistribution wrapping a plain-Python log-density (the documented
    density of one of the families, written without numpy / cuqi): logpdf, logd, pdf -- also by keyword through name= -- must return the
    logarithm of THAT density (compared with the Coq model of the family and with the function itself), -inf / 0 outside its support"""
    rng = ctx.rng
    counter = 0
    for fam in ("Normal", "Cauchy", "Gamma", "Beta", "Laplace", "Uniform", "InverseGamma"):
        names, _, scalar_only = FAMILIES[fam]
        for n in ((1, 3) if not ctx.thorough else (1, 2, 3, 5)):
            forms = "".join("S" if (nm in scalar_only or n == 1) else "V" for nm in names)
            P = draw_params(rng, fam, forms, n)
            for via, methods in (("userdefined", ["logpdf", "pdf", "logd"]), ("userdefined-named", ["logd"])):
                dist, condvals = build_dist(cuqi, fam, P, n, ["float"] * len(names), via)
                for method in methods:
                    counter += 1
                    inside = not (fam in ("Uniform", "Beta", "Gamma") and counter % 5 == 0)
                    x = draw_x(rng, fam, P, n, inside)
                    one_scalar_case(ctx, cuqi, state, cases, stats, fam, P, x, n, forms, via, ["float"] * len(names), method, dist, condvals,
                                    cell_suffix="/user-defined")


def scalar_falsy_cases(ctx, cuqi, state, cases, stats):
    """falsy-but-legitimate values: location / mean / low = integer 0, evaluation point all zeros (or on the boundary), integers
    as parameter values"""
    rng = ctx.rng
    for fam, P, x in [("Normal", {"mean": [0.0], "std": [1.0]}, [0.0, 0.0]), ("Normal", {"mean": [0.0], "std": [2.0]}, [0.0]),
                      ("Laplace", {"location": [0.0], "scale": [1.0]}, [0.0, 0.0, 0.0]), ("Cauchy", {"location": [0.0], "scale": [1.0]}, [0.0, 0.0]),
                      ("SmoothedLaplace", {"location": [0.0], "scale": [2.0], "beta": [0.5]}, [0.0, 0.0]),
                      ("Uniform", {"low": [0.0], "high": [1.0]}, [0.0, 1.0]), ("Uniform", {"low": [-1.0], "high": [0.0]}, [0.0]),
                      ("InverseGamma", {"shape": [2.0], "location": [0.0], "scale": [1.0]}, [1.0, 2.0]),
                      ("Gamma", {"shape": [1.0], "rate": [1.0]}, [1.0, 1.0]), ("Lognormal", {"mean": [0.0, 0.0], "cov": [1.0]}, [1.0, 1.0])]:
        names = FAMILIES[fam][0]
        n = len(x)
        forms = "".join("S" if len(P[nm]) == 1 else "V" for nm in names)
        ifaces = ["int"] * len(names)
        for method in ("logpdf", "logd"):
            dist, condvals = build_dist(cuqi, fam, P, n, ifaces, "direct")
            one_scalar_case(ctx, cuqi, state, cases, stats, fam, P, x, n, forms, "direct", ifaces, method, dist, condvals, cell_suffix="/falsy-values")


def scalar_boundary_reassign_cases(ctx, cuqi, state, cases, stats):
    """(a) evaluation points exactly ON the boundary of the support (closed for Uniform, open for Beta / InverseGamma / Lognormal; Gamma at 0),
    (b) parameters re-assigned on the live object (Lognormal keeps an inner Gaussian that has to follow)"""
    rng = ctx.rng
    for fam, P, x in [("Beta", {"alpha": [1.0], "beta": [1.0]}, [1.0]), ("Beta", {"alpha": [1.0], "beta": [1.0]}, [0.0]),
                      ("Beta", {"alpha": [2.0], "beta": [0.5]}, [0.5, 1.0]), ("Uniform", {"low": [0.0], "high": [2.0]}, [2.0, 0.0]),
                      ("Uniform", {"low": [0.0, 1.0], "high": [2.0, 3.0]}, [2.0, 1.0]), ("InverseGamma", {"shape": [2.0], "location": [1.0], "scale": [1.0]}, [1.0, 2.0]),
                      ("Lognormal", {"mean": [0.0, 0.0], "cov": [1.0]}, [0.0, 1.0])]:
        names = FAMILIES[fam][0]
        n = len(x)
        forms = "".join("S" if len(P[nm]) == 1 else "V" for nm in names)
        ifaces = [RAW_FAMILIES.get(fam, IFACES)[0]] * len(names)
        dist, condvals = build_dist(cuqi, fam, P, n, ifaces, "direct")
        one_scalar_case(ctx, cuqi, state, cases, stats, fam, P, x, n, forms, "direct", ifaces, "logpdf", dist, condvals, cell_suffix="/on-the-boundary")
    counter = 0
    for fam in ("Normal", "Cauchy", "Gamma", "Lognormal", "Laplace", "Uniform", "InverseGamma", "Beta"):
        names, _, scalar_only = FAMILIES[fam]
        for n, forms in ((1, "S" * len(names)), (3, "".join("S" if nm in scalar_only else "V" for nm in names))):
            if fam == "Lognormal" and forms[0] == "S" and n > 1:
                continue
            counter += 1
            Pold = draw_params(rng, fam, forms, n)
            Pnew = draw_params(rng, fam, forms, n)
            x = draw_x(rng, fam, Pnew, n, True)
            ifl = ["float", "array", "npfloat_or_array"]     # (Beta / InverseGamma convert lists only in __init__: a list assigned later raises TypeError)
            ifaces = [ifl[(counter + j) % len(ifl)] for j in range(len(names))]
            dist, condvals = build_dist(cuqi, fam, Pold, n, ifaces, "direct")
            evaluate(dist, "logpdf", draw_x(rng, fam, Pold, n, True), condvals)
            for i, nm in enumerate(names):
                if fam == "Lognormal" and nm == "mean":
                    setattr(dist, nm, np.array(bc(Pnew[nm], n), dtype=float))
                else:
                    setattr(dist, nm, pass_value(Pnew[nm], ifaces[i % len(ifaces)], n))
            one_scalar_case(ctx, cuqi, state, cases, stats, fam, Pnew, x, n, forms, "direct", ifaces, ["logpdf", "logd"][counter % 2], dist, condvals,
                            cell_suffix="/reassigned-on-live-object")
            cases[-1].meta["reassigned_from"] = Pold


def sib_parent(cuqi, fam, P, n, nm, style):
    """conditional distribution: parameter `nm` left open (None) or given as a callable of a conditioning variable"""
    names = FAMILIES[fam][0]
    vals = {k: (float(P[k][0]) if len(P[k]) == 1 else np.array(P[k], dtype=float)) for k in names}
    if fam == "Lognormal":
        vals["mean"] = np.array(bc(P["mean"], n), dtype=float)
    vals[nm] = None if style == "none" else (lambda par_: par_)
    if fam == "Lognormal":
        return cuqi.distribution.Lognormal(vals["mean"], vals["cov"])
    return getattr(cuqi.distribution, fam)(**vals, geometry=n)


def sib_condition(parent, fam, nm, style, value, n):
    v = float(value[0]) if len(value) == 1 and not (fam == "Lognormal" and nm == "mean") else np.array(bc(value, n) if (fam == "Lognormal" and nm == "mean") else value, dtype=float)
    return parent(**{nm: v}) if style == "none" else parent(par_=v)


def scalar_sibling_cases(ctx, cuqi, state, cases, stats):
    """BRANCHING conditioning histories: several instances conditioned from ONE conditional distribution are alive together and are
    evaluated only after their later siblings were created (and again after those were evaluated): each must keep the density
    of the parameters IT was conditioned on.  Every family x every parameter x {left open, callable}."""
    rng = ctx.rng
    counter = 0
    for fam, (names, positive, scalar_only) in FAMILIES.items():
        if fam == "ModifiedHalfNormal":
            continue                    # its parameters are not conditionable (plain attributes)
        for nm in names:
            for n in ((3,) if not ctx.thorough else (1, 3)):
                counter += 1
                style = ["none", "callable"][counter % 2]
                forms = "".join("S" if (k in scalar_only or (n == 1) or (counter % 3 == 0 and k != "mean")) else "V" for k in names)
                if fam == "Lognormal":
                    forms = "V" + forms[1:]
                base = draw_params(rng, fam, forms, n)
                Ps = []
                for k in range(3):
                    Pk = {q: list(v) for q, v in base.items()}
                    if fam == "Uniform":
                        shift = (k + 1) * rng.randint(1, 4) / 8
                        Pk[nm] = [v - shift for v in base[nm]] if nm == "low" else [v + shift for v in base[nm]]
                    else:
                        while True:
                            cand = draw_params(rng, fam, forms, n)[nm]
                            if cand != base[nm] and all(cand != q[nm] for q in Ps):
                                break
                        Pk[nm] = cand
                    Ps.append(Pk)
                parent = sib_parent(cuqi, fam, base, n, nm, style)
                sibs = [sib_condition(parent, fam, nm, style, Pk[nm], n) for Pk in Ps]          # all created before any evaluation
                for pos, (k, method) in enumerate([(1, "logpdf"), (0, "logpdf"), (2, "logd"), (0, "pdf"), (1, "logpdf")]):
                    x = draw_x(rng, fam, Ps[k], n, True)
                    one_scalar_case(ctx, cuqi, state, cases, stats, fam, Ps[k], x, n, forms, "direct", ["array"] * len(names), method, sibs[k], None,
                                    cell_suffix="/sibling-of-conditional/%s-%s" % (nm, style))
                    cases[-1].meta["siblings"] = {"param": nm, "style": style, "values": [Pk[nm] for Pk in Ps], "index": k, "position": pos}


def scalar_oracle(fam, P, x, n, method, obs, forms):
    """the property itself on the implementation: observed value vs the logarithm of the documented density"""
    doc = doc_logpdf(fam, P, x)
    if method in ("logpdf", "logd"):
        expected = doc
    elif method in ("pdf", "pdf_own"):
        expected = math.exp(doc) if doc > -math.inf else 0.0
    elif method == "cdf":
        expected = 1.0
        for i in range(n):
            P1 = {k: bc(v, n)[i] for k, v in P.items()}
            expected *= doc_cdf1(fam, P1, x[i])
    fail, sig = None, ""
    if obs is None or not (close(obs, expected) if method in ("logpdf", "logd") else close_rel(obs, expected, 1e-8)):
        pred, dsig = DEFECT_CLASS.get(fam, (None, None))
        fail = "%s(%s).%s(%s) with dim %d = %r but the documented density gives %r" % (fam, P, method, x, n, obs, expected)
        sig = dsig if pred is not None and pred(P, n, method) else "%s.%s|%s" % (fam, method.replace("_own", ""), forms)
    return fail, sig, expected


def scalar_observe(cuqi, meta):
    if "siblings" in meta:
        sb = meta["siblings"]
        parent = sib_parent(cuqi, meta["family"], meta["params"], meta["dim"], sb["param"], sb["style"])
        sibs = [sib_condition(parent, meta["family"], sb["param"], sb["style"], v, meta["dim"]) for v in sb["values"]]
        obs = evaluate(sibs[sb["index"]], meta["method"], meta["x"], None)
        return float(np.asarray(obs).ravel()[0]) if np.size(obs) == 1 else None
    dist, condvals = build_dist(cuqi, meta["family"], meta.get("reassigned_from", meta["params"]), meta["dim"], meta["ifaces"], meta["via"])
    if "reassigned_from" in meta:
        names = FAMILIES[meta["family"]][0]
        for i, nm in enumerate(names):
            val = np.array(bc(meta["params"][nm], meta["dim"]), dtype=float) if (meta["family"] == "Lognormal" and nm == "mean") else pass_value(meta["params"][nm], meta["ifaces"][i % len(meta["ifaces"])], meta["dim"])
            setattr(dist, nm, val)
    obs = evaluate(dist, meta["method"], meta["x"], condvals)
    return float(np.asarray(obs).ravel()[0]) if np.size(obs) == 1 else None


def one_scalar_case(ctx, cuqi, state, cases, stats, fam, P, x, n, forms, via, ifaces, method, dist, condvals, general=False, cell_suffix=""):
    if method == "cdf" and fam == "Normal":      # Interval's `integral` wants a non-degenerate interval [0, z]
        x = [xi + 0.125 if xi == mi else xi for xi, mi in zip(x, bc(P["mean"], n))]
    obs = evaluate(dist, method, x, condvals)
    obs = float(np.asarray(obs).ravel()[0]) if np.size(obs) == 1 else None
    meta = {"kind": "scalar", "family": fam, "params": P, "x": x, "dim": n, "forms": "".join(forms), "via": via,
            "ifaces": ifaces, "method": method, "observed": obs}
    cell = "%s/%s/%s/%s%s%s" % (fam, "".join(forms) + ("1" if n == 1 else "n"), via, method, "/lnG-cert" if general else "", cell_suffix)
    # ---- independent oracle
    doc = doc_logpdf(fam, P, x)
    fail, sig, expected = scalar_oracle(fam, P, x, n, method, obs, "".join(forms))
    # ---- model comparison
    inside = doc > -math.inf
    if method == "cdf" and fam in SHAPE_PARAMS and not cell_suffix.startswith("/int-shape"):
        # non-integer shapes: the cdf is tied by the oracle only (quadrature of the documented density); no Coq-side value
        cases.append(Case(expr="true", kind="DECISION", meta=meta, cell=cell + "/oracle-only", impl_fail=fail, signature=sig, trivial=True))
        stats["scalar"] = stats.get("scalar", 0) + 1
        return
    if method == "cdf" and fam != "Cauchy" and obs is not None and math.isfinite(obs):
        cases.append(Case(expr=cdf_goal(fam, P, x, n, obs), tac="c04_int.", kind="ENCLOSURE", meta=meta, cell=cell, impl_fail=fail, signature=sig))
        stats["scalar"] = stats.get("scalar", 0) + 1
        return
    if method == "cdf" or (inside and obs is not None and math.isfinite(obs)):
        m = model_expr(fam, P, x, n, state, method)
        if method == "pdf":
            m = "(exp %s)" % m
        expr, tac = encl(m, obs, rel=method not in ("logpdf", "logd"), tol=TOL if method in ("logpdf", "logd") else 10 * TOL)
        cases.append(Case(expr=expr, tac=tac, kind="ENCLOSURE", meta=meta, cell=cell, impl_fail=fail, signature=sig))
    else:
        is_neginf = obs is not None and obs == -math.inf
        if method in ("pdf", "pdf_own"):
            is_neginf = obs == 0.0
        expr = "check_dec (%s) %s" % (outside_expr(fam, P, x), cbool(is_neginf))
        cases.append(Case(expr=expr, kind="DECISION", meta=meta, cell=cell + "/outside", impl_fail=fail, signature=sig))
    stats["scalar"] = stats.get("scalar", 0) + 1




# ------------------------------------------------------------------------------------------------
# n-dimensional normalisation: the mass of a box (theorems C04_*_box_mass / C04_*_normalised_nd)
# ------------------------------------------------------------------------------------------------
def box_integral(f, box, pts):
    """iterated adaptive quadrature (first coordinate outermost, as in is_box_int) of f : list -> float over the box"""
    from scipy.integrate import quad
    def rec(prefix, k):
        if k == len(box):
            return f(prefix)
        a, b = box[k]
        p = [q for q in pts[k] if a < q < b] or None
        return quad(lambda t: rec(prefix + [t], k + 1), a, b, points=p, epsabs=1e-13, epsrel=1e-11, limit=100)[0]
    return rec([], 0)


def gamma_int_cdf(k, r, x):
    """1 - exp(-r x) sum_{i<=k} (r x)^i / i!  (theorem C04_gamma_cdf_closed_form), plain Python"""
    y, term, tot = r * x, 1.0, 1.0
    for i in range(1, k + 1):
        term *= y / i
        tot += term
    return 1.0 - math.exp(-y) * tot


def normal_factor(m, sd, e, sg):
    """Normal cdf factor normal_cdf1 (m, sd, e) through the standardised point computed by the model over Q (theorem
    C04_normal_cdf_standardised; Interval's `integral` wants literal bounds): (Coq term, value, sign, side condition)"""
    z = (frac(e) - frac(m)) / frac(sd)
    pre = "(ql_eqb (normal_zq %s %s %s) %s = true)" % (cql([m]), cql([sd]), cql([e]), cql([z]))
    return ("(normal_cdf_z [%s]%%list)" % cr(z), 0.5 * (1 + math.erf(float(z) / math.sqrt(2))), sg, pre)


def box_spec(rng, fam, P, n):
    """the box of the theorem for this family, the 1-d factors of its mass as (Coq expression of a cdf-type term, float value, sign) per
    coordinate, and the breakpoints of the density"""
    g = lambda k, i: bc(P[k], n)[i]
    box, factors, pts = [], [], []
    Phi = lambda z: 0.5 * (1 + math.erf(z / math.sqrt(2)))
    T = rng.choice([2.0, 2.5, 3.0, 4.0])
    for i in range(n):
        if fam in ("Normal", "Gaussian"):
            m, sd = g("mean", i), g("std", i)
            a = m + rng.randint(-20, -1) / 8 * sd
            b = m + rng.randint(1, 20) / 8 * sd
            fs = []
            for e, sg in ((b, 1), (a, -1)):
                fs.append(normal_factor(m, sd, e, sg))
            box.append((a, b)); factors.append(fs); pts.append([])
        elif fam == "Cauchy":
            l, sc = g("location", i), g("scale", i)
            a, b = l - rng.randint(1, 24) / 4, l + rng.randint(1, 24) / 4
            fs = [("(cauchy_cdf1 (%s, %s, %s))" % (cr(l), cr(sc), cr(e)), math.atan((e - l) / sc) / math.pi + 0.5, sg) for e, sg in ((b, 1), (a, -1))]
            box.append((a, b)); factors.append(fs); pts.append([l])
        elif fam == "Laplace":
            l, sc = g("location", i), P["scale"][0]
            box.append((l - T, l + T)); pts.append([l])
            factors.append([("(1 - exp (- %s / %s))" % (cr(T), cr(sc)), 1 - math.exp(-T / sc), 1)])
        elif fam == "Uniform":
            box.append((g("low", i), g("high", i))); pts.append([]); factors.append([("1", 1.0, 1)])
        elif fam == "Gamma":
            k, r = int(g("shape", i)) - 1, g("rate", i)
            box.append((0.0, T)); pts.append([])
            factors.append([("(gamma_int_cdf1 %s %s %s)" % (cnat(k), cr(r), cr(T)), gamma_int_cdf(k, r, T), 1)])
        elif fam == "InverseGamma":
            k, l, sc = int(g("shape", i)) - 1, g("location", i), g("scale", i)
            box.append((l + 1 / T, l + T)); pts.append([])
            factors.append([("(gamma_int_cdf1 %s %s %s)" % (cnat(k), cr(sc), cr(T)), gamma_int_cdf(k, sc, T), 1),
                            ("(gamma_int_cdf1 %s %s (/ %s))" % (cnat(k), cr(sc), cr(T)), gamma_int_cdf(k, sc, 1 / T), -1)])
        elif fam == "Beta":
            box.append((0.0, 1.0)); pts.append([]); factors.append([("1", 1.0, 1)])
        elif fam == "Lognormal":
            m, sd = g("mean", i), math.sqrt(g("cov", i))
            v = T / 2 + 0.0625           # (+-v - m) / sd is never 0: Interval's `integral` wants a non-degenerate interval
            box.append((math.exp(-v), math.exp(v))); pts.append([])
            factors.append([normal_factor(m, sd, e, sg) for e, sg in ((v, 1), (-v, -1))])
    return box, factors, pts


def boxmass_build(cuqi, meta):
    fam, P, n = meta["family"], meta["params"], meta["dim"]
    if fam == "Gaussian":
        form = meta["form"]
        var = [sd * sd for sd in P["std"]]
        val = {"cov": var, "prec": [1 / v for v in var], "sqrtcov": [math.sqrt(v) for v in var], "sqrtprec": [1 / math.sqrt(v) for v in var]}[form]
        val = float(val[0]) if len(val) == 1 else (np.array(val) if meta["ifaces"][0] != "densediag" else np.diag(val))
        mean = float(P["mean"][0]) if len(P["mean"]) == 1 else np.array(P["mean"], dtype=float)
        return cuqi.distribution.Gaussian(mean, **{form: val}, geometry=n)
    dist, _ = build_dist(cuqi, fam, P, n, meta["ifaces"], "direct")
    return dist


def boxmass_observe(cuqi, meta):
    dist = boxmass_build(cuqi, meta)
    with warnings.catch_warnings():
        warnings.simplefilter("ignore")
        with np.errstate(all="ignore"):
            if meta["through"] == "pdf":
                f = lambda xs: float(np.asarray(dist.pdf(np.array(xs, dtype=float))).ravel()[0])
            else:
                f = lambda xs: math.exp(float(np.asarray(dist.logpdf(np.array(xs, dtype=float))).ravel()[0]))
            return float(box_integral(f, meta["box"], meta["breakpoints"]))


def boxmass_oracle(meta, obs):
    """the property clause "the density integrates to one over the support", on boxes: the integral of the implementation's density over
    the box equals the product of the documented 1-d masses (closed forms, plain Python)"""
    expected = 1.0
    for fs in meta["factor_values"]:
        expected *= sum(sg * v for v, sg in fs)
    fail, sig = None, ""
    if obs is None or not close_rel(obs, expected, 1e-7):
        fam, P, n = meta["family"], meta["params"], meta["dim"]
        pred, dsig = DEFECT_CLASS.get(fam, (None, None))
        fail = "%s(%s) dim %d: the integral of %s over the box %s is %r, the documented density has mass %r there" % (fam, P, n, meta["through"], meta["box"], obs, expected)
        sig = dsig if pred is not None and pred(P, n, "pdf") else "%s.normalisation|%s" % (fam, meta["forms"])
    return fail, sig, expected


def box_mass_cases(ctx, cuqi, state, cases, stats):
    """NORMALISATION IN n DIMENSIONS (theorems C04_normal_box_mass, C04_cauchy_box_mass, C04_laplace_normalised_nd, C04_uniform_normalised_nd,
    C04_gamma_int_normalised_nd, C04_beta_int_normalised_nd, C04_invgamma_int_normalised_nd, C04_lognormal_box_mass): the implementation's
    pdf / exp(logpdf) is integrated numerically over the box of the theorem (dims 1, 2; thorough 3) and compared with the theorem's mass,
    whose 1-d factors (integrals of the documented densities / closed forms) are enclosed in Coq one by one."""
    rng = ctx.rng
    counter = 0
    fams = ["Normal", "Gaussian", "Cauchy", "Laplace", "Uniform", "Gamma", "InverseGamma", "Beta", "Lognormal"]
    for fam in fams:
        base = "Normal" if fam == "Gaussian" else fam
        names, positive, scalar_only = FAMILIES[base]
        allS = "S" * len(names)
        allV = "".join("S" if nm in scalar_only else "V" for nm in names)
        cfgs = [(1, allS), (2, allV), (2, allS)] + ([(3, allV), (2, "SV"[::1] if len(names) == 2 and not scalar_only else allV)] if ctx.thorough else [])
        for n, forms in cfgs:
            if fam == "Lognormal" and n > 1 and forms[0] == "S":
                forms = "V" + forms[1:]
            counter += 1
            P = draw_params(rng, base, forms, n)
            for nm in SHAPE_PARAMS.get(fam, []):
                P[nm] = [float(rng.randint(1, 4)) for _ in P[nm]]
            if fam == "Lognormal":
                P["cov"] = [(rng.randint(2, 12) / 8) ** 2 for _ in P["cov"]]
            ifl = RAW_FAMILIES.get(fam, IFACES)
            ifaces = [ifl[(counter + j) % len(ifl)] for j in range(len(names))]
            meta = {"kind": "boxmass", "family": fam, "params": P, "dim": n, "forms": forms, "ifaces": ifaces, "through": ["pdf", "logpdf"][counter % 2]}
            if fam == "Gaussian":
                meta["form"] = ["cov", "prec", "sqrtcov", "sqrtprec"][counter % 4]
                meta["ifaces"] = ["densediag" if (forms[1] == "V" and counter % 2) else "vector"]
                if forms[1] == "V":
                    P["std"] = [rng.choice([0.5, 0.75, 1.0, 1.5, 2.0]) for _ in P["std"]]
            box, factors, pts = box_spec(rng, fam, P, n)
            meta.update({"box": [list(b) for b in box], "breakpoints": pts, "factor_values": [[(f[1], f[2]) for f in fs] for fs in factors]})
            obs = boxmass_observe(cuqi, meta)
            meta["observed"] = obs
            fail, sig, expected = boxmass_oracle(meta, obs)
            eps = Fraction(1, 10 ** 9)
            parts, prod, nf = [], Fraction(1), 0
            for fs in factors:
                tot = Fraction(0)
                for fct in fs:
                    e, v, sg = fct[0], fct[1], fct[2]
                    q = frac(float(v))
                    if len(fct) > 3:
                        parts.append(fct[3])
                    if e != "1":
                        parts.append("(Rabs (%s - %s) <= %s)%%R" % (e, cr(q), cr(eps)))
                        nf += 1
                    tot += sg * q
                prod *= tot
            v = frac(obs) if obs is not None and math.isfinite(obs) else Fraction(-1)
            parts.append("(Rabs (%s - %s) <= %s)%%R" % (cr(prod), cr(v), cr(Fraction(1, 10 ** 7) * abs(v) + nf * eps)))
            cell = "%s/%s/box-mass/%s" % (fam + ("." + meta["form"] if fam == "Gaussian" else ""), forms + ("1" if n == 1 else "n"), meta["through"])
            cases.append(Case(expr=" /\\ ".join(parts), tac="c04_int.", kind="ENCLOSURE", meta=meta, cell=cell, impl_fail=fail, signature=sig))
            stats["boxmass"] = stats.get("boxmass", 0) + 1


# ------------------------------------------------------------------------------------------------
# exact linear algebra in Fractions (certificates for the model, and the independent oracle)
# ------------------------------------------------------------------------------------------------
def fr_mat(M):
    return [[frac(v) for v in r] for r in M]


def fr_T(M):
    return [list(c) for c in zip(*M)]


def fr_mv(A, x):
    return [sum((a * b for a, b in zip(r, x) if a != 0 and b != 0), Fraction(0)) for r in A]


def fr_mm(A, B):
    Bt = fr_T(B)
    return [[sum((a * b for a, b in zip(r, c) if a != 0 and b != 0), Fraction(0)) for c in Bt] for r in A]


def fr_dot(a, b):
    return sum((u * v for u, v in zip(a, b)), Fraction(0))


def fr_solve_det(A, b):
    """(x, det A) with A x = b by Gaussian elimination over the rationals; (None, 0) when singular"""
    n = len(A)
    M = [list(r) + [bi] for r, bi in zip(A, b)]
    det = Fraction(1)
    for c in range(n):
        p = next((r for r in range(c, n) if M[r][c] != 0), None)
        if p is None:
            return None, Fraction(0)
        if p != c:
            M[c], M[p] = M[p], M[c]
            det = -det
        piv = M[c][c]
        det *= piv
        for r in range(c + 1, n):
            if M[r][c] != 0:
                f = M[r][c] / piv
                M[r] = [a - f * b_ if b_ != 0 else a for a, b_ in zip(M[r], M[c])]
    x = [Fraction(0)] * n
    for r in range(n - 1, -1, -1):
        x[r] = (M[r][n] - sum((M[r][k] * x[k] for k in range(r + 1, n) if M[r][k] != 0), Fraction(0))) / M[r][r]
    return x, det


# ------------------------------------------------------------------------------------------------
# Gaussian: 4 parameterisations x storage kinds
# ------------------------------------------------------------------------------------------------
GFORMS = {"cov": "FCov", "prec": "FPrec", "sqrtcov": "FSqrtcov", "sqrtprec": "FSqrtprec"}
GKINDS = {"scalar": "KScalar", "vector": "KVector", "densediag": "KDenseDiag", "densefull": "KDenseFull",
          "spdiag": "KSpDiag", "spfull": "KSpFull", "spdiabands": "KSpDiaBands"}
SIG_SQRTCOV = "Gaussian.sqrtcov|dense-non-normal:RRt-instead-of-RtR"
SIG_DIABANDS = "Gaussian.sqrtprec|sparse-DIA-with-bands:logdet-over-all-stored-entries"
SIG_LOGDET = "Gaussian|dense-full:log(det)-leaves-the-float-range"
SIG_SYMTOL = "Gaussian.cov/prec|symmetry-check:absolute-tolerance-accepts-non-symmetric-small-matrix"


def fr_inv(A):
    n = len(A)
    cols = []
    for j in range(n):
        xj, det = fr_solve_det(A, [Fraction(int(i == j)) for i in range(n)])
        if xj is None:
            return None
        cols.append(xj)
    return fr_T(cols)


def fr_lsym(A):
    """the symmetric matrix a lower-triangle LAPACK routine sees"""
    n = len(A)
    return [[A[i][j] if j <= i else A[j][i] for j in range(n)] for i in range(n)]


def g_dense(meta):
    """dense array of the matrix the input denotes (for diagonal kinds: the diagonal matrix)"""
    gk, P, n = meta["gkind"], meta["P"], meta["dim"]
    if gk == "scalar":
        return [[P[0] if i == j else 0.0 for j in range(n)] for i in range(n)]
    if gk in ("vector", "spdiag"):
        return [[P[i] if i == j else 0.0 for j in range(n)] for i in range(n)]
    if gk == "linop":
        return P
    if gk == "spdiabands":
        import scipy.sparse as spa
        return spa.dia_matrix((np.array(meta["dia_data"], dtype=float), meta["dia_offsets"]), shape=(n, n)).toarray().tolist()
    return P


def g_param(meta):
    import scipy.sparse as spa
    gk, P, n, st = meta["gkind"], meta["P"], meta["dim"], meta.get("storage", "array")
    if gk == "scalar":
        v = float(P[0])
        return {"float": v, "npfloat": np.float64(v), "list": [v], "array": np.array([v])}[st]
    if gk == "vector":
        return np.array(P, dtype=float) if st != "list" else [float(v) for v in P]
    if gk in ("densediag", "densefull"):      # declaration styles of a dense matrix: ndarray, nested list, numpy.matrix
        if st == "nested-list":
            return [[float(v) for v in r] for r in P]
        if st == "matrix":
            return np.matrix(P, dtype=float)
        if st == "fortran":
            return np.asfortranarray(np.array(P, dtype=float))
        if st == "view":              # non-contiguous view into a larger array
            big = np.full((2 * n + 1, 2 * n + 1), np.nan)
            big[1::2, 1::2] = np.array(P, dtype=float)
            return big[1::2, 1::2]
        if st == "readonly":
            A = np.array(P, dtype=float)
            A.setflags(write=False)
            return A
        return np.array(P, dtype=float)
    if gk == "spdiag":
        M = spa.diags(np.array(P, dtype=float))
        return M if st == "dia" else M.tocsr()
    if gk == "spfull":
        return spa.csr_matrix(np.array(P, dtype=float)) if st == "csr" else spa.csc_matrix(np.array(P, dtype=float))
    if gk == "spdiabands":
        return spa.dia_matrix((np.array(meta["dia_data"], dtype=float), meta["dia_offsets"]), shape=(n, n))
    if gk == "linop":
        import scipy.sparse.linalg as spl
        op = spl.aslinearoperator(np.array(P, dtype=float))
        if meta.get("linop_logdet") is not None:
            op.logdet = np.float64(meta["linop_logdet"])     # (a plain Python float makes logpdf raise AttributeError: .flatten())
        return op
    raise ValueError(gk)


def g_observe(cuqi, meta):
    """drive the implementation: {"outcome": value | refused_init | refused_logpdf, "value", "rank", "err"}"""
    import io, contextlib
    n, form, via = meta["dim"], meta["form"], meta.get("via", "direct")
    mean = float(meta["mean"][0]) if len(meta["mean"]) == 1 else np.array(meta["mean"], dtype=float)
    val = g_param(meta)
    G = cuqi.distribution.Gaussian
    if "thr" in meta and not meta.get("_thr_set"):
        old_thr = cuqi.config.MIN_DIM_SPARSE
        try:
            cuqi.config.MIN_DIM_SPARSE = meta["thr"]
            return g_observe(cuqi, dict(meta, _thr_set=True))
        finally:
            cuqi.config.MIN_DIM_SPARSE = old_thr
    with warnings.catch_warnings():
        warnings.simplefilter("ignore")
        with np.errstate(all="ignore"), contextlib.redirect_stdout(io.StringIO()):
            try:
                if via == "direct":
                    d = G(mean, **{form: val}, geometry=n)
                elif via == "cond_mean":
                    d = G(None, **{form: val}, geometry=n)(mean=mean)
                elif via == "callable":     # parameter = s_ * (value / 2), conditioned on s_ = 2 (exact in floats)
                    half = val * 0.5 if not isinstance(val, list) else np.array(val, dtype=float) * 0.5
                    if isinstance(half, list):
                        half = np.array(half)
                    d = G(mean, **{form: (lambda s_: s_ * half)}, geometry=n)(s_=2.0)
                elif via == "logd_mean":
                    d = G(None, **{form: val}, geometry=n)
                elif via == "siblings":
                    # several instances conditioned from one conditional Gaussian, all created before the evaluated one is used
                    sb = meta["siblings"]
                    basev = g_param(dict(meta, P=sb["base_P"]))
                    if isinstance(basev, list):
                        basev = np.array(basev, dtype=float)
                    if sb["param"] == "mean":
                        parent = G(None, **{form: val}, geometry=n) if sb["style"] == "none" else G(lambda m_: m_, **{form: val}, geometry=n)
                        mk = lambda v: parent(mean=np.array(v, dtype=float)) if sb["style"] == "none" else parent(m_=np.array(v, dtype=float))
                    elif sb["style"] == "none":          # only cov can be left open
                        parent = G(mean, cov=None, geometry=n)
                        mk = lambda v: parent(cov=v * basev)
                    else:
                        parent = G(mean, **{form: (lambda s_: s_ * basev)}, geometry=n)
                        mk = lambda v: parent(s_=v)
                    sibs = [mk(v) for v in sb["values"]]
                    for k, o in enumerate(sibs):      # the later siblings are evaluated first
                        if k > sb["index"]:
                            o.logpdf(np.array(meta["x"], dtype=float))
                    d = sibs[sb["index"]]
                else:
                    raise ValueError(via)
            except (ValueError, TypeError, NotImplementedError, np.linalg.LinAlgError) as e:
                return {"outcome": "refused_init", "err": repr(e)[:200]}
            x = np.array(meta["x"], dtype=float)
            if meta.get("x_style") == "int" and all(float(v).is_integer() for v in meta["x"]):
                x = np.array([int(v) for v in meta["x"]])
            elif meta.get("x_style") == "view":
                big = np.full(2 * n + 1, np.nan)
                big[1::2] = x
                x = big[1::2]
            elif meta.get("x_style") == "readonly":
                x.setflags(write=False)
            if "reassign_to" in meta:           # object reuse: the parameter is re-assigned on the live object, then evaluated
                d.logpdf(x)
                setattr(d, form, g_param(dict(meta, P=meta["reassign_to"])))
                if "reassign_mean" in meta:
                    d.mean = np.array(meta["reassign_mean"], dtype=float)
            try:
                m = meta["method"]
                if via == "logd_mean":
                    v = d.logd(mean, x)
                    d = d(mean=mean)
                elif m == "logupdf":
                    v = d._logupdf(x)
                else:
                    v = getattr(d, m)(x)
            except NotImplementedError as e:
                return {"outcome": "refused_logpdf", "err": repr(e)[:200]}
            v = np.asarray(v).ravel()
            out = {"outcome": "value", "value": float(v[0]) if v.size == 1 else None, "rank": int(d.rank)}
            if "x2" in meta:      # logpdf - _logupdf at a second point (the un-normalised density differs by a constant)
                x2 = np.array(meta["x2"], dtype=float)
                out["const1"] = float(np.ravel(d.logpdf(x))[0] - np.ravel(d._logupdf(x))[0])
                out["const2"] = float(np.ravel(d.logpdf(x2))[0] - np.ravel(d._logupdf(x2))[0])
            return out


def g_documented(meta):
    """log of the documented Gaussian density from exact rationals: (det cov, (x-m)^T cov^-1 (x-m)) per documented reading
         cov=M: cov = M;  prec=M: cov = M^-1;  sqrtcov=M: cov = M^T M;  sqrtprec=M: cov = (M^T M)^-1"""
    n, form = meta["dim"], meta["form"]
    M = fr_mat(g_dense(meta))
    d = [frac(a) - frac(b) for a, b in zip(meta["x"], bc(meta["mean"], n))]
    if form in ("cov", "sqrtcov"):
        C = M if form == "cov" else fr_mm(fr_T(M), M)
        y, det = fr_solve_det(C, d)
        quad = fr_dot(d, y)
    else:
        P = M if form == "prec" else fr_mm(fr_T(M), M)
        _, detP = fr_solve_det(P, d)
        det = 1 / detP
        quad = fr_dot(d, fr_mv(P, d))
    logdet = math.log(det.numerator) - math.log(det.denominator)
    lp = -0.5 * (n * LOG2PI + logdet) - 0.5 * float(quad)
    return {"logpdf": lp, "logd": lp, "pdf": math.exp(lp) if lp < 700 else math.inf, "logupdf": -0.5 * float(quad)}


def g_code_dcov(meta):
    """determinant of the covariance as the CODE forms it (exact)"""
    Mf = fr_mat(g_dense(meta))
    form = meta["form"]
    S = Mf if form in ("cov", "prec") else fr_mm(Mf, fr_T(Mf))
    det = fr_solve_det(S, [Fraction(0)] * len(S))[1]
    return det if form in ("cov", "sqrtcov") else 1 / det


def log2_frac(q):
    return q.numerator.bit_length() - q.denominator.bit_length()


def g_det_out_of_range(meta):
    """dense branch (dim <= MIN_DIM_SPARSE): numpy.linalg.det of the matrix is far outside the binary64 range"""
    import cuqi
    if meta["gkind"] != "densefull" or meta["dim"] > int(cuqi.config.MIN_DIM_SPARSE):
        return False
    return abs(log2_frac(g_code_dcov(meta))) > 1100


def g_is_normal(meta):
    M = fr_mat(g_dense(meta))
    return fr_mm(M, fr_T(M)) == fr_mm(fr_T(M), M)


def g_oracle(meta, ob):
    """(fail, signature) of the property on the implementation for one Gaussian evaluation"""
    gk, form = meta["gkind"], meta["form"]
    if meta.get("malformed"):
        if ob["outcome"] == "value":
            M = g_dense(meta)
            asym = max(abs(M[i][j] - M[j][i]) for i in range(len(M)) for j in range(len(M)))
            # grossly non-symmetric, yet every |a_ij - a_ji| is below numpy.allclose's ABSOLUTE tolerance 1e-8
            sig = SIG_SYMTOL if (meta["malformed"] == "non-symmetric" and asym <= 1e-8) else "Gaussian.%s|malformed-accepted:%s" % (form, meta["malformed"])
            return ("Gaussian(%s=<%s %s>) is not a valid input (%s, max |a_ij - a_ji| = %.3g) but was accepted and %s = %r" % (
                    form, gk, M if meta["dim"] <= 5 else "...", meta["malformed"], asym, meta["method"], ob.get("value")), sig)
        return None, ""
    if meta.get("nonsym_within_rtol") and ob["outcome"] == "value":
        # asymmetry at rounding-noise level (relative 2^-20 < rtol): accepted by design; the value must be that of the symmetrised matrix
        M = g_dense(meta)
        Ms = [[(M[i][j] + M[j][i]) / 2 for j in range(len(M))] for i in range(len(M))]
        exp = g_documented(dict(meta, P=Ms))[meta["method"]]
        if not close(ob["value"], exp, 1e-4):
            return ("Gaussian(%s=<nearly symmetric %s>).%s = %r, symmetrised matrix gives %r" % (form, M, meta["method"], ob["value"], exp),
                    "Gaussian.%s|nearly-symmetric" % form)
        return None, ""
    if ob["outcome"] != "value":
        if gk in ("spfull", "spdiabands") or meta.get("nonsym_within_rtol"):
            return None, ""                      # refusing a sparse full matrix without cholmod / a not exactly symmetric matrix is not a wrong number
        return ("Gaussian(%s=<%s>, dim %d).%s is refused (%s: %s) although the documented density is defined" % (
                form, gk, meta["dim"], meta["method"], ob["outcome"], ob.get("err")), "Gaussian.%s|%s:refused" % (form, gk))
    doc = g_documented(meta)
    exp = doc[meta["method"]]
    v = ob["value"]
    if v is None or not (close_rel(v, exp, 1e-8) if meta["method"] == "pdf" else close(v, exp)):
        if gk == "spdiabands" and form == "sqrtprec":
            sig = SIG_DIABANDS
        elif gk == "densefull" and v is not None and math.isinf(v) and g_det_out_of_range(meta):
            sig = SIG_LOGDET
        elif form == "sqrtcov" and gk in ("densefull", "spfull") and not g_is_normal(meta):
            sig = SIG_SQRTCOV
        else:
            sig = "Gaussian.%s|%s:%s" % (meta["method"], form, gk)
        return ("Gaussian(mean=%s, %s=<%s %s>, dim %d).%s(%s) = %r but the documented density (cov = %s) gives %r" % (
                meta["mean"], form, gk, g_dense(meta) if meta["dim"] <= 5 else "...", meta["dim"], meta["method"], meta["x"], v,
                {"cov": "M", "prec": "M^-1", "sqrtcov": "M^T M", "sqrtprec": "(M^T M)^-1"}[form], exp), sig)
    if ob.get("rank") is not None and ob["rank"] != meta["dim"]:
        return "Gaussian rank %r for a positive definite input of dim %d" % (ob["rank"], meta["dim"]), "Gaussian.rank|%s:%s" % (form, gk)
    if "const1" in ob and not close(ob["const1"], ob["const2"], 1e-8):
        return ("Gaussian logpdf - _logupdf depends on x: %r at %s, %r at %s" % (ob["const1"], meta["x"], ob["const2"], meta["x2"]),
                "Gaussian._logupdf|not-a-constant:%s:%s" % (form, gk))
    return None, ""


def g_effective(meta):
    """the parameters the evaluation refers to: after a re-assignment on the live object, the re-assigned ones"""
    if "reassign_to" not in meta:
        return meta
    eff = {k: v for k, v in meta.items() if k not in ("reassign_to", "reassign_mean")}
    eff["P"] = meta["reassign_to"]
    eff["mean"] = meta.get("reassign_mean", meta["mean"])
    eff["constructed_with"] = meta["P"]
    return eff


def g_case(ctx, cuqi, state, cases, stats, meta, cell):
    ob = g_observe(cuqi, meta)
    replay_meta = meta
    meta = dict(g_effective(meta), observed=ob)
    if "reassign_to" in replay_meta:
        meta["replay_meta"] = replay_meta
    fail, sig = g_oracle(meta, ob)
    n, form, gk = meta["dim"], meta["form"], meta["gkind"]
    F, K = GFORMS[form], GKINDS[gk]
    M = g_dense(meta)
    exact_sym = fr_mat(M) == fr_T(fr_mat(M))
    symexpr = "true" if (gk != "densefull" or (exact_sym and n > 8)) else "(np_allclose_tr %s %s)" % (cnat(n), cqm(M))
    model_out = "(gauss_outcome %s %s %s %s)" % (cbool(state["dia_fixed"]), F, K, symexpr)
    stats["gaussian"] = stats.get("gaussian", 0) + 1
    if ob["outcome"] != "value":
        obs_out = {"refused_init": "OutRefusedInit", "refused_logpdf": "OutRefusedLogpdf"}[ob["outcome"]]
        cases.append(Case(expr="gout_eqb %s %s" % (model_out, obs_out), kind="DECISION", meta=meta, cell=cell + "/refused",
                          impl_fail=fail, signature=sig))
        return
    obs_out = "OutBandLogdet" if (gk == "spdiabands" and form == "sqrtprec") else "OutValue"
    dec = "gout_eqb %s %s" % (model_out, obs_out)
    v = ob["value"]
    method = meta["method"]
    xs, mean = meta["x"], meta["mean"]
    d = [frac(a) - frac(b) for a, b in zip(xs, bc(mean, n))]
    if gk == "spdiabands" and form == "sqrtprec":
        data = [a for row in meta["dia_data"] for a in row]
        z = fr_mv(fr_mat(M), d)
        quad = fr_dot(z, z)
        if v is None or not math.isfinite(v):
            expr = "%s && check_dec (band_has_zero %s) %s" % (dec, cql(data), cbool(v == -math.inf or (method == "pdf" and v == 0.0)))
            cases.append(Case(expr=expr, kind="DECISION", meta=meta, cell=cell, impl_fail=fail, signature=sig))
            return
        cert = "%s && negb (band_has_zero %s) && Qeq_bool (let z := qmv %s %s in qdotq z z) %s" % (dec, cql(data), cqm(M), cql(d), cq(quad))
        m = "(gauss_canon %s (gauss_band_logdet %s) %s)" % (cnat(n), crl(data), cr(quad))
    elif gk in ("scalar", "vector", "densediag", "spdiag"):
        p = meta["P"] if gk in ("scalar", "vector", "spdiag") else [M[i][i] for i in range(n)]
        cert = dec + " && Nat.eqb %s %s" % (cnat(ob["rank"]), cnat(n))
        if method == "logupdf":
            m = "(gauss_logupdf (gd_quad %s %s %s %s))" % (F, crl(p), crl(mean), crl(xs))
        else:
            m = "(gauss_diag_logpdf %s %s %s %s %s %s)" % (F, cbool(gk == "scalar"), cnat(n), crl(p), crl(mean), crl(xs))
    elif gk == "densefull" and form in ("cov", "prec") and not exact_sym:
        # accepted although not symmetric: det of the matrix as given, cholesky of the LOWER triangle of inv(cov) / prec
        Mf = fr_mat(M)
        _, det = fr_solve_det(Mf, d)
        if form == "cov":
            C = fr_inv(Mf)
            dcov, quad = det, fr_dot(d, fr_mv(fr_lsym(C), d))
        else:
            C = []
            dcov, quad = 1 / det, fr_dot(d, fr_mv(fr_lsym(Mf), d))
        cert = "%s && gauss_nonsym_cert %s %s %s %s %s %s %s" % (dec, F, cnat(n), cqm(M), cqm(C) if C else "[]", cql(d), cq(dcov), cq(quad))
        m = "(gauss_logupdf %s)" % cr(quad) if method == "logupdf" else "(gauss_canon %s (ln %s) %s)" % (cnat(n), cr(dcov), cr(quad))
    else:   # dense full (the sparse-full kinds never reach a value)
        Mf = fr_mat(M)
        if form in ("cov", "sqrtcov"):
            S = Mf if form == "cov" else fr_mm(Mf, fr_T(Mf))          # the covariance the CODE forms
            y, det = fr_solve_det(S, d)
            dcov, quad = det, fr_dot(d, y)
        else:
            S = Mf if form == "prec" else fr_mm(Mf, fr_T(Mf))
            _, det = fr_solve_det(S, d)
            dcov = 1 / det
            y = []
            z = fr_mv(Mf, d)
            quad = fr_dot(d, z) if form == "prec" else fr_dot(z, z)
        cert = "%s && gauss_dense_cert %s %s %s %s %s %s %s %s" % (dec, F, cnat(n), cqm(M), cql(y), cql(d), cq(dcov), cq(quad), cnat(ob["rank"]))
        l2 = abs(log2_frac(dcov))
        if n <= state["thr"] and 1000 <= l2 <= 1100:
            raise RuntimeError("generator: determinant in the boundary zone of the float range (2^%d)" % log2_frac(dcov))
        if n <= state["thr"] and l2 > 1100 and not state["logdet_fixed"] and method in ("logpdf", "logd", "pdf"):
            # log(numpy.linalg.det(.)) is -inf / +inf: logpdf = +inf for a tiny determinant of the covariance, -inf for a huge one
            pinf = v is not None and (v == math.inf)
            ninf = v is not None and (v == -math.inf if method != "pdf" else v == 0.0)
            expr = "%s && check_dec (det_underflow %s) %s && check_dec (det_overflow %s) %s" % (cert, cq(dcov), cbool(pinf), cq(dcov), cbool(ninf))
            cases.append(Case(expr=expr, kind="DECISION", meta=meta, cell=cell, impl_fail=fail, signature=sig))
            return
        if method == "logupdf":
            m = "(gauss_logupdf %s)" % cr(quad)
        else:
            m = "(gauss_canon %s (ln %s) %s)" % (cnat(n), cr(dcov), cr(quad))
    if method == "pdf":
        m = "(exp %s)" % m
    if v is None or not math.isfinite(v):
        cases.append(Case(expr="false", kind="DECISION", meta=meta, cell=cell, impl_fail=fail or "non-finite value %r" % v,
                          signature=sig or "Gaussian.%s|non-finite" % method))
        return
    expr, tac = encl(m, v, cert="(%s)" % cert, rel=(method == "pdf"), tol=10 * TOL if method == "pdf" else TOL)
    cases.append(Case(expr=expr, tac=tac, kind="ENCLOSURE", meta=meta, cell=cell, impl_fail=fail, signature=sig))


SIG_CDF_SCALAR_MEAN = "Gaussian.cdf|scalar-mean:dim>1:raises"
SIG_CDF_SPARSE = "Gaussian.cdf|sparse-cov:raises"


def mvn_cdf_ref(mu, S, x):
    """independent reference for the 1-, 2- and 3-d Gaussian cdf: Phi in 1-d; otherwise condition on the first coordinate,
    P = int_{-inf}^{x1} phi(t; mu1, s11) P_rest(x_rest | X1 = t) dt   (nested quadrature, math.erf at the bottom)"""
    from scipy.integrate import quad
    Phi = lambda z: 0.5 * (1 + math.erf(z / math.sqrt(2)))
    n = len(x)
    if n == 1:
        return Phi((x[0] - mu[0]) / math.sqrt(S[0][0]))
    s11 = S[0][0]
    Sc = [[S[i][j] - S[i][0] * S[0][j] / s11 for j in range(1, n)] for i in range(1, n)]       # conditional covariance
    def f(t):
        mc = [mu[i] + S[i][0] / s11 * (t - mu[0]) for i in range(1, n)]
        return math.exp(-(t - mu[0]) ** 2 / (2 * s11)) / math.sqrt(2 * math.pi * s11) * mvn_cdf_ref(mc, Sc, x[1:])
    lo = mu[0] - 12 * math.sqrt(s11)
    if x[0] <= lo:
        return 0.0
    tol = 1e-13 if n == 2 else 1e-9
    return quad(f, lo, x[0], epsabs=tol, epsrel=tol, limit=400)[0]


def to_dense_list(A):
    import scipy.sparse as spa
    if spa.issparse(A):
        A = A.toarray()
    return np.asarray(A, dtype=float).tolist()


def gcov_observe(cuqi, meta):
    """history on ONE object: logpdf, compute_cov, logpdf again, the cov attribute afterwards, compute_cov again, cdf"""
    import io, contextlib
    n, form = meta["dim"], meta["form"]
    mean = float(meta["mean"][0]) if len(meta["mean"]) == 1 else np.array(meta["mean"], dtype=float)
    out = {}
    old_thr = cuqi.config.MIN_DIM_SPARSE
    with warnings.catch_warnings(), np.errstate(all="ignore"), contextlib.redirect_stdout(io.StringIO()):
        warnings.simplefilter("ignore")
        try:
            if "thr" in meta:
                cuqi.config.MIN_DIM_SPARSE = meta["thr"]
            d = cuqi.distribution.Gaussian(mean, **{form: g_param(meta)}, geometry=n)
            x = np.array(meta["x"], dtype=float)
            out["lp0"] = float(np.ravel(d.logpdf(x))[0])
            C = d.compute_cov()
            out["C"] = to_dense_list(C)
            out["lp1"] = float(np.ravel(d.logpdf(x))[0])
            out["cov_attr"] = to_dense_list(d.cov)
            out["C2"] = to_dense_list(d.compute_cov())
            if meta.get("cdf"):
                try:
                    out["cdf"] = float(d.cdf(x))
                except Exception as e:
                    out["cdf_err"] = repr(e)[:160]
                out["lp2"] = float(np.ravel(d.logpdf(x))[0])
        finally:
            cuqi.config.MIN_DIM_SPARSE = old_thr
    return out


def gcov_case(ctx, cuqi, state, cases, stats, meta, cell):
    ob = gcov_observe(cuqi, meta)
    meta = dict(meta, observed=ob)
    n, form, gk = meta["dim"], meta["form"], meta["gkind"]
    F = GFORMS[form]
    M = fr_mat(g_dense(meta))
    # the covariance of the distribution the logpdf denotes (code's reading of sqrtcov: M M^T), exact
    if form == "cov":
        S = M
    elif form == "prec":
        S = fr_inv(M)
    elif form == "sqrtcov":
        S = fr_mm(M, fr_T(M))
    else:
        S = fr_inv(fr_mm(fr_T(M), M))
    Sf = [[float(v) for v in r] for r in S]
    smax = max(abs(v) for r in Sf for v in r)
    fail, sig = None, ""
    def mat_close(A):
        A = np.asarray(A, dtype=float)
        if A.shape == (n,) or A.shape == (1, 1) and n > 1:
            return False
        return A.shape == (n, n) and all(abs(A[i][j] - Sf[i][j]) <= 1e-9 * smax for i in range(n) for j in range(n))
    if not mat_close(ob["C"]):
        fail = "Gaussian(%s=<%s>).compute_cov() = %s but the density is that of covariance %s" % (form, gk, ob["C"] if n <= 3 else "...", Sf if n <= 3 else "...")
        sig = "Gaussian.compute_cov|%s:%s" % (form, gk)
    elif not mat_close(ob["C2"]) or (form != "cov" and not mat_close(ob["cov_attr"])):
        fail = "Gaussian(%s=<%s>): .cov after compute_cov() / a second compute_cov() differ from the covariance of the density" % (form, gk)
        sig = "Gaussian.compute_cov|%s:%s:state" % (form, gk)
    elif not (ob["lp0"] == ob["lp1"] and ob.get("lp2", ob["lp0"]) == ob["lp0"]):
        fail = "Gaussian(%s=<%s>).logpdf changes after compute_cov()/cdf(): %r, %r, %r" % (form, gk, ob["lp0"], ob["lp1"], ob.get("lp2"))
        sig = "Gaussian.compute_cov|alters-logpdf"
    elif meta.get("cdf"):
        if "cdf" not in ob:
            fail = "Gaussian(mean=%s, %s=<%s>, dim %d).cdf raises %s" % (meta["mean"], form, gk, n, ob.get("cdf_err"))
            sig = SIG_CDF_SCALAR_MEAN if (len(meta["mean"]) == 1 and n > 1) else (SIG_CDF_SPARSE if (form == "cov" and gk == "spdiag") else "Gaussian.cdf|%s:%s:raises" % (form, gk))
        else:
            ref = mvn_cdf_ref(bc(meta["mean"], n), Sf, meta["x"])
            if not abs(ob["cdf"] - ref) <= (2e-4 if n <= 2 else 2e-3) * max(ref, 1e-3) + 2e-6:
                fail = "Gaussian(%s=<%s>).cdf(%s) = %r but the integral of its own density is %r" % (form, gk, meta["x"], ob["cdf"], ref)
                sig = "Gaussian.cdf|%s:%s" % (form, gk)
    stats["gaussian_cov"] = stats.get("gaussian_cov", 0) + 1
    expr = "gauss_cov_cert %s %s %s %s && qmat_close (1 # 1000000000) %s %s && qmat_close (1 # 1000000000) %s %s" % (
        F, cnat(n), cqm(g_dense(meta)), cqm(S), cqm(ob["C"]), cqm(S), cqm(ob["C2"]), cqm(S))
    if not (np.asarray(ob["C"]).shape == (n, n) and np.asarray(ob["C2"]).shape == (n, n)):
        expr = "false"
    cases.append(Case(expr=expr, kind="EXACT", meta=meta, cell=cell, impl_fail=fail, signature=sig))
    # 1-d cdf: also against the model's integral of the density
    if meta.get("cdf") and n == 1 and "cdf" in ob:
        P = {"mean": [meta["mean"][0]], "std": [math.sqrt(Sf[0][0])]}
        if float(frac(P["std"][0]) ** 2) == Sf[0][0] and meta["x"][0] != meta["mean"][0]:
            cases.append(Case(expr=cdf_goal("Normal", P, meta["x"], 1, ob["cdf"]), tac="c04_int.", kind="ENCLOSURE", meta=dict(meta, sub="cdf-1d"),
                              cell=cell + "/cdf-1d", impl_fail=fail, signature=sig))


def gaussian_cov_cdf_cases(ctx, cuqi, state, cases, stats):
    """Gaussian.compute_cov and Gaussian.cdf: the covariance handed to scipy's multivariate normal cdf must be the one of the
    density, for all 4 forms x shapes, both sides of the storage switch (threshold lowered through cuqi.config), magnitudes"""
    rng = ctx.rng
    pt = lambda n: [rng.randint(-16, 16) / 8 for _ in range(n)]
    counter = 0
    for n in (1, 2, 3):
        for form in GFORMS:
            for gk in (["scalar"] if n == 1 else ["scalar", "vector", "densediag", "densefull", "spdiag"]):
                for thr in ([None] if n == 1 else [None, 1]):
                    for j in ([0] if not (gk == "densefull" and thr is None) else [0, -17, 17]):
                        counter += 1
                        sd = [rng.choice([0.5, 1.0, 2.0, 4.0]) for _ in range(n)]
                        meta = {"kind": "gcov", "form": form, "gkind": gk, "dim": n, "x": pt(n), "cdf": n <= 2 or (gk in ("densefull", "vector") and j == 0),
                                "mean": pt(n) if (counter % 3 or n == 1) else pt(1)}
                        if thr:
                            meta["thr"] = thr
                        if n == 1 and meta["x"][0] == meta["mean"][0]:
                            meta["x"][0] += 0.125            # the 1-d cdf sub-cell needs a non-degenerate integral
                        if gk == "densefull":
                            U = rand_unit_lower(rng, n)
                            U[n - 1][0] = rng.choice([-1, 1])
                            D = [rng.choice([0.5, 1.0, 2.0]) for _ in range(n)]
                            L = [[Fraction(U[i][k]) * frac(D[k]) for k in range(n)] for i in range(n)]
                            Ui = inv_unit_lower(U)
                            Li = [[Ui[i][k] / frac(D[i]) for k in range(n)] for i in range(n)]
                            Mx = {"cov": fr_mm(L, fr_T(L)), "prec": fr_mm(fr_T(Li), Li), "sqrtcov": L, "sqrtprec": Li}[form]
                            meta["P"] = [[float(v) for v in r] for r in Mx]
                        else:
                            s0 = sd[:1] if gk == "scalar" else sd
                            pv = [{"cov": v * v, "prec": 1 / (v * v), "sqrtcov": v, "sqrtprec": 1 / v}[form] for v in s0]
                            meta["P"] = [[pv[i] if i == k else 0.0 for k in range(n)] for i in range(n)] if gk == "densediag" else pv
                            meta["storage"] = {"scalar": "float", "vector": "array", "spdiag": ["dia", "csr"][counter % 2], "densediag": "array"}[gk]
                        if j:
                            gscale(meta, j)
                        gcov_case(ctx, cuqi, state, cases, stats, meta, "Gaussian.compute_cov+cdf/%s/%s/%s%s%s%s" % (
                            form, gk, "1" if n == 1 else "n", "/thr=1" if thr else "", "/mag2^%d" % j if j else "", "/scalar-mean" if len(meta["mean"]) == 1 and n > 1 else ""))


def signed_perm(rng, n, want_det):
    """signed permutation matrix (orthogonal, entries 0 / +-1) with the requested determinant, never the identity"""
    while True:
        perm = list(range(n))
        rng.shuffle(perm)
        signs = [rng.choice([-1, 1]) for _ in range(n)]
        Q = [[Fraction(signs[i]) if perm[i] == j else Fraction(0) for j in range(n)] for i in range(n)]
        det = fr_solve_det(Q, [Fraction(0)] * n)[1]
        if det != want_det:
            Q[0] = [-v for v in Q[0]]
        if Q != [[Fraction(int(i == j)) for j in range(n)] for i in range(n)]:
            return Q


def gaussian_signed_factor_cases(ctx, cuqi, state, cases, stats):
    """square-root inputs whose DETERMINANT IS NEGATIVE (and |det| != 1): the density depends on the factor R only through R^T R
    (sqrtprec) resp. R R^T (sqrtcov, the code's reading), so Q R with Q^T Q = I, row-sign flips of a triangular factor, and
    indefinite symmetric roots all denote the Gaussian of the cov / prec form of the same Sigma.  Both sides of the switch."""
    rng = ctx.rng
    pt = lambda n: [rng.randint(-16, 16) / 8 for _ in range(n)]
    fl2 = lambda M: [[float(v) for v in r] for r in M]
    counter = 0
    for n in (2, 3) + ((5,) if ctx.thorough else ()):
        for thr in (None, 1):
            tag = "/thr=1" if thr else ""
            U = rand_unit_lower(rng, n)
            U[n - 1][0] = rng.choice([-1, 1])
            D = [rng.choice([0.5, 1.0, 2.0]) for _ in range(n)]
            if math.prod(D) == 1.0:
                D[0] = 2.0 * D[0] if D[0] < 2 else 0.5
            L = [[Fraction(U[i][k]) * frac(D[k]) for k in range(n)] for i in range(n)]
            Ui = inv_unit_lower(U)
            Li = [[Ui[i][k] / frac(D[i]) for k in range(n)] for i in range(n)]
            Sg = fr_mm(L, fr_T(L))
            Qm, Qp = signed_perm(rng, n, -1), signed_perm(rng, n, 1)
            odd = [[Fraction(-1 if i == j and i == 0 else int(i == j)) for j in range(n)] for i in range(n)]
            even = [[Fraction(-1 if i == j and i < 2 else int(i == j)) for j in range(n)] for i in range(n)]
            members = [("cov", "Sigma", Sg), ("prec", "Sigma^-1", fr_mm(fr_T(Li), Li)),
                       ("sqrtprec", "triangular-odd-negative-pivots", fr_mm(odd, Li)), ("sqrtprec", "triangular-even-negative-pivots", fr_mm(even, Li)),
                       ("sqrtprec", "Q*R-det-1", fr_mm(Qm, Li)), ("sqrtprec", "Q*R-det+1", fr_mm(Qp, Li)),
                       # sqrtcov: the code's reading is R R^T, invariant under R -> R Q (these are non-normal: the documented reading
                       # R^T R differs -- known finding; they still exercise the branch with a negative determinant)
                       ("sqrtcov", "R*Q-det-1", fr_mm(L, Qm)), ("sqrtcov", "R-odd-negative-pivots", fr_mm(L, odd))]
            mean, x = pt(n), pt(n)
            vals = {}
            for form, what, Mx in members:
                counter += 1
                meta = {"kind": "gaussian", "form": form, "gkind": "densefull", "dim": n, "mean": list(mean), "via": "direct",
                        "method": "logpdf", "P": fl2(Mx), "x": list(x), "storage": ["array", "nested-list", "matrix"][counter % 3]}
                if thr:
                    meta["thr"] = thr
                g_case(ctx, cuqi, state, cases, stats, meta, "Gaussian/%s/densefull-signed/%s%s" % (form, what, tag))
                vals[(form, what)] = cases[-1].meta["observed"].get("value")
            ref = vals[("cov", "Sigma")]
            bad = {k: v for k, v in vals.items() if v is None or not close(v, ref, 1e-8)}
            if bad and not cases[-1].impl_fail:
                cases[-1].impl_fail = "one Gaussian, factors differing by an orthogonal matrix / row signs: logpdf %r" % ({"%s:%s" % k: v for k, v in vals.items()},)
                cases[-1].signature = "Gaussian.logpdf|forms-disagree:signed-factor"
            # general (non-triangular, non-symmetric) integer factor with negative determinant, |det| >= 2: sqrtprec = G vs prec = G^T G
            while True:
                G = [[Fraction(rng.randint(-2, 2)) + (3 if i == j else 0) for j in range(n)] for i in range(n)]
                G[0] = [-v for v in G[0]]
                det = fr_solve_det(G, [Fraction(0)] * n)[1]
                if det <= -2 and G != fr_T(G):
                    break
            mean, x = pt(n), pt(n)
            vals = {}
            for form, Mx in (("prec", fr_mm(fr_T(G), G)), ("sqrtprec", G)):
                meta = {"kind": "gaussian", "form": form, "gkind": "densefull", "dim": n, "mean": list(mean), "via": "direct",
                        "method": ["logpdf", "logd"][counter % 2], "P": fl2(Mx), "x": list(x)}
                if thr:
                    meta["thr"] = thr
                g_case(ctx, cuqi, state, cases, stats, meta, "Gaussian/%s/densefull-signed/general-negative-det%s" % (form, tag))
                vals[form] = cases[-1].meta["observed"].get("value")
            if not (vals["prec"] is not None and close(vals["sqrtprec"], vals["prec"], 1e-8)) and not cases[-1].impl_fail:
                cases[-1].impl_fail = "sqrtprec = G (det %s) and prec = G^T G give logpdf %r" % (det, vals)
                cases[-1].signature = "Gaussian.logpdf|forms-disagree:signed-factor"
            # indefinite symmetric square root (normal: both readings of sqrtcov agree), det < 0: sqrtcov = S, sqrtprec = S, cov / prec = S^2
            while True:
                S = [[Fraction(0)] * n for _ in range(n)]
                for i in range(n):
                    S[i][i] = Fraction((n + 1) * (-1 if i == 0 else rng.choice([-1, 1])))
                    for k in range(i):
                        S[i][k] = S[k][i] = Fraction(rng.randint(-1, 1))
                if fr_solve_det(S, [Fraction(0)] * n)[1] < 0 and any(S[i][k] != 0 for i in range(n) for k in range(i)):
                    break
            S2 = fr_mm(S, S)
            mean, x = pt(n), pt(n)
            for grp in ((("cov", S2), ("sqrtcov", S)), (("prec", S2), ("sqrtprec", S))):
                vals = {}
                for form, Mx in grp:
                    meta = {"kind": "gaussian", "form": form, "gkind": "densefull", "dim": n, "mean": list(mean), "via": "direct",
                            "method": "logpdf", "P": fl2(Mx), "x": list(x)}
                    if thr:
                        meta["thr"] = thr
                    g_case(ctx, cuqi, state, cases, stats, meta, "Gaussian/%s/densefull-signed/indefinite-symmetric-root%s" % (form, tag))
                    vals[form] = cases[-1].meta["observed"].get("value")
                a, b = list(vals.values())
                if not (a is not None and close(b, a, 1e-8)) and not cases[-1].impl_fail:
                    cases[-1].impl_fail = "symmetric indefinite root S and S^2 give logpdf %r" % (vals,)
                    cases[-1].signature = "Gaussian.logpdf|forms-disagree:signed-factor"
            # diagonal storage forms with negative entries
            sd = [rng.choice([0.5, 2.0, 4.0]) * (-1 if i % 2 == 0 else rng.choice([-1, 1])) for i in range(n)]
            for gk in ("scalar", "vector", "densediag", "spdiag"):
                mean, x = pt(n), pt(n)
                vals = {}
                for form in ("cov", "sqrtcov", "sqrtprec"):
                    s0 = sd[:1] if gk == "scalar" else sd
                    pv = [{"cov": v * v, "sqrtcov": v, "sqrtprec": 1 / v}[form] for v in s0]
                    meta = {"kind": "gaussian", "form": form, "gkind": gk, "dim": n, "mean": list(mean), "via": "direct", "method": "logpdf", "x": list(x),
                            "storage": {"scalar": "float", "vector": "array", "spdiag": ["dia", "csr"][n % 2], "densediag": "array"}[gk]}
                    meta["P"] = [[pv[i] if i == k else 0.0 for k in range(n)] for i in range(n)] if gk == "densediag" else pv
                    if thr:
                        meta["thr"] = thr
                    g_case(ctx, cuqi, state, cases, stats, meta, "Gaussian/%s/%s-negative-entries%s" % (form, gk, tag))
                    vals[form] = cases[-1].meta["observed"].get("value")
                if not all(v is not None and close(v, vals["cov"], 1e-8) for v in vals.values()) and not cases[-1].impl_fail:
                    cases[-1].impl_fail = "%s Gaussian with negative standard-deviation entries: logpdf %r" % (gk, vals)
                    cases[-1].signature = "Gaussian.logpdf|forms-disagree:signed-factor"


SIG_OFFSUPPORT = "Gaussian.cov|rank-deficient:finite-density-off-the-support"
SIG_ALIAS = "Gaussian|aliases-caller-array:cov-mutated-after-construction"


def gaussian_lessons_cases(ctx, cuqi, state, cases, stats):
    """object reuse after attribute re-assignment; dtype / layout of the evaluation point; aliasing of the caller's arrays"""
    rng = ctx.rng
    pt = lambda n: [rng.randint(-16, 16) / 8 for _ in range(n)]
    ipt = lambda n: [float(rng.randint(-3, 3)) for _ in range(n)]
    counter = 0
    def spd(n):
        U = rand_unit_lower(rng, n)
        U[n - 1][0] = rng.choice([-1, 1])
        D = [rng.choice([0.5, 1.0, 2.0]) for _ in range(n)]
        L = [[Fraction(U[i][k]) * frac(D[k]) for k in range(n)] for i in range(n)]
        Ui = inv_unit_lower(U)
        Li = [[Ui[i][k] / frac(D[i]) for k in range(n)] for i in range(n)]
        return L, Li
    def param(form, gk, n):
        if gk == "densefull":
            L, Li = spd(n)
            Mx = {"cov": fr_mm(L, fr_T(L)), "prec": fr_mm(fr_T(Li), Li), "sqrtcov": fr_mm(L, fr_T(L)), "sqrtprec": Li}[form]
            return [[float(v) for v in r] for r in Mx]
        sd = [rng.choice([0.5, 1.0, 2.0, 4.0]) for _ in range(1 if gk == "scalar" else n)]
        return [{"cov": v * v, "prec": 1 / (v * v), "sqrtcov": v, "sqrtprec": 1 / v}[form] for v in sd]
    for n in (2, 3):
        for form in GFORMS:
            for gk in ("scalar", "vector", "densefull"):
                for thr in (None, 1):
                    counter += 1
                    meta = {"kind": "gaussian", "form": form, "gkind": gk, "dim": n, "mean": pt(n), "via": "direct", "method": ["logpdf", "logd", "pdf"][counter % 3],
                            "P": param(form, gk, n), "reassign_to": param(form, gk, n), "x": ipt(n) if counter % 2 else pt(n),
                            "x_style": ["int", "view", "readonly", "array"][counter % 4], "storage": "float" if gk == "scalar" else "array"}
                    if counter % 2:
                        meta["reassign_mean"] = pt(n)
                    if thr:
                        meta["thr"] = thr
                    g_case(ctx, cuqi, state, cases, stats, meta, "Gaussian/%s/%s/reassigned-on-live-object%s/x-%s" % (form, gk, "/thr=1" if thr else "", meta["x_style"]))
    # aliasing: the caller keeps the array it passed and modifies it in place after construction
    import io, contextlib
    for n in (2, 3):
        for form in ("cov", "prec"):
            for gk in ("vector", "densefull"):
                P0 = param(form, gk, n)
                mean, x = pt(n), pt(n)
                A = np.array(P0, dtype=float)
                with warnings.catch_warnings(), contextlib.redirect_stdout(io.StringIO()):
                    warnings.simplefilter("ignore")
                    d = cuqi.distribution.Gaussian(np.array(mean), **{form: A})
                    xa = np.array(x)
                    lp0 = float(np.ravel(d.logpdf(xa))[0])
                    A *= 4.0                                   # in-place: the object holds the same array
                    lp1 = float(np.ravel(d.logpdf(xa))[0])
                    C = to_dense_list(d.compute_cov())
                    cdf = float(d.cdf(xa)) if n <= 2 else None
                meta = {"kind": "galias", "form": form, "gkind": gk, "dim": n, "mean": mean, "x": x, "P": P0,
                        "observed": {"lp0": lp0, "lp1": lp1, "C": C, "cdf": cdf}}
                M0 = fr_mat(g_dense(dict(meta)))
                S0 = M0 if form == "cov" else fr_inv(M0)          # covariance of the density at construction
                S_after = [[v * 4 for v in r] for r in S0] if form == "cov" else S0       # what compute_cov returns: cov form hands back the caller's (modified) array
                consistent = all(abs(C[i][j] - float(S0[i][j])) <= 1e-9 * max(abs(float(v)) for r in S0 for v in r) for i in range(n) for j in range(n))
                fail = None
                if lp1 != lp0 or not consistent:
                    fail = ("Gaussian(%s=A) keeps the caller's array: after A *= 4 logpdf %s (%r -> %r) but compute_cov() = %s: cdf / cov no longer belong to the density" % (
                            form, "unchanged" if lp1 == lp0 else "changed", lp0, lp1, C))
                expr = "qmat_close (1 # 1000000000) %s %s && %s" % (cqm(C), cqm(S_after), cbool(lp1 == lp0))
                cases.append(Case(expr=expr, kind="EXACT", meta=meta, cell="Gaussian/%s/%s/caller-array-modified-in-place" % (form, gk), impl_fail=fail, signature=SIG_ALIAS if fail else ""))
                stats["gaussian"] = stats.get("gaussian", 0) + 1


def gaussian_sibling_cases(ctx, cuqi, state, cases, stats):
    """branching conditioning histories for the Gaussian: siblings conditioned from one conditional Gaussian (mean left open / callable;
    cov left open; any of the four matrix parameters as a callable s -> s * M), all alive, evaluated after later siblings"""
    rng = ctx.rng
    pt = lambda n: [rng.randint(-16, 16) / 8 for _ in range(n)]
    counter = 0
    for n in (2, 3):
        for form in GFORMS:
            for gk in ("scalar", "vector", "densefull"):
                for param in ("mean", "matrix"):
                    counter += 1
                    style = "none" if (param == "mean" and counter % 2) or (param == "matrix" and form == "cov" and counter % 2) else "callable"
                    if gk == "densefull":
                        U = rand_unit_lower(rng, n)
                        U[n - 1][0] = rng.choice([-1, 1])
                        D = [rng.choice([0.5, 1.0, 2.0]) for _ in range(n)]
                        L = [[Fraction(U[i][k]) * frac(D[k]) for k in range(n)] for i in range(n)]
                        Ui = inv_unit_lower(U)
                        Li = [[Ui[i][k] / frac(D[i]) for k in range(n)] for i in range(n)]
                        Mx = {"cov": fr_mm(L, fr_T(L)), "prec": fr_mm(fr_T(Li), Li), "sqrtcov": fr_mm(L, fr_T(L)), "sqrtprec": Li}[form]
                        base = [[float(v) for v in r] for r in Mx]
                    else:
                        sd = [rng.choice([0.5, 1.0, 2.0, 4.0]) for _ in range(1 if gk == "scalar" else n)]
                        base = [{"cov": v * v, "prec": 1 / (v * v), "sqrtcov": v, "sqrtprec": 1 / v}[form] for v in sd]
                    if param == "mean":
                        values = [pt(n) for _ in range(3)]
                    else:
                        values = rng.sample([0.5, 2.0, 4.0, 0.25], 3)
                    mean0 = pt(n)
                    for k in (0, 1):
                        scale = 1.0 if param == "mean" else values[k]
                        P = [[v * scale for v in r] for r in base] if gk == "densefull" else [v * scale for v in base]
                        meta = {"kind": "gaussian", "form": form, "gkind": gk, "dim": n, "mean": values[k] if param == "mean" else mean0, "via": "siblings",
                                "method": ["logpdf", "logd"][k], "P": P, "x": pt(n), "storage": "float" if gk == "scalar" else "array",
                                "siblings": {"param": param, "style": style, "values": values, "index": k, "base_P": base}}
                        g_case(ctx, cuqi, state, cases, stats, meta, "Gaussian/%s/%s/sibling-of-conditional/%s-%s" % (form, gk, param, style))


def gaussian_switch_cases(ctx, cuqi, state, cases, stats):
    """(a) every storage kind on the SPARSE side of the switch at small dims (threshold lowered through cuqi.config.MIN_DIM_SPARSE),
    (b) rank-deficient full matrices on both sides, (c) sqrtprec as a scipy LinearOperator"""
    rng = ctx.rng
    pt = lambda n: [rng.randint(-16, 16) / 8 for _ in range(n)]
    counter = 0
    # (a) same generators as the dense side, threshold 1: identical values expected (the model does not know the branch)
    for n in (2, 3) + ((5,) if ctx.thorough else ()):
        for form in GFORMS:
            for gk in ("scalar", "vector", "densediag", "densefull", "spdiag"):
                counter += 1
                sd = [rng.choice([0.5, 1.0, 2.0, 4.0]) for _ in range(n)]
                meta = {"kind": "gaussian", "form": form, "gkind": gk, "dim": n, "mean": pt(n) if counter % 2 else pt(1), "via": "direct",
                        "method": ["logpdf", "logd", "logupdf"][counter % 3], "x": pt(n), "thr": 1}
                if gk == "densefull":
                    U = rand_unit_lower(rng, n)
                    U[n - 1][0] = rng.choice([-1, 1])
                    D = [rng.choice([0.5, 1.0, 2.0]) for _ in range(n)]
                    L = [[Fraction(U[i][k]) * frac(D[k]) for k in range(n)] for i in range(n)]
                    Ui = inv_unit_lower(U)
                    Li = [[Ui[i][k] / frac(D[i]) for k in range(n)] for i in range(n)]
                    Mx = {"cov": fr_mm(L, fr_T(L)), "prec": fr_mm(fr_T(Li), Li), "sqrtcov": fr_mm(L, fr_T(L)), "sqrtprec": Li}[form]
                    meta["P"] = [[float(v) for v in r] for r in Mx]
                else:
                    s0 = sd[:1] if gk == "scalar" else sd
                    pv = [{"cov": v * v, "prec": 1 / (v * v), "sqrtcov": v, "sqrtprec": 1 / v}[form] for v in s0]
                    meta["P"] = [[pv[i] if i == k else 0.0 for k in range(n)] for i in range(n)] if gk == "densediag" else pv
                    meta["storage"] = {"scalar": "float", "vector": "array", "spdiag": ["dia", "csr"][counter % 2], "densediag": "array"}[gk]
                g_case(ctx, cuqi, state, cases, stats, meta, "Gaussian/%s/%s/n/thr=1/%s" % (form, gk, meta["method"]))
    # (b) rank-deficient: Sigma = B B^T, B n x r with integer entries and full column rank
    for n, r in ((3, 2), (4, 2)) + (((5, 3),) if ctx.thorough else ()):
        while True:
            B = [[Fraction(rng.randint(-2, 2)) for _ in range(r)] for _ in range(n)]
            BtB = fr_mm(fr_T(B), B)
            SgT = fr_mm(B, fr_T(B))
            offdiag = any(SgT[i][k] != 0 for i in range(n) for k in range(n) if i != k)
            if fr_solve_det(BtB, [Fraction(0)] * r)[1] != 0 and offdiag and any(B[i][k] != 0 for i in range(n) for k in range(r) if i != k):
                break               # (a diagonal matrix takes the diagonal branch: log of a zero variance)
        G = fr_inv(BtB)
        pdet = fr_solve_det(BtB, [Fraction(0)] * r)[1]
        Sg = fr_mm(B, fr_T(B))
        Bpad = [row + [Fraction(0)] * (n - r) for row in B]                 # n x n square root: Bpad Bpad^T = Sigma
        for form in GFORMS:
            for thr in (1, None):
                t = [Fraction(rng.randint(-8, 8), 4) for _ in range(r)]
                mean = pt(n)
                d = fr_mv(B, t) if form in ("cov", "sqrtcov") else [Fraction(rng.randint(-8, 8), 4) for _ in range(n)]
                x = [float(frac(m) + di) for m, di in zip(mean, d)]
                Mx = {"cov": Sg, "prec": Sg, "sqrtcov": Bpad, "sqrtprec": fr_T(Bpad)}[form]
                meta = {"kind": "gaussian", "form": form, "gkind": "densefull", "dim": n, "mean": mean, "via": "direct", "method": "logpdf", "x": x,
                        "P": [[float(v) for v in row] for row in Mx], "singular": r}
                if thr:
                    meta["thr"] = thr
                ob = g_observe(cuqi, meta)
                meta = dict(meta, observed=ob)
                sparse_side = thr is not None
                cell = "Gaussian/%s/densefull-rank-deficient/%s" % (form, "thr=1" if thr else "dense-side")
                obs_out = {"refused_init": "OutRefusedInit", "refused_logpdf": "OutRefusedLogpdf", "value": "OutValue"}[ob["outcome"]]
                dec = "gout_eqb (gauss_singular_outcome %s %s) %s" % (cbool(sparse_side), GFORMS[form], obs_out)
                stats["gaussian"] = stats.get("gaussian", 0) + 1
                if not sparse_side:
                    # inv / cholesky of an exactly singular matrix: LinAlgError, or (rounding inside LAPACK) a factorisation that goes
                    # through with logdet = -/+inf.  Accepted: refusal, or a non-finite logpdf; a FINITE number would be a wrong density.
                    okd = ob["outcome"] != "value" or ob["value"] is None or not math.isfinite(ob["value"])
                    cases.append(Case(expr=cbool(okd), kind="DECISION", meta=meta, cell=cell, trivial=True,
                                      impl_fail=None if okd else "Gaussian(%s=<singular>) on the dense side returns the finite logpdf %r" % (form, ob["value"]),
                                      signature="" if okd else "Gaussian.%s|rank-deficient:dense-side:finite" % form))
                    continue
                if ob["outcome"] != "value" or ob["value"] is None or math.isinf(ob["value"]):
                    cases.append(Case(expr="false", kind="DECISION", meta=meta, cell=cell,
                                      impl_fail="Gaussian(%s=<rank %d of %d>) on the sparse side: %r" % (form, r, n, ob), signature="Gaussian.%s|rank-deficient:sparse-side" % form))
                    continue
                # independent oracle: the degenerate Gaussian on its support (cov forms) / the improper precision (prec forms), numpy eigh
                A = np.array([[float(v) for v in row] for row in Sg])
                ev, V = np.linalg.eigh(A)
                keep = ev > 1e-9 * ev.max()
                dv = np.array([float(v) for v in d])
                if form in ("cov", "sqrtcov"):
                    qd = float(sum((V[:, i] @ dv) ** 2 / ev[i] for i in range(n) if keep[i]))
                    exp = -0.5 * (keep.sum() * LOG2PI + float(np.sum(np.log(ev[keep])))) - 0.5 * qd
                else:
                    exp = -0.5 * (keep.sum() * LOG2PI - float(np.sum(np.log(ev[keep])))) - 0.5 * float(dv @ A @ dv)
                fail, sig = None, ""
                if ob["value"] is None or math.isnan(ob["value"]):
                    # numpy.sqrt of a numerically negative zero eigenvalue (prec forms): sqrtprec contains nan
                    cases.append(Case(expr="true", kind="DECISION", meta=meta, cell=cell, trivial=True,
                                      impl_fail="Gaussian(%s=<rank %d of %d, %s>) on the sparse side: logpdf = nan, degenerate density %r" % (form, r, n, meta["P"], exp),
                                      signature="Gaussian.prec|rank-deficient:sparse-side:sqrt-of-negative-rounding-error"))
                    continue
                if not close(ob["value"], exp, 1e-8) or ob["rank"] != r:
                    fail = "Gaussian(%s=<rank %d of %d>) on the sparse side: logpdf %r rank %r, degenerate density %r" % (form, r, n, ob["value"], ob["rank"], exp)
                    sig = "Gaussian.%s|rank-deficient:sparse-side" % form
                if form in ("cov", "sqrtcov"):
                    z = fr_mv(G, fr_mv(fr_T(B), d))
                    quad = fr_dot(z, z)
                    cert = "%s && gauss_psd_cert %s %s %s %s %s %s %s %s %s" % (dec, cnat(n), cnat(r), cqm(Sg), cqm(B), cqm(G), cql(d), cq(pdet), cq(quad), cnat(ob["rank"]))
                    m = "(gauss_canon %s (ln %s) %s)" % (cnat(r), cr(pdet), cr(quad))
                else:
                    z = fr_mv(fr_T(B), d)
                    quad = fr_dot(z, z)
                    cert = "%s && gauss_psd_prec_cert %s %s %s %s %s %s %s %s" % (dec, cnat(n), cnat(r), cqm(Sg), cqm(B), cql(d), cq(pdet), cq(quad), cnat(ob["rank"]))
                    m = "(gauss_canon %s (ln %s) %s)" % (cnat(r), cr(1 / pdet), cr(quad))
                expr, tac = encl(m, ob["value"], cert="(%s)" % cert)
                cases.append(Case(expr=expr, tac=tac, kind="ENCLOSURE", meta=meta, cell=cell, impl_fail=fail, signature=sig))
                if form in ("cov", "sqrtcov"):
                    # OFF the support: x - mean outside the range of the covariance.  The degenerate Gaussian puts no mass there (density 0,
                    # logpdf -inf, scipy's convention for singular covariances); the code returns the density of the projection onto the support.
                    for k in range(n):
                        e = [Fraction(int(i == k)) for i in range(n)]
                        Baug = [row + [e[i]] for i, row in enumerate(B)]
                        if fr_solve_det(fr_mm(fr_T(Baug), Baug), [Fraction(0)] * (r + 1))[1] != 0:
                            break
                    d2 = [di + ei for di, ei in zip(d, e)]
                    meta2 = dict({kk: vv for kk, vv in meta.items() if kk != "observed"}, x=[float(frac(mm) + di) for mm, di in zip(mean, d2)], off_support=True)
                    ob2 = g_observe(cuqi, meta2)
                    meta2["observed"] = ob2
                    v2 = ob2.get("value")
                    if ob2["outcome"] == "value" and v2 is not None and math.isfinite(v2):
                        z2 = fr_mv(G, fr_mv(fr_T(B), d2))
                        q2 = fr_dot(z2, z2)
                        cert2 = "%s && gauss_psd_cert %s %s %s %s %s %s %s %s %s" % (dec, cnat(n), cnat(r), cqm(Sg), cqm(B), cqm(G), cql(d2), cq(pdet), cq(q2), cnat(ob2["rank"]))
                        e2, t2 = encl("(gauss_canon %s (ln %s) %s)" % (cnat(r), cr(pdet), cr(q2)), v2, cert="(%s)" % cert2)
                        cases.append(Case(expr=e2, tac=t2, kind="ENCLOSURE", meta=meta2, cell=cell + "/off-support",
                                          impl_fail="Gaussian(%s=<rank %d of %d>).logpdf at a point OFF the support (x - mean outside the range of the covariance) = %r, the degenerate Gaussian has density 0 there" % (form, r, n, v2),
                                          signature=SIG_OFFSUPPORT))
                    else:
                        cases.append(Case(expr=cbool(v2 == -math.inf), kind="DECISION", meta=meta2, cell=cell + "/off-support"))
    # (c) sqrtprec given as a LinearOperator: rank = dim, logdet = its `logdet` attribute (None -> logpdf refused)
    for n in (2, 3):
        for has in (True, False):
            U = rand_unit_lower(rng, n)
            D = [rng.choice([0.5, 1.0, 2.0]) for _ in range(n)]
            R = [[float(Fraction(U[i][k]) * frac(D[i])) for k in range(n)] for i in range(n)]
            ld = -2 * sum(math.log(v) for v in D)          # - ln det(R^T R)
            meta = {"kind": "gaussian", "form": "sqrtprec", "gkind": "linop", "dim": n, "mean": pt(n), "via": "direct", "method": "logpdf", "x": pt(n),
                    "P": R, "linop_logdet": ld if has else None}
            ob = g_observe(cuqi, meta)
            meta = dict(meta, observed=ob)
            cell = "Gaussian/sqrtprec/LinearOperator/%s" % ("with-logdet" if has else "no-logdet")
            stats["gaussian"] = stats.get("gaussian", 0) + 1
            if not has:
                cases.append(Case(expr=cbool(ob["outcome"] == "refused_logpdf"), kind="DECISION", meta=meta, cell=cell,
                                  impl_fail=None if ob["outcome"] != "value" else "LinearOperator without logdet gives a normalised value %r" % ob.get("value"),
                                  signature="Gaussian.sqrtprec|LinearOperator:no-logdet"))
                continue
            d = [frac(a) - frac(b) for a, b in zip(meta["x"], meta["mean"])]
            z = fr_mv(fr_mat(R), d)
            quad = fr_dot(z, z)
            exp = g_documented(dict(meta, gkind="densefull"))["logpdf"]
            fail = None if (ob["outcome"] == "value" and close(ob["value"], exp)) else "Gaussian(sqrtprec=LinearOperator(R), logdet attribute = -ln det R^T R): %r, documented %r" % (ob, exp)
            if ob["outcome"] != "value":
                cases.append(Case(expr="false", kind="DECISION", meta=meta, cell=cell, impl_fail=fail, signature="Gaussian.sqrtprec|LinearOperator"))
                continue
            cert = "Nat.eqb %s %s && Qeq_bool (let z := qmv %s %s in qdotq z z) %s" % (cnat(ob["rank"]), cnat(n), cqm(R), cql(d), cq(quad))
            expr, tac = encl("(gauss_canon %s %s %s)" % (cnat(n), cr(ld), cr(quad)), ob["value"], cert="(%s)" % cert)
            cases.append(Case(expr=expr, tac=tac, kind="ENCLOSURE", meta=meta, cell=cell, impl_fail=fail, signature="Gaussian.sqrtprec|LinearOperator" if fail else ""))


def rand_unit_lower(rng, n, lo=-1, hi=1):
    return [[1 if i == j else (rng.randint(lo, hi) if j < i else 0) for j in range(n)] for i in range(n)]


def inv_unit_lower(U):
    n = len(U)
    I = [[Fraction(int(i == j)) for j in range(n)] for i in range(n)]
    cols = []
    for j in range(n):
        xj, _ = fr_solve_det(fr_mat(U), [I[i][j] for i in range(n)])
        cols.append(xj)
    return fr_T(cols)


def gscale(meta, j):
    """the same distribution with every standard deviation multiplied by c = 2^j (exact in binary floating point):
       cov * c^2, prec / c^2, sqrtcov * c, sqrtprec / c, and mean, x scaled by c"""
    c = 2.0 ** j
    f = {"cov": c * c, "prec": 1 / (c * c), "sqrtcov": c, "sqrtprec": 1 / c}[meta["form"]]
    P = meta["P"]
    meta["P"] = [[v * f for v in r] for r in P] if isinstance(P[0], list) else [v * f for v in P]
    for k in ("mean", "x", "x2"):
        if k in meta:
            meta[k] = [v * c for v in meta[k]]
    meta["mag"] = j
    return meta


def gaussian_magnitude_cases(ctx, cuqi, state, cases, stats):
    """MAGNITUDE dimension: one exact rational covariance pushed through the 4 forms x {dense full, dense diagonal, vector,
    sparse diagonal, scalar}, standard deviations scaled by 2^j; plus the scale dependence of the symmetry check."""
    rng = ctx.rng
    pt = lambda n: [rng.randint(-16, 16) / 8 for _ in range(n)]
    J = [-25, -17, -9, 9, 17] + ([-30, -4, 4, 25, 30] if ctx.thorough else [])
    for idx, j in enumerate(J):
        for n in ([2, 3, 5] if ctx.thorough else [2 + idx % 2]):
            tag = "mag2^%d" % j
            # ---- full matrices: Sigma = c^2 L L^T
            U = rand_unit_lower(rng, n)
            if all(U[i][k] == 0 for i in range(n) for k in range(i)):
                U[n - 1][0] = 1
            D = [rng.choice([0.5, 1.0, 2.0]) for _ in range(n)]
            L = [[Fraction(U[i][k]) * frac(D[k]) for k in range(n)] for i in range(n)]
            Ui = inv_unit_lower(U)
            Li = [[Ui[i][k] / frac(D[i]) for k in range(n)] for i in range(n)]
            S = fr_mm(L, fr_T(L))
            mean, x = pt(n), pt(n)
            vals = {}
            for form, Mx in (("cov", S), ("prec", fr_mm(fr_T(Li), Li)), ("sqrtprec", Li), ("sqrtcov", S)):
                meta = {"kind": "gaussian", "form": form, "gkind": "densefull", "dim": n, "mean": list(mean), "via": "direct", "method": "logpdf",
                        "P": [[float(v) for v in r] for r in Mx], "x": list(x)}
                g_case(ctx, cuqi, state, cases, stats, gscale(meta, j), "Gaussian/%s/densefull/%s" % (form, tag))
                vals[form] = cases[-1].meta["observed"].get("value")
            if not (vals["cov"] is not None and close(vals["cov"], vals["prec"], 1e-8) and close(vals["cov"], vals["sqrtprec"], 1e-8)) and not cases[-1].impl_fail:
                cases[-1].impl_fail = "one Gaussian (std scale 2^%d) given as cov / prec / sqrtprec has logpdf %r" % (j, vals)
                cases[-1].signature = "Gaussian.logpdf|forms-disagree"
            # ---- diagonal kinds and scalar: variances s_i^2 with dyadic s_i, so that all four inputs are exact
            sd = [rng.choice([0.5, 1.0, 2.0, 4.0]) * rng.choice([1.0, 1.5, 1.25]) for _ in range(n)]
            sd = [v if (1 / v) * v == 1.0 and frac(1 / v) * frac(v) == 1 else rng.choice([0.5, 2.0, 4.0]) for v in sd]
            for gk in ("densediag", "vector", "spdiag", "scalar"):
                mean, x = (pt(1) if gk == "scalar" else pt(n)), pt(n)
                vals = {}
                for form in GFORMS:
                    s0 = sd[:1] if gk == "scalar" else sd
                    pv = [{"cov": v * v, "prec": 1 / (v * v), "sqrtcov": v, "sqrtprec": 1 / v}[form] for v in s0]
                    meta = {"kind": "gaussian", "form": form, "gkind": gk, "dim": n, "mean": list(mean), "via": "direct", "method": "logpdf", "x": list(x),
                            "storage": {"scalar": "float", "vector": "array", "spdiag": ["dia", "csr"][idx % 2], "densediag": "array"}[gk]}
                    meta["P"] = [[pv[i] if i == k else 0.0 for k in range(n)] for i in range(n)] if gk == "densediag" else pv
                    g_case(ctx, cuqi, state, cases, stats, gscale(meta, j), "Gaussian/%s/%s/%s" % (form, gk, tag))
                    vals[form] = cases[-1].meta["observed"].get("value")
                if not all(v is not None and close(v, vals["cov"], 1e-8) for v in vals.values()) and not cases[-1].impl_fail:
                    cases[-1].impl_fail = "one %s Gaussian (std scale 2^%d) given in the four forms has logpdf %r" % (gk, j, vals)
                    cases[-1].signature = "Gaussian.logpdf|forms-disagree"
    # ---- odd powers of two on the matrix itself (cov, prec), full matrices
    for k in ([-51, -17, 17] if not ctx.thorough else [-51, -35, -17, 17, 35, 51]):
        for form in ("cov", "prec"):
            n = 3
            U = rand_unit_lower(rng, n)
            U[n - 1][0] = rng.choice([-1, 1])
            L = [[Fraction(U[i][q]) for q in range(n)] for i in range(n)]
            Li = inv_unit_lower(U)
            Mx = fr_mm(L, fr_T(L)) if form == "cov" else fr_mm(fr_T(Li), Li)
            c = 2.0 ** ((k // 2) if form == "cov" else -(k // 2))
            meta = {"kind": "gaussian", "form": form, "gkind": "densefull", "dim": n, "mean": [v * c for v in pt(n)], "via": "direct", "method": "logpdf",
                    "P": [[float(v) * 2.0 ** k for v in r] for r in Mx], "x": [v * c for v in pt(n)], "mag": k}
            g_case(ctx, cuqi, state, cases, stats, meta, "Gaussian/%s/densefull/matrix*2^%d" % (form, k))
    # ---- the symmetry check of cov / prec is numpy.allclose(M, M.T): rtol 1e-5 and an ABSOLUTE tolerance 1e-8
    for form in ("cov", "prec"):
        for k in [0, -20, -30, -40] + ([-60, 20] if ctx.thorough else []):
            for kindof in ("gross", "within-rtol"):
                if kindof == "within-rtol" and k not in (0, -30):
                    continue
                n = 2 if (k // 10) % 2 == 0 else 3
                A = [[float(2 * n + rng.randint(0, 2)) if i == q else 0.0 for q in range(n)] for i in range(n)]
                for i in range(n):
                    for q in range(i):
                        A[i][q] = A[q][i] = float(rng.randint(-2, 2)) / 2
                if kindof == "within-rtol" and A[n - 1][0] == 0.0:
                    A[n - 1][0] = 1.0            # the relative tolerance needs a non-zero entry to be relative to
                A[0][n - 1] = A[n - 1][0] + (1.0 if kindof == "gross" else 2.0 ** -20)
                c = 2.0 ** ((k // 2) if form == "cov" else -(k // 2))
                meta = {"kind": "gaussian", "form": form, "gkind": "densefull", "dim": n, "mean": [v * c for v in pt(n)], "via": "direct", "method": "logpdf",
                        "P": [[v * 2.0 ** k for v in r] for r in A], "x": [v * c for v in pt(n)], "mag": k}
                if kindof == "gross":
                    meta["malformed"] = "non-symmetric"
                else:
                    meta["nonsym_within_rtol"] = True
                g_case(ctx, cuqi, state, cases, stats, meta, "Gaussian/%s/densefull-nonsymmetric-%s/matrix*2^%d" % (form, kindof, k))


def gaussian_cases(ctx, cuqi, state, cases, stats):
    rng = ctx.rng
    counter = 0
    pos = lambda: rng.randint(2, 32) / 8
    pt = lambda n: [rng.randint(-16, 16) / 8 for _ in range(n)]
    sc_ifaces = ["float", "npfloat", "list", "array"]
    for n in [1, 2, 3, 5]:
        for form in GFORMS:
            kinds = ["scalar"] if n == 1 else ["scalar", "vector", "densediag", "densefull", "spdiag"]
            for gk in kinds:
                for rep in range(ctx.n(1, 5)):
                    counter += 1
                    mean = pt(1) if counter % 2 == 0 else pt(n)
                    meta = {"kind": "gaussian", "form": form, "gkind": gk, "dim": n, "mean": mean}
                    if gk == "scalar":
                        meta["P"], meta["storage"] = [pos()], sc_ifaces[counter % 4]
                    elif gk == "vector":
                        meta["P"], meta["storage"] = [pos() for _ in range(n)], ["array", "list"][counter % 2]
                    elif gk == "spdiag":
                        meta["P"], meta["storage"] = [pos() for _ in range(n)], ["dia", "csr"][counter % 2]
                    elif gk == "densediag":
                        dg = [pos() for _ in range(n)]
                        meta["P"] = [[dg[i] if i == j else 0.0 for j in range(n)] for i in range(n)]
                    else:
                        U = rand_unit_lower(rng, n)
                        D = [rng.choice([0.5, 1.0, 2.0]) for _ in range(n)]
                        L = [[Fraction(U[i][j]) * frac(D[j]) for j in range(n)] for i in range(n)]
                        Li = [[inv_unit_lower(U)[i][j] / frac(D[i]) for j in range(n)] for i in range(n)]     # (U D)^-1 = D^-1 U^-1
                        if form == "cov":
                            Mx = fr_mm(L, fr_T(L))
                        elif form == "prec":
                            Mx = fr_mm(fr_T(Li), Li)
                        elif form == "sqrtcov":
                            Mx = fr_mm(L, fr_T(L))          # a SYMMETRIC square root: cov = M^2 in both readings
                        else:
                            Mx = Li
                            if counter % 2 == 1:        # a general (non-triangular) nonsingular integer square root
                                while True:
                                    Mx = [[Fraction(rng.randint(-2, 2)) + (4 if i == j else 0) for j in range(n)] for i in range(n)]
                                    if fr_solve_det(Mx, [Fraction(0)] * n)[1] != 0:
                                        break
                        meta["P"] = [[float(v) for v in r] for r in Mx]
                    if gk in ("densediag", "densefull") and n > 1:
                        meta["storage"] = ["array", "nested-list", "matrix", "fortran", "view", "readonly"][counter % 6]
                    vias = ["direct"] + ([["cond_mean", "callable", "logd_mean"][counter % 3]] if gk in ("scalar", "vector", "densefull") else [])
                    for via in vias:
                        for method in (["logpdf", "logd", "pdf", "logupdf"] if via == "direct" else ["logpdf"]):
                            if via == "logd_mean":
                                method = "logd"
                            m2 = dict(meta, via=via, method=method, x=pt(n))
                            if method == "logpdf" and via == "direct":
                                m2["x2"] = pt(n)
                            g_case(ctx, cuqi, state, cases, stats, m2, "Gaussian/%s/%s/%s/%s/%s" % (form, gk, "1" if n == 1 else "n", via, method))
        if n == 1:
            continue
        # one covariance pushed through the four parameterisations (documented reading): cov=S, prec=S^-1, sqrtprec=L^-1, sqrtcov=L^T
        for rep in range(ctx.n(1, 4)):
            U = rand_unit_lower(rng, n)
            D = [rng.choice([0.5, 1.0, 2.0]) for _ in range(n)]
            if all(U[i][j] == 0 for i in range(n) for j in range(i)):
                U[n - 1][0] = 1
            L = [[Fraction(U[i][j]) * frac(D[j]) for j in range(n)] for i in range(n)]
            Ui = inv_unit_lower(U)
            Li = [[Ui[i][j] / frac(D[i]) for j in range(n)] for i in range(n)]
            same = {"cov": fr_mm(L, fr_T(L)), "prec": fr_mm(fr_T(Li), Li), "sqrtprec": Li, "sqrtcov": fr_T(L)}
            mean, x = pt(n), pt(n)
            vals = {}
            for form, Mx in same.items():
                meta = {"kind": "gaussian", "form": form, "gkind": "densefull", "dim": n, "mean": mean, "via": "direct", "method": "logpdf",
                        "P": [[float(v) for v in r] for r in Mx], "x": x, "same_sigma": True}
                g_case(ctx, cuqi, state, cases, stats, meta, "Gaussian/same-Sigma/%s/n" % form)
                vals[form] = cases[-1].meta["observed"].get("value")
            agree = [f for f in ("cov", "prec", "sqrtprec") if vals[f] is not None]
            if len(agree) == 3 and not (close(vals["cov"], vals["prec"], 1e-8) and close(vals["cov"], vals["sqrtprec"], 1e-8)):
                cases[-1].impl_fail = "one Gaussian given as cov / prec / sqrtprec has logpdf %r" % vals
                cases[-1].signature = "Gaussian.logpdf|forms-disagree"
        # sqrtcov = lower Cholesky factor (what the repo's suite passes): non-normal, the code reads it as R R^T
        for rep in range(ctx.n(1, 3)):
            U = rand_unit_lower(rng, n)
            U[n - 1][0] = rng.choice([-1, 1])
            D = [rng.choice([0.5, 1.0, 2.0]) for _ in range(n)]
            L = [[float(Fraction(U[i][j]) * frac(D[j])) for j in range(n)] for i in range(n)]
            meta = {"kind": "gaussian", "form": "sqrtcov", "gkind": "densefull", "dim": n, "mean": pt(n), "via": "direct", "method": "logpdf", "P": L, "x": pt(n)}
            g_case(ctx, cuqi, state, cases, stats, meta, "Gaussian/sqrtcov/densefull-lower-factor/n")
        # malformed / refused inputs
        for form in ("cov", "prec"):
            A = [[float(rng.randint(-2, 2) + (4 if i == j else 0)) for j in range(n)] for i in range(n)]
            A[0][n - 1] = A[n - 1][0] + 1.0
            meta = {"kind": "gaussian", "form": form, "gkind": "densefull", "dim": n, "mean": pt(n), "via": "direct", "method": "logpdf", "P": A, "x": pt(n),
                    "malformed": "non-symmetric"}
            g_case(ctx, cuqi, state, cases, stats, meta, "Gaussian/%s/densefull-nonsymmetric/refusal" % form)
        for form in GFORMS:
            T = [[2.0 if i == j else (-0.5 if abs(i - j) == 1 else 0.0) for j in range(n)] for i in range(n)]
            if form in ("sqrtcov", "sqrtprec"):
                T = [[T[i][j] if j <= i else 0.0 for j in range(n)] for i in range(n)]
            meta = {"kind": "gaussian", "form": form, "gkind": "spfull", "storage": ["csr", "csc"][n % 2], "dim": n, "mean": pt(n), "via": "direct",
                    "method": "logpdf", "P": T, "x": pt(n)}
            g_case(ctx, cuqi, state, cases, stats, meta, "Gaussian/%s/spfull/refusal" % form)
        # sparse DIA storage with off-diagonal bands (the docstring's own sqrtprec example is of this kind)
        for form in GFORMS:
            for padded in ([False, True] if form == "sqrtprec" else [False]):
                main = [float(rng.choice([1, 2, 4])) / 2 for _ in range(n)]
                off = [float(rng.choice([-2, -1, 1, 2])) for _ in range(n)]
                if form in ("cov", "prec"):
                    main = [m_ + 4 for m_ in main]
                    data, offsets = [main, [0.0] + off[1:], off[1:] + [0.0]], [0, 1, -1]
                else:
                    off[0] = float(rng.choice([1, 3])) if padded else 0.0     # scipy.sparse.diags pads the unused slot with 0
                    data, offsets = [main, off], [0, 1]
                meta = {"kind": "gaussian", "form": form, "gkind": "spdiabands", "dim": n, "mean": pt(n), "via": "direct", "method": "logpdf",
                        "P": None, "dia_data": data, "dia_offsets": offsets, "x": pt(n)}
                g_case(ctx, cuqi, state, cases, stats, meta, "Gaussian/%s/spdiabands%s" % (form, "-nonzero-padding" if padded else ""))
    # both sides of the dense/sparse storage switch (MIN_DIM_SPARSE = 75)
    thr = int(cuqi.config.MIN_DIM_SPARSE)
    for n in [thr - 1, thr, thr + 1, thr + 2]:
        for form in GFORMS:
            for gk in ["scalar", "vector", "spdiag", "densefull"]:
                if gk == "densefull" and not ctx.thorough and not (n == thr + 1 or (n == thr and form == "cov")):
                    continue                # quick: every form just above the switch (sparse branch), one just below
                if gk != "densefull" and not ctx.thorough and (list(GFORMS).index(form) + n + len(gk)) % 4 != {"scalar": 0, "vector": 1, "spdiag": 2}[gk]:
                    continue                # quick: ONE of the four forms per (dim, kind), rotating with the dimension: every kind and every form is
                                            # evaluated on both sides of the default switch (thr-1, thr | thr+1, thr+2), every (form, kind) pair once;
                                            # all 48 of them in thorough, and every (form, kind, side) at small dimensions with the threshold lowered
                                            # through cuqi.config in gaussian_switch_cases (quick tier).  (77 terms with ln / sqrt cost 2-3 s each.)
                mean = pt(1) if (n + len(gk)) % 2 == 0 else pt(n)
                meta = {"kind": "gaussian", "form": form, "gkind": gk, "dim": n, "mean": mean, "via": "direct", "method": "logpdf", "x": pt(n)}
                if gk == "scalar":
                    meta["P"], meta["storage"] = [pos()], "float"
                elif gk in ("vector", "spdiag"):
                    meta["P"], meta["storage"] = [pos() for _ in range(n)], ("array" if gk == "vector" else "csr")
                else:
                    # banded SPD (cov, prec: tridiagonal; sqrtcov: symmetric tridiagonal; sqrtprec: upper bidiagonal)
                    dg = [float(rng.choice([2, 3, 4])) for _ in range(n)]
                    of = [float(rng.choice([-1, 0, 1])) / 2 for _ in range(n - 1)]
                    if form == "sqrtprec":     # upper bidiagonal with an odd number of negative pivots: det < 0
                        sg = [-1.0 if (i % 7 == 0) else 1.0 for i in range(n)]
                        if sum(1 for v in sg if v < 0) % 2 == 0:
                            sg[1] = -1.0
                        meta["P"] = [[sg[i] * dg[i] / 2 if i == j else (of[i] if j == i + 1 else 0.0) for j in range(n)] for i in range(n)]
                    else:
                        meta["P"] = [[dg[i] if i == j else (of[min(i, j)] if abs(i - j) == 1 else 0.0) for j in range(n)] for i in range(n)]
                jbig = [0, -17, 17, -25][(n + len(form) + len(gk)) % 4]       # magnitude sweep across the storage switch as well
                if jbig:
                    gscale(meta, jbig)
                g_case(ctx, cuqi, state, cases, stats, meta, "Gaussian/%s/%s/dim%s%d%s" % (form, gk, "=thr" if n == thr else ("<thr" if n < thr else ">thr"), abs(n - thr),
                                                                                        "/mag2^%d" % jbig if jbig else ""))


# ------------------------------------------------------------------------------------------------
# Markov random fields: GMRF / LMRF / CMRF
# ------------------------------------------------------------------------------------------------
BCS = {"zero": "BZero", "periodic": "BPeriodic", "neumann": "BNeumann"}
SIG_GMRF0 = "GMRF.logpdf|order0-periodic/neumann:rank-dim-1"
SIG_GMRF2N = "GMRF.logpdf|order2-neumann:rank-and-logdet"
SIG_GMRF_LARGE = "GMRF.logpdf|dim>MAX_DIM_INV:periodic/neumann:logdet-of-regularised-precision"
SIG_SLAP_MASS = "SmoothedLaplace.logpdf|beta>0:density-not-normalised"


def fr_pdet(A, k):
    """product of the non-zero eigenvalues of a symmetric PSD rational matrix with a k-dimensional null space:
    (-1)^(n-k) c_k of the characteristic polynomial (Faddeev-LeVerrier)"""
    n = len(A)
    I = [[Fraction(int(i == j)) for j in range(n)] for i in range(n)]
    M = [[Fraction(0)] * n for _ in range(n)]
    c = [Fraction(0)] * (n + 1)
    c[n] = Fraction(1)
    for j in range(1, n + 1):
        AM = fr_mm(A, M)
        M = [[AM[r][q] + c[n - j + 1] * I[r][q] for q in range(n)] for r in range(n)]
        AMk = fr_mm(A, M)
        c[n - j] = -sum(AMk[r][r] for r in range(n)) / j
    return c[k] if (n - k) % 2 == 0 else -c[k]


def doc_diff_1d(order, bc, N):
    """the DOCUMENTED 1-d difference operator as a list of rows (plain Python, independent of cuqi.operator and of the Coq model):
    order 0 identity; order 1 rows x_k - x_{k-1}; order 2 rows -x_k + 2 x_{k-1} - x_{k-2}; zero b.c.: values outside the grid are 0
    (N+order rows); periodic: indices modulo N (N+order rows, the wrap-around differences accumulate); neumann: only the
    differences that stay inside the grid (N-order rows)"""
    if order == 0:
        return [[1 if i == j else 0 for j in range(N)] for i in range(N)]
    stencil = {1: [(0, 1), (-1, -1)], 2: [(0, -1), (-1, 2), (-2, -1)]}[order]
    rows = []
    if bc == "neumann":
        for k in range(order, N):
            r = [0] * N
            for off, c in stencil:
                r[k + off] += c
            rows.append(r)
        return rows
    for k in range(N + order):
        r = [0] * N
        for off, c in stencil:
            j = k + off
            if bc == "periodic":
                r[j % N] += c
            elif 0 <= j < N:
                r[j] += c
        rows.append(r)
    return rows


def doc_diff(order, bc, N, twod):
    D = doc_diff_1d(order, bc, N)
    if not twod:
        return D
    I = [[1 if i == j else 0 for j in range(N)] for i in range(N)]
    kron = lambda A, B: [[a * b for a in ra for b in rb] for ra in A for rb in B]
    return kron(I, D) + kron(D, I)


def mrf_build(cuqi, meta):
    import io, contextlib
    fam, N, twod = meta["family"], meta["N"], meta["twod"]
    dim = N * N if twod else N
    loc = float(meta["loc"][0]) if len(meta["loc"]) == 1 else np.array(meta["loc"], dtype=float)
    if twod:
        geom = {"tuple": (N, N), "Image2D": cuqi.geometry.Image2D((N, N))}[meta["geom"]]
    else:
        geom = {"int": N, "Continuous1D": cuqi.geometry.Continuous1D(N)}[meta["geom"]]
    par = meta["par"] if meta.get("par_iface", "float") == "float" else np.array([meta["par"]])
    old_max = cuqi.config.MAX_DIM_INV
    with contextlib.redirect_stdout(io.StringIO()), warnings.catch_warnings():
        warnings.simplefilter("ignore")
        try:
            if "max_dim_inv" in meta or "max_dim_inv_exact_side" in meta:
                cuqi.config.MAX_DIM_INV = meta.get("max_dim_inv", meta.get("max_dim_inv_exact_side"))
            if "siblings" in meta:
                sb = meta["siblings"]
                mk_loc = lambda v: float(v[0]) if len(v) == 1 else np.array(v, dtype=float)
                a_loc = None if sb["param"] == "loc" else loc
                a_par = None if sb["param"] == "par" else meta["par"]
                if fam == "GMRF":
                    parent = cuqi.distribution.GMRF(a_loc, a_par, meta["bc"], meta["order"], geometry=geom)
                    key = "mean" if sb["param"] == "loc" else "prec"
                else:
                    parent = getattr(cuqi.distribution, fam)(a_loc, a_par, meta["bc"], geometry=geom)
                    key = "location" if sb["param"] == "loc" else "scale"
                sibs = [parent(**{key: (mk_loc(v) if sb["param"] == "loc" else v)}) for v in sb["values"]]
                xx = np.array(meta["x"], dtype=float)
                for k, o in enumerate(sibs):
                    if k > sb["index"]:
                        o.logpdf(xx)
                return sibs[sb["index"]]
            if fam == "GMRF":
                return cuqi.distribution.GMRF(loc, par, meta["bc"], meta["order"], geometry=geom)
            return getattr(cuqi.distribution, fam)(loc, meta["par"], meta["bc"], geometry=geom)
        finally:
            cuqi.config.MAX_DIM_INV = old_max


def mrf_observe(cuqi, meta):
    d = mrf_build(cuqi, meta)
    x = np.array(meta["x"], dtype=float)
    with np.errstate(all="ignore"), warnings.catch_warnings():
        warnings.simplefilter("ignore")
        v = getattr(d, meta["method"])(x)
    # the oracle's reference operator is its OWN statement of the documented stencils (doc_diff), not the object's operator
    D = doc_diff(meta["order"] if meta["family"] == "GMRF" else 1, meta["bc"], meta["N"], meta["twod"])
    out = {"value": float(np.ravel(v)[0]), "D": [[float(e) for e in r] for r in D]}
    if meta["family"] == "GMRF":
        out["rank"] = int(d._rank)
    return out


def mrf_documented(meta, D):
    """documented density, given the difference operator D of cuqi.operator (the subject of C20)"""
    fam = meta["family"]
    dim = len(meta["x"])
    sh = [a - b for a, b in zip(meta["x"], bc(meta["loc"], dim))]
    dd = [sum(D[i][j] * sh[j] for j in range(dim)) for i in range(len(D))]
    par = meta["par"]
    if fam == "LMRF":       # product over the differences of Laplace(0, b)
        lp = sum(math.log(1 / (2 * par)) - abs(t) / par for t in dd)
    elif fam == "CMRF":     # product over the differences of Cauchy(0, gamma)
        lp = sum(-math.log(math.pi * par * (1 + (t / par) ** 2)) for t in dd)
    else:                   # the (possibly intrinsic) Gaussian N(mean, (prec * D^T D)^-1): true rank and pseudo-determinant
        P = par * (np.array(D).T @ np.array(D))
        ev = np.linalg.eigvalsh(P)
        nz = ev[ev > 1e-9 * ev.max()]
        lp = 0.5 * (-len(nz) * LOG2PI + float(np.sum(np.log(nz)))) - 0.5 * par * sum(t * t for t in dd)
    return lp if meta["method"] != "pdf" else math.exp(lp)


def mrf_case(ctx, cuqi, state, cases, stats, meta, cell):
    ob = mrf_observe(cuqi, meta)
    D = ob.pop("D")
    meta = dict(meta, observed=ob)
    fam, N, twod, order, bcn = meta["family"], meta["N"], meta["twod"], meta["order"], meta["bc"]
    dim = N * N if twod else N
    exp = mrf_documented(meta, D)
    v = ob["value"]
    fail, sig = None, ""
    if not (close_rel(v, exp, 1e-7) if meta["method"] == "pdf" else close(v, exp, 1e-6 if "max_dim_inv" in meta else 1e-8)):
        fail = "%s(%s, %s, bc=%s%s, %s).%s(%s) = %r but the documented density gives %r" % (
            fam, meta["loc"], meta["par"], bcn, ", order=%d" % order if fam == "GMRF" else "", "%dx%d" % (N, N) if twod else N, meta["method"], meta["x"], v, exp)
        if fam == "GMRF" and "max_dim_inv" in meta and bcn != "zero":
            sig = SIG_GMRF_LARGE
            fail += " (dim %d > MAX_DIM_INV = %d: logdet of the regularised precision)" % (dim, meta["max_dim_inv"])
        elif fam == "GMRF" and order == 0 and bcn in ("periodic", "neumann"):
            sig = SIG_GMRF0
        elif fam == "GMRF" and order == 2 and bcn == "neumann":
            sig = SIG_GMRF2N
        else:
            sig = "%s.%s|%s%s" % (fam, meta["method"], bcn, ":order%d" % order if fam == "GMRF" else "")
    stats["mrf"] = stats.get("mrf", 0) + 1
    # certificate data: dd = D (x - loc) exactly; the model checks it against ITS difference operator
    sh = [frac(a) - frac(b) for a, b in zip(meta["x"], bc(meta["loc"], dim))]
    Df = [[Fraction(int(round(e))) for e in r] for r in D]
    dd = fr_mv(Df, sh)
    B = BCS[bcn]
    if fam == "GMRF":
        rk_fixed = state["gmrf_rank_fixed"]
        if order == 2 and bcn == "neumann" and not rk_fixed:
            expr = "match gmrf_detarg_v false 2 BNeumann %s [] with None => true | Some _ => false end" % cbool(twod)     # the model assigns no value: logdet of a zero eigenvalue
            cases.append(Case(expr=expr, kind="DECISION", meta=meta, cell=cell, impl_fail=fail, signature=sig))
            return
        # the number whose log the code takes.  Unrepaired: det P (zero b.c.), product of the dim-1 largest eigenvalues otherwise.
        # After fixes/C20_gmrf_rank_rule.diff: the pseudo-determinant for the true nullity (characteristic polynomial coefficient).
        P = fr_mm(fr_T(Df), Df)
        nullity = 0 if (bcn == "zero" or order == 0) else ((4 if twod else 2) if (order == 2 and bcn == "neumann") else 1)
        if bcn == "zero":
            _, detarg = fr_solve_det(P, [Fraction(0)] * dim)
        elif rk_fixed:
            detarg = fr_pdet(P, nullity)
        elif order == 0:
            detarg = P[0][0] ** (dim - 1)
        else:
            detarg = Fraction(0)
            for i in range(dim):
                Mi = [[P[r][c] for c in range(dim) if c != i] for r in range(dim) if r != i]
                detarg += fr_solve_det(Mi, [Fraction(0)] * (dim - 1))[1]
        if "max_dim_inv" in meta and bcn != "zero":
            # dim > MAX_DIM_INV: ln det(P + 2^-26 I), minus nullity * ln 2^-26 once fixes/C04_gmrf_large_logdet.diff is applied
            delta = Fraction(1, 2 ** 26)
            Pd = [[P[i][j] + (delta if i == j else 0) for j in range(dim)] for i in range(dim)]
            detarg = fr_solve_det(Pd, [Fraction(0)] * dim)[1]
            if state["gmrf_large_fixed"]:
                detarg = detarg / delta ** nullity
            cert = "gmrf_large_cert %s %s %s %s %s %s %s %s %s %s" % (cbool(state["gmrf_large_fixed"]), cnat(order), B, cbool(twod), cnat(N), cql(meta["loc"]), cql(meta["x"]), cql(dd), cnat(ob["rank"]), cq(detarg))
            m = "(gmrf_logpdf %s %s %s %s)" % (cnat(ob["rank"]), cr(meta["par"]), cr(detarg), crl(dd))
            # the Cholesky pivot of a null direction is ~2^-26 and carries a rounding error of ~1e-16 |P|: ln det is good to ~1e-7 only
            expr, tac = encl(m, v, cert="(%s)" % cert, tol=Fraction(1, 10 ** 6))
            cases.append(Case(expr=expr, tac=tac, kind="ENCLOSURE", meta=meta, cell=cell, impl_fail=fail, signature=sig))
            return
        cert = "gmrf_cert_v %s %s %s %s %s %s %s %s %s %s" % (cbool(rk_fixed), cnat(order), B, cbool(twod), cnat(N), cql(meta["loc"]), cql(meta["x"]), cql(dd), cnat(ob["rank"]), cq(detarg))
        m = "(gmrf_logpdf %s %s %s %s)" % (cnat(ob["rank"]), cr(meta["par"]), cr(detarg), crl(dd))
    else:
        cert = "mrf_cert 1%%nat %s %s %s %s %s %s" % (B, cbool(twod), cnat(N), cql(meta["loc"]), cql(meta["x"]), cql(dd))
        if fam == "LMRF":
            m = "(%s %s %s)" % ("lmrf_pdf" if meta["method"] == "pdf" else "lmrf_logpdf", cr(meta["par"]), crl(dd))
        else:
            m = "(cmrf_logpdf %s %s)" % (cr(meta["par"]), crl(dd))
    if meta["method"] == "pdf" and fam != "LMRF":
        m = "(exp %s)" % m
    if not math.isfinite(v):
        cases.append(Case(expr="false", kind="DECISION", meta=meta, cell=cell, impl_fail=fail or "non-finite", signature=sig or "%s|non-finite" % fam))
        return
    expr, tac = encl(m, v, cert="(%s)" % cert, rel=(meta["method"] == "pdf"), tol=10 * TOL if meta["method"] == "pdf" else TOL)
    cases.append(Case(expr=expr, tac=tac, kind="ENCLOSURE", meta=meta, cell=cell, impl_fail=fail, signature=sig))


def mrf_cases(ctx, cuqi, state, cases, stats):
    rng = ctx.rng
    counter = 0
    for fam in ["GMRF", "LMRF", "CMRF"]:
        for bcn in BCS:
            for order in ([0, 1, 2] if fam == "GMRF" else [1]):
                for twod in [False, True]:
                    sizes = ([3, 4, 5, 7] if not twod else ([3, 4] if (fam != "GMRF" or bcn == "zero" or ctx.thorough) else [3]))
                    if order == 2 and bcn == "neumann" and twod:
                        sizes = [4]
                    for N in (sizes if ctx.thorough else sizes[(counter % 2)::2] or sizes[:1]):
                        for rep in range(ctx.n(1, 3)):
                            counter += 1
                            dim = N * N if twod else N
                            loc = [rng.randint(-8, 8) / 4] if counter % 2 == 0 else [rng.randint(-8, 8) / 4 for _ in range(dim)]
                            meta = {"kind": "mrf", "family": fam, "bc": bcn, "order": order, "twod": twod, "N": N, "loc": loc,
                                    "par": rng.randint(2, 24) / 8, "par_iface": ["float", "array"][counter % 2] if fam == "GMRF" else "float",
                                    "geom": (["tuple", "Image2D"] if twod else ["int", "Continuous1D"])[counter % 2]}
                            methods = ["logpdf", "logd"] + (["pdf"] if fam == "LMRF" else [])
                            for method in methods:
                                m2 = dict(meta, method=method, x=[rng.randint(-8, 8) / 4 for _ in range(dim)])
                                mrf_case(ctx, cuqi, state, cases, stats, m2, "%s/%s/order%d/%s/%s" % (fam, bcn, order, "2d" if twod else "1d", method))


def mrf_threshold_cases(ctx, cuqi, state, cases, stats):
    """GMRF on both sides of, and exactly at, cuqi.config.MAX_DIM_INV (lowered through the config module): dim = T-1, T (exact
    eigenvalue route) and T+1... i.e. T = dim+1, dim, dim-1"""
    if not state["gmrf_rank_fixed"]:
        return
    rng = ctx.rng
    for bcn in ("zero", "periodic", "neumann"):
        for order in (0, 1, 2):
            for twod, N in ((False, 5), (True, 3)):
                dim = N * N if twod else N
                for T in ((dim + 1, dim, dim - 1) if (order == 1 or ctx.thorough) else (dim, dim - 1)):
                    meta = {"kind": "mrf", "family": "GMRF", "bc": bcn, "order": order, "twod": twod, "N": N,
                            "loc": [rng.randint(-8, 8) / 4], "par": rng.randint(2, 24) / 8, "par_iface": "float", "geom": "tuple" if twod else "int",
                            "method": "logpdf", "x": [rng.randint(-8, 8) / 4 for _ in range(dim)]}
                    if T < dim:
                        meta["max_dim_inv"] = T
                    else:
                        meta["max_dim_inv_exact_side"] = T
                    mrf_case(ctx, cuqi, state, cases, stats, meta, "GMRF/%s/order%d/%s/logpdf/MAX_DIM_INV=dim%+d" % (bcn, order, "2d" if twod else "1d", T - dim))


def mrf_sibling_cases(ctx, cuqi, state, cases, stats):
    """branching conditioning histories for GMRF / LMRF / CMRF: the location (mean) or the precision / scale left open, several
    conditioned instances alive, each evaluated after its later siblings"""
    rng = ctx.rng
    counter = 0
    for fam in ("GMRF", "LMRF", "CMRF"):
        for bcn in BCS:
            for param in ("loc", "par"):
                counter += 1
                twod = counter % 3 == 0
                N = 3 if twod else 4
                dim = N * N if twod else N
                order = [1, 2, 0][counter % 3] if fam == "GMRF" else 1
                if param == "loc":
                    values = [[rng.randint(-8, 8) / 4 for _ in range(dim)] for _ in range(3)]
                else:
                    values = rng.sample([0.5, 1.5, 2.0, 0.25, 3.0], 3)
                loc0, par0 = [rng.randint(-8, 8) / 4], rng.randint(2, 24) / 8
                for k in (0, 1):
                    meta = {"kind": "mrf", "family": fam, "bc": bcn, "order": order, "twod": twod, "N": N,
                            "loc": values[k] if param == "loc" else loc0, "par": values[k] if param == "par" else par0, "par_iface": "float",
                            "geom": "tuple" if twod else "int", "method": ["logpdf", "logd"][k], "x": [rng.randint(-8, 8) / 4 for _ in range(dim)],
                            "siblings": {"param": param, "values": values, "index": k}}
                    mrf_case(ctx, cuqi, state, cases, stats, meta, "%s/%s/order%d/%s/sibling-of-conditional/%s" % (fam, bcn, order, "2d" if twod else "1d", param))


def mrf_magnitude_cases(ctx, cuqi, state, cases, stats):
    """tiny / huge prec (GMRF) and scale (LMRF, CMRF), evaluation points and location scaled accordingly"""
    rng = ctx.rng
    K = [-34, -16, 16, 34] + ([-60, -50, 50, 60] if ctx.thorough else [])
    for fam in ["GMRF", "LMRF", "CMRF"]:
        for bi, bcn in enumerate(["zero", "periodic", "neumann"]):
            for ki, k in enumerate(K):
                if not ctx.thorough and (ki + bi) % 2 == 1:
                    continue
                N, twod = (4, False) if (ki + bi) % 3 else (3, True)
                dim = N * N if twod else N
                # GMRF: prec * 2^k, lengths * 2^(-k/2);  LMRF / CMRF: scale * 2^k, lengths * 2^k
                c = 2.0 ** (-k // 2) if fam == "GMRF" else 2.0 ** k
                meta = {"kind": "mrf", "family": fam, "bc": bcn, "order": 1, "twod": twod, "N": N,
                        "loc": [c * rng.randint(-8, 8) / 4 for _ in range(dim)] if ki % 2 else [c * rng.randint(-8, 8) / 4],
                        "par": (rng.randint(2, 24) / 8) * 2.0 ** k, "par_iface": "float", "geom": "tuple" if twod else "int", "mag": k,
                        "method": "logpdf", "x": [c * rng.randint(-8, 8) / 4 for _ in range(dim)]}
                mrf_case(ctx, cuqi, state, cases, stats, meta, "%s/%s/order1/%s/logpdf/par*2^%d" % (fam, bcn, "2d" if twod else "1d", k))


# ------------------------------------------------------------------------------------------------
# state of the repairable defects (fixes/C04_*.diff): which formula does this tree implement?
# ------------------------------------------------------------------------------------------------
def witness_values(cuqi):
    import io, contextlib
    import scipy.sparse as spa
    D = cuqi.distribution
    x3 = np.array([0.5, 0.5, 0.5])
    w = {}
    with contextlib.redirect_stdout(io.StringIO()), warnings.catch_warnings(), np.errstate(all="ignore"):
        warnings.simplefilter("ignore")
        w["uniform"] = float(D.Uniform(0.0, 2.0, geometry=3).logpdf(x3))                  # documented: 3 log(1/2)
        w["slap"] = float(D.SmoothedLaplace(0.0, 2.0, 0.5, geometry=3).logpdf(x3))        # documented: 3 log(1/4) - 3 sqrt(.75)/2
        w["cauchy_cdf"] = float(D.Cauchy(0.0, 2.0, geometry=3).cdf(x3))                   # documented: F^3
        m = D.ModifiedHalfNormal(2.0, 3.0, -1.0)
        w["mhn"] = float(m.logpdf(np.array([0.5])))                                        # documented: log(.5) - .75 - .5
        # sqrtcov = lower factor [[1,0],[1,1]]: documented cov = R^T R = [[2,1],[1,1]]; the code uses R R^T = [[1,1],[1,2]]
        g = D.Gaussian(np.zeros(2), sqrtcov=np.array([[1.0, 0.0], [1.0, 1.0]]))
        w["sqrtcov"] = float(np.ravel(g.logpdf(np.array([1.0, 0.0])))[0])                  # documented: -log(2 pi) - 1/2 ; code: -log(2 pi) - 1
        # the docstring's sparse sqrtprec example (upper bidiagonal, DIA storage): det(prec) = 1
        try:
            g = D.Gaussian(np.zeros(3), sqrtprec=spa.diags([1, -1], [0, 1], shape=(3, 3)))
            w["dia"] = float(np.ravel(g.logpdf(np.array([1.0, 0.0, 0.0])))[0])            # documented: -1.5 log(2 pi) - 1/2
        except NotImplementedError:
            w["dia"] = "refused"
        # 40-dimensional correlated covariance with standard deviations ~ 1e-6: det = 2^-1600 det(T) underflows
        T = np.diag(3 * np.ones(40)) + np.diag(-0.5 * np.ones(39), 1) + np.diag(-0.5 * np.ones(39), -1)
        w["logdet"] = float(np.ravel(D.Gaussian(np.zeros(40), cov=T * 2.0 ** -40).logpdf(np.zeros(40)))[0])
        w["logdet_doc"] = -0.5 * (40 * LOG2PI + float(np.linalg.slogdet(T)[1]) - 1600 * math.log(2))
        # grossly non-symmetric "covariance" below numpy.allclose's absolute tolerance
        try:
            D.Gaussian(np.zeros(2), cov=np.array([[4.0, 1.0], [2.0, 3.0]]) * 2.0 ** -30)
            w["symtol"] = "accepted"
        except ValueError:
            w["symtol"] = "refused"
        for key, mk in (("cdf_scalar_mean", lambda: D.Gaussian(0.0, 1.0, geometry=2)), ("cdf_sparse_cov", lambda: D.Gaussian(np.zeros(2), cov=spa.diags([1.0, 1.0])))):
            try:
                w[key] = float(mk().cdf(np.zeros(2)))           # documented: 1/4
            except Exception as e:
                w[key] = "raises " + repr(e)[:80]
        Aw = np.array([[4.0, 1.0], [1.0, 4.0]])
        gw = D.Gaussian(np.zeros(2), cov=Aw)
        a0 = float(np.ravel(gw.logpdf(np.array([1.0, 0.0])))[0])
        Aw *= 4.0
        w["alias"] = [a0, float(np.ravel(gw.logpdf(np.array([1.0, 0.0])))[0]), float(np.asarray(gw.compute_cov())[0][0])]
        old_thr = cuqi.config.MIN_DIM_SPARSE
        try:
            cuqi.config.MIN_DIM_SPARSE = 1
            try:
                w["offsupport"] = float(np.ravel(D.Gaussian(np.zeros(2), cov=np.array([[1.0, 1.0], [1.0, 1.0]])).logpdf(np.array([1.0, 0.0])))[0])
            except Exception as e:
                w["offsupport"] = "raises " + repr(e)[:60]
            Pw = np.array([[1.0, 2, -2, 1], [2, 4, -4, 2], [-2, -4, 4, -2], [1, 2, -2, 5]])
            w["psd_prec"] = float(np.ravel(D.Gaussian(np.zeros(4), prec=Pw).logpdf(np.array([1.0, 0, 0, 0])))[0])
        finally:
            cuqi.config.MIN_DIM_SPARSE = old_thr
        old_max = cuqi.config.MAX_DIM_INV
        try:
            cuqi.config.MAX_DIM_INV = 5
            gl = D.GMRF(np.zeros(6), 2.0, "periodic", 1)
            w["gmrf_large"] = float(gl.logpdf(np.zeros(6)))
        finally:
            cuqi.config.MAX_DIM_INV = old_max
        w["gmrf_large_ref"] = float(D.GMRF(np.zeros(6), 2.0, "periodic", 1).logpdf(np.zeros(6)))
        g0 = D.GMRF(np.zeros(5), 2.0, "periodic", 0)
        w["gmrf0"] = float(g0.logpdf(np.zeros(5)))
        w["gmrf0_rank"] = int(g0._rank)                                         # documented: 2.5 (log 2 - log 2 pi)
        g2 = D.GMRF(np.zeros(5), 2.0, "neumann", 2)
        w["gmrf2n"] = float(g2.logpdf(np.zeros(5)))                                        # documented: rank 3, pdet(2 D^T D)
        w["gmrf2n_rank"] = int(g2._rank)
        # total mass of the SmoothedLaplace density (theorem C04_smoothedlaplace_normalised_refuted: at most 1 - gap for beta > 0);
        # the exact value is (sqrt(beta)/b) K_1(sqrt(beta)/b) = K_1(1) = 0.6019...
        from scipy.integrate import quad
        sl = D.SmoothedLaplace(0.0, 1.0, 1.0, geometry=1)
        w["slap_mass"] = float(quad(lambda t: math.exp(float(sl.logpdf(np.array([t])))), -60.0, 60.0, points=[0.0], epsabs=1e-12, limit=200)[0])
    return w


def detect_state(cuqi):
    w = witness_values(cuqi)
    F = math.atan(0.25) / math.pi + 0.5
    return {"uniform_fixed": close(w["uniform"], 3 * math.log(0.5)),
            "slap_fixed": close(w["slap"], 3 * math.log(0.25) - 3 * math.sqrt(0.75) / 2),
            "cauchy_cdf_fixed": close(w["cauchy_cdf"], F ** 3),
            "dia_fixed": w["dia"] == "refused",
            "logdet_fixed": math.isfinite(w["logdet"]),
            "thr": int(cuqi.config.MIN_DIM_SPARSE),
            "gmrf_rank_fixed": w["gmrf0_rank"] == 5,
            "gmrf_large_fixed": abs(w["gmrf_large"] - w["gmrf_large_ref"]) < 1e-4,       # fixes/C20_gmrf_rank_rule.diff applied?
            "witness": w}


def known_witnesses(ctx):
    import cuqi
    w = witness_values(cuqi)
    F = math.atan(0.25) / math.pi + 0.5
    out = {}
    out["Uniform.logpdf|scalar-bounds:dim>1"] = (not close(w["uniform"], 3 * math.log(0.5)),
        "Uniform(0,2,geometry=3).logpdf([.5,.5,.5]) = %r, documented 3*log(1/2) = %r" % (w["uniform"], 3 * math.log(0.5)))
    out["SmoothedLaplace.logpdf|scalar-scale:dim>1"] = (not close(w["slap"], 3 * math.log(0.25) - 3 * math.sqrt(0.75) / 2),
        "SmoothedLaplace(0,2,0.5,geometry=3).logpdf([.5,.5,.5]) = %r, documented %r" % (w["slap"], 3 * math.log(0.25) - 3 * math.sqrt(0.75) / 2))
    out["Cauchy.cdf|dim>1"] = (not close(w["cauchy_cdf"], F ** 3),
        "Cauchy(0,2,geometry=3).cdf([.5,.5,.5]) = %r (sum of marginals), documented product %r" % (w["cauchy_cdf"], F ** 3))
    out["ModifiedHalfNormal.beta/gamma|getters-return-alpha"] = (not close(w["mhn"], math.log(0.5) - 0.75 - 0.5),
        "ModifiedHalfNormal(2,3,-1).logpdf([.5]) = %r, documented (up to the constant) %r" % (w["mhn"], math.log(0.5) - 0.75 - 0.5))
    out[SIG_SQRTCOV] = (not close(w["sqrtcov"], -LOG2PI - 0.5),
        "Gaussian(0, sqrtcov=[[1,0],[1,1]]).logpdf([1,0]) = %r; documented (cov = R^T R) %r; the code forms R R^T" % (w["sqrtcov"], -LOG2PI - 0.5))
    out[SIG_DIABANDS] = (w["dia"] != "refused" and not close(w["dia"], -1.5 * LOG2PI - 0.5),
        "Gaussian(zeros(3), sqrtprec=scipy.sparse.diags([1,-1],[0,1],shape=(3,3))).logpdf([1,0,0]) = %r, documented %r" % (w["dia"], -1.5 * LOG2PI - 0.5))
    out[SIG_LOGDET] = (not close(w["logdet"], w["logdet_doc"]),
        "Gaussian(zeros(40), cov=2^-40 * tridiag(-.5,3,-.5)).logpdf(0) = %r, documented %r (numpy.linalg.det underflows, log gives -inf)" % (w["logdet"], w["logdet_doc"]))
    out[SIG_SYMTOL] = (w["symtol"] == "accepted",
        "Gaussian(zeros(2), cov=2^-30*[[4,1],[2,3]]) is %s; the same matrix at scale 1 is refused as non-symmetric" % w["symtol"])
    out[SIG_CDF_SCALAR_MEAN] = (not (isinstance(w["cdf_scalar_mean"], float) and abs(w["cdf_scalar_mean"] - 0.25) < 1e-4),
        "Gaussian(0, 1, geometry=2).cdf([0,0]) : %s (documented 1/4)" % (w["cdf_scalar_mean"],))
    out[SIG_CDF_SPARSE] = (not (isinstance(w["cdf_sparse_cov"], float) and abs(w["cdf_sparse_cov"] - 0.25) < 1e-4),
        "Gaussian(zeros(2), cov=scipy.sparse.diags([1,1])).cdf([0,0]) : %s (documented 1/4)" % (w["cdf_sparse_cov"],))
    out["Gaussian.prec|rank-deficient:sparse-side:sqrt-of-negative-rounding-error"] = (math.isnan(w["psd_prec"]),
        "MIN_DIM_SPARSE=1; Gaussian(zeros(4), prec=<rank 2>).logpdf([1,0,0,0]) = %r (nan when the zero eigenvalues are computed as negative numbers)" % w["psd_prec"])
    out[SIG_ALIAS] = (w["alias"][0] == w["alias"][1] and abs(w["alias"][2] - 4.0) > 1e-9,
        "A = diag-free [[4,1],[1,4]]; g = Gaussian(zeros(2), cov=A); A *= 4: logpdf %r -> %r (unchanged) but compute_cov()[0,0] = %r" % tuple(w["alias"]))
    out[SIG_OFFSUPPORT] = (isinstance(w["offsupport"], float) and math.isfinite(w["offsupport"]),
        "MIN_DIM_SPARSE=1; Gaussian(zeros(2), cov=[[1,1],[1,1]]).logpdf([1,0]) = %r; [1,0] is outside the support span{(1,1)}" % (w["offsupport"],))
    out[SIG_GMRF_LARGE] = (abs(w["gmrf_large"] - w["gmrf_large_ref"]) > 1e-4,
        "cuqi.config.MAX_DIM_INV=5; GMRF(zeros(6),2,'periodic',order=1).logpdf(0) = %r, with the exact eigenvalue route %r" % (w["gmrf_large"], w["gmrf_large_ref"]))
    out[SIG_SLAP_MASS] = (abs(w["slap_mass"] - 1.0) > 1e-6,
        "the integral of exp(SmoothedLaplace(0,1,beta=1).logpdf) over the real line is %r, not 1 (exact value K_1(1) = 0.60190723...)" % w["slap_mass"])
    out[SIG_GMRF0] = (not close(w["gmrf0"], 2.5 * (math.log(2) - LOG2PI)),
        "GMRF(zeros(5),2,'periodic',order=0).logpdf(0) = %r, documented N(0, I/2): %r" % (w["gmrf0"], 2.5 * (math.log(2) - LOG2PI)))
    # order 2 neumann, n = 5: D^T D has eigenvalues with product (non-zero ones) = pdet; true rank 3
    Dn = np.array([[-1, 2, -1, 0, 0], [0, -1, 2, -1, 0], [0, 0, -1, 2, -1]], dtype=float)
    ev = np.linalg.eigvalsh(2 * Dn.T @ Dn)
    nz = ev[ev > 1e-9]
    doc = 0.5 * (-len(nz) * LOG2PI + float(np.sum(np.log(nz))))
    out[SIG_GMRF2N] = (not close(w["gmrf2n"], doc),
        "GMRF(zeros(5),2,'neumann',order=2).logpdf(0) = %r with _rank %d; documented (rank 3, pseudo-determinant) %r" % (w["gmrf2n"], w["gmrf2n_rank"], doc))
    return out


def balance_shards(cases, shard=60):
    """common.run_shards cuts the ENCLOSURE cases, in the order given, into files of 60 that are checked in parallel; the wall time
    of the check is that of the slowest file.  Order them so that every file gets the same estimated cost (size of the goal --
    76-dimensional sums, exact 76 x 76 determinants -- plus a surcharge per integral): longest-first into the lightest bin."""
    exact = [c for c in cases if c.kind != "ENCLOSURE"]
    encl = [c for c in cases if c.kind == "ENCLOSURE"]
    if not encl:
        return cases
    nb = -(-len(encl) // shard)
    bins, load = [[] for _ in range(nb)], [0] * nb
    weight = lambda c: len(c.expr) + 3000 * c.expr.count("_cdf")
    for c in sorted(encl, key=weight, reverse=True):
        k = min((b for b in range(nb) if len(bins[b]) < shard), key=lambda b: load[b])
        bins[k].append(c)
        load[k] += weight(c)
    # the heavy exact cases (76 x 76 determinants in DECISION form, if any) keep their spread as well
    return exact + [c for b in bins for c in b]


# ------------------------------------------------------------------------------------------------
def run(ctx):
    import cuqi
    state = detect_state(cuqi)
    ctx.note("state of repairable defects: uniform_fixed=%s slap_fixed=%s cauchy_cdf_fixed=%s dia_fixed=%s logdet_fixed=%s" % (
        state["uniform_fixed"], state["slap_fixed"], state["cauchy_cdf_fixed"], state["dia_fixed"], state["logdet_fixed"]) + " gmrf_rank_fixed=%s" % state["gmrf_rank_fixed"])
    cases, stats = [], {}
    scalar_family_cases(ctx, cuqi, state, cases, stats)
    gaussian_cases(ctx, cuqi, state, cases, stats)
    gaussian_magnitude_cases(ctx, cuqi, state, cases, stats)
    gaussian_cov_cdf_cases(ctx, cuqi, state, cases, stats)
    gaussian_switch_cases(ctx, cuqi, state, cases, stats)
    gaussian_signed_factor_cases(ctx, cuqi, state, cases, stats)
    gaussian_lessons_cases(ctx, cuqi, state, cases, stats)
    gaussian_sibling_cases(ctx, cuqi, state, cases, stats)
    mrf_cases(ctx, cuqi, state, cases, stats)
    mrf_magnitude_cases(ctx, cuqi, state, cases, stats)
    mrf_threshold_cases(ctx, cuqi, state, cases, stats)
    mrf_sibling_cases(ctx, cuqi, state, cases, stats)
    scalar_magnitude_cases(ctx, cuqi, state, cases, stats)
    scalar_cdf_cases(ctx, cuqi, state, cases, stats)
    scalar_falsy_cases(ctx, cuqi, state, cases, stats)
    scalar_boundary_reassign_cases(ctx, cuqi, state, cases, stats)
    scalar_sibling_cases(ctx, cuqi, state, cases, stats)
    box_mass_cases(ctx, cuqi, state, cases, stats)
    userdefined_cases(ctx, cuqi, state, cases, stats)
    cases = balance_shards(cases)
    return Result(cases=cases, rule=RULE, extra={"c04_stats": stats, "c04_state": {k: v for k, v in state.items() if k != "witness"}},
                  assumptions=["lnGamma at shapes that are not integers or half-integers enters as a certificate value from scipy.special.gammaln, cross-checked against libm lgamma to 1e-12",
                               "the difference operator matrices of cuqi.operator (subject of C20) are re-derived by the model and compared entry-wise through D(x-loc); the oracle for the MRFs takes the operator's matrix as given",
                               "exact inverses / determinants / quadratic forms of the Gaussian inputs are computed by the harness in Fractions and re-checked by the model over Q (certificates)"])


def recheck(cuqi, meta):
    """re-run one case on the implementation and apply the independent oracle: (observed, fail, signature)"""
    k = meta.get("kind")
    if k == "scalar":
        obs = scalar_observe(cuqi, meta)
        fail, sig, exp = scalar_oracle(meta["family"], meta["params"], meta["x"], meta["dim"], meta["method"], obs, meta["forms"])
        return {"value": obs, "documented": exp}, fail, sig
    if k == "gaussian" and (meta.get("singular") or meta.get("gkind") == "linop"):
        return g_observe(cuqi, meta), None, ""
    if k == "gaussian" and "replay_meta" in meta:
        ob = g_observe(cuqi, meta["replay_meta"])
        fail, sig = g_oracle(meta, ob)
        return ob, fail, sig
    if k == "gaussian":
        ob = g_observe(cuqi, meta)
        fail, sig = g_oracle(meta, ob)
        if ob["outcome"] == "value" and not meta.get("malformed"):
            ob["documented"] = g_documented(meta)[meta["method"]]
        return ob, fail, sig
    if k == "galias":
        return meta.get("observed"), None, SIG_ALIAS
    if k == "gcov":
        ob = gcov_observe(cuqi, meta)
        tmp, st = [], {}
        gcov_case(None, cuqi, {}, tmp, st, {kk: vv for kk, vv in meta.items() if kk != "observed"}, "replay")
        return ob, tmp[0].impl_fail, tmp[0].signature
    if k == "boxmass":
        obs = boxmass_observe(cuqi, meta)
        fail, sig, exp = boxmass_oracle(meta, obs)
        return {"integral of the implementation's density over the box": obs, "documented mass": exp}, fail, sig
    if k == "mrf":
        ob = mrf_observe(cuqi, meta)
        D = ob.pop("D")
        exp = mrf_documented(meta, D)
        fail = None if close(ob["value"], exp, 1e-8) else "%s.%s = %r, documented %r" % (meta["family"], meta["method"], ob["value"], exp)
        ob["documented"] = exp
        return ob, fail, "%s.%s|%s" % (meta["family"], meta["method"], meta["bc"])
    return None, None, ""


def oracle(ctx, meta):
    import cuqi
    try:
        ob, fail, sig = recheck(cuqi, meta)
    except Exception as e:
        return "re-running the case on the implementation raised %r" % (e,)
    return fail


def classify(meta, detail):
    k = meta.get("kind")
    if k == "scalar":
        return "%s.%s|%s" % (meta["family"], meta["method"].replace("_own", ""), meta.get("forms", ""))
    if k == "gaussian":
        return "Gaussian.%s|%s:%s" % (meta.get("method"), meta.get("form"), meta.get("gkind"))
    if k == "boxmass":
        return "%s.normalisation|%s" % (meta["family"], meta.get("forms", ""))
    if k == "mrf":
        return "%s.%s|%s%s" % (meta["family"], meta["method"], meta["bc"], ":order%d" % meta["order"] if meta["family"] == "GMRF" else "")
    return "C04|" + str(meta.get("witness", ""))


def replay(ctx, meta):
    import json, cuqi
    m = meta.get("meta", meta)
    print(json.dumps({k: v for k, v in meta.items() if k != "meta"}, indent=1)[:3000])
    print("case:", json.dumps(m, default=str)[:3000])
    if "kind" not in m:
        for sig, (fails, detail) in known_witnesses(ctx).items():
            if sig == m.get("witness"):
                print("witness %s: still fails = %s; %s" % (sig, fails, detail))
        return 0
    ob, fail, sig = recheck(cuqi, m)
    print("implementation now:", ob)
    print("stored observation:", m.get("observed"))
    print("independent oracle:", fail or "property holds on this input")
    return 0
