(* C16 -- Levenberg-Marquardt: what one iteration of the model (Model/C16_Solve.v lm_step: the damped normal-equations
   step, the gain-ratio test and the nu schedule with its floors) does to the objective, for every iteration.
   Carrier: a commutative ring embedded order-reflectingly in R with a compatible division (Qc, R).
   The linear solver is an oracle; the only thing asked of it is that what it returns solves the system it was
   handed:  (J^T J + nu I) s = g   (hypothesis along the trajectory, not for all matrices).

   Results (all for an arbitrary state / every iteration count):
     lm_matrix_apply      the matrix the model hands to the solver acts as  s |-> J^T (J s) + nu s
     lm_step_descent      <s,g> = |J s|^2 + nu |s|^2 > 0;  gain ratio = 2 (f - ftemp) / <s,g>;  the step is accepted
                          IFF ftemp <= f;  in either case f' <= f
     lm_nu_schedule       nu' as a function of the gain ratio (x2 with floor nu0 / keep / halve with cut-off to 0 below nu0)
     lm_step_fixed_point  s = 0  ->  g = J^T r = 0
     lm_descent           along the whole run of lm_solve: f never increases, nu stays >= 0, f(returned) <= f(x0) *)
From CV Require Import Base.Tac Base.LinAlg Model.C16_Solve Proofs.C16_CG.
From Coq Require Import Reals Lra Ring.
Local Open Scope R_scope.

Section LMdesc.
Variable T : Type.
Variables (t0 t1 : T) (tadd tmul tsub : T -> T -> T) (topp : T -> T).
Hypothesis Tth : ring_theory t0 t1 tadd tmul tsub topp (@eq T).
Add Ring TringLMd : Tth.
Variable tdiv : T -> T -> T.
Variable tleb : T -> T -> bool.

Local Notation vec := (list T).
Local Notation mat := (list (list T)).
Local Notation Dot := (dot t0 tadd tmul).
Local Notation Nsq := (normsq t0 tadd tmul).
Local Notation Vadd := (vadd tadd).
Local Notation Vsub := (vsub tsub).
Local Notation Vscale := (vscale tmul).
Local Notation Matvec := (matvec t0 tadd tmul).
Local Notation Mattvec := (mattvec t0 tadd tmul).
Local Notation Col := (col t0).
Local Notation Unit := (unit_vec t0 t1).
Local Notation Lm_matrix := (lm_matrix T t0 t1 tadd tmul).

(* ---------- matrix algebra: (J^T J + nu I) s  =  J^T (J s) + nu s ---------- *)
Lemma map_const_seq (c : T) s k : map (fun _ : nat => c) (seq s k) = repeat c k.
Proof. revert s; induction k as [|k IH]; intros s; cbn; [reflexivity | rewrite IH; reflexivity]. Qed.

Lemma vadd_map {A : Type} (f g : A -> T) (l : list A) : Vadd (map f l) (map g l) = map (fun i => tadd (f i) (g i)) l.
Proof. induction l as [|a l IH]; cbn; [reflexivity | rewrite IH; reflexivity]. Qed.

Lemma nth_seq_id (v : vec) (d : T) k : length v = k -> map (fun j => nth j v d) (seq 0 k) = v.
Proof.
  revert k; induction v as [|a v IH]; intros k Hk; cbn in Hk; subst k; cbn [length seq map]; [reflexivity|].
  cbn [nth]. f_equal. rewrite <- seq_shift, map_map. cbn [nth]. apply IH. reflexivity.
Qed.

Lemma vscale_nth_seq c (row : vec) k : length row = k -> Vscale c row = map (fun j => tmul c (nth j row t0)) (seq 0 k).
Proof. intros H. rewrite <- (nth_seq_id row t0 k H) at 1. unfold vscale. rewrite map_map. reflexivity. Qed.

Lemma unit_vec_length k i : length (Unit k i) = k.
Proof. revert i; induction k as [|k IH]; intros i; cbn; [reflexivity|]. destruct i; cbn; [rewrite repeat_length | rewrite IH]; reflexivity. Qed.

Lemma mattvec_cols k (A : mat) : wf_mat k A -> forall y, Mattvec k A y = map (fun j => Dot (Col A j) y) (seq 0 k).
Proof.
  intros H; induction H as [|row A Hr HA IH]; intros y.
  - cbn. unfold vzero. symmetry. apply map_const_seq.
  - destruct y as [|b y].
    + cbn. unfold vzero. symmetry. apply map_const_seq.
    + cbn [mattvec]. rewrite IH, (vscale_nth_seq b row k Hr), vadd_map. apply map_ext. intros j. unfold col. cbn [map dot]. ring.
Qed.

Lemma combine_map_self {A B : Type} (f : A -> B) (l : list A) : combine l (map f l) = map (fun i => (i, f i)) l.
Proof. induction l as [|a l IH]; cbn; [reflexivity | rewrite IH; reflexivity]. Qed.

Lemma lm_matrix_rows k (J : mat) nu :
  Lm_matrix k J nu = map (fun i => Vadd (Mattvec k J (Col J i)) (Vscale nu (Unit k i))) (seq 0 k).
Proof.
  unfold lm_matrix, add_diag, matmul, transpose. rewrite !map_map, map_length, seq_length. cbv beta.
  rewrite combine_map_self, map_map. reflexivity.
Qed.

Lemma lm_matrix_apply k (J : mat) nu (s : vec) : wf_mat k J -> length s = k ->
  Matvec (Lm_matrix k J nu) s = Vadd (Mattvec k J (Matvec J s)) (Vscale nu s).
Proof.
  intros HJ Hs. rewrite lm_matrix_rows. unfold matvec at 1. rewrite map_map.
  rewrite (mattvec_cols k J HJ (Matvec J s)), (vscale_nth_seq nu s k Hs), vadd_map.
  apply map_ext_in. intros i Hi. apply in_seq in Hi.
  rewrite (dot_vadd_l T t0 t1 tadd tmul tsub topp Tth).
  2:{ rewrite (mattvec_length T t0 tadd tmul k J _ HJ), vscale_length, unit_vec_length. reflexivity. }
  rewrite (dot_vscale_l T t0 t1 tadd tmul tsub topp Tth), (dot_unit_vec T t0 t1 tadd tmul tsub topp Tth k i s Hs) by lia.
  rewrite (dot_comm T t0 t1 tadd tmul tsub topp Tth (Mattvec k J (Col J i)) s).
  rewrite <- (adjoint_identity T t0 t1 tadd tmul tsub topp Tth k J s (Col J i) HJ Hs).
  rewrite (dot_comm T t0 t1 tadd tmul tsub topp Tth (Matvec J s)). reflexivity.
Qed.

Lemma matvec_vzero (M : mat) k : Matvec M (vzero t0 k) = vzero t0 (length M).
Proof.
  unfold matvec, vzero. induction M as [|row M IH]; cbn; [reflexivity|].
  rewrite IH. f_equal. apply (dot_vzero_r T t0 t1 tadd tmul tsub topp Tth).
Qed.

Lemma lm_matrix_length k J nu : length (Lm_matrix k J nu) = k.
Proof. rewrite lm_matrix_rows, map_length, seq_length. reflexivity. Qed.

Lemma dot_step_den : forall (x s g : vec), length x = length s -> Dot (Vsub (Vsub x s) x) g = topp (Dot s g).
Proof.
  induction x as [|a x IH]; intros [|c s] [|d g] H; cbn in *; try discriminate; try ring.
  rewrite (IH s g) by lia. ring.
Qed.

(* ---------- the ordered part ---------- *)
Variable phi : T -> R.
Hypothesis phi_0 : phi t0 = 0.
Hypothesis phi_1 : phi t1 = 1.
Hypothesis phi_add : forall a b, phi (tadd a b) = phi a + phi b.
Hypothesis phi_mul : forall a b, phi (tmul a b) = phi a * phi b.
Hypothesis phi_sub : forall a b, phi (tsub a b) = phi a - phi b.
Hypothesis phi_opp : forall a, phi (topp a) = - phi a.
Hypothesis phi_leb : forall a b, tleb a b = true <-> phi a <= phi b.
Hypothesis phi_div : forall a b, phi b <> 0 -> phi (tdiv a b) = phi a / phi b.

Lemma nsq_nonneg (p : vec) : 0 <= phi (Nsq p).
Proof. unfold normsq. induction p as [|c p IHp]; cbn; [rewrite phi_0; lra|]. rewrite phi_add, phi_mul. nra. Qed.

Lemma dot_zero_of_nsq (s p : vec) : phi (Nsq p) = 0 -> phi (Dot s p) = 0.
Proof.
  unfold normsq. revert s; induction p as [|c p IH]; intros [|a s] H; cbn in *; try exact phi_0.
  rewrite phi_add, phi_mul in *.
  pose proof (nsq_nonneg p) as Hp. unfold normsq in Hp.
  assert (Hc : phi c = 0) by nra. rewrite Hc, (IH s) by nra. ring.
Qed.

Lemma req_iff a b : req T tleb a b = true <-> phi a = phi b.
Proof. unfold req. rewrite andb_true_iff, !phi_leb. lra. Qed.

Lemma rltb_iff a b : rltb T tleb a b = true <-> phi a < phi b.
Proof.
  unfold rltb. rewrite negb_true_iff. split.
  - intros H. destruct (Rlt_le_dec (phi a) (phi b)) as [Hl|Hl]; [exact Hl|]. apply phi_leb in Hl. congruence.
  - intros H. destruct (tleb b a) eqn:E; [apply phi_leb in E; lra | reflexivity].
Qed.

Lemma rltb_false_iff a b : rltb T tleb a b = false <-> phi b <= phi a.
Proof.
  split; intros H.
  - destruct (Rlt_le_dec (phi a) (phi b)) as [Hl|Hl]; [apply rltb_iff in Hl; congruence | exact Hl].
  - destruct (rltb T tleb a b) eqn:E; [apply rltb_iff in E; lra | reflexivity].
Qed.

Lemma phi_rmax a b : phi (rmax T tleb a b) = Rmax (phi a) (phi b).
Proof.
  unfold rmax. destruct (tleb b a) eqn:E.
  - apply phi_leb in E. rewrite Rmax_left; [reflexivity | exact E].
  - assert (phi a < phi b) by (apply rltb_iff; unfold rltb; rewrite E; reflexivity). rewrite Rmax_right; [reflexivity | lra].
Qed.

Local Notation Rtwo := (rtwo T t1 tadd).
Local Notation Rhalf := (rhalf T t1 tadd tdiv).
Local Notation Quarter := (quarter T t1 tadd tdiv).
Local Notation Three_quarters := (three_quarters T t1 tadd tdiv).

Lemma phi_rtwo : phi Rtwo = 2.
Proof. unfold rtwo. rewrite phi_add, phi_1. lra. Qed.
Lemma phi_rhalf : phi Rhalf = / 2.
Proof. unfold rhalf. rewrite phi_div by (rewrite phi_rtwo; lra). rewrite phi_1, phi_rtwo. lra. Qed.
Lemma phi_quarter : phi Quarter = / 4.
Proof. unfold quarter. rewrite phi_div; rewrite ?phi_add, ?phi_rtwo, ?phi_1; lra. Qed.
Lemma phi_three_quarters : phi Three_quarters = 3 / 4.
Proof. unfold three_quarters. rewrite phi_div; rewrite ?phi_add, ?phi_rtwo, ?phi_1; lra. Qed.

(* ---------- one iteration ---------- *)
Variables (F : vec -> vec) (Jf : vec -> mat).
Variable solve : mat -> vec -> vec.
Variable rnorm : vec -> T.
Variable n : nat.
Variables (nu0 gradtol : T).

Local Notation lm_state := (lm_state T).
Local Notation Lm_init := (lm_init T t0 t1 tadd tmul tdiv F Jf rnorm n).
Local Notation Lm_step := (lm_step T t0 t1 tadd tmul tsub topp tdiv tleb F Jf solve rnorm n nu0).
Local Notation Lm_iter := (lm_iter T t0 t1 tadd tmul tsub topp tdiv tleb F Jf solve rnorm n nu0).
Local Notation Lm_loop := (lm_loop T t0 t1 tadd tmul tsub topp tdiv tleb F Jf solve rnorm n nu0 gradtol).
Local Notation Lm_solve := (lm_solve T t0 t1 tadd tmul tsub topp tdiv tleb F Jf solve rnorm n nu0 gradtol).
Local Notation Lm_continue := (lm_continue T t0 tdiv tleb gradtol).
Local Notation Lm_ratio := (lm_ratio T t0 t1 tadd tmul tsub topp tdiv tleb).
Local Notation Half_sq := (half_sq T t0 t1 tadd tmul tdiv).
Local Notation Lm_inv := (lm_inv T t0 t1 tadd tmul tdiv F Jf rnorm n).

(* the quantities of one iteration, as the code forms them *)
Definition step_s (st : lm_state) : vec := solve (Lm_matrix n (lm_J T st) (lm_nu T st)) (lm_g T st).
Definition step_xtemp (st : lm_state) : vec := Vsub (lm_x T st) (step_s st).
Definition step_ftemp (st : lm_state) : T := Half_sq (F (step_xtemp st)).
Definition step_ratio (st : lm_state) : T := Lm_ratio (lm_f T st) (step_ftemp st) (lm_x T st) (step_xtemp st) (lm_g T st).

(* the solver returned a solution of the system it was handed *)
Definition solved (st : lm_state) : Prop :=
  length (step_s st) = n /\ Matvec (Lm_matrix n (lm_J T st) (lm_nu T st)) (step_s st) = lm_g T st.

Section OneStep.
Variable st : lm_state.
Hypothesis Hx : length (lm_x T st) = n.
Hypothesis HJ : wf_mat n (lm_J T st).
Hypothesis Hg : length (lm_g T st) = n.
Hypothesis Hsol : solved st.

Local Notation s := (step_s st).
Local Notation g := (lm_g T st).
Local Notation J := (lm_J T st).
Local Notation nu := (lm_nu T st).

Lemma g_expand : g = Vadd (Mattvec n J (Matvec J s)) (Vscale nu s).
Proof. destruct Hsol as (Hs & He). rewrite <- He at 1. apply lm_matrix_apply; assumption. Qed.

Lemma len_JtJs : length (Mattvec n J (Matvec J s)) = length (Vscale nu s).
Proof. destruct Hsol as (Hs & _). rewrite (mattvec_length T t0 tadd tmul n J _ HJ), vscale_length. symmetry; exact Hs. Qed.

(* <s, g> = |J s|^2 + nu |s|^2 *)
Lemma sg_identity : Dot s g = tadd (Nsq (Matvec J s)) (tmul nu (Nsq s)).
Proof.
  destruct Hsol as (Hs & _). rewrite g_expand at 1.
  rewrite (dot_vadd_r T t0 t1 tadd tmul tsub topp Tth) by exact len_JtJs.
  rewrite (dot_vscale_r T t0 t1 tadd tmul tsub topp Tth).
  rewrite <- (adjoint_identity T t0 t1 tadd tmul tsub topp Tth n J s (Matvec J s) HJ Hs).
  reflexivity.
Qed.

(* |g|^2 = <J g, J s> + nu <g, s> *)
Lemma gg_identity : Nsq g = tadd (Dot (Matvec J g) (Matvec J s)) (tmul nu (Dot g s)).
Proof.
  unfold normsq. rewrite g_expand at 2.
  rewrite (dot_vadd_r T t0 t1 tadd tmul tsub topp Tth) by exact len_JtJs.
  rewrite (dot_vscale_r T t0 t1 tadd tmul tsub topp Tth).
  rewrite <- (adjoint_identity T t0 t1 tadd tmul tsub topp Tth n J g (Matvec J s) HJ Hg). reflexivity.
Qed.

Hypothesis Hnu : 0 <= phi nu.
Hypothesis Hgnz : phi (Nsq g) <> 0.

Lemma sg_pos : 0 < phi (Dot s g).
Proof.
  pose proof (nsq_nonneg (Matvec J s)) as H1. pose proof (nsq_nonneg s) as H2.
  assert (E : phi (Dot s g) = phi (Nsq (Matvec J s)) + phi nu * phi (Nsq s)) by (rewrite sg_identity, phi_add, phi_mul; reflexivity).
  destruct (Rle_lt_dec (phi (Dot s g)) 0) as [Hle | Hlt]; [exfalso | exact Hlt].
  assert (P1 : 0 <= phi nu * phi (Nsq s)) by (apply Rmult_le_pos; assumption).
  assert (Z0 : phi (Dot s g) = 0) by lra.
  assert (Z1 : phi (Nsq (Matvec J s)) = 0) by lra.
  apply Hgnz. rewrite gg_identity, phi_add, phi_mul.
  rewrite (dot_zero_of_nsq (Matvec J g) (Matvec J s) Z1).
  rewrite (dot_comm T t0 t1 tadd tmul tsub topp Tth g s), Z0. ring.
Qed.

Hypothesis Hf : lm_f T st = Half_sq (F (lm_x T st)).

(* the gain ratio the code computes is  2 (f - ftemp) / <s, g>  -- in both branches of its `if num != 0 and den != 0` *)
Lemma ratio_value : phi (step_ratio st) = 2 * (phi (lm_f T st) - phi (step_ftemp st)) / phi (Dot s g).
Proof.
  pose proof sg_pos as Hpos. destruct Hsol as (Hs & _).
  unfold step_ratio, lm_ratio.
  assert (Hden : phi (Dot (Vsub (step_xtemp st) (lm_x T st)) g) = - phi (Dot s g)).
  { unfold step_xtemp. rewrite dot_step_den by (rewrite Hx, Hs; reflexivity). apply phi_opp. }
  assert (Hdz : req T tleb (Dot (Vsub (step_xtemp st) (lm_x T st)) g) t0 = false).
  { destruct (req T tleb _ t0) eqn:E; [ | reflexivity]. apply req_iff in E. rewrite Hden, phi_0 in E. lra. }
  rewrite Hdz. cbn [negb].
  destruct (req T tleb (tsub (lm_f T st) (step_ftemp st)) t0) eqn:En; cbn [negb andb].
  - apply req_iff in En. rewrite phi_sub, phi_0 in En. rewrite phi_0. replace (phi (lm_f T st) - phi (step_ftemp st)) with 0 by lra.
    unfold Rdiv. ring.
  - rewrite phi_mul, phi_opp, phi_rtwo, phi_div by (rewrite Hden; lra). rewrite Hden, phi_sub. field. lra.
Qed.

(* the acceptance test `ratio < mu0 = 0` rejects exactly the trial points that increase the objective *)
Lemma accept_iff : rltb T tleb (step_ratio st) t0 = false <-> phi (step_ftemp st) <= phi (lm_f T st).
Proof.
  pose proof sg_pos as Hpos. rewrite rltb_false_iff, phi_0, ratio_value.
  set (N := phi (lm_f T st) - phi (step_ftemp st)). set (D := phi (Dot s g)) in *.
  split; intros H.
  - assert (0 <= N); [ | unfold N in *; lra].
    destruct (Rle_lt_dec 0 N) as [|Hn]; [assumption | exfalso].
    assert (2 * N / D < 0); [ | lra]. unfold Rdiv. apply Ropp_lt_cancel. rewrite Ropp_0.
    replace (- (2 * N * / D)) with (2 * (- N) * / D) by ring. apply Rmult_lt_0_compat; [lra | apply Rinv_0_lt_compat; exact Hpos].
  - assert (0 <= N) by (unfold N; lra). unfold Rdiv. apply Rmult_le_pos; [lra | left; apply Rinv_0_lt_compat; exact Hpos].
Qed.

Theorem lm_step_descent :
  let st' := Lm_step st in
  0 < phi (Dot s g) /\
  Dot s g = tadd (Nsq (Matvec J s)) (tmul nu (Nsq s)) /\
  phi (step_ratio st) = 2 * (phi (lm_f T st) - phi (step_ftemp st)) / phi (Dot s g) /\
  ((phi (step_ftemp st) <= phi (lm_f T st) /\ lm_x T st' = step_xtemp st /\ lm_f T st' = step_ftemp st) \/
   (phi (lm_f T st) < phi (step_ftemp st) /\ lm_x T st' = lm_x T st /\ lm_f T st' = lm_f T st /\
    lm_nu T st' = rmax T tleb (tmul Rtwo nu) nu0)) /\
  phi (lm_f T st') <= phi (lm_f T st).
Proof.
  cbn zeta. split; [exact sg_pos|]. split; [exact sg_identity|]. split; [exact ratio_value|].
  pose proof accept_iff as Hacc.
  unfold lm_step. fold (step_s st). fold (step_xtemp st). fold (step_ftemp st). fold (step_ratio st).
  destruct (rltb T tleb (step_ratio st) t0) eqn:E; cbn [lm_x lm_f lm_nu].
  - assert (Hlt : phi (lm_f T st) < phi (step_ftemp st)).
    { destruct (Rlt_le_dec (phi (lm_f T st)) (phi (step_ftemp st))) as [Hl|Hl]; [exact Hl|]. apply Hacc in Hl. discriminate. }
    split; [right; repeat split; try reflexivity; exact Hlt | lra].
  - assert (Hle : phi (step_ftemp st) <= phi (lm_f T st)) by (apply Hacc; reflexivity).
    split; [left; repeat split; try reflexivity; exact Hle | exact Hle].
Qed.

End OneStep.

(* a fixed point of the iteration (the solver returns the zero step for the system it was handed): the gradient vanishes *)
Theorem lm_step_fixed_point (st : lm_state) :
  Matvec (Lm_matrix n (lm_J T st) (lm_nu T st)) (step_s st) = lm_g T st -> step_s st = vzero t0 n ->
  lm_g T st = vzero t0 n.
Proof. intros He Hz. rewrite <- He, Hz, matvec_vzero, lm_matrix_length. reflexivity. Qed.

(* the nu schedule, no hypothesis on the solver: nu' is a function of nu, nu0 and the gain ratio *)
Theorem lm_nu_schedule (st : lm_state) :
  let st' := Lm_step st in let r := phi (step_ratio st) in let nu := phi (lm_nu T st) in
  (r < 0 -> lm_x T st' = lm_x T st /\ lm_f T st' = lm_f T st) /\
  (0 <= r -> lm_x T st' = step_xtemp st /\ lm_f T st' = step_ftemp st) /\
  (r < / 4 -> phi (lm_nu T st') = Rmax (2 * nu) (phi nu0)) /\
  (/ 4 <= r <= 3 / 4 -> lm_nu T st' = lm_nu T st) /\
  (3 / 4 < r -> nu / 2 < phi nu0 -> lm_nu T st' = t0) /\
  (3 / 4 < r -> phi nu0 <= nu / 2 -> phi (lm_nu T st') = nu / 2) /\
  (0 <= nu -> 0 <= phi (lm_nu T st')).
Proof.
  cbn zeta. unfold lm_step. fold (step_s st). fold (step_xtemp st). fold (step_ftemp st). fold (step_ratio st).
  pose proof phi_quarter as Hq. pose proof phi_three_quarters as Ht. pose proof phi_rhalf as Hh. pose proof phi_rtwo as H2.
  destruct (rltb T tleb (step_ratio st) t0) eqn:E0; cbn [lm_x lm_f lm_nu].
  - apply rltb_iff in E0. rewrite phi_0 in E0.
    rewrite phi_rmax, phi_mul, H2.
    repeat split; try (intros; exfalso; lra); try (intros; reflexivity).
    intros Hn. eapply Rle_trans; [ | apply Rmax_l]. lra.
  - apply rltb_false_iff in E0. rewrite phi_0 in E0.
    destruct (rltb T tleb (step_ratio st) Quarter) eqn:E1.
    + apply rltb_iff in E1. rewrite Hq in E1. rewrite phi_rmax, phi_mul, H2.
      repeat split; try (intros; exfalso; lra); try (intros; reflexivity).
      intros Hn. eapply Rle_trans; [ | apply Rmax_l]. lra.
    + apply rltb_false_iff in E1. rewrite Hq in E1.
      destruct (rltb T tleb Three_quarters (step_ratio st)) eqn:E2.
      * apply rltb_iff in E2. rewrite Ht in E2.
        destruct (rltb T tleb (tmul Rhalf (lm_nu T st)) nu0) eqn:E3.
        -- apply rltb_iff in E3. rewrite phi_mul, Hh in E3. rewrite phi_0.
           repeat split; try (intros; exfalso; lra); try (intros; reflexivity). intros; lra.
        -- apply rltb_false_iff in E3. rewrite phi_mul, Hh in E3. rewrite phi_mul, Hh.
           repeat split; try (intros; exfalso; lra); try (intros; reflexivity); intros; lra.
      * apply rltb_false_iff in E2. rewrite Ht in E2.
        repeat split; try (intros; exfalso; lra); try (intros; reflexivity). intros; lra.
Qed.

(* ---------- the whole run ---------- *)
Hypothesis J_shape : forall x, length x = n -> wf_mat n (Jf x).
(* LA.norm: non-negative, and its square is the sum of squares *)
Hypothesis rnorm_law : forall v, length v = n -> 0 <= phi (rnorm v) /\ phi (rnorm v) * phi (rnorm v) = phi (Nsq v).
Hypothesis gradtol_nonneg : 0 <= phi gradtol.

Lemma lm_iter_shift' k st : Lm_iter (S k) st = Lm_iter k (Lm_step st).
Proof. induction k as [|k IH]; [reflexivity|]. cbn [lm_iter] in *. rewrite IH. reflexivity. Qed.

Lemma lm_loop_spec2 fuel : forall i ng0 st st' i',
  Lm_loop fuel i ng0 st = (st', i') ->
  exists j, i' = (i + j)%nat /\ (j <= fuel)%nat /\ st' = Lm_iter j st /\
            (forall l, (l < j)%nat -> Lm_continue ng0 (Lm_iter l st) = true) /\
            ((j < fuel)%nat -> Lm_continue ng0 st' = false).
Proof.
  induction fuel as [|f IH]; intros i ng0 st st' i' H; cbn [lm_loop] in H.
  - inv H. exists 0%nat. repeat split; try lia.
  - destruct (Lm_continue ng0 st) eqn:E.
    + apply IH in H as (j & -> & Hj & -> & Hall & Hc). exists (S j). rewrite lm_iter_shift'.
      repeat split; try lia.
      * intros [|l] Hl; [exact E | rewrite lm_iter_shift'; apply Hall; lia].
      * intros Hlt. apply Hc. lia.
    + inv H. exists 0%nat. repeat split; try lia. intros _. exact E.
Qed.

Definition good (st : lm_state) : Prop := Lm_inv st /\ length (lm_x T st) = n /\ 0 <= phi (lm_nu T st).

Lemma good_shapes st : good st ->
  wf_mat n (lm_J T st) /\ length (lm_g T st) = n /\ lm_f T st = Half_sq (F (lm_x T st)) /\ lm_ng T st = rnorm (lm_g T st).
Proof.
  intros ((Hr & HJ & Hf & Hg & Hng) & Hx & Hnu).
  assert (HJw : wf_mat n (lm_J T st)) by (rewrite HJ; apply J_shape; exact Hx).
  repeat split; try assumption.
  - rewrite Hg. unfold lm_grad. apply mattvec_length. apply J_shape; exact Hx.
  - rewrite Hf, Hr. reflexivity.
Qed.

Lemma good_init x0 : length x0 = n -> good (Lm_init x0).
Proof.
  intros Hx. split; [apply lm_init_inv|]. split; [exact Hx|].
  cbn [lm_init lm_nu]. apply rnorm_law. apply mattvec_length. apply J_shape; exact Hx.
Qed.

Lemma good_step st : good st -> length (step_s st) = n -> good (Lm_step st).
Proof.
  intros (Hinv & Hx & Hnu) Hs. split; [apply lm_step_inv; exact Hinv|]. split.
  - unfold lm_step. fold (step_s st). destruct (rltb T tleb _ t0); cbn [lm_x]; [exact Hx|].
    rewrite vsub_length; rewrite ?Hs; lia.
  - apply (lm_nu_schedule st). exact Hnu.
Qed.

Lemma continue_nonzero ng0 st : good st -> Lm_continue ng0 st = true -> phi (Nsq (lm_g T st)) <> 0.
Proof.
  intros Hgood Hc Hz. destruct (good_shapes st Hgood) as (_ & Hgl & _ & Hng).
  unfold lm_continue in Hc. apply andb_true_iff in Hc as (Hc1 & Hc2).
  assert (Hn0 : phi ng0 <> 0).
  { intros E. apply negb_true_iff in Hc1. assert (req T tleb ng0 t0 = true) by (apply req_iff; rewrite phi_0; exact E). congruence. }
  apply rltb_iff in Hc2. rewrite phi_div in Hc2 by exact Hn0. rewrite Hng in Hc2.
  destruct (rnorm_law _ Hgl) as (Hnn & Hsq). rewrite Hz in Hsq.
  assert (phi (rnorm (lm_g T st)) = 0) by nra. rewrite H in Hc2. unfold Rdiv in Hc2. rewrite Rmult_0_l in Hc2. lra.
Qed.

(* LM(...).solve(), the whole run: as long as the linear solver returns solutions of the systems it is handed, at EVERY
   iteration the step satisfies <s,g> > 0, it is accepted iff the trial objective does not exceed the current one, the
   objective 1/2|F|^2 never increases, nu stays >= 0 -- so the returned point is no worse than the start. *)
Definition descent_conclusion (x0 : vec) (st : lm_state) (i : nat) : Prop :=
  let tr := fun j => Lm_iter j (Lm_init x0) in
  st = tr i /\
  (forall j, (j <= i)%nat -> lm_f T (tr j) = Half_sq (F (lm_x T (tr j))) /\ 0 <= phi (lm_nu T (tr j)) /\ length (lm_x T (tr j)) = n) /\
  (forall j, (j < i)%nat ->
     0 < phi (Dot (step_s (tr j)) (lm_g T (tr j))) /\
     ((phi (step_ftemp (tr j)) <= phi (lm_f T (tr j)) /\ lm_x T (tr (S j)) = step_xtemp (tr j) /\ lm_f T (tr (S j)) = step_ftemp (tr j)) \/
      (phi (lm_f T (tr j)) < phi (step_ftemp (tr j)) /\ lm_x T (tr (S j)) = lm_x T (tr j) /\ lm_f T (tr (S j)) = lm_f T (tr j))) /\
     phi (lm_f T (tr (S j))) <= phi (lm_f T (tr j))) /\
  phi (Half_sq (F (lm_x T st))) <= phi (Half_sq (F x0)).

Lemma lm_descent_weak x0 maxit st i : length x0 = n ->
  Lm_solve x0 maxit = (st, i) ->
  let tr := fun j => Lm_iter j (Lm_init x0) in
  (forall j, (j < i)%nat -> good (tr j) -> phi (Nsq (lm_g T (tr j))) <> 0 -> solved (tr j)) ->
  descent_conclusion x0 st i.
Proof.
  intros Hx0 H tr Hsol0. unfold descent_conclusion. fold tr. unfold lm_solve in H.
  apply lm_loop_spec2 in H as (j & -> & Hj & -> & Hall & _). cbn [Nat.add].
  fold (tr j).
  assert (Hgood : forall l, (l <= j)%nat -> good (tr l)).
  { induction l as [|l IHl]; intros Hl; [apply good_init; exact Hx0|].
    unfold tr. cbn [lm_iter]. apply good_step; [apply IHl; lia | ].
    apply (Hsol0 l); [lia | apply IHl; lia | eapply continue_nonzero; [apply IHl; lia | apply (Hall l); lia]]. }
  assert (Hsol : forall l, (l < j)%nat -> solved (tr l)).
  { intros l Hl. apply (Hsol0 l Hl); [apply Hgood; lia | eapply continue_nonzero; [apply Hgood; lia | apply (Hall l Hl)]]. }
  assert (Hstep : forall l, (l < j)%nat ->
     0 < phi (Dot (step_s (tr l)) (lm_g T (tr l))) /\
     ((phi (step_ftemp (tr l)) <= phi (lm_f T (tr l)) /\ lm_x T (tr (S l)) = step_xtemp (tr l) /\ lm_f T (tr (S l)) = step_ftemp (tr l)) \/
      (phi (lm_f T (tr l)) < phi (step_ftemp (tr l)) /\ lm_x T (tr (S l)) = lm_x T (tr l) /\ lm_f T (tr (S l)) = lm_f T (tr l))) /\
     phi (lm_f T (tr (S l))) <= phi (lm_f T (tr l))).
  { intros l Hl. assert (Hg : good (tr l)) by (apply Hgood; lia).
    destruct (good_shapes _ Hg) as (HJw & Hgl & Hf & Hng). pose proof Hg as (Hinv & Hx & Hnu).
    assert (Hnz : phi (Nsq (lm_g T (tr l))) <> 0).
    { eapply continue_nonzero; [exact Hg | apply (Hall l Hl)]. }
    pose proof (lm_step_descent (tr l) Hx HJw Hgl (Hsol l Hl) Hnu Hnz) as (P1 & _ & _ & P4 & P5).
    change (Lm_step (tr l)) with (tr (S l)) in P4, P5.
    split; [exact P1|]. split; [ | exact P5].
    destruct P4 as [(A1 & A2 & A3) | (B1 & B2 & B3 & _)]; [left | right]; repeat split; assumption. }
  split; [reflexivity|]. split; [ | split; [exact Hstep|] ].
  - intros l Hl. destruct (good_shapes _ (Hgood l Hl)) as (_ & _ & Hf & _). destruct (Hgood l Hl) as (_ & Hx & Hnu).
    repeat split; assumption.
  - assert (Hmono : forall l, (l <= j)%nat -> phi (lm_f T (tr l)) <= phi (lm_f T (tr 0%nat))).
    { induction l as [|l IHl]; intros Hl; [lra|]. destruct (Hstep l) as (_ & _ & P); [lia|]. specialize (IHl ltac:(lia)). lra. }
    specialize (Hmono j (le_n j)).
    destruct (good_shapes _ (Hgood j (le_n j))) as (_ & _ & Hf & _). rewrite Hf in Hmono.
    destruct (good_shapes _ (Hgood 0%nat ltac:(lia))) as (_ & _ & Hf0 & _). rewrite Hf0 in Hmono. exact Hmono.
Qed.

Theorem lm_descent x0 maxit st i : length x0 = n ->
  Lm_solve x0 maxit = (st, i) ->
  let tr := fun j => Lm_iter j (Lm_init x0) in
  (forall j, (j < i)%nat -> solved (tr j)) ->
  st = tr i /\
  (forall j, (j <= i)%nat -> lm_f T (tr j) = Half_sq (F (lm_x T (tr j))) /\ 0 <= phi (lm_nu T (tr j)) /\ length (lm_x T (tr j)) = n) /\
  (forall j, (j < i)%nat ->
     0 < phi (Dot (step_s (tr j)) (lm_g T (tr j))) /\
     ((phi (step_ftemp (tr j)) <= phi (lm_f T (tr j)) /\ lm_x T (tr (S j)) = step_xtemp (tr j) /\ lm_f T (tr (S j)) = step_ftemp (tr j)) \/
      (phi (lm_f T (tr j)) < phi (step_ftemp (tr j)) /\ lm_x T (tr (S j)) = lm_x T (tr j) /\ lm_f T (tr (S j)) = lm_f T (tr j))) /\
     phi (lm_f T (tr (S j))) <= phi (lm_f T (tr j))) /\
  phi (Half_sq (F (lm_x T st))) <= phi (Half_sq (F x0)).
Proof.
  intros Hx0 H tr Hsol. apply (lm_descent_weak x0 maxit st i Hx0 H). intros j Hj _ _. apply Hsol; exact Hj.
Qed.

(* ---------- one unknown: the linear solver is a division, and the solver hypothesis is a theorem ---------- *)
Section OneUnknown.
Hypothesis n_one : n = 1%nat.
Hypothesis solve_one : forall a c, phi a <> 0 -> solve [[a]] [c] = [tdiv c a].
Hypothesis div_mul : forall a c, phi a <> 0 -> tmul a (tdiv c a) = c.

Lemma solved_one st : good st -> phi (Nsq (lm_g T st)) <> 0 -> solved st.
Proof.
  intros Hgood Hnz. destruct (good_shapes st Hgood) as (HJ & _ & _ & _).
  destruct Hgood as ((Hr & HJe & _ & Hg & _) & _ & Hnu).
  unfold lm_grad in Hg. rewrite <- HJe in Hg.
  set (J := lm_J T st) in *. set (nu := lm_nu T st) in *. set (c := Col J 0%nat).
  assert (HJ1 : wf_mat 1 J) by (rewrite <- n_one; exact HJ).
  assert (EM : Lm_matrix n J nu = [[tadd (Dot c c) (tmul nu t1)]]).
  { rewrite lm_matrix_rows, n_one. cbn [seq map]. rewrite (mattvec_cols 1 J HJ1). reflexivity. }
  assert (Eg : lm_g T st = [Dot c (F (lm_x T st))]).
  { rewrite Hg, n_one, (mattvec_cols 1 J HJ1). reflexivity. }
  assert (Ha : phi (tadd (Dot c c) (tmul nu t1)) <> 0).
  { intros Ez. rewrite phi_add, phi_mul, phi_1 in Ez. pose proof (nsq_nonneg c) as Hc. unfold normsq in Hc.
    assert (Zc : phi (Nsq c) = 0) by (unfold normsq; lra).
    apply Hnz. rewrite Eg. unfold normsq. cbn [dot]. rewrite phi_add, phi_mul, phi_0.
    rewrite (dot_comm T t0 t1 tadd tmul tsub topp Tth c), (dot_zero_of_nsq _ c Zc). ring. }
  unfold solved, step_s. fold J nu. rewrite EM, Eg, (solve_one _ _ Ha). split; [symmetry; exact n_one|].
  cbn [matvec map dot]. rewrite (div_mul _ _ Ha). f_equal. ring.
Qed.

Theorem lm_descent_one x0 maxit st i : length x0 = n -> Lm_solve x0 maxit = (st, i) -> descent_conclusion x0 st i.
Proof.
  intros Hx0 H. apply (lm_descent_weak x0 maxit st i Hx0 H). intros j _ Hg Hnz. apply solved_one; assumption.
Qed.
End OneUnknown.

End LMdesc.
