(* C04 -- proofs, part 9: InverseGamma with integer shape is normalised (its cdf tends to 1), from the Gamma closed form. *)
From CV Require Import Base.Tac Model.C04_Dens Model.C04_Cdf Proofs.C04_Dens Proofs.C04_Cdf Proofs.C04_Cdf2 Proofs.C04_Lim.
From Coq Require Import Reals Lra.
From Coquelicot Require Import Coquelicot.
Local Open Scope R_scope.

Lemma gamma_int_cdf_at_0 k r : gamma_int_cdf1 k r 0 = 0.
Proof. rewrite gamma_int_cdf_closed. replace (- r * 0) with 0 by ring. replace (r * 0) with 0 by ring. rewrite exp_0.
  assert (E : esum k 0 = 1). { induction k as [|k IH]; cbn [esum]; [reflexivity|]. rewrite IH, pow_i by lia. unfold Rdiv. lra. }
  rewrite E. lra. Qed.

Lemma gamma_int_cdf_lim_0 k r : is_lim (gamma_int_cdf1 k r) 0 0.
Proof.
  rewrite <- (gamma_int_cdf_at_0 k r) at 2.
  apply is_lim_continuity. apply continuity_pt_filterlim.
  apply (ex_derive_continuous (gamma_int_cdf1 k r)). exists (gamma_int_pdf k r 0). apply gamma_int_cdf_derive.
Qed.

Lemma lim_inv_shift l : is_lim (fun x => / (x - l)) p_infty 0.
Proof.
  evar_last.
  - apply (is_lim_inv (fun x => x - l) p_infty p_infty); [| discriminate].
    apply (is_lim_minus (fun x => x) (fun _ => l) p_infty p_infty l p_infty); [apply is_lim_id | apply is_lim_const | ].
    unfold is_Rbar_minus, is_Rbar_plus; cbn. reflexivity.
  - reflexivity.
Qed.

(* InverseGamma with integer shape: the cdf tends to 1 at +infinity (and the model's cdf is 1 - GammaCdf(1/(x-l))) *)
Theorem invgamma_int_normalised k l sc : is_lim (invgamma_int_cdf1 k l sc) p_infty 1.
Proof.
  unfold invgamma_int_cdf1.
  evar_last.
  - apply is_lim_minus'; [apply is_lim_const|].
    apply (is_lim_comp (gamma_int_cdf1 k sc) (fun x => / (x - l)) p_infty 0 0); [apply gamma_int_cdf_lim_0 | apply lim_inv_shift |].
    exists (l + 1). intros x Hx. intros E. injection E as E.
    assert (0 < / (x - l)) by (apply Rinv_0_lt_compat; lra). lra.
  - cbn. f_equal. lra.
Qed.
