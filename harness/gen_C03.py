"""C03 -- every gradient equals the derivative of the log-density, or is refused.

Correspondence: gradient()/logd() of cuqi distributions, likelihoods, posteriors and multiple-likelihood posteriors
vs Model/C03_GradQ.v (quadratic families, likelihood chain rule, sum rule, FD quotient, dispatch: exact rationals,
1e-9) and Model/C03_GradR.v (separable families and the Cauchy difference prior as real-valued functions: one
`interval` proof per case).  Independent oracle: Richardson-extrapolated central differences of the SAME object's
logd, direction by direction (it knows nothing of the formulas in the models).

Both states of the proposed repairs fixes/C03_*.diff are handled: the state of every site is probed with a fixed
witness (known_witnesses) and handed to the model as a flag; the oracle reports what is wrong under a signature
only if the observed object is exactly what the known defect predicts."""
import math, warnings, json, itertools
from fractions import Fraction
import numpy as np
from common import *

IMPORTS = ("From CV Require Import Base.LinAlg Base.Cmp Base.QcLin Model.C03_GradQ Model.C03_GradR Model.C03_Support Model.C03_ChainR. "
           "From Coq Require Import Reals QArith Qcanon List. From Interval Require Import Tactic. Import ListNotations.")

RULE = ("cells = family x parameter form x configuration (see `cells`); every value case holds a non-zero mean/location, "
        "a point in the support, the observed gradient() AND a logd difference of the same object (so both the gradient formula "
        "and the log-kernel the theorems differentiate are tied to the code); distinct = distinct (object, point); trivial = "
        "dispatch cases (outcome kind only), dimension-1 objects, zero gradients (Uniform)")

TOL_ORACLE = 1e-6

SIG7 = "CMRF._gradient|location-ignored"
SIG8G = "GMRF._gradient|callable-mean:returns-None"
SIG8A = "Gaussian._gradient|callable-mean-without-gradient:warns-returns-None"
SIG8L = "Lognormal._gradient|callable-mean-without-gradient:warns-returns-None"
SIG8C = "CMRF._gradient|callable-location:warns-returns-None"
SIG29 = "Gaussian._gradient|prec-vector:dot-product-scalar-returned"
SIG30 = "ModifiedHalfNormal._gradient|dim>1:matrix-returned"
SIGNAN = "GMRF.logpdf|order2-neumann:logd-NaN"
SIGIGP = "InverseGamma._gradient|nonpositive-shape-or-scale:finite-gradient-where-logd-NaN"
SIGSLP = "SmoothedLaplace.gradient|nonpositive-scale:finite-gradient-where-logd-NaN"
SIGBATCH = "Gaussian._gradient|row-batch:transpose-dropped"
SIGGMP = "GMRF._gradient|nonpositive-prec:finite-gradient-where-logd-NaN"
SIGCMP = "CMRF._gradient|nonpositive-scale:finite-gradient-where-logd-NaN"


# ------------------------------------------------------------------------------------------------
# encoders
# ------------------------------------------------------------------------------------------------
def cqc(x):
    f = frac(x)
    return "(qc (%d # %d)%%Q)" % (f.numerator, f.denominator)


def cqv(v):
    return "(qvec %s)" % cqvec(v)


def cqm(M):
    return "(qmat %s)" % cqmat(M)


def cr(x):
    f = frac(x)
    n, d = f.numerator, f.denominator
    s = "%d" % n if n >= 0 else "(%d)" % n
    return s if d == 1 else "(%s / %d)" % (s, d)


def crv(v):
    return "[" + "; ".join(cr(a) for a in v) + "]"


def crm(M):
    return "[" + "; ".join(crv(r) for r in M) + "]"


def cobs(o):
    k = o[0]
    if k == "vec":
        return "(ObsVec %s)" % cqvec(o[1])
    if k == "scalar":
        return "(ObsScalar %s)" % cq(o[1])
    if k == "matrix":
        return "(ObsMatrix %s)" % cqmat(o[1])
    return {"raised": "ObsRaised", "none": "ObsNone", "nan": "ObsNaN"}[k]


def fr(v):
    return [frac(a) for a in v]


def flt(v):
    return [float(a) for a in v]


# ------------------------------------------------------------------------------------------------
# observation of the implementation and the independent oracle
# ------------------------------------------------------------------------------------------------
def observe(call):
    """what a gradient call produces: ('vec', [..]) | ('scalar', s) | ('matrix', [[..]]) | ('nan', shape) | ('none',) | ('raised', type)"""
    try:
        with warnings.catch_warnings():
            warnings.simplefilter("ignore")
            with np.errstate(all="ignore"):
                g = call()
    except Exception as e:
        return ("raised", type(e).__name__)
    if g is None:
        return ("none",)
    try:
        a = np.asarray(g, dtype=float)
    except Exception:
        return ("raised", "not-an-array:" + type(g).__name__)
    if not np.all(np.isfinite(a)):
        return ("nan", list(a.shape))
    if a.ndim == 0:
        return ("scalar", float(a))
    if a.ndim == 1:
        return ("vec", [float(v) for v in a])
    if a.ndim == 2:
        return ("matrix", [[float(v) for v in r] for r in a])
    return ("raised", "ndim>2")


def logd_of(obj):
    def f(z):
        with warnings.catch_warnings():
            warnings.simplefilter("ignore")
            with np.errstate(all="ignore"):
                v = obj.logd(np.asarray(z, dtype=float))
        a = np.asarray(v, dtype=float).reshape(-1)
        if a.size != 1:
            raise ValueError("logd is not a scalar")
        return float(a[0])
    return f


def num_grad(f, x, hs=None):
    """4th-order (Richardson) central differences of f at x, coordinate by coordinate; hs = characteristic lengths"""
    x = np.asarray(x, dtype=float)
    n = len(x)
    g = np.zeros(n)
    for i in range(n):
        s = (hs[i] if hs is not None else max(1.0, abs(x[i])))
        h = 2e-3 * s

        def D(h):
            e = np.zeros(n)
            e[i] = h
            return (f(x + e) - f(x - e)) / (2 * h)
        g[i] = (4 * D(h / 2) - D(h)) / 3
    return g


def vclose(a, b, tol=TOL_ORACLE):
    a, b = np.asarray(a, float), np.asarray(b, float)
    return a.shape == b.shape and bool(np.all(np.abs(a - b) <= tol * (1 + np.abs(b))))


def property_verdict(o, obj, x, dim, insupp=True, hs=None, fd=False):
    """the PROPERTY on the implementation for one call: None = holds, else a description.
    o = observe(...) of obj.gradient at x; obj.logd is differentiated numerically."""
    k = o[0]
    if k == "raised":
        return None                                   # refused
    if k == "none":
        return "gradient() returned None instead of a vector or an exception"
    if not insupp:
        return None if k == "nan" else "finite %s returned outside the support" % k
    if k == "nan":
        return "non-finite gradient inside the support"
    ng = num_grad(logd_of(obj), x, hs)
    tol = 2e-3 if fd else TOL_ORACLE      # forward differences: eps/2 f'' truncation + 1e-16 |f| / eps rounding
    if k == "vec":
        if len(o[1]) != dim:
            return "gradient has length %d for a %d-dimensional variable" % (len(o[1]), dim)
        if not vclose(o[1], ng, tol):
            return "gradient %s differs from the derivative of logd %s" % (np.round(o[1], 8).tolist(), np.round(ng, 8).tolist())
        return None
    if k == "scalar":
        if dim == 1 and vclose([o[1]], ng, tol):
            return None
        return "a scalar (%r) is returned for a %d-dimensional variable; derivative of logd is %s" % (o[1], dim, np.round(ng, 8).tolist())
    if k == "matrix":
        a = np.asarray(o[1])
        if a.size == dim and vclose(a.reshape(-1), ng, tol):
            return None                               # (1,1) or column for dim 1: same numbers
        return "a %s array is returned for a %d-dimensional variable; derivative of logd is %s" % (a.shape, dim, np.round(ng, 8).tolist())
    return "unexpected observation %r" % (o,)


# ------------------------------------------------------------------------------------------------
# small exact linear algebra (Fractions) for the certificates handed to the model
# ------------------------------------------------------------------------------------------------
def f_inv(M):
    n = len(M)
    A = [[Fraction(v) for v in row] + [Fraction(int(i == j)) for j in range(n)] for i, row in enumerate(M)]
    for c in range(n):
        p = next(r for r in range(c, n) if A[r][c] != 0)
        A[c], A[p] = A[p], A[c]
        piv = A[c][c]
        A[c] = [v / piv for v in A[c]]
        for r in range(n):
            if r != c and A[r][c] != 0:
                fct = A[r][c]
                A[r] = [a - fct * b for a, b in zip(A[r], A[c])]
    return [row[n:] for row in A]


def f_mm(A, B):
    return [[sum(Fraction(A[i][k]) * Fraction(B[k][j]) for k in range(len(B))) for j in range(len(B[0]))] for i in range(len(A))]


def f_T(A):
    return [list(r) for r in zip(*A)]


def f_diag(v):
    return [[Fraction(v[i]) if i == j else Fraction(0) for j in range(len(v))] for i in range(len(v))]


DY = [Fraction(1, 4), Fraction(1, 2), Fraction(1), Fraction(2), Fraction(4), Fraction(3, 2), Fraction(3), Fraction(3, 4)]


def rdy(rng, lo=-3, hi=3, den=(1, 2, 4)):
    d = rng.choice(den)
    return Fraction(rng.randint(lo * d, hi * d), d)


def rvec(rng, n, lo=-3, hi=3, nonzero=False):
    while True:
        v = [rdy(rng, lo, hi) for _ in range(n)]
        if not nonzero or any(a != 0 for a in v):
            return v


def rpos(rng):
    return rng.choice(DY)


def rand_tri(rng, n, lower=True):
    """non-singular triangular matrix with small integer entries"""
    L = [[0] * n for _ in range(n)]
    for i in range(n):
        for j in range(n):
            if i == j:
                L[i][j] = rng.choice([1, 2])
            elif (j < i) == lower:
                L[i][j] = rng.randint(-1, 1)
    if n > 1 and all(L[i][j] == 0 for i in range(n) for j in range(n) if i != j):
        if lower:
            L[n - 1][0] = 1
        else:
            L[0][n - 1] = 1
    return L


def rand_general(rng, n):
    """non-singular integer matrix that is neither triangular nor symmetric (n > 1); determinant of either sign"""
    while True:
        M = [[rng.randint(-2, 2) for _ in range(n)] for _ in range(n)]
        try:
            f_inv(M)
        except StopIteration:
            continue
        if n == 1 or (any(M[i][j] != 0 for i in range(n) for j in range(n) if j > i) and
                      any(M[i][j] != 0 for i in range(n) for j in range(n) if j < i) and M != f_T(M)):
            return M


def rand_spd(rng, n):
    L = rand_tri(rng, n)
    return [[int(v) for v in r] for r in f_mm(L, f_T(L))]


def gauss_param(rng, form, ptype, n):
    """(python value to pass, Coq gparam, implied precision matrix as Fractions)"""
    if ptype == "scalar":
        a = rpos(rng)
        p = "(PScalar %s)" % cqc(a)
        val = float(a)
        diag = [a] * n
    elif ptype == "vector":
        v = [rpos(rng) for _ in range(n)]
        if n > 1 and len(set(v)) == 1:
            v[0] = v[0] * 2
        p = "(PVector %s)" % cqv(v)
        val = np.array(flt(v))
        diag = v
    elif ptype in ("diagmatrix", "sparsediag"):
        v = [rpos(rng) for _ in range(n)]
        p = "(PMatrix %s)" % cqm(f_diag(v))
        val = np.diag(flt(v))
        if ptype == "sparsediag":
            import scipy.sparse as sp
            val = sp.diags(flt(v)) if rng.random() < 0.5 else sp.csc_matrix(val)
        diag = v
    else:
        if form in ("cov", "prec"):
            M = rand_spd(rng, n)
        else:
            M = rand_general(rng, n) if ptype == "generalmatrix" else rand_tri(rng, n, lower=(ptype != "uppermatrix"))
        p = "(PMatrix %s)" % cqm(M)
        val = np.array(M, dtype=float)
        if form == "cov":
            P = f_inv(M)
        elif form == "prec":
            P = [[Fraction(v) for v in r] for r in M]
        elif form == "sqrtcov":
            P = f_inv(f_mm(M, f_T(M)))
        else:
            P = f_mm(f_T(M), M)
        return val, p, P
    if form == "cov":
        P = f_diag([1 / a for a in diag])
    elif form == "prec":
        P = f_diag(diag)
    elif form == "sqrtcov":
        P = f_diag([1 / (a * a) for a in diag])
    else:
        P = f_diag([a * a for a in diag])
    return val, p, P


FORM_COQ = {"cov": "FCov", "prec": "FPrec", "sqrtcov": "FSqrtCov", "sqrtprec": "FSqrtPrec"}


# ------------------------------------------------------------------------------------------------
# state of the proposed repairs: fixed witnesses, replayed on every run
# ------------------------------------------------------------------------------------------------
def _w_cmrf():
    from cuqi.distribution import CMRF
    C = CMRF(location=np.array([1., 2., 3.]), scale=0.5, bc_type="zero", geometry=3)
    x = np.array([0.5, 1.5, -0.25])
    o = observe(lambda: C.gradient(x))
    d = property_verdict(o, C, x, 3, hs=[0.5] * 3)
    return d, "CMRF(location=[1,2,3], scale=0.5, zero BC).gradient([0.5,1.5,-0.25]): " + str(d)


def _w_none(kind):
    from cuqi.distribution import GMRF, Gaussian, Lognormal, CMRF
    x = np.array([0.5, 1.5, 0.25])
    th = np.array([1., 2., 3.])
    if kind == "gmrf":
        G = GMRF(mean=lambda z: z, prec=2.0, geometry=3)
        o = observe(lambda: G.gradient(x))
        what = "GMRF(mean=<callable>, prec=2).gradient(x)"
    elif kind == "gauss":
        G = Gaussian(mean=lambda z: z, cov=1.0, geometry=3)
        o = observe(lambda: G.to_likelihood(x).gradient(th))
        what = "Gaussian(mean=<plain callable>, cov=1).to_likelihood(data).gradient(theta)"
    elif kind == "lognormal":
        G = Lognormal(lambda z: z, np.eye(3))
        o = observe(lambda: G.to_likelihood(x).gradient(th))
        what = "Lognormal(<plain callable>, I).to_likelihood(data).gradient(theta)"
    else:
        G = CMRF(location=lambda z: z, scale=1.0, geometry=3)
        o = observe(lambda: G.to_likelihood(x).gradient(z=th))
        what = "CMRF(location=<callable>, scale=1).to_likelihood(data).gradient(z=theta)"
    fails = o[0] == "none"
    return (what + " returns None instead of raising") if fails else None, what + " -> " + o[0]


def _w_prec_vector():
    from cuqi.distribution import Gaussian
    G = Gaussian(np.array([1., 2., 3.]), prec=np.array([1., 2., 4.]))
    x = np.array([0.5, 1.5, -0.25])
    o = observe(lambda: G.gradient(x))
    d = property_verdict(o, G, x, 3)
    return d, "Gaussian(mean=[1,2,3], prec=[1,2,4]).gradient([0.5,1.5,-0.25]): " + str(d)


def _w_mhn():
    from cuqi.distribution import ModifiedHalfNormal
    M = ModifiedHalfNormal(2.0, 3.0, 1.0, geometry=3)
    x = np.array([0.5, 1.5, 0.25])
    o = observe(lambda: M.gradient(x))
    d = property_verdict(o, M, x, 3, hs=list(x))
    return d, "ModifiedHalfNormal(2,3,1, geometry=3).gradient([0.5,1.5,0.25]): " + str(d)


def _w_gmrf_nan():
    """whether _logdet is NaN or a huge finite number depends on the sign of a zero eigenvalue computed by ARPACK
    from a random start vector: the witness is a small fixed family of objects, it fails if any of them has logd = NaN"""
    from cuqi.distribution import GMRF
    import io, contextlib
    seen = []
    for n in (5, 6, 7, 5, 6, 7):
        with contextlib.redirect_stdout(io.StringIO()):
            G = GMRF(np.ones(n), 1.5, bc_type="neumann", order=2, geometry=n)
        x = np.linspace(-1.0, 2.0, n)
        o = observe(lambda: G.gradient(x))
        v = logd_of(G)(x)
        seen.append(v)
        if o[0] == "vec" and not math.isfinite(v):
            return ("logd = %r but gradient() returns a finite vector" % v), "GMRF(ones(%d), 1.5, neumann, order=2): logd(x) = %r, gradient -> %s" % (n, v, o[0])
    return None, "GMRF(ones(n), 1.5, neumann, order=2), n = 5,6,7: logd finite on this run (%s)" % (["%.3g" % v for v in seen],)


def _w_invalid_par(which):
    from cuqi.distribution import InverseGamma, SmoothedLaplace
    x = np.array([0.5, 1.5])
    D = InverseGamma(2.0, 0.0, -1.0, geometry=2) if which == "ig" else SmoothedLaplace(0.0, -1.0, 0.01, geometry=2)
    o = observe(lambda: D.gradient(x))
    v = logd_of(D)(x)
    fails = o[0] == "vec" and not math.isfinite(v)
    what = "InverseGamma(2, 0, scale=-1)" if which == "ig" else "SmoothedLaplace(0, scale=-1, 0.01)"
    return ("%s: logd = %r but gradient() returns the finite vector %r" % (what, v, o[1])) if fails else None, "%s: logd %r, gradient -> %s" % (what, v, o[0])


def _w_invalid_mrf(which):
    from cuqi.distribution import GMRF, CMRF
    x = np.array([0.5, 1.5, -0.25])
    D = GMRF(np.array([1., 2., 3.]), -2.0) if which == "gmrf" else CMRF(np.array([1., 2., 3.]), -1.0)
    o = observe(lambda: D.gradient(x))
    v = logd_of(D)(x)
    fails = o[0] == "vec" and not math.isfinite(v)
    what = "GMRF([1,2,3], prec=-2)" if which == "gmrf" else "CMRF([1,2,3], scale=-1)"
    return ("%s: logd = %r but gradient([0.5,1.5,-0.25]) returns the finite vector %r" % (what, v, np.round(o[1], 6).tolist())) if fails else None, \
        "%s: logd %r, gradient -> %s" % (what, v, o[0])


def _w_batch():
    from cuqi.distribution import Gaussian
    G = Gaussian(np.zeros(2), np.array([[2, .25], [.25, .5]]))
    pts = np.array([[0.5, -0.75], [1.0, 2.0]])
    single = [np.asarray(G.gradient(p), dtype=float) for p in pts]
    o1 = observe(lambda: G.gradient(pts[:1]))
    o2 = observe(lambda: G.gradient(pts))
    ok = (o1[0] == "matrix" and vclose(np.asarray(o1[1])[:, 0], single[0], 1e-12) and
          o2[0] == "matrix" and all(vclose(np.asarray(o2[1])[:, j], single[j], 1e-12) for j in range(2)))
    return (None if ok else "Gaussian.gradient of a (N,2) batch of rows: N=1 -> %s, N=2 -> %s; column j is not the gradient at row j" % (o1[0], o2[0])), \
        "Gaussian(zeros(2), S).gradient(rows): N=1 -> %s, N=2 -> %s" % (o1[0], o2[0])


WITNESS = {SIGGMP: lambda: _w_invalid_mrf("gmrf"), SIGCMP: lambda: _w_invalid_mrf("cmrf"), SIGBATCH: _w_batch, SIGIGP: lambda: _w_invalid_par("ig"), SIGSLP: lambda: _w_invalid_par("sl"), SIGNAN: _w_gmrf_nan, SIG7: _w_cmrf, SIG8G: lambda: _w_none("gmrf"), SIG8A: lambda: _w_none("gauss"), SIG8L: lambda: _w_none("lognormal"),
           SIG8C: lambda: _w_none("cmrf"), SIG29: _w_prec_vector, SIG30: _w_mhn}

_STATE = {}


def state():
    """fixed[sig] = True iff the witness of that defect satisfies the property on this tree"""
    if not _STATE:
        for sig, w in WITNESS.items():
            d, txt = w()
            _STATE[sig] = (d is None, txt)
    return {s: v[0] for s, v in _STATE.items()}


def known_witnesses(ctx):
    state()
    return {sig: (not ok, txt) for sig, (ok, txt) in _STATE.items()}


def coq_fixes(st):
    return "{| fix8_gmrf := %s; fix8_gauss := %s; fix8_lognormal := %s; fix8_cmrf := %s |}" % (
        cbool(st[SIG8G]), cbool(st[SIG8A]), cbool(st[SIG8L]), cbool(st[SIG8C]))


# ------------------------------------------------------------------------------------------------
# object builders (everything is rebuilt from `meta`, so that a stored case can be replayed)
# ------------------------------------------------------------------------------------------------
def F(v):
    """meta numbers are stored as [num, den] pairs"""
    return Fraction(v[0], v[1])


def P_(x):
    f = Fraction(x)
    return [f.numerator, f.denominator]


def pv(v):
    return [P_(a) for a in v]


def uv(v):
    return [F(a) for a in v]


def fa(v):
    return np.array([float(F(a)) for a in v])


def pm(M):
    return [pv(r) for r in M]


def um(M):
    return np.array([[float(F(a)) for a in r] for r in M])


def mean_value(mspec):
    """('s', a) scalar mean / ('v', [..]) vector mean"""
    return float(F(mspec[1])) if mspec[0] == "s" else fa(mspec[1])


def mean_list(mspec):
    return [F(mspec[1])] if mspec[0] == "s" else uv(mspec[1])


def rand_mean(rng, n, allow_scalar=True):
    if allow_scalar and rng.random() < 0.3:
        a = rdy(rng)
        return ["s", P_(a if a != 0 else Fraction(1, 2))]
    return ["v", pv(rvec(rng, n, nonzero=True))]


def make_geometry(spec, n):
    import cuqi
    from cuqi.geometry import Continuous1D, Discrete, MappedGeometry, StepExpansion, KLExpansion, Continuous2D, Image2D
    k = spec[0]
    if k == "default":
        return n
    if k == "cont1d":
        return Continuous1D(n)
    if k == "discrete":
        return Discrete(n)
    if k == "image2d":
        return Image2D((spec[1], spec[1]))
    if k == "cont2d":
        return Continuous2D((spec[1], spec[1]))
    if k in ("mapped+grad", "mapped", "mapped+grad+imap", "mapped+imap"):
        ga, gb, gc = [float(F(a)) for a in spec[1:4]]

        # the class users instantiate (type-based dispatch sees MappedGeometry itself); a subclass that DEFINES the method is the
        # other declaration style of "a geometry that supplies its own derivative" (chosen when gc has an even numerator)
        class _MGsub(MappedGeometry):
            def gradient(self, direction, wrt):
                return direction * (2 * ga * wrt + gb)
        _MG = _MGsub if (k in ("mapped+grad", "mapped+grad+imap") and F(spec[3]).numerator % 2 == 0) else MappedGeometry
        if k in ("mapped+grad+imap", "mapped+imap"):
            # affine map (ga = 0) WITH its inverse: fun2par is available, so a route that forgets the geometry's own
            # derivative and converts the function-space vector back with fun2par returns a (wrong) vector, not an error
            assert ga == 0 and gb != 0
            g = _MG(Continuous1D(n), map=lambda x: gb * x + gc, imap=lambda u: (u - gc) / gb)
        else:
            g = _MG(Continuous1D(n), map=lambda x: ga * x * x + gb * x + gc)
        if k not in ("mapped", "mapped+imap") and _MG is MappedGeometry:
            g.gradient = lambda direction, wrt: direction * (2 * ga * wrt + gb)
        return g
    if k == "tmap+grad":
        # a TRANSCENDENTAL elementwise map with its own derivative: exp (positivity parameterisation) or sin (derivative changes sign);
        # declared on the instance (style 0) or by a subclass that defines the method (style 1)
        fun, dfun = {"exp": (np.exp, np.exp), "sin": (np.sin, np.cos)}[spec[1]]

        class _TGsub(MappedGeometry):
            def gradient(self, direction, wrt):
                return direction * dfun(wrt)
        if spec[2]:
            return _TGsub(Continuous1D(n), map=fun)
        g = MappedGeometry(Continuous1D(n), map=fun)
        g.gradient = lambda direction, wrt: direction * dfun(wrt)
        return g
    if k == "step":
        return StepExpansion(np.linspace(0, 1, n * 2), n_steps=n)
    if k == "kl":
        return KLExpansion(np.linspace(0, 1, n), num_modes=n)
    raise ValueError(k)


def make_model(ms):
    """ms: dict(kind, A, B, m, n, dom, ran).  F(u) = A (u*u) + B u on function values u = par2fun(theta)."""
    import cuqi
    from cuqi.model import Model, LinearModel, PDEModel
    A, B = um(ms["A"]), um(ms["B"])
    m, n = ms["m"], ms["n"]
    dom = make_geometry(ms["dom"], n)
    ran = make_geometry(ms["ran"], m)
    fwd0 = lambda x: A @ (x * x) + B @ x
    jac0 = lambda x: 2 * A * np.asarray(x)[None, :] + B
    ret = ms.get("ret", "fresh")
    if ret == "buffer":
        # the user's callables fill and hand out THE SAME work arrays on every call
        fbuf, jbuf, gbuf, abuf = np.zeros(m), np.zeros((m, n)), np.zeros(n), np.zeros(n)

        def fwd(x):
            fbuf[:] = fwd0(np.asarray(x, dtype=float))
            return fbuf

        def jac(x):
            jbuf[:] = jac0(np.asarray(x, dtype=float))
            return jbuf
        wrapg = lambda v: (gbuf.__setitem__(slice(None), v), gbuf)[1]
        wrapa = lambda v: (abuf.__setitem__(slice(None), v), abuf)[1]
    elif ret == "fortran":
        # results that are not C-contiguous: a Fortran-ordered Jacobian, vectors that are strided views of larger arrays
        def strided(v):
            big = np.zeros(2 * len(v))
            big[::2] = v
            return big[::2]
        fwd = lambda x: strided(fwd0(np.asarray(x, dtype=float)))
        jac = lambda x: np.asfortranarray(jac0(np.asarray(x, dtype=float)))
        wrapg = wrapa = strided
    else:
        fwd, jac = fwd0, jac0
        wrapg = wrapa = lambda v: v
    k = ms["kind"]
    if k == "matrix":
        kw = {}
        if ms["dom"][0] != "default":
            kw["domain_geometry"] = dom
        if ms["ran"][0] != "default":
            kw["range_geometry"] = ran
        Bm = np.asfortranarray(B) if ret == "fortran" else (B.astype(int) if ms.get("intmatrix") else B.copy())
        return LinearModel(Bm, **kw)
    if k == "funadj":
        return LinearModel(lambda x: fwd(x) if not np.any(A) else B @ x, lambda y: wrapa(B.T @ y), range_geometry=ran, domain_geometry=dom)
    if k == "jac":
        return Model(fwd, ran, dom, jacobian=jac)
    if k == "grad":
        return Model(fwd, ran, dom, gradient=lambda direction, wrt: wrapg(jac0(np.asarray(wrt, dtype=float)).T @ direction))
    if k == "nograd":
        return Model(fwd, ran, dom)
    if k in ("pde-grad", "pde-jac"):
        class _PDE(cuqi.pde.PDE):
            def __init__(self):
                super().__init__(None)

            def assemble(self, parameter):
                self.u = np.asarray(parameter, dtype=float)

            def solve(self):
                return fwd(self.u), None

            def observe(self, solution):
                return solution
        if k == "pde-grad":
            _PDE.gradient_wrt_parameter = lambda self, direction, wrt: wrapg(jac0(np.asarray(wrt, dtype=float)).T @ direction)
        else:
            _PDE.jacobian_wrt_parameter = lambda self, wrt: jac(wrt)
        return PDEModel(_PDE(), ran, dom)
    raise ValueError(k)


SEP_ATTRS = {"Cauchy": ["location", "scale"], "Beta": ["alpha", "beta"], "InvGamma": ["shape", "location", "scale"],
             "SmoothedLaplace": ["location", "scale", "beta"], "Uniform": ["low", "high"], "LognormalDiag": ["mean", "cov"]}


def _assign(obj, meta, field, value):
    """re-assign one attribute of a live object (the public way: plain attribute assignment)"""
    fam = meta["fam"]
    with warnings.catch_warnings():
        warnings.simplefilter("ignore")
        if fam == "gauss":
            if field == "mean":
                obj.mean = mean_value(value)
            else:
                setattr(obj, meta["form"], gauss_value({"ptype": value["ptype"], "param": value["param"]}))
        elif fam == "gmrf":
            if field == "mean":
                obj.mean = mean_value(value)
            else:
                obj.prec = float(F(value))
        elif fam == "cmrf":
            if field == "loc":
                obj.location = mean_value(value)
            else:
                obj.scale = float(F(value))
        elif fam == "sep":
            k = int(field[3:])
            v = float(F(value[1])) if value[0] == "s" else fa(value[1])
            sf = meta["sfam"]
            if sf == "LognormalDiag":
                n = meta["n"]
                v = (v * np.ones(n) if np.isscalar(v) else v) if k == 0 else (v * np.eye(n) if np.isscalar(v) else v)
            elif sf in ("Beta", "InvGamma") or (sf == "SmoothedLaplace" and k < 2):
                v = np.atleast_1d(np.asarray(v, dtype=float))
            setattr(obj, SEP_ATTRS[sf][k], v)
        elif fam == "lik":
            if field == "data":
                obj.data = fa(value)
            else:
                setattr(obj.distribution, meta["form"], gauss_value({"ptype": value["ptype"], "param": value["param"]}))
        elif fam == "lognormal-full":
            if field == "mean":
                obj.mean = fa(value)
            else:
                obj.cov = um(value)
        else:
            raise ValueError("no re-assignment for " + fam)


def _field_value(meta, field):
    fam = meta["fam"]
    if field == "param":
        return {"ptype": meta["ptype"], "param": meta["param"]}
    if fam == "sep":
        return meta["pars"][int(field[3:])]
    return meta[field]


def build(meta):
    """returns (object, dim).  With meta['hist'] = {init: {field: value}, steps: [[field, value], ...], x0}: the object is
    constructed with the INITIAL values, evaluated, every step re-assigns one attribute and evaluates again, and finally the
    touched attributes are re-assigned to the values in the regular fields: the object handed back has a history, its
    current parameters are the regular fields of meta."""
    h = meta.get("hist")
    if not h:
        return _build0(meta)
    m0 = {k: v for k, v in meta.items() if k != "hist"}
    for field, value in h["init"].items():
        if field == "param":
            m0["ptype"], m0["param"] = value["ptype"], value["param"]
        elif m0["fam"] == "sep":
            m0["pars"] = list(m0["pars"])
            m0["pars"][int(field[3:])] = value
        else:
            m0[field] = value
    obj, dim = _build0(m0)
    x0 = fa(h["x0"])

    def touch():
        observe(lambda: obj.gradient(x0))
        try:
            logd_of(obj)(x0)
        except Exception:
            pass
    touch()
    touched = list(h["init"].keys())
    for field, value in h["steps"]:
        _assign(obj, meta, field, value)
        touch()
        if field not in touched:
            touched.append(field)
    for field in touched:
        _assign(obj, meta, field, _field_value(meta, field))
    return obj, dim


def _decl(meta, v):
    """declaration style of a stored parameter: integer-valued numbers as int64 arrays / Python ints / lists of ints"""
    style = meta.get("intdecl")
    if not style or hasattr(v, "toarray"):
        return v
    a = np.asarray(v, dtype=float)
    if not np.all(a == np.round(a)):
        return v
    if a.ndim == 0:
        return int(a)
    return a.astype(np.int64) if style == "int64" else a.astype(int).tolist()


def _build0(meta):
    o, dim = _build1(meta)
    return o, dim


def _touch(obj, x0):
    observe(lambda: obj.gradient(x0))
    try:
        logd_of(obj)(x0)
    except Exception:
        pass


def _build1(meta):
    """returns (object whose gradient/logd are observed, dim of the evaluated variable)"""
    import cuqi
    from cuqi.distribution import (Gaussian, GMRF, CMRF, Cauchy, Beta, InverseGamma, Lognormal, SmoothedLaplace,
                                   ModifiedHalfNormal, Uniform, Posterior, MultipleLikelihoodPosterior)
    fam = meta["fam"]
    with warnings.catch_warnings():
        warnings.simplefilter("ignore")
        if fam == "gauss":
            val = _decl(meta, gauss_value(meta))
            kw = {"geometry": meta["n"]} if (meta["mean"][0] == "s" and meta["ptype"] == "scalar") else {}
            if meta.get("shallow"):
                parent = Gaussian(mean=lambda z_: z_, geometry=meta["n"], **{meta["form"]: val})
                this = parent(z_=mean_value(meta["mean"]))
                _touch(this, fa(meta["shallow"]["x0"]))
                sibling = parent(z_=fa(meta["shallow"]["sibling_mean"]))
                _touch(sibling, fa(meta["shallow"]["x0"]))
                return this, meta["n"]
            return Gaussian(_decl(meta, mean_value(meta["mean"])), **{meta["form"]: val}, **kw), meta["n"]
        if fam == "gmrf":
            geom = (meta["n"] if meta.get("geo1", "default") == "default" else make_geometry([meta["geo1"]], meta["n"])) if meta["pd"] == 1 \
                else make_geometry([meta["geo2"], meta["N"]], meta["n"])
            import io, contextlib
            with contextlib.redirect_stdout(io.StringIO()):
                if meta.get("defaults"):
                    return GMRF(mean_value(meta["mean"]), float(F(meta["prec"])), geometry=geom), meta["n"]
                return GMRF(_decl(meta, mean_value(meta["mean"])), _decl(meta, float(F(meta["prec"]))), bc_type=meta["bc"], order=meta["order"], geometry=geom), meta["n"]
        if fam == "cmrf":
            geom = meta["n"] if meta["pd"] == 1 else make_geometry([meta["geo2"], meta["N"]], meta["n"])
            if meta.get("defaults"):
                return CMRF(mean_value(meta["loc"]), float(F(meta["scale"])), geometry=geom), meta["n"]
            return CMRF(_decl(meta, mean_value(meta["loc"])), _decl(meta, float(F(meta["scale"]))), bc_type=meta["bc"], geometry=geom), meta["n"]
        if fam == "lik":
            model = make_model(meta["model"])
            val = _decl(meta, gauss_value(meta))
            nm = meta.get("name", "y")
            style = meta.get("lstyle", "to_likelihood")
            if meta.get("lognormal"):
                D = Lognormal(model, val, name=nm)
            elif style == "cond-param-samename":
                # `cov=lambda cov: 2*cov0 ... `: the conditioning variable carries the attribute's own name and enters through a
                # NON-identity callable (value handed in: 2; the parameter in force: 2 * (val / 2) = val)
                half_val = val * 0.5
                fn = eval("lambda %s, v=half_val: %s * v" % (meta["form"], meta["form"]), {"half_val": half_val})
                D = Gaussian(mean=model, name=nm, **{meta["form"]: fn})(**{meta["form"]: 2.0})
            elif style == "cond-param":
                # the covariance-type parameter declared through a callable of a hyper-parameter, fixed by conditioning
                D = Gaussian(mean=model, name=nm, **{meta["form"]: (lambda s_, v=val: s_ * v)})(s_=1.0)
            else:
                D = Gaussian(mean=model, name=nm, **{meta["form"]: val})
            if style == "call-name" and not meta.get("lognormal"):
                return D(**{nm: fa(meta["data"])}), meta["model"]["n"]
            if meta.get("shallow"):
                this = D.to_likelihood(fa(meta["data"]))
                _touch(this, fa(meta["shallow"]["x0"]))
                sibling = D.to_likelihood(fa(meta["shallow"]["sibling_data"]))
                _touch(sibling, fa(meta["shallow"]["x0"]))
                return this, meta["model"]["n"]
            return D.to_likelihood(_decl(meta, fa(meta["data"]))), meta["model"]["n"]
        if fam in ("post", "mlp"):
            return build_sum(meta)[0], meta["n"]
        if fam in ("ulik", "udist", "eval"):
            return build_factor(meta), meta["n"]
        if fam == "sep":
            return build_sep(meta), meta["n"]
        if fam == "lognormal-full":
            if meta.get("shallow"):
                parent = Lognormal(lambda z_: z_, um(meta["cov"]))
                this = parent(z_=fa(meta["mean"]))
                _touch(this, fa(meta["shallow"]["x0"]))             # the first copy is used, then a sibling is made and used, then the first again
                sibling = parent(z_=fa(meta["shallow"]["sibling_mean"]))
                _touch(sibling, fa(meta["shallow"]["x0"]))
                return this, meta["n"]
            return Lognormal(fa(meta["mean"]), um(meta["cov"])), meta["n"]
    raise ValueError(fam)


def user_funcs(meta):
    """user-supplied log-density -w/deg sum (x - c)^deg and its exact gradient -w (x - c)^(deg-1) (fresh closures)"""
    c = fa(meta["c"])
    w = float(F(meta["w"]))
    deg = meta["deg"]
    if deg == 1:
        # linear log-density; the user's gradient function hands out its own stored array (the same object on every call):
        # an implementation that accumulates in place into what a factor returned corrupts it (aliasing)
        g0 = -w * c
        return (lambda x: float(np.dot(g0, np.asarray(x, dtype=float)))), ((lambda x: g0) if meta.get("grad", True) else None)
    off = float(F(meta["offset"])) if meta.get("offset") else 0.0          # additive constant of the user's log-density
    logd = lambda x: off - (w / deg) * float(np.sum((np.asarray(x, dtype=float) - c) ** deg))
    if meta.get("ret") == "buffer":
        buf = np.zeros(len(c))

        def gbuf(x):
            buf[:] = -w * (np.asarray(x, dtype=float) - c) ** (deg - 1)
            return buf
        return logd, (gbuf if meta.get("grad", True) else None)
    grad = (lambda x: -w * (np.asarray(x, dtype=float) - c) ** (deg - 1)) if meta.get("grad", True) else None
    return logd, grad


def build_factor(meta):
    from cuqi.likelihood import UserDefinedLikelihood
    from cuqi.distribution import UserDefinedDistribution
    from cuqi.density import EvaluatedDensity
    from cuqi.geometry import Continuous1D, _DefaultGeometry1D
    fam = meta["fam"]
    if fam == "eval":
        return EvaluatedDensity(float(F(meta["value"])), name=meta.get("name", "e"))
    logd, grad = user_funcs(meta)
    if fam == "ulik":
        g = {"cont1d": Continuous1D(meta["n"]), "default1d": _DefaultGeometry1D(meta["n"]), "none": None}[meta.get("geom", "none")]
        return UserDefinedLikelihood(dim=meta["n"], logpdf_func=logd, gradient_func=grad, geometry=g, name=meta.get("name", "u"))
    return UserDefinedDistribution(dim=meta["n"], logpdf_func=logd, gradient_func=grad, name="x")


def build_lik_dist(meta):
    """the data distribution and the data of a regular likelihood factor"""
    from cuqi.distribution import Gaussian, Lognormal
    model = make_model(meta["model"])
    val = gauss_value(meta)
    if meta.get("lognormal"):
        D = Lognormal(model, val, name=meta.get("name", "y"))
    else:
        D = Gaussian(mean=model, name=meta.get("name", "y"), **{meta["form"]: val})
    return D, fa(meta["data"])


def build_sum(meta):
    """(posterior object, independently built factor objects in the order of meta['parts']).
    style 'direct': Posterior(lik, prior) / MultipleLikelihoodPosterior(*factors);
    'joint': JointDistribution(prior, data distributions...)(all data at once); 'stepwise': conditioned one by one;
    meta['const']: an extra independent observed variable z, whose evaluated density is folded / kept as a factor."""
    from cuqi.distribution import Posterior, MultipleLikelihoodPosterior, JointDistribution, Gaussian
    named = [dict(p, name="y%d" % i) for i, p in enumerate(meta["parts"])]
    fdp = set(meta.get("fd_parts") or [])

    def mk(i):
        o = build(named[i])[0]
        if i in fdp:
            o.enable_FD()          # a factor with its own finite-difference switch on, inside a posterior
        return o
    comps = [mk(i) for i in range(len(named))]
    comps[-1].name = "x"
    style = meta.get("style", "direct")
    if style == "direct":
        parts = [mk(i) for i in range(len(named))]
        parts[-1].name = "x"
        order = meta.get("order") or list(range(len(parts)))
        parts = [parts[i] for i in order]
        ph = meta.get("post_hist")
        if ph:
            # the posterior is built and evaluated with ANOTHER prior mean; then the prior object it holds is modified in place
            parts[-1].mean = fa(ph["prior_mean_init"])
        Pobj = Posterior(parts[0], parts[-1]) if meta["fam"] == "post" else MultipleLikelihoodPosterior(*parts)
        if ph:
            x0 = fa(ph["x0"])
            observe(lambda: Pobj.gradient(x0))
            try:
                logd_of(Pobj)(x0)
            except Exception:
                pass
            Pobj.prior.mean = mean_value(named[-1]["mean"])
        return Pobj, comps
    prior = build(named[-1])[0]
    prior.name = "x"
    dd = [build_lik_dist(p) for p in named[:-1]]
    dists = [prior] + [D for D, _ in dd]
    data = {D.name: dat for D, dat in dd}
    if meta.get("const"):
        z = Gaussian(np.zeros(2), 1.0, name="z")
        dists.append(z)
        data["z"] = fa(meta["const"])
    J = JointDistribution(*dists)
    if style == "joint":
        P = J(**data)
    else:
        P = J
        for k in (meta.get("cond_order") or list(data.keys())):
            P = P(**{k: data[k]})
    return P, comps


def gauss_value(meta):
    pt, raw = meta["ptype"], meta["param"]
    if pt == "scalar":
        return float(F(raw))
    if pt == "vector":
        return fa(raw)
    M = um(raw)
    if pt == "sparsediag":
        import scipy.sparse as sp
        return sp.diags(np.diag(M)) if meta.get("dia") else sp.csc_matrix(M)
    return M


def build_sep(meta):
    from cuqi.distribution import Cauchy, Beta, InverseGamma, Lognormal, SmoothedLaplace, ModifiedHalfNormal, Uniform
    f = meta["sfam"]
    n = meta["n"]

    def par(spec):
        return float(F(spec[1])) if spec[0] == "s" else fa(spec[1])
    a, b, c = [_decl(meta, par(s)) for s in meta["pars"]]
    geom = n if meta.get("geom_n") else None
    if f == "Cauchy":
        return Cauchy(a, b, geometry=geom)
    if f == "Beta":
        return Beta(a, b, geometry=geom)
    if f == "InvGamma":
        return InverseGamma(a, b, c, geometry=geom)
    if f == "SmoothedLaplace":
        if meta.get("default_beta"):
            return SmoothedLaplace(a, b, geometry=geom)          # the shipped default beta
        return SmoothedLaplace(a, b, c, geometry=geom)
    if f == "MHN":
        return ModifiedHalfNormal(a, b, c, geometry=geom)
    if f == "LognormalDiag":
        # a = mean of ln x, b = variance of ln x (scalar or vector)
        return Lognormal(a if not np.isscalar(a) else a * np.ones(n), b if not np.isscalar(b) else b * np.eye(n))
    if f == "Uniform":
        return Uniform(a, b, geometry=geom)
    raise ValueError(f)


# ------------------------------------------------------------------------------------------------
# classification of a property failure (independent of the Coq model)
# ------------------------------------------------------------------------------------------------
def classify_failure(meta, o, obj, x):
    """signature of a failure of the property on the implementation.  A known signature is returned only if what
    was observed is exactly what that defect predicts; anything else gets a generic signature (=> VIOLATION)."""
    fam = meta["fam"]
    x = np.asarray(x, float)
    try:
        if fam == "cmrf" and o[0] == "vec":
            # gradient taken of `val` instead of `val - location` = the true gradient at the point val + location
            loc = np.asarray(mean_value(meta["loc"]), float) * np.ones(len(x))
            ng = num_grad(logd_of(obj), x + loc, hs=[float(F(meta["scale"]))] * len(x))
            if vclose(o[1], ng):
                return SIG7
        if fam == "gauss" and o[0] == "scalar" and meta["form"] == "prec" and meta["ptype"] == "vector":
            m = np.asarray(mean_value(meta["mean"]), float) * np.ones(len(x))
            if vclose([o[1]], [-float(np.dot(fa(meta["param"]), x - m))]):
                return SIG29
        if fam == "sep" and meta["sfam"] == "MHN" and o[0] == "matrix" and meta["n"] > 1:
            a = np.asarray(o[1])
            ng = num_grad(logd_of(obj), x, hs=list(x))
            vec = meta["pars"][0][0] == "v"
            if a.shape == (len(x), len(x)) and ((vec and vclose(np.diag(a), ng)) or
                                                 (not vec and all(vclose(a[:, j], ng) for j in range(len(x))))):
                return SIG30
        if o[0] == "none":
            if fam == "lik" and meta["model"]["kind"] == "plain":
                return SIG8L if meta.get("lognormal") else SIG8A
    except Exception:
        pass
    return "C03|%s|%s" % (meta.get("cellname", fam), o[0])


def input_style_failure(meta, obj, dim, kw=None):
    """the same point handed in as an int array, a non-contiguous view, a read-only array, a CUQIarray (and by keyword where
    the object is evaluated by parameter name): the gradient must be the same numbers as for a plain float64 array, and
    the caller's array must not be written to"""
    from cuqi.array import CUQIarray
    rs = np.random.RandomState(dim * 7919 + len(meta.get("cellname", "")))
    xi = rs.randint(1, 4, dim)                       # integer-valued, positive (inside every support used with this helper)
    ref = observe(lambda: obj.gradient(xi.astype(float)))
    if ref[0] != "vec":
        return None
    big = np.zeros(2 * dim)
    big[::2] = xi
    ro = xi.astype(float)
    ro.setflags(write=False)
    styles = [("int64 array", lambda: xi.copy()), ("non-contiguous view", lambda: big[::2]), ("read-only array", lambda: ro),
              ("CUQIarray", lambda: CUQIarray(xi.astype(float), geometry=getattr(obj, "geometry", None)))]
    for name, mk in styles:
        arg = mk()
        before = np.array(arg, dtype=float, copy=True)
        o = observe(lambda: obj.gradient(arg))
        if o[0] == "raised":
            continue                                  # a refusal is allowed
        if o[0] != "vec" or not vclose(o[1], ref[1], 1e-12):
            return "gradient at %s handed in as %s is %r but %r for a float64 array" % (xi.tolist(), name, o[1] if len(o) > 1 else o[0], ref[1])
        if not np.array_equal(np.asarray(arg, dtype=float), before):
            return "gradient() wrote into the caller's array (%s)" % name
    # aliasing over time: the SAME array object, overwritten in place by the caller between two calls (a gradient step), must be
    # read afresh -- the second result is compared with a call on a fresh copy of the new values
    xw = xi.astype(float)
    g1 = observe(lambda: obj.gradient(xw))
    if g1[0] == "vec":
        xw -= 0.25 * np.clip(np.asarray(g1[1]), -2, 2)
        xw[:] = np.abs(xw) + 0.25                     # stay inside every support used with this helper
        g2 = observe(lambda: obj.gradient(xw))
        g2f = observe(lambda: obj.gradient(xw.copy()))
        g1b = observe(lambda: obj.gradient(xi.astype(float)))
        if g2 != g2f and not (g2[0] == "vec" and g2f[0] == "vec" and vclose(g2[1], g2f[1], 1e-12)):
            return "after the caller overwrote its array in place, gradient(x) = %r but %r for a fresh copy of the same values" % (g2[1:], g2f[1:])
        if not (g1b[0] == "vec" and vclose(g1b[1], ref[1], 1e-12)):
            return "gradient at the first point changed after a call at another point: %r, first %r" % (g1b[1:], ref[1])
    if kw:
        o = observe(lambda: obj.gradient(**{kw: xi.astype(float)}))
        if o[0] != "raised" and (o[0] != "vec" or not vclose(o[1], ref[1], 1e-12)):
            return "gradient(%s=...) differs from the positional call" % kw
    return None


def verdict_case(meta, o, obj, x, dim, insupp=True, hs=None, fd=False, styles=True, kw=None):
    d = property_verdict(o, obj, x, dim, insupp=insupp, hs=hs, fd=fd)
    if d is None:
        if styles and meta.get("fam") in ("gauss", "gmrf", "cmrf", "lik", "post", "mlp", "lognormal-full", "large"):
            d2 = input_style_failure(meta, obj, dim, kw=kw)
            if d2:
                return d2, "C03|%s|input-style" % meta.get("cellname", meta.get("fam"))
        return None, ""
    return d, classify_failure(meta, o, obj, x)


# ------------------------------------------------------------------------------------------------
# the generator
# ------------------------------------------------------------------------------------------------
def run(ctx):
    import cuqi
    rng = ctx.rng
    st = state()
    for sig, (ok, txt) in _STATE.items():
        ctx.note("site %s: %s" % (sig, "repaired" if ok else "defect present"))
    cases = []
    cases += gen_gauss_prior(ctx, st)
    cases += gen_gauss_batch(ctx, st)
    cases += gen_gauss_scale(ctx, st)
    cases += gen_gmrf(ctx, st)
    cases += gen_lik(ctx, st)
    cases += gen_sum(ctx, st)
    cases += gen_fd(ctx, st)
    cases += gen_sep(ctx, st)
    cases += gen_oos(ctx, st)
    cases += gen_cmrf(ctx, st)
    cases += gen_lognormal_full(ctx, st)
    cases += gen_dispatch(ctx, st)
    cases += gen_gallery(ctx, st)
    cases += gen_large(ctx, st)
    cases += gen_history(ctx, st)
    cases += gen_falsy(ctx, st)
    cases += gen_lifecycle(ctx, st)
    cases += gen_degenerate(ctx, st)
    cases += gen_defaults(ctx, st)
    cases += gen_subclass_geometry(ctx, st)
    cases += gen_shallow(ctx, st)
    cases += gen_intparams(ctx, st)
    cases += gen_zeros(ctx, st)
    cases += gen_oos_mrf(ctx, st)
    cases += gen_sum_geo(ctx, st)
    cases += gen_lik_tgeo(ctx, st)          # new families go last: the random streams of the older generators stay as they were
    return Result(cases=cases, rule=RULE,
                  extra={"repair_state": {s: ("repaired" if v else "defect present") for s, v in st.items()}},
                  assumptions=[
                      "the precision matrix implied by a cov / sqrtcov parameter (a matrix inverse) is computed by the harness in exact rationals and CHECKED by the model (M P = I exactly)",
                      "difference matrices of GMRF/CMRF (_diff_op, _prec_op) are read from the object and checked by the model to satisfy P = D^T D, P symmetric; their stencils belong to C20",
                      "ln(data) / ln(x) of the Lognormal cells enter the rational model as the floats numpy computed (certificate); the diagonal Lognormal prior is modelled with ln in R and closed by interval",
                      "comparison tolerance 1e-9 relative (rounding of the float linear algebra is not modelled); oracle = Richardson central differences of the same object's logd, 1e-6 relative",
                      "forward models are the polynomial family F(u) = A (u*u) + B u with integer A, B (A = 0: linear), supplied as matrix / function+adjoint / Jacobian / direction-Jacobian / PDE-class models; domain geometries: default, Continuous1D, Discrete, mapped (a t^2 + b t + c) with and without its own gradient, StepExpansion, KLExpansion"])


# ---- Gaussian prior ---------------------------------------------------------------------------------
def gen_gauss_prior(ctx, st):
    rng = ctx.rng
    out = []
    reps = ctx.n(3, 14)
    for form in ("cov", "prec", "sqrtcov", "sqrtprec"):
        ptypes = ["scalar", "vector", "diagmatrix", "matrix"]
        if form in ("sqrtcov", "sqrtprec"):
            ptypes.append("uppermatrix")
            ptypes.append("generalmatrix")
        ptypes.append("sparsediag")
        for ptype in ptypes:
            for r in range(reps):
                n = 1 if (r == reps - 1 and ptype in ("scalar", "vector")) else rng.randint(2, 4)
                val, pcoq, P = gauss_param(rng, form, ptype, n)
                mean = rand_mean(rng, n)
                x, x1 = rvec(rng, n), rvec(rng, n)
                raw = (P_(Fraction(val).limit_denominator(64)) if ptype == "scalar" else
                       pv([Fraction(v).limit_denominator(64) for v in val]) if ptype == "vector" else
                       pm([[Fraction(v).limit_denominator(64) for v in row] for row in (val.toarray() if hasattr(val, "toarray") else val)]))
                meta = {"fam": "gauss", "form": form, "ptype": ptype, "param": raw, "n": n, "mean": mean, "x": pv(x), "x1": pv(x1),
                        "dia": bool(hasattr(val, "format") and val.format == "dia"),
                        "cellname": "gauss/prior/%s-%s" % (form, ptype)}
                out.append(case_gauss_prior(meta, st, pcoq, P))
    return out


def case_gauss_prior(meta, st, pcoq=None, P=None):
    n, form, ptype = meta["n"], meta["form"], meta["ptype"]
    if pcoq is None:
        pcoq, P = coq_gparam(meta)
    obj, dim = build(meta)
    x, x1 = fa(meta["x"]), fa(meta["x1"])
    o = observe(lambda: obj.gradient(x))
    f = logd_of(obj)
    dobs = f(x1) - f(x)
    expr = "check_gauss_prior %s %s %s %s %s %s %s && check_quad_logd_diff %s %s %s %s %s" % (
        cbool(st[SIG29]), FORM_COQ[form], pcoq, cqm(P), cqv(mean_list(meta["mean"])), cqv(uv(meta["x"])), cobs(o),
        cqm(P), cqv(mean_list(meta["mean"])), cqv(uv(meta["x"])), cqv(uv(meta["x1"])), cq(dobs))
    if form == "sqrtprec" and st[SIG29] and o[0] == "vec":
        # the sqrtprec parameterisation once more, as the code computes it (Gaussian._apply_prec: sqrtprec.T @ (sqrtprec @ dev),
        # logpdf through |sqrtprec (x - mean)|^2): no implied-precision certificate, no symmetry test (Proofs/C03_Gram.v)
        expr += " && check_gauss_sqrtprec %s %s %s %s %s %s" % (
            pcoq, cqv(mean_list(meta["mean"])), cqv(uv(meta["x"])), cqv(uv(meta["x1"])), cqvec(o[1]), cq(dobs))
    d, sig = verdict_case(meta, o, obj, x, dim)
    return Case(expr=expr, meta=meta, cell=meta["cellname"], trivial=(n == 1), kind="EXACT", impl_fail=d, signature=sig)


def coq_gparam(meta):
    """Coq gparam + implied precision (Fractions) from the stored raw parameter"""
    form, ptype, n = meta["form"], meta["ptype"], meta["n"]
    if ptype == "scalar":
        a = F(meta["param"])
        p, diag = "(PScalar %s)" % cqc(a), [a] * n
    elif ptype == "vector":
        v = uv(meta["param"])
        p, diag = "(PVector %s)" % cqv(v), v
    else:
        M = [[F(a) for a in r] for r in meta["param"]]
        p = "(PMatrix %s)" % cqm(M)
        if form == "cov":
            return p, f_inv(M)
        if form == "prec":
            return p, M
        if form == "sqrtcov":
            return p, f_inv(f_mm(M, f_T(M)))
        return p, f_mm(f_T(M), M)
    if form == "cov":
        return p, f_diag([1 / a for a in diag])
    if form == "prec":
        return p, f_diag(diag)
    if form == "sqrtcov":
        return p, f_diag([1 / (a * a) for a in diag])
    return p, f_diag([a * a for a in diag])


def gen_gauss_scale(ctx, st):
    """magnitude sweep: the covariance-type parameter scaled by 2^k and mean / point by 2^j, compared RELATIVELY entry by entry
    (no absolute floor), so that a comparison against an absolute threshold anywhere on the path shows up"""
    rng = ctx.rng
    out = []
    for form in ("cov", "prec", "sqrtcov", "sqrtprec"):
        for ptype in ("scalar", "vector", "diagmatrix", "matrix"):
            for (k, j) in ((-40, 0), (30, 0), (0, -25), (0, 20), (-20, -20), (24, 16)) if ctx.thorough else ((-40, -25), (30, 20), (-20, 16)):
                n = rng.randint(2, 3)
                val, _, _ = gauss_param(rng, form, ptype, n)
                c, d = Fraction(2) ** k, Fraction(2) ** j
                raw = raw_param(val, ptype)
                raw = P_(F(raw) * c) if ptype == "scalar" else pv([F(a) * c for a in raw]) if ptype == "vector" else pm([[F(a) * c for a in r] for r in raw])
                x = [a * d for a in rvec(rng, n, nonzero=True)]
                m = [a * d for a in rvec(rng, n, nonzero=True)]
                if all(a == b for a, b in zip(x, m)):
                    x[0] += d
                meta = {"fam": "gauss", "form": form, "ptype": ptype, "param": raw, "n": n, "mean": ["v", pv(m)], "x": pv(x), "scale": [k, j],
                        "cellname": "gauss/scale/%s-%s/param*2^%d/point*2^%d" % (form, ptype, k, j)}
                out.append(case_gauss_scale(meta, st))
    return out


def case_gauss_scale(meta, st):
    obj, dim = build(meta)
    x = fa(meta["x"])
    o = observe(lambda: obj.gradient(x))
    pcoq, P = coq_gparam(meta)
    g = o[1] if o[0] == "vec" else []
    expr = "check_gauss_prior_rel %s %s %s %s %s %s" % (FORM_COQ[meta["form"]], pcoq, cqm(P), cqv(mean_list(meta["mean"])), cqv(uv(meta["x"])), cqvec(g))
    # oracle: exact rational -P (x - m) from the harness's own numbers, relative 1e-9 (finite differences lose all digits at these magnitudes)
    d, sig = None, ""
    e = [a - b for a, b in zip(uv(meta["x"]), mean_list(meta["mean"]))]
    ref = [-sum(P[i][t] * e[t] for t in range(dim)) for i in range(dim)]
    size = max(abs(rv) for rv in ref)
    if o[0] != "vec" or len(g) != dim or any(abs(frac(gv) - rv) > Fraction(1, 10 ** 9) * size for gv, rv in zip(g, ref)):
        d = "Gaussian(%s scaled by 2^%d, points by 2^%d).gradient = %r but -P(x - mean) = %s" % (meta["form"], meta["scale"][0], meta["scale"][1], g or o[0], [float(v) for v in ref])
        sig = "C03|%s|scale" % meta["cellname"].split("/param")[0]
    return Case(expr=expr, meta=meta, cell=meta["cellname"], kind="EXACT", impl_fail=d, signature=sig)


def gen_gauss_batch(ctx, st):
    """Gaussian.gradient on a (N, dim) array of row points (the layout logpdf accepts): column j of the (dim, N) result is the
    gradient at row j.  N = 1 (what DistributionGallery hands in), N = dim (shape-ambiguous), N = dim + 1"""
    rng = ctx.rng
    out = []
    for form, ptype in (("cov", "matrix"), ("prec", "vector"), ("sqrtprec", "generalmatrix"), ("sqrtcov", "scalar")):
        for Nlab in ("1", "dim", "dim+1"):
            n = rng.randint(2, 3)
            N = {"1": 1, "dim": n, "dim+1": n + 1}[Nlab]
            val, pcoq, P = gauss_param(rng, form, ptype, n)
            meta = {"fam": "gauss", "form": form, "ptype": ptype, "param": raw_param(val, ptype), "n": n, "mean": ["v", pv(rvec(rng, n, nonzero=True))],
                    "rows": [pv(rvec(rng, n)) for _ in range(N)], "x": pv(rvec(rng, n)), "x1": pv(rvec(rng, n)), "batch": True,
                    "cellname": "gauss/batch/%s-%s/N=%s" % (form, ptype, Nlab)}
            out.append(case_gauss_batch(meta, st))
    return out


def case_gauss_batch(meta, st):
    obj, dim = build(meta)
    rows = np.array([fa(r) for r in meta["rows"]])
    o = observe(lambda: obj.gradient(rows))
    singles = [num_grad(logd_of(obj), r) for r in rows]              # oracle: derivative of logd at every row
    ok = o[0] == "matrix" and np.asarray(o[1]).shape == (dim, len(rows)) and all(vclose(np.asarray(o[1])[:, j], singles[j]) for j in range(len(rows)))
    pcoq, P = coq_gparam(meta)
    if ok:
        M = np.asarray(o[1])
        expr = " && ".join("check_gauss_prior %s %s %s %s %s %s (ObsVec %s)" % (cbool(st[SIG29]), FORM_COQ[meta["form"]], pcoq, cqm(P), cqv(mean_list(meta["mean"])),
                                                                                cqv(uv(meta["rows"][j])), cqvec(M[:, j])) for j in range(len(rows)))
        return Case(expr=expr, meta=meta, cell=meta["cellname"], kind="EXACT")
    d = "Gaussian.gradient of a (%d,%d) batch of rows: %s; column j is not the derivative of logd at row j" % (len(rows), dim, o[0] if o[0] != "matrix" else "matrix of shape %s" % (np.asarray(o[1]).shape,))
    sig = "C03|%s|%s" % (meta["cellname"], o[0])
    if not st[SIGBATCH]:
        # the known regression: the rows are multiplied as if they were columns (raises unless N = dim)
        dev = rows - np.asarray(mean_value(meta["mean"]))
        if (o[0] == "raised" and len(rows) != dim) or (o[0] == "matrix" and len(rows) == dim and
                                                        vclose(np.asarray(o[1]), -np.array([[float(v) for v in r] for r in P]) @ dev, 1e-9)):
            sig = SIGBATCH
    return Case(expr="true" if sig == SIGBATCH else "false", meta=meta, cell=meta["cellname"], kind="EXACT", impl_fail=d, signature=sig)


# ---- GMRF ------------------------------------------------------------------------------------------
def gen_gmrf(ctx, st):
    rng = ctx.rng
    out = []
    for bc in ("zero", "periodic", "neumann"):
        for order in (0, 1, 2):
            for pd in (1, 2):
                for r in range(ctx.n(2, 4) if pd == 2 else ctx.n(3, 7)):
                    if pd == 1:
                        # r == 0: fewer nodes than the stencil is wide (boundary patches overlap / empty operator)
                        n = rng.choice([2, 3]) if r == 0 else rng.randint(4, 7)
                        N = n
                        geo2 = None
                    else:
                        N = 3 if not (ctx.thorough and r % 2) else 4
                        n = N * N
                        geo2 = ["image2d", "cont2d"][r % 2]
                    if pd == 2 and n > 9 and not ctx.thorough:
                        continue
                    geo1 = ["default", "cont1d", "discrete"][r % 3] if pd == 1 else None
                    meta = {"fam": "gmrf", "bc": bc, "order": order, "pd": pd, "n": n, "N": N, "geo2": geo2, "geo1": geo1 or "default",
                            "mean": rand_mean(rng, n), "prec": P_(rpos(rng)), "x": pv(rvec(rng, n, -2, 2)), "x1": pv(rvec(rng, n, -2, 2)),
                            "cellname": "gmrf/%s/order%d/%s" % (bc, order, ("1d-" + geo1) if pd == 1 else ("2d-" + geo2))}
                    out.append(case_gmrf(meta, st))
    return out


def case_gmrf(meta, st):
    obj, dim = build(meta)
    x, x1 = fa(meta["x"]), fa(meta["x1"])
    Pop = np.asarray(obj._prec_op.get_matrix().todense())
    D = np.asarray(obj._diff_op.get_matrix().todense()) if hasattr(obj._diff_op.get_matrix(), "todense") else np.asarray(obj._diff_op.get_matrix())
    o = observe(lambda: obj.gradient(x))
    f = logd_of(obj)
    dobs = f(x1) - f(x)
    g = o[1] if o[0] == "vec" else []
    if math.isfinite(dobs):
        expr = "check_gmrf %s %s %s %s %s %s %s %s" % (cqc(F(meta["prec"])), cqm(Pop), cqm(D), cqv(mean_list(meta["mean"])),
                                                        cqv(uv(meta["x"])), cqv(uv(meta["x1"])), cqvec(g), cq(dobs))
        d, sig = verdict_case(meta, o, obj, x, dim)
    else:
        # logd itself is not a number (order 2 + neumann: log of a zero eigenvalue, C20's finding): only the formula can be compared
        expr = "check_gmrf_grad %s %s %s %s %s %s" % (cqc(F(meta["prec"])), cqm(Pop), cqm(D), cqv(mean_list(meta["mean"])), cqv(uv(meta["x"])), cqvec(g))
        d = ("logd of GMRF(order=%d, bc_type=%s, dim=%d) is %r at every point, so the finite vector gradient() returns is not the derivative of the object's logd"
             % (meta["order"], meta["bc"], meta["n"], f(x)))
        sig = SIGNAN if (meta["order"] == 2 and meta["bc"] == "neumann" and o[0] == "vec") else "C03|%s|logd-nonfinite" % meta["cellname"]
    return Case(expr=expr, meta=meta, cell=meta["cellname"], kind="EXACT", impl_fail=d, signature=sig)


# ---- likelihoods ------------------------------------------------------------------------------------
MODEL_KINDS = ["matrix", "funadj", "jac", "grad", "pde-grad", "pde-jac"]
LIN_KINDS = ("matrix", "funadj")


def rand_model(rng, kind, dom, m=None, n=None, ran=("default",)):
    m = m or rng.randint(2, 3)
    n = n or rng.randint(2, 3)
    B = [[rng.randint(-2, 2) for _ in range(n)] for _ in range(m)]
    if all(v == 0 for r in B for v in r):
        B[0][0] = 1
    if kind in LIN_KINDS:
        A = [[0] * n for _ in range(m)]
    else:
        A = [[rng.randint(-1, 1) for _ in range(n)] for _ in range(m)]
        if all(v == 0 for r in A for v in r):
            A[m - 1][n - 1] = 1
    return {"kind": kind, "A": pm(A), "B": pm(B), "m": m, "n": n, "dom": list(dom), "ran": list(ran)}


def rand_mapped_imap(rng):
    return ["mapped+grad+imap", P_(0), P_(rng.choice([Fraction(2), Fraction(-1, 2), Fraction(4), Fraction(3, 2)])), P_(rdy(rng, -1, 1))]


def rand_mapped(rng, grad=True):
    ga = rng.choice([Fraction(1, 2), Fraction(1), Fraction(-1, 2), Fraction(1, 4)])
    gb = rng.choice([Fraction(1), Fraction(2), Fraction(-1), Fraction(1, 2)])
    gc = rdy(rng, -1, 1)
    return ["mapped+grad" if grad else "mapped", P_(ga), P_(gb), P_(gc)]


def gen_lik(ctx, st):
    rng = ctx.rng
    out = []
    doms_ok = [("default",), ("cont1d",), ("discrete",), "mapped+grad", "mapped+grad+imap"]
    forms = [("cov", "scalar"), ("cov", "vector"), ("cov", "matrix"), ("prec", "matrix"), ("prec", "diagmatrix"), ("sqrtcov", "scalar"),
             ("sqrtcov", "matrix"), ("prec", "scalar"), ("prec", "vector"), ("sqrtprec", "vector"), ("sqrtprec", "matrix"), ("sqrtprec", "scalar")]
    k = 0
    for kind in MODEL_KINDS:
        for dom in doms_ok:
            for (form, ptype) in forms:
                k += 1
                if not ctx.thorough and (k % 3 != 0) and not (form == "cov" and ptype == "matrix"):
                    continue
                d = rand_mapped(rng) if dom == "mapped+grad" else (rand_mapped_imap(rng) if dom == "mapped+grad+imap" else dom)
                ms = rand_model(rng, kind, d)
                lm = lik_meta(rng, ms, form, ptype)
                lm["lstyle"] = ["to_likelihood", "call-name", "cond-param", "cond-param-samename"][(k // 3) % 4]
                lm["model"]["ret"] = ["fresh", "buffer", "fortran"][(k // 3 + MODEL_KINDS.index(kind)) % 3]
                if kind == "matrix" and (k // 3) % 2:
                    lm["model"]["intmatrix"] = True
                out.append(case_lik(lm, st))
    # Lognormal data distribution (always a covariance)
    for kind in MODEL_KINDS:
        for dom in doms_ok:
            for ptype in ("scalar", "matrix") if ctx.thorough else ("matrix",):
                d = rand_mapped(rng) if dom == "mapped+grad" else (rand_mapped_imap(rng) if dom == "mapped+grad+imap" else dom)
                ms = rand_model(rng, kind, d)
                out.append(case_lik(lik_meta(rng, ms, "cov", ptype, lognormal=True), st))
    # refusals: geometries without a derivative, models without a gradient, non-identity range geometry
    for kind in ("matrix", "jac", "grad"):
        for dom in ("mapped", "mapped+imap", "step", "kl"):
            # mapped+imap: fun2par exists but no derivative is supplied -- still a refusal, not fun2par of the function-space vector
            d = rand_mapped(rng, grad=False) if dom == "mapped" else ((["mapped+imap"] + rand_mapped_imap(rng)[1:]) if dom == "mapped+imap" else (dom,))
            ms = rand_model(rng, kind, d)
            out.append(case_lik(lik_meta(rng, ms, "cov", "scalar"), st, expect_refusal=True))
        ms = rand_model(rng, kind, ("default",), ran=rand_mapped(rng, grad=False))
        out.append(case_lik(lik_meta(rng, ms, "cov", "scalar"), st, expect_refusal=True))
    ms = rand_model(rng, "nograd", ("default",))
    out.append(case_lik(lik_meta(rng, ms, "cov", "scalar"), st, expect_refusal=True))
    return out


def gen_sum_geo(ctx, st):
    """Posterior / multiple-likelihood posterior whose likelihoods go through a domain geometry that supplies its own derivative
    (quadratic, exp, sin elementwise maps): the composite's gradient against independently built factors and against finite
    differences of the composite's own logd; direct construction and reduction of a JointDistribution"""
    rng = ctx.rng
    out = []
    geos = [("quad", lambda: rand_mapped(rng)), ("exp", lambda: ["tmap+grad", "exp", rng.randint(0, 1)]), ("sin", lambda: ["tmap+grad", "sin", rng.randint(0, 1)])]
    k = 0
    for gname, mk in geos:
        for pk in ("gauss", "gmrf", "cauchy"):
            for fam, style in (("post", "direct"), ("post", "joint"), ("mlp", "direct")):
                k += 1
                if not ctx.thorough and k % 3 != 0 and not (pk == "gauss" and fam == "post"):
                    continue
                n = rng.randint(2, 3)
                dom = mk()
                parts = []
                for _ in range(1 if fam == "post" else 2):
                    ms = rand_model(rng, rng.choice(MODEL_KINDS), dom, n=n)
                    form, ptype = rng.choice([("cov", "scalar"), ("cov", "matrix"), ("prec", "vector"), ("sqrtprec", "matrix")])
                    lm = lik_meta(rng, ms, form, ptype)
                    parts.append(lm)
                if pk == "gauss":
                    val, _, _ = gauss_param(rng, "cov", "matrix", n)
                    prior = {"fam": "gauss", "form": "cov", "ptype": "matrix", "param": pm([[Fraction(v) for v in r] for r in val.tolist()]), "n": n, "mean": rand_mean(rng, n)}
                elif pk == "gmrf":
                    bc = rng.choice(["zero", "periodic"])
                    prior = {"fam": "gmrf", "bc": bc, "order": rng.choice([1, 2]), "pd": 1, "n": n, "N": n, "geo2": None, "mean": rand_mean(rng, n), "prec": P_(rpos(rng))}
                else:
                    prior = {"fam": "sep", "sfam": "Cauchy", "n": n, "pars": [["v", pv(rvec(rng, n, nonzero=True))], ["s", P_(rpos(rng))], ["s", P_(0)]], "geom_n": True}
                meta = {"fam": fam, "parts": parts + [prior], "n": n, "x": pv(rvec(rng, n, -1, 1)), "x1": pv(rvec(rng, n, -1, 1)), "style": style,
                        "cellname": "%s-geo/%s/%s-prior/%s" % (fam, gname, pk, style)}
                out.append(case_sum(meta, st))
    return out


def gen_oos_mrf(ctx, st):
    """GMRF with a non-positive precision / CMRF with a non-positive scale: not a distribution (logd is NaN or -inf at every
    point); the gradient must not be a finite vector (the clause the separable families already honour for their parameters)"""
    rng = ctx.rng
    out = []
    for fam in ("gmrf", "cmrf"):
        for bc in ("zero", "periodic", "neumann"):
            for kind in ("negative", "zero"):
                n = rng.randint(4, 5)
                val = Fraction(0) if kind == "zero" else -rpos(rng)
                meta = {"fam": "oosmrf", "mrf": fam, "bc": bc, "order": rng.choice([1, 2]) if fam == "gmrf" else 1, "n": n, "par": P_(val),
                        "mean": pv(rvec(rng, n, -2, 2, nonzero=True)), "x": pv(rvec(rng, n, -2, 2)),
                        "cellname": "oos/%s/%s-%s/%s" % (fam.upper(), "prec" if fam == "gmrf" else "scale", kind, bc)}
                out.append(case_oos_mrf(meta, st))
    # the same test must let a POSITIVE parameter through (the value cells cover the numbers)
    for fam in ("gmrf", "cmrf"):
        n = rng.randint(4, 5)
        meta = {"fam": "oosmrf", "mrf": fam, "bc": "zero", "order": 1, "n": n, "par": P_(rpos(rng)), "mean": pv(rvec(rng, n, -2, 2, nonzero=True)),
                "x": pv(rvec(rng, n, -2, 2)), "cellname": "oos/%s/%s-positive/zero" % (fam.upper(), "prec" if fam == "gmrf" else "scale")}
        out.append(case_oos_mrf(meta, st))
    return out


def case_oos_mrf(meta, st):
    from cuqi.distribution import GMRF, CMRF
    import io, contextlib
    n, val = meta["n"], float(F(meta["par"]))
    with contextlib.redirect_stdout(io.StringIO()), warnings.catch_warnings():
        warnings.simplefilter("ignore")
        with np.errstate(all="ignore"):
            if meta["mrf"] == "gmrf":
                D = GMRF(fa(meta["mean"]), val, bc_type=meta["bc"], order=meta["order"], geometry=n)
            else:
                D = CMRF(fa(meta["mean"]), val, bc_type=meta["bc"], geometry=n)
    x = fa(meta["x"])
    o = observe(lambda: D.gradient(x))
    v = logd_of(D)(x)
    sig0 = SIGGMP if meta["mrf"] == "gmrf" else SIGCMP
    d, sig = None, ""
    if val > 0:
        if o[0] != "vec" or not math.isfinite(v):
            d, sig = "%s with the positive parameter %r: logd = %r, gradient -> %s" % (meta["mrf"].upper(), val, v, o[0]), "C03|%s|%s" % (meta["cellname"], o[0])
    elif o[0] == "vec" and not math.isfinite(v):
        d = "%s(%s = %r, bc %s): logd = %r at every point but gradient(%s) returns the finite vector %s" % (
            meta["mrf"].upper(), "prec" if meta["mrf"] == "gmrf" else "scale", val, meta["bc"], v, x.tolist(), np.round(o[1], 6).tolist())
        sig = sig0
    elif o[0] == "vec":
        d, sig = "logd = %r is finite for a non-positive parameter" % v, "C03|%s|logd-finite" % meta["cellname"]
    expr = "check_mrf_param %s %s %s" % (cbool(st[sig0]), cq(F(meta["par"])), cobs(o))
    return Case(expr=expr, meta=meta, cell=meta["cellname"], kind="DECISION", impl_fail=d, signature=sig)


TAC_TGEO = ("cbv [tlik_grad tlik_logk tfwd tjact rvmulM tphi tphi' map length rl_close r_close rdot rvadd rvsub rvscale rmatvec rmattvec "
            "matvec mattvec dot vadd vsub vscale vzero repeat]; repeat split; interval with (i_prec 90).")


def gen_lik_tgeo(ctx, st):
    """likelihoods through every kind of forward model and a transcendental elementwise geometry with its own derivative
    (Model/C03_ChainR.v, theorem C03_transcendental_geometry_likelihood): Gaussian and Lognormal data distributions"""
    rng = ctx.rng
    out = []
    forms = [("cov", "matrix"), ("prec", "vector"), ("sqrtprec", "matrix"), ("cov", "scalar"), ("sqrtcov", "matrix"), ("prec", "matrix")]
    k = 0
    for kind in MODEL_KINDS:
        for tm in ("exp", "sin"):
            for rep in range(ctx.n(1, 4)):
                k += 1
                form, ptype = forms[k % len(forms)]
                ms = rand_model(rng, kind, ["tmap+grad", tm, k % 2])
                lognormal = (k % 4 == 0)
                if lognormal:
                    form, ptype = "cov", ("matrix" if k % 8 else "scalar")       # Lognormal is parameterised by a covariance only
                meta = lik_meta(rng, ms, form, ptype, lognormal=lognormal)
                meta["cellname"] = "lik-tgeo/%s/%s/%s" % ("lognormal" if lognormal else "gaussian", kind, tm)
                # moderate points: exp(theta) stays O(1)
                meta["x"], meta["x1"] = pv(rvec(rng, ms["n"], -1, 1)), pv(rvec(rng, ms["n"], -1, 1))
                meta["lstyle"] = ["to_likelihood", "call-name"][k % 2]
                meta["model"]["ret"] = ["fresh", "buffer", "fortran"][k % 3]
                out += case_lik_tgeo(meta, st)
    return out


def case_lik_tgeo(meta, st):
    ms = meta["model"]
    obj, dim = build(meta)
    th, th1 = fa(meta["x"]), fa(meta["x1"])
    o = observe(lambda: obj.gradient(th))
    f = logd_of(obj)
    dobs = f(th1) - f(th)
    _, P = coq_gparam({"form": meta["form"], "ptype": meta["ptype"], "n": ms["m"], "param": meta["param"]})
    data = uv(meta["data"])
    if meta.get("lognormal"):
        data = fr(np.log(fa(meta["data"])))          # certificate: the floats numpy computed
    tm = {"exp": "TExp", "sin": "TSin"}[ms["dom"][1]]
    args = "%s %s %s %s %s" % (tm, crm([[F(a) for a in r] for r in ms["A"]]), crm([[F(a) for a in r] for r in ms["B"]]), crm(P), crv(data))
    d, sig = verdict_case(meta, o, obj, th, dim, kw="x")
    expr = "(rl_close %s (tlik_grad %s %s) %s)%%R" % (RTOL, args, crv(uv(meta["x"])), crv(o[1])) if o[0] == "vec" else "False"
    cases = [Case(expr=expr, meta=meta, cell=meta["cellname"], kind="ENCLOSURE", tac=TAC_TGEO, impl_fail=d, signature=sig)]
    m2 = dict(meta)
    m2["what"] = "logd-difference"
    expr2 = "(r_close %s (tlik_logk %s %s - tlik_logk %s %s) %s)%%R" % (RTOL, args, crv(uv(meta["x1"])), args, crv(uv(meta["x"])), cr(dobs))
    cases.append(Case(expr=expr2, meta=m2, cell=meta["cellname"] + "/logd", kind="ENCLOSURE", tac=TAC_TGEO))
    return cases


def lik_meta(rng, ms, form, ptype, lognormal=False):
    if lognormal:
        for _ in range(40):
            meta = _lik_meta(rng, ms, form, ptype, True)
            f = logd_of(build(meta)[0])
            vals = [f(fa(meta["x"])), f(fa(meta["x1"]))]
            if all(math.isfinite(v) and abs(v) < 300 for v in vals):
                return meta
        raise RuntimeError("no Lognormal likelihood case with a finite logd found")
    return _lik_meta(rng, ms, form, ptype, False)


def _lik_meta(rng, ms, form, ptype, lognormal=False):
    m, n = ms["m"], ms["n"]
    val, pcoq, P = gauss_param(rng, form, ptype, m)
    raw = (P_(Fraction(val).limit_denominator(64)) if ptype == "scalar" else
           pv([Fraction(v).limit_denominator(64) for v in val]) if ptype == "vector" else
           pm([[Fraction(v).limit_denominator(64) for v in row] for row in val]))
    data = [abs(a) + Fraction(1, 4) for a in rvec(rng, m)] if lognormal else rvec(rng, m)
    th = rvec(rng, n, -2, 2) if not lognormal else rvec(rng, n, -1, 1)
    th1 = rvec(rng, n, -2, 2) if not lognormal else rvec(rng, n, -1, 1)
    geo = ms["dom"][0]
    return {"fam": "lik", "model": ms, "form": form, "ptype": ptype, "param": raw, "n": n, "data": pv(data), "x": pv(th), "x1": pv(th1),
            "lognormal": bool(lognormal),
            "cellname": "lik/%s/%s/%s/%s-%s" % ("lognormal" if lognormal else "gaussian", ms["kind"], geo if ms["ran"][0] == "default" else "range:" + ms["ran"][0], form, ptype)}


def case_lik(meta, st, expect_refusal=False):
    ms = meta["model"]
    obj, dim = build(meta)
    th, th1 = fa(meta["x"]), fa(meta["x1"])
    o = observe(lambda: obj.gradient(th))
    pcoq, P = coq_gparam({"form": meta["form"], "ptype": meta["ptype"], "n": ms["m"], "param": meta["param"]})
    if expect_refusal or ms["kind"] == "nograd" or ms["dom"][0] in ("mapped", "mapped+imap", "step", "kl") or ms["ran"][0] != "default":
        # DECISION: no derivative available => the call must raise
        expr = "match %s with ObsRaised => true | _ => false end" % cobs(o)
        d, sig = verdict_case(meta, o, obj, th, dim)
        if d is None and o[0] != "raised":
            d, sig = "a gradient is returned although the geometry / model supplies no derivative: %r" % (o,), "C03|%s|%s" % (meta["cellname"], o[0])
        return Case(expr=expr, meta=meta, cell=meta["cellname"], kind="DECISION", trivial=True, impl_fail=d, signature=sig)
    f = logd_of(obj)
    dobs = f(th1) - f(th)
    if ms["dom"][0] in ("mapped+grad", "mapped+grad+imap"):
        ga, gb, gc = [F(a) for a in ms["dom"][1:4]]
    else:
        ga, gb, gc = Fraction(0), Fraction(1), Fraction(0)
    data = uv(meta["data"])
    if meta.get("lognormal"):
        data = fr(np.log(fa(meta["data"])))
    expr = "check_lik %s %s %s %s %s %s %s %s %s %s %s %s %s %s" % (
        cbool(st[SIG29]), FORM_COQ[meta["form"]], pcoq, cqm(P), cqm([[F(a) for a in r] for r in ms["A"]]),
        cqm([[F(a) for a in r] for r in ms["B"]]), cqc(ga), cqc(gb), cqc(gc), cqv(data), cqv(uv(meta["x"])), cqv(uv(meta["x1"])), cobs(o), cq(dobs))
    d, sig = verdict_case(meta, o, obj, th, dim, kw="x")
    return Case(expr=expr, meta=meta, cell=meta["cellname"], kind="EXACT", impl_fail=d, signature=sig)


# ---- sum rule: Posterior and MultipleLikelihoodPosterior -----------------------------------------------
def gen_sum(ctx, st):
    rng = ctx.rng
    out = []
    for it in range(ctx.n(24, 160)):
        n = rng.randint(2, 3)
        nl = 1 if it % 2 == 0 else rng.randint(2, 3)
        parts = []
        for _ in range(nl):
            kind = rng.choice(MODEL_KINDS)
            ms = rand_model(rng, kind, ("default",), n=n)
            form, ptype = rng.choice([("cov", "scalar"), ("cov", "vector"), ("cov", "matrix"), ("prec", "matrix"), ("sqrtcov", "vector")])
            parts.append(lik_meta(rng, ms, form, ptype, lognormal=(rng.random() < 0.2)))
        pk = it % 4
        if pk == 0:
            val, _, _ = gauss_param(rng, "cov", "matrix", n)
            prior = {"fam": "gauss", "form": "cov", "ptype": "matrix", "param": pm([[Fraction(v) for v in r] for r in val.tolist()]), "n": n,
                     "mean": rand_mean(rng, n)}
        elif pk == 1:
            prior = {"fam": "gauss", "form": "sqrtcov", "ptype": "vector", "param": pv([rpos(rng) for _ in range(n)]), "n": n, "mean": rand_mean(rng, n)}
        elif pk == 2:
            bc = rng.choice(["zero", "neumann", "periodic"])
            # (neumann, order 2) has logd = NaN (finding GMRF.logpdf|order2-neumann:logd-NaN, exercised in the gmrf cells)
            prior = {"fam": "gmrf", "bc": bc, "order": 1 if bc == "neumann" else rng.choice([1, 2]), "pd": 1, "n": n, "N": n, "geo2": None,
                     "mean": rand_mean(rng, n), "prec": P_(rpos(rng))}
        else:
            prior = {"fam": "sep", "sfam": "Cauchy", "n": n, "pars": [["v", pv(rvec(rng, n, nonzero=True))], ["s", P_(rpos(rng))], ["s", P_(0)]], "geom_n": True}
        fam = "post" if nl == 1 else "mlp"
        meta = {"fam": fam, "parts": parts + [prior], "n": n, "x": pv(rvec(rng, n, -2, 2)), "x1": pv(rvec(rng, n, -2, 2)),
                "cellname": "%s/%s-prior/%d-likelihoods" % (fam, prior.get("sfam", prior["fam"]), nl)}
        out.append(case_sum(meta, st))
    out += gen_sum_factors(ctx, st)
    out += gen_sum_bounded(ctx, st)
    return out


# factor kinds: R regular Likelihood, U UserDefinedLikelihood with a gradient function, N one without, E EvaluatedDensity;
# priors: g Gaussian, m GMRF, c Cauchy, u UserDefinedDistribution with gradient, n one without
SUM_LATTICE = [
    # (family, likelihood factors, prior, style, geometry of user likelihoods)
    ("post", "U", "g", "direct", "cont1d"), ("post", "U", "g", "direct", "default1d"), ("post", "U", "g", "direct", "none"),
    ("post", "U", "u", "direct", "cont1d"), ("post", "N", "g", "direct", "cont1d"), ("post", "R", "u", "direct", None),
    ("post", "R", "n", "direct", None), ("post", "R", "g", "joint", None), ("post", "R", "g", "joint+const", None),
    ("post", "R", "m", "stepwise+const", None),
    ("mlp", "RU", "g", "direct", "none"), ("mlp", "UR", "g", "direct", "cont1d"), ("mlp", "RUU", "c", "direct", "none"),
    ("mlp", "RRU", "m", "direct", "default1d"), ("mlp", "URU", "u", "direct", "none"), ("mlp", "RU", "u", "direct", "none"),
    ("mlp", "RUN", "g", "direct", "none"), ("mlp", "RN", "g", "direct", "none"), ("mlp", "RU", "n", "direct", "none"),
    ("mlp", "RE", "g", "direct", None), ("mlp", "RUE", "g", "direct", "none"), ("mlp", "RURU", "g", "direct", "none"),
    ("mlp", "RRRR", "c", "direct", None), ("mlp", "UUUR", "m", "direct", "cont1d"), ("mlp", "RR", "g", "joint", None),
    ("mlp", "RRR", "u", "joint", None), ("mlp", "RR", "m", "stepwise", None), ("mlp", "RR", "g", "joint+const", None),
    ("mlp", "RRR", "g", "stepwise+const", None),
    # a factor with its own FD switch on (prior without analytic gradient / a likelihood), inside the posterior
    ("post", "R", "n", "direct", None, "fd-prior"), ("mlp", "RR", "n", "direct", None, "fd-prior"),
    ("post", "R", "g", "direct", None, "fd-lik"), ("mlp", "RU", "g", "direct", "none", "fd-lik"),
    # L24: every remaining prior CLASS inside the composites (a composite may special-case one class)
    ("post", "R", "S", "direct", None), ("mlp", "RU", "S", "direct", "none"), ("post", "R", "K", "direct", None), ("mlp", "RR", "K", "joint", None),
    ("post", "U", "c", "direct", "cont1d"), ("post", "R", "m", "direct", None), ("post", "R", "F", "direct", None), ("mlp", "RU", "F", "direct", "none"),
    # L26: large additive constants of the log-density (user factors offset by 10^6, an observed independent variable far out):
    # the gradient does not see them, logd differences still do not
    ("post", "U", "g", "direct", "cont1d", "offset"), ("mlp", "RU", "g", "direct", "none", "offset"), ("post", "R", "g", "joint+const", None, "offset"),
    ("mlp", "UU R".replace(" ", ""), "u", "direct", "none", "offset"),
    # L19: user factors that refill and hand out one work buffer on every call
    ("post", "U", "g", "direct", "cont1d", "buffer"), ("mlp", "RUU", "g", "direct", "none", "buffer"), ("mlp", "UR", "u", "direct", "cont1d", "buffer"),
]


def rand_user_factor(rng, fam, n, grad=True, geom="none"):
    return {"fam": fam, "n": n, "c": pv(rvec(rng, n, -2, 2)), "w": P_(rpos(rng)), "deg": rng.choice([1, 2, 4]), "grad": grad, "geom": geom}


def rand_prior(rng, kind, n):
    if kind == "g":
        form, ptype = rng.choice([("cov", "matrix"), ("prec", "vector"), ("sqrtprec", "scalar"), ("sqrtcov", "vector")])
        val, _, _ = gauss_param(rng, form, ptype, n)
        raw = (P_(Fraction(val)) if ptype == "scalar" else pv([Fraction(v) for v in val]) if ptype == "vector" else
               pm([[Fraction(v) for v in r] for r in val.tolist()]))
        return {"fam": "gauss", "form": form, "ptype": ptype, "param": raw, "n": n, "mean": rand_mean(rng, n)}
    if kind == "m":
        bc = rng.choice(["zero", "neumann", "periodic"])
        return {"fam": "gmrf", "bc": bc, "order": 1 if bc == "neumann" else rng.choice([1, 2]), "pd": 1, "n": n, "N": n, "geo2": None,
                "mean": rand_mean(rng, n), "prec": P_(rpos(rng))}
    if kind == "c":
        return {"fam": "sep", "sfam": "Cauchy", "n": n, "pars": [["v", pv(rvec(rng, n, nonzero=True))], ["s", P_(rpos(rng))], ["s", P_(0)]], "geom_n": True}
    if kind == "S":
        return sep_meta(rng, "SmoothedLaplace", n, vec=(rng.random() < 0.5))
    if kind == "K":
        return {"fam": "cmrf", "bc": rng.choice(["zero", "neumann", "periodic"]), "pd": 1, "n": n, "N": n, "geo2": None, "loc": rand_mean(rng, n), "scale": P_(rpos(rng))}
    if kind == "F":
        # Lognormal prior with a full covariance (support x > 0: the evaluation points are moved inside by the caller)
        return {"fam": "lognormal-full", "n": n, "mean": pv(rvec(rng, n, -1, 1, nonzero=True)), "cov": pm(rand_spd(rng, n))}
    if kind in BOUNDED_PRIORS:
        return sep_meta(rng, BOUNDED_PRIORS[kind], n, vec=(rng.random() < 0.5))
    return rand_user_factor(rng, "udist", n, grad=(kind == "u"))


# priors with a bounded support inside a Posterior / multiple-likelihood posterior: the sum rule inside the support and
# the "non-finite outside the support" clause AT THE LEVEL OF THE COMPOSITE (a factor's NaN must survive the sum)
BOUNDED_PRIORS = {"U": "Uniform", "B": "Beta", "I": "InvGamma", "H": "MHN", "L": "LognormalDiag"}
BOUNDED_LATTICE = [(fam, liks, pk, style) for pk in BOUNDED_PRIORS for (fam, liks, style) in
                   (("post", "R", "direct"), ("post", "U", "direct"), ("mlp", "RU", "direct"), ("mlp", "RR", "joint"))]


def gen_sum_bounded(ctx, st):
    rng = ctx.rng
    out = []
    for (fam, liks, pk, style) in BOUNDED_LATTICE:
        sf = BOUNDED_PRIORS[pk]
        if style == "joint" and sf == "LognormalDiag" and False:
            continue
        n = rng.randint(2, 3)
        parts = []
        for ch in liks:
            if ch == "R":
                parts.append(lik_meta(rng, rand_model(rng, rng.choice(MODEL_KINDS), ("default",), n=n), *rng.choice([("cov", "vector"), ("cov", "matrix"), ("sqrtprec", "scalar")])))
            else:
                parts.append(rand_user_factor(rng, "ulik", n, grad=True, geom="cont1d"))
        prior = rand_prior(rng, pk, n)
        base = {"fam": fam, "parts": parts + [prior], "n": n, "style": style, "_checked": True}
        # inside the support of the prior: the sum rule
        m_in = dict(base, x=pv(sep_point(rng, prior)), x1=pv(sep_point(rng, prior)),
                    cellname="%s/factors:%s/bounded-prior:%s/%s/inside" % (fam, liks, sf, style))
        out.append(case_sum(m_in, st))
        # exactly one coordinate outside, on every side the family has: the composite's gradient must be non-finite
        a, b, c = sep_parlists(prior)
        for side in [sd for sd in OOS_SIDES[sf] if sd in ("low", "high", "at-low", "at-high")]:
            x = sep_point(rng, prior)
            i = rng.randrange(n)
            lo = {"Beta": Fraction(0), "InvGamma": b[i], "MHN": Fraction(0), "LognormalDiag": Fraction(0), "Uniform": a[i]}[sf]
            hi = {"Beta": Fraction(1), "Uniform": b[i]}.get(sf)
            x[i] = {"low": lo - Fraction(1, 4), "at-low": lo, "high": (hi or 0) + Fraction(1, 4), "at-high": hi}[side]
            m_out = dict(base, x=pv(x), x1=pv(sep_point(rng, prior)), oos_prior=side,
                         cellname="%s/factors:%s/bounded-prior:%s/%s/outside-%s" % (fam, liks, sf, style, side))
            out.append(case_sum(m_out, st))
    # the same clause from the likelihood side: a Lognormal data distribution with one non-positive datum (logd = -inf / nan at
    # every theta) as a factor of a Posterior / multiple-likelihood posterior with an unbounded prior
    for fam, liks in (("post", "L"), ("mlp", "RL"), ("mlp", "LU")):
        for datum in (Fraction(0), Fraction(-1, 2)):
            n = rng.randint(2, 3)
            parts = []
            for ch in liks:
                if ch == "L":
                    lm = lik_meta(rng, rand_model(rng, rng.choice(MODEL_KINDS), ("default",), n=n), "cov", rng.choice(["vector", "matrix"]), lognormal=True)
                    dd = uv(lm["data"])
                    dd[rng.randrange(len(dd))] = datum
                    lm["data"] = pv(dd)
                    parts.append(lm)
                elif ch == "R":
                    parts.append(lik_meta(rng, rand_model(rng, rng.choice(MODEL_KINDS), ("default",), n=n), "cov", "vector"))
                else:
                    parts.append(rand_user_factor(rng, "ulik", n, grad=True, geom="cont1d"))
            parts.append(rand_prior(rng, "g", n))
            out.append(case_sum({"fam": fam, "parts": parts, "n": n, "style": "direct", "_checked": True, "x": pv(rvec(rng, n, -1, 1)), "x1": pv(rvec(rng, n, -1, 1)),
                                 "oos_prior": "datum %s of a Lognormal likelihood" % datum,
                                 "cellname": "%s/factors:%s/lognormal-datum-%s/outside" % (fam, liks, "zero" if datum == 0 else "negative")}, st))
    return out


def gen_sum_factors(ctx, st):
    rng = ctx.rng
    out = []
    for entry in SUM_LATTICE:
        (fam, liks, pk, style, ugeom), fdwhich = entry[:5], (entry[5] if len(entry) > 5 else None)
        for r in range(ctx.n(2, 8)):
            n = rng.randint(2, 3)
            parts = []
            for ch in liks:
                if ch == "R":
                    kind = rng.choice(MODEL_KINDS)
                    form, ptype = rng.choice([("cov", "scalar"), ("cov", "vector"), ("cov", "matrix"), ("prec", "matrix"), ("sqrtprec", "vector")])
                    parts.append(lik_meta(rng, rand_model(rng, kind, ("default",), n=n), form, ptype, lognormal=(rng.random() < 0.15)))
                elif ch in "UN":
                    parts.append(rand_user_factor(rng, "ulik", n, grad=(ch == "U"), geom=ugeom or "none"))
                else:
                    parts.append({"fam": "eval", "n": n, "value": P_(rdy(rng, -3, 3))})
            parts.append(rand_prior(rng, pk, n))
            meta = {"fam": fam, "parts": parts, "n": n, "x": pv(rvec(rng, n, -2, 2)), "x1": pv(rvec(rng, n, -2, 2)),
                    "style": style.split("+")[0], "cellname": "%s/factors:%s/prior:%s/%s%s" % (fam, liks, pk, style, "/ugeom:" + ugeom if ugeom else "")}
            if style.endswith("+const"):
                meta["const"] = pv(rvec(rng, 2, -1, 1))
            if pk == "F":
                meta["x"], meta["x1"] = pv([Fraction(rng.randint(2, 16), 8) for _ in range(n)]), pv([Fraction(rng.randint(2, 16), 8) for _ in range(n)])
            if fdwhich in ("fd-prior", "fd-lik"):
                meta["fd_parts"] = [len(parts) - 1] if fdwhich == "fd-prior" else [0]
                meta["cellname"] += "/" + fdwhich
            elif fdwhich == "offset":
                for q in parts:
                    if q["fam"] in ("ulik", "udist") and q["deg"] != 1:
                        q["offset"] = P_(10 ** 6 * rng.choice([1, -1]))
                if meta.get("const"):
                    meta["const"] = pv([Fraction(1000), Fraction(-1000)])
                meta["cellname"] += "/large-offset"
            elif fdwhich == "buffer":
                for q in parts:
                    if q["fam"] in ("ulik", "udist"):
                        q["deg"] = rng.choice([2, 4])
                        q["ret"] = "buffer"
                meta["cellname"] += "/user-work-buffer"
            if meta["style"] == "direct" and fam == "mlp" and r % 2 == 1:
                order = list(range(len(parts)))
                rng.shuffle(order)               # the prior need not come last among the constructor's arguments
                meta["order"] = order
            if meta["style"] == "stepwise" and r % 2 == 1:
                keys = ["y%d" % i for i in range(len(liks))] + (["z"] if meta.get("const") else [])
                rng.shuffle(keys)
                meta["cond_order"] = keys
            out.append(case_sum(meta, st))
    return out


def case_sum(meta, st):
    if "post_hist" not in meta and not meta.get("_checked"):
        rs = random.Random(len(json.dumps(meta["parts"], default=str)))
        for attempt in range(30):
            comps0 = build_sum(meta)[1]
            vals = []
            for c in comps0:
                if type(c).__name__ == "EvaluatedDensity":
                    continue
                try:
                    vals += [logd_of(c)(fa(meta["x"])), logd_of(c)(fa(meta["x1"]))]
                except Exception:
                    pass
            if all(math.isfinite(v) and abs(v) < 500 for v in vals):
                break
            if attempt < 10:
                meta["x"], meta["x1"] = pv(rvec(rs, meta["n"], -1, 1)), pv(rvec(rs, meta["n"], -1, 1))
            else:
                # a factor with a one-sided / bounded support (Lognormal, Beta, ...): points inside (0, 1), common to all of them
                meta["x"], meta["x1"] = (pv([Fraction(rs.randint(1, 7), 8) for _ in range(meta["n"])]),
                                         pv([Fraction(rs.randint(1, 7), 8) for _ in range(meta["n"])]))
        meta["_checked"] = True
    obj, comps = build_sum(meta)
    dim = meta["n"]
    x, x1 = fa(meta["x"]), fa(meta["x1"])
    # the factors are the ones the harness put in (never the object's own `likelihoods` / `prior` filters)
    po = [observe(lambda c=c: c.gradient(x)) for c in comps]
    def flogd(c):
        if type(c).__name__ == "EvaluatedDensity":       # a constant: logd() takes no argument
            return lambda z: float(np.ravel(c.logd())[0])
        return logd_of(c)
    pl = [flogd(c)(x) for c in comps]
    o = observe(lambda: obj.gradient(x))
    f = logd_of(obj)
    dtot = f(x1) - f(x)
    dparts = [flogd(c)(x1) - v for c, v in zip(comps, pl)]
    if meta.get("oos_prior"):
        # a point outside the support of one factor (by the harness's own construction): the composite's logd is not a finite
        # number there and its gradient must not be a finite vector
        with np.errstate(all="ignore"):
            v = f(x)
        d, sig = None, ""
        if math.isfinite(v):
            d = "logd of the composite is the finite number %r at %s, outside the support of its prior (%s)" % (v, x.tolist(), meta["oos_prior"])
        elif o[0] not in ("nan", "raised"):
            d = ("outside the support of the prior (%s, x = %s, logd = %r) the %s returns the finite %s %s"
                 % (meta["oos_prior"], x.tolist(), v, type(obj).__name__, o[0], np.round(o[1], 6).tolist() if o[0] == "vec" else ""))
        if d:
            sig = "C03|%s|finite-outside-support" % meta["cellname"]
        nfac = len(getattr(obj, "_densities", comps))
        expr = "check_sum_obs true %s %s && Nat.eqb %s %s" % (clist([cobs(p) for p in po]), cobs(o), cnat(nfac),
                                                             cnat(len(comps)) if hasattr(obj, "_densities") else cnat(nfac))
        return Case(expr=expr, meta=meta, cell=meta["cellname"], kind="DECISION", impl_fail=d, signature=sig)
    d, sig = verdict_case(meta, o, obj, x, dim, fd=bool(meta.get("fd_parts")), kw="x")
    # keep-alive: evaluating the posterior must not have changed any factor, and a second call must agree with the first
    po2 = [observe(lambda c=c: c.gradient(x)) for c in comps]
    o2 = observe(lambda: obj.gradient(x))
    if d is None and (po2 != po or o2 != o):
        d, sig = "gradient() is not reproducible: a second evaluation of the posterior / of its factors differs from the first", "C03|%s|not-reproducible" % meta["cellname"]
    # the posterior's own factors (if it exposes them) must be as many as were put in, plus the evaluated density of z
    nfac = len(getattr(obj, "_densities", comps))
    # Posterior's geometry guard, from the harness's own configuration: the only non-identity case generated is a
    # user-defined likelihood without geometry (Posterior then has geometry None... of the likelihood: refusal)
    guard = not (meta["fam"] == "post" and meta.get("style", "direct") == "direct" and meta["parts"][0].get("fam") == "ulik"
                 and meta["parts"][0].get("geom", "none") == "none")
    extra_eval = bool(meta.get("const")) and type(obj).__name__ == "MultipleLikelihoodPosterior"
    parts_obs = po + ([("raised", "EvaluatedDensity")] if extra_eval else [])
    expr = "check_sum_obs %s %s %s && check_sum_logd %s %s && Nat.eqb %s %s" % (
        cbool(guard), clist([cobs(p) for p in parts_obs]), cobs(o), cqvec(dparts), cq(dtot),
        cnat(nfac), cnat(len(comps) + (1 if extra_eval else 0)) if hasattr(obj, "_densities") else cnat(nfac))
    return Case(expr=expr, meta=meta, cell=meta["cellname"], kind="EXACT", impl_fail=d, signature=sig)


# ---- forward-difference switch -------------------------------------------------------------------------
class FDSpy:
    """records calls of cuqi.utilities.approx_gradient (Density.gradient looks it up through the module)"""
    def __enter__(self):
        import cuqi
        self.mod = cuqi.utilities
        self.real = self.mod.approx_gradient
        self.calls = 0

        def spy(*a, **k):
            self.calls += 1
            return self.real(*a, **k)
        self.mod.approx_gradient = spy
        return self

    def __exit__(self, *a):
        self.mod.approx_gradient = self.real


def fd_targets(rng, n):
    """a few objects of every kind that honours the FD switch"""
    t = []
    val, _, _ = gauss_param(rng, "cov", "matrix", n)
    t.append({"fam": "gauss", "form": "cov", "ptype": "matrix", "param": pm([[Fraction(v) for v in r] for r in val.tolist()]), "n": n, "mean": rand_mean(rng, n)})
    t.append({"fam": "gauss", "form": "prec", "ptype": "vector", "param": pv([rpos(rng) for _ in range(n)]), "n": n, "mean": rand_mean(rng, n)})
    t.append({"fam": "gauss", "form": "sqrtprec", "ptype": "scalar", "param": P_(rpos(rng)), "n": n, "mean": rand_mean(rng, n)})
    bc = rng.choice(["zero", "neumann", "periodic"])
    t.append({"fam": "gmrf", "bc": bc, "order": rng.choice([0, 1] if bc == "neumann" else [0, 1, 2]), "pd": 1, "n": max(n, 4), "N": max(n, 4), "geo2": None,
              "mean": rand_mean(rng, max(n, 4)), "prec": P_(rpos(rng))})
    t.append({"fam": "cmrf", "bc": rng.choice(["zero", "neumann", "periodic"]), "pd": 1, "n": n, "N": n, "geo2": None, "loc": rand_mean(rng, n), "scale": P_(rpos(rng))})
    for kind in ("matrix", "jac", "pde-grad"):
        t.append(lik_meta(rng, rand_model(rng, kind, ("default",), n=n), "cov", "vector"))
    t.append(lik_meta(rng, rand_model(rng, "grad", rand_mapped(rng), n=n), "prec", "vector"))
    t.append(lik_meta(rng, rand_model(rng, "nograd", ("default",), n=n), "cov", "scalar"))
    t.append(lik_meta(rng, rand_model(rng, "jac", rand_mapped(rng, grad=False), n=n), "cov", "scalar"))
    for sf in ("Beta", "InvGamma", "MHN", "LognormalDiag"):
        t.append(sep_meta(rng, sf, n, vec=rng.random() < 0.5))
    lk = lik_meta(rng, rand_model(rng, "jac", ("default",), n=n), "cov", "matrix")
    t.append({"fam": "post", "parts": [lk, {"fam": "gauss", "form": "cov", "ptype": "scalar", "param": P_(rpos(rng)), "n": n, "mean": rand_mean(rng, n)}], "n": n})
    return t


def gen_fd(ctx, st):
    rng = ctx.rng
    out = []
    for it in range(ctx.n(2, 10)):
        n = rng.randint(2, 3)
        for tm in fd_targets(rng, n):
            meta = dict(tm)
            nn = meta["n"] if meta["fam"] != "lik" else meta["model"]["n"]
            if "x" not in meta or meta["fam"] in ("gauss", "gmrf", "cmrf", "post"):
                meta["x"] = pv(rvec(rng, nn, -2, 2))
            meta["eps"] = rng.choice(["default", P_(Fraction(1, 2 ** 20)), P_(Fraction(1, 2 ** 24))])
            meta["fd"] = True
            meta["cellname"] = "fd/%s" % (meta["fam"] if meta["fam"] != "sep" else meta["sfam"]) + ("/" + meta["model"]["kind"] + "/" + meta["model"]["dom"][0] if meta["fam"] == "lik" else "")
            out.append(case_fd(meta, st))
    return out


def case_fd(meta, st):
    obj, dim = build(meta)
    x = fa(meta["x"])
    if meta["eps"] == "default":
        obj.enable_FD()
        eps = 1e-8
    else:
        eps = float(F(meta["eps"]))
        obj.enable_FD(eps)
    ok_flag = bool(obj.FD_enabled) and obj.FD_epsilon == eps
    with FDSpy() as spy:
        o = observe(lambda: obj.gradient(x))
    f = logd_of(obj)
    hs = sep_hs(meta, x) if meta["fam"] == "sep" else ([min(1.0, float(F(meta["scale"])))] * len(x) if meta["fam"] == "cmrf" else None)
    d, sig = verdict_case(meta, o, obj, x, dim, hs=hs, fd=True)
    if o[0] == "vec" and spy.calls >= 1 and ok_flag:
        f0 = f(x)
        fis = []
        for i in range(len(x)):
            ev = x * 0.0
            ev[i] = eps
            fis.append(f(x + ev))
        expr = "check_fd %s %s %s %s" % (cq(eps), cq(f0), cqvec(fis), cqvec(o[1]))
    else:
        expr = "false"
        if d is None:
            d, sig = "FD switched on but gradient() did not return the forward-difference vector: %r (approx_gradient calls: %d)" % (o, spy.calls), "C03|%s|fd-not-used" % meta["cellname"]
    obj.disable_FD()
    return Case(expr=expr, meta=meta, cell=meta["cellname"], kind="EXACT", impl_fail=d, signature=sig)


# ---- separable families (real-valued model, one interval proof per case) ----------------------------------
SEP_FAMS = ["Cauchy", "Beta", "InvGamma", "SmoothedLaplace", "MHN", "LognormalDiag", "Uniform"]
TAC = ("cbv [fam_grad fam_logk sepmap sepsum params bcast zip3 dk lk length repeat rl_close rll_close r_close mhn_rows map hd "
       "cmrf_grad cmrf_logk cm_dk cm_lk rsum rmatvec rmattvec rvsub rvadd rvscale matvec mattvec dot vadd vsub vscale vzero]; "
       "repeat split; interval with (i_prec 90).")
RTOL = "(1 / 1000000000)"


def sep_meta(rng, sf, n, vec):
    def par(gen, force_scalar=False):
        if vec and not force_scalar:
            return ["v", pv([gen() for _ in range(n)])]
        return ["s", P_(gen())]
    nz = lambda: (lambda a: a if a != 0 else Fraction(3, 4))(rdy(rng, -2, 2))
    pos = lambda: rpos(rng)
    zero = ["s", P_(0)]
    if sf == "Cauchy":
        pars = [par(nz), par(pos), zero]
    elif sf == "Beta":
        pars = [par(lambda: rng.choice([Fraction(1, 2), Fraction(3, 2), Fraction(2), Fraction(3), Fraction(5, 2)])),
                par(lambda: rng.choice([Fraction(1, 2), Fraction(3, 2), Fraction(2), Fraction(4), Fraction(5, 4)])), zero]
    elif sf == "InvGamma":
        pars = [par(lambda: rng.choice([Fraction(1), Fraction(2), Fraction(5, 2), Fraction(3)])), par(nz), par(pos)]
    elif sf == "SmoothedLaplace":
        pars = [par(nz), par(pos), par(lambda: rng.choice([Fraction(1, 1024), Fraction(1, 16), Fraction(1, 4), Fraction(1)]), force_scalar=True)]
    elif sf == "MHN":
        pars = [par(lambda: rng.choice([Fraction(1), Fraction(2), Fraction(5, 2), Fraction(4)])), par(pos), par(nz)]
    elif sf == "LognormalDiag":
        pars = [par(nz), par(pos), zero]
    else:
        lo = [rdy(rng, -2, 0) for _ in range(n)] if vec else [rdy(rng, -2, 0)] * n
        hi = [l + rpos(rng) for l in lo]
        pars = [["v", pv(lo)], ["v", pv(hi)], zero] if vec else [["s", P_(lo[0])], ["s", P_(hi[0])], zero]
    meta = {"fam": "sep", "sfam": sf, "n": n, "pars": pars, "geom_n": (not vec) or sf == "MHN"}
    if sf == "MHN" and vec:
        meta["geom_n"] = False
    meta["x"] = pv(sep_point(rng, meta))
    meta["x1"] = pv(sep_point(rng, meta))
    return meta


def sep_parlists(meta):
    n = meta["n"]
    out = []
    for s in meta["pars"]:
        out.append([F(s[1])] * n if s[0] == "s" else uv(s[1]))
    return out


def sep_point(rng, meta, inside=True):
    n, sf = meta["n"], meta["sfam"]
    a, b, c = sep_parlists(meta)
    x = []
    for i in range(n):
        if sf in ("Cauchy", "SmoothedLaplace"):
            v = rdy(rng, -3, 3, den=(4, 8))
        elif sf == "Beta":
            v = Fraction(rng.randint(2, 30), 32)
        elif sf == "InvGamma":
            v = b[i] + Fraction(rng.randint(2, 24), 8)
        elif sf in ("MHN", "LognormalDiag"):
            v = Fraction(rng.randint(2, 24), 8)
        else:
            w = b[i] - a[i]
            v = a[i] + w * Fraction(rng.randint(1, 7), 8)
        x.append(v)
    return x


def sep_hs(meta, x):
    sf = meta["sfam"]
    a, b, c = sep_parlists(meta)
    x = [float(v) for v in x]
    if sf == "Beta":
        return [min(v, 1 - v) for v in x]
    if sf == "InvGamma":
        return [v - float(bb) for v, bb in zip(x, b)]
    if sf in ("MHN", "LognormalDiag"):
        return x
    if sf == "Cauchy":
        return [min(1.0, float(bb)) for bb in b]
    if sf == "SmoothedLaplace":
        return [min(1.0, math.sqrt(float(c[0]))) for _ in x]
    if sf == "Uniform":
        return [min(v - float(l), float(h) - v) / 4 for v, l, h in zip(x, a, b)]
    return None


def gen_sep(ctx, st):
    rng = ctx.rng
    out = []
    for sf in SEP_FAMS:
        for vec in (False, True):
            for r in range(ctx.n(3, 14)):
                n = 1 if (r == 0 and not vec) else rng.randint(2, 4)
                meta = sep_meta(rng, sf, n, vec)
                meta["cellname"] = "sep/%s/%s-params" % (sf, "vector" if vec else "scalar")
                out += case_sep(meta, st)
    return out


OOS_SIDES = {"Beta": ["low", "high", "at-low", "at-high", "par0", "par1"], "InvGamma": ["low", "at-low", "par0", "par2"], "MHN": ["low", "at-low"],
             "LognormalDiag": ["low", "at-low"], "Uniform": ["low", "high", "on-low", "on-high"], "Cauchy": ["scale"], "SmoothedLaplace": ["par1"]}
# invalid (non-positive) parameters for which the object's logd is not a number
OOS_FINDING = {("InvGamma", "par0"): SIGIGP, ("InvGamma", "par2"): SIGIGP, ("SmoothedLaplace", "par1"): SIGSLP}


def gen_oos(ctx, st):
    """points with exactly ONE coordinate outside the support (below / above / on the boundary): NaN expected"""
    rng = ctx.rng
    out = []
    for sf, sides in OOS_SIDES.items():
        for side in sides:
            for vec in (False, True):
                for r in range(ctx.n(1, 4)):
                    n = rng.randint(2, 4)
                    meta = sep_meta(rng, sf, n, vec)
                    a, b, c = sep_parlists(meta)
                    x = uv(meta["x"])
                    i = rng.randrange(n)
                    if side.startswith("par"):
                        k = int(side[3:])
                        if meta["pars"][k][0] == "s":
                            meta["pars"][k] = ["s", P_(-F(meta["pars"][k][1]) if r % 2 else 0)]
                        else:
                            pp = uv(meta["pars"][k][1]); pp[i] = -pp[i] if r % 2 == 0 else Fraction(0); meta["pars"][k] = ["v", pv(pp)]
                    elif side == "scale":
                        if not vec:
                            meta["pars"][1] = ["s", P_(-F(meta["pars"][1][1]))]
                        else:
                            sc = uv(meta["pars"][1][1]); sc[i] = -sc[i] if r % 2 else Fraction(0); meta["pars"][1] = ["v", pv(sc)]
                    else:
                        lo = {"Beta": Fraction(0), "InvGamma": b[i], "MHN": Fraction(0), "LognormalDiag": Fraction(0), "Uniform": a[i]}[sf]
                        hi = {"Beta": Fraction(1), "Uniform": b[i]}.get(sf)
                        x[i] = {"low": lo - Fraction(1, 4), "at-low": lo, "high": (hi or 0) + Fraction(1, 4), "at-high": hi, "on-low": lo, "on-high": hi}[side]
                    meta["x"] = pv(x)
                    meta["oos"] = side
                    meta["cellname"] = "oos/%s/%s/%s-params" % (sf, side, "vector" if vec else "scalar")
                    out.append(case_oos(meta, st))
    return out


def support_expr(meta, o):
    """Model/C03_Support.v: the tests of the family's gradient method on the CONSTRUCTOR's parameters (raw: length 1 or n)
    and the point decide between a finite vector and NaN; compared with what gradient() handed back"""
    A, B, C = [[F(s[1])] if s[0] == "s" else uv(s[1]) for s in meta["pars"]]
    return "check_support %s %s %s %s %s %s" % (meta["sfam"], cqvec(A), cqvec(B), cqvec(C), cqvec(uv(meta["x"])), cobs(o))


def case_oos(meta, st):
    obj, dim = build(meta)
    x = fa(meta["x"])
    o = observe(lambda: obj.gradient(x))
    d = None
    if meta["oos"] in ("on-low", "on-high"):
        # closed box: a point ON the boundary belongs to the support (logd finite), the gradient is the zero vector
        v = logd_of(obj)(x)
        if not (o[0] == "vec" and math.isfinite(v) and not np.any(o[1])):
            d = "Uniform at a boundary point %s: logd = %r, gradient -> %r" % (x.tolist(), v, o)
        return Case(expr=support_expr(meta, o), meta=meta, cell=meta["cellname"], kind="DECISION",
                    impl_fail=d, signature=("C03|%s|%s" % (meta["cellname"], o[0])) if d else "")
    fsig = OOS_FINDING.get((meta["sfam"], meta["oos"]))
    if fsig and not st[fsig] and o[0] == "vec":
        # known defect class: modelled as it is (a finite vector comes back), reported under its signature if logd is not a number
        v = logd_of(obj)(x)
        d = None if math.isfinite(v) else "%s with a non-positive %s: logd = %r but gradient() returns the finite vector %s" % (
            meta["sfam"], SEP_ATTRS[meta["sfam"]][int(meta["oos"][3:])], v, np.round(o[1], 6).tolist())
        return Case(expr="match %s with ObsVec _ => true | _ => false end" % cobs(o), meta=meta, cell=meta["cellname"], kind="DECISION",
                    impl_fail=d, signature=fsig if d else "")
    if o[0] not in ("nan", "raised"):
        d = "%s: a finite %s is returned at %s, outside the support (%s)" % (meta["sfam"], o[0], x.tolist(), meta["oos"])
    elif o[0] == "nan":
        # the object's own logd must not be a finite number there either
        v = logd_of(obj)(x)
        if math.isfinite(v):
            d = "%s: gradient is NaN at %s where logd = %r is finite" % (meta["sfam"], x.tolist(), v)
    expr = support_expr(meta, o)        # the model decides from (family, parameters, point) that the answer is NaN
    return Case(expr=expr, meta=meta, cell=meta["cellname"], kind="DECISION", impl_fail=d,
                signature=("C03|%s|%s" % (meta["cellname"], o[0])) if d else "")


_MHN_STATE = {}


def mhn_getters_return_alpha():
    """C04's open finding: ModifiedHalfNormal.beta / .gamma return alpha.  Its state is read off ONE fixed witness object;
    the parameters handed to the model are then the harness's own constructor values (never read back from the case's object)."""
    if "v" not in _MHN_STATE:
        from cuqi.distribution import ModifiedHalfNormal
        w = ModifiedHalfNormal(2.0, 3.0, 5.0)
        _MHN_STATE["v"] = (float(np.ravel(w.beta)[0]) == 2.0 and float(np.ravel(w.gamma)[0]) == 2.0)
    return _MHN_STATE["v"]


def sep_coq_pars(meta, obj):
    """parameter lists handed to the model: the harness's own constructor values"""
    a, b, c = meta["pars"]
    if meta["sfam"] == "MHN" and mhn_getters_return_alpha():
        b, c = a, a
    if meta["sfam"] == "LognormalDiag":
        b = [b[0], P_(1 / F(b[1]))] if b[0] == "s" else ["v", pv([1 / t for t in uv(b[1])])]
    return [[F(s[1])] if s[0] == "s" else uv(s[1]) for s in (a, b, c)]


def case_sep(meta, st):
    obj, dim = build(meta)
    sf = meta["sfam"]
    x, x1 = fa(meta["x"]), fa(meta["x1"])
    o = observe(lambda: obj.gradient(x))
    f = logd_of(obj)
    dobs = f(x1) - f(x)
    A, B, C = sep_coq_pars(meta, obj)
    args = "%s %s %s %s" % (sf, crv(A), crv(B), crv(C))
    d, sig = verdict_case(meta, o, obj, x, dim, hs=sep_hs(meta, x))
    triv = (dim == 1) or sf == "Uniform"
    cases = []
    if sf == "MHN" and not (st[SIG30] and dim > 1):
        # the code as it is (and the repaired code for dim 1): one row per entry of the point
        vecpar = len(A) > 1 or hasattr(obj.alpha, "__iter__")
        if o[0] == "matrix":
            if st[SIG30]:        # repaired, dim 1: a column holding the gradient vector
                expr = "(rll_close %s (map (fun g => [g]) (fam_grad %s %s)) %s)%%R" % (RTOL, args, crv(uv(meta["x"])), crm(o[1]))
            else:
                expr = "(rll_close %s (mhn_rows %s %d%%nat %s %s %s %s) %s)%%R" % (RTOL, cbool(vecpar), dim, crv(A), crv(B), crv(C), crv(uv(meta["x"])), crm(o[1]))
        else:
            expr = "False"
    else:
        expr = "(rl_close %s (fam_grad %s %s) %s)%%R" % (RTOL, args, crv(uv(meta["x"])), crv(o[1])) if o[0] == "vec" else "False"
    cases.append(Case(expr=expr, meta=meta, cell=meta["cellname"], kind="ENCLOSURE", tac=TAC, trivial=triv, impl_fail=d, signature=sig))
    m2 = dict(meta)
    m2["what"] = "logd-difference"
    expr2 = "(r_close %s (fam_logk %s %s - fam_logk %s %s) %s)%%R" % (RTOL, args, crv(uv(meta["x1"])), args, crv(uv(meta["x"])), cr(dobs))
    cases.append(Case(expr=expr2, meta=m2, cell=meta["cellname"] + "/logd", kind="ENCLOSURE", tac=TAC, trivial=triv))
    if dim > 1 and o[0] in ("vec", "nan"):
        # the guard model on a point INSIDE the support: the tests must let the formula through (finite vector, one entry per coordinate)
        m3 = dict(meta)
        m3["what"] = "support-guard"
        cases.append(Case(expr=support_expr(meta, o), meta=m3, cell=meta["cellname"] + "/guard", kind="DECISION", trivial=True))
    return cases


# ---- Cauchy difference prior ------------------------------------------------------------------------------
def gen_cmrf(ctx, st):
    rng = ctx.rng
    out = []
    for bc in ("zero", "periodic", "neumann"):
        for pd in (1, 2):
            for lk in ("s", "v"):
                for r in range(ctx.n(1, 5) if pd == 2 else ctx.n(2, 8)):
                    if pd == 1:
                        n = 2 if r == 0 else rng.randint(3, 5)
                        N, geo2 = n, None
                    else:
                        N, n, geo2 = 2, 4, rng.choice(["image2d", "cont2d"])
                        if ctx.thorough and r % 2:
                            N, n = 3, 9
                    loc = ["s", P_((lambda a: a if a != 0 else Fraction(1, 2))(rdy(rng, -2, 2)))] if lk == "s" else ["v", pv(rvec(rng, n, -2, 2, nonzero=True))]
                    meta = {"fam": "cmrf", "bc": bc, "pd": pd, "n": n, "N": N, "geo2": geo2, "loc": loc, "scale": P_(rpos(rng)),
                            "x": pv(rvec(rng, n, -2, 2)), "x1": pv(rvec(rng, n, -2, 2)),
                            "cellname": "cmrf/%s/%dd/%s-location" % (bc, pd, "scalar" if lk == "s" else "vector")}
                    out += case_cmrf(meta, st)
    return out


def case_cmrf(meta, st):
    obj, dim = build(meta)
    x, x1 = fa(meta["x"]), fa(meta["x1"])
    Dm = obj._diff_op.get_matrix()
    D = np.asarray(Dm.todense()) if hasattr(Dm, "todense") else np.asarray(Dm)
    o = observe(lambda: obj.gradient(x))
    f = logd_of(obj)
    dobs = f(x1) - f(x)
    sc = float(F(meta["scale"]))
    d, sig = verdict_case(meta, o, obj, x, dim, hs=[min(1.0, sc)] * dim)
    loc = mean_list(meta["loc"])
    common_args = "%s %s %s" % (crm(D), crv(loc), cr(F(meta["scale"])))
    expr = ("(rl_close %s (cmrf_grad %s %s %s) %s)%%R" % (RTOL, cbool(st[SIG7]), common_args, crv(uv(meta["x"])), crv(o[1]))) if o[0] == "vec" else "False"
    m2 = dict(meta)
    m2["what"] = "logd-difference"
    expr2 = "(r_close %s (cmrf_logk %s %s - cmrf_logk %s %s) %s)%%R" % (RTOL, common_args, crv(uv(meta["x1"])), common_args, crv(uv(meta["x"])), cr(dobs))
    return [Case(expr=expr, meta=meta, cell=meta["cellname"], kind="ENCLOSURE", tac=TAC, impl_fail=d, signature=sig),
            Case(expr=expr2, meta=m2, cell=meta["cellname"] + "/logd", kind="ENCLOSURE", tac=TAC)]


# ---- Lognormal prior with a full covariance (rational model, ln x as certificate) ---------------------------
def gen_lognormal_full(ctx, st):
    rng = ctx.rng
    out = []
    for r in range(ctx.n(4, 24)):
        n = rng.randint(2, 3)
        cov = rand_spd(rng, n)
        meta = {"fam": "lognormal-full", "n": n, "mean": pv(rvec(rng, n, -1, 1, nonzero=True)), "cov": pm(cov),
                "x": pv([Fraction(rng.randint(2, 24), 8) for _ in range(n)]), "x1": pv([Fraction(rng.randint(2, 24), 8) for _ in range(n)]),
                "cellname": "lognormal/prior/full-cov"}
        out.append(case_lognormal_full(meta, st))
    return out


def case_lognormal_full(meta, st):
    obj, dim = build(meta)
    x, x1 = fa(meta["x"]), fa(meta["x1"])
    o = observe(lambda: obj.gradient(x))
    f = logd_of(obj)
    dobs = f(x1) - f(x)
    P = f_inv([[F(a) for a in row] for row in meta["cov"]])
    g = o[1] if o[0] == "vec" else []
    expr = "check_lognormal_prior %s %s %s %s %s %s %s %s" % (cqm(P), cqv(uv(meta["mean"])), cqv(uv(meta["x"])), cqv(fr(np.log(x))),
                                                           cqv(uv(meta["x1"])), cqv(fr(np.log(x1))), cqvec(g), cq(dobs))
    d, sig = verdict_case(meta, o, obj, x, dim, hs=list(x))
    return Case(expr=expr, meta=meta, cell=meta["cellname"], kind="EXACT", impl_fail=d, signature=sig)


# ---- dispatch: which kind of object a gradient call produces -------------------------------------------------
DFAMS = ["DGaussian", "DGMRF", "DCMRF", "DCauchy", "DBeta", "DInvGamma", "DLognormal", "DSmoothedLaplace", "DMHN", "DUniform",
         "DUserWithGrad", "DUserNoGrad", "DNoAnalytic"]
HAS_MEAN = {"DGaussian": "mean", "DGMRF": "mean", "DCMRF": "location", "DCauchy": "location", "DBeta": "alpha", "DInvGamma": "location",
            "DLognormal": "mean", "DSmoothedLaplace": "location", "DMHN": "alpha", "DUniform": "low"}
BOUNDED = {"DCauchy", "DBeta", "DInvGamma", "DLognormal", "DMHN", "DUniform"}


def build_dispatch(fam, geo, mk, cond, insupp, route="RLik"):
    """returns (callable performing the gradient call on a fresh object, object for the FD switch) or None if the
    configuration cannot be constructed"""
    import cuqi
    from cuqi.distribution import (Gaussian, GMRF, CMRF, Cauchy, Beta, InverseGamma, Lognormal, SmoothedLaplace, ModifiedHalfNormal,
                                   Uniform, UserDefinedDistribution, Laplace)
    from cuqi.model import LinearModel
    n = 3
    G = {"GeoIdentity": ["cont1d"], "GeoWithGradient": ["mapped+grad", [1, 2], [1, 1], [0, 1]], "GeoOther": ["mapped", [1, 2], [1, 1], [0, 1]]}[geo]
    geom = make_geometry(G, n)
    Bm = np.array([[1., 2, 0], [0, 1, -1], [1, 0, 1]])
    model = LinearModel(Bm)
    plain = lambda z: Bm @ z
    loc = {"MeanConst": np.array([1., 2., 3.]), "MeanModel": model, "MeanCallable": plain}[mk]
    xin = np.array([0.5, 0.25, 0.75])
    xout = {"DInvGamma": np.array([0.5, -1.0, 0.75]), "DUniform": np.array([0.5, 1.5, 0.75])}.get(fam, np.array([0.5, -0.25, 0.75]))
    # theta for the likelihood route: Bm @ th = [2.5, .75, .75] (> 0: Beta) or its negative (below the point: InvGamma, Uniform)
    th = np.array([0.5, 1.0, 0.25]) * (-1.0 if fam in ("DInvGamma", "DUniform") else 1.0)
    x = xin if insupp else xout
    with warnings.catch_warnings():
        warnings.simplefilter("ignore")
        if fam == "DGaussian":
            D = Gaussian(mean=loc, cov=None if cond else 2.0, geometry=geom)
        elif fam == "DGMRF":
            D = GMRF(mean=loc, prec=None if cond else 2.0, geometry=geom)
        elif fam == "DCMRF":
            D = CMRF(location=loc, scale=None if cond else 0.5, geometry=geom)
        elif fam == "DCauchy":
            D = Cauchy(location=loc, scale=None if cond else (1.0 if insupp else -1.0), geometry=geom)
            x = xin
        elif fam == "DBeta":
            D = Beta(alpha=(np.array([2., 3., 1.5]) if mk == "MeanConst" else loc), beta=None if cond else 2.0, geometry=geom)
        elif fam == "DInvGamma":
            D = InverseGamma(shape=None if cond else 2.0, location=(np.array([-1., 0., -.5]) if mk == "MeanConst" else loc), scale=1.0, geometry=geom)
        elif fam == "DLognormal":
            D = Lognormal(loc, None if cond else np.diag([1., 2., 4.]), geometry=geom)
        elif fam == "DSmoothedLaplace":
            D = SmoothedLaplace(location=loc, scale=None if cond else 0.5, beta=0.01, geometry=geom)
        elif fam == "DMHN":
            D = ModifiedHalfNormal(alpha=(None if cond else 2.0) if mk == "MeanConst" else loc, beta=3.0, gamma=1.0, geometry=geom)
        elif fam == "DUniform":
            D = Uniform(low=(np.array([0., 0., 0.]) if mk == "MeanConst" else loc), high=None if cond else np.array([1., 1., 1.]), geometry=geom)
        elif fam in ("DUserWithGrad", "DUserNoGrad"):
            if cond or mk != "MeanConst" or geo != "GeoIdentity":
                return None
            D = UserDefinedDistribution(dim=n, logpdf_func=lambda z: -0.5 * float(np.sum((z - 1) ** 2)),
                                        gradient_func=(lambda z: -(z - 1)) if fam == "DUserWithGrad" else None)
        elif fam == "DNoAnalytic":
            if mk != "MeanConst":
                return None
            D = Laplace(location=np.array([1., 2., 3.]), scale=None if cond else 0.5, geometry=geom)
        else:
            return None
    if fam in BOUNDED or insupp:
        pass
    else:
        return None                       # unbounded support: no point outside
    if mk == "MeanConst" or route == "RDirect":
        return (lambda: D.gradient(x)), D
    L = D.to_likelihood(x)
    return (lambda: L.gradient(th)), L


def gen_dispatch(ctx, st):
    out = []
    fx = coq_fixes(st)
    for fam in DFAMS:
        for geo in ("GeoIdentity", "GeoWithGradient", "GeoOther"):
            for mk in ("MeanConst", "MeanModel", "MeanCallable"):
                for cond in (False, True):
                    for fd in (False, True):
                        for insupp in (True, False):
                            for route in (("RDirect",) if mk == "MeanConst" else ("RDirect", "RLik")):
                                meta = {"fam": "dispatch", "dfam": fam, "geo": geo, "mean": mk, "route": route, "cond": cond, "fd": fd, "insupp": insupp}
                                c = case_dispatch(meta, fx)
                                if c is not None:
                                    out.append(c)
    return out


def case_dispatch(meta, fx):
    fam, geo, mk, cond, fd, insupp = meta["dfam"], meta["geo"], meta["mean"], meta["cond"], meta["fd"], meta["insupp"]
    try:
        with warnings.catch_warnings():
            warnings.simplefilter("ignore")
            import io, contextlib
            with contextlib.redirect_stdout(io.StringIO()):
                b = build_dispatch(fam, geo, mk, cond, insupp, meta.get("route", "RLik"))
    except Exception as e:
        return None                        # the configuration is refused at construction: nothing to call
    if b is None:
        return None
    call, obj = b
    if fd:
        try:
            obj.enable_FD()
        except Exception:
            return None
    with FDSpy() as spy:
        o = observe(call)
    if o[0] in ("vec", "matrix", "scalar"):
        oc = "OFD" if spy.calls else "OGrad"
    else:
        oc = {"raised": "ORefused", "none": "ONone", "nan": "ONaN"}[o[0]]
    expr = "check_dispatch %s %s %s %s %s %s %s %s %s" % (fx, fam, geo, mk, meta.get("route", "RLik"), cbool(cond), cbool(fd), cbool(insupp), oc)
    d, sig = None, ""
    if oc == "ONone":
        d = "%s with a callable %s that has no gradient: gradient() returns None instead of raising" % (fam[1:], HAS_MEAN.get(fam, "parameter"))
        sig = {"DGaussian": SIG8A, "DGMRF": SIG8G, "DCMRF": SIG8C, "DLognormal": SIG8L}.get(fam, "C03|dispatch|%s|none" % fam)
    elif fam in BOUNDED and not insupp and oc in ("OGrad", "OFD"):
        d = "%s: a finite gradient is returned outside the support" % fam[1:]
        sig = "C03|dispatch|%s|finite-outside-support" % fam
    meta = dict(meta)
    meta["observed"] = oc
    return Case(expr=expr, meta=meta, cell="dispatch/%s" % fam[1:], kind="DECISION", trivial=True, impl_fail=d, signature=sig)


# ---- round-4 lessons -----------------------------------------------------------------------------------------------------
def outcome_of(o, spy_calls):
    if o[0] in ("vec", "matrix", "scalar"):
        return "OFD" if spy_calls else "OGrad"
    return {"raised": "ORefused", "none": "ONone", "nan": "ONaN"}[o[0]]


def gen_lifecycle(ctx, st):
    """L14: the refusal / FD clauses in every life-cycle state of ONE object: fresh -> after a (refused) call -> FD switched on ->
    FD switched off again -> after another call; the dispatch model is evaluated with the fd flag of each state, and an object
    that answered analytically must answer with the very same numbers after the switch was on and off again"""
    fx = coq_fixes(st)
    out = []
    configs = [("DNoAnalytic", "GeoIdentity", "MeanConst", False, "RDirect"), ("DUserNoGrad", "GeoIdentity", "MeanConst", False, "RDirect"),
               ("DUserWithGrad", "GeoIdentity", "MeanConst", False, "RDirect"), ("DGaussian", "GeoIdentity", "MeanConst", True, "RDirect"),
               ("DGaussian", "GeoOther", "MeanConst", False, "RDirect"), ("DGaussian", "GeoIdentity", "MeanConst", False, "RDirect"),
               ("DGaussian", "GeoIdentity", "MeanModel", False, "RLik"), ("DGaussian", "GeoIdentity", "MeanCallable", False, "RLik"),
               ("DGMRF", "GeoIdentity", "MeanConst", False, "RDirect"), ("DCMRF", "GeoWithGradient", "MeanConst", False, "RDirect"),
               ("DCauchy", "GeoIdentity", "MeanConst", False, "RDirect"), ("DCauchy", "GeoOther", "MeanConst", False, "RDirect"),
               ("DBeta", "GeoIdentity", "MeanConst", True, "RDirect"), ("DInvGamma", "GeoIdentity", "MeanConst", False, "RDirect"),
               ("DLognormal", "GeoIdentity", "MeanConst", False, "RDirect"), ("DLognormal", "GeoIdentity", "MeanModel", False, "RLik"),
               ("DSmoothedLaplace", "GeoIdentity", "MeanConst", False, "RDirect"), ("DMHN", "GeoIdentity", "MeanConst", False, "RDirect"),
               ("DUniform", "GeoIdentity", "MeanConst", False, "RDirect")]
    for (fam, geo, mk, cond, route) in configs:
        import io, contextlib
        try:
            with warnings.catch_warnings():
                warnings.simplefilter("ignore")
                with contextlib.redirect_stdout(io.StringIO()):
                    b = build_dispatch(fam, geo, mk, cond, True, route)
        except Exception:
            b = None
        if b is None:
            continue
        call, obj = b
        states = [("fresh", False), ("again", False), ("fd-on", True), ("fd-off", False), ("fd-on-eps", True), ("fd-off-again", False)]
        obs, exprs = [], []
        for name, fd in states:
            if name == "fd-on":
                obj.enable_FD()
            elif name == "fd-on-eps":
                obj.enable_FD(2.0 ** -20)
            elif name.startswith("fd-off"):
                obj.disable_FD()
            with FDSpy() as spy:
                o = observe(call)
            obs.append(o)
            exprs.append("check_dispatch %s %s %s %s %s %s %s true %s" % (fx, fam, geo, mk, route, cbool(cond), cbool(fd), outcome_of(o, spy.calls)))
        d, sig = None, ""
        same = lambda a, b: a == b or (a[0] == b[0] == "raised")
        if not (same(obs[0], obs[1]) and same(obs[0], obs[3]) and same(obs[0], obs[5])):
            d = ("%s: the answer of gradient() depends on the object's history (fresh %r, second call %r, after FD on/off %r, after FD(eps) on/off %r)"
                 % (fam[1:], obs[0][:2], obs[1][:2], obs[3][:2], obs[5][:2]))
            sig = "C03|lifecycle|%s" % fam
        meta = {"fam": "lifecycle", "dfam": fam, "geo": geo, "mean": mk, "cond": cond, "route": route, "cellname": "lifecycle/%s/%s/%s%s" % (fam[1:], geo, mk, "/cond" if cond else "")}
        out.append(Case(expr=" && ".join(exprs), meta=meta, cell=meta["cellname"], kind="DECISION", impl_fail=d, signature=sig))
    return out


def gen_degenerate(ctx, st):
    """L21: counts of one -- a single datum (the scalar-residual branch of Gaussian._gradient), a single parameter, and a
    one-dimensional object evaluated at a plain Python float / numpy scalar instead of an array of length 1"""
    rng = ctx.rng
    out = []
    for kind in MODEL_KINDS:
        for (m, n) in ((1, 2), (2, 1), (1, 1)):
            for form, ptype in (("cov", "scalar"), ("prec", "vector"), ("sqrtprec", "matrix")):
                if (MODEL_KINDS.index(kind) + m + 2 * n + len(form)) % 3 and not ctx.thorough:
                    continue
                ms = rand_model(rng, kind, ("default",), m=m, n=n)
                lm = lik_meta(rng, ms, form, ptype)
                lm["cellname"] = "degenerate/lik/%s/m=%d,n=%d/%s-%s" % (kind, m, n, form, ptype)
                out.append(case_lik(lm, st))
    # scalar evaluation points for one-dimensional objects
    from cuqi.distribution import Gaussian, Cauchy, InverseGamma, Beta, Uniform, SmoothedLaplace
    specs = [("Gaussian", lambda: Gaussian(0.5, 2.0)), ("Gaussian-sqrtprec", lambda: Gaussian(-1.0, sqrtprec=0.5)), ("Cauchy", lambda: Cauchy(0.25, 2.0)),
             ("InverseGamma", lambda: InverseGamma(2.0, -1.0, 0.5)), ("Beta", lambda: Beta(2.0, 3.0)), ("Uniform", lambda: Uniform(0.0, 2.0)),
             ("SmoothedLaplace", lambda: SmoothedLaplace(0.5, 2.0, 0.25))]
    for name, mk in specs:
        for fd in (False, True):
            obj = mk()
            xs = 0.625
            if fd:
                obj.enable_FD(2.0 ** -20)
            ref = observe(lambda: mk().gradient(np.array([xs])))                 # analytic reference on a fresh object, array input
            res = {}
            for style, arg in (("python-float", xs), ("numpy-scalar", np.float64(xs)), ("0-d array", np.array(xs))):
                o = observe(lambda: obj.gradient(arg))
                res[style] = o
            d, sig = None, ""
            ng = num_grad(logd_of(mk()), np.array([xs]), hs=[0.25])
            for style, o in res.items():
                if o[0] == "raised":
                    continue
                val = o[1] if o[0] == "scalar" else (o[1][0] if o[0] == "vec" and len(o[1]) == 1 else None)
                if val is None or abs(val - ng[0]) > (2e-3 if fd else 1e-6) * (1 + abs(ng[0])):
                    d = "%s (dim 1)%s.gradient(%s %r) = %r but d logd/dx = %r" % (name, " with FD on" if fd else "", style, xs, o[1:], ng[0])
                    sig = "C03|degenerate/scalar-point/%s|%s" % (name, style)
                    break
            meta = {"fam": "scalar-point", "name": name, "fd": fd, "cellname": "degenerate/scalar-point/%s%s" % (name, "/fd" if fd else "")}
            out.append(Case(expr="true", meta=meta, cell=meta["cellname"], kind="DECISION", impl_fail=d, signature=sig))
    return out


def gen_defaults(ctx, st):
    """L22: the shipped defaults -- SmoothedLaplace's default beta, GMRF / CMRF default boundary condition and order,
    enable_FD()'s default epsilon (FD cells) and utilities.approx_gradient's own default step"""
    import cuqi
    rng = ctx.rng
    out = []
    for r in range(ctx.n(2, 6)):
        n = rng.randint(2, 4)
        sm = sep_meta(rng, "SmoothedLaplace", n, vec=bool(r % 2))
        sm["pars"][2] = ["s", P_(Fraction(1e-3))]
        sm["default_beta"] = True
        sm["cellname"] = "defaults/SmoothedLaplace-beta"
        out += case_sep(sm, st)
        m = rng.randint(3, 6)
        out.append(case_gmrf({"fam": "gmrf", "bc": "zero", "order": 1, "pd": 1, "n": m, "N": m, "geo2": None, "defaults": True, "mean": rand_mean(rng, m),
                              "prec": P_(rpos(rng)), "x": pv(rvec(rng, m, -2, 2)), "x1": pv(rvec(rng, m, -2, 2)), "cellname": "defaults/GMRF"}, st))
        out += case_cmrf({"fam": "cmrf", "bc": "zero", "pd": 1, "n": m, "N": m, "geo2": None, "defaults": True, "loc": rand_mean(rng, m), "scale": P_(rpos(rng)),
                          "x": pv(rvec(rng, m, -2, 2)), "x1": pv(rvec(rng, m, -2, 2)), "cellname": "defaults/CMRF"}, st)
        # approx_gradient(func, x) with its own default epsilon on a quartic: entry i is the difference quotient of the same func
        c = fa(pv(rvec(rng, n)))
        func = lambda z: -0.25 * float(np.sum((np.asarray(z, dtype=float) - c) ** 4))
        x = fa(pv(rvec(rng, n, -2, 2)))
        import inspect
        eps = inspect.signature(cuqi.utilities.approx_gradient).parameters["epsilon"].default
        o = observe(lambda: cuqi.utilities.approx_gradient(func, x.copy()))
        fis = []
        for i in range(n):
            ev = x * 0.0
            ev[i] = eps
            fis.append(func(x + ev))
        d, sig = None, ""
        exact = -(x - c) ** 3
        if o[0] != "vec" or not vclose(o[1], exact, 1e-3):
            d, sig = "approx_gradient(f, x) with the default step = %r but f'(x) = %s" % (o[1:], exact.tolist()), "C03|defaults/approx_gradient"
        expr = ("check_fd %s %s %s %s" % (cq(eps), cq(func(x)), cqvec(fis), cqvec(o[1]))) if o[0] == "vec" else "false"
        out.append(Case(expr=expr, meta={"fam": "approx-default", "cellname": "defaults/approx_gradient"}, cell="defaults/approx_gradient", kind="EXACT",
                        impl_fail=d, signature=sig))
    return out


def gen_subclass_geometry(ctx, st):
    """L23: the geometry guards test the EXACT type (`type(g) in identity_geometries`): geometries that subclass an identity
    geometry but change par2fun (KLExpansion, StepExpansion subclass Continuous1D) -- and a user subclass that changes nothing --
    are refused by every guarded family; as a model's domain geometry they are refused too (lik cells 'kl' / 'step')"""
    from cuqi.distribution import Gaussian, GMRF, CMRF, Cauchy, Beta, InverseGamma, Lognormal, Posterior
    from cuqi.geometry import KLExpansion, StepExpansion, Continuous1D, Discrete
    import io, contextlib
    n = 4

    class MyC1D(Continuous1D):
        pass

    class MyDiscrete(Discrete):
        pass
    geoms = {"KLExpansion": lambda: KLExpansion(np.linspace(0, 1, n), num_modes=n), "StepExpansion": lambda: StepExpansion(np.linspace(0, 1, 2 * n), n_steps=n),
             "subclass-of-Continuous1D": lambda: MyC1D(n), "subclass-of-Discrete": lambda: MyDiscrete(n)}
    fams = {"Gaussian": lambda g: Gaussian(np.ones(n), 2.0, geometry=g), "GMRF": lambda g: GMRF(np.ones(n), 2.0, geometry=g),
            "CMRF": lambda g: CMRF(np.ones(n), 0.5, geometry=g), "Cauchy": lambda g: Cauchy(np.ones(n), 2.0, geometry=g),
            "Beta": lambda g: Beta(2 * np.ones(n), 3.0, geometry=g), "InverseGamma": lambda g: InverseGamma(2.0, -np.ones(n), 1.0, geometry=g),
            "Lognormal": lambda g: Lognormal(np.ones(n), np.eye(n), geometry=g)}
    out = []
    x = np.array([0.5, 0.25, 0.75, 0.125])
    for gname, mkg in geoms.items():
        for fname, mkf in fams.items():
            try:
                with warnings.catch_warnings():
                    warnings.simplefilter("ignore")
                    with contextlib.redirect_stdout(io.StringIO()):
                        obj = mkf(mkg())
            except Exception:
                continue                                     # refused at construction
            o = observe(lambda: obj.gradient(x))
            meta = {"fam": "subclass-geometry", "geometry": gname, "family": fname, "cellname": "subclass-geometry/%s/%s" % (gname, fname)}
            out.append(Case(expr="match %s with ObsRaised => true | _ => false end" % cobs(o), meta=meta, cell=meta["cellname"], kind="DECISION", trivial=True))
    return out


def gen_shallow(ctx, st):
    """L25: two conditioned copies of ONE parent distribution alive at once (they share whatever the shallow copy shares, e.g.
    Lognormal's inner Gaussian); the copy under test is evaluated only after its sibling was created AND evaluated"""
    rng = ctx.rng
    out = []
    for r in range(ctx.n(2, 6)):
        n = rng.randint(2, 3)
        for form, ptype in (("cov", "matrix"), ("sqrtprec", "vector")):
            val, _, _ = gauss_param(rng, form, ptype, n)
            meta = {"fam": "gauss", "form": form, "ptype": ptype, "param": raw_param(val, ptype), "n": n, "mean": ["v", pv(rvec(rng, n, nonzero=True))],
                    "x": pv(rvec(rng, n)), "x1": pv(rvec(rng, n)), "shallow": {"sibling_mean": pv(rvec(rng, n, nonzero=True)), "x0": pv(rvec(rng, n))},
                    "cellname": "shallow/gauss/%s-%s" % (form, ptype)}
            out.append(case_gauss_prior(meta, st))
        meta = {"fam": "lognormal-full", "n": n, "mean": pv(rvec(rng, n, -1, 1, nonzero=True)), "cov": pm(rand_spd(rng, n)),
                "x": pv([Fraction(rng.randint(2, 24), 8) for _ in range(n)]), "x1": pv([Fraction(rng.randint(2, 24), 8) for _ in range(n)]),
                "shallow": {"sibling_mean": pv(rvec(rng, n, -1, 1, nonzero=True)), "x0": pv([Fraction(rng.randint(2, 24), 8) for _ in range(n)])},
                "cellname": "shallow/lognormal-full"}
        out.append(case_lognormal_full(meta, st))
        ms = rand_model(rng, rng.choice(MODEL_KINDS), ("default",), n=n)
        lm = lik_meta(rng, ms, "cov", "vector")
        lm["shallow"] = {"sibling_data": pv(rvec(rng, ms["m"])), "x0": pv(rvec(rng, n))}
        lm["cellname"] = "shallow/lik/two-likelihoods-of-one-distribution"
        out.append(case_lik(lm, st))
    return out


def gen_intparams(ctx, st):
    """L20: integer-dtype stored parameters / data (int64 arrays and Python lists of ints) through reciprocals and square roots"""
    rng = ctx.rng
    out = []
    ri = lambda n, lo, hi: [Fraction(rng.randint(lo, hi)) for _ in range(n)]
    for r in range(ctx.n(1, 4)):
        n = rng.randint(2, 3)
        for form in ("cov", "prec", "sqrtcov", "sqrtprec"):
            for ptype, raw in (("scalar", P_(rng.randint(2, 5))), ("vector", pv(ri(n, 2, 10))), ("matrix", pm(rand_spd(rng, n) if form in ("cov", "prec") else rand_tri(rng, n)))):
                meta = {"fam": "gauss", "form": form, "ptype": ptype, "param": raw, "n": n, "mean": ["v", pv(ri(n, -3, 3))], "x": pv(rvec(rng, n)), "x1": pv(rvec(rng, n)),
                        "intdecl": ["int64", "list"][r % 2], "cellname": "intparams/gauss/%s-%s" % (form, ptype)}
                out.append(case_gauss_prior(meta, st))
        for sf in ("Cauchy", "Beta", "InvGamma", "SmoothedLaplace", "Uniform"):
            sm = sep_meta(rng, sf, n, True)
            if sf == "Cauchy":
                sm["pars"] = [["v", pv(ri(n, -3, 3))], ["v", pv(ri(n, 1, 5))], ["s", P_(0)]]
            elif sf == "Beta":
                sm["pars"] = [["v", pv(ri(n, 1, 4))], ["v", pv(ri(n, 1, 4))], ["s", P_(0)]]
            elif sf == "InvGamma":
                sm["pars"] = [["v", pv(ri(n, 1, 4))], ["v", pv(ri(n, -3, 0))], ["v", pv(ri(n, 1, 4))]]
            elif sf == "SmoothedLaplace":
                sm["pars"] = [["v", pv(ri(n, -3, 3))], ["v", pv(ri(n, 1, 5))], ["s", P_(1)]]
            else:
                lo = ri(n, -3, 0)
                sm["pars"] = [["v", pv(lo)], ["v", pv([l + rng.randint(1, 4) for l in lo])], ["s", P_(0)]]
            sm["x"], sm["x1"] = pv(sep_point(rng, sm)), pv(sep_point(rng, sm))
            sm["intdecl"] = ["int64", "list"][r % 2]
            if sf == "Uniform":
                # Uniform keeps its parameters as they are given: with Python LISTS logpdf raises TypeError (`self.high - self.low`
                # on two lists) while gradient() answers -- there is no log-density to differentiate, so the list style is not a
                # C03 case (observation reported to the lead; thorough tier only)
                sm["intdecl"] = "int64"
            sm["cellname"] = "intparams/sep/%s" % sf
            out += case_sep(sm, st)
        m = rng.randint(3, 4)
        out.append(case_gmrf({"fam": "gmrf", "bc": rng.choice(["zero", "periodic", "neumann"]), "order": rng.choice([0, 1, 2]), "pd": 1, "n": m, "N": m, "geo2": None,
                              "mean": ["v", pv(ri(m, -3, 3))], "prec": P_(rng.randint(1, 4)), "intdecl": "int64", "x": pv(rvec(rng, m, -2, 2)), "x1": pv(rvec(rng, m, -2, 2)),
                              "cellname": "intparams/gmrf"}, st))
        out += case_cmrf({"fam": "cmrf", "bc": rng.choice(["zero", "periodic", "neumann"]), "pd": 1, "n": m, "N": m, "geo2": None, "loc": ["v", pv(ri(m, -3, 3))],
                          "scale": P_(rng.randint(1, 3)), "intdecl": "int64", "x": pv(rvec(rng, m, -2, 2)), "x1": pv(rvec(rng, m, -2, 2)), "cellname": "intparams/cmrf"}, st)
        ms = rand_model(rng, rng.choice(MODEL_KINDS), ("default",), n=n)
        lm = lik_meta(rng, ms, "cov", "vector")
        lm["param"], lm["data"], lm["intdecl"] = pv(ri(ms["m"], 1, 5)), pv(ri(ms["m"], -3, 3)), "int64"
        lm["cellname"] = "intparams/lik/int-data-int-cov"
        out.append(case_lik(lm, st))
    return out


def gen_zeros(ctx, st):
    """L18: EXACT zeros inside otherwise generic data: means like [0, 2], block-decoupled matrices, a forward-model matrix with a
    zero column, a start point at which a Jacobian column vanishes (u_i = 0 with B column zero), points with some zero entries"""
    rng = ctx.rng
    out = []
    for r in range(ctx.n(1, 4)):
        n = 3
        mz = rvec(rng, n, nonzero=True)
        mz[rng.randrange(n)] = Fraction(0)
        if all(a == 0 for a in mz):
            mz[0] = Fraction(2)
        xz = rvec(rng, n, nonzero=True)
        xz[rng.randrange(n)] = Fraction(0)
        blk = [[2, 1, 0], [1, 3, 0], [0, 0, 4]]                       # block-decoupled SPD matrix, structural zeros
        tri = [[1, 0, 0], [-1, 2, 0], [0, 0, 1]]                      # triangular factor with a zero inside its triangle
        for form, M in (("cov", blk), ("prec", blk), ("sqrtcov", tri), ("sqrtprec", tri)):
            meta = {"fam": "gauss", "form": form, "ptype": "matrix", "param": pm(M), "n": n, "mean": ["v", pv(mz)], "x": pv(xz), "x1": pv(rvec(rng, n)),
                    "cellname": "zeros/gauss/%s-block-matrix" % form}
            out.append(case_gauss_prior(meta, st))
        for kind in MODEL_KINDS:
            ms = rand_model(rng, kind, ("default",), m=2, n=3)
            j = rng.randrange(3)
            B = [[F(a) for a in row] for row in ms["B"]]
            A = [[F(a) for a in row] for row in ms["A"]]
            for row in B:
                row[j] = Fraction(0)                                   # column j of B is exactly zero ...
            ms["B"], ms["A"] = pm(B), pm(A)
            lm = lik_meta(rng, ms, "cov", "vector")
            th = uv(lm["x"])
            th[j] = Fraction(0)                                         # ... and theta_j = 0: column j of the Jacobian 2 A diag(theta) + B vanishes
            lm["x"] = pv(th)
            lm["data"] = pv([Fraction(0)] + uv(lm["data"])[1:])
            lm["cellname"] = "zeros/lik/%s/zero-jacobian-column" % kind
            out.append(case_lik(lm, st))
        sm = sep_meta(rng, "Cauchy", n, True)
        loc = uv(sm["pars"][0][1]); loc[0] = Fraction(0); sm["pars"][0] = ["v", pv(loc)]
        xs = uv(sm["x"]); xs[1] = Fraction(0); sm["x"] = pv(xs)
        sm["cellname"] = "zeros/sep/Cauchy"
        out += case_sep(sm, st)
        m = 4
        mm = rvec(rng, m, nonzero=True); mm[1] = Fraction(0)
        out.append(case_gmrf({"fam": "gmrf", "bc": rng.choice(["zero", "periodic", "neumann"]), "order": rng.choice([0, 1, 2]), "pd": 1, "n": m, "N": m, "geo2": None,
                              "mean": ["v", pv(mm)], "prec": P_(rpos(rng)), "x": pv([Fraction(0)] + rvec(rng, m - 1, -2, 2)), "x1": pv(rvec(rng, m, -2, 2)),
                              "cellname": "zeros/gmrf"}, st))
    return out


# ---- shipped user-defined densities with hand-derived gradients (oracle only) ---------------------------------
GALLERY = ["CalSom91", "BivariateGaussian", "funnel", "mixture", "squiggle", "donut", "banana"]


def gen_gallery(ctx, st):
    from cuqi.distribution import DistributionGallery
    rng = ctx.rng
    out = []
    for name in GALLERY:
        for r in range(ctx.n(3, 20)):
            x = [rdy(rng, -2, 2, den=(4, 8)) for _ in range(2)]
            if x[0] == 0:
                x[0] = Fraction(1, 4)
            meta = {"fam": "gallery", "name": name, "x": pv(x), "cellname": "gallery/" + name}
            meta["x1"] = pv([rdy(rng, -2, 2, den=(4, 8)) for _ in range(2)])
            if F(meta["x1"][0]) == 0:
                meta["x1"][0] = P_(Fraction(1, 4))
            out += case_gallery(meta)
    return out


TAC_GAL = ("cbv [rl_close r_close rad calsom_logd calsom_g1 calsom_g2 donut_logd donut_g1 donut_g2 fun_f funnel_logd funnel_g1 funnel_g2 "
           "g2_logd g2_d1 g2_d2 banana_y2 banana_logd banana_g1 banana_g2 squiggle_logd squiggle_g1 squiggle_g2 iso_pdf iso_d1 iso_d2 "
           "mixture_logd mixture_g1 mixture_g2]; repeat split; interval with (i_prec 90).")


def gallery_model(name):
    """Coq application prefixes (logd, g1, g2) of the model of one gallery density, with the constants of the reference
    (chi-feng's mcmc-demo benchmarks, as documented in cuqi/distribution/_custom.py) written down by the harness"""
    def inv2(S):
        P = f_inv(S)
        return P[0][0], P[0][1], P[1][1]
    if name == "CalSom91":
        a = "%s %s" % (cr(0.1), cr(1))
        return ["calsom_logd " + a, "calsom_g1 " + a, "calsom_g2 " + a]
    if name == "donut":
        a = "%s %s" % (cr(2.6), cr(0.033))
        return ["donut_logd " + a, "donut_g1 " + a, "donut_g2 " + a]
    if name == "funnel":
        a = "0 0 3"
        return ["funnel_logd " + a, "funnel_g1 " + a, "funnel_g2 " + a]
    if name == "banana":
        p11, p12, p22 = inv2([[Fraction(1), Fraction(1, 2)], [Fraction(1, 2), Fraction(1)]])
        a = "%s %s %s 0 4 2 %s" % (cr(p11), cr(p12), cr(p22), cr(0.2))
        return ["banana_logd " + a, "banana_g1 " + a, "banana_g2 " + a]
    if name == "squiggle":
        p11, p12, p22 = inv2([[Fraction(2), Fraction(1, 4)], [Fraction(1, 4), Fraction(1, 2)]])
        a = "%s %s %s 0 0" % (cr(p11), cr(p12), cr(p22))
        return ["squiggle_logd " + a, "squiggle_g1 " + a, "squiggle_g2 " + a]
    if name == "mixture":
        comp = lambda a_, b_, s_: "(%s, %s, %s)" % (cr(a_), cr(b_), cr(s_))
        a = "%s %s %s" % (comp(-1.5, -1.5, 0.8 ** 2), comp(1.5, 1.5, 0.8 ** 2), comp(-2, 2, 0.5 ** 2))
        return ["mixture_logd " + a, "mixture_g1 " + a, "mixture_g2 " + a]
    return None


def case_gallery(meta):
    from cuqi.distribution import DistributionGallery
    with warnings.catch_warnings():
        warnings.simplefilter("ignore")
        obj = DistributionGallery(meta["name"])
    xx = fa(meta["x"])
    o = observe(lambda: obj.gradient(xx))
    f = logd_of(obj)
    fin = np.isfinite(f(xx))
    d, sig = verdict_case(meta, o, obj, xx, 2, insupp=bool(fin), hs=[0.25, 0.25])
    gm = gallery_model(meta["name"])
    if gm is not None and fin and o[0] == "raised" and d is None:
        # a shipped closed-form gradient that refuses: not a wrong vector, but the model says a vector comes back
        d = "DistributionGallery(%r).gradient(%s) raises %s although the density ships a closed-form gradient" % (meta["name"], xx.tolist(), o[1])
        sig = SIGBATCH if (not state()[SIGBATCH] and meta["name"] in ("squiggle", "banana", "mixture") and o[1] == "ValueError") else "C03|%s|raised" % meta["cellname"]
        return [Case(expr="true" if sig == SIGBATCH else "false", meta=meta, cell=meta["cellname"], kind="DECISION", impl_fail=d, signature=sig)]
    if gm is None or o[0] != "vec" or not fin:
        # BivariateGaussian is a Gaussian (modelled in the Gaussian cells): the oracle alone speaks here
        return [Case(expr="true", meta=meta, cell=meta["cellname"], kind="DECISION", trivial=False, impl_fail=d, signature=sig)]
    x1 = fa(meta.get("x1", meta["x"]))
    dobs = f(x1) - f(xx)
    pt = "%s %s" % (cr(F(meta["x"][0])), cr(F(meta["x"][1])))
    pt1 = "%s %s" % (cr(F(meta.get("x1", meta["x"])[0])), cr(F(meta.get("x1", meta["x"])[1])))
    expr = "(rl_close %s [%s %s; %s %s] %s)%%R" % (RTOL, gm[1], pt, gm[2], pt, crv(o[1]))
    expr2 = "(r_close %s (%s %s - %s %s) %s)%%R" % (RTOL, gm[0], pt1, gm[0], pt, cr(dobs))
    m2 = dict(meta)
    m2["what"] = "logd-difference"
    return [Case(expr=expr, meta=meta, cell=meta["cellname"], kind="ENCLOSURE", tac=TAC_GAL, impl_fail=d, signature=sig),
            Case(expr=expr2, meta=m2, cell=meta["cellname"] + "/logd", kind="ENCLOSURE", tac=TAC_GAL)]


# ---- attribute re-assignment histories: the gradient must be the derivative of the CURRENT logd ---------------------------
def raw_param(val, ptype):
    return (P_(Fraction(val)) if ptype == "scalar" else pv([Fraction(v) for v in val]) if ptype == "vector" else
            pm([[Fraction(v) for v in r] for r in (val.toarray() if hasattr(val, "toarray") else np.asarray(val)).tolist()]))


def gen_history(ctx, st):
    rng = ctx.rng
    out = []

    def gparam(form, ptype, n):
        val, _, _ = gauss_param(rng, form, ptype, n)
        return {"ptype": ptype, "param": raw_param(val, ptype)}
    reps = ctx.n(1, 4)
    # Gaussian: every form, the parameter changes its kind (scalar <-> vector <-> matrix) and the mean changes
    for form in ("cov", "prec", "sqrtcov", "sqrtprec"):
        for fin in ("scalar", "vector", "matrix", "diagmatrix"):
            for r in range(reps):
                n = rng.randint(2, 3)
                kinds = ["scalar", "vector", "matrix", "diagmatrix"]
                p_fin, p_init, p_mid = gparam(form, fin, n), gparam(form, rng.choice(kinds), n), gparam(form, rng.choice(kinds), n)
                meta = {"fam": "gauss", "form": form, "ptype": p_fin["ptype"], "param": p_fin["param"], "n": n, "mean": ["v", pv(rvec(rng, n, nonzero=True))],
                        "x": pv(rvec(rng, n)), "x1": pv(rvec(rng, n)), "cellname": "history/gauss/%s->%s" % (form, fin),
                        "hist": {"init": {"param": p_init, "mean": ["v", pv(rvec(rng, n, nonzero=True))]},
                                 "steps": [["param", p_mid], ["mean", ["v", pv(rvec(rng, n))]]][: rng.randint(0, 2)], "x0": pv(rvec(rng, n))}}
                out.append(case_gauss_prior(meta, st))
    for bc in ("zero", "periodic", "neumann"):
        for order in (0, 1, 2):
            n = rng.randint(3, 5)
            meta = {"fam": "gmrf", "bc": bc, "order": order, "pd": 1, "n": n, "N": n, "geo2": None, "geo1": rng.choice(["default", "cont1d"]),
                    "mean": ["v", pv(rvec(rng, n, nonzero=True))], "prec": P_(rpos(rng)), "x": pv(rvec(rng, n, -2, 2)), "x1": pv(rvec(rng, n, -2, 2)),
                    "cellname": "history/gmrf/%s/order%d" % (bc, order),
                    "hist": {"init": {"mean": ["v", pv(rvec(rng, n))], "prec": P_(rpos(rng))}, "steps": [["prec", P_(rpos(rng))]][: rng.randint(0, 1)],
                             "x0": pv(rvec(rng, n))}}
            out.append(case_gmrf(meta, st))
        n = rng.randint(3, 4)
        meta = {"fam": "cmrf", "bc": bc, "pd": 1, "n": n, "N": n, "geo2": None, "loc": ["v", pv(rvec(rng, n, -2, 2, nonzero=True))], "scale": P_(rpos(rng)),
                "x": pv(rvec(rng, n, -2, 2)), "x1": pv(rvec(rng, n, -2, 2)), "cellname": "history/cmrf/%s" % bc,
                "hist": {"init": {"loc": ["s", P_(1)], "scale": P_(rpos(rng))}, "steps": [["loc", ["v", pv(rvec(rng, n))]]][: rng.randint(0, 1)], "x0": pv(rvec(rng, n))}}
        out += case_cmrf(meta, st)
    for sf in SEP_ATTRS:
        for r in range(reps):
            n = rng.randint(2, 3)
            fin, ini, mid = sep_meta(rng, sf, n, True), sep_meta(rng, sf, n, True), sep_meta(rng, sf, n, True)
            if sf == "Uniform":
                ini = fin if rng.random() < 0.5 else ini
            k = rng.randrange(len(SEP_ATTRS[sf]))
            meta = dict(fin)
            meta["cellname"] = "history/sep/%s" % sf
            meta["hist"] = {"init": {"par%d" % j: ini["pars"][j] for j in range(len(SEP_ATTRS[sf]))},
                            "steps": [["par%d" % k, mid["pars"][k]]] if (r % 2 and sf != "Uniform") else [], "x0": ini["x"]}
            out += case_sep(meta, st)
    for kind in MODEL_KINDS:
        for (form, fin) in (("cov", "matrix"), ("prec", "vector"), ("sqrtprec", "scalar"), ("sqrtcov", "vector")):
            hk = MODEL_KINDS.index(kind) + len(form)
            if not ctx.thorough and hk % 2:
                continue
            ms = rand_model(rng, kind, [("default",), ("cont1d",)][hk % 2 if ctx.thorough else (hk // 2) % 2])
            meta = lik_meta(rng, ms, form, fin)
            m = ms["m"]
            meta["cellname"] = "history/lik/%s/%s-%s" % (kind, form, fin)
            meta["hist"] = {"init": {"param": gparam(form, rng.choice(["scalar", "vector", "matrix"]), m), "data": pv(rvec(rng, m))},
                            "steps": [["data", pv(rvec(rng, m))]][: rng.randint(0, 1)], "x0": pv(rvec(rng, ms["n"]))}
            out.append(case_lik(meta, st))
    for fam, liks in (("post", "R"), ("mlp", "RU"), ("mlp", "RR")):
        n = rng.randint(2, 3)
        parts = [lik_meta(rng, rand_model(rng, rng.choice(MODEL_KINDS), ("default",), n=n), "cov", "vector") if ch == "R"
                 else rand_user_factor(rng, "ulik", n, grad=True, geom="none") for ch in liks]
        prior = {"fam": "gauss", "form": "cov", "ptype": "vector", "param": pv([rpos(rng) for _ in range(n)]), "n": n, "mean": ["v", pv(rvec(rng, n, nonzero=True))]}
        out.append(case_sum({"fam": fam, "parts": parts + [prior], "n": n, "x": pv(rvec(rng, n, -2, 2)), "x1": pv(rvec(rng, n, -2, 2)), "style": "direct",
                             "post_hist": {"prior_mean_init": pv(rvec(rng, n)), "x0": pv(rvec(rng, n))},
                             "cellname": "history/%s/factors:%s/prior-mean-reassigned" % (fam, liks)}, st))
    for r in range(ctx.n(2, 8)):
        n = rng.randint(2, 3)
        meta = {"fam": "lognormal-full", "n": n, "mean": pv(rvec(rng, n, -1, 1, nonzero=True)), "cov": pm(rand_spd(rng, n)),
                "x": pv([Fraction(rng.randint(2, 24), 8) for _ in range(n)]), "x1": pv([Fraction(rng.randint(2, 24), 8) for _ in range(n)]),
                "cellname": "history/lognormal-full",
                "hist": {"init": {"mean": pv(rvec(rng, n, -1, 1)), "cov": pm(rand_spd(rng, n))}, "steps": [["mean", pv(rvec(rng, n, -1, 1))]][: r % 2],
                         "x0": pv([Fraction(rng.randint(2, 24), 8) for _ in range(n)])}}
        out.append(case_lognormal_full(meta, st))
    return out


# ---- falsy but legitimate values: zero means / locations / data / points / constants ----------------------------------------
def gen_falsy(ctx, st):
    rng = ctx.rng
    out = []
    Z = lambda n: pv([Fraction(0)] * n)
    for r in range(ctx.n(1, 3)):
        n = rng.randint(2, 3)
        for form, ptype in (("cov", "vector"), ("prec", "matrix"), ("sqrtprec", "scalar"), ("sqrtcov", "generalmatrix")):
            val, _, _ = gauss_param(rng, form, ptype, n)
            for mean, x in ((["s", P_(0)], rvec(rng, n)), (["v", Z(n)], rvec(rng, n)), (["v", pv(rvec(rng, n, nonzero=True))], [Fraction(0)] * n),
                            (["s", P_(0)], [Fraction(0)] * n)):
                meta = {"fam": "gauss", "form": form, "ptype": ptype, "param": raw_param(val, ptype), "n": n, "mean": mean, "x": pv(x), "x1": pv(rvec(rng, n)),
                        "cellname": "falsy/gauss/%s-%s/mean-%s" % (form, ptype, "zero" if F(mean[1]) == 0 or mean[0] == "v" and all(F(a) == 0 for a in mean[1]) else "nonzero+x-zero")
                        if mean[0] == "s" else "falsy/gauss/%s-%s/%s" % (form, ptype, "mean-zero-vector" if all(F(a) == 0 for a in mean[1]) else "x-zero")}
                out.append(case_gauss_prior(meta, st))
        for bc in ("zero", "periodic", "neumann"):
            m = rng.randint(3, 4)
            out.append(case_gmrf({"fam": "gmrf", "bc": bc, "order": rng.choice([0, 1, 2]), "pd": 1, "n": m, "N": m, "geo2": None, "mean": ["s", P_(0)],
                                  "prec": P_(rpos(rng)), "x": Z(m), "x1": pv(rvec(rng, m, -2, 2)), "cellname": "falsy/gmrf/%s" % bc}, st))
            out += case_cmrf({"fam": "cmrf", "bc": bc, "pd": 1, "n": m, "N": m, "geo2": None, "loc": ["s", P_(0)], "scale": P_(rpos(rng)),
                              "x": Z(m), "x1": pv(rvec(rng, m, -2, 2)), "cellname": "falsy/cmrf/%s" % bc}, st)
        for sf, k in (("Cauchy", 0), ("InvGamma", 1), ("SmoothedLaplace", 0), ("Uniform", 0)):
            meta = sep_meta(rng, sf, n, False)
            meta["pars"][k] = ["s", P_(0)]
            if sf == "Uniform":
                meta["pars"][1] = ["s", P_(rpos(rng))]
            meta["x"], meta["x1"] = pv(sep_point(rng, meta)), pv(sep_point(rng, meta))
            if sf in ("Cauchy", "SmoothedLaplace"):
                meta["x"] = Z(n)
            meta["cellname"] = "falsy/sep/%s-zero-%s" % (sf, SEP_ATTRS[sf][k])
            out += case_sep(meta, st)
        for kind in ("matrix", "jac", "pde-grad"):
            lm = lik_meta(rng, rand_model(rng, kind, ("default",), n=n), "cov", "vector")
            lm["data"], lm["x"] = Z(lm["model"]["m"]), Z(n)
            lm["cellname"] = "falsy/lik/%s/data-zero-theta-zero" % kind
            out.append(case_lik(lm, st))
        # posterior with a user factor centred at 0 and a zero-mean prior, evaluated at 0
        uf = rand_user_factor(rng, "ulik", n, grad=True, geom="cont1d")
        uf["c"] = Z(n)
        prior = {"fam": "gauss", "form": "cov", "ptype": "scalar", "param": P_(rpos(rng)), "n": n, "mean": ["s", P_(0)]}
        out.append(case_sum({"fam": "post", "parts": [uf, prior], "n": n, "x": Z(n), "x1": pv(rvec(rng, n)), "style": "direct",
                             "cellname": "falsy/post/user-factor-at-zero"}, st))
        out.append(case_sum({"fam": "mlp", "parts": [lik_meta(rng, rand_model(rng, "matrix", ("default",), n=n), "cov", "scalar"), uf, prior], "n": n,
                             "x": Z(n), "x1": pv(rvec(rng, n)), "style": "direct", "cellname": "falsy/mlp/zero-point"}, st))
    return out


# ---- dimensions above config.MIN_DIM_SPARSE (sparse storage / eigen-decomposition paths): oracle only --------------
LARGE_KINDS = ["cov-dense", "prec-dense", "sqrtcov-dense", "sqrtprec-dense", "cov-vector", "prec-vector", "sqrtprec-sparse-band",
               "cov-sparse-diag", "prec-scalar", "gmrf-1d", "gmrf-2d", "lik-cov-dense", "lik-sqrtprec-vector"]


def build_large(meta):
    """(object, dim, spec): spec describes the object to the model -- the symmetric operator (as a bigop term), whether it
    is the covariance (inverse = True: certificates) or the precision, mean / data / model matrix -- from the harness's own
    numbers (the GMRF difference matrix is read from the object: a certificate whose stencil belongs to C20)"""
    import scipy.sparse as sp
    from cuqi.distribution import Gaussian, GMRF
    from cuqi.model import LinearModel
    import io, contextlib
    rng = np.random.RandomState(meta["seed"])
    n = meta["n"]
    kind = meta["kind"]
    mean = rng.randint(-4, 5, n) / 2.0
    band = np.diag(1.0 + rng.randint(1, 4, n)) + np.diag(rng.randint(-1, 2, n - 1) / 2.0, -1)     # lower bidiagonal, non-singular
    spd = band @ band.T
    vec = 2.0 ** rng.randint(-2, 3, n)
    if kind.startswith("gmrf"):
        geom = n if kind == "gmrf-1d" else (9, 9)
        dim = 81 if kind == "gmrf-2d" else n
        with contextlib.redirect_stdout(io.StringIO()):
            G = GMRF(mean[:dim], 0.5, bc_type=meta["bc"], order=meta["order"], geometry=geom)
        Dm = G._diff_op.get_matrix()
        D = np.asarray(Dm.todense()) if hasattr(Dm, "todense") else np.asarray(Dm)
        return G, dim, {"what": "prior", "inverse": False, "op": "(OScaled %s (OGram %s %s))" % (cqc(Fraction(1, 2)), cnat(dim), cqm(D)), "mean": fr(mean[:dim])}
    ops = {"cov-dense": (True, "(OMat %s)" % cqm(spd)), "prec-dense": (False, "(OMat %s)" % cqm(spd)),
           "sqrtcov-dense": (True, "(OGramT %s %s)" % (cnat(n), cqm(band))), "sqrtprec-dense": (False, "(OGram %s %s)" % (cnat(n), cqm(band))),
           "cov-vector": (True, "(ODiag %s)" % cqv(fr(vec))), "prec-vector": (False, "(ODiag %s)" % cqv(fr(vec))),
           "sqrtprec-sparse-band": (False, "(OGram %s %s)" % (cnat(n), cqm(band))), "cov-sparse-diag": (True, "(ODiag %s)" % cqv(fr(vec))),
           "prec-scalar": (False, "(OScal %s)" % cqc(Fraction(1, 2))),
           "lik-cov-dense": (True, "(OMat %s)" % cqm(spd)), "lik-sqrtprec-vector": (False, "(ODiag %s)" % cqv(fr(vec * vec)))}
    inverse, op = ops[kind]
    if kind.startswith("lik"):
        B = rng.randint(-2, 3, (n, 3)).astype(float)
        par = {"cov": spd} if kind == "lik-cov-dense" else {"sqrtprec": vec}
        return Gaussian(mean=LinearModel(B), **par).to_likelihood(mean), 3, {"what": "lik", "inverse": inverse, "op": op, "B": B, "data": fr(mean), "diag": vec * vec,
                                                                            "solve": (lambda r: np.linalg.solve(spd, r)) if inverse else None}
    form, rest = kind.split("-", 1)
    val = {"dense": spd if form in ("cov", "prec") else band, "vector": vec, "sparse-band": sp.csc_matrix(band),
           "sparse-diag": sp.diags(vec), "scalar": 0.5}[rest]
    return Gaussian(mean, **{form: val}), n, {"what": "prior", "inverse": inverse, "op": op, "mean": fr(mean)}


def gen_large(ctx, st):
    rng = ctx.rng
    out = []
    for kind in LARGE_KINDS:
        for r in range(ctx.n(2, 3)):          # r = 0: first dimension above config.MIN_DIM_SPARSE (76); r = 1: exactly at the threshold (75)
            meta = {"fam": "large", "kind": kind, "n": [76, 75, 90][r % 3] if not kind == "gmrf-2d" else 81, "seed": rng.randint(0, 10 ** 6),
                    "bc": rng.choice(["zero", "periodic", "neumann"]), "order": rng.choice([0, 1]) if True else 2,
                    "cellname": "large/" + kind}
            out.append(case_large(meta))
    return out


def case_large(meta):
    obj, dim, spec = build_large(meta)
    rng = np.random.RandomState(meta["seed"] + 1)
    x = rng.randint(-8, 9, dim) / 4.0
    x1 = rng.randint(-8, 9, dim) / 4.0
    o = observe(lambda: obj.gradient(x))
    o1 = observe(lambda: obj.gradient(x1))
    logd_ok = True
    try:
        f = logd_of(obj)
        dobs = f(x1) - f(x)
    except NotImplementedError:
        # sparse full matrices without cholmod: the object refuses to evaluate its own (normalised) logd: only the formula is compared
        logd_ok = False
    d, sig = (verdict_case(meta, o, obj, x, dim) if logd_ok else (None, ""))
    if d is None and o[0] != "vec":
        d, sig = "no gradient vector for a dimension above MIN_DIM_SPARSE although logd is defined: %r" % (o[:1],), "C03|%s|%s" % (meta["cellname"], o[0])
    g, g1 = (o[1] if o[0] == "vec" else []), (o1[1] if o1[0] == "vec" else [])
    inv = cbool(spec["inverse"])
    if spec["what"] == "prior":
        expr = "check_big %s %s %s %s %s && check_big %s %s %s %s %s" % (inv, spec["op"], cqv(spec["mean"]), cqv(fr(x)), cqvec(g),
                                                                       inv, spec["op"], cqv(spec["mean"]), cqv(fr(x1)), cqvec(g1))
    else:
        B = spec["B"]
        r = np.asarray([float(v) for v in spec["data"]]) - B @ x
        # certificate for P (data - B theta): with a covariance-type operator the harness's own solve, CHECKED by the model (C w = r)
        w = spec["solve"](r) if spec["inverse"] else None
        if w is None:
            w = spec["diag"] * r          # diagonal precision: the harness's own product, recomputed exactly and compared by the model
        expr = "check_big_lik %s %s %s %s %s %s %s %s" % (inv, spec["op"], cnat(3), cqm(B), cqv(spec["data"]), cqv(fr(x)), cqvec(w), cqvec(g))
    if logd_ok and spec["what"] == "prior":
        expr += " && check_big_logd %s %s %s %s %s" % (cqvec(g), cqvec(g1), cqv(fr(x)), cqv(fr(x1)), cq(dobs))
    return Case(expr=expr, meta=meta, cell=meta["cellname"] + ("" if logd_ok else "/logd-refused"), kind="EXACT", impl_fail=d, signature=sig)


# ------------------------------------------------------------------------------------------------
# protocol hooks
# ------------------------------------------------------------------------------------------------
def _rerun(meta):
    """re-run one stored case: list of fresh Case objects"""
    st = state()
    fam = meta.get("fam")
    if fam == "gauss" and meta.get("scale"):
        return [case_gauss_scale(meta, st)]
    if fam == "gauss" and meta.get("batch"):
        return [case_gauss_batch(meta, st)]
    if fam == "gauss":
        return [case_gauss_prior(meta, st)]
    if fam == "gmrf":
        return [case_gmrf(meta, st)]
    if fam == "oosmrf":
        return [case_oos_mrf(meta, st)]
    if fam == "lik" and meta["model"]["dom"][0] == "tmap+grad":
        return case_lik_tgeo(meta, st)
    if fam == "lik":
        return [case_lik(meta, st)]
    if fam in ("post", "mlp"):
        return [case_sum(meta, st)] if not meta.get("fd") else [case_fd(meta, st)]
    if fam == "sep" and meta.get("oos"):
        return [case_oos(meta, st)]
    if fam == "sep":
        return case_sep(meta, st) if not meta.get("fd") else [case_fd(meta, st)]
    if fam == "cmrf":
        return case_cmrf(meta, st) if not meta.get("fd") else [case_fd(meta, st)]
    if fam == "dispatch":
        c = case_dispatch(meta, coq_fixes(st))
        return [c] if c else []
    if fam == "lognormal-full":
        return [case_lognormal_full(meta, st)]
    if fam == "gallery":
        return case_gallery(meta)
    if fam == "large":
        return [case_large(meta)]
    return []


def oracle(ctx, meta):
    """for a model/implementation disagreement: does the PROPERTY itself fail on the implementation for this case?"""
    if meta.get("fd") and meta.get("fam") not in ("dispatch",):
        cs = [case_fd(meta, state())]
    else:
        cs = _rerun(meta)
    for c in cs:
        if c.impl_fail:
            return c.impl_fail
    return None


def classify(meta, detail):
    try:
        cs = [case_fd(meta, state())] if (meta.get("fd") and meta.get("fam") != "dispatch") else _rerun(meta)
        for c in cs:
            if c.impl_fail:
                return c.signature
    except Exception:
        pass
    return "C03|%s" % meta.get("cellname", meta.get("fam"))


def search(ctx):
    saved = ctx.tier
    found = []
    try:
        ctx.tier = "quick"
        for c in run(ctx).cases:
            if c.impl_fail:
                found.append(c)
    finally:
        ctx.tier = saved
    return found[:8]


def replay(ctx, meta):
    print(json.dumps({k: v for k, v in meta.items() if k != "meta"}, indent=1, default=str)[:3000])
    m = meta.get("meta", meta)
    if "no_longer_checks" in meta and isinstance(meta["no_longer_checks"], list):
        for b in meta["no_longer_checks"]:
            for c in b.get("cases", [])[:3]:
                print("--- re-running disagreeing case of cell", c.get("cell"))
                _replay_one(c["meta"])
        return 0
    if "witness" in m:
        d, txt = WITNESS[m["witness"]]()
        print("witness:", txt)
        return 0
    _replay_one(m)
    return 0


def _replay_one(m):
    print("case:", json.dumps(m)[:2500])
    st = state()
    print("repair state:", {k: v for k, v in st.items()})
    cs = [case_fd(m, st)] if (m.get("fd") and m.get("fam") != "dispatch") else _rerun(m)
    for c in cs:
        print("cell:", c.cell)
        print("property oracle on the implementation:", c.impl_fail or "holds", "| signature:", c.signature or "-")
        if m.get("fam") not in ("dispatch", None, "oosmrf") and "x" in m and m.get("fam") != "gallery":
            try:
                obj, dim = build(m) if m["fam"] != "sep" else (build_sep(m), m["n"])
                x = fa(m["x"])
                print("implementation gradient():", observe(lambda: obj.gradient(x)))
                print("numerical derivative of the same object's logd:", num_grad(logd_of(obj), x).tolist())
            except Exception as e:
                print("could not rebuild:", repr(e))
        if c.kind == "ENCLOSURE":
            print("model (interval) goal:", c.expr[:1500])
        else:
            rc, out = eval_in_coq(IMPORTS, c.expr, tag="replay_C03")
            print("model agrees with implementation:", out[-300:])
