(* C09 -- proofs about the generic Gibbs wiring (Model/C09_Gibbs.v, Part 1): for every joint target, every block
   sampler interface, every number of blocks, step counts, scripts and sweep counts. *)
From CV Require Import Base.Tac Model.C09_Gibbs.

(* ---------------- list update ---------------- *)
Section Upd.
Context {A : Type}.
Implicit Types (l : list A) (v : A).

Lemma upd_length l i v : length (upd l i v) = length l.
Proof. revert i; induction l as [|x r IH]; intros [|i]; simpl; auto. Qed.

Lemma nth_error_upd_eq l i v : i < length l -> nth_error (upd l i v) i = Some v.
Proof. revert i; induction l as [|x r IH]; intros [|i] H; simpl in *; try lia; auto. apply IH; lia. Qed.

Lemma nth_error_upd_neq l i j v : i <> j -> nth_error (upd l i v) j = nth_error l j.
Proof.
  revert i j; induction l as [|x r IH]; intros [|i] [|j] H; simpl; auto; try congruence.
Qed.

Lemma firstn_upd_le l i j v : j <= i -> firstn j (upd l i v) = firstn j l.
Proof.
  revert i j; induction l as [|x r IH]; intros [|i] [|j] H; simpl; auto; try lia.
  all: try (f_equal; apply IH; lia).
Qed.

Lemma skipn_upd_lt l i j v : i < j -> skipn j (upd l i v) = skipn j l.
Proof.
  revert i j; induction l as [|x r IH]; intros [|i] [|j] H; simpl; auto; try lia.
  all: try (apply IH; lia).
Qed.

Lemma upd_split l i v x : nth_error l i = Some x -> upd l i v = firstn i l ++ v :: skipn (S i) l.
Proof.
  revert i; induction l as [|y r IH]; intros [|i] H; simpl in *; try discriminate; auto.
  f_equal. apply IH; auto.
Qed.

Lemma upd_app_mid (p q : list A) x v : upd (p ++ x :: q) (length p) v = p ++ v :: q.
Proof. induction p as [|y p IH]; simpl; auto. f_equal; auto. Qed.

Lemma skipn_S_tl l i : skipn (S i) l = tl (skipn i l).
Proof.
  revert l; induction i as [|i IH]; intros [|x r]; try reflexivity.
  change (skipn (S (S i)) (x :: r)) with (skipn (S i) r). rewrite IH. reflexivity.
Qed.

Lemma nth_error_hd_skipn l i : nth_error l i = hd_error (skipn i l).
Proof. revert l; induction i as [|i IH]; intros [|x r]; simpl; auto. Qed.

Lemma nth_error_of_skipn l l' i : skipn i l = skipn i l' -> nth_error l i = nth_error l' i.
Proof. intros H. now rewrite !nth_error_hd_skipn, H. Qed.

Lemma nth_error_of_firstn l l' i j : j < i -> firstn i l = firstn i l' -> nth_error l j = nth_error l' j.
Proof.
  revert l l' j; induction i as [|i IH]; intros l l' j Hj H; [lia|].
  destruct l as [|x r], l' as [|y r']; simpl in H; try discriminate; auto.
  inversion H; subst. destruct j as [|j]; simpl; auto. apply IH; auto; lia.
Qed.

Lemma firstn_skipn_nth l i x : nth_error l i = Some x -> skipn i l = x :: skipn (S i) l.
Proof.
  revert i; induction l as [|y r IH]; intros [|i] H; simpl in *; try discriminate; auto.
  congruence.
Qed.
End Upd.

Section Wiring.
Context {V L St R : Type}.
Variable condf : list V -> nat -> V -> L.
Variable point : St -> V.
Variable reinit : nat -> (V -> L) -> St -> St.
Variable trans : nat -> (V -> L) -> St -> R -> St.
Variable nst : nat -> nat.

Notation ev := (@ev V L St).
Notation gst := (@gst V St).
Notation steps := (steps trans).
Notation block_update := (block_update condf point reinit trans nst).
Notation sweep := (sweep condf point reinit trans nst).
Notation sample_n := (sample_n condf point reinit trans nst).

(* n transitions of block i's sampler on target t, consuming rs j, rs (j+1), ... *)
Fixpoint iter_trans (i : nat) (t : V -> L) (n j : nat) (rs : nat -> R) (s : St) : St :=
  match n with
  | O => s
  | S n' => iter_trans i t n' (S j) rs (trans i t s (rs j))
  end.

Lemma iter_trans_snoc i t n : forall j rs s,
  iter_trans i t (S n) j rs s = trans i t (iter_trans i t n j rs s) (rs (j + n)).
Proof.
  induction n as [|n IH]; intros j rs s.
  - simpl. now rewrite Nat.add_0_r.
  - change (iter_trans i t (S (S n)) j rs s) with (iter_trans i t (S n) (S j) rs (trans i t s (rs j))).
    rewrite IH. simpl. do 2 f_equal. f_equal. lia.
Qed.

Lemma steps_fst i t cur n : forall j rs s, fst (steps i t cur n j rs s) = iter_trans i t n j rs s.
Proof. induction n as [|n IH]; intros j rs s; simpl; auto. Qed.

Lemma steps_idx i t cur n : forall j rs s,
  map (fun e : ev => (e_blk e, e_j e)) (snd (steps i t cur n j rs s)) = map (pair i) (seq j n).
Proof. induction n as [|n IH]; intros j rs s; simpl; auto. f_equal. apply IH. Qed.

(* every logged event of one block update: block, snapshot, target, and the sampler state = that many transitions
   from the state the update started with *)
Lemma steps_events i t cur rs s0 n : forall j s e,
  s = iter_trans i t j 0 rs s0 ->
  In e (snd (steps i t cur n j rs s)) ->
  e_blk e = i /\ e_cur e = cur /\ e_tgt e = t /\ j <= e_j e < j + n /\ e_s e = iter_trans i t (e_j e) 0 rs s0.
Proof.
  induction n as [|n IH]; intros j s e Hs Hin; simpl in Hin; [contradiction|].
  destruct Hin as [<-|Hin].
  - simpl. repeat split; auto; lia.
  - apply IH in Hin.
    + destruct Hin as (H1 & H2 & H3 & H4 & H5). repeat split; auto; lia.
    + rewrite iter_trans_snoc. simpl. now subst s.
Qed.

(* ---------------- the sweep, block by block ---------------- *)
Section OneSweep.
Variable rs : nat -> nat -> R.
Variable st : gst.
Let k := length (g_cur st).
Hypothesis Hss : length (g_ss st) = k.

Definition stage (i : nat) : gst * list ev := fold_left (block_update rs) (seq 0 i) (st, []).

Lemma stage_S i : stage (S i) = block_update rs (stage i) i.
Proof. unfold stage. rewrite seq_S, fold_left_app. reflexivity. Qed.

Lemma sweep_stage : sweep rs st = stage k.
Proof. reflexivity. Qed.

Definition cur_at i := g_cur (fst (stage i)).
Definition ss_at i := g_ss (fst (stage i)).

Lemma stage_len i : length (cur_at i) = k /\ length (ss_at i) = k.
Proof.
  induction i as [|i [IH1 IH2]]; [split; [reflexivity | exact Hss]|].
  unfold cur_at, ss_at in *. rewrite stage_S. unfold C09_Gibbs.block_update.
  destruct (nth_error (g_ss (fst (stage i))) i); cbn [fst snd g_cur g_ss]; [|auto].
  now rewrite !upd_length.
Qed.

(* blocks not yet visited still hold their old value and their old sampler *)
Lemma stage_rest i : skipn i (cur_at i) = skipn i (g_cur st) /\ skipn i (ss_at i) = skipn i (g_ss st).
Proof.
  induction i as [|i [IH1 IH2]]; [split; reflexivity|].
  unfold cur_at, ss_at in *. rewrite stage_S. unfold C09_Gibbs.block_update.
  destruct (nth_error (g_ss (fst (stage i))) i); cbn [fst snd g_cur g_ss].
  - rewrite !skipn_upd_lt by lia. rewrite !skipn_S_tl, IH1, IH2. auto.
  - rewrite !skipn_S_tl, IH1, IH2. auto.
Qed.

(* blocks already visited keep the value and the sampler they got *)
Lemma stage_prefix i d : firstn i (cur_at (i + d)) = firstn i (cur_at i) /\ firstn i (ss_at (i + d)) = firstn i (ss_at i).
Proof.
  induction d as [|d [IH1 IH2]]; [now rewrite Nat.add_0_r|].
  rewrite Nat.add_succ_r. unfold cur_at, ss_at in *. rewrite stage_S. unfold C09_Gibbs.block_update.
  destruct (nth_error (g_ss (fst (stage (i + d)))) (i + d)); cbn [fst snd g_cur g_ss]; [|auto].
  rewrite !firstn_upd_le by lia. auto.
Qed.


Definition new_cur := g_cur (fst (sweep rs st)).
Definition new_ss := g_ss (fst (sweep rs st)).

Lemma new_cur_at : new_cur = cur_at k. Proof. reflexivity. Qed.

(* current_samples when block i is updated: the already updated blocks new, the rest old *)
Lemma cur_at_spec i : i <= k -> cur_at i = firstn i new_cur ++ skipn i (g_cur st).
Proof.
  intros Hi. rewrite new_cur_at. replace k with (i + (k - i)) by lia.
  rewrite (proj1 (stage_prefix i (k - i))), <- (proj1 (stage_rest i)). now rewrite firstn_skipn.
Qed.

Definition tgt_at i := condf (cur_at i) i.
Definition start_at i (s : St) := reinit i (tgt_at i) s.
Definition block_evs i (s : St) : list ev := snd (steps i (tgt_at i) (cur_at i) (nst i) 0 (rs i) (start_at i s)).
Definition block_end i (s : St) : St := iter_trans i (tgt_at i) (nst i) 0 (rs i) (start_at i s).

Lemma old_sampler i : nth_error (ss_at i) i = nth_error (g_ss st) i.
Proof. apply nth_error_of_skipn. apply stage_rest. Qed.

Lemma stage_step i s : nth_error (g_ss st) i = Some s ->
  stage (S i) = (mkG (upd (cur_at i) i (point (block_end i s))) (upd (ss_at i) i (block_end i s)),
                 snd (stage i) ++ block_evs i s).
Proof.
  intros Hs. rewrite stage_S. unfold C09_Gibbs.block_update.
  fold (ss_at i). rewrite old_sampler, Hs. fold (cur_at i). fold (tgt_at i). fold (start_at i s).
  unfold block_end, block_evs. now rewrite steps_fst.
Qed.

Lemma lt_k_sampler i : i < k -> exists s, nth_error (g_ss st) i = Some s.
Proof.
  intros Hi. destruct (nth_error (g_ss st) i) eqn:E; [eauto|].
  apply nth_error_None in E. lia.
Qed.

(* where every event of the sweep comes from *)
Lemma stage_events i : i <= k -> forall e, In e (snd (stage i)) ->
  exists b s, b < i /\ nth_error (g_ss st) b = Some s /\ In e (block_evs b s).
Proof.
  induction i as [|i IH]; intros Hi e He; [contradiction|].
  destruct (lt_k_sampler i ltac:(lia)) as [s Hs].
  rewrite (stage_step i s Hs) in He. cbn [snd] in He. apply in_app_or in He as [He|He].
  - destruct (IH ltac:(lia) e He) as (b & s' & Hb & Hs' & Hin). exists b, s'. repeat split; auto; lia.
  - exists i, s. repeat split; auto.
Qed.

Lemma stage_idx i : i <= k ->
  map (fun e : ev => (e_blk e, e_j e)) (snd (stage i)) = flat_map (fun b => map (pair b) (seq 0 (nst b))) (seq 0 i).
Proof.
  induction i as [|i IH]; intros Hi; [reflexivity|].
  destruct (lt_k_sampler i ltac:(lia)) as [s Hs].
  rewrite (stage_step i s Hs). cbn [snd]. rewrite map_app, IH by lia.
  rewrite seq_S, flat_map_app. cbn [flat_map Nat.add]. rewrite app_nil_r. f_equal.
  unfold block_evs. apply steps_idx.
Qed.

(* what block i ends with: its sampler after nst i transitions, and its new value = that sampler's point *)
Lemma new_block i s : nth_error (g_ss st) i = Some s -> i < k ->
  nth_error new_ss i = Some (block_end i s) /\ nth_error new_cur i = Some (point (block_end i s)).
Proof.
  intros Hs Hi.
  assert (E1 : nth_error (ss_at (S i)) i = Some (block_end i s)).
  { unfold ss_at. rewrite (stage_step i s Hs). cbn [fst g_ss]. apply nth_error_upd_eq. now rewrite (proj2 (stage_len i)). }
  assert (E2 : nth_error (cur_at (S i)) i = Some (point (block_end i s))).
  { unfold cur_at. rewrite (stage_step i s Hs). cbn [fst g_cur]. apply nth_error_upd_eq. now rewrite (proj1 (stage_len i)). }
  unfold new_ss, new_cur. rewrite sweep_stage. fold (ss_at k). fold (cur_at k).
  replace k with (S i + (k - S i)) by lia. split.
  - rewrite <- E1. apply (nth_error_of_firstn _ _ (S i)); [lia|]. apply stage_prefix.
  - rewrite <- E2. apply (nth_error_of_firstn _ _ (S i)); [lia|]. apply stage_prefix.
Qed.

(* ---- the statements used by Props/C09.v ---- *)

Lemma sweep_lengths : length new_cur = k /\ length new_ss = k.
Proof. unfold new_cur, new_ss. rewrite sweep_stage. apply stage_len. Qed.

Theorem sweep_target_is_current_conditional : forall e, In e (snd (sweep rs st)) ->
  let i := e_blk e in
  i < k /\ e_cur e = firstn i new_cur ++ skipn i (g_cur st)
  /\ e_tgt e = condf (e_cur e) i.
Proof.
  intros e He. rewrite sweep_stage in He.
  destruct (stage_events k (le_n k) e He) as (b & s & Hb & Hs & Hin).
  unfold block_evs in Hin.
  apply (steps_events b (tgt_at b) (cur_at b) (rs b) (start_at b s) (nst b) 0 (start_at b s) e eq_refl) in Hin.
  destruct Hin as (H1 & H2 & H3 & H4 & H5). cbn zeta. rewrite H1.
  assert (Hc : e_cur e = firstn b new_cur ++ skipn b (g_cur st)) by (rewrite H2; apply cur_at_spec; lia).
  split; [exact Hb|]. split; [exact Hc|]. rewrite H3, H2; reflexivity.
Qed.

(* the snapshot logged with an event has an entry for the event's block (its value before the update) *)
Lemma sweep_event_valid : forall e, In e (snd (sweep rs st)) ->
  nth_error (e_cur e) (e_blk e) = nth_error (g_cur st) (e_blk e) /\ e_blk e < length (e_cur e).
Proof.
  intros e He. destruct (sweep_target_is_current_conditional e He) as (Hb & Hc & Ht). cbn zeta in *.
  set (b := e_blk e) in *.
  destruct (nth_error (g_cur st) b) as [x|] eqn:Ex; [|apply nth_error_None in Ex; fold k in Ex; lia].
  assert (Hl : length (firstn b new_cur) = b) by (rewrite firstn_length, (proj1 sweep_lengths); lia).
  split.
  - rewrite Hc, nth_error_app2 by lia. rewrite Hl, Nat.sub_diag. rewrite (firstn_skipn_nth _ _ _ Ex). reflexivity.
  - rewrite Hc, app_length, Hl, (firstn_skipn_nth _ _ _ Ex). simpl. lia.
Qed.

(* with the C01 one-step law for the conditioning operation (conditioning block i's joint on the others and evaluating
   at v = evaluating the joint at the full assignment), the target is the joint at (new blocks before i, v, old after) *)
Theorem sweep_target_is_joint (joint : list V -> L) :
  (forall cur i x, nth_error cur i = Some x -> forall v, condf cur i v = joint (upd cur i v)) ->
  forall e, In e (snd (sweep rs st)) ->
  forall v, e_tgt e v = joint (firstn (e_blk e) new_cur ++ v :: skipn (S (e_blk e)) (g_cur st)).
Proof.
  intros Hc01 e He v.
  destruct (sweep_target_is_current_conditional e He) as (Hb & Hc & Ht). cbn zeta in *.
  set (b := e_blk e) in *.
  destruct (nth_error (g_cur st) b) as [x|] eqn:Ex; [|apply nth_error_None in Ex; fold k in Ex; lia].
  assert (Hl : length (firstn b new_cur) = b) by (rewrite firstn_length, (proj1 sweep_lengths); lia).
  assert (Ecur : nth_error (e_cur e) b = Some x).
  { rewrite Hc, nth_error_app2 by lia. rewrite Hl, Nat.sub_diag. rewrite (firstn_skipn_nth _ _ _ Ex). reflexivity. }
  rewrite Ht, (Hc01 _ _ _ Ecur v). f_equal. rewrite Hc, (firstn_skipn_nth _ _ _ Ex).
  pose proof (upd_app_mid (firstn b new_cur) (skipn (S b) (g_cur st)) x v) as U. rewrite Hl in U. exact U.
Qed.

Theorem sweep_all_visited_once :
  map (fun e : ev => (e_blk e, e_j e)) (snd (sweep rs st)) = flat_map (fun b => map (pair b) (seq 0 (nst b))) (seq 0 k).
Proof. rewrite sweep_stage. apply stage_idx. lia. Qed.

(* the sampler state at every logged transition: the block's OLD sampler, re-targeted, advanced e_j times on the
   current conditional; fewer than nst transitions have happened at that moment *)
Theorem sweep_k_transitions : forall e, In e (snd (sweep rs st)) ->
  let i := e_blk e in
  exists s, nth_error (g_ss st) i = Some s /\ e_j e < nst i
            /\ e_s e = iter_trans i (e_tgt e) (e_j e) 0 (rs i) (reinit i (e_tgt e) s).
Proof.
  intros e He. rewrite sweep_stage in He.
  destruct (stage_events k (le_n k) e He) as (b & s & Hb & Hs & Hin).
  unfold block_evs in Hin.
  apply (steps_events b (tgt_at b) (cur_at b) (rs b) (start_at b s) (nst b) 0 (start_at b s) e eq_refl) in Hin.
  destruct Hin as (H1 & H2 & H3 & H4 & H5). cbn zeta. rewrite H1, H3. exists s. repeat split; auto; lia.
Qed.

(* ... and after the sweep block i holds exactly nst i transitions, its value is the resulting point *)
Theorem sweep_result i s : nth_error (g_ss st) i = Some s ->
  let t := condf (firstn i new_cur ++ skipn i (g_cur st)) i in
  let s' := iter_trans i t (nst i) 0 (rs i) (reinit i t s) in
  nth_error new_ss i = Some s' /\ nth_error new_cur i = Some (point s').
Proof.
  intros Hs. assert (Hi : i < k) by (rewrite <- Hss; apply nth_error_Some; congruence).
  cbn zeta. rewrite <- cur_at_spec by lia. apply (new_block i s Hs Hi).
Qed.

(* samplers and current values in step: sampler i sits at block i's current value *)
Definition synced (g : gst) : Prop :=
  length (g_ss g) = length (g_cur g) /\
  forall i s, nth_error (g_ss g) i = Some s -> nth_error (g_cur g) i = Some (point s).

Theorem sweep_starts_from_current :
  (forall i t s, point (reinit i t s) = point s) ->
  (forall i s, nth_error (g_ss st) i = Some s -> nth_error (g_cur st) i = Some (point s)) ->
  forall e, In e (snd (sweep rs st)) -> e_j e = 0 ->
  nth_error (g_cur st) (e_blk e) = Some (point (e_s e)).
Proof.
  intros Hre Hsync e He Hj.
  destruct (sweep_k_transitions e He) as (s & Hs & _ & Hes). cbn zeta in *.
  rewrite Hes, Hj. cbn [iter_trans]. rewrite Hre. now apply Hsync.
Qed.

Theorem sweep_keeps_synced : forall i s, nth_error new_ss i = Some s -> nth_error new_cur i = Some (point s).
Proof.
  intros i s Hs.
  assert (Hi : i < k) by (rewrite <- (proj2 sweep_lengths); apply nth_error_Some; congruence).
  destruct (lt_k_sampler i Hi) as [s0 Hs0].
  destruct (new_block i s0 Hs0 Hi) as [E1 E2]. rewrite E1 in Hs. inversion Hs; subst. exact E2.
Qed.
End OneSweep.

(* ---------------- runs: storing, continuation ---------------- *)
Notation run := (@run V L St).

Definition one_sweep (rnd : nat -> nat -> nat -> R) (t : nat) (x : run) : run :=
  let r := sweep (rnd t) (r_st x) in mkRun (fst r) (r_stored x ++ [g_cur (fst r)]) (r_log x ++ snd r).

Lemma sample_n_S rnd n t0 x : sample_n rnd (S n) t0 x = sample_n rnd n (S t0) (one_sweep rnd t0 x).
Proof. reflexivity. Qed.

Lemma sample_n_app rnd n : forall m t0 x, sample_n rnd (n + m) t0 x = sample_n rnd m (t0 + n) (sample_n rnd n t0 x).
Proof.
  induction n as [|n IH]; intros m t0 x; [now rewrite Nat.add_0_r|].
  cbn [Nat.add]. rewrite !sample_n_S, IH. f_equal. lia.
Qed.

Lemma sample_n_snoc rnd n t0 x : sample_n rnd (S n) t0 x = one_sweep rnd (t0 + n) (sample_n rnd n t0 x).
Proof. replace (S n) with (n + 1) by lia. rewrite sample_n_app. reflexivity. Qed.

(* the stored sample of sweep m is the tuple of values after that sweep; nothing else is stored *)
Theorem stored_is_post_sweep rnd n t0 x :
  length (r_stored (sample_n rnd n t0 x)) = length (r_stored x) + n /\
  firstn (length (r_stored x)) (r_stored (sample_n rnd n t0 x)) = r_stored x /\
  forall m, m < n ->
    nth_error (r_stored (sample_n rnd n t0 x)) (length (r_stored x) + m) = Some (g_cur (r_st (sample_n rnd (S m) t0 x))).
Proof.
  induction n as [|n (IH1 & IH2 & IH3)].
  - cbn [sample_n]. split; [lia|]. split; [apply firstn_all|]. intros m Hm; lia.
  - rewrite sample_n_snoc. unfold one_sweep at 1 2 3. cbn [r_stored]. split; [|split].
    + rewrite app_length, IH1. simpl. lia.
    + rewrite firstn_app, IH2. replace (_ - _) with 0 by lia. now rewrite app_nil_r.
    + intros m Hm. destruct (Nat.eq_dec m n) as [->|Hne].
      * rewrite nth_error_app2 by lia. rewrite IH1, Nat.sub_diag. cbn [nth_error].
        rewrite sample_n_snoc. reflexivity.
      * rewrite nth_error_app1 by lia. apply IH3. lia.
Qed.

Theorem last_stored_is_current rnd n t0 x : 0 < n ->
  last_col (r_stored (sample_n rnd n t0 x)) = Some (g_cur (r_st (sample_n rnd n t0 x))).
Proof.
  destruct n as [|n]; [lia|]. intros _. rewrite sample_n_snoc. unfold one_sweep. cbn [r_stored r_st].
  unfold last_col. rewrite rev_app_distr. reflexivity.
Qed.

Section WithTune.
Variable tune : nat -> nat -> nat -> St -> St.
Notation run_ops := (run_ops condf point reinit trans tune nst).

Definition ops_len (ops : list op) : nat := fold_right (fun o a => op_len o + a) 0 ops.

Theorem run_ops_app rnd ops1 : forall ops2 t0 x,
  run_ops rnd (ops1 ++ ops2) t0 x = run_ops rnd ops2 (t0 + ops_len ops1) (run_ops rnd ops1 t0 x).
Proof.
  induction ops1 as [|o ops1 IH]; intros ops2 t0 x; [cbn; now rewrite Nat.add_0_r|].
  destruct o as [n|n ti]; cbn [app C09_Gibbs.run_ops ops_len fold_right op_len]; rewrite IH, Nat.add_assoc; reflexivity.
Qed.

Theorem sample_twice rnd n m t0 x :
  run_ops rnd [OSample n; OSample m] t0 x = run_ops rnd [OSample (n + m)] t0 x.
Proof. cbn [C09_Gibbs.run_ops]. now rewrite sample_n_app. Qed.
End WithTune.
End Wiring.
