(* C20 -- generic linear-algebra lemmas used by the proofs about Model/C20_Diff.v:
   columns / transpose / Gram matrix over an abstract commutative ring (all sizes),
   sparse rows, matrices given by entry functions, Kronecker products over Z. *)
From CV Require Import Base.Tac Base.Cmp Base.LinAlg Base.QcLin Model.C20_Diff.
From Coq Require Import Ring.

(* ---------------- lists ---------------- *)
Lemma nth_map_seq {A} (f : nat -> A) n k d : (k < n)%nat -> nth k (map f (seq 0 n)) d = f k.
Proof.
  intros H. rewrite nth_indep with (d' := f 0%nat) by (rewrite map_length, seq_length; exact H).
  rewrite map_nth, seq_nth by exact H. reflexivity.
Qed.

Lemma list_as_map_nth {A} (l : list A) d : l = map (fun j => nth j l d) (seq 0 (length l)).
Proof.
  induction l as [|a l IH]; [reflexivity|]. cbn [length seq map nth]. f_equal.
  rewrite <- seq_shift, map_map. exact IH.
Qed.

Lemma map_seq_ext {A} (f g : nat -> A) n :
  (forall i, (i < n)%nat -> f i = g i) -> map f (seq 0 n) = map g (seq 0 n).
Proof. intros H. apply map_ext_in. intros i Hi. apply in_seq in Hi. apply H. lia. Qed.

Lemma repeat_as_map {A} (c : A) n : repeat c n = map (fun _ => c) (seq 0 n).
Proof.
  induction n as [|n IH]; [reflexivity|]. cbn [repeat seq map]. f_equal.
  rewrite <- seq_shift, map_map. exact IH.
Qed.

Lemma nth_repeat' {A} (c : A) n k : nth k (repeat c n) c = c.
Proof. revert k; induction n as [|n IH]; intros [|k]; cbn; auto. Qed.

(* ---------------- abstract commutative ring ---------------- *)
Section GenLin.
Variable R : Type.
Variables (r0 r1 : R) (radd rmul rsub : R -> R -> R) (ropp : R -> R).
Hypothesis Rth : ring_theory r0 r1 radd rmul rsub ropp (@eq R).
Add Ring RringC20 : Rth.

Notation "x + y" := (radd x y).
Notation "x * y" := (rmul x y).
Notation gdot := (dot r0 radd rmul).
Notation gvadd := (vadd radd).
Notation gvscale := (vscale rmul).
Notation gvzero := (vzero r0).
Notation gmatvec := (matvec r0 radd rmul).
Notation gmattvec := (mattvec r0 radd rmul).
Notation gcol := (col r0).
Notation gtranspose := (transpose r0).
Notation gmatmul := (matmul r0 radd rmul).
Notation gnormsq := (normsq r0 radd rmul).

Definition ggram (n : nat) (D : list (list R)) : list (list R) := gmatmul n (gtranspose n D) D.

Lemma nth_vadd u : forall v j, length u = length v ->
  nth j (gvadd u v) r0 = nth j u r0 + nth j v r0.
Proof.
  induction u as [|a u IH]; intros [|b v] j H; cbn in H; try discriminate.
  - destruct j; cbn; ring.
  - destruct j as [|j]; cbn [vadd nth]; [reflexivity|]. apply IH. lia.
Qed.

Lemma nth_vscale c u : forall j, nth j (gvscale c u) r0 = c * nth j u r0.
Proof.
  induction u as [|a u IH]; intros [|j]; cbn; try ring; try reflexivity. apply IH.
Qed.

Lemma nth_vzero n : forall j, nth j (gvzero n) r0 = r0.
Proof. induction n as [|n IH]; intros [|j]; cbn; auto. Qed.

Lemma col_length (A : list (list R)) j : length (gcol A j) = length A.
Proof. apply map_length. Qed.

(* entry j of A^T y is <column j of A, y> *)
Lemma nth_mattvec n A : wf_mat n A -> forall y j,
  nth j (gmattvec n A y) r0 = gdot (gcol A j) y.
Proof.
  intros H; induction H as [|row A Hr HA IH]; intros y j.
  - cbn. destruct y; apply nth_vzero.
  - destruct y as [|b y].
    + cbn [mattvec]. rewrite nth_vzero. symmetry.
      apply (dot_nil_r R r0 radd rmul).
    + cbn [mattvec col map dot]. rewrite nth_vadd.
      * rewrite nth_vscale. fold (gcol A j). rewrite IH. ring.
      * rewrite (vscale_length R rmul), (mattvec_length R r0 radd rmul) by exact HA. exact Hr.
Qed.

Lemma mattvec_cols n A y : wf_mat n A ->
  gmattvec n A y = map (fun j => gdot (gcol A j) y) (seq 0 n).
Proof.
  intros H. rewrite (list_as_map_nth (gmattvec n A y) r0).
  rewrite (mattvec_length R r0 radd rmul) by exact H.
  apply map_ext. intros j. apply nth_mattvec. exact H.
Qed.

(* the Gram matrix D^T D, entry by entry *)
Lemma gram_entries n D : wf_mat n D ->
  ggram n D = map (fun j => map (fun k => gdot (gcol D k) (gcol D j)) (seq 0 n)) (seq 0 n).
Proof.
  intros H. unfold ggram, matmul, transpose. rewrite map_map.
  apply map_ext. intros j. apply mattvec_cols. exact H.
Qed.

Lemma gram_length n D : length (ggram n D) = n.
Proof. unfold ggram, matmul, transpose. rewrite !map_length. apply seq_length. Qed.

Lemma gram_wf n D : wf_mat n D -> wf_mat n (ggram n D).
Proof.
  intros H. rewrite gram_entries by exact H. apply Forall_forall. intros r Hr.
  apply in_map_iff in Hr. destruct Hr as [j [<- _]]. rewrite map_length. apply seq_length.
Qed.

(* symmetric: (D^T D)^T = D^T D *)
Theorem gram_symmetric n D : wf_mat n D -> gtranspose n (ggram n D) = ggram n D.
Proof.
  intros H. rewrite gram_entries by exact H. unfold transpose at 1.
  apply map_seq_ext. intros k Hk. unfold col. rewrite map_map.
  apply map_seq_ext. intros j Hj. rewrite nth_map_seq by exact Hk.
  apply (dot_comm R r0 r1 radd rmul rsub ropp Rth).
Qed.

(* (D^T D) x = D^T (D x) *)
Theorem gram_matvec n D x : wf_mat n D -> length x = n ->
  gmatvec (ggram n D) x = gmattvec n D (gmatvec D x).
Proof.
  intros H Hx. rewrite mattvec_cols by exact H.
  unfold ggram, matmul, transpose, matvec at 1. rewrite !map_map.
  apply map_ext. intros j.
  rewrite (dot_comm R r0 r1 radd rmul rsub ropp Rth).
  rewrite <- (adjoint_identity R r0 r1 radd rmul rsub ropp Rth n D x (gcol D j) H Hx).
  apply (dot_comm R r0 r1 radd rmul rsub ropp Rth).
Qed.

(* x^T (D^T D) x = |D x|^2 *)
Theorem gram_quad n D x : wf_mat n D -> length x = n ->
  gdot x (gmatvec (ggram n D) x) = gnormsq (gmatvec D x).
Proof.
  intros H Hx. rewrite gram_matvec by assumption. unfold normsq.
  symmetry. apply (adjoint_identity R r0 r1 radd rmul rsub ropp Rth); assumption.
Qed.

(* bilinear form is symmetric: y^T P x = x^T P y *)
Theorem gram_bilinear_sym n D x y : wf_mat n D -> length x = n -> length y = n ->
  gdot y (gmatvec (ggram n D) x) = gdot x (gmatvec (ggram n D) y).
Proof.
  intros H Hx Hy. rewrite !gram_matvec by assumption.
  rewrite <- !(adjoint_identity R r0 r1 radd rmul rsub ropp Rth n D) by assumption.
  apply (dot_comm R r0 r1 radd rmul rsub ropp Rth).
Qed.

Lemma dot_app a : forall b c d, length a = length c ->
  gdot (a ++ b) (c ++ d) = gdot a c + gdot b d.
Proof.
  induction a as [|u a IH]; intros b [|v c] d H; cbn in H; try discriminate.
  - cbn. ring.
  - cbn [app dot]. rewrite IH by lia. ring.
Qed.

Lemma mattvec_vzero n A m : wf_mat n A -> gmattvec n A (gvzero m) = gvzero n.
Proof.
  intros H; revert m; induction H as [|row A Hr HA IH]; intros [|m]; cbn [mattvec vzero repeat]; try reflexivity.
  fold (gvzero m). rewrite IH.
  rewrite (vadd_vzero_r R r0 r1 radd rmul rsub ropp Rth) by (rewrite (vscale_length R rmul); exact Hr).
  rewrite (list_as_map_nth (gvscale r0 row) r0), (vscale_length R rmul), Hr.
  unfold vzero. rewrite repeat_as_map. apply map_ext. intros j. rewrite nth_vscale. ring.
Qed.

End GenLin.

(* ---------------- Z ---------------- *)
Local Open Scope Z_scope.

Lemma gram_is_ggram n D : gram n D = ggram Z 0 Z.add Z.mul n D.
Proof. reflexivity. Qed.

Lemma znormsq_nonneg v : 0 <= znormsq v.
Proof.
  unfold znormsq, normsq. induction v as [|a v IH]; cbn [dot]; [lia|]. nia.
Qed.

Lemma znormsq_zero v : znormsq v = 0 -> v = repeat 0 (length v).
Proof.
  unfold znormsq, normsq. induction v as [|a v IH]; cbn [dot length repeat]; [reflexivity|].
  intros H. pose proof (znormsq_nonneg v) as Hv. unfold znormsq, normsq in Hv.
  assert (a = 0) by nia. subst a. f_equal. apply IH. lia.
Qed.

Lemma zmatvec_length A x : length (zmatvec A x) = length A.
Proof. apply map_length. Qed.

(* P = D^T D is symmetric and positive semi-definite, and P x = 0 <-> D x = 0 *)
Theorem zgram_symmetric n D : wf_mat n D -> ztranspose n (gram n D) = gram n D.
Proof. apply (gram_symmetric Z 0 1 Z.add Z.mul Z.sub Z.opp Zth). Qed.

Theorem zgram_quad n D x : wf_mat n D -> length x = n ->
  quad (gram n D) x = znormsq (zmatvec D x).
Proof. apply (gram_quad Z 0 1 Z.add Z.mul Z.sub Z.opp Zth). Qed.

Theorem zgram_psd n D x : wf_mat n D -> length x = n -> 0 <= quad (gram n D) x.
Proof. intros H Hx. rewrite zgram_quad by assumption. apply znormsq_nonneg. Qed.

Theorem zgram_matvec n D x : wf_mat n D -> length x = n ->
  zmatvec (gram n D) x = zmattvec n D (zmatvec D x).
Proof. apply (gram_matvec Z 0 1 Z.add Z.mul Z.sub Z.opp Zth). Qed.

Theorem zgram_null n D x : wf_mat n D -> length x = n ->
  (zmatvec (gram n D) x = repeat 0 n <-> zmatvec D x = repeat 0 (length D)).
Proof.
  intros H Hx. split; intros H0.
  - pose proof (zgram_quad n D x H Hx) as Hq. unfold quad in Hq. rewrite H0 in Hq.
    unfold zdot in Hq. change (repeat 0 n) with (vzero 0 n) in Hq.
    rewrite (dot_vzero_r Z 0 1 Z.add Z.mul Z.sub Z.opp Zth n x) in Hq.
    symmetry in Hq. apply znormsq_zero in Hq. rewrite zmatvec_length in Hq. exact Hq.
  - rewrite zgram_matvec by assumption. rewrite H0.
    apply (mattvec_vzero Z 0 1 Z.add Z.mul Z.sub Z.opp Zth n D (length D)). exact H.
Qed.

(* ---------------- sparse rows ---------------- *)
(* a row with a single non-zero entry v at column p *)
Lemma zdot_delta_aux (p : nat) (v : Z) x : forall s,
  zdot (map (fun j => if (j =? p)%nat then v else 0) (seq s (length x))) x =
  if (s <=? p)%nat then v * nth (p - s) x 0 else 0.
Proof.
  unfold zdot. induction x as [|a x IH]; intros s.
  - cbn. destruct (s <=? p)%nat; [destruct (p - s)%nat|]; lia.
  - cbn [length seq map dot]. rewrite IH.
    destruct (s =? p)%nat eqn:E1; destruct (s <=? p)%nat eqn:E2; destruct (S s <=? p)%nat eqn:E3; try lia.
    + replace (p - s)%nat with 0%nat by lia. cbn. lia.
    + replace (p - s)%nat with (S (p - S s)) by lia. cbn [nth]. lia.
Qed.

Lemma zdot_delta (p : nat) (v : Z) n x : length x = n ->
  zdot (map (fun j => if (j =? p)%nat then v else 0) (seq 0 n)) x = v * nth p x 0.
Proof. intros <-. rewrite zdot_delta_aux. cbn. rewrite Nat.sub_0_r. reflexivity. Qed.

Lemma zdot_map_add {A} (f g : A -> Z) l : forall x,
  zdot (map (fun j => f j + g j) l) x = zdot (map f l) x + zdot (map g l) x.
Proof.
  unfold zdot. induction l as [|a l IH]; intros [|b x]; cbn [map dot]; try lia; try (rewrite IH; lia).
Qed.

Lemma zdot_map_zero {A} (l : list A) x : zdot (map (fun _ => 0) l) x = 0.
Proof. unfold zdot. revert x; induction l as [|a l IH]; intros [|b x]; cbn [map dot]; try lia; try (rewrite IH; lia). Qed.

(* sparse row: entry j is the sum of v over the listed (p, v) with p = j *)
Fixpoint sp_entry (ps : list (nat * Z)) (j : nat) : Z :=
  match ps with
  | [] => 0
  | (p, v) :: r => (if (j =? p)%nat then v else 0) + sp_entry r j
  end.

Fixpoint sp_apply (ps : list (nat * Z)) (x : list Z) : Z :=
  match ps with
  | [] => 0
  | (p, v) :: r => v * nth p x 0 + sp_apply r x
  end.

Lemma zdot_sparse ps n x : length x = n ->
  zdot (map (sp_entry ps) (seq 0 n)) x = sp_apply ps x.
Proof.
  intros Hx. induction ps as [|[p v] r IH]; cbn [sp_entry sp_apply].
  - apply zdot_map_zero.
  - rewrite zdot_map_add, IH, zdot_delta by exact Hx. reflexivity.
Qed.

Lemma zdot_row_sparse (g : nat -> Z) ps n x : length x = n ->
  (forall j, (j < n)%nat -> g j = sp_entry ps j) ->
  zdot (map g (seq 0 n)) x = sp_apply ps x.
Proof. intros Hx H. rewrite (map_seq_ext g (sp_entry ps) n H). apply zdot_sparse. exact Hx. Qed.

(* ---------------- matrices from entry functions ---------------- *)
Lemma mk_mat_length m n f : length (mk_mat m n f) = m.
Proof. unfold mk_mat. rewrite map_length. apply seq_length. Qed.

Lemma mk_mat_wf m n f : wf_mat n (mk_mat m n f).
Proof.
  apply Forall_forall. intros r Hr. unfold mk_mat in Hr. apply in_map_iff in Hr.
  destruct Hr as [i [<- _]]. rewrite map_length. apply seq_length.
Qed.

Lemma mk_mat_matvec m n f x :
  zmatvec (mk_mat m n f) x = map (fun i => zdot (map (f i) (seq 0 n)) x) (seq 0 m).
Proof. unfold zmatvec, matvec, mk_mat. rewrite map_map. reflexivity. Qed.

Lemma mk_mat_ext m n f g :
  (forall i j, (i < m)%nat -> (j < n)%nat -> f i j = g i j) -> mk_mat m n f = mk_mat m n g.
Proof.
  intros H. unfold mk_mat. apply map_seq_ext. intros i Hi. apply map_seq_ext. intros j Hj. apply H; assumption.
Qed.

(* ---------------- Kronecker products ---------------- *)
Lemma zdot_app a b c d : length a = length c -> zdot (a ++ b) (c ++ d) = zdot a c + zdot b d.
Proof. apply (dot_app Z 0 1 Z.add Z.mul Z.sub Z.opp Zth). Qed.

Lemma zdot_vscale_l c x y : zdot (zvscale c x) y = c * zdot x y.
Proof. apply (dot_vscale_l Z 0 1 Z.add Z.mul Z.sub Z.opp Zth). Qed.

(* one row of kron(A, B) against the C-order flattening of an image X (a list of rows):
   sum_k a_k <brow, X_k> *)
Lemma zdot_kron_row brow : forall arow (X : list (list Z)),
  length arow = length X -> Forall (fun r => length r = length brow) X ->
  zdot (concat (map (fun a => zvscale a brow) arow)) (concat X) = zdot arow (map (zdot brow) X).
Proof.
  induction arow as [|a arow IH]; intros [|r X] HL HX; cbn in HL; try discriminate.
  - reflexivity.
  - inversion HX as [|? ? Hr HX']; subst. cbn [map concat].
    rewrite zdot_app by (unfold zvscale; rewrite (vscale_length Z Z.mul); symmetry; exact Hr).
    rewrite zdot_vscale_l, IH by (try lia; assumption). reflexivity.
Qed.

Lemma kron_matvec A B X : Forall (fun arow => length arow = length X) A ->
  (forall brow, In brow B -> Forall (fun r => length r = length brow) X) ->
  zmatvec (kron A B) (concat X) =
  concat (map (fun arow => map (fun brow => zdot arow (map (zdot brow) X)) B) A).
Proof.
  intros HA HB. unfold zmatvec, matvec, kron. rewrite concat_map, map_map. f_equal.
  apply map_ext_in. intros arow Ha. rewrite map_map. apply map_ext_in. intros brow Hb.
  apply zdot_kron_row.
  - rewrite Forall_forall in HA. apply HA. exact Ha.
  - apply HB. exact Hb.
Qed.

Lemma eye_length n : length (eye n) = n.
Proof. unfold eye. rewrite map_length. apply seq_length. Qed.

Lemma zunit_length n i : length (zunit n i) = n.
Proof.
  unfold zunit. revert i; induction n as [|n IH]; intros i; [reflexivity|].
  destruct i; cbn [unit_vec length]; [rewrite (vzero_length Z 0) | rewrite IH]; reflexivity.
Qed.

Lemma zdot_unit n i x : length x = n -> (i < n)%nat -> zdot (zunit n i) x = nth i x 0.
Proof. apply (dot_unit_vec Z 0 1 Z.add Z.mul Z.sub Z.opp Zth). Qed.

(* an n x n image: n rows of length n *)
Definition image (n : nat) (X : list (list Z)) : Prop := length X = n /\ wf_mat n X.

(* kron(I, D) applies D to every row of the image *)
Theorem kron_eye_l n D X : wf_mat n D -> image n X ->
  zmatvec (kron (eye n) D) (concat X) = concat (map (fun row => zmatvec D row) X).
Proof.
  intros HD [HL HX]. rewrite kron_matvec.
  - transitivity (concat (map (fun row => zmatvec D row) (map (fun i => nth i X []) (seq 0 n))));
      [| rewrite <- HL, <- list_as_map_nth; reflexivity].
    unfold eye. rewrite !map_map.
    f_equal. apply map_seq_ext. intros i Hi. unfold zmatvec, matvec. apply map_ext. intros drow.
    rewrite zdot_unit by (try rewrite map_length; assumption).
    rewrite nth_indep with (d' := zdot drow []) by (rewrite map_length; unfold vec in *; rewrite HL; exact Hi).
    apply map_nth.
  - apply Forall_forall. intros a Ha. unfold eye in Ha. apply in_map_iff in Ha.
    destruct Ha as [i [<- _]]. rewrite zunit_length. lia.
  - intros brow Hb. unfold wf_mat in HD. rewrite Forall_forall in HD. rewrite (HD brow Hb). exact HX.
Qed.

(* kron(D, I) applies D to every column of the image: block row r of the result is
   [<D_r, column c of X>]_c *)
Theorem kron_eye_r n D X : wf_mat n D -> image n X ->
  zmatvec (kron D (eye n)) (concat X) =
  concat (map (fun drow => map (fun c => zdot drow (col 0 X c)) (seq 0 n)) D).
Proof.
  intros HD [HL HX]. rewrite kron_matvec.
  - f_equal. apply map_ext. intros drow. unfold eye. rewrite map_map.
    apply map_seq_ext. intros c Hc. f_equal. unfold col. apply map_ext_in. intros r Hr.
    unfold wf_mat in HX. rewrite Forall_forall in HX.
    apply zdot_unit; [apply HX; exact Hr | exact Hc].
  - unfold wf_mat in HD. eapply Forall_impl; [|exact HD]. cbn. intros a Ha. lia.
  - intros brow Hb. unfold eye in Hb. apply in_map_iff in Hb. destruct Hb as [i [<- _]].
    rewrite zunit_length. exact HX.
Qed.

Lemma kron_row_length brow : forall arow,
  length (concat (map (fun a => zvscale a brow) arow)) = (length arow * length brow)%nat.
Proof.
  induction arow as [|a arow IH]; [reflexivity|]. cbn [map concat length].
  rewrite app_length, IH. unfold zvscale. rewrite (vscale_length Z Z.mul). lia.
Qed.

Lemma kron_wf_cols n A B : wf_mat n A -> wf_mat n B -> wf_mat (n * n) (kron A B).
Proof.
  intros HA HB. unfold kron. apply Forall_forall. intros r Hr.
  apply in_concat in Hr. destruct Hr as [blk [Hblk Hr]]. apply in_map_iff in Hblk.
  destruct Hblk as [arow [<- Ha]]. apply in_map_iff in Hr. destruct Hr as [brow [<- Hb]].
  unfold wf_mat in HA, HB. rewrite Forall_forall in HA, HB.
  rewrite kron_row_length, (HA arow Ha), (HB brow Hb). reflexivity.
Qed.
