(* C04 -- model, part 2: cumulative distribution functions (definitions only; needs Coquelicot's RInt). *)
From CV Require Import Base.Tac Model.C04_Dens.
From Coq Require Import Reals.
From Coquelicot Require Import Coquelicot.
Local Open Scope R_scope.

(* ---------- cumulative distribution functions stated as integrals of the documented 1-d densities
   (the code uses erf / scipy's incomplete gamma and beta functions, which the installed libraries do not have) ---------- *)
Definition std_normal_pdf (t : R) : R := exp (- (t * t) / 2) / sqrt (2 * PI).
Definition normal_cdf1 (a : R * R * R) : R := let '(m, s, x) := a in / 2 + RInt std_normal_pdf 0 ((x - m) / s).
Definition normal_cdf (mean std x : list R) : R := rprod (map normal_cdf1 (normal_args mean std x)).
(* the same through the standardised points z_i = (x_i - m_i) / s_i (for the case files: Interval's `integral` wants literal bounds) *)
Definition normal_cdf_z (zs : list R) : R := rprod (map (fun z => / 2 + RInt std_normal_pdf 0 z) zs).
(* Gamma(shape k+1 integer, rate r): density r^(k+1) t^k exp(-r t) / k! *)
Definition gamma_int_pdf (k : nat) (r t : R) : R := r ^ (S k) * t ^ k * exp (- r * t) / INR (fact k).
Definition gamma_int_cdf1 (k : nat) (r x : R) : R := RInt (gamma_int_pdf k r) 0 x.
(* Beta(a+1, b+1) with integers a, b: density t^a (1-t)^b (a+b+1)! / (a! b!) *)
Definition beta_int_pdf (a b : nat) (t : R) : R := t ^ a * (1 - t) ^ b * INR (fact (a + b + 1)) / (INR (fact a) * INR (fact b)).
Definition beta_int_cdf1 (a b : nat) (x : R) : R := RInt (beta_int_pdf a b) 0 x.

